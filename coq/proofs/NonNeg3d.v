(* Sign of the traveltimes of the 3D solver (clause "traveltimes are non-negative" of C03), over the reals
   (T := R, instance NumR).

   RESULT: the clause is FALSE in general and TRUE on cubic grids (dz = dx = dy).

   The value written by one node update is min(t0, t1d, t2d, t3d).  For ALL spacings > 0 and every state with
   non-negative entries, t0, t1d and t2d are >= 0 (t1d_nonneg_3d, t2d_z*_ge, sweep_t2d_nonneg_3d): the three plane
   operators are the 2D 4-point operator (NonNeg2d.four_point_ge_tev: under its admissibility test it is >= the
   diagonal neighbour).  The 8-point operator
         t3d = (t1 + sqrt (t2 - t3)) / dsum,   t1 = tb * dz2i + ta * dx2i + tc * dy2i
   is NOT: with p = 1/dz^2, q = 1/dx^2, r = 1/dy^2
         t1 = (p - (q+r)/2) tv + (q - (p+r)/2) te + (r - (p+q)/2) tn
            + ((p+q)/2 - r) tev + ((q+r)/2 - p) ten + ((p+r)/2 - q) tnv + (p+q+r) tnve        (op3_t1_weights)
   and the two tests of the code ( min(t1d,t2d) > max(tv,te,tn)  and  t2 >= t3 ) do not bound tev, ten, tnv.

     op3_ge_tnve_cubic            p = q = r:  t1 = 3 p tnve, hence t3d >= tnve (>= 0)
     op3_negative_example         dz = dy = 1, dx = 1/2, tnv = 1, the other six neighbours 0, slowness 3/5:
                                  the test t3 <= t2 holds and t3d = - 3/10
     op3_negative_iff_noncubic    for spacings p, q, r > 0: there are non-negative neighbour values and a slowness
                                  >= 0 passing the test t3 <= t2 with t3d < 0   IFF   not (p = q = r)
     sweep_nonneg_3d_refuted      the generated node update `sweep`, called with the tuple sweep3d builds, on a
                                  2 x 2 x 2 node grid with entries >= 0 and slowness 3/5 > 0: writes - 3/10
     sweep_nonneg_3d_false        hence the statement "one node update keeps every entry >= 0" is false
     sweep_negative_binary64, fteik3d_negative_binary64
                                  the same node update in binary64, and a complete run of fteik3d in binary64
                                  (2 x 2 x 1 cells, slowness 8 in the source cell and 1 elsewhere, spacings 1/2, 4, 4,
                                  source at the origin, one sweep): tt[0,0,1] < 0  (the Python code returns
                                  -3.107380552746847 there, also through Eikonal3D.solve)

   What IS proved, for ALL inputs (no hypothesis on shapes or index ranges):
     1. sweep_nonneg_3d_partial   any spacings: the node update keeps every entry >= 0 PROVIDED its 8-point
                                  candidate is >= 0 (the only branch that can fail)
        sweep_nonneg_3d_cubic     dz = dx = dy: the node update keeps every entry >= 0
     2. sweep3d_nonneg_cubic      dz = dx = dy: one pass (sweep3d) keeps every entry >= 0
     3. init_nonneg_3d            any spacings (no hypothesis on them): the state before the first pass is >= 0, vzero >= 0
     4. fteik3d_nonneg_cubic (+ _get)  dz = dx = dy: every traveltime returned by fteik3d is >= 0, and so is vzero

   MISSING for the general statements sweep_nonneg_3d / sweep3d_nonneg / fteik3d_nonneg (arbitrary dz, dx, dy):
   nothing can be added, they are false (see above). *)
From Coq Require Import ZArith List Bool Lia Reals Lra Psatz.
From Coq Require PrimFloat.
From FT.lib Require Import Num Arr ArrLemmas.
From FT.gen Require Import Fteik3d.
From FT.proofs Require Sweep2dProofs Solve2dProofs.
From FT.proofs Require Import NonNeg2d Sweep3dProofs Solve3dProofs SweepDargs Operators3R.
Import ListNotations.
Open Scope R_scope.

Notation four_point := OperatorsR.four_point.

(* ------------------------------------------------------------------------------------------ *)
(* real arithmetic                                                                              *)
(* ------------------------------------------------------------------------------------------ *)
Lemma pymin4_ge (m a b c d : R) : m <= a -> m <= b -> m <= c -> m <= d -> m <= pymin4 a b c d.
Proof. intros Ha Hb Hc Hd. unfold pymin4. apply pymin2_ge; [apply pymin3_ge|]; assumption. Qed.

Lemma pymin4_le_last (a b c d : R) : pymin4 a b c d <= d.
Proof.
  unfold pymin4, pymin2 at 1. cbn [nltb NumR]. destruct (Rltb d (pymin3 a b c)) eqn:E; [lra|].
  apply Rltb_false in E. exact E.
Qed.

Lemma Big3_nonneg : 0 <= (Big : R).
Proof. unfold Big. cbn [nofZ NumR]. lra. Qed.

(* the tuple of spacing constants that sweep3d hands to sweep, in real-number notation *)
Lemma dargs3_R (dz dx dy : R) : dargs3 dz dx dy = dargs_of dz dx dy.
Proof. reflexivity. Qed.

Lemma inv2_pos (d : R) : 0 < d -> 0 < 1 / d / d.
Proof. intros Hd. unfold Rdiv. rewrite Rmult_1_l. apply Rmult_lt_0_compat; apply Rinv_0_lt_compat; exact Hd. Qed.

(* ------------------------------------------------------------------------------------------ *)
(* the three plane operators: arbitrary spacings                                                *)
(* ------------------------------------------------------------------------------------------ *)
(* each is the 2D 4-point operator of its plane under (the strict form of) its admissibility test, and the
   placeholder Big otherwise; so it is Big or at least the time of the face-diagonal neighbour *)
Lemma t2d_zx_ge tv te tev vref dz dx :
  0 < dz -> 0 < dx -> 0 <= vref ->
  t2d_zx tv te tev vref dz dx (1 / dz / dz) (1 / dx / dx) = Big \/
  tev <= t2d_zx tv te tev vref dz dx (1 / dz / dz) (1 / dx / dx).
Proof.
  intros Hdz Hdx Hv. unfold t2d_zx. destruct (Rltb tv (te + dx * vref)) eqn:E1; [|left; reflexivity].
  destruct (Rltb te (tv + dz * vref)) eqn:E2; [|left; reflexivity]. cbn [andb]. right.
  apply Rltb_true in E1, E2. apply four_point_ge_tev; lra.
Qed.

Lemma t2d_zy_ge tv tn tnv vref dz dy :
  0 < dz -> 0 < dy -> 0 <= vref ->
  t2d_zy tv tn tnv vref dz dy (1 / dz / dz) (1 / dy / dy) = Big \/
  tnv <= t2d_zy tv tn tnv vref dz dy (1 / dz / dz) (1 / dy / dy).
Proof.
  intros Hdz Hdy Hv. unfold t2d_zy. destruct (Rltb tv (tn + dy * vref)) eqn:E1; [|left; reflexivity].
  destruct (Rltb tn (tv + dz * vref)) eqn:E2; [|left; reflexivity]. cbn [andb]. right.
  apply Rltb_true in E1, E2. rewrite op2_four_point. apply four_point_ge_tev; lra.
Qed.

Lemma t2d_xy_ge te tn ten vref dx dy :
  0 < dx -> 0 < dy -> 0 <= vref ->
  t2d_xy te tn ten vref dx dy (1 / dx / dx) (1 / dy / dy) = Big \/
  ten <= t2d_xy te tn ten vref dx dy (1 / dx / dx) (1 / dy / dy).
Proof.
  intros Hdx Hdy Hv. unfold t2d_xy. destruct (Rltb te (tn + dy * vref)) eqn:E1; [|left; reflexivity].
  destruct (Rltb tn (te + dx * vref)) eqn:E2; [|left; reflexivity]. cbn [andb]. right.
  apply Rltb_true in E1, E2. rewrite op2_four_point. apply four_point_ge_tev; lra.
Qed.

Lemma big_or_ge_nonneg (x d : R) : 0 <= d -> x = Big \/ d <= x -> 0 <= x.
Proof. intros Hd [-> | H]; [apply Big3_nonneg | lra]. Qed.

(* the radicands of the three plane operators are >= 0 under their tests: NonNeg2d.four_point_radicand_nonneg, which is
   stated for arbitrary spacings of the two axes of the plane, applies verbatim (ZX: dz dx, ZY: dz dy, XY: dx dy) *)
Example plane_radicand_zy tv tn tnv vref dz dy :
  0 < dz -> 0 < dy -> 0 <= vref -> tv <= tn + dy * vref -> tn <= tv + dz * vref ->
  let ta := tnv + tn - tv in let tb := tnv - tn + tv in
  0 <= 4 * (vref * vref) * (1 / dz / dz + 1 / dy / dy) - (1 / dz / dz) * (1 / dy / dy) * ((ta - tb) * (ta - tb)).
Proof. exact (four_point_radicand_nonneg tv tn tnv vref dz dy). Qed.

(* ------------------------------------------------------------------------------------------ *)
(* the 8-point operator                                                                         *)
(* ------------------------------------------------------------------------------------------ *)
(* the linear part t1 of the 8-point operator, neighbour by neighbour *)
Lemma op3_t1_weights tv te tn tev ten tnv tnve p q r :
  op3_b tv te tn tev ten tnv tnve * p + op3_a tv te tn tev ten tnv tnve * q + op3_c tv te tn tev ten tnv tnve * r
  = (p - (q + r) / 2) * tv + (q - (p + r) / 2) * te + (r - (p + q) / 2) * tn
    + ((p + q) / 2 - r) * tev + ((q + r) / 2 - p) * ten + ((p + r) / 2 - q) * tnv + (p + q + r) * tnve.
Proof. unfold op3_a, op3_b, op3_c. field. Qed.

(* equal spacings: t1 = 3 p tnve, so the operator returns at least the time of the cube-diagonal neighbour
   (whatever the other six values and the slowness are, and with or without the test t3 <= t2) *)
Theorem op3_ge_tnve_cubic tv te tn tev ten tnv tnve vref p :
  0 < p -> tnve <= op3 tv te tn tev ten tnv tnve vref p p p (p * p) (p * p) (p * p) (p + p + p).
Proof.
  intros Hp. unfold op3. cbv zeta. rewrite op3_t1_weights.
  set (S := sqrt _). assert (HS : 0 <= S) by apply sqrt_pos.
  apply (Rmult_le_reg_r (p + p + p)); [lra|].
  unfold Rdiv. rewrite Rmult_assoc, Rinv_l by lra. nra.
Qed.

(* a concrete failure: dz = dy = 1, dx = 1/2 *)
Theorem op3_negative_example :
  let dz := 1 in let dx := 1 / 2 in let dy := 1 in
  let dz2i := 1 / dz / dz in let dx2i := 1 / dx / dx in let dy2i := 1 / dy / dy in
  op3_t3 0 0 0 0 0 1 0 (dz2i * dx2i) (dz2i * dy2i) (dx2i * dy2i) <= op3_t2 (3 / 5) (dz2i + dx2i + dy2i) /\
  op3 0 0 0 0 0 1 0 (3 / 5) dz2i dx2i dy2i (dz2i * dx2i) (dz2i * dy2i) (dx2i * dy2i) (dz2i + dx2i + dy2i) = - 3 / 10.
Proof.
  cbv zeta.
  replace (1 / 1 / 1) with 1 by field. replace (1 / (1 / 2) / (1 / 2)) with 4 by field.
  split.
  - unfold op3_t3, op3_t2, op3_a, op3_b, op3_c. cbv zeta. lra.
  - unfold op3. cbv zeta.
    replace (op3_t2 (3 / 5) (1 + 4 + 1) - op3_t3 0 0 0 0 0 1 0 (1 * 4) (1 * 1) (4 * 1)) with ((6 / 5) * (6 / 5))
      by (unfold op3_t3, op3_t2, op3_a, op3_b, op3_c; cbv zeta; field).
    rewrite sqrt_square by lra. unfold op3_a, op3_b, op3_c. field.
Qed.

(* the sign of the 8-point operator is safe exactly on cubic grids *)
Lemma op3_negative_witness p q r (tv te tn tev ten tnv : R) :
  0 < p -> 0 < q -> 0 < r ->
  (* exactly one of tev, ten, tnv is 1, everything else 0; c = its (negative) weight in t1, m = its weight in t3 *)
  forall c m : R, c < 0 -> 0 <= m ->
  op3_b tv te tn tev ten tnv 0 * p + op3_a tv te tn tev ten tnv 0 * q + op3_c tv te tn tev ten tnv 0 * r = c ->
  op3_t3 tv te tn tev ten tnv 0 (p * q) (p * r) (q * r) = m ->
  exists vref, 0 <= vref /\
    op3_t3 tv te tn tev ten tnv 0 (p * q) (p * r) (q * r) <= op3_t2 vref (p + q + r) /\
    op3 tv te tn tev ten tnv 0 vref p q r (p * q) (p * r) (q * r) (p + q + r) < 0.
Proof.
  intros Hp Hq Hr c m Hc Hm E1 E3.
  assert (Hs : 0 < p + q + r) by lra.
  assert (Hk : 0 <= m / (9 * (p + q + r))).
  { apply Rmult_le_pos; [exact Hm | left; apply Rinv_0_lt_compat; lra]. }
  exists (sqrt (m / (9 * (p + q + r)))).
  assert (E2 : op3_t2 (sqrt (m / (9 * (p + q + r)))) (p + q + r) = m).
  { unfold op3_t2. rewrite sqrt_sqrt by exact Hk. field. lra. }
  split; [apply sqrt_pos|]. split; [rewrite E2, E3; lra|].
  unfold op3. cbv zeta. rewrite E1, E2, E3. replace (m - m) with 0 by ring. rewrite sqrt_0, Rplus_0_r.
  unfold Rdiv. pose proof (Rinv_0_lt_compat _ Hs) as Hi. nra.
Qed.

Theorem op3_negative_iff_noncubic p q r :
  0 < p -> 0 < q -> 0 < r ->
  ((exists tv te tn tev ten tnv tnve vref,
      0 <= tv /\ 0 <= te /\ 0 <= tn /\ 0 <= tev /\ 0 <= ten /\ 0 <= tnv /\ 0 <= tnve /\ 0 <= vref /\
      op3_t3 tv te tn tev ten tnv tnve (p * q) (p * r) (q * r) <= op3_t2 vref (p + q + r) /\
      op3 tv te tn tev ten tnv tnve vref p q r (p * q) (p * r) (q * r) (p + q + r) < 0)
   <-> ~ (p = q /\ q = r)).
Proof.
  intros Hp Hq Hr. split.
  - intros (tv & te & tn & tev & ten & tnv & tnve & vref & _ & _ & _ & _ & _ & _ & Hn & _ & _ & Hneg) [E1 E2].
    subst q r. pose proof (op3_ge_tnve_cubic tv te tn tev ten tnv tnve vref p Hp). lra.
  - intros Hne.
    assert (Hcase : 2 * q > p + r \/ 2 * p > q + r \/ 2 * r > p + q).
    { destruct (Rlt_dec (p + r) (2 * q)); [left; lra|]. destruct (Rlt_dec (q + r) (2 * p)); [right; left; lra|].
      destruct (Rlt_dec (p + q) (2 * r)); [right; right; lra|]. exfalso. apply Hne. split; lra. }
    destruct Hcase as [H | [H | H]].
    + (* dx is the small spacing: tnv = 1 *)
      destruct (op3_negative_witness p q r 0 0 0 0 0 1 Hp Hq Hr ((p + r) / 2 - q) (9 / 4 * (q * (p + r))))
        as (vref & Hv & Ht & Hn); [lra | nra | | |].
      * unfold op3_a, op3_b, op3_c. field.
      * unfold op3_t3, op3_a, op3_b, op3_c. cbv zeta. field.
      * exists 0, 0, 0, 0, 0, 1, 0, vref. repeat split; first [assumption | lra].
    + (* dz is the small spacing: ten = 1 *)
      destruct (op3_negative_witness p q r 0 0 0 0 1 0 Hp Hq Hr ((q + r) / 2 - p) (9 / 4 * (p * (q + r))))
        as (vref & Hv & Ht & Hn); [lra | nra | | |].
      * unfold op3_a, op3_b, op3_c. field.
      * unfold op3_t3, op3_a, op3_b, op3_c. cbv zeta. field.
      * exists 0, 0, 0, 0, 1, 0, 0, vref. repeat split; first [assumption | lra].
    + (* dy is the small spacing: tev = 1 *)
      destruct (op3_negative_witness p q r 0 0 0 1 0 0 Hp Hq Hr ((p + q) / 2 - r) (9 / 4 * (r * (p + q))))
        as (vref & Hv & Ht & Hn); [lra | nra | | |].
      * unfold op3_a, op3_b, op3_c. field.
      * unfold op3_t3, op3_a, op3_b, op3_c. cbv zeta. field.
      * exists 0, 0, 0, 1, 0, 0, 0, vref. repeat split; first [assumption | lra].
Qed.

(* ------------------------------------------------------------------------------------------ *)
(* 1. one node update                                                                           *)
(* ------------------------------------------------------------------------------------------ *)
Lemma pymin4_get_nonneg (a : arr R) i1 i2 i3 i4 : nonneg a -> 0 <= pymin4 (get 0 a i1) (get 0 a i2) (get 0 a i3) (get 0 a i4).
Proof. intros Ha. apply pymin4_ge; apply get_nonneg, Ha. Qed.

Lemma t1d_nonneg_3d tt slow dz dx dy i j k sgnvz sgnvx sgnvy sgntz sgntx sgnty nz nx ny :
  0 < dz -> 0 < dx -> 0 < dy -> nonneg slow -> nonneg tt ->
  0 <= t1d tt slow dz dx dy i j k sgnvz sgnvx sgnvy sgntz sgntx sgnty nz nx ny.
Proof.
  intros Hdz Hdx Hdy Hs Ht. unfold t1d, edge_s_z, edge_s_x, edge_s_y, nb_v, nb_e, nb_n.
  apply pymin3_ge;
    match goal with |- 0 <= ?a + ?d * ?m =>
      assert (0 <= a) by (apply get_nonneg, Ht);
      assert (0 <= m) by (apply pymin4_get_nonneg, Hs); nra end.
Qed.

Lemma sweep_t2d_nonneg_3d tt slow dz dx dy i j k sgnvz sgnvx sgnvy sgntz sgntx sgnty nz nx ny :
  0 < dz -> 0 < dx -> 0 < dy -> nonneg slow -> nonneg tt ->
  0 <= sweep_t2d tt slow dz dx dy (1 / dz / dz) (1 / dx / dx) (1 / dy / dy)
                 i j k sgnvz sgnvx sgnvy sgntz sgntx sgnty nz nx ny.
Proof.
  intros Hdz Hdx Hdy Hs Ht. unfold sweep_t2d. cbv zeta.
  assert (Fzx : 0 <= face_s_zx slow i j k sgnvz sgnvx ny) by (unfold face_s_zx; apply pymin2_ge; apply get_nonneg, Hs).
  assert (Fzy : 0 <= face_s_zy slow i j k sgnvz sgnvy nx) by (unfold face_s_zy; apply pymin2_ge; apply get_nonneg, Hs).
  assert (Fxy : 0 <= face_s_xy slow i j k sgnvx sgnvy nz) by (unfold face_s_xy; apply pymin2_ge; apply get_nonneg, Hs).
  apply pymin3_ge.
  - apply (big_or_ge_nonneg _ (nb_ev tt i j k sgntz sgntx)); [apply get_nonneg, Ht | apply t2d_zx_ge; assumption].
  - apply (big_or_ge_nonneg _ (nb_nv tt i j k sgntz sgnty)); [apply get_nonneg, Ht | apply t2d_zy_ge; assumption].
  - apply (big_or_ge_nonneg _ (nb_en tt i j k sgntx sgnty)); [apply get_nonneg, Ht | apply t2d_xy_ge; assumption].
Qed.

(* cubic grid: the 8-point candidate is Big or at least the cube-diagonal neighbour's time *)
Lemma sweep_t3d_nonneg_cubic tt slow d i j k sgnvz sgnvx sgnvy sgntz sgntx sgnty nz nx ny :
  0 < d -> nonneg tt ->
  0 <= sweep_t3d tt slow d d d (1 / d / d) (1 / d / d) (1 / d / d)
                 (1 / d / d * (1 / d / d)) (1 / d / d * (1 / d / d)) (1 / d / d * (1 / d / d))
                 (1 / d / d + 1 / d / d + 1 / d / d) i j k sgnvz sgnvx sgnvy sgntz sgntx sgnty nz nx ny.
Proof.
  intros Hd Ht. unfold sweep_t3d. cbv zeta.
  destruct (Rltb _ _); [|apply Big3_nonneg]. destruct (Rleb _ _); [|apply Big3_nonneg].
  eapply Rle_trans; [|apply op3_ge_tnve_cubic, inv2_pos, Hd]. apply get_nonneg, Ht.
Qed.

(* the generated node update, with the tuple built by sweep3d, in terms of the operators *)
Lemma sweep_dargs3_eq tt ttsgn slow dz dx dy i j k sgnvz sgnvx sgnvy sgntz sgntx sgnty nz nx ny grad :
  fst (sweep tt ttsgn slow (dargs3 dz dx dy) i j k sgnvz sgnvx sgnvy sgntz sgntx sgnty nz nx ny grad)
  = set tt [i; j; k]
      (pymin4 (get 0 tt [i; j; k])
              (t1d tt slow dz dx dy i j k sgnvz sgnvx sgnvy sgntz sgntx sgnty nz nx ny)
              (sweep_t2d tt slow dz dx dy (1 / dz / dz) (1 / dx / dx) (1 / dy / dy)
                         i j k sgnvz sgnvx sgnvy sgntz sgntx sgnty nz nx ny)
              (sweep_t3d tt slow dz dx dy (1 / dz / dz) (1 / dx / dx) (1 / dy / dy)
                         (1 / dz / dz * (1 / dx / dx)) (1 / dz / dz * (1 / dy / dy)) (1 / dx / dx * (1 / dy / dy))
                         (1 / dz / dz + 1 / dx / dx + 1 / dy / dy)
                         i j k sgnvz sgnvx sgnvy sgntz sgntx sgnty nz nx ny)).
Proof. rewrite dargs3_R. unfold dargs_of. apply sweep_tt_eq. Qed.

(* MAIN 1 (partial): arbitrary spacings; the 8-point candidate is the only one whose sign is not guaranteed *)
Theorem sweep_nonneg_3d_partial (tt : arr R) ttsgn (slow : arr R) (dz dx dy : R)
        i j k sgnvz sgnvx sgnvy sgntz sgntx sgnty nz nx ny grad :
  0 < dz -> 0 < dx -> 0 < dy -> nonneg slow -> nonneg tt ->
  0 <= sweep_t3d tt slow dz dx dy (1 / dz / dz) (1 / dx / dx) (1 / dy / dy)
                 (1 / dz / dz * (1 / dx / dx)) (1 / dz / dz * (1 / dy / dy)) (1 / dx / dx * (1 / dy / dy))
                 (1 / dz / dz + 1 / dx / dx + 1 / dy / dy) i j k sgnvz sgnvx sgnvy sgntz sgntx sgnty nz nx ny ->
  nonneg (fst (sweep tt ttsgn slow (dargs3 dz dx dy) i j k sgnvz sgnvx sgnvy sgntz sgntx sgnty nz nx ny grad)).
Proof.
  intros Hdz Hdx Hdy Hs Ht H3. rewrite sweep_dargs3_eq. apply nonneg_set; [exact Ht|].
  apply pymin4_ge.
  - apply get_nonneg, Ht.
  - apply t1d_nonneg_3d; assumption.
  - apply sweep_t2d_nonneg_3d; assumption.
  - exact H3.
Qed.

(* MAIN 1 (cubic grids): all indices, all shapes, all signs *)
Theorem sweep_nonneg_3d_cubic (tt : arr R) ttsgn (slow : arr R) (d : R)
        i j k sgnvz sgnvx sgnvy sgntz sgntx sgnty nz nx ny grad :
  0 < d -> nonneg slow -> nonneg tt ->
  nonneg (fst (sweep tt ttsgn slow (dargs3 d d d) i j k sgnvz sgnvx sgnvy sgntz sgntx sgnty nz nx ny grad)).
Proof.
  intros Hd Hs Ht. apply sweep_nonneg_3d_partial; try assumption. apply sweep_t3d_nonneg_cubic; assumption.
Qed.

(* The full statement asked for,
     forall dz dx dy > 0, nonneg slow -> nonneg tt -> nonneg (fst (sweep tt ttsgn slow (dargs3 dz dx dy) ...)),
   is false: *)
Definition cx_tt : arr R := mkarr [2%Z; 2%Z; 2%Z] [0; 0; 1; 0; 0; 0; 0; 100000].   (* tt[0,1,0] = 1 is `tnv` of node (1,1,1) *)
Definition cx_slow : arr R := mkarr [1%Z; 1%Z; 1%Z] [3 / 5].
Definition cx_sgn : arr Z := full [2%Z; 2%Z; 2%Z; 3%Z] 0%Z.

Lemma cx_tt_nonneg : nonneg cx_tt.
Proof. unfold nonneg, cx_tt. cbn [dat]. repeat constructor; lra. Qed.
Lemma cx_slow_nonneg : nonneg cx_slow.
Proof. unfold nonneg, cx_slow. cbn [dat]. repeat constructor; lra. Qed.
Lemma cx_tt_wf : wf cx_tt.
Proof. split; [reflexivity | repeat constructor; lia]. Qed.

Lemma pymin4_same (x : R) : pymin4 x x x x = x.
Proof. unfold pymin4, pymin3. rewrite !pymin2_same. reflexivity. Qed.

Lemma sqrt_div_pos (x y : R) : 0 < x -> 0 < y -> 0 < (0 + sqrt x) / y.
Proof. intros Hx Hy. rewrite Rplus_0_l. apply Rdiv_lt_0_compat; [apply sqrt_lt_R0; exact Hx | exact Hy]. Qed.

Theorem sweep_nonneg_3d_refuted :
  (0 < 1 /\ 0 < 1 / 2 /\ nonneg cx_slow /\ nonneg cx_tt /\ wf cx_tt /\ shape cx_tt = [2%Z; 2%Z; 2%Z]) /\
  get 0 (fst (sweep cx_tt cx_sgn cx_slow (dargs3 1 (1 / 2) 1) 1 1 1 1 1 1 1 1 1 2 2 2 false)) [1%Z; 1%Z; 1%Z] <= - 3 / 10.
Proof.
  split; [repeat split; try lra; [apply cx_slow_nonneg | apply cx_tt_nonneg | repeat constructor; lia]|].
  rewrite sweep_dargs3_eq. rewrite get_set_same; [| apply cx_tt_wf | reflexivity].
  eapply Rle_trans; [apply pymin4_le_last|].
  assert (Ez : edge_s_z cx_slow 1 1 1 1 2 2 = 3 / 5) by exact (pymin4_same (3 / 5)).
  assert (Ex : edge_s_x cx_slow 1 1 1 1 2 2 = 3 / 5) by exact (pymin4_same (3 / 5)).
  assert (Ey : edge_s_y cx_slow 1 1 1 1 2 2 = 3 / 5) by exact (pymin4_same (3 / 5)).
  assert (Fzx : face_s_zx cx_slow 1 1 1 1 1 2 = 3 / 5) by exact (pymin2_same (3 / 5)).
  assert (Fzy : face_s_zy cx_slow 1 1 1 1 1 2 = 3 / 5) by exact (pymin2_same (3 / 5)).
  assert (Fxy : face_s_xy cx_slow 1 1 1 1 1 2 = 3 / 5) by exact (pymin2_same (3 / 5)).
  assert (Ev : nb_v cx_tt 1 1 1 1 = 0) by reflexivity.
  assert (Ee : nb_e cx_tt 1 1 1 1 = 0) by reflexivity.
  assert (En : nb_n cx_tt 1 1 1 1 = 0) by reflexivity.
  assert (Eev : nb_ev cx_tt 1 1 1 1 1 = 0) by reflexivity.
  assert (Een : nb_en cx_tt 1 1 1 1 1 = 0) by reflexivity.
  assert (Env : nb_nv cx_tt 1 1 1 1 1 = 1) by reflexivity.
  assert (Enve : nb_nve cx_tt 1 1 1 1 1 1 = 0) by reflexivity.
  assert (Ec : cell_s cx_slow 1 1 1 1 1 1 = 3 / 5) by reflexivity.
  destruct op3_negative_example as [Htest Hval]. cbv zeta in Htest, Hval.
  unfold sweep_t3d. cbv zeta. rewrite Ev, Ee, En, Eev, Een, Env, Enve, Ec.
  rewrite (proj2 (Rleb_true _ _) Htest), Hval.
  match goal with |- (if Rltb ?a ?b then _ else _) <= _ => assert (Hlt : a < b) end.
  { unfold t1d, sweep_t2d. cbv zeta. rewrite Ez, Ex, Ey, Fzx, Fzy, Fxy, Ev, Ee, En, Eev, Een, Env.
    apply pymax3_lt; (apply pymin2_gt; [apply pymin3_gt | apply pymin3_gt]); try lra.
    all: unfold t2d_zx, t2d_zy, t2d_xy;
         repeat (rewrite (proj2 (Rltb_true _ _)) by lra); cbn [andb];
         unfold OperatorsR.four_point, op2; cbv zeta.
    all: try (replace (1 / 1 / 1) with 1 by field); try (replace (1 / (1 / 2) / (1 / 2)) with 4 by field).
    all: match goal with |- 0 < (?a + sqrt ?x) / ?y =>
           assert (Hx : 0 < x) by lra; pose proof (sqrt_lt_R0 x Hx); apply Rdiv_lt_0_compat; lra end. }
  rewrite (proj2 (Rltb_true _ _) Hlt). lra.
Qed.

Theorem sweep_nonneg_3d_false :
  ~ (forall (tt : arr R) ttsgn (slow : arr R) (dz dx dy : R) i j k sgnvz sgnvx sgnvy sgntz sgntx sgnty nz nx ny grad,
       0 < dz -> 0 < dx -> 0 < dy -> nonneg slow -> nonneg tt ->
       nonneg (fst (sweep tt ttsgn slow (dargs3 dz dx dy) i j k sgnvz sgnvx sgnvy sgntz sgntx sgnty nz nx ny grad))).
Proof.
  intros H. destruct sweep_nonneg_3d_refuted as [(_ & Hdx & Hs & Ht & _ & _) Hneg].
  specialize (H cx_tt cx_sgn cx_slow 1 (1 / 2) 1 1%Z 1%Z 1%Z 1%Z 1%Z 1%Z 1%Z 1%Z 1%Z 2%Z 2%Z 2%Z false
                ltac:(lra) Hdx ltac:(lra) Hs Ht).
  apply (get_nonneg _ [1%Z; 1%Z; 1%Z]) in H. lra.
Qed.

(* ------------------------------------------------------------------------------------------ *)
(* 2. one pass (cubic grids)                                                                    *)
(* ------------------------------------------------------------------------------------------ *)
(* sweep3d, traveltime component, as the chain of the eight passes of Sweep3dProofs with the known tuple *)
Lemma sweep3d_proj_dargs3 nz nx ny (slow : arr R) (dz dx dy : R) (tt : arr R) ttsgn grad :
  fst (sweep3d tt ttsgn slow dz dx dy nz nx ny grad) = sweep3dT nz nx ny slow (dargs3 dz dx dy) tt.
Proof.
  cbv beta iota delta [sweep3d sweep3dT pass3T Sweep2dProofs.dir_range Sweep2dProofs.sgnv Sweep2dProofs.sgnt].
  Sweep2dProofs.proj_solve ltac:(subst; unfold swT; apply sweep_tt_indep).
Qed.

Lemma pass3T_nonneg_cubic nz nx ny (slow : arr R) (d : R) uz ux uy (tt : arr R) :
  0 < d -> nonneg slow -> nonneg tt -> nonneg (pass3T nz nx ny slow (dargs3 d d d) uz ux uy tt).
Proof.
  intros Hd Hs Ht. unfold pass3T.
  apply (for_list_inv nonneg); [exact Ht|]. intros k t1 _ H1.
  apply (for_list_inv nonneg); [exact H1|]. intros j t2 _ H2.
  apply (for_list_inv nonneg); [exact H2|]. intros i t3 _ H3.
  unfold swT. apply sweep_nonneg_3d_cubic; assumption.
Qed.

(* MAIN 2: all grid sizes nz, nx, ny (also degenerate ones) *)
Theorem sweep3d_nonneg_cubic (tt : arr R) ttsgn (slow : arr R) (d : R) nz nx ny grad :
  0 < d -> nonneg slow -> nonneg tt ->
  nonneg (fst (sweep3d tt ttsgn slow d d d nz nx ny grad)).
Proof.
  intros Hd Hs Ht. rewrite sweep3d_proj_dargs3. unfold sweep3dT. cbv zeta.
  repeat (apply pass3T_nonneg_cubic; [exact Hd | exact Hs |]). exact Ht.
Qed.

Corollary sweep3d_nonneg_cubic_get (tt : arr R) ttsgn (slow : arr R) (d : R) nz nx ny grad :
  0 < d -> nonneg slow -> nonneg tt ->
  forall p q r, 0 <= get 0 (fst (sweep3d tt ttsgn slow d d d nz nx ny grad)) [p; q; r].
Proof. intros Hd Hs Ht p q r. apply get_nonneg, sweep3d_nonneg_cubic; assumption. Qed.

(* ------------------------------------------------------------------------------------------ *)
(* 3. the initial state (any spacings)                                                          *)
(* ------------------------------------------------------------------------------------------ *)
Lemma t_ana_nonneg_3d i j k (dz dx dy zsa xsa ysa vzero : R) : 0 <= vzero -> 0 <= t_ana i j k dz dx dy zsa xsa ysa vzero.
Proof. intros Hv. rewrite t_ana_exact. apply Rmult_le_pos; [exact Hv | apply sqrt_pos]. Qed.

(* MAIN 3: Big everywhere except the eight corners of the source cell, which hold vzero * distance; no hypothesis on
   the spacings, the source position or the shape of the model *)
Theorem init_nonneg_3d (slow : arr R) (dz dx dy zsrc xsrc ysrc : R) :
  nonneg slow ->
  nonneg (tt0_3d slow dz dx dy zsrc xsrc ysrc) /\ 0 <= vzero3 slow dz dx dy zsrc xsrc ysrc.
Proof.
  intros Hs.
  assert (Hv : 0 <= vzero3 slow dz dx dy zsrc xsrc ysrc) by (unfold vzero3; apply (get_nonneg slow), Hs).
  split; [|exact Hv]. unfold tt0_3d, corner3. cbv zeta.
  repeat (apply nonneg_set; [| rewrite t_anad_fst; apply t_ana_nonneg_3d; exact Hv]).
  apply nonneg_full, Big3_nonneg.
Qed.

(* ------------------------------------------------------------------------------------------ *)
(* 4. the solver (cubic grids)                                                                  *)
(* ------------------------------------------------------------------------------------------ *)
Lemma ptt3_nonneg_cubic (slow : arr R) (d : R) grad t :
  0 < d -> nonneg slow -> nonneg t -> nonneg (ptt3 slow d d d grad t).
Proof. intros Hd Hs Ht. unfold ptt3, pass3d. cbn [fst snd]. apply sweep3d_nonneg_cubic; assumption. Qed.

(* MAIN 4: all models (any shape), any source, any number of sweeps, with or without gradient *)
Theorem fteik3d_nonneg_cubic (slow : arr R) (d zsrc xsrc ysrc : R) nsweep grad (tt ttgrad : arr R) (vzero : R) :
  0 < d -> nonneg slow ->
  fteik3d slow d d d zsrc xsrc ysrc nsweep grad = Ok (tt, ttgrad, vzero) ->
  nonneg tt /\ 0 <= vzero.
Proof.
  intros Hd Hs E. apply fteik3d_ok_inv in E as (_ & -> & ->).
  destruct (init_nonneg_3d slow d d d zsrc xsrc ysrc Hs) as [H0 Hv]. split; [|exact Hv].
  induction (Z.to_nat nsweep) as [|n IH]; [exact H0|].
  rewrite Solve2dProofs.iter_S. apply ptt3_nonneg_cubic; assumption.
Qed.

(* every entry >= 0, said with indices, for a well-formed 3-D array *)
Lemma nonneg_iff_get3 (a : arr R) (nz nx ny : Z) :
  wf a -> shape a = [nz; nx; ny] ->
  (nonneg a <-> forall i j k, (0 <= i < nz)%Z -> (0 <= j < nx)%Z -> (0 <= k < ny)%Z -> 0 <= get 0 a [i; j; k]).
Proof.
  intros [Hl Hsh] Es. split; [intros Ha i j k _ _ _; apply get_nonneg, Ha|].
  intros Hg. unfold nonneg. rewrite Forall_forall. intros x Hx.
  destruct (In_nth _ _ 0 Hx) as (n & Hn & <-).
  rewrite Hl, Es in Hn. unfold prodZ in Hn. cbn [fold_right] in Hn.
  rewrite Es in Hsh. inversion Hsh as [|? ? Hnz Hs1]; subst. inversion Hs1 as [|? ? Hnx Hs2]; subst.
  inversion Hs2 as [|? ? Hny _]; subst.
  assert (Hny' : (0 < ny)%Z) by nia. assert (Hnx' : (0 < nx)%Z) by nia.
  assert (Hn' : (0 <= Z.of_nat n < (nz * nx) * ny)%Z) by nia.
  destruct (Sweep2dProofs.decomp2 (Z.of_nat n) (nz * nx) ny Hn' Hny') as (Hm & Hr & En).
  destruct (Sweep2dProofs.decomp2 (Z.of_nat n / ny) nz nx Hm Hnx') as (Hp & Hq & Em).
  specialize (Hg _ _ _ Hp Hq Hr). unfold get in Hg. rewrite Es in Hg. unfold flat in Hg. cbn [flat_aux] in Hg.
  replace (((0 * nz + Z.of_nat n / ny / nx) * nx + Z.of_nat n / ny mod nx) * ny + Z.of_nat n mod ny)%Z
    with (Z.of_nat n) in Hg by lia.
  rewrite Nat2Z.id in Hg. exact Hg.
Qed.

(* the same with indices: slownesses given cell by cell, traveltimes read node by node *)
Corollary fteik3d_nonneg_cubic_get (slow : arr R) (d zsrc xsrc ysrc : R) nsweep grad (tt ttgrad : arr R) (vzero : R) :
  0 < d -> wf slow -> shape slow = [dim slow 0; dim slow 1; dim slow 2] ->
  (forall i j k, (0 <= i < dim slow 0)%Z -> (0 <= j < dim slow 1)%Z -> (0 <= k < dim slow 2)%Z -> 0 <= get 0 slow [i; j; k]) ->
  fteik3d slow d d d zsrc xsrc ysrc nsweep grad = Ok (tt, ttgrad, vzero) ->
  (forall i j k, (0 <= i <= dim slow 0)%Z -> (0 <= j <= dim slow 1)%Z -> (0 <= k <= dim slow 2)%Z -> 0 <= get 0 tt [i; j; k])
  /\ 0 <= vzero.
Proof.
  intros Hd Hw Hsh Hg E.
  destruct (fteik3d_nonneg_cubic slow d zsrc xsrc ysrc nsweep grad tt ttgrad vzero Hd) as [Ht Hv]; [|exact E|].
  - apply (nonneg_iff_get3 slow _ _ _ Hw Hsh), Hg.
  - split; [|exact Hv]. intros i j k _ _ _. apply get_nonneg, Ht.
Qed.

(* ------------------------------------------------------------------------------------------ *)
(* non-vacuity: a model of 2 x 2 x 2 cells of slowness 1 (3 x 3 x 3 nodes), unit spacings        *)
(* ------------------------------------------------------------------------------------------ *)
Definition ex3 : arr R := mkarr [2%Z; 2%Z; 2%Z] [1; 1; 1; 1; 1; 1; 1; 1].
(* seven nodes of the cube (0..1)^3 already reached, every other node at Big; node (1,1,1) is updated *)
Definition ex3_tt : arr R :=
  mkarr [3%Z; 3%Z; 3%Z] [0; 1; 100000;  1; 2; 100000;  100000; 100000; 100000;
                           1; 2; 100000;  2; 100000; 100000;  100000; 100000; 100000;
                           100000; 100000; 100000;  100000; 100000; 100000;  100000; 100000; 100000].
Definition ex3_sgn : arr Z := full [3%Z; 3%Z; 3%Z; 3%Z] 0%Z.
Lemma ex3_nonneg : nonneg ex3.
Proof. unfold nonneg, ex3. cbn [dat]. repeat constructor; lra. Qed.
Lemma ex3_tt_nonneg : nonneg ex3_tt.
Proof. unfold nonneg, ex3_tt. cbn [dat]. repeat constructor; lra. Qed.

Example sweep_nonneg_3d_cubic_ex :
  nonneg (fst (sweep ex3_tt ex3_sgn ex3 (dargs3 1 1 1) 1 1 1 1 1 1 1 1 1 3 3 3 false)).
Proof. apply sweep_nonneg_3d_cubic; [lra | apply ex3_nonneg | apply ex3_tt_nonneg]. Qed.

Example sweep3d_nonneg_cubic_ex : nonneg (fst (sweep3d ex3_tt ex3_sgn ex3 1 1 1 3 3 3 false)).
Proof. apply sweep3d_nonneg_cubic; [lra | apply ex3_nonneg | apply ex3_tt_nonneg]. Qed.

(* source in the middle of cell (0,0,0) *)
Example init_nonneg_3d_ex :
  nonneg (tt0_3d ex3 1 1 1 (1/2) (1/2) (1/2)) /\ 0 <= vzero3 ex3 1 1 1 (1/2) (1/2) (1/2).
Proof. apply init_nonneg_3d, ex3_nonneg. Qed.

Lemma ex3_inside : inside3d ex3 1 1 1 (1/2) (1/2) (1/2) = true.
Proof.
  unfold inside3d. cbn [dim shape ex3 nth]. cbn [nleb nmul nofZ NumR].
  rewrite !andb_true_iff, !Rleb_true. lra.
Qed.
Example fteik3d_nonneg_cubic_ex :
  exists tt G v, fteik3d ex3 1 1 1 (1/2) (1/2) (1/2) 2 false = Ok (tt, G, v) /\ nonneg tt /\ 0 <= v.
Proof.
  destruct (fteik3d_raises_iff ex3 1 1 1 (1/2) (1/2) (1/2) 2 false) as [_ H].
  destruct (H ex3_inside) as [[[tt G] v] E]. exists tt, G, v. split; [exact E|].
  apply (fteik3d_nonneg_cubic ex3 1 (1/2) (1/2) (1/2) 2 false tt G v); [lra | apply ex3_nonneg | exact E].
Qed.

Module Binary64.
Import PrimFloat.
(* the same node update in binary64 (slowness 5/8, exactly representable): the value written is negative *)
Definition cxF_tt : arr PrimFloat.float := mkarr [2%Z; 2%Z; 2%Z] [0; 0; 1; 0; 0; 0; 0; 100000]%float.
Definition cxF_slow : arr PrimFloat.float := mkarr [1%Z; 1%Z; 1%Z] [0.625%float].
Example sweep_negative_binary64 :
  PrimFloat.ltb
    (get 0%float (fst (sweep cxF_tt cx_sgn cxF_slow (dargs3 1%float 0.5%float 1%float) 1 1 1 1 1 1 1 1 1 2 2 2 false))
         [1%Z; 1%Z; 1%Z]) (-0.2)%float = true.
Proof. vm_compute. reflexivity. Qed.

(* ------------------------------------------------------------------------------------------ *)
(* the solver itself returns a negative traveltime on a non-cubic grid (binary64, by computation) *)
(* ------------------------------------------------------------------------------------------ *)
(* 2 x 2 x 1 cells; slowness 8 in the source cell (0,0,0), 1 in the three others; dz = 1/2, dx = dy = 4; source at the
   origin; one sweep.  The Python implementation returns tt[0,0,1] = -3.107380552746847 on this input (and the same
   through Eikonal3D(1/slow, gridsize=(0.5, 4, 4)).solve((0,0,0))), so does the binary64 instance of the model. *)
Definition bugF_slow : arr PrimFloat.float := mkarr [2%Z; 2%Z; 1%Z] [8; 1; 1; 1]%float.
Example fteik3d_negative_binary64 :
  match fteik3d bugF_slow 0.5%float 4%float 4%float 0%float 0%float 0%float 1 false with
  | Ok (t, _, v) => PrimFloat.ltb (get 0%float t [0%Z; 0%Z; 1%Z]) (-3.1)%float = true /\ v = 8%float
  | _ => False
  end.
Proof. vm_compute. split; reflexivity. Qed.
(* and it stays negative however many sweeps are made (checked here for 2 and 5) *)
Example fteik3d_negative_binary64_more :
  forall n, In n [2%Z; 5%Z] ->
  match fteik3d bugF_slow 0.5%float 4%float 4%float 0%float 0%float 0%float n false with
  | Ok (t, _, _) => PrimFloat.ltb (get 0%float t [0%Z; 0%Z; 1%Z]) (-3.1)%float = true
  | _ => False
  end.
Proof. intros n [<- | [<- | []]]; vm_compute; reflexivity. Qed.
End Binary64.

Print Assumptions op3_ge_tnve_cubic.
Print Assumptions op3_negative_example.
Print Assumptions op3_negative_iff_noncubic.
Print Assumptions sweep_nonneg_3d_partial.
Print Assumptions sweep_nonneg_3d_cubic.
Print Assumptions sweep_nonneg_3d_refuted.
Print Assumptions sweep_nonneg_3d_false.
Print Assumptions Binary64.sweep_negative_binary64.
Print Assumptions sweep3d_nonneg_cubic.
Print Assumptions init_nonneg_3d.
Print Assumptions fteik3d_nonneg_cubic.
Print Assumptions fteik3d_nonneg_cubic_get.
Print Assumptions Binary64.fteik3d_negative_binary64.
