(* 2D eikonal solver driver (gen/Fteik2d.v: fteik2d = fteik2d_p1 ; fteik2d_p2 ; nsweep * sweep2d ; gradient),
   generic in the numeric type unless stated otherwise:
     1. fteik2d_raises_iff            raises ValueError exactly when the code's inside-test is false
     2. fteik2d_nsweep_iter           nsweep is only an iteration count of one fixed pass
     3. fteik2d_init_okT              the initial traveltime grid is well formed, shape (nz+1, nx+1)
     4. fteik2d_monotone_in_nsweep    one more sweep never increases a traveltime (bit for bit)
     5. fteik2d_fixed_stays           once a sweep changes nothing, no later sweep does
     6. fteik2d_tt_indep_of_grad      the traveltime grid and vzero do not depend on return_gradient
     7. fteik2d_converges             (binary64) the grids are eventually constant in nsweep *)
From Coq Require Import ZArith List Bool Lia.
From FT.lib Require Import Num Arr ArrLemmas Lower.
From FT.gen Require Import Fteik2d.
From FT.proofs Require Import Sweep2dProofs NumFLaws.
Import ListNotations.
Open Scope Z_scope.

(* ------------------------------------------------------------------------------------------ *)
(* generic tools (shared with the 3D file)                                                      *)
(* ------------------------------------------------------------------------------------------ *)

Lemma if_negb_false {A} (c : bool) (a b r : A) : c = false -> a = r -> (if negb c then a else b) = r.
Proof. intros -> <-. reflexivity. Qed.

(* a counting loop whose body ignores the counter is an iteration *)
Lemma pyrange_0_length n : length (pyrange 0 n 1) = Z.to_nat n.
Proof. unfold pyrange. change (0 <? 1) with true. cbv iota. rewrite map_length, seq_length.
  f_equal. rewrite Z.div_1_r. lia. Qed.
Lemma iter_succ_r {A} (f : A -> A) n s : Nat.iter (S n) f s = Nat.iter n f (f s).
Proof. induction n as [|n IH]; [reflexivity|].
  change (f (Nat.iter (S n) f s) = f (Nat.iter n f (f s))). f_equal. exact IH. Qed.
Lemma for_list_const {S} (l : list Z) (f : S -> S) body s :
  (forall i s, body i s = f s) -> for_list l body s = Nat.iter (length l) f s.
Proof. intros Hb. revert s. induction l as [|i l IH]; intros s; [reflexivity|].
  rewrite for_list_cons, IH, Hb. cbn [length]. rewrite iter_succ_r. reflexivity. Qed.
Lemma for_range_iter {S} (f : S -> S) n body s :
  (forall i s, body i s = f s) -> for_list (pyrange 0 n 1) body s = Nat.iter (Z.to_nat n) f s.
Proof. intros Hb. rewrite (for_list_const _ f) by exact Hb. rewrite pyrange_0_length. reflexivity. Qed.

(* iterating a map on pairs whose first component only depends on the first component *)
Lemma iter_fst {A B} (p : A * B -> A * B) (q : A -> A) :
  (forall s, fst (p s) = q (fst s)) -> forall k s, fst (Nat.iter k p s) = Nat.iter k q (fst s).
Proof. intros Hp k s. induction k as [|k IH]; [reflexivity|].
  change (fst (p (Nat.iter k p s)) = q (Nat.iter k q (fst s))). rewrite Hp, IH. reflexivity. Qed.
(* the same from an explicit pair: stated with variables, so that using it never makes the kernel compare
   `fst (a, b)` with `a` for a big (generated) `a` *)
Lemma iter_fst_pair {A B} (p : A * B -> A * B) (q : A -> A) :
  (forall s, fst (p s) = q (fst s)) -> forall k a b, fst (Nat.iter k p (a, b)) = Nat.iter k q a.
Proof. intros Hp k a b. exact (iter_fst p q Hp k (a, b)). Qed.

Lemma iter_ext {A} (f g : A -> A) : (forall x, f x = g x) -> forall k a, Nat.iter k f a = Nat.iter k g a.
Proof. intros E k a. induction k as [|k IH]; [reflexivity|].
  change (f (Nat.iter k f a) = g (Nat.iter k g a)). rewrite IH. apply E. Qed.
Lemma iter_S {A} (f : A -> A) k a : Nat.iter (S k) f a = f (Nat.iter k f a).
Proof. reflexivity. Qed.

(* a sequence that repeats once repeats forever *)
Lemma iter_fixed_stays {A} (q : A -> A) a n :
  Nat.iter (S n) q a = Nat.iter n q a -> forall m, (n <= m)%nat -> Nat.iter m q a = Nat.iter n q a.
Proof. intros E m Hm. induction Hm as [|m Hm IH]; [reflexivity|].
  change (q (Nat.iter m q a) = Nat.iter n q a). rewrite IH. exact E. Qed.

(* ---------- walking a generated top-level let-chain ---------- *)
(* The generated let-chain is walked one binding at a time, every bound value becoming a local definition, so that no
   term is ever duplicated.  `res_is a c r`: the solver result r is Ok with traveltime grid a and vzero c. *)
Section ResIs.
Context {T : Type}.
Definition res_is (a : arr T) (c : T) (r : res (arr T * arr T * T)) : Prop :=
  match r with Ok (a', _, c') => a' = a /\ c' = c | _ => False end.
Lemma res_is_if a c (cond : bool) x y : cond = true -> res_is a c y -> res_is a c (if negb cond then x else y).
Proof. intros ->. exact (fun h => h). Qed.
Lemma res_is_ex a c r : res_is a c r -> exists G, r = Ok (a, G, c).
Proof. destruct r as [[[a' G] c']| |]; cbn; try contradiction. intros [-> ->]. exists G. reflexivity. Qed.
End ResIs.

Ltac let_intro :=
  lazymatch goal with
  | |- res_is ?a ?c (let x := ?v in @?F x) =>
      let y := fresh x in pose (y := v); change (res_is a c (F y)); cbv beta
  | |- (let x := ?v in @?F x) = ?r =>
      let y := fresh x in pose (y := v); change (F y = r); cbv beta
  end.

(* ---------- shapes are preserved: a unary walk through generated let-chains ---------- *)
(* shape and data length of an array *)
Definition sig {A} (a : arr A) : list Z * nat := (shape a, length (dat a)).
Lemma sig_set {A} (a : arr A) idx v : sig (set a idx v) = sig a.
Proof. unfold sig, set; cbn [shape dat]. rewrite upd_length. reflexivity. Qed.
Lemma sig_wf {A} (a b : arr A) : sig a = sig b -> wf b -> wf a.
Proof. unfold sig, wf. intros E. injection E as -> ->. auto. Qed.

(* "every array in the state has the shape and data length it had in the reference state", by type *)
Class Shp (S : Type) := {
  shp : S -> S -> Prop;
  shp_refl : forall s, shp s s;
  shp_trans : forall a b c, shp a b -> shp b c -> shp a c }.
#[global] Instance Shp_arr A : Shp (arr A).
Proof. refine {| shp a b := sig a = sig b |}; [reflexivity | intros; congruence]. Defined.
#[global] Instance Shp_pair A B `{Shp A} `{Shp B} : Shp (A * B).
Proof. refine {| shp s t := shp (fst s) (fst t) /\ shp (snd s) (snd t) |}.
  - intros s; split; apply shp_refl.
  - intros a b c [H1 H2] [H3 H4]; split; eapply shp_trans; eauto. Defined.
Definition keeps {S} `{Shp S} (s0 s : S) : Prop := shp s s0.
Lemma keeps_refl {S} `{Shp S} (s : S) : keeps s s. Proof. apply shp_refl. Qed.
Lemma for_list_keeps {S} `{Shp S} l (b : Z -> S -> S) s0 :
  (forall i s, In i l -> keeps s (b i s)) -> keeps s0 (for_list l b s0).
Proof. intros Hb. apply (for_list_inv (fun s => keeps s0 s)); [apply shp_refl|]. intros i s Hi Hs.
  unfold keeps in *. eapply shp_trans; [apply Hb; exact Hi | exact Hs]. Qed.

Ltac keeps_leaf unf :=
  unf; unfold keeps in *; cbn [shp Shp_arr Shp_pair fst snd] in *;
  repeat match goal with X : (_ * _)%type |- _ => destruct X end; cbn [fst snd] in *;
  repeat match goal with H : _ /\ _ |- _ => destruct H end;
  repeat split;
  repeat match goal with H : context [sig (set _ _ _)] |- _ => rewrite !sig_set in H end;
  rewrite ?sig_set; congruence.

(* ---------- generated let-chains in combinator form ---------- *)
(* The kernel compares two terms that contain `let`s by expanding every `let` (no sharing): a proof step that changes
   a let-chain even slightly (one beta-redex) costs a comparison of the fully expanded terms, and that size grows
   geometrically with every re-use of a bound variable in the generated code.  So a generated term is translated ONCE
   into a chain of `Let_In v (fun x => ...)` (one conversion, checked once at the Qed of the bridging lemma), and the
   walks below work on that form only: every step is the application of a lemma whose statement matches the goal
   syntactically, a bound scalar becomes a universally quantified variable and is never copied. *)
Definition Let_In {A B} (v : A) (f : A -> B) : B := f v.

(* the translation: lets at statement level, under conditionals, in loop bodies and under binders *)
Ltac lf t :=
  lazymatch t with
  | (let x := ?v in @?F x) => let v' := lf v in let F' := lf F in constr:(Let_In v' F')
  | (fun x : ?A => @?F x) =>
      constr:(fun x : A => ltac:(let b := eval cbv beta in (F x) in let b' := lf b in exact b'))
  | (if ?c then ?a else ?b) => let a' := lf a in let b' := lf b in constr:(if c then a' else b')
  | for_list ?l ?b ?s => let b' := lf b in constr:(for_list l b' s)
  | _ => t
  end.
(* the value bound by the first `let` under the leading binders *)
Ltac lf_first t :=
  lazymatch t with
  | (fun x : ?A => @?F x) =>
      constr:(fun x : A => ltac:(let b := eval cbv beta in (F x) in let b' := lf_first b in exact b'))
  | (let x := ?v in _) => lf v
  end.

Lemma LI_subst {A B} (Q : B -> Prop) (v : A) (F : A -> B) : Q (F v) -> Q (Let_In v F).
Proof. exact (fun h => h). Qed.
Lemma LI_all {A B} (Q : B -> Prop) (v : A) (F : A -> B) : (forall x, Q (F x)) -> Q (Let_In v F).
Proof. exact (fun h => h v). Qed.
Lemma LI_inv {A B} (Q : B -> Prop) (P : A -> Prop) (v : A) (F : A -> B) :
  P v -> (forall x, P x -> Q (F x)) -> Q (Let_In v F).
Proof. exact (fun hv h => h v hv). Qed.

(* does a type hold an array? *)
Ltac has_arr ty :=
  lazymatch ty with
  | arr _ => idtac
  | (?a * ?b)%type => first [ has_arr a | has_arr b ]
  end.

(* Goal  Q (Let_In v F).  Loops and conditional updates are cut out (one invariant each: the state keeps its shapes
   w.r.t. the loop's initial state / the else-branch), other array bindings are substituted (their values are small:
   every scalar in them is a variable), bindings that hold no array become variables.  `unf` unfolds Q. *)
Ltac uwalk unf :=
  lazymatch goal with
  | |- ?Q (@Let_In ?A _ ?v ?F) =>
      tryif has_arr A then
        lazymatch v with
        | for_list ?l ?b ?s =>
            refine (LI_inv Q (keeps s) v F _ _);
            [ apply for_list_keeps; intros ? ? _; cbv beta; uwalk ltac:(idtac)
            | intros ? ?; cbv beta; uwalk unf ]
        | (if ?c then ?a else ?b) =>
            refine (LI_inv Q (keeps b) v F _ _);
            [ destruct c; [ uwalk ltac:(idtac) | apply keeps_refl ]
            | intros ? ?; cbv beta; uwalk unf ]
        | _ => refine (LI_subst Q v F _); cbv beta; uwalk unf
        end
      else (refine (LI_all Q v F _); intros ?; cbv beta; uwalk unf)
  | |- _ => keeps_leaf unf
  end.

(* ---------- two runs in lock-step: a binary walk ---------- *)
(* related states, by type: integer arrays (the gradient sign bookkeeping) are unconstrained, everything else is equal *)
Class Rel (S : Type) := rel : S -> S -> Prop.
#[global] Instance Rel_arrZ : Rel (arr Z) | 0 := fun _ _ => True.
#[global] Instance Rel_pair A B `{Rel A} `{Rel B} : Rel (A * B) | 1 := fun s t => rel (fst s) (fst t) /\ rel (snd s) (snd t).
#[global] Instance Rel_eq A : Rel A | 100 := @eq A.

Ltac brel_simpl_in H := cbv beta delta [rel Rel_arrZ Rel_pair Rel_eq] in H; cbn [fst snd] in H.
Ltac bprep :=
  repeat match goal with X : (_ * _)%type |- _ => destruct X end;
  repeat match goal with
         | H : rel _ _ |- _ => brel_simpl_in H
         | H : _ /\ _ |- _ => destruct H
         | H : True |- _ => clear H
         | H : ?x = ?y |- _ => is_var x; is_var y; subst y
         end;
  cbn beta iota delta [fst snd].
Ltac bleaf unf := unf; cbv beta delta [rel Rel_arrZ Rel_pair Rel_eq]; cbn [fst snd]; repeat split; reflexivity.

Lemma LI2_subst {A B} (Q : B -> B -> Prop) (v v' : A) (F F' : A -> B) :
  Q (F v) (F' v') -> Q (Let_In v F) (Let_In v' F').
Proof. exact (fun h => h). Qed.
Lemma LI2_same {A B} (Q : B -> B -> Prop) (v : A) (F F' : A -> B) :
  (forall x, Q (F x) (F' x)) -> Q (Let_In v F) (Let_In v F').
Proof. exact (fun h => h v). Qed.
Lemma LI2_free {A B} (Q : B -> B -> Prop) (v v' : A) (F F' : A -> B) :
  (forall x x', Q (F x) (F' x')) -> Q (Let_In v F) (Let_In v' F').
Proof. exact (fun h => h v v'). Qed.
Lemma LI2_rel {A B} (Q : B -> B -> Prop) (P : A -> A -> Prop) (v v' : A) (F F' : A -> B) :
  P v v' -> (forall x x', P x x' -> Q (F x) (F' x')) -> Q (Let_In v F) (Let_In v' F').
Proof. exact (fun hv h => h v v' hv). Qed.

(* Goal  Q (Let_In v F) (Let_In v' F').  Loops and conditional updates are cut out (related results), a binding
   without arrays whose value is the same term in both runs becomes one shared variable, anything else is
   substituted. *)
Ltac bwalk unf :=
  cbn beta iota delta [fst snd];
  lazymatch goal with
  | |- ?Q (@Let_In ?A _ ?v ?F) (@Let_In ?A _ ?v' ?F') =>
      let H := fresh "H" in let X := fresh "X" in let X' := fresh "X" in
      lazymatch constr:((v, v')) with
      | (for_list ?l ?b ?s, for_list ?l ?b' ?s') =>
          refine (LI2_rel Q rel v v' F F' _ _);
          [ apply for_list_rel; [ bleaf ltac:(idtac) | intros ? ? ? _ ?; bprep; bwalk ltac:(idtac) ]
          | intros X X' H; bprep; bwalk unf ]
      | ((if ?c then ?a else ?b), (if ?c' then ?a' else ?b')) =>
          tryif (assert (H : rel v v') by first [ bleaf ltac:(idtac) | constr_eq c c'; destruct c; bwalk ltac:(idtac) ])
          then (refine (LI2_rel Q rel v v' F F' H _); clear H; intros X X' H; bprep; bwalk unf)
          else (refine (LI2_free Q v v' F F' _); intros X X'; bwalk unf)
      | _ =>
          tryif has_arr A then (refine (LI2_subst Q v v' F F' _); bwalk unf)
          else tryif constr_eq v v' then (refine (LI2_same Q v F F' _); intros X; bwalk unf)
          else (refine (LI2_subst Q v v' F F' _); bwalk unf)
      end
  | |- _ => bleaf unf
  end.

(* ------------------------------------------------------------------------------------------ *)
(* the pieces of fteik2d                                                                        *)
(* ------------------------------------------------------------------------------------------ *)
(* conversion must never unfold the big generated constants when comparing two calls *)
Local Strategy 1000 [fteik2d_p1 fteik2d_p2 sweep2d].

(* on a grid with a single layer of nodes along one axis (or none) every loop of sweep2d is empty *)
Lemma dir_range_small up n : n <= 1 -> dir_range up n = [].
Proof.
  intros Hn. destruct (dir_range up n) as [|i l] eqn:E; [reflexivity|]. exfalso.
  assert (Hi : In i (dir_range up n)) by (rewrite E; left; reflexivity).
  apply in_dir_range in Hi. destruct up; cbn in Hi; lia.
Qed.
Lemma for_list_id_ext {S} (l : list Z) (body : Z -> S -> S) (s : S) :
  (forall i t, body i t = t) -> for_list l body s = s.
Proof. intros Hb. apply (for_list_inv (fun t => t = s)); [reflexivity|]. intros i t _ ->. apply Hb. Qed.
Lemma for_list_id {S} (l : list Z) (s : S) : for_list l (fun _ t => t) s = s.
Proof. apply for_list_id_ext. reflexivity. Qed.
Lemma sweep2d_small {T} `{Num T} (tt : arr T) ttsgn slow dz dx zsi xsi zsa xsa vzero nz nx grad :
  nz <= 1 \/ nx <= 1 -> fst (sweep2d tt ttsgn slow dz dx zsi xsi zsa xsa vzero nz nx grad) = tt.
Proof.
  intros Hs. destruct (sweep2d_proj nz nx slow dz dx zsi xsi zsa xsa vzero) as (dargs & E & _).
  rewrite E, sweep2dT_passes. unfold passT. destruct Hs as [Hs|Hs].
  - unfold halfT. rewrite !(dir_range_small _ nz Hs). cbn [for_list fold_left]. rewrite !for_list_id. reflexivity.
  - rewrite !(dir_range_small _ nx Hs). reflexivity.
Qed.

(* fteik2d_p2 = let u := (if iflag =? 2 then ... else ...) in (fst (fst u), snd (fst u), snd u): the bound value, in
   combinator form *)
Definition p2core :=
  ltac:(let t := eval cbv beta delta [fteik2d_p2] in (@fteik2d_p2) in let t' := lf_first t in exact t').

Section P2.
Context {T : Type} `{Num T}.

(* the only place where the generated let-chain meets its combinator form (checked by the kernel at this Qed) *)
Lemma fteik2d_p2_tt dx dz grad iflag nx nz slow (tt : arr T) G S vzero xsa xsi zsa zsi :
  fst (fst (fteik2d_p2 dx dz grad iflag nx nz slow tt G S vzero xsa xsi zsa zsi)) =
  fst (fst (p2core T _ dx dz grad iflag nx nz slow tt G S vzero xsa xsi zsa zsi)).
Proof. exact_no_check (eq_refl (fst (fst (p2core T _ dx dz grad iflag nx nz slow tt G S vzero xsa xsi zsa zsi)))). Qed.

Definition tt_keeps (t0 : arr T) (r : arr T * arr T * arr Z) : Prop := sig (fst (fst r)) = sig t0.
Lemma fteik2d_p2_sig dx dz grad iflag nx nz slow (tt : arr T) G S vzero xsa xsi zsa zsi :
  tt_keeps tt (fteik2d_p2 dx dz grad iflag nx nz slow tt G S vzero xsa xsi zsa zsi).
Proof.
  unfold tt_keeps. rewrite fteik2d_p2_tt.
  change (tt_keeps tt (p2core T _ dx dz grad iflag nx nz slow tt G S vzero xsa xsi zsa zsi)).
  cbv beta delta [p2core].
  lazymatch goal with |- tt_keeps _ (if ?c then _ else _) => destruct c end.
  - uwalk ltac:(unfold tt_keeps).
  - uwalk ltac:(unfold tt_keeps).
Qed.

Definition tt_same (r r' : arr T * arr T * arr Z) : Prop := fst (fst r) = fst (fst r').
Lemma fteik2d_p2_tt_indep dx dz iflag nx nz slow (tt : arr T) vzero xsa xsi zsa zsi grad grad' G G' S S' :
  tt_same (fteik2d_p2 dx dz grad iflag nx nz slow tt G S vzero xsa xsi zsa zsi)
          (fteik2d_p2 dx dz grad' iflag nx nz slow tt G' S' vzero xsa xsi zsa zsi).
Proof.
  unfold tt_same. rewrite !fteik2d_p2_tt.
  change (tt_same (p2core T _ dx dz grad iflag nx nz slow tt G S vzero xsa xsi zsa zsi)
                  (p2core T _ dx dz grad' iflag nx nz slow tt G' S' vzero xsa xsi zsa zsi)).
  cbv beta delta [p2core].
  lazymatch goal with |- tt_same (if ?c then _ else _) (if ?c then _ else _) => destruct c end.
  - bwalk ltac:(unfold tt_same).
  - bwalk ltac:(unfold tt_same).
Qed.
End P2.

Section Solve.
Context {T : Type} `{Num T}.
Variables (slow : arr T) (dz dx zsrc xsrc : T).

(* the code's test (condz and condx) *)
Definition inside2d : bool :=
  let nz := dim slow 0 in let nx := dim slow 1 in
  (nleb (nofZ 0) zsrc && nleb zsrc (nmul dz (nofZ nz))) && (nleb (nofZ 0) xsrc && nleb xsrc (nmul dx (nofZ nx))).

(* outputs of fteik2d_p1 = (iflag, nx, nz, tt, ttgrad, ttsgn, vzero, xsa, xsi, zsa, zsi) *)
Definition p1 (grad : bool) := fteik2d_p1 dx dz grad (dim slow 1) (dim slow 0) slow xsrc zsrc.
Definition i_iflag grad : Z := fst (fst (fst (fst (fst (fst (fst (fst (fst (fst (p1 grad)))))))))).
Definition i_nx grad : Z := snd (fst (fst (fst (fst (fst (fst (fst (fst (fst (p1 grad)))))))))).
Definition i_nz grad : Z := snd (fst (fst (fst (fst (fst (fst (fst (fst (p1 grad))))))))).
Definition i_tt1 grad : arr T := snd (fst (fst (fst (fst (fst (fst (fst (p1 grad)))))))).
Definition i_ttgrad1 grad : arr T := snd (fst (fst (fst (fst (fst (fst (p1 grad))))))).
Definition i_ttsgn1 grad : arr Z := snd (fst (fst (fst (fst (fst (p1 grad)))))).
Definition i_vzero grad : T := snd (fst (fst (fst (fst (p1 grad))))).
Definition i_xsa grad : T := snd (fst (fst (fst (p1 grad)))).
Definition i_xsi grad : Z := snd (fst (fst (p1 grad))).
Definition i_zsa grad : T := snd (fst (p1 grad)).
Definition i_zsi grad : Z := snd (p1 grad).
(* outputs of fteik2d_p2 = (tt, ttgrad, ttsgn) *)
Definition p2 (grad : bool) :=
  fteik2d_p2 dx dz grad (i_iflag grad) (i_nx grad) (i_nz grad) slow (i_tt1 grad) (i_ttgrad1 grad) (i_ttsgn1 grad)
             (i_vzero grad) (i_xsa grad) (i_xsi grad) (i_zsa grad) (i_zsi grad).
Definition i_tt grad : arr T := fst (fst (p2 grad)).
Definition i_ttgrad grad : arr T := snd (fst (p2 grad)).
Definition i_ttsgn grad : arr Z := snd (p2 grad).

Definition init_state : Type := (arr T * arr Z * Z * Z * T * T * T * Z * Z * arr T)%type.
Definition st_tt (st : init_state) : arr T := fst (fst (fst (fst (fst (fst (fst (fst (fst st)))))))).
Definition st_ttsgn (st : init_state) : arr Z := snd (fst (fst (fst (fst (fst (fst (fst (fst st)))))))).
Definition st_vzero (st : init_state) : T := snd (fst (fst (fst st))).

(* the state before the first sweep: (tt, ttsgn, zsi, xsi, zsa, xsa, vzero, nz, nx, ttgrad); no dependence on nsweep *)
Definition init2d (grad : bool) : init_state :=
  (i_tt grad, i_ttsgn grad, i_zsi grad, i_xsi grad, i_zsa grad, i_xsa grad, i_vzero grad, i_nz grad, i_nx grad,
   i_ttgrad grad).

(* one pass of the sweeping loop, on the state (tt, ttsgn) *)
Definition pass2d (grad : bool) (st : arr T * arr Z) : arr T * arr Z :=
  sweep2d (fst st) (snd st) slow dz dx (nofZ (i_zsi grad)) (nofZ (i_xsi grad)) (i_zsa grad) (i_xsa grad)
          (i_vzero grad) (i_nz grad) (i_nx grad) grad.

(* characterisation of fteik2d used by everything below *)
Lemma fteik2d_outside nsweep grad : inside2d = false -> fteik2d slow dz dx zsrc xsrc nsweep grad = Raise ValueError.
Proof. intros Hin. cbv beta delta [fteik2d]. repeat let_intro. apply if_negb_false; [exact Hin | reflexivity]. Qed.

Lemma fteik2d_inside nsweep grad :
  inside2d = true ->
  res_is (fst (Nat.iter (Z.to_nat nsweep) (pass2d grad) (i_tt grad, i_ttsgn grad))) (i_vzero grad)
         (fteik2d slow dz dx zsrc xsrc nsweep grad).
Proof.
  intros Hin. cbv beta delta [fteik2d]. repeat let_intro. apply res_is_if; [exact Hin|]. repeat let_intro.
  split; [|reflexivity].
  lazymatch goal with |- ?x = _ => subst x end.
  lazymatch goal with |- fst ?x = _ => subst x end.
  f_equal. apply for_range_iter. intros i s. symmetry. apply surjective_pairing.
Qed.

Lemma fteik2d_char nsweep grad :
  exists G, fteik2d slow dz dx zsrc xsrc nsweep grad =
    if inside2d then Ok (fst (Nat.iter (Z.to_nat nsweep) (pass2d grad) (i_tt grad, i_ttsgn grad)), G, i_vzero grad)
    else Raise ValueError.
Proof.
  destruct inside2d eqn:Hin.
  - apply res_is_ex, fteik2d_inside, Hin.
  - exists (full [] (nofZ 0)). apply fteik2d_outside, Hin.
Qed.

(* ---------- 1 ---------- *)
Theorem fteik2d_raises_iff nsweep grad :
  (inside2d = false -> fteik2d slow dz dx zsrc xsrc nsweep grad = Raise ValueError) /\
  (inside2d = true -> exists r, fteik2d slow dz dx zsrc xsrc nsweep grad = Ok r).
Proof.
  destruct (fteik2d_char nsweep grad) as [G E]. rewrite E. split; intros ->; [reflexivity|]. eexists; reflexivity.
Qed.

(* ---------- 2 ---------- *)
Theorem fteik2d_nsweep_iter nsweep grad :
  inside2d = true ->
  exists G, fteik2d slow dz dx zsrc xsrc nsweep grad =
    Ok (fst (Nat.iter (Z.to_nat nsweep) (pass2d grad) (st_tt (init2d grad), st_ttsgn (init2d grad))),
        G, st_vzero (init2d grad)).
Proof. intros Hin. destruct (fteik2d_char nsweep grad) as [G E]. exists G. rewrite E, Hin. reflexivity. Qed.

(* the traveltime component of a pass is a function of the traveltime component *)
Definition ptt (grad : bool) (t : arr T) : arr T := fst (pass2d grad (t, full [] 0)).
Lemma pass2d_fst grad s : fst (pass2d grad s) = ptt grad (fst s).
Proof. unfold ptt, pass2d. cbn [fst snd]. apply sweep2d_tt_indep. Qed.
Lemma fteik2d_ok_inv nsweep grad tt G v :
  fteik2d slow dz dx zsrc xsrc nsweep grad = Ok (tt, G, v) ->
  inside2d = true /\ tt = Nat.iter (Z.to_nat nsweep) (ptt grad) (i_tt grad) /\ v = i_vzero grad.
Proof.
  destruct (fteik2d_char nsweep grad) as [G' E]. rewrite E. destruct inside2d; [|discriminate].
  intros E'. injection E' as <- _ <-. rewrite (iter_fst_pair _ _ (pass2d_fst grad)). auto.
Qed.

(* ---------- 5 ---------- *)
Theorem fteik2d_fixed_stays grad n m ttn Gn vn ttn' Gn' vn' ttm Gm vm :
  0 <= n <= m ->
  fteik2d slow dz dx zsrc xsrc n grad = Ok (ttn, Gn, vn) ->
  fteik2d slow dz dx zsrc xsrc (n + 1) grad = Ok (ttn', Gn', vn') ->
  ttn' = ttn ->
  fteik2d slow dz dx zsrc xsrc m grad = Ok (ttm, Gm, vm) ->
  ttm = ttn.
Proof.
  intros Hnm En En' Eq Em.
  apply fteik2d_ok_inv in En as (_ & -> & _). apply fteik2d_ok_inv in En' as (_ & -> & _).
  apply fteik2d_ok_inv in Em as (_ & -> & _).
  replace (Z.to_nat (n + 1)) with (S (Z.to_nat n)) in Eq by lia.
  apply (iter_fixed_stays _ _ _ Eq). lia.
Qed.

(* ---------- facts about fteik2d_p1 (straight-line code) ---------- *)
Lemma i_nz_eq grad : i_nz grad = dim slow 0 + 1.
Proof. unfold i_nz, p1. cbv beta delta [fteik2d_p1]. reflexivity. Qed.
Lemma i_nx_eq grad : i_nx grad = dim slow 1 + 1.
Proof. unfold i_nx, p1. cbv beta delta [fteik2d_p1]. reflexivity. Qed.
Lemma i_tt1_eq grad : i_tt1 grad = full [dim slow 0 + 1; dim slow 1 + 1] Big.
Proof. unfold i_tt1, p1. cbv beta delta [fteik2d_p1]. reflexivity. Qed.
Lemma p1_indep :
  i_iflag true = i_iflag false /\ i_nx true = i_nx false /\ i_nz true = i_nz false /\ i_tt1 true = i_tt1 false /\
  i_vzero true = i_vzero false /\ i_xsa true = i_xsa false /\ i_xsi true = i_xsi false /\
  i_zsa true = i_zsa false /\ i_zsi true = i_zsi false.
Proof.
  unfold i_iflag, i_nx, i_nz, i_tt1, i_vzero, i_xsa, i_xsi, i_zsa, i_zsi, p1. cbv beta delta [fteik2d_p1].
  repeat split; reflexivity.
Qed.

(* ---------- 3 ---------- *)
(* i_tt grad is the first component of init2d grad *)
Theorem fteik2d_init_okT grad :
  0 <= dim slow 0 -> 0 <= dim slow 1 -> okT (dim slow 0 + 1) (dim slow 1 + 1) (i_tt grad).
Proof.
  intros Hz Hx.
  pose proof (fteik2d_p2_sig dx dz grad (i_iflag grad) (i_nx grad) (i_nz grad) slow (i_tt1 grad) (i_ttgrad1 grad)
                (i_ttsgn1 grad) (i_vzero grad) (i_xsa grad) (i_xsi grad) (i_zsa grad) (i_zsi grad)) as E.
  unfold tt_keeps in E. fold (p2 grad) in E. fold (i_tt grad) in E. rewrite i_tt1_eq in E.
  split.
  - apply (sig_wf _ _ E). apply wf_full. repeat constructor; lia.
  - unfold sig in E. injection E as E _. exact E.
Qed.
Lemma init2d_tt grad : st_tt (init2d grad) = i_tt grad.
Proof. reflexivity. Qed.

(* degenerate model (a negative extent): the sweeps do nothing *)
Lemma ptt_small grad t : dim slow 0 < 0 \/ dim slow 1 < 0 -> ptt grad t = t.
Proof. intros Hs. unfold ptt, pass2d. cbn [fst snd]. rewrite i_nz_eq, i_nx_eq. apply sweep2d_small. lia. Qed.

(* ---------- 6 ---------- *)
Lemma i_tt_indep : i_tt true = i_tt false.
Proof.
  unfold i_tt, p2. destruct p1_indep as (-> & -> & -> & -> & -> & -> & -> & -> & ->).
  apply fteik2d_p2_tt_indep.
Qed.
Lemma ptt_indep t : ptt true t = ptt false t.
Proof.
  unfold ptt, pass2d. destruct p1_indep as (_ & -> & -> & _ & -> & -> & -> & -> & ->).
  apply sweep2d_tt_indep.
Qed.

Theorem fteik2d_tt_indep_of_grad nsweep :
  match fteik2d slow dz dx zsrc xsrc nsweep true, fteik2d slow dz dx zsrc xsrc nsweep false with
  | Ok (t1, _, v1), Ok (t2, _, v2) => t1 = t2 /\ v1 = v2
  | Raise e1, Raise e2 => e1 = e2
  | _, _ => False
  end.
Proof.
  destruct (fteik2d_char nsweep true) as [G1 E1]. destruct (fteik2d_char nsweep false) as [G2 E2].
  rewrite E1, E2. destruct inside2d; [|reflexivity]. split.
  - rewrite !(iter_fst_pair _ _ (pass2d_fst _)). rewrite i_tt_indep. apply iter_ext, ptt_indep.
  - destruct p1_indep as (_ & _ & _ & _ & E & _). exact E.
Qed.

(* ---------- 4 ---------- *)
Section Laws.
Context `{!NumLaws T}.
Notation NZ := (dim slow 0 + 1).
Notation NX := (dim slow 1 + 1).

Lemma ptt_lowers grad t : okT NZ NX t -> okT NZ NX (ptt grad t) /\ leT NZ NX (ptt grad t) t.
Proof. intros Hok. unfold ptt, pass2d. cbn [fst snd]. rewrite i_nz_eq, i_nx_eq. apply sweep2d_lowers. exact Hok. Qed.

Lemma iter_ptt_okT grad t k : okT NZ NX t -> okT NZ NX (Nat.iter k (ptt grad) t).
Proof. intros Hok. induction k as [|k IH]; [exact Hok|]. rewrite iter_S. apply ptt_lowers, IH. Qed.

Lemma iter_ptt_mono grad t a b : okT NZ NX t -> (a <= b)%nat ->
  leT NZ NX (Nat.iter b (ptt grad) t) (Nat.iter a (ptt grad) t).
Proof.
  intros Hok Hab. induction Hab as [|b Hab IH].
  - apply leT_refl, iter_ptt_okT, Hok.
  - rewrite iter_S. eapply leT_trans; [|exact IH]. apply ptt_lowers, iter_ptt_okT, Hok.
Qed.

(* all n <= m (item 4 is m = n + 1); no condition on the sign of n: a non-positive nsweep means no sweep *)
Theorem fteik2d_monotone_in_nsweep_le grad n m ttn Gn vn ttm Gm vm :
  0 <= dim slow 0 -> 0 <= dim slow 1 -> n <= m ->
  fteik2d slow dz dx zsrc xsrc n grad = Ok (ttn, Gn, vn) ->
  fteik2d slow dz dx zsrc xsrc m grad = Ok (ttm, Gm, vm) ->
  okT NZ NX ttn /\ okT NZ NX ttm /\ leT NZ NX ttm ttn.
Proof.
  intros Hz Hx Hnm En Em.
  apply fteik2d_ok_inv in En as (_ & -> & _). apply fteik2d_ok_inv in Em as (_ & -> & _).
  pose proof (fteik2d_init_okT grad Hz Hx) as H0.
  split; [apply iter_ptt_okT, H0|]. split; [apply iter_ptt_okT, H0|].
  apply iter_ptt_mono; [exact H0 | lia].
Qed.

Theorem fteik2d_monotone_in_nsweep grad n ttn Gn vn ttm Gm vm :
  0 <= dim slow 0 -> 0 <= dim slow 1 ->
  fteik2d slow dz dx zsrc xsrc n grad = Ok (ttn, Gn, vn) ->
  fteik2d slow dz dx zsrc xsrc (n + 1) grad = Ok (ttm, Gm, vm) ->
  okT NZ NX ttn /\ okT NZ NX ttm /\ leT NZ NX ttm ttn.
Proof. intros Hz Hx. apply fteik2d_monotone_in_nsweep_le; auto. lia. Qed.
End Laws.

End Solve.

(* ------------------------------------------------------------------------------------------ *)
(* 7. convergence for binary64                                                                  *)
(* ------------------------------------------------------------------------------------------ *)

(* an integer sequence that never increases and is bounded below is stationary somewhere *)
Lemma z_descent (u : nat -> Z) (L : Z) :
  (forall k, u (S k) <= u k) -> (forall k, L <= u k) -> exists K, u (S K) = u K.
Proof.
  intros Hd Hl.
  assert (G : forall n k, u k - L <= Z.of_nat n -> exists K, u (S K) = u K).
  { induction n as [|n IH]; intros k Hk.
    - exists k. pose proof (Hd k). pose proof (Hl k). pose proof (Hl (S k)). lia.
    - destruct (Z.eq_dec (u (S k)) (u k)) as [E|N]; [exists k; exact E|].
      apply (IH (S k)). pose proof (Hd k). lia. }
  apply (G (Z.to_nat (u O - L)) O). pose proof (Hl O). lia.
Qed.

Lemma Forall2_len {A B} (R : A -> B -> Prop) l1 l2 : Forall2 R l1 l2 -> length l1 = length l2.
Proof. induction 1; cbn; congruence. Qed.
Lemma Forall2_nth_intro {A} (R : A -> A -> Prop) d (l1 l2 : list A) :
  length l1 = length l2 -> (forall n, (n < length l1)%nat -> R (nth n l1 d) (nth n l2 d)) -> Forall2 R l1 l2.
Proof.
  revert l2. induction l1 as [|x l1 IH]; intros [|y l2] Hl Hn; try discriminate Hl; constructor.
  - apply (Hn O). cbn. lia.
  - apply IH; [cbn in Hl; lia|]. intros n Hlt. apply (Hn (S n)). cbn. lia.
Qed.

Section RankSum.
Notation float := PrimFloat.float.
Notation los := (@le_or_same float NumF).

(* the sum of the ranks of all entries: a pass that lowers entries lowers it, strictly unless nothing changed *)
Definition rsum (l : list float) : Z := fold_right (fun x acc => frank x + acc) 0 l.

Lemma los_rank a b : los a b -> a = b \/ frank a < frank b.
Proof. intros [E|L]; [left; exact E | right; apply frank_lt; exact L]. Qed.

Lemma rsum_le l1 l2 : Forall2 los l1 l2 -> rsum l1 <= rsum l2 /\ (rsum l1 = rsum l2 -> l1 = l2).
Proof.
  induction 1 as [|a b l1 l2 Hab _ [IH1 IH2]]; cbn [rsum fold_right]; [split; [lia | reflexivity]|].
  fold (rsum l1). fold (rsum l2). destruct (los_rank _ _ Hab) as [->|Hlt].
  - split; [lia|]. intros E. f_equal. apply IH2. lia.
  - split; [lia|]. intros E. exfalso. lia.
Qed.

Lemma rsum_lower l : - (Z.of_nat (length l) * 2 ^ 2100) <= rsum l.
Proof.
  induction l as [|x l IH]; [cbn; lia|]. cbn [rsum fold_right]. fold (rsum l).
  pose proof (frank_bounded x) as Hx. set (B := 2 ^ 2100) in *. cbn [length]. rewrite Nat2Z.inj_succ. lia.
Qed.

(* any map on grids that keeps the shape and lowers (or keeps, bit for bit) every entry is eventually constant *)
Section Gen.
Variables (f : arr float -> arr float) (ok : arr float -> Prop).
Hypothesis Hf : forall a, ok a -> ok (f a) /\ shape (f a) = shape a /\ Forall2 los (dat (f a)) (dat a).

Lemma iter_ok t0 k : ok t0 -> ok (Nat.iter k f t0).
Proof. intros H0. induction k as [|k IH]; [exact H0|]. rewrite iter_S. apply Hf, IH. Qed.
Lemma iter_len t0 k : ok t0 -> length (dat (Nat.iter k f t0)) = length (dat t0).
Proof. intros H0. induction k as [|k IH]; [reflexivity|]. rewrite iter_S.
  destruct (Hf _ (iter_ok t0 k H0)) as (_ & _ & F). rewrite (Forall2_len _ _ _ F). exact IH. Qed.

Theorem lowering_iter_converges t0 :
  ok t0 -> exists K, forall k, (K <= k)%nat -> Nat.iter k f t0 = Nat.iter K f t0.
Proof.
  intros H0.
  destruct (z_descent (fun k => rsum (dat (Nat.iter k f t0))) (- (Z.of_nat (length (dat t0)) * 2 ^ 2100))) as [K E].
  - intros k. rewrite iter_S. destruct (Hf _ (iter_ok t0 k H0)) as (_ & _ & F). apply (rsum_le _ _ F).
  - intros k. rewrite <- (iter_len t0 k H0). apply rsum_lower.
  - exists K. apply iter_fixed_stays. cbv beta in E. rewrite iter_S in E |- *.
    destruct (Hf _ (iter_ok t0 K H0)) as (_ & Hs & F). apply (rsum_le _ _ F) in E.
    destruct (f (Nat.iter K f t0)) as [s1 d1], (Nat.iter K f t0) as [s2 d2]. cbn [shape dat] in *. congruence.
Qed.
End Gen.

(* 2D grids: pointwise order on indices = pointwise order on the data lists *)
Lemma leT_Forall2 nz nx (a b : arr float) :
  0 < nx -> okT nz nx a -> okT nz nx b -> leT nz nx a b -> Forall2 los (dat a) (dat b).
Proof.
  intros Hnx [[La Fa] Sa] [[Lb _] Sb] Hle.
  rewrite Sa in La, Fa. rewrite Sb in Lb. unfold prodZ in La, Lb. cbn [fold_right] in La, Lb.
  assert (Hnz : 0 <= nz) by (inversion Fa; assumption).
  apply (Forall2_nth_intro _ (nofZ 0)); [congruence|]. intros n Hn.
  assert (Hn' : 0 <= Z.of_nat n < nz * nx) by nia.
  destruct (decomp2 (Z.of_nat n) nz nx Hn' Hnx) as (Hp & Hq & En).
  specialize (Hle _ _ Hp Hq). unfold get in Hle. rewrite Sa, Sb in Hle. unfold flat in Hle. cbn [flat_aux] in Hle.
  replace ((0 * nz + Z.of_nat n / nx) * nx + Z.of_nat n mod nx) with (Z.of_nat n) in Hle by lia.
  rewrite Nat2Z.id in Hle. exact Hle.
Qed.

Section F2d.
Variables (slow : arr float) (dz dx zsrc xsrc : float).
Notation NZ := (dim slow 0 + 1).
Notation NX := (dim slow 1 + 1).

(* the traveltime grid after k sweeps *)
Definition grid2d (grad : bool) (k : nat) : arr float :=
  fst (Nat.iter k (pass2d slow dz dx zsrc xsrc grad) (i_tt slow dz dx zsrc xsrc grad, i_ttsgn slow dz dx zsrc xsrc grad)).

Theorem fteik2d_converges grad : exists K, forall k, (K <= k)%nat -> grid2d grad k = grid2d grad K.
Proof.
  unfold grid2d.
  destruct (Z_lt_ge_dec (dim slow 0) 0) as [Hz|Hz]; [|destruct (Z_lt_ge_dec (dim slow 1) 0) as [Hx|Hx]].
  1,2: exists O; intros k _; rewrite !(iter_fst_pair _ _ (pass2d_fst slow dz dx zsrc xsrc grad));
       induction k as [|k IH]; [reflexivity | rewrite iter_S, IH; apply ptt_small; lia].
  destruct (lowering_iter_converges (ptt slow dz dx zsrc xsrc grad) (okT NZ NX)) with (t0 := i_tt slow dz dx zsrc xsrc grad)
    as [K HK].
  - intros a Ha. destruct (ptt_lowers slow dz dx zsrc xsrc grad a Ha) as [Ho Hl].
    split; [exact Ho|]. split; [destruct Ho as [_ ->], Ha as [_ ->]; reflexivity|].
    apply (leT_Forall2 NZ NX); auto. lia.
  - apply fteik2d_init_okT; lia.
  - exists K. intros k Hk. rewrite !(iter_fst_pair _ _ (pass2d_fst slow dz dx zsrc xsrc grad)). apply HK, Hk.
Qed.

(* the same, on the results of fteik2d: from some sweep count on, the returned grid no longer changes *)
Corollary fteik2d_converges_results grad :
  exists K, forall n m ttn Gn vn ttm Gm vm, K <= n <= m ->
    fteik2d slow dz dx zsrc xsrc n grad = Ok (ttn, Gn, vn) ->
    fteik2d slow dz dx zsrc xsrc m grad = Ok (ttm, Gm, vm) -> ttm = ttn.
Proof.
  destruct (fteik2d_converges grad) as [K HK]. exists (Z.of_nat K). intros n m ttn Gn vn ttm Gm vm Hnm En Em.
  apply fteik2d_ok_inv in En as (_ & -> & _). apply fteik2d_ok_inv in Em as (_ & -> & _).
  pose proof (HK (Z.to_nat m) ltac:(lia)) as Hm. pose proof (HK (Z.to_nat n) ltac:(lia)) as Hn.
  unfold grid2d in Hm, Hn. rewrite !(iter_fst_pair _ _ (pass2d_fst slow dz dx zsrc xsrc grad)) in Hm, Hn.
  congruence.
Qed.
End F2d.
End RankSum.

Print Assumptions fteik2d_raises_iff.
Print Assumptions fteik2d_nsweep_iter.
Print Assumptions fteik2d_fixed_stays.
Print Assumptions fteik2d_init_okT.
Print Assumptions fteik2d_monotone_in_nsweep.
Print Assumptions fteik2d_monotone_in_nsweep_le.
Print Assumptions fteik2d_tt_indep_of_grad.
Print Assumptions fteik2d_converges.
Print Assumptions fteik2d_converges_results.
