(* Absence of ZeroDivisionError: the divisor obligations (`f_ok false true`) of the generated model, over the reals. *)
From Coq Require Import ZArith List Bool Lia Reals Lra Psatz.
From FT.lib Require Import Num Arr ArrLemmas NumArr.
From FT.gen Require Import Common Fteik2d.
From FT.proofs Require Import SafetyTools.
Import ListNotations.
Open Scope Z_scope.

Local Strategy 1000 [fteik2d_p1 fteik2d_p2 fteik2d_p1_ok fteik2d_p2_ok sweep2d sweep2d_ok
                     Fteik2d.sweep Fteik2d.sweep_ok].

(* ---------- leaves ---------- *)
Lemma obD_pos (x : R) : (0 < x)%R -> obD true (@nneb R NumR x (@nofZ R NumR 0)) = true.
Proof. intros Hx. unfold obD, nneb. cbn. apply negb_true_iff, Reqb_false. lra. Qed.
Lemma obD_ne (x : R) : x <> 0%R -> obD true (@nneb R NumR x (@nofZ R NumR 0)) = true.
Proof. intros Hx. unfold obD, nneb. cbn. apply negb_true_iff, Reqb_false. exact Hx. Qed.
Lemma ngtb_R_pos (a : R) : @ngtb R NumR a (@nofZ R NumR 0) = true -> (0 < a)%R.
Proof. unfold ngtb. cbn. intros E. apply Rltb_true in E. exact E. Qed.

Ltac guard_hyps :=
  repeat match goal with
         | H : @ngtb R NumR ?a (@nofZ R NumR 0) = true |- _ => apply ngtb_R_pos in H
         end.

Ltac pos :=
  lazymatch goal with
  | |- (0 < ?a / ?b)%R => apply Rdiv_lt_0_compat; pos
  | |- (0 < ?a * ?b)%R => apply Rmult_lt_0_compat; pos
  | |- (0 < R_sqrt.sqrt _)%R => apply sqrt_lt_R0; pos
  | |- (0 < ?a + ?b)%R => apply Rplus_lt_0_compat; pos
  | |- _ => first [ assumption | lra ]
  end.
Ltac rpos := cbv [nmul ndiv nadd nsub nsqrt nofZ nsq NumR]; pos.

(* a real-valued binding: its positivity is recorded when it follows from what is known *)
Ltac record_pos x Hx :=
  try (assert (0 < x)%R by (rewrite Hx; rpos)); clear Hx.

Ltac dleaf := guard_hyps; apply obD_pos; rpos.

(* walker for `f_ok false true`: no loop invariant, no array facts *)
Ltac dwalk leaf :=
  lazymatch goal with
  | |- true = true => reflexivity
  | |- obI false _ = true => reflexivity
  | |- andb _ _ = true => apply andb_true_intro; split; dwalk leaf
  | |- (let x := ?v in @?F x) = true =>
      let tv := type of v in
      lazymatch tv with
      | _ -> bool =>
          refine (let_fun_true v F _ _);
          [ intro; cbv beta; dwalk leaf
          | let k := fresh "k" in let Hk := fresh "Hk" in intros k Hk; cbv beta; dwalk leaf ]
      | _ =>
          let x := fresh "x" in let Hx := fresh "Hx" in
          refine (let_eq_true v F _); intros x Hx; cbv beta;
          lazymatch v with
          | fst _ => cbn [fst snd] in Hx; subst x
          | snd _ => cbn [fst snd] in Hx; subst x
          | pair _ _ => subst x
          | _ => lazymatch tv with
                 | R => lazymatch v with
                        | ndiv _ _ => record_pos x Hx
                        | nadd _ _ => record_pos x Hx
                        | nmul _ _ => record_pos x Hx
                        | _ => clear Hx
                        end
                 | _ => clear Hx
                 end
          end;
          dwalk leaf
      end
  | |- (if ?c then ?a else ?b) = true =>
      let c' := eval cbn [andb negb orb] in c in
      lazymatch c' with
      | true => change (a = true); dwalk leaf
      | false => change (b = true); dwalk leaf
      | _ => let E := fresh "E" in destruct c eqn:E; bool_hyps_ns; guard_hyps; dwalk leaf
      end
  | |- for_list_ok _ _ _ _ = true =>
      apply for_list_ok_inv with (P := fun _ => True);
      [ exact I | intros ? ? _ _; split; [ exact I | cbv beta; dwalk leaf ] ]
  | Hk : forall u, ?k u = true |- ?k _ = true => apply Hk
  | |- _ => leaf
  end.

(* ------------------------------------------------------------------------------------------ *)
(* (D1) 2D node update and pass                                                                 *)
(* ------------------------------------------------------------------------------------------ *)
Lemma t_ana_ok_div i j (dz dx zsa xsa vzero : R) : t_ana_ok false true i j dz dx zsa xsa vzero = true.
Proof. reflexivity. Qed.
Lemma t_anad_ok_div i j (dz dx zsa xsa vzero : R) : t_anad_ok false true i j dz dx zsa xsa vzero = true.
Proof. cbv beta delta [t_anad_ok]. dwalk ltac:(first [ apply t_ana_ok_div | dleaf ]). Qed.
(* the quadratic's leading coefficient dz2i + dx2i is the only divisor *)
Lemma delta_ok_div (t1 tauv taue tauev t0c tzc txc dzi dxi dz2i dx2i vzero vref : R) sgntz sgntx :
  (0 < dz2i)%R -> (0 < dx2i)%R ->
  delta_ok false true t1 tauv taue tauev t0c tzc txc dzi dxi dz2i dx2i vzero vref sgntz sgntx = true.
Proof. intros Hz Hx. cbv beta delta [delta_ok]. dwalk dleaf. Qed.

Ltac dleaf2 :=
  first [ apply t_anad_ok_div | apply t_ana_ok_div | apply delta_ok_div; assumption | dleaf ].

Theorem sweep_ok_div (tt : arr R) (ttsgn : arr Z) (slow : arr R) (dz dx dzi dxi dz2i dx2i zsi xsi zsa xsa vzero : R)
        i j sgnvz sgnvx sgntz sgntx nz nx grad :
  (0 < dz)%R -> (0 < dx)%R -> (0 < dz2i)%R -> (0 < dx2i)%R ->
  Fteik2d.sweep_ok false true tt ttsgn slow (dz, dx, dzi, dxi, dz2i, dx2i) zsi xsi zsa xsa vzero
                   i j sgnvz sgnvx sgntz sgntx nz nx grad = true.
Proof.
  intros Hdz Hdx Hz2 Hx2. cbv beta delta [Fteik2d.sweep_ok]. dwalk dleaf2.
Qed.

Theorem sweep2d_ok_div (tt : arr R) (ttsgn : arr Z) (slow : arr R) (dz dx zsi xsi zsa xsa vzero : R) nz nx grad :
  (0 < dz)%R -> (0 < dx)%R ->
  sweep2d_ok false true tt ttsgn slow dz dx zsi xsi zsa xsa vzero nz nx grad = true.
Proof.
  intros Hdz Hdx. cbv beta delta [sweep2d_ok].
  dwalk ltac:(first [ apply sweep_ok_div; assumption | dleaf ]).
Qed.

(* ------------------------------------------------------------------------------------------ *)
(* (D2) the whole 2D solver                                                                     *)
(* ------------------------------------------------------------------------------------------ *)
Theorem fteik2d_p1_ok_div (dx dz : R) grad nx nz (slow : arr R) (xsrc zsrc : R) :
  (0 < dz)%R -> (0 < dx)%R ->
  fteik2d_p1_ok false true dx dz grad nx nz slow xsrc zsrc = true.
Proof. intros Hdz Hdx. cbv beta delta [fteik2d_p1_ok]. dwalk dleaf. Qed.


(* strict (syntactic) leaves: `apply` is never tried on a goal of another shape *)
Ltac sleaf2 Hp2 :=
  idtac; lazymatch goal with
  | |- obI false _ = true => reflexivity
  | |- norm2d_ok _ _ _ _ = true => reflexivity
  | |- fteik2d_p1_ok false true _ _ _ _ _ _ _ _ = true => apply fteik2d_p1_ok_div; assumption
  | |- fteik2d_p2_ok false true _ _ _ _ _ _ _ _ _ _ _ _ _ _ _ = true => apply Hp2
  | |- sweep2d_ok false true _ _ _ _ _ _ _ _ _ _ _ _ _ = true => apply sweep2d_ok_div; assumption
  | |- obD true _ = true => dleaf
  end.

(* (D2, partial) the whole 2D solver, RELATIVE to the divisor obligations of the source initialisation
   (fteik2d_p2_ok): everything else - source location, the sweeps, the gradient assembly and its normalisation
   by gn under `if gn > 0` - cannot divide by zero for 0 < dz, 0 < dx; no hypothesis on slow, the source, nsweep. *)
Theorem fteik2d_ok_div_partial (slow : arr R) (dz dx zsrc xsrc : R) (nsweep : Z) (grad : bool) :
  (0 < dz)%R -> (0 < dx)%R ->
  (forall iflag nx nz tt G S vzero xsa xsi zsa zsi,
     fteik2d_p2_ok false true dx dz grad iflag nx nz slow tt G S vzero xsa xsi zsa zsi = true) ->
  fteik2d_ok false true slow dz dx zsrc xsrc nsweep grad = true.
Proof.
  intros Hdz Hdx Hp2. cbv beta delta [fteik2d_ok]. dwalk ltac:(sleaf2 Hp2).
Qed.

(* NOT PROVED here (time): fteik2d_p2_ok false true (source initialisation).  Its divisors are dx, dz,
   dzu*dz, dzd*dz, dxw*dx, dxe*dx (each under `if dzu > 0.0 and ...` etc.), t under `if t > 0` (t_anad) and
   dz2i + dx2i (delta): over R every guard excludes the zero divisor (product of two positive reals), by the same
   leaves as sweep_ok_div; the generic walkers ran out of time/memory on the 900-line term.
   Remark (binary64, not proved): dzu*dz, dzd*dz, dxw*dx, dxe*dx can underflow to 0 although both factors are
   positive, dz2i = dzi/dz and dz2i + dx2i can overflow/underflow, dx*dx + dz*dz can underflow to 0 (divisor
   sqrt(dx^2+dz^2)); the guards `t > 0`, `gn > 0` protect their divisors in binary64 as well. *)

(* the premises are satisfiable *)
Example div_premises_sat :
  Fteik2d.sweep_ok false true (full [2; 2] 0%R) (full [2; 2; 2] 0) (full [1; 1] 1%R)
                   (1, 1, 1 / 1, 1 / 1, 1 / 1 / 1, 1 / 1 / 1)%R 0%R 0%R 0%R 0%R 1%R 1 1 1 1 1 1 2 2 true = true
  /\ sweep2d_ok false true (full [2; 2] 0%R) (full [2; 2; 2] 0) (full [1; 1] 1%R) 1%R 1%R 0%R 0%R 0%R 0%R 1%R 2 2 true = true.
Proof. split; [ apply sweep_ok_div | apply sweep2d_ok_div ]; lra. Qed.


(* ------------------------------------------------------------------------------------------ *)
(* (D3), (D4) the 3D kernels and solver (names qualified: Fteik3d is not imported)              *)
(* ------------------------------------------------------------------------------------------ *)
From FT.gen Require Fteik3d.
Local Strategy 1000 [Fteik3d.sweep Fteik3d.sweep_ok Fteik3d.sweep3d Fteik3d.sweep3d_ok
                     Fteik3d.fteik3d_p1 Fteik3d.fteik3d_p1_ok].

Lemma t_ana3_ok_div i j k (dz dx dy zsa xsa ysa vzero : R) :
  Fteik3d.t_ana_ok false true i j k dz dx dy zsa xsa ysa vzero = true.
Proof. reflexivity. Qed.
Ltac sleaf3a :=
  idtac; lazymatch goal with
  | |- obI false _ = true => reflexivity
  | |- Fteik3d.t_ana_ok false true _ _ _ _ _ _ _ _ _ _ = true => apply t_ana3_ok_div
  | |- obD true _ = true => dleaf
  end.
Lemma t_anad3_ok_div i j k (dz dx dy zsa xsa ysa vzero : R) :
  Fteik3d.t_anad_ok false true i j k dz dx dy zsa xsa ysa vzero = true.
Proof. cbv beta delta [Fteik3d.t_anad_ok]. dwalk sleaf3a. Qed.

(* one 3D node update: the divisors are dsum and the pairwise sums dz2i+dx2i, dz2i+dy2i, dx2i+dy2i *)
Theorem sweep3_ok_div (tt : arr R) (ttsgn : arr Z) (slow : arr R)
        (dz dx dy dz2i dx2i dy2i dz2dx2 dz2dy2 dx2dy2 dsum : R)
        i j k sgnvz sgnvx sgnvy sgntz sgntx sgnty nz nx ny grad :
  (0 < dz2i)%R -> (0 < dx2i)%R -> (0 < dy2i)%R -> (0 < dsum)%R ->
  Fteik3d.sweep_ok false true tt ttsgn slow (dz, dx, dy, dz2i, dx2i, dy2i, dz2dx2, dz2dy2, dx2dy2, dsum)
                   i j k sgnvz sgnvx sgnvy sgntz sgntx sgnty nz nx ny grad = true.
Proof.
  intros Hz2 Hx2 Hy2 Hs. cbv beta delta [Fteik3d.sweep_ok]. dwalk sleaf3a.
Qed.

Ltac sleaf3b :=
  idtac; lazymatch goal with
  | |- obI false _ = true => reflexivity
  | |- Fteik3d.sweep_ok false true _ _ _ _ _ _ _ _ _ _ _ _ _ _ _ _ _ = true => apply sweep3_ok_div; assumption
  | |- obD true _ = true => dleaf
  end.

Theorem sweep3d_ok_div (tt : arr R) (ttsgn : arr Z) (slow : arr R) (dz dx dy : R) nz nx ny grad :
  (0 < dz)%R -> (0 < dx)%R -> (0 < dy)%R ->
  Fteik3d.sweep3d_ok false true tt ttsgn slow dz dx dy nz nx ny grad = true.
Proof.
  intros Hdz Hdx Hdy. cbv beta delta [Fteik3d.sweep3d_ok]. dwalk sleaf3b.
Qed.

(* the 3D gradient assembly (fteik3d_p1): divisors dz, dx, dy and gn under `if gn > 0` *)
Ltac sleaf3c :=
  idtac; lazymatch goal with
  | |- obI false _ = true => reflexivity
  | |- Common.norm3d_ok _ _ _ _ _ = true => reflexivity
  | |- Fteik3d.t_anad_ok false true _ _ _ _ _ _ _ _ _ _ = true => apply t_anad3_ok_div
  | |- Fteik3d.t_ana_ok false true _ _ _ _ _ _ _ _ _ _ = true => apply t_ana3_ok_div
  | |- Fteik3d.sweep3d_ok false true _ _ _ _ _ _ _ _ _ _ = true => apply sweep3d_ok_div; assumption
  | |- obD true _ = true => dleaf
  end.

Theorem fteik3d_p1_ok_div (dx dy dz : R) grad i j k nx ny nz (tt ttgrad : arr R) (ttsgn : arr Z) :
  (0 < dz)%R -> (0 < dx)%R -> (0 < dy)%R ->
  Fteik3d.fteik3d_p1_ok false true dx dy dz grad i j k nx ny nz tt ttgrad ttsgn = true.
Proof. intros Hdz Hdx Hdy. cbv beta delta [Fteik3d.fteik3d_p1_ok]. dwalk sleaf3c. Qed.

Ltac sleaf3d :=
  idtac; lazymatch goal with
  | |- Fteik3d.fteik3d_p1_ok false true _ _ _ _ _ _ _ _ _ _ _ _ _ = true => apply fteik3d_p1_ok_div; assumption
  | |- _ => sleaf3c
  end.

(* (D4) the whole 3D solver: no division by zero for positive spacings; no hypothesis on slow (shape or values),
   the source position, nsweep or the gradient flag.  Divisors: dz, dx, dy (source location, pass setup, gradient),
   t under `if t > 0` (t_anad at the 8 corners), dsum and the pairwise sums of dz2i, dx2i, dy2i (node update),
   gn under `if gn > 0`.  Remark (binary64, not proved): dz2i = 1/dz/dz etc. may overflow to inf or underflow to 0,
   so dsum and the pairwise sums are exposed (0 only if all terms underflow; inf/inf gives NaN, not an exception);
   the guards `t > 0`, `gn > 0` protect their divisors in binary64 as well. *)
Theorem fteik3d_ok_div (slow : arr R) (dz dx dy zsrc xsrc ysrc : R) (nsweep : Z) (grad : bool) :
  (0 < dz)%R -> (0 < dx)%R -> (0 < dy)%R ->
  Fteik3d.fteik3d_ok false true slow dz dx dy zsrc xsrc ysrc nsweep grad = true.
Proof. intros Hdz Hdx Hdy. cbv beta delta [Fteik3d.fteik3d_ok]. dwalk sleaf3d. Qed.

Example div3_premises_sat :
  Fteik3d.fteik3d_ok false true (full [1; 1; 1] 1%R) 1%R 1%R 1%R 0%R 0%R 0%R 1 true = true.
Proof. apply fteik3d_ok_div; lra. Qed.

Print Assumptions sweep_ok_div.
Print Assumptions sweep2d_ok_div.
Print Assumptions fteik2d_p1_ok_div.
Print Assumptions fteik2d_ok_div_partial.
Print Assumptions sweep3_ok_div.
Print Assumptions sweep3d_ok_div.
Print Assumptions fteik3d_p1_ok_div.
Print Assumptions fteik3d_ok_div.
