(* C18 "no axis is privileged" for ONE node update of the 3D solver (gen/Fteik3d.v: sweep), over the reals
   (T := R, instance NumR).  The value written is NonNeg3d.node_value true (tie: NonNeg3d.sweep_tt_eq_guarded).

   Orientation: tv, te, tn the face neighbours along Z, X, Y; tev the (Z,X) face diagonal, ten the (X,Y) one, tnv the
   (Z,Y) one; tnve the cube diagonal; dzxi = dz2i*dx2i, dzyi = dz2i*dy2i, dxyi = dx2i*dy2i.

   A transposition of two axes acts on the data of the 8-point operator as
       Z<->X :  tv<->te,  ten<->tnv,  dz2i<->dx2i,  dzyi<->dxyi     (tn, tev, tnve, dy2i, dzxi, dsum fixed)
       X<->Y :  te<->tn,  tev<->tnv,  dx2i<->dy2i,  dzxi<->dzyi     (tv, ten, tnve, dz2i, dxyi, dsum fixed)
       Z<->Y :  tv<->tn,  tev<->ten,  dz2i<->dy2i,  dzxi<->dxyi     (te, tnv, tnve, dx2i, dzyi, dsum fixed)

   1. operators       op3_a/b/c, op3_t3, op3 (NonNeg3d, unguarded = Operators3R.op3_raw), Operators3R.op3 (guarded),
                      the three plane operators (ZX <-> ZX with roles exchanged, ZY <-> XY under Z<->X; ZX <-> ZY,
                      XY <-> XY under X<->Y), in both files' notations; the three generators and a 3-cycle
   2. node            node_value_zx, node_value_xy (+ _sp forms with the constants of sweep3d; 3-cycle corollary):
                      the value written at the node of the relabelled problem is the value written at the node of the
                      original problem.  The relabelled problem has the transposed time and cell arrays (relations
                      transp_zx / transp_xy, extensional), exchanged spacings, direction signs, sizes.
                      Hypotheses: shapes tt : [nz;nx;ny], slow : [nz-1;nx-1;ny-1] and the indices read are in range
                      (axis_ok, satisfied by every call sweep3d makes) - needed because `get` addresses the flat data.
   3. generated code  sweep_transpose_zx / _xy (+ _dargs3 forms, 3-cycle): the traveltime array written by Fteik3d.sweep
                      on the transposed problem is the transpose of the one written on the original problem.
   4. what breaks it  a wrong axis length in one clamp (min(k, nx-2) for min(k, ny-2)) is caught: clamp_mutant_refuted.
   5. NOT symmetric   the direction-sign array ttsgn (second component of sweep, only written when grad = true): the
                      elif chain  t1d1, t1d2, t1d3, t2d1, t2d2, t2d3  resolves exact ties of two candidates in favour of
                      the axis that comes first (Z before X before Y).  ttsgn_tie_not_equivariant_binary64 gives a
                      symmetric configuration (tv = te) in which the node update of the Z<->X-transposed problem does
                      not write the transposed signs.  The TIMES are unaffected (this file).
   6. binary64        over floats the equivariance of the times holds up to rounding only (summation order):
                      Binary64.node_value_relabel_rounding_binary64 (X<->Y changes the written value by one ulp). *)
From Coq Require Import ZArith List Bool Lia Reals Lra Psatz.
From Coq Require Floats.PrimFloat.
From FT.lib Require Import Num Arr ArrLemmas.
From FT.gen Require Import Fteik3d.
From FT.proofs Require OperatorsR Operators3R.
From FT.proofs Require Import SweepDargs NonNeg3d.
Import ListNotations.
Open Scope R_scope.

Module O3 := Operators3R.

(* ------------------------------------------------------------------------------------------ *)
(* 0. min / max of several arguments over R: the order of the arguments is immaterial           *)
(* ------------------------------------------------------------------------------------------ *)
Lemma pymin2_Rmin (a b : R) : pymin2 a b = Rmin a b.
Proof.
  unfold pymin2, Rmin. numR. destruct (Rltb b a) eqn:E; destruct (Rle_dec a b) as [L|L]; try reflexivity.
  - apply Rltb_true in E. lra.
  - apply Rltb_false in E. lra.
Qed.
Lemma pymax2_Rmax (a b : R) : pymax2 a b = Rmax a b.
Proof.
  unfold pymax2, Rmax. numR. destruct (Rltb a b) eqn:E; destruct (Rle_dec a b) as [L|L]; try reflexivity.
  - apply Rltb_true in E. lra.
  - apply Rltb_false in E. lra.
Qed.
Lemma pymin2_comm (a b : R) : pymin2 a b = pymin2 b a.
Proof. rewrite !pymin2_Rmin. apply Rmin_comm. Qed.
Lemma pymin3_swap12 (a b c : R) : pymin3 a b c = pymin3 b a c.
Proof. unfold pymin3. rewrite (pymin2_comm a b). reflexivity. Qed.
Lemma pymin3_swap23 (a b c : R) : pymin3 a b c = pymin3 a c b.
Proof. unfold pymin3. rewrite !pymin2_Rmin, <- !Rmin_assoc, (Rmin_comm b c). reflexivity. Qed.
Lemma pymin3_rot (a b c : R) : pymin3 a b c = pymin3 b c a.
Proof. rewrite (pymin3_swap12 a b c). apply pymin3_swap23. Qed.
Lemma pymin4_swap23 (a b c d : R) : pymin4 a b c d = pymin4 a c b d.
Proof. unfold pymin4. rewrite (pymin3_swap23 a b c). reflexivity. Qed.
Lemma pymax3_swap12 (a b c : R) : pymax3 a b c = pymax3 b a c.
Proof. unfold pymax3. rewrite !pymax2_Rmax, (Rmax_comm a b). reflexivity. Qed.
Lemma pymax3_swap23 (a b c : R) : pymax3 a b c = pymax3 a c b.
Proof. unfold pymax3. rewrite !pymax2_Rmax, <- !Rmax_assoc, (Rmax_comm b c). reflexivity. Qed.

(* ------------------------------------------------------------------------------------------ *)
(* 1. operator level                                                                            *)
(* ------------------------------------------------------------------------------------------ *)
Section Operators.
Implicit Types (tv te tn tev ten tnv tnve vref dz dx dy dz2i dx2i dy2i dzxi dzyi dxyi dsum : R).

(* the three extrapolated times: ta goes with X, tb with Z, tc with Y *)
Lemma op3_a_swap_zx tv te tn tev ten tnv tnve : op3_a te tv tn tev tnv ten tnve = op3_b tv te tn tev ten tnv tnve.
Proof. unfold op3_a, op3_b, hf. numR. field. Qed.
Lemma op3_b_swap_zx tv te tn tev ten tnv tnve : op3_b te tv tn tev tnv ten tnve = op3_a tv te tn tev ten tnv tnve.
Proof. unfold op3_a, op3_b, hf. numR. field. Qed.
Lemma op3_c_swap_zx tv te tn tev ten tnv tnve : op3_c te tv tn tev tnv ten tnve = op3_c tv te tn tev ten tnv tnve.
Proof. unfold op3_c, hf. numR. field. Qed.
Lemma op3_a_swap_xy tv te tn tev ten tnv tnve : op3_a tv tn te tnv ten tev tnve = op3_c tv te tn tev ten tnv tnve.
Proof. unfold op3_a, op3_c, hf. numR. field. Qed.
Lemma op3_b_swap_xy tv te tn tev ten tnv tnve : op3_b tv tn te tnv ten tev tnve = op3_b tv te tn tev ten tnv tnve.
Proof. unfold op3_b, hf. numR. field. Qed.
Lemma op3_c_swap_xy tv te tn tev ten tnv tnve : op3_c tv tn te tnv ten tev tnve = op3_a tv te tn tev ten tnv tnve.
Proof. unfold op3_a, op3_c, hf. numR. field. Qed.

(* the quadratic form under the square root *)
Lemma op3_t3_swap_zx tv te tn tev ten tnv tnve dzxi dzyi dxyi :
  op3_t3 te tv tn tev tnv ten tnve dzxi dxyi dzyi = op3_t3 tv te tn tev ten tnv tnve dzxi dzyi dxyi.
Proof.
  unfold op3_t3. cbv zeta. rewrite (op3_a_swap_zx tv te tn tev ten tnv tnve), (op3_b_swap_zx tv te tn tev ten tnv tnve), (op3_c_swap_zx tv te tn tev ten tnv tnve).
  generalize (op3_a tv te tn tev ten tnv tnve) (op3_b tv te tn tev ten tnv tnve) (op3_c tv te tn tev ten tnv tnve).
  intros a b c. unnum. ring.
Qed.
Lemma op3_t3_swap_xy tv te tn tev ten tnv tnve dzxi dzyi dxyi :
  op3_t3 tv tn te tnv ten tev tnve dzyi dzxi dxyi = op3_t3 tv te tn tev ten tnv tnve dzxi dzyi dxyi.
Proof.
  unfold op3_t3. cbv zeta. rewrite (op3_a_swap_xy tv te tn tev ten tnv tnve), (op3_b_swap_xy tv te tn tev ten tnv tnve), (op3_c_swap_xy tv te tn tev ten tnv tnve).
  generalize (op3_a tv te tn tev ten tnv tnve) (op3_b tv te tn tev ten tnv tnve) (op3_c tv te tn tev ten tnv tnve).
  intros a b c. unnum. ring.
Qed.

(* the 8-point formula (NonNeg3d.op3 is the formula without the guard) *)
Theorem op3_swap_zx tv te tn tev ten tnv tnve vref dz2i dx2i dy2i dzxi dzyi dxyi dsum :
  op3 te tv tn tev tnv ten tnve vref dx2i dz2i dy2i dzxi dxyi dzyi dsum
  = op3 tv te tn tev ten tnv tnve vref dz2i dx2i dy2i dzxi dzyi dxyi dsum.
Proof.
  unfold op3. cbv zeta. rewrite op3_t3_swap_zx, (op3_a_swap_zx tv te tn tev ten tnv tnve), (op3_b_swap_zx tv te tn tev ten tnv tnve), (op3_c_swap_zx tv te tn tev ten tnv tnve).
  generalize (op3_a tv te tn tev ten tnv tnve) (op3_b tv te tn tev ten tnv tnve) (op3_c tv te tn tev ten tnv tnve).
  intros a b c. numR. f_equal. f_equal. ring.
Qed.
Theorem op3_swap_xy tv te tn tev ten tnv tnve vref dz2i dx2i dy2i dzxi dzyi dxyi dsum :
  op3 tv tn te tnv ten tev tnve vref dz2i dy2i dx2i dzyi dzxi dxyi dsum
  = op3 tv te tn tev ten tnv tnve vref dz2i dx2i dy2i dzxi dzyi dxyi dsum.
Proof.
  unfold op3. cbv zeta. rewrite op3_t3_swap_xy, (op3_a_swap_xy tv te tn tev ten tnv tnve), (op3_b_swap_xy tv te tn tev ten tnv tnve), (op3_c_swap_xy tv te tn tev ten tnv tnve).
  generalize (op3_a tv te tn tev ten tnv tnve) (op3_b tv te tn tev ten tnv tnve) (op3_c tv te tn tev ten tnv tnve).
  intros a b c. numR. f_equal. f_equal. ring.
Qed.
(* the third transposition and a 3-cycle follow: the transpositions generate the six relabellings *)
Corollary op3_swap_zy tv te tn tev ten tnv tnve vref dz2i dx2i dy2i dzxi dzyi dxyi dsum :
  op3 tn te tv ten tev tnv tnve vref dy2i dx2i dz2i dxyi dzyi dzxi dsum
  = op3 tv te tn tev ten tnv tnve vref dz2i dx2i dy2i dzxi dzyi dxyi dsum.
Proof. rewrite <- op3_swap_zx, <- op3_swap_xy, <- op3_swap_zx. reflexivity. Qed.
(* the cycle Z -> X -> Y -> Z: the value at the old Z neighbour is found at the new X neighbour, ... *)
Corollary op3_cycle tv te tn tev ten tnv tnve vref dz2i dx2i dy2i dzxi dzyi dxyi dsum :
  op3 tn tv te tnv tev ten tnve vref dy2i dz2i dx2i dzyi dxyi dzxi dsum
  = op3 tv te tn tev ten tnv tnve vref dz2i dx2i dy2i dzxi dzyi dxyi dsum.
Proof. rewrite <- op3_swap_zx, <- op3_swap_xy. reflexivity. Qed.

(* the same in the notation of Operators3R: op3_raw (formula) and op3 (formula + causality guard) *)
Theorem O3_op3_raw_swap_zx tv te tn tev ten tnv tnve vref dz2i dx2i dy2i dzxi dzyi dxyi dsum :
  O3.op3_raw te tv tn tev tnv ten tnve vref dx2i dz2i dy2i dzxi dxyi dzyi dsum
  = O3.op3_raw tv te tn tev ten tnv tnve vref dz2i dx2i dy2i dzxi dzyi dxyi dsum.
Proof. exact (op3_swap_zx tv te tn tev ten tnv tnve vref dz2i dx2i dy2i dzxi dzyi dxyi dsum). Qed.
Theorem O3_op3_raw_swap_xy tv te tn tev ten tnv tnve vref dz2i dx2i dy2i dzxi dzyi dxyi dsum :
  O3.op3_raw tv tn te tnv ten tev tnve vref dz2i dy2i dx2i dzyi dzxi dxyi dsum
  = O3.op3_raw tv te tn tev ten tnv tnve vref dz2i dx2i dy2i dzxi dzyi dxyi dsum.
Proof. exact (op3_swap_xy tv te tn tev ten tnv tnve vref dz2i dx2i dy2i dzxi dzyi dxyi dsum). Qed.
Theorem O3_op3_swap_zx tv te tn tev ten tnv tnve vref dz2i dx2i dy2i dzxi dzyi dxyi dsum :
  O3.op3 te tv tn tev tnv ten tnve vref dx2i dz2i dy2i dzxi dxyi dzyi dsum
  = O3.op3 tv te tn tev ten tnv tnve vref dz2i dx2i dy2i dzxi dzyi dxyi dsum.
Proof. unfold O3.op3. cbv zeta. rewrite O3_op3_raw_swap_zx. reflexivity. Qed.
Theorem O3_op3_swap_xy tv te tn tev ten tnv tnve vref dz2i dx2i dy2i dzxi dzyi dxyi dsum :
  O3.op3 tv tn te tnv ten tev tnve vref dz2i dy2i dx2i dzyi dzxi dxyi dsum
  = O3.op3 tv te tn tev ten tnv tnve vref dz2i dx2i dy2i dzxi dzyi dxyi dsum.
Proof. unfold O3.op3. cbv zeta. rewrite O3_op3_raw_swap_xy. reflexivity. Qed.
Corollary O3_op3_swap_zy tv te tn tev ten tnv tnve vref dz2i dx2i dy2i dzxi dzyi dxyi dsum :
  O3.op3 tn te tv ten tev tnv tnve vref dy2i dx2i dz2i dxyi dzyi dzxi dsum
  = O3.op3 tv te tn tev ten tnv tnve vref dz2i dx2i dy2i dzxi dzyi dxyi dsum.
Proof. rewrite <- O3_op3_swap_zx, <- O3_op3_swap_xy, <- O3_op3_swap_zx. reflexivity. Qed.
Corollary O3_op3_cycle tv te tn tev ten tnv tnve vref dz2i dx2i dy2i dzxi dzyi dxyi dsum :
  O3.op3 tn tv te tnv tev ten tnve vref dy2i dz2i dx2i dzyi dxyi dzxi dsum
  = O3.op3 tv te tn tev ten tnv tnve vref dz2i dx2i dy2i dzxi dzyi dxyi dsum.
Proof. rewrite <- O3_op3_swap_zx, <- O3_op3_swap_xy. reflexivity. Qed.
Lemma O3_op3_t3_swap_zx tv te tn tev ten tnv tnve dzxi dzyi dxyi :
  O3.op3_t3 te tv tn tev tnv ten tnve dzxi dxyi dzyi = O3.op3_t3 tv te tn tev ten tnv tnve dzxi dzyi dxyi.
Proof. exact (op3_t3_swap_zx tv te tn tev ten tnv tnve dzxi dzyi dxyi). Qed.
Lemma O3_op3_t3_swap_xy tv te tn tev ten tnv tnve dzxi dzyi dxyi :
  O3.op3_t3 tv tn te tnv ten tev tnve dzyi dzxi dxyi = O3.op3_t3 tv te tn tev ten tnv tnve dzxi dzyi dxyi.
Proof. exact (op3_t3_swap_xy tv te tn tev ten tnv tnve dzxi dzyi dxyi). Qed.

(* the constants sweep3d passes are permuted accordingly (so the statements above apply to them) *)
Lemma dargs3_swap_zx dz dx dy :
  dargs3 dx dz dy
  = let '(dz', dx', dy', dz2i, dx2i, dy2i, dzxi, dzyi, dxyi, dsum) := dargs3 dz dx dy in
    (dx', dz', dy', dx2i, dz2i, dy2i, dzxi, dxyi, dzyi, dsum).
Proof. unfold dargs3. cbv zeta. numR. repeat (match goal with |- (_, _) = (_, _) => apply (f_equal2 pair) end); try reflexivity; ring. Qed.
Lemma dargs3_swap_xy dz dx dy :
  dargs3 dz dy dx
  = let '(dz', dx', dy', dz2i, dx2i, dy2i, dzxi, dzyi, dxyi, dsum) := dargs3 dz dx dy in
    (dz', dy', dx', dz2i, dy2i, dx2i, dzyi, dzxi, dxyi, dsum).
Proof. unfold dargs3. cbv zeta. numR. repeat (match goal with |- (_, _) = (_, _) => apply (f_equal2 pair) end); try reflexivity; ring. Qed.

(* the plane operators (test + formula).  Z<->X: ZX is mapped to itself with the roles of its two axes exchanged;
   ZY and XY are the SAME function of (time 1, time 2, diagonal, slowness, spacings), so they are exchanged.
   X<->Y: ZX and ZY (two syntactic forms of the formula) are exchanged, XY is mapped to itself. *)
Theorem t2d_zx_swap tv te tev vref dz dx dz2i dx2i :
  c_t2d_zx te tv tev vref dx dz dx2i dz2i = c_t2d_zx tv te tev vref dz dx dz2i dx2i.
Proof.
  unfold c_t2d_zx. rewrite andb_comm, !plane_zx_four_point, (OperatorsR.four_point_swap te tv). reflexivity.
Qed.
Theorem t2d_zy_xy_same (a b d vref d1 d2 e1 e2 : R) : c_t2d_zy a b d vref d1 d2 e1 e2 = c_t2d_xy a b d vref d1 d2 e1 e2.
Proof. reflexivity. Qed.
Theorem t2d_zx_zy_same tv tn tnv vref dz dy dz2i dy2i :
  c_t2d_zx tv tn tnv vref dz dy dz2i dy2i = c_t2d_zy tv tn tnv vref dz dy dz2i dy2i.
Proof. unfold c_t2d_zx, c_t2d_zy. rewrite plane_op_four_point, plane_zx_four_point. reflexivity. Qed.
Theorem t2d_xy_swap te tn ten vref dx dy dx2i dy2i :
  c_t2d_xy tn te ten vref dy dx dy2i dx2i = c_t2d_xy te tn ten vref dx dy dx2i dy2i.
Proof.
  unfold c_t2d_xy. rewrite andb_comm, !plane_op_four_point, (OperatorsR.four_point_swap tn te). reflexivity.
Qed.
Corollary t2d_zy_swap tv tn tnv vref dz dy dz2i dy2i :
  c_t2d_zy tn tv tnv vref dy dz dy2i dz2i = c_t2d_zy tv tn tnv vref dz dy dz2i dy2i.
Proof. rewrite !t2d_zy_xy_same. apply t2d_xy_swap. Qed.
(* in the notation of Operators3R *)
Theorem O3_t2d_zx_swap tv te tev vref dz dx dz2i dx2i :
  O3.t2d_zx te tv tev vref dx dz dx2i dz2i = O3.t2d_zx tv te tev vref dz dx dz2i dx2i.
Proof. exact (t2d_zx_swap tv te tev vref dz dx dz2i dx2i). Qed.
Theorem O3_t2d_zy_xy_same (a b d vref d1 d2 e1 e2 : R) : O3.t2d_zy a b d vref d1 d2 e1 e2 = O3.t2d_xy a b d vref d1 d2 e1 e2.
Proof. reflexivity. Qed.
Theorem O3_t2d_zx_zy_same tv tn tnv vref dz dy dz2i dy2i :
  O3.t2d_zx tv tn tnv vref dz dy dz2i dy2i = O3.t2d_zy tv tn tnv vref dz dy dz2i dy2i.
Proof. exact (t2d_zx_zy_same tv tn tnv vref dz dy dz2i dy2i). Qed.
Theorem O3_t2d_xy_swap te tn ten vref dx dy dx2i dy2i :
  O3.t2d_xy tn te ten vref dy dx dy2i dx2i = O3.t2d_xy te tn ten vref dx dy dx2i dy2i.
Proof. exact (t2d_xy_swap te tn ten vref dx dy dx2i dy2i). Qed.
End Operators.

(* ------------------------------------------------------------------------------------------ *)
(* 2. node level                                                                                *)
(* ------------------------------------------------------------------------------------------ *)
(* a' is the transpose of the n0 x n1 x n2 array a (extensional: shapes permuted, entries relocated) *)
Definition transp_zx (n0 n1 n2 : Z) (a a' : arr R) : Prop :=
  shape a = [n0; n1; n2] /\ shape a' = [n1; n0; n2] /\
  forall i j k, (0 <= i < n0)%Z -> (0 <= j < n1)%Z -> (0 <= k < n2)%Z -> get 0 a' [j; i; k] = get 0 a [i; j; k].
Definition transp_xy (n0 n1 n2 : Z) (a a' : arr R) : Prop :=
  shape a = [n0; n1; n2] /\ shape a' = [n0; n2; n1] /\
  forall i j k, (0 <= i < n0)%Z -> (0 <= j < n1)%Z -> (0 <= k < n2)%Z -> get 0 a' [i; k; j] = get 0 a [i; j; k].

(* the indices one node update reads along one axis are in range: the node i, its upwind neighbour i - sgnt in the
   n nodes, the upwind cell i - sgnv in the n - 1 cells.  (Then n >= 2 and the clamped cell indices max(i-1,0),
   min(i,n-2) are in range too.)  sweep3d calls sweep with (sgnt, sgnv, i) = (1, 1, 1..n-1) or (-1, 0, n-2..0). *)
Definition axis_ok (n i sgnv sgnt : Z) : Prop := (0 <= i < n /\ 0 <= i - sgnt < n /\ 0 <= i - sgnv < n - 1)%Z.

Ltac tr_get H := cbn [nofZ NumR]; apply H; lia.
Ltac tr_rw H := cbn [nofZ NumR]; rewrite !(fun a b c => H a b c) by lia.

Section NodeZX.
Variables (tt tt' slow slow' : arr R) (nz nx ny : Z).
Hypothesis Htt : transp_zx nz nx ny tt tt'.
Hypothesis Hsl : transp_zx (nz - 1) (nx - 1) (ny - 1) slow slow'.
Variables (i j k sgnvz sgnvx sgnvy sgntz sgntx sgnty : Z).
Hypotheses (Hi : axis_ok nz i sgnvz sgntz) (Hj : axis_ok nx j sgnvx sgntx) (Hk : axis_ok ny k sgnvy sgnty).

Let Gt := proj2 (proj2 Htt).
Let Gs := proj2 (proj2 Hsl).

(* the seven neighbour times: the roles of tv/te and of ten/tnv are exchanged *)
Lemma nb_v_zx : nb_v tt' j i k sgntx = nb_e tt i j k sgntx.
Proof. unfold nb_v, nb_e, axis_ok in *. tr_get Gt. Qed.
Lemma nb_e_zx : nb_e tt' j i k sgntz = nb_v tt i j k sgntz.
Proof. unfold nb_v, nb_e, axis_ok in *. tr_get Gt. Qed.
Lemma nb_n_zx : nb_n tt' j i k sgnty = nb_n tt i j k sgnty.
Proof. unfold nb_n, axis_ok in *. tr_get Gt. Qed.
Lemma nb_ev_zx : nb_ev tt' j i k sgntx sgntz = nb_ev tt i j k sgntz sgntx.
Proof. unfold nb_ev, axis_ok in *. tr_get Gt. Qed.
Lemma nb_en_zx : nb_en tt' j i k sgntz sgnty = nb_nv tt i j k sgntz sgnty.
Proof. unfold nb_en, nb_nv, axis_ok in *. tr_get Gt. Qed.
Lemma nb_nv_zx : nb_nv tt' j i k sgntx sgnty = nb_en tt i j k sgntx sgnty.
Proof. unfold nb_en, nb_nv, axis_ok in *. tr_get Gt. Qed.
Lemma nb_nve_zx : nb_nve tt' j i k sgntx sgntz sgnty = nb_nve tt i j k sgntz sgntx sgnty.
Proof. unfold nb_nve, axis_ok in *. tr_get Gt. Qed.
Lemma t0_zx : get 0 tt' [j; i; k] = get 0 tt [i; j; k].
Proof. unfold axis_ok in *. apply Gt; lia. Qed.

(* the cells: edge (four cells), face (two cells), cell.  The clamps of the transposed problem are those of the
   exchanged axis WITH ITS LENGTH; the four cells of an edge are listed in another order *)
Lemma edge_z_zx : edge_s_z slow' j i k sgnvx nz ny = edge_s_x slow i j k sgnvx nz ny.
Proof. unfold edge_s_z, edge_s_x, axis_ok in *. tr_rw Gs. apply pymin4_swap23. Qed.
Lemma edge_x_zx : edge_s_x slow' j i k sgnvz nx ny = edge_s_z slow i j k sgnvz nx ny.
Proof. unfold edge_s_z, edge_s_x, axis_ok in *. tr_rw Gs. apply pymin4_swap23. Qed.
Lemma edge_y_zx : edge_s_y slow' j i k sgnvy nx nz = edge_s_y slow i j k sgnvy nz nx.
Proof. unfold edge_s_y, axis_ok in *. tr_rw Gs. apply pymin4_swap23. Qed.
Lemma face_zx_zx : face_s_zx slow' j i k sgnvx sgnvz ny = face_s_zx slow i j k sgnvz sgnvx ny.
Proof. unfold face_s_zx, axis_ok in *. tr_rw Gs. reflexivity. Qed.
Lemma face_zy_zx : face_s_zy slow' j i k sgnvx sgnvy nz = face_s_xy slow i j k sgnvx sgnvy nz.
Proof. unfold face_s_zy, face_s_xy, axis_ok in *. tr_rw Gs. reflexivity. Qed.
Lemma face_xy_zx : face_s_xy slow' j i k sgnvz sgnvy nx = face_s_zy slow i j k sgnvz sgnvy nx.
Proof. unfold face_s_zy, face_s_xy, axis_ok in *. tr_rw Gs. reflexivity. Qed.
Lemma cell_zx : cell_s slow' j i k sgnvx sgnvz sgnvy = cell_s slow i j k sgnvz sgnvx sgnvy.
Proof. unfold cell_s, axis_ok in *. tr_get Gs. Qed.

(* the candidates *)
Lemma node_t1d_zx (dz dx dy : R) :
  c_t1d tt' slow' dx dz dy j i k sgnvx sgnvz sgnvy sgntx sgntz sgnty nx nz ny
  = c_t1d tt slow dz dx dy i j k sgnvz sgnvx sgnvy sgntz sgntx sgnty nz nx ny.
Proof. unfold c_t1d. rewrite nb_v_zx, nb_e_zx, nb_n_zx, edge_z_zx, edge_x_zx, edge_y_zx. apply pymin3_swap12. Qed.

Lemma node_t2d_zx (dz dx dy dz2i dx2i dy2i : R) :
  c_t2d tt' slow' dx dz dy dx2i dz2i dy2i j i k sgnvx sgnvz sgnvy sgntx sgntz sgnty nx nz ny
  = c_t2d tt slow dz dx dy dz2i dx2i dy2i i j k sgnvz sgnvx sgnvy sgntz sgntx sgnty nz nx ny.
Proof.
  unfold c_t2d. cbv zeta.
  rewrite nb_v_zx, nb_e_zx, nb_n_zx, nb_ev_zx, nb_en_zx, nb_nv_zx, face_zx_zx, face_zy_zx, face_xy_zx.
  rewrite (t2d_zx_swap (nb_v tt i j k sgntz) (nb_e tt i j k sgntx)).
  (* c_t2d_zy and c_t2d_xy are the same function (t2d_zy_xy_same) *)
  exact (pymin3_swap23 _ _ _).
Qed.

Lemma node_t3d_zx guarded (dz dx dy dz2i dx2i dy2i dzxi dzyi dxyi dsum : R) :
  c_t3d guarded tt' slow' dx dz dy dx2i dz2i dy2i dzxi dxyi dzyi dsum j i k sgnvx sgnvz sgnvy sgntx sgntz sgnty nx nz ny
  = c_t3d guarded tt slow dz dx dy dz2i dx2i dy2i dzxi dzyi dxyi dsum i j k sgnvz sgnvx sgnvy sgntz sgntx sgnty nz nx ny.
Proof.
  unfold c_t3d. cbv zeta.
  rewrite node_t1d_zx, node_t2d_zx, nb_v_zx, nb_e_zx, nb_n_zx, nb_ev_zx, nb_en_zx, nb_nv_zx, nb_nve_zx, cell_zx.
  rewrite (pymax3_swap12 (nb_e tt i j k sgntx)), op3_t3_swap_zx, op3_swap_zx. reflexivity.
Qed.

Theorem node_value_zx_sec guarded (dz dx dy dz2i dx2i dy2i dzxi dzyi dxyi dsum : R) :
  node_value guarded tt' slow' dx dz dy dx2i dz2i dy2i dzxi dxyi dzyi dsum
             j i k sgnvx sgnvz sgnvy sgntx sgntz sgnty nx nz ny
  = node_value guarded tt slow dz dx dy dz2i dx2i dy2i dzxi dzyi dxyi dsum
               i j k sgnvz sgnvx sgnvy sgntz sgntx sgnty nz nx ny.
Proof. unfold node_value. rewrite node_t1d_zx, node_t2d_zx, node_t3d_zx. cbn [nofZ NumR]. rewrite t0_zx. reflexivity. Qed.
End NodeZX.

Section NodeXY.
Variables (tt tt' slow slow' : arr R) (nz nx ny : Z).
Hypothesis Htt : transp_xy nz nx ny tt tt'.
Hypothesis Hsl : transp_xy (nz - 1) (nx - 1) (ny - 1) slow slow'.
Variables (i j k sgnvz sgnvx sgnvy sgntz sgntx sgnty : Z).
Hypotheses (Hi : axis_ok nz i sgnvz sgntz) (Hj : axis_ok nx j sgnvx sgntx) (Hk : axis_ok ny k sgnvy sgnty).

Let Gt := proj2 (proj2 Htt).
Let Gs := proj2 (proj2 Hsl).

(* the roles of te/tn and of tev/tnv are exchanged *)
Lemma nb_v_xy : nb_v tt' i k j sgntz = nb_v tt i j k sgntz.
Proof. unfold nb_v, axis_ok in *. tr_get Gt. Qed.
Lemma nb_e_xy : nb_e tt' i k j sgnty = nb_n tt i j k sgnty.
Proof. unfold nb_e, nb_n, axis_ok in *. tr_get Gt. Qed.
Lemma nb_n_xy : nb_n tt' i k j sgntx = nb_e tt i j k sgntx.
Proof. unfold nb_e, nb_n, axis_ok in *. tr_get Gt. Qed.
Lemma nb_ev_xy : nb_ev tt' i k j sgntz sgnty = nb_nv tt i j k sgntz sgnty.
Proof. unfold nb_ev, nb_nv, axis_ok in *. tr_get Gt. Qed.
Lemma nb_en_xy : nb_en tt' i k j sgnty sgntx = nb_en tt i j k sgntx sgnty.
Proof. unfold nb_en, axis_ok in *. tr_get Gt. Qed.
Lemma nb_nv_xy : nb_nv tt' i k j sgntz sgntx = nb_ev tt i j k sgntz sgntx.
Proof. unfold nb_ev, nb_nv, axis_ok in *. tr_get Gt. Qed.
Lemma nb_nve_xy : nb_nve tt' i k j sgntz sgnty sgntx = nb_nve tt i j k sgntz sgntx sgnty.
Proof. unfold nb_nve, axis_ok in *. tr_get Gt. Qed.
Lemma t0_xy : get 0 tt' [i; k; j] = get 0 tt [i; j; k].
Proof. unfold axis_ok in *. apply Gt; lia. Qed.

Lemma edge_z_xy : edge_s_z slow' i k j sgnvz ny nx = edge_s_z slow i j k sgnvz nx ny.
Proof. unfold edge_s_z, axis_ok in *. tr_rw Gs. apply pymin4_swap23. Qed.
Lemma edge_x_xy : edge_s_x slow' i k j sgnvy nz nx = edge_s_y slow i j k sgnvy nz nx.
Proof. unfold edge_s_x, edge_s_y, axis_ok in *. tr_rw Gs. apply pymin4_swap23. Qed.
Lemma edge_y_xy : edge_s_y slow' i k j sgnvx nz ny = edge_s_x slow i j k sgnvx nz ny.
Proof. unfold edge_s_x, edge_s_y, axis_ok in *. tr_rw Gs. apply pymin4_swap23. Qed.
Lemma face_zx_xy : face_s_zx slow' i k j sgnvz sgnvy nx = face_s_zy slow i j k sgnvz sgnvy nx.
Proof. unfold face_s_zx, face_s_zy, axis_ok in *. tr_rw Gs. reflexivity. Qed.
Lemma face_zy_xy : face_s_zy slow' i k j sgnvz sgnvx ny = face_s_zx slow i j k sgnvz sgnvx ny.
Proof. unfold face_s_zx, face_s_zy, axis_ok in *. tr_rw Gs. reflexivity. Qed.
Lemma face_xy_xy : face_s_xy slow' i k j sgnvy sgnvx nz = face_s_xy slow i j k sgnvx sgnvy nz.
Proof. unfold face_s_xy, axis_ok in *. tr_rw Gs. reflexivity. Qed.
Lemma cell_xy : cell_s slow' i k j sgnvz sgnvy sgnvx = cell_s slow i j k sgnvz sgnvx sgnvy.
Proof. unfold cell_s, axis_ok in *. tr_get Gs. Qed.

Lemma node_t1d_xy (dz dx dy : R) :
  c_t1d tt' slow' dz dy dx i k j sgnvz sgnvy sgnvx sgntz sgnty sgntx nz ny nx
  = c_t1d tt slow dz dx dy i j k sgnvz sgnvx sgnvy sgntz sgntx sgnty nz nx ny.
Proof. unfold c_t1d. rewrite nb_v_xy, nb_e_xy, nb_n_xy, edge_z_xy, edge_x_xy, edge_y_xy. apply pymin3_swap23. Qed.

Lemma node_t2d_xy (dz dx dy dz2i dx2i dy2i : R) :
  c_t2d tt' slow' dz dy dx dz2i dy2i dx2i i k j sgnvz sgnvy sgnvx sgntz sgnty sgntx nz ny nx
  = c_t2d tt slow dz dx dy dz2i dx2i dy2i i j k sgnvz sgnvx sgnvy sgntz sgntx sgnty nz nx ny.
Proof.
  unfold c_t2d. cbv zeta.
  rewrite nb_v_xy, nb_e_xy, nb_n_xy, nb_ev_xy, nb_en_xy, nb_nv_xy, face_zx_xy, face_zy_xy, face_xy_xy.
  rewrite (t2d_xy_swap (nb_e tt i j k sgntx) (nb_n tt i j k sgnty)).
  rewrite (t2d_zx_zy_same (nb_v tt i j k sgntz) (nb_n tt i j k sgnty)).
  rewrite <- (t2d_zx_zy_same (nb_v tt i j k sgntz) (nb_e tt i j k sgntx)). apply pymin3_swap12.
Qed.

Lemma node_t3d_xy guarded (dz dx dy dz2i dx2i dy2i dzxi dzyi dxyi dsum : R) :
  c_t3d guarded tt' slow' dz dy dx dz2i dy2i dx2i dzyi dzxi dxyi dsum i k j sgnvz sgnvy sgnvx sgntz sgnty sgntx nz ny nx
  = c_t3d guarded tt slow dz dx dy dz2i dx2i dy2i dzxi dzyi dxyi dsum i j k sgnvz sgnvx sgnvy sgntz sgntx sgnty nz nx ny.
Proof.
  unfold c_t3d. cbv zeta.
  rewrite node_t1d_xy, node_t2d_xy, nb_v_xy, nb_e_xy, nb_n_xy, nb_ev_xy, nb_en_xy, nb_nv_xy, nb_nve_xy, cell_xy.
  rewrite (pymax3_swap23 _ (nb_n tt i j k sgnty)), op3_t3_swap_xy, op3_swap_xy. reflexivity.
Qed.

Theorem node_value_xy_sec guarded (dz dx dy dz2i dx2i dy2i dzxi dzyi dxyi dsum : R) :
  node_value guarded tt' slow' dz dy dx dz2i dy2i dx2i dzyi dzxi dxyi dsum
             i k j sgnvz sgnvy sgnvx sgntz sgnty sgntx nz ny nx
  = node_value guarded tt slow dz dx dy dz2i dx2i dy2i dzxi dzyi dxyi dsum
               i j k sgnvz sgnvx sgnvy sgntz sgntx sgnty nz nx ny.
Proof. unfold node_value. rewrite node_t1d_xy, node_t2d_xy, node_t3d_xy. cbn [nofZ NumR]. rewrite t0_xy. reflexivity. Qed.
End NodeXY.

(* ---- the node theorems, all hypotheses explicit ---- *)
Theorem node_value_zx guarded (tt tt' slow slow' : arr R) nz nx ny (dz dx dy dz2i dx2i dy2i dzxi dzyi dxyi dsum : R)
        i j k sgnvz sgnvx sgnvy sgntz sgntx sgnty :
  transp_zx nz nx ny tt tt' -> transp_zx (nz - 1) (nx - 1) (ny - 1) slow slow' ->
  axis_ok nz i sgnvz sgntz -> axis_ok nx j sgnvx sgntx -> axis_ok ny k sgnvy sgnty ->
  node_value guarded tt' slow' dx dz dy dx2i dz2i dy2i dzxi dxyi dzyi dsum
             j i k sgnvx sgnvz sgnvy sgntx sgntz sgnty nx nz ny
  = node_value guarded tt slow dz dx dy dz2i dx2i dy2i dzxi dzyi dxyi dsum
               i j k sgnvz sgnvx sgnvy sgntz sgntx sgnty nz nx ny.
Proof. intros. apply node_value_zx_sec; assumption. Qed.

Theorem node_value_xy guarded (tt tt' slow slow' : arr R) nz nx ny (dz dx dy dz2i dx2i dy2i dzxi dzyi dxyi dsum : R)
        i j k sgnvz sgnvx sgnvy sgntz sgntx sgnty :
  transp_xy nz nx ny tt tt' -> transp_xy (nz - 1) (nx - 1) (ny - 1) slow slow' ->
  axis_ok nz i sgnvz sgntz -> axis_ok nx j sgnvx sgntx -> axis_ok ny k sgnvy sgnty ->
  node_value guarded tt' slow' dz dy dx dz2i dy2i dx2i dzyi dzxi dxyi dsum
             i k j sgnvz sgnvy sgnvx sgntz sgnty sgntx nz ny nx
  = node_value guarded tt slow dz dx dy dz2i dx2i dy2i dzxi dzyi dxyi dsum
               i j k sgnvz sgnvx sgnvy sgntz sgntx sgnty nz nx ny.
Proof. intros. apply node_value_xy_sec; assumption. Qed.

(* with the spacing constants computed from the spacings as sweep3d does (dargs3) *)
Theorem node_value_sp_zx guarded (tt tt' slow slow' : arr R) nz nx ny (dz dx dy : R) i j k sgnvz sgnvx sgnvy sgntz sgntx sgnty :
  transp_zx nz nx ny tt tt' -> transp_zx (nz - 1) (nx - 1) (ny - 1) slow slow' ->
  axis_ok nz i sgnvz sgntz -> axis_ok nx j sgnvx sgntx -> axis_ok ny k sgnvy sgnty ->
  node_value_sp guarded tt' slow' dx dz dy j i k sgnvx sgnvz sgnvy sgntx sgntz sgnty nx nz ny
  = node_value_sp guarded tt slow dz dx dy i j k sgnvz sgnvx sgnvy sgntz sgntx sgnty nz nx ny.
Proof.
  intros Ht Hs Hi Hj Hk. unfold node_value_sp. cbv zeta. numR.
  replace (1 / dx / dx * (1 / dz / dz)) with (1 / dz / dz * (1 / dx / dx)) by ring.
  replace (1 / dx / dx + 1 / dz / dz + 1 / dy / dy) with (1 / dz / dz + 1 / dx / dx + 1 / dy / dy) by ring.
  apply (node_value_zx guarded tt tt' slow slow' nz nx ny); assumption.
Qed.
Theorem node_value_sp_xy guarded (tt tt' slow slow' : arr R) nz nx ny (dz dx dy : R) i j k sgnvz sgnvx sgnvy sgntz sgntx sgnty :
  transp_xy nz nx ny tt tt' -> transp_xy (nz - 1) (nx - 1) (ny - 1) slow slow' ->
  axis_ok nz i sgnvz sgntz -> axis_ok nx j sgnvx sgntx -> axis_ok ny k sgnvy sgnty ->
  node_value_sp guarded tt' slow' dz dy dx i k j sgnvz sgnvy sgnvx sgntz sgnty sgntx nz ny nx
  = node_value_sp guarded tt slow dz dx dy i j k sgnvz sgnvx sgnvy sgntz sgntx sgnty nz nx ny.
Proof.
  intros Ht Hs Hi Hj Hk. unfold node_value_sp. cbv zeta. numR.
  replace (1 / dy / dy * (1 / dx / dx)) with (1 / dx / dx * (1 / dy / dy)) by ring.
  replace (1 / dz / dz + 1 / dy / dy + 1 / dx / dx) with (1 / dz / dz + 1 / dx / dx + 1 / dy / dy) by ring.
  apply (node_value_xy guarded tt tt' slow slow' nz nx ny); assumption.
Qed.

(* ---- the transposes exist: an explicit construction (so the relations are inhabited for every shape) ---- *)
Definition build3 (n0 n1 n2 : Z) (f : Z -> Z -> Z -> R) : arr R :=
  mkarr [n0; n1; n2]
        (map (fun p : nat => f (Z.of_nat p / (n1 * n2))%Z ((Z.of_nat p / n2) mod n1)%Z (Z.of_nat p mod n2)%Z)
             (seq 0 (Z.to_nat (n0 * n1 * n2)))).
Lemma shape_build3 n0 n1 n2 f : shape (build3 n0 n1 n2 f) = [n0; n1; n2].
Proof. reflexivity. Qed.
Lemma wf_build3 n0 n1 n2 f : (0 <= n0)%Z -> (0 <= n1)%Z -> (0 <= n2)%Z -> wf (build3 n0 n1 n2 f).
Proof.
  intros H0 H1 H2. split.
  - unfold build3. cbn [dat shape prodZ fold_right]. rewrite map_length, seq_length. f_equal. ring.
  - unfold build3. cbn [shape]. repeat constructor; assumption.
Qed.
Lemma get_build3 n0 n1 n2 f a b c :
  (0 <= a < n0)%Z -> (0 <= b < n1)%Z -> (0 <= c < n2)%Z -> get 0 (build3 n0 n1 n2 f) [a; b; c] = f a b c.
Proof.
  intros Ha Hb Hc. unfold get, build3. cbn [shape dat]. unfold flat. cbn [flat_aux].
  set (q := (((0 * n0 + a) * n1 + b) * n2 + c)%Z).
  assert (Eq : q = ((a * n1 + b) * n2 + c)%Z) by (unfold q; ring).
  assert (Hab : (0 <= a * n1 + b <= n0 * n1 - 1)%Z) by nia.
  assert (Hq : (0 <= q < n0 * n1 * n2)%Z).
  { rewrite Eq. assert ((a * n1 + b) * n2 <= (n0 * n1 - 1) * n2)%Z by (apply Z.mul_le_mono_nonneg_r; lia).
    assert (0 <= (a * n1 + b) * n2)%Z by (apply Z.mul_nonneg_nonneg; lia). lia. }
  set (F := fun p : nat => f (Z.of_nat p / (n1 * n2))%Z ((Z.of_nat p / n2) mod n1)%Z (Z.of_nat p mod n2)%Z).
  assert (Hlt : (Z.to_nat q < length (seq 0 (Z.to_nat (n0 * n1 * n2))))%nat) by (rewrite seq_length; lia).
  rewrite (nth_indep _ 0 (F 0%nat)) by (rewrite map_length; exact Hlt).
  rewrite map_nth, seq_nth by (rewrite seq_length in Hlt; exact Hlt).
  unfold F. rewrite Nat.add_0_l, Z2Nat.id by lia.
  assert (E1 : (q / (n1 * n2) = a)%Z) by (symmetry; apply (Z.div_unique_pos q (n1 * n2) a (b * n2 + c)); nia).
  assert (E2 : (q / n2 = a * n1 + b)%Z) by (symmetry; apply (Z.div_unique_pos q n2 (a * n1 + b) c); nia).
  assert (E3 : ((a * n1 + b) mod n1 = b)%Z) by (symmetry; apply (Z.mod_unique_pos (a * n1 + b) n1 a b); nia).
  assert (E4 : (q mod n2 = c)%Z) by (symmetry; apply (Z.mod_unique_pos q n2 (a * n1 + b) c); nia).
  rewrite E1, E2, E3, E4. reflexivity.
Qed.

Definition tr_zx (a : arr R) : arr R := build3 (dim a 1) (dim a 0) (dim a 2) (fun j i k => get 0 a [i; j; k]).
Definition tr_xy (a : arr R) : arr R := build3 (dim a 0) (dim a 2) (dim a 1) (fun i k j => get 0 a [i; j; k]).
Lemma tr_zx_spec n0 n1 n2 (a : arr R) : shape a = [n0; n1; n2] -> transp_zx n0 n1 n2 a (tr_zx a).
Proof.
  intros E. unfold tr_zx, dim. rewrite E. cbn [nth]. split; [exact E|]. split; [reflexivity|].
  intros i j k Hi Hj Hk. apply (get_build3 n1 n0 n2 (fun j i k => get 0 a [i; j; k])); assumption.
Qed.
Lemma tr_xy_spec n0 n1 n2 (a : arr R) : shape a = [n0; n1; n2] -> transp_xy n0 n1 n2 a (tr_xy a).
Proof.
  intros E. unfold tr_xy, dim. rewrite E. cbn [nth]. split; [exact E|]. split; [reflexivity|].
  intros i j k Hi Hj Hk. apply (get_build3 n0 n2 n1 (fun i k j => get 0 a [i; j; k])); assumption.
Qed.
Lemma wf_tr_zx n0 n1 n2 (a : arr R) : shape a = [n0; n1; n2] -> (0 <= n0)%Z -> (0 <= n1)%Z -> (0 <= n2)%Z -> wf (tr_zx a).
Proof. intros E H0 H1 H2. unfold tr_zx, dim. rewrite E. cbn [nth]. apply wf_build3; assumption. Qed.
Lemma wf_tr_xy n0 n1 n2 (a : arr R) : shape a = [n0; n1; n2] -> (0 <= n0)%Z -> (0 <= n1)%Z -> (0 <= n2)%Z -> wf (tr_xy a).
Proof. intros E H0 H1 H2. unfold tr_xy, dim. rewrite E. cbn [nth]. apply wf_build3; assumption. Qed.

(* ---- a 3-cycle (Z<->X followed by X<->Y): the two transpositions generate all six relabellings ---- *)
(* a'[j;k;i] = a[i;j;k]: the new axes are (X, Y, Z) *)
Definition transp_cyc (n0 n1 n2 : Z) (a a' : arr R) : Prop :=
  shape a = [n0; n1; n2] /\ shape a' = [n1; n2; n0] /\
  forall i j k, (0 <= i < n0)%Z -> (0 <= j < n1)%Z -> (0 <= k < n2)%Z -> get 0 a' [j; k; i] = get 0 a [i; j; k].
Lemma transp_cyc_factor n0 n1 n2 (a a' : arr R) :
  transp_cyc n0 n1 n2 a a' -> transp_zx n0 n1 n2 a (tr_zx a) /\ transp_xy n1 n0 n2 (tr_zx a) a'.
Proof.
  intros (S & S' & G). pose proof (tr_zx_spec n0 n1 n2 a S) as Hz. split; [exact Hz|].
  destruct Hz as (_ & S1 & G1). split; [exact S1|]. split; [exact S'|].
  intros p q r Hp Hq Hr. rewrite G1 by assumption. apply G; assumption.
Qed.
Corollary node_value_cyc guarded (tt tt' slow slow' : arr R) nz nx ny (dz dx dy dz2i dx2i dy2i dzxi dzyi dxyi dsum : R)
        i j k sgnvz sgnvx sgnvy sgntz sgntx sgnty :
  transp_cyc nz nx ny tt tt' -> transp_cyc (nz - 1) (nx - 1) (ny - 1) slow slow' ->
  axis_ok nz i sgnvz sgntz -> axis_ok nx j sgnvx sgntx -> axis_ok ny k sgnvy sgnty ->
  node_value guarded tt' slow' dx dy dz dx2i dy2i dz2i dxyi dzxi dzyi dsum
             j k i sgnvx sgnvy sgnvz sgntx sgnty sgntz nx ny nz
  = node_value guarded tt slow dz dx dy dz2i dx2i dy2i dzxi dzyi dxyi dsum
               i j k sgnvz sgnvx sgnvy sgntz sgntx sgnty nz nx ny.
Proof.
  intros Ht Hs Hi Hj Hk.
  destruct (transp_cyc_factor _ _ _ _ _ Ht) as [Ht1 Ht2]. destruct (transp_cyc_factor _ _ _ _ _ Hs) as [Hs1 Hs2].
  rewrite <- (node_value_zx guarded tt (tr_zx tt) slow (tr_zx slow) nz nx ny dz dx dy dz2i dx2i dy2i dzxi dzyi dxyi dsum
                            i j k sgnvz sgnvx sgnvy sgntz sgntx sgnty) by assumption.
  apply (node_value_xy guarded (tr_zx tt) tt' (tr_zx slow) slow' nx nz ny dx dz dy dx2i dz2i dy2i dzxi dxyi dzyi dsum
                       j i k sgnvx sgnvz sgnvy sgntx sgntz sgnty); assumption.
Qed.

(* ------------------------------------------------------------------------------------------ *)
(* 3. the generated code: Fteik3d.sweep on the transposed problem writes the transposed array    *)
(* ------------------------------------------------------------------------------------------ *)
Lemma inb3 (a : arr R) n0 n1 n2 i j k :
  shape a = [n0; n1; n2] -> (0 <= i < n0)%Z -> (0 <= j < n1)%Z -> (0 <= k < n2)%Z -> inb a [i; j; k] = true.
Proof.
  intros E Hi Hj Hk. unfold inb. rewrite E. cbn [inb_sh].
  rewrite !(proj2 (Z.leb_le _ _)), !(proj2 (Z.ltb_lt _ _)) by lia. reflexivity.
Qed.

(* `set` at the node, resp. at the relabelled node, preserves "is the transpose of" when the two values agree *)
Lemma transp_zx_set n0 n1 n2 (a a' : arr R) i j k (v v' : R) :
  wf a -> wf a' -> transp_zx n0 n1 n2 a a' -> (0 <= i < n0)%Z -> (0 <= j < n1)%Z -> (0 <= k < n2)%Z -> v' = v ->
  transp_zx n0 n1 n2 (set a [i; j; k] v) (set a' [j; i; k] v').
Proof.
  intros W W' (S & S' & G) Hi Hj Hk ->. split; [exact S|]. split; [exact S'|].
  intros p q r Hp Hq Hr.
  destruct (list_eq_dec_Z [i; j; k] [p; q; r]) as [E | N].
  - injection E as -> -> ->. rewrite !get_set_same; auto; eapply inb3; eauto.
  - rewrite !get_set_other; [apply G; assumption | | | | | |]; try (eapply inb3; eauto).
    + exact N.
    + intros E. apply N. injection E. intros. subst. reflexivity.
Qed.
Lemma transp_xy_set n0 n1 n2 (a a' : arr R) i j k (v v' : R) :
  wf a -> wf a' -> transp_xy n0 n1 n2 a a' -> (0 <= i < n0)%Z -> (0 <= j < n1)%Z -> (0 <= k < n2)%Z -> v' = v ->
  transp_xy n0 n1 n2 (set a [i; j; k] v) (set a' [i; k; j] v').
Proof.
  intros W W' (S & S' & G) Hi Hj Hk ->. split; [exact S|]. split; [exact S'|].
  intros p q r Hp Hq Hr.
  destruct (list_eq_dec_Z [i; j; k] [p; q; r]) as [E | N].
  - injection E as -> -> ->. rewrite !get_set_same; auto; eapply inb3; eauto.
  - rewrite !get_set_other; [apply G; assumption | | | | | |]; try (eapply inb3; eauto).
    + exact N.
    + intros E. apply N. injection E. intros. subst. reflexivity.
Qed.

(* MAIN (Z<->X), any tuple of spacing constants: the relabelled call gets the relabelled tuple *)
Theorem sweep_transpose_zx (tt tt' : arr R) ttsgn ttsgn' (slow slow' : arr R)
        (dz dx dy dz2i dx2i dy2i dzxi dzyi dxyi dsum : R) i j k sgnvz sgnvx sgnvy sgntz sgntx sgnty nz nx ny grad grad' :
  wf tt -> wf tt' ->
  transp_zx nz nx ny tt tt' -> transp_zx (nz - 1) (nx - 1) (ny - 1) slow slow' ->
  axis_ok nz i sgnvz sgntz -> axis_ok nx j sgnvx sgntx -> axis_ok ny k sgnvy sgnty ->
  transp_zx nz nx ny
    (fst (sweep tt ttsgn slow (dz, dx, dy, dz2i, dx2i, dy2i, dzxi, dzyi, dxyi, dsum)
                i j k sgnvz sgnvx sgnvy sgntz sgntx sgnty nz nx ny grad))
    (fst (sweep tt' ttsgn' slow' (dx, dz, dy, dx2i, dz2i, dy2i, dzxi, dxyi, dzyi, dsum)
                j i k sgnvx sgnvz sgnvy sgntx sgntz sgnty nx nz ny grad')).
Proof.
  intros W W' Ht Hs Hi Hj Hk. rewrite !(sweep_tt_eq_guarded (T := R)).
  apply transp_zx_set; try assumption; try (unfold axis_ok in *; lia).
  apply (node_value_zx true tt tt' slow slow' nz nx ny); assumption.
Qed.
(* MAIN (X<->Y) *)
Theorem sweep_transpose_xy (tt tt' : arr R) ttsgn ttsgn' (slow slow' : arr R)
        (dz dx dy dz2i dx2i dy2i dzxi dzyi dxyi dsum : R) i j k sgnvz sgnvx sgnvy sgntz sgntx sgnty nz nx ny grad grad' :
  wf tt -> wf tt' ->
  transp_xy nz nx ny tt tt' -> transp_xy (nz - 1) (nx - 1) (ny - 1) slow slow' ->
  axis_ok nz i sgnvz sgntz -> axis_ok nx j sgnvx sgntx -> axis_ok ny k sgnvy sgnty ->
  transp_xy nz nx ny
    (fst (sweep tt ttsgn slow (dz, dx, dy, dz2i, dx2i, dy2i, dzxi, dzyi, dxyi, dsum)
                i j k sgnvz sgnvx sgnvy sgntz sgntx sgnty nz nx ny grad))
    (fst (sweep tt' ttsgn' slow' (dz, dy, dx, dz2i, dy2i, dx2i, dzyi, dzxi, dxyi, dsum)
                i k j sgnvz sgnvy sgnvx sgntz sgnty sgntx nz ny nx grad')).
Proof.
  intros W W' Ht Hs Hi Hj Hk. rewrite !(sweep_tt_eq_guarded (T := R)).
  apply transp_xy_set; try assumption; try (unfold axis_ok in *; lia).
  apply (node_value_xy true tt tt' slow slow' nz nx ny); assumption.
Qed.

(* with the tuples sweep3d builds from the spacings: exchanging the spacings is all it takes *)
Theorem sweep_transpose_zx_dargs3 (tt tt' : arr R) ttsgn ttsgn' (slow slow' : arr R) (dz dx dy : R)
        i j k sgnvz sgnvx sgnvy sgntz sgntx sgnty nz nx ny grad grad' :
  wf tt -> wf tt' ->
  transp_zx nz nx ny tt tt' -> transp_zx (nz - 1) (nx - 1) (ny - 1) slow slow' ->
  axis_ok nz i sgnvz sgntz -> axis_ok nx j sgnvx sgntx -> axis_ok ny k sgnvy sgnty ->
  transp_zx nz nx ny
    (fst (sweep tt ttsgn slow (dargs3 dz dx dy) i j k sgnvz sgnvx sgnvy sgntz sgntx sgnty nz nx ny grad))
    (fst (sweep tt' ttsgn' slow' (dargs3 dx dz dy) j i k sgnvx sgnvz sgnvy sgntx sgntz sgnty nx nz ny grad')).
Proof.
  intros W W' Ht Hs Hi Hj Hk. rewrite (dargs3_swap_zx dz dx dy). unfold dargs3. cbv beta iota zeta.
  apply sweep_transpose_zx; assumption.
Qed.
Theorem sweep_transpose_xy_dargs3 (tt tt' : arr R) ttsgn ttsgn' (slow slow' : arr R) (dz dx dy : R)
        i j k sgnvz sgnvx sgnvy sgntz sgntx sgnty nz nx ny grad grad' :
  wf tt -> wf tt' ->
  transp_xy nz nx ny tt tt' -> transp_xy (nz - 1) (nx - 1) (ny - 1) slow slow' ->
  axis_ok nz i sgnvz sgntz -> axis_ok nx j sgnvx sgntx -> axis_ok ny k sgnvy sgnty ->
  transp_xy nz nx ny
    (fst (sweep tt ttsgn slow (dargs3 dz dx dy) i j k sgnvz sgnvx sgnvy sgntz sgntx sgnty nz nx ny grad))
    (fst (sweep tt' ttsgn' slow' (dargs3 dz dy dx) i k j sgnvz sgnvy sgnvx sgntz sgnty sgntx nz ny nx grad')).
Proof.
  intros W W' Ht Hs Hi Hj Hk. rewrite (dargs3_swap_xy dz dx dy). unfold dargs3. cbv beta iota zeta.
  apply sweep_transpose_xy; assumption.
Qed.

(* the 3-cycle Z -> X -> Y -> Z by composition (intermediate problem: the explicit Z<->X transpose) *)
Corollary sweep_transpose_cyc_dargs3 (tt tt' : arr R) ttsgn ttsgn' (slow slow' : arr R) (dz dx dy : R)
        i j k sgnvz sgnvx sgnvy sgntz sgntx sgnty nz nx ny grad grad' :
  wf tt -> wf tt' ->
  transp_cyc nz nx ny tt tt' -> transp_cyc (nz - 1) (nx - 1) (ny - 1) slow slow' ->
  axis_ok nz i sgnvz sgntz -> axis_ok nx j sgnvx sgntx -> axis_ok ny k sgnvy sgnty ->
  transp_cyc nz nx ny
    (fst (sweep tt ttsgn slow (dargs3 dz dx dy) i j k sgnvz sgnvx sgnvy sgntz sgntx sgnty nz nx ny grad))
    (fst (sweep tt' ttsgn' slow' (dargs3 dx dy dz) j k i sgnvx sgnvy sgnvz sgntx sgnty sgntz nx ny nz grad')).
Proof.
  intros W W' Ht Hs Hi Hj Hk.
  destruct (transp_cyc_factor _ _ _ _ _ Ht) as [Ht1 Ht2]. destruct (transp_cyc_factor _ _ _ _ _ Hs) as [Hs1 Hs2].
  assert (W1 : wf (tr_zx tt)).
  { destruct Ht as (S & _). apply (wf_tr_zx nz nx ny); [exact S | unfold axis_ok in *; lia ..]. }
  pose proof (sweep_transpose_zx_dargs3 tt (tr_zx tt) ttsgn ttsgn slow (tr_zx slow) dz dx dy
                i j k sgnvz sgnvx sgnvy sgntz sgntx sgnty nz nx ny grad grad W W1 Ht1 Hs1 Hi Hj Hk) as (S0 & S1 & G1).
  pose proof (sweep_transpose_xy_dargs3 (tr_zx tt) tt' ttsgn ttsgn' (tr_zx slow) slow' dx dz dy
                j i k sgnvx sgnvz sgnvy sgntx sgntz sgnty nx nz ny grad grad' W1 W' Ht2 Hs2 Hj Hi Hk) as (_ & S2 & G2).
  split; [exact S0|]. split; [exact S2|].
  intros p q r Hp Hq Hr. rewrite G2 by assumption. apply G1; assumption.
Qed.

(* ------------------------------------------------------------------------------------------ *)
(* 4. what the theorem is sensitive to: the axis length in a clamp                              *)
(* ------------------------------------------------------------------------------------------ *)
(* edge_s_z with  min(k, nx - 2)  for  min(k, ny - 2)  (the third index is clamped with the length of the wrong axis) *)
Definition edge_s_z_mut (slow : arr R) (i j k sgnvz nx ny : Z) : R :=
  pymin4 (get 0 slow [(i - sgnvz)%Z; Z.max (j - 1) 0; Z.max (k - 1) 0]) (get 0 slow [(i - sgnvz)%Z; Z.max (j - 1) 0; Z.min k (nx - 2)])
         (get 0 slow [(i - sgnvz)%Z; Z.min j (nx - 2); Z.max (k - 1) 0]) (get 0 slow [(i - sgnvz)%Z; Z.min j (nx - 2); Z.min k (nx - 2)]).
Definition mut_slow : arr R := mkarr [1%Z; 1%Z; 2%Z] [5; 1].     (* 2 x 2 x 3 nodes *)
Definition mut_slow' : arr R := mkarr [1%Z; 2%Z; 1%Z] [5; 1].    (* its X<->Y transpose: 2 x 3 x 2 nodes *)
Lemma mut_slow_transp : transp_xy 1 1 2 mut_slow mut_slow'.
Proof.
  split; [reflexivity|]. split; [reflexivity|]. intros i j k Hi Hj Hk.
  assert (i = 0%Z) by lia. assert (j = 0%Z) by lia. assert (k = 0%Z \/ k = 1%Z) as [-> | ->] by lia; subst; reflexivity.
Qed.
Lemma pymin4_le_4 (a b c d : R) : pymin4 a b c d <= d.
Proof. unfold pymin4. rewrite pymin2_Rmin. apply Rmin_r. Qed.
(* the law holds for the clamp of the code and fails for the mutated clamp, on the same admissible node *)
Example clamp_mutant_refuted :
  transp_xy (2 - 1) (2 - 1) (3 - 1) mut_slow mut_slow' /\ axis_ok 2 1 1 1 /\ axis_ok 2 1 1 1 /\ axis_ok 3 1 1 1 /\
  edge_s_z mut_slow' 1 1 1 1 3 2 = edge_s_z mut_slow 1 1 1 1 2 3 /\
  edge_s_z_mut mut_slow' 1 1 1 1 3 2 <> edge_s_z_mut mut_slow 1 1 1 1 2 3.
Proof.
  assert (A2 : axis_ok 2 1 1 1) by (unfold axis_ok; lia). assert (A3 : axis_ok 3 1 1 1) by (unfold axis_ok; lia).
  split; [exact mut_slow_transp|]. split; [exact A2|]. split; [exact A2|]. split; [exact A3|]. split.
  - exact (edge_z_xy mut_slow mut_slow' 2 2 3 mut_slow_transp 1 1 1 1 1 1 1 1 1 A2 A2 A3).
  - assert (E : edge_s_z_mut mut_slow 1 1 1 1 2 3 = 5) by exact (pymin4_same 5).
    assert (L : edge_s_z_mut mut_slow' 1 1 1 1 3 2 <= 0) by exact (pymin4_le_4 5 1 1 0).
    rewrite E. lra.
Qed.

(* ------------------------------------------------------------------------------------------ *)
(* non-vacuity: a 2 x 3 x 4 node grid (1 x 2 x 3 cells), spacings 1, 1/2, 2, node (1,1,2), sweep direction (+,+,-) *)
(* ------------------------------------------------------------------------------------------ *)
Definition ex_tt : arr R :=
  mkarr [2%Z; 3%Z; 4%Z] [0; 1; 2; 3;  1/2; 1; 2; 3;  1; 3/2; 5/2; 7/2;
                          1; 3/2; 5/2; 7/2;  5/4; 2; 100000; 4;  3/2; 9/4; 3; 4].
Definition ex_slow : arr R := mkarr [1%Z; 2%Z; 3%Z] [1; 2; 1;  3/2; 1; 1/2].
Definition ex_sgn : arr Z := full [2%Z; 3%Z; 4%Z; 3%Z] 0%Z.
Definition ex_sgn_zx : arr Z := full [3%Z; 2%Z; 4%Z; 3%Z] 0%Z.
Definition ex_sgn_xy : arr Z := full [2%Z; 4%Z; 3%Z; 3%Z] 0%Z.
Definition ex_sgn_cyc : arr Z := full [3%Z; 4%Z; 2%Z; 3%Z] 0%Z.
Lemma ex_tt_wf : wf ex_tt.
Proof. split; [reflexivity | repeat constructor; lia]. Qed.
Lemma ex_tt_shape : shape ex_tt = [2%Z; 3%Z; 4%Z]. Proof. reflexivity. Qed.
Lemma ex_slow_shape : shape ex_slow = [(2 - 1)%Z; (3 - 1)%Z; (4 - 1)%Z]. Proof. reflexivity. Qed.
Lemma ex_axes : axis_ok 2 1 1 1 /\ axis_ok 3 1 1 1 /\ axis_ok 4 2 0 (-1).
Proof. unfold axis_ok. lia. Qed.

Example node_value_zx_ex :
  node_value_sp true (tr_zx ex_tt) (tr_zx ex_slow) (1/2) 1 2 1 1 2 1 1 0 1 1 (-1) 3 2 4
  = node_value_sp true ex_tt ex_slow 1 (1/2) 2 1 1 2 1 1 0 1 1 (-1) 2 3 4.
Proof.
  destruct ex_axes as (A1 & A2 & A3).
  apply (node_value_sp_zx true ex_tt (tr_zx ex_tt) ex_slow (tr_zx ex_slow) 2 3 4); try assumption.
  - apply tr_zx_spec, ex_tt_shape.
  - apply tr_zx_spec, ex_slow_shape.
Qed.
Example node_value_xy_ex :
  node_value_sp true (tr_xy ex_tt) (tr_xy ex_slow) 1 2 (1/2) 1 2 1 1 0 1 1 (-1) 1 2 4 3
  = node_value_sp true ex_tt ex_slow 1 (1/2) 2 1 1 2 1 1 0 1 1 (-1) 2 3 4.
Proof.
  destruct ex_axes as (A1 & A2 & A3).
  apply (node_value_sp_xy true ex_tt (tr_xy ex_tt) ex_slow (tr_xy ex_slow) 2 3 4); try assumption.
  - apply tr_xy_spec, ex_tt_shape.
  - apply tr_xy_spec, ex_slow_shape.
Qed.
Example sweep_transpose_zx_ex :
  transp_zx 2 3 4
    (fst (sweep ex_tt ex_sgn ex_slow (dargs3 1 (1/2) 2) 1 1 2 1 1 0 1 1 (-1) 2 3 4 false))
    (fst (sweep (tr_zx ex_tt) ex_sgn_zx (tr_zx ex_slow) (dargs3 (1/2) 1 2) 1 1 2 1 1 0 1 1 (-1) 3 2 4 true)).
Proof.
  destruct ex_axes as (A1 & A2 & A3).
  apply sweep_transpose_zx_dargs3; try assumption.
  - apply ex_tt_wf.
  - apply (wf_tr_zx 2 3 4); [reflexivity | lia ..].
  - apply tr_zx_spec, ex_tt_shape.
  - apply tr_zx_spec, ex_slow_shape.
Qed.
Example sweep_transpose_xy_ex :
  transp_xy 2 3 4
    (fst (sweep ex_tt ex_sgn ex_slow (dargs3 1 (1/2) 2) 1 1 2 1 1 0 1 1 (-1) 2 3 4 false))
    (fst (sweep (tr_xy ex_tt) ex_sgn_xy (tr_xy ex_slow) (dargs3 1 2 (1/2)) 1 2 1 1 0 1 1 (-1) 1 2 4 3 true)).
Proof.
  destruct ex_axes as (A1 & A2 & A3).
  apply sweep_transpose_xy_dargs3; try assumption.
  - apply ex_tt_wf.
  - apply (wf_tr_xy 2 3 4); [reflexivity | lia ..].
  - apply tr_xy_spec, ex_tt_shape.
  - apply tr_xy_spec, ex_slow_shape.
Qed.
(* the cyclic relabelling, with the arrays of the relabelled problem built by the two explicit transposes *)
Lemma transp_cyc_tr n0 n1 n2 (a : arr R) : shape a = [n0; n1; n2] -> transp_cyc n0 n1 n2 a (tr_xy (tr_zx a)).
Proof.
  intros S. destruct (tr_zx_spec n0 n1 n2 a S) as (_ & S1 & G1).
  destruct (tr_xy_spec n1 n0 n2 (tr_zx a) S1) as (_ & S2 & G2).
  split; [exact S|]. split; [exact S2|]. intros i j k Hi Hj Hk. rewrite G2 by assumption. apply G1; assumption.
Qed.
Example sweep_transpose_cyc_ex :
  transp_cyc 2 3 4
    (fst (sweep ex_tt ex_sgn ex_slow (dargs3 1 (1/2) 2) 1 1 2 1 1 0 1 1 (-1) 2 3 4 false))
    (fst (sweep (tr_xy (tr_zx ex_tt)) ex_sgn_cyc (tr_xy (tr_zx ex_slow)) (dargs3 (1/2) 2 1) 1 2 1 1 0 1 1 (-1) 1 3 4 2 false)).
Proof.
  destruct ex_axes as (A1 & A2 & A3).
  apply sweep_transpose_cyc_dargs3; try assumption.
  - apply ex_tt_wf.
  - apply (wf_tr_xy 3 2 4); [reflexivity | lia ..].
  - apply transp_cyc_tr, ex_tt_shape.
  - apply transp_cyc_tr, ex_slow_shape.
Qed.

(* ------------------------------------------------------------------------------------------ *)
(* 5. NOT symmetric: the direction signs ttsgn on an exact tie of two candidates (binary64, by computation)          *)
(* ------------------------------------------------------------------------------------------ *)
Module Binary64.
Import Coq.Floats.PrimFloat.
Local Open Scope float_scope.
(* 2 x 2 x 2 nodes, one cell of slowness 1, unit spacings, node (1,1,1), direction (+,+,+).  tv = te = 0, tev = 5,
   every other entry Big: t1d1 = t1d2 = 1 is the strict minimum of (t0, t1d, t2d, t3d) = (1e5, 1, 5 + sqrt 2, 1e5).
   The whole input is invariant under Z<->X (tt[i,j,k] = tt[j,i,k], equal spacings, equal signs, equal sizes, the
   node is (1,1,1)), so the relabelled call IS this call, and an equivariant result would have
   ttsgn[1,1,1,0] = ttsgn[1,1,1,1].  The elif chain tests t1d1 first and writes (sgntz, 0, 0). *)
Definition tieF_tt : arr float := mkarr [2%Z; 2%Z; 2%Z] [100000; 5; 100000; 0;  100000; 0; 100000; 100000].
Definition tieF_slow : arr float := mkarr [1%Z; 1%Z; 1%Z] [1].
Definition tieF_sgn : arr Z := full [2%Z; 2%Z; 2%Z; 3%Z] 0%Z.
Definition idx8 : list (Z * Z * Z) :=
  [(0, 0, 0); (0, 0, 1); (0, 1, 0); (0, 1, 1); (1, 0, 0); (1, 0, 1); (1, 1, 0); (1, 1, 1)]%Z.
Example ttsgn_tie_not_equivariant_binary64 :
  forallb (fun '(i, j, k) => eqb (get 0 tieF_tt [i; j; k]) (get 0 tieF_tt [j; i; k])) idx8 = true /\
  let r := sweep tieF_tt tieF_sgn tieF_slow (dargs3 1 1 1) 1 1 1 1 1 1 1 1 1 2 2 2 true in
  get 0 (fst r) [1; 1; 1]%Z = 1 /\
  get 0%Z (snd r) [1; 1; 1; 0]%Z = 1%Z /\ get 0%Z (snd r) [1; 1; 1; 1]%Z = 0%Z /\ get 0%Z (snd r) [1; 1; 1; 2]%Z = 0%Z.
Proof. vm_compute. repeat split; reflexivity. Qed.

(* Binary64 itself: the relabelled computation adds the same terms in another order (dsum = (dz2i + dx2i) + dy2i,
   t1 = (tb dz2i + ta dx2i) + tc dy2i, t3, the left-to-right sums ta, tb, tc), and floating-point addition is not
   associative.  So over binary64 the equivariance proved above over R holds up to rounding only.  A plane wave on one
   cell with spacings 3/4, 5/4, 3/2 (every input exactly representable), node (1,1,1), where the 8-point operator gives
   the minimum: the Z<->X relabelling returns the same number, the X<->Y relabelling a number one ulp smaller. *)
Definition rndF_tt : arr float :=
  mkarr [2%Z; 2%Z; 2%Z] [0; 1.078125; 0.390625; 1.46875;  0.46875; 1.546875; 0.859375; 100000].
Definition rndF_tt_zx : arr float :=
  mkarr [2%Z; 2%Z; 2%Z] [0; 1.078125; 0.46875; 1.546875;  0.390625; 1.46875; 0.859375; 100000].
Definition rndF_tt_xy : arr float :=
  mkarr [2%Z; 2%Z; 2%Z] [0; 0.390625; 1.078125; 1.46875;  0.46875; 0.859375; 1.546875; 100000].
Example node_value_relabel_rounding_binary64 :
  forallb (fun '(i, j, k) => eqb (get 0 rndF_tt_zx [j; i; k]) (get 0 rndF_tt [i; j; k])
                             && eqb (get 0 rndF_tt_xy [i; k; j]) (get 0 rndF_tt [i; j; k])) idx8 = true /\
  let v := node_value_sp true rndF_tt tieF_slow 0.75 1.25 1.5 1 1 1 1 1 1 1 1 1 2 2 2 in
  let vzx := node_value_sp true rndF_tt_zx tieF_slow 1.25 0.75 1.5 1 1 1 1 1 1 1 1 1 2 2 2 in
  let vxy := node_value_sp true rndF_tt_xy tieF_slow 0.75 1.5 1.25 1 1 1 1 1 1 1 1 1 2 2 2 in
  ltb v (c_t1d rndF_tt tieF_slow 0.75 1.25 1.5 1 1 1 1 1 1 1 1 1 2 2 2) = true /\
  vzx = v /\ v - vxy = 0x1p-52.
Proof. vm_compute. repeat split; reflexivity. Qed.
End Binary64.

(* ------------------------------------------------------------------------------------------ *)
Print Assumptions op3_swap_zx.
Print Assumptions op3_swap_xy.
Print Assumptions op3_swap_zy.
Print Assumptions op3_cycle.
Print Assumptions O3_op3_swap_zx.
Print Assumptions O3_op3_swap_xy.
Print Assumptions O3_op3_raw_swap_zx.
Print Assumptions O3_op3_raw_swap_xy.
Print Assumptions t2d_zx_swap.
Print Assumptions t2d_zy_xy_same.
Print Assumptions t2d_zx_zy_same.
Print Assumptions t2d_xy_swap.
Print Assumptions node_value_zx.
Print Assumptions node_value_xy.
Print Assumptions node_value_sp_zx.
Print Assumptions node_value_sp_xy.
Print Assumptions node_value_cyc.
Print Assumptions tr_zx_spec.
Print Assumptions tr_xy_spec.
Print Assumptions sweep_transpose_zx.
Print Assumptions sweep_transpose_xy.
Print Assumptions sweep_transpose_zx_dargs3.
Print Assumptions sweep_transpose_xy_dargs3.
Print Assumptions sweep_transpose_cyc_dargs3.
Print Assumptions clamp_mutant_refuted.
Print Assumptions sweep_transpose_zx_ex.
Print Assumptions sweep_transpose_cyc_ex.
Print Assumptions Binary64.ttsgn_tie_not_equivariant_binary64.
Print Assumptions Binary64.node_value_relabel_rounding_binary64.
