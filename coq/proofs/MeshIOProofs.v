(* Proofs about the hand model of the mesh export (C20). *)
From Coq Require Import ZArith List Bool Lia.
From FT.model Require Import MeshIO.
Import ListNotations.
Open Scope Z_scope.

(* the point of node (ix, iz) is the point that carries that node's raveled data: grid[iz, ix] of a (nz+1, nx+1) array *)
Lemma pidx2_is_ravel nx ix iz : pidx2 nx ix iz = ravel2 (nx + 1) iz ix.
Proof. unfold pidx2, ravel2. ring. Qed.
Lemma cidx2_is_ravel nx ix iz : cidx2 nx ix iz = ravel2 nx iz ix.
Proof. unfold cidx2, ravel2. ring. Qed.
Lemma pidx3_is_ravel ny nz ix iy iz : pidx3 ny nz ix iy iz = ravel3_t (ny + 1) (nz + 1) iz ix iy.
Proof. reflexivity. Qed.
Lemma cidx3_is_ravel ny nz ix iy iz : cidx3 ny nz ix iy iz = ravel3_t ny nz iz ix iy.
Proof. reflexivity. Qed.

(* bijection between nodes and point numbers *)
Lemma pidx2_range nx nz ix iz : 0 <= nx -> 0 <= ix <= nx -> 0 <= iz <= nz -> 0 <= pidx2 nx ix iz < (nx + 1) * (nz + 1).
Proof. unfold pidx2. intros. nia. Qed.
Lemma pidx2_inj nx ix iz ix' iz' :
  0 <= ix <= nx -> 0 <= ix' <= nx -> pidx2 nx ix iz = pidx2 nx ix' iz' -> ix = ix' /\ iz = iz'.
Proof. unfold pidx2. intros H1 H2 E. assert (iz = iz') by nia. subst. split; lia. Qed.
Lemma pidx2_surj nx nz p : 0 <= nx -> 0 <= p < (nx + 1) * (nz + 1) ->
  exists ix iz, 0 <= ix <= nx /\ 0 <= iz <= nz /\ pidx2 nx ix iz = p.
Proof.
  intros Hn Hp. exists (p mod (nx + 1)), (p / (nx + 1)). unfold pidx2.
  pose proof (Z.mod_pos_bound p (nx + 1) ltac:(lia)). pose proof (Z.div_mod p (nx + 1) ltac:(lia)).
  assert (0 <= p / (nx + 1)) by (apply Z.div_pos; lia).
  assert (p / (nx + 1) < nz + 1) by (apply Z.div_lt_upper_bound; nia).
  repeat split; try lia.
Qed.
Lemma pidx3_range nx ny nz ix iy iz : 0 <= ny -> 0 <= nz -> 0 <= ix <= nx -> 0 <= iy <= ny -> 0 <= iz <= nz ->
  0 <= pidx3 ny nz ix iy iz < (nx + 1) * (ny + 1) * (nz + 1).
Proof. unfold pidx3. intros. nia. Qed.
Lemma pidx3_inj ny nz ix iy iz ix' iy' iz' :
  0 <= iy <= ny -> 0 <= iy' <= ny -> 0 <= iz <= nz -> 0 <= iz' <= nz ->
  pidx3 ny nz ix iy iz = pidx3 ny nz ix' iy' iz' -> ix = ix' /\ iy = iy' /\ iz = iz'.
Proof.
  unfold pidx3. intros H1 H2 H3 H4 E.
  assert (ix * (ny + 1) + iy = ix' * (ny + 1) + iy') by nia.
  assert (ix = ix') by nia. subst. repeat split; lia.
Qed.

Ltac notin_split := simpl; intro; repeat match goal with
  | [H : _ \/ _ |- _] => destruct H | [H : False |- _] => destruct H end.
Ltac eq_absurd := match goal with [H : _ = _ |- _] => ring_simplify in H; first [lia | nia] end.
Ltac nodup_nia := repeat (apply NoDup_cons; [notin_split; eq_absurd|]); apply NoDup_nil.

(* the four corners of cell (ix, iz) are four distinct points: exactly the nodes (ix..ix+1, iz..iz+1) *)
Lemma corners2_are_cell_nodes nx ix iz :
  corners2 nx ix iz = [pidx2 nx ix iz; pidx2 nx (ix + 1) iz; pidx2 nx (ix + 1) (iz + 1); pidx2 nx ix (iz + 1)].
Proof. reflexivity. Qed.
Lemma corners2_distinct nx ix iz : 0 <= ix < nx -> NoDup (corners2 nx ix iz).
Proof.
  intros Hn. unfold corners2, pidx2. nodup_nia.
Qed.
Lemma corners3_distinct ny nz ix iy iz : 0 <= iy < ny -> 0 <= iz < nz -> NoDup (corners3 ny nz ix iy iz).
Proof.
  intros Hy Hz. unfold corners3, pidx3. nodup_nia.
Qed.

(* ray connectivity: consecutive vertices, offset by the number of points of the preceding rays *)
Lemma ray_segments_consecutive off n a b : In (a, b) (ray_segments off n) -> b = a + 1 /\ off <= a < off + n - 1.
Proof.
  unfold ray_segments, range0. rewrite in_map_iff. intros (k & E & Hk). inversion E; subst.
  apply in_map_iff in Hk as (m & <- & Hm). apply in_seq in Hm. lia.
Qed.
Lemma rays_segments_length off lens : length (rays_segments off lens) = length lens.
Proof. revert off; induction lens as [|n t IH]; intros; simpl; auto. Qed.
