(* C16: exact-arithmetic facts about the metadata of resample and smooth (hand model coq/model/GridMeta.v). *)
From Coq Require Import ZArith List Bool Reals Lra Lia.
From FT.lib Require Import Num.
From FT.model Require Import GridMeta.
Import ListNotations.
Open Scope R_scope.

(* physical extent (cells x spacing) is preserved on every axis *)
Lemma resample_extent_axis (a : R) (b c : Z) : c <> 0%Z ->
  IZR c * (ndiv (nmul a (nofZ (T:=R) b)) (nofZ c)) = IZR b * a.
Proof. intros Hc. simpl. assert (IZR c <> 0) by (apply not_0_IZR; exact Hc). field. exact H. Qed.

Lemma resample_gridsize_extent (gs : list R) (old new : list Z) :
  Forall (fun c => c <> 0%Z) new -> length gs = length old -> length old = length new ->
  forall k, (k < length new)%nat ->
  IZR (nth k new 0%Z) * nth k (resample_gridsize gs old new) 0 = IZR (nth k old 0%Z) * nth k gs 0.
Proof.
  revert old new; induction gs as [|a gs IH]; intros old new Hnz L1 L2 k Hk.
  - destruct old; [|discriminate]. destruct new; [|discriminate]. simpl in Hk. lia.
  - destruct old as [|b old]; [discriminate|]. destruct new as [|c new]; [discriminate|].
    simpl in *. inversion Hnz as [|? ? Hc Hn']; subst. destruct k as [|k].
    + apply resample_extent_axis. exact Hc.
    + apply IH; auto; lia.
Qed.

Lemma resample_meta_shape_origin {T : Type} `{Num T} (m : meta T) new :
  m_shape (resample_meta m new) = new /\ m_origin (resample_meta m new) = m_origin m.
Proof. split; reflexivity. Qed.

(* smooth: sigma is interpreted in length units: rescaling lengths by c leaves the filter's argument unchanged *)
Lemma smooth_arg_unit_invariant (c : R) (sigma gs : list R) :
  c <> 0 -> Forall (fun g => g <> 0) gs ->
  smooth_arg (map (Rmult c) sigma) (map (Rmult c) gs) = smooth_arg sigma gs.
Proof.
  intros Hc. revert gs. induction sigma as [|s sigma IH]; intros [|g gs] Hg; simpl; auto.
  inversion Hg; subst. f_equal; [|apply IH; assumption]. field. split; assumption.
Qed.
Lemma smooth_meta_unchanged {T : Type} (m : meta T) : smooth_meta m = m.
Proof. reflexivity. Qed.
