(* A posteriori 3D ray tracing (gen/Ray3d.v, source /repo/fteikpy/_fteik/_ray3d.py).
   Same development as Ray2dProofs.v (whose generic sections While / Blocks / MapM, state
   projections s_count .. s_upper, clamp, cell, magnet_of and tactics are reused).

   Generic in the numeric type T unless stated otherwise:
     1. ray3d_core_outside, ray3d_raises_value_error_iff (+ ray3d_nan_end_point_raises for binary64)
     2. ray3d_free_terminates
     3. ray3d_honor_terminates (ray3d_terminates: the bound works in both modes)
     4. ray3d_core_count_range
     5. ray3d_core_endpoints, ray3d_1_endpoints
     6. ray3d_vertices_in_hull     (T := R)
     7. ray3d_vectorized_spec, ray3d_vectorized_as_singles, ray3d_list_raises_like_first_failing_single *)
From Coq Require Import ZArith List Bool Lia Reals Lra.
From FT.lib Require Import Num Arr ArrLemmas NumArr.
From FT.gen Require Import Common Interp3d FteikCommon Ray3d.
From FT.proofs Require Import Ray2dProofs.
Import ListNotations.
Open Scope Z_scope.

Section Core3.
Context {T : Type} `{Num T}.
Local Notation St3 := (@St2 T).

(* the code's hull test *)
Definition hull3 (z x y : arr T) (zend xend yend : T) : bool :=
  ((nleb (get (nofZ 0) z [0]) zend) && (nleb zend (get (nofZ 0) z [(dim z 0%nat - 1)]))) &&
  ((nleb (get (nofZ 0) x [0]) xend) && (nleb xend (get (nofZ 0) x [(dim x 0%nat - 1)]))) &&
  ((nleb (get (nofZ 0) y [0]) yend) && (nleb yend (get (nofZ 0) y [(dim y 0%nat - 1)]))).
(* nfree_max as computed by the code *)
Definition nfree_max3 (z x y : arr T) (stepsize : T) : Z :=
  (ntrunc (ndiv (Common.dist3d (get (nofZ 0) z [0]) (get (nofZ 0) x [0]) (get (nofZ 0) y [0])
                               (get (nofZ 0) z [(dim z 0%nat - 1)]) (get (nofZ 0) x [(dim x 0%nat - 1)])
                               (get (nofZ 0) y [(dim y 0%nat - 1)]))
                stepsize)) + 1.

(* a 1-D array with three entries *)
Definition vec3 (p : arr T) : Prop := shape p = [3] /\ length (dat p) = 3%nat.

Lemma vec3_set p i v : vec3 p -> vec3 (set p i v).
Proof. intros [H1 H2]. split; simpl; auto. rewrite upd_length. exact H2. Qed.
Lemma vec3_amap2 (f : T -> T -> T) p q : vec3 p -> length (dat q) = 3%nat -> vec3 (amap2 f p q).
Proof.
  intros [H1 H2] Hq. split; simpl; auto.
  destruct (dat p) as [|a [|b [|c [|]]]]; try discriminate.
  destruct (dat q) as [|a' [|b' [|c' [|]]]]; try discriminate. reflexivity.
Qed.
Lemma vec3_of_list (a b c : T) : vec3 (of_list [a; b; c]).
Proof. split; reflexivity. Qed.
Lemma get_set3 d p a b c : vec3 p ->
  get d (set (set (set p [0] a) [1] b) [2] c) [0] = a /\
  get d (set (set (set p [0] a) [1] b) [2] c) [1] = b /\
  get d (set (set (set p [0] a) [1] b) [2] c) [2] = c.
Proof.
  intros [H1 H2]. destruct p as [sh l]. simpl in *. subst sh.
  destruct l as [|u [|v [|w [|]]]]; try discriminate. repeat split; reflexivity.
Qed.

(* invariant of the auxiliary vectors *)
Definition InvS3 (hg : bool) (s : St3) : Prop :=
  vec3 (s_pcur s) /\ length (dat (s_delta s)) = 3%nat /\
  (hg = true -> vec3 (s_lower s) /\ vec3 (s_upper s)).

(* the stored point is the result of the three clamps *)
Definition clamped3 (z x y p : arr T) : Prop :=
  (exists a, get (nofZ 0) p [0] = clamp z a) /\ (exists b, get (nofZ 0) p [1] = clamp x b) /\
  (exists c, get (nofZ 0) p [2] = clamp y c).

Definition cells3 (z x y : arr T) (p lo up : arr T) : Prop :=
  cell z (get (nofZ 0) p [0]) (get (nofZ 0) lo [0]) (get (nofZ 0) up [0]) /\
  cell x (get (nofZ 0) p [1]) (get (nofZ 0) lo [1]) (get (nofZ 0) up [1]) /\
  cell y (get (nofZ 0) p [2]) (get (nofZ 0) lo [2]) (get (nofZ 0) up [2]).

Definition magnets3 (lo up p p' : arr T) : Prop :=
  magnet_of lo up p p' 0 /\ magnet_of lo up p p' 1 /\ magnet_of lo up p p' 2.

(* one execution of the loop body: a plain break, a stored vertex, or a free step *)
Definition step_spec3 (hg : bool) (max_step nfmax : Z) (z x y : arr T) (s : St3) (r : ctl St3) : Prop :=
  r = Brk s \/
  (s_count s < max_step /\ s_nfree s <= nfmax /\
   exists s', InvS3 hg s' /\
     ((hg = false /\ r = Next s' /\ s_count s' = s_count s + 1 /\ s_nfree s' = s_nfree s /\
       s_ray s' = set_sub (s_ray s) [s_count s] (s_pcur s') /\ clamped3 z x y (s_pcur s')) \/
      (hg = true /\ (r = Next s' \/ r = Brk s') /\ s_count s' = s_count s + 1 /\ s_nfree s' = 0 /\
       s_ray s' = set_sub (s_ray s) [s_count s] (s_pcur s') /\
       (exists p, magnets3 (s_lower s) (s_upper s) p (s_pcur s') /\ vec3 p /\ clamped3 z x y p) /\
       cells3 z x y (s_pcur s') (s_lower s') (s_upper s')) \/
      (hg = true /\ r = Next s' /\ s_count s' = s_count s /\ s_nfree s' = s_nfree s + 1 /\
       s_ray s' = s_ray s /\ s_lower s' = s_lower s /\ s_upper s' = s_upper s))).

(* what the function returns after the loop *)
Definition fin3 (zsrc xsrc ysrc : T) (max_step nfmax : Z) (s : St3) : res (arr T * Z) :=
  if (max_step <=? s_count s) || (nfmax <? s_nfree s) then Ok (s_ray s, -2)
  else Ok (set_sub (s_ray s) [s_count s] (of_list [zsrc; xsrc; ysrc]), s_count s).

Lemma len3_set (a : arr T) i v : length (dat a) = 3%nat -> length (dat (set a i v)) = 3%nat.
Proof. intros E. simpl. rewrite upd_length. exact E. Qed.
Lemma len3_amap (f : T -> T) (a : arr T) : length (dat a) = 3%nat -> length (dat (amap f a)) = 3%nat.
Proof. intros E. simpl. rewrite map_length. exact E. Qed.
Lemma vec3_for_list (l : list Z) (body : Z -> arr T -> arr T) p :
  (forall ix q, vec3 q -> vec3 (body ix q)) -> vec3 p -> vec3 (for_list l body p).
Proof. intros Hb Hp. apply for_list_inv; auto. Qed.
Lemma clamped3_intro z x y p a b c :
  vec3 p -> clamped3 z x y (set (set (set p [0] (clamp z a)) [1] (clamp x b)) [2] (clamp y c)).
Proof.
  intros Hp. destruct (get_set3 (nofZ 0) p (clamp z a) (clamp x b) (clamp y c) Hp) as (G0 & G1 & G2).
  split; [exists a; exact G0|split; [exists b; exact G1|exists c; exact G2]].
Qed.

Lemma get_set_vec3 d p v i j : vec3 p -> In i [0; 1; 2] -> In j [0; 1; 2] ->
  get d (set p [i] v) [j] = if i =? j then v else get d p [j].
Proof.
  intros [H1 H2] Hi Hj. destruct p as [sh l]. simpl in H1, H2. subst sh.
  destruct l as [|u [|w [|t [|]]]]; try discriminate.
  simpl in Hi, Hj.
  destruct Hi as [<-|[<-|[<-|[]]]]; destruct Hj as [<-|[<-|[<-|[]]]]; reflexivity.
Qed.

(* one magnetism step on component ix *)
Lemma magnet_step3 lo up (body : Z -> arr T -> arr T) q ix :
  (forall ix q, body ix q = q \/ body ix q = set q [ix] (get (nofZ 0) lo [ix]) \/
                body ix q = set q [ix] (get (nofZ 0) up [ix])) ->
  vec3 q -> In ix [0; 1; 2] ->
  vec3 (body ix q) /\
  (forall j, In j [0; 1; 2] -> j <> ix -> get (nofZ 0) (body ix q) [j] = get (nofZ 0) q [j]) /\
  (get (nofZ 0) (body ix q) [ix] = get (nofZ 0) q [ix] \/
   get (nofZ 0) (body ix q) [ix] = get (nofZ 0) lo [ix] \/
   get (nofZ 0) (body ix q) [ix] = get (nofZ 0) up [ix]).
Proof.
  intros Hb Hq Hix. destruct (Hb ix q) as [E|[E|E]]; rewrite E.
  - auto.
  - split; [apply vec3_set; exact Hq|]. split.
    + intros j Hj Hne. rewrite (get_set_vec3 _ q _ ix j Hq Hix Hj).
      destruct (Z.eqb_spec ix j); [congruence|reflexivity].
    + rewrite (get_set_vec3 _ q _ ix ix Hq Hix Hix), Z.eqb_refl. auto.
  - split; [apply vec3_set; exact Hq|]. split.
    + intros j Hj Hne. rewrite (get_set_vec3 _ q _ ix j Hq Hix Hj).
      destruct (Z.eqb_spec ix j); [congruence|reflexivity].
    + rewrite (get_set_vec3 _ q _ ix ix Hq Hix Hix), Z.eqb_refl. auto.
Qed.

Lemma magnet_for_list3 lo up (body : Z -> arr T -> arr T) p :
  (forall ix q, body ix q = q \/ body ix q = set q [ix] (get (nofZ 0) lo [ix]) \/
                body ix q = set q [ix] (get (nofZ 0) up [ix])) ->
  vec3 p -> magnets3 lo up p (for_list (pyrange 0 3 1) body p).
Proof.
  intros Hb Hp. change (pyrange 0 3 1) with [0; 1; 2]. unfold for_list. simpl fold_left.
  assert (I0 : In 0 [0; 1; 2]) by (simpl; auto).
  assert (I1 : In 1 [0; 1; 2]) by (simpl; auto).
  assert (I2 : In 2 [0; 1; 2]) by (simpl; auto).
  destruct (magnet_step3 lo up body p 0 Hb Hp I0) as (Hq0 & K0 & M0). set (q0 := body 0 p) in *.
  destruct (magnet_step3 lo up body q0 1 Hb Hq0 I1) as (Hq1 & K1 & M1). set (q1 := body 1 q0) in *.
  destruct (magnet_step3 lo up body q1 2 Hb Hq1 I2) as (Hq2 & K2 & M2). set (q2 := body 2 q1) in *.
  unfold magnets3, magnet_of. split; [|split].
  - rewrite (K2 0 I0 ltac:(lia)), (K1 0 I0 ltac:(lia)). exact M0.
  - rewrite (K2 1 I1 ltac:(lia)). rewrite (K0 1 I1 ltac:(lia)) in M1. exact M1.
  - rewrite (K1 2 I2 ltac:(lia)), (K0 2 I2 ltac:(lia)) in M2. exact M2.
Qed.

Lemma cells3_intro z x y p lo up :
  vec3 lo -> vec3 up ->
  let i := searchsorted_right z (get (nofZ 0) p [0]) - 1 in
  let j := searchsorted_right x (get (nofZ 0) p [1]) - 1 in
  let k := searchsorted_right y (get (nofZ 0) p [2]) - 1 in
  cells3 z x y p
    (set (set (set lo [0] (if neqb (get (nofZ 0) p [0]) (get (nofZ 0) z [i])
                           then get (nofZ 0) z [Z.max (i - 1) 0] else get (nofZ 0) z [i]))
              [1] (if neqb (get (nofZ 0) p [1]) (get (nofZ 0) x [j])
                   then get (nofZ 0) x [Z.max (j - 1) 0] else get (nofZ 0) x [j]))
         [2] (if neqb (get (nofZ 0) p [2]) (get (nofZ 0) y [k])
              then get (nofZ 0) y [Z.max (k - 1) 0] else get (nofZ 0) y [k]))
    (set (set (set up [0] (get (nofZ 0) z [Z.min (i + 1) (dim z 0%nat - 1)]))
              [1] (get (nofZ 0) x [Z.min (j + 1) (dim x 0%nat - 1)]))
         [2] (get (nofZ 0) y [Z.min (k + 1) (dim y 0%nat - 1)])).
Proof.
  intros Hl Hu i j k. unfold cells3, cell.
  match goal with |- context [set (set (set lo [0] ?a) [1] ?b) [2] ?c] =>
    destruct (get_set3 (nofZ 0) lo a b c Hl) as (L0 & L1 & L2) end.
  match goal with |- context [set (set (set up [0] ?a) [1] ?b) [2] ?c] =>
    destruct (get_set3 (nofZ 0) up a b c Hu) as (U0 & U1 & U2) end.
  rewrite L0, L1, L2, U0, U1, U2. repeat split; reflexivity.
Qed.

Ltac leaf_open3 Ebud :=
  lazymatch goal with
  | |- step_spec3 _ _ _ _ _ _ _ (_ ?tup) =>
     right; apply orb_false_elim in Ebud;
     let E1 := fresh "Eb1" in let E2 := fresh "Eb2" in
     destruct Ebud as [E1 E2]; apply Z.leb_gt in E1; apply Z.ltb_ge in E2;
     split; [exact E1|]; split; [exact E2|]; exists tup
  end.
Ltac solve_vec3 Hp Hd :=
  repeat first
    [ exact Hp | exact Hd | match goal with Hx : _ |- _ => exact Hx end
    | apply len3_set | apply len3_amap | apply vec3_set | apply vec3_amap2
    | apply vec3_for_list;
      [ let ix := fresh "ix" in let q := fresh "q" in let Hq := fresh "Hq" in
        intros ix q Hq; cbv beta zeta;
        repeat (match goal with |- context [if ?c then _ else _] => destruct c end);
        repeat apply vec3_set; exact Hq | ] ].

Ltac honor_inv3 Hp Hd :=
  split; [|split; [|intros _; split]]; cbn [s_pcur s_delta s_lower s_upper fst snd]; solve_vec3 Hp Hd.
Ltac honor_vertex3 Hp Hd Hl Hu :=
  split; [reflexivity|]; split; [reflexivity|]; split; [reflexivity|];
  cbn [s_pcur s_lower s_upper fst snd];
  split;
  [ eexists; split;
    [ apply magnet_for_list3;
      [ let ix := fresh "ix" in let q := fresh "q" in
        intros ix q; cbv beta zeta;
        repeat (match goal with |- context [if ?c then _ else _] => destruct c end); auto
      | solve_vec3 Hp Hd ]
    | split; [solve_vec3 Hp Hd | apply clamped3_intro; solve_vec3 Hp Hd] ]
  | apply cells3_intro; [exact Hl|exact Hu] ].

Section Char.
Variables (z x y zgrad xgrad ygrad : arr T) (zend xend yend zsrc xsrc ysrc stepsize : T) (max_step : Z) (hg : bool).

Definition core3_char_stmt : Prop :=
  exists (cond : St3 -> bool) (body : St3 -> ctl St3) (s0 : St3),
    (forall fuel,
       u_ray3d_core_v fuel z x y zgrad xgrad ygrad zend xend yend zsrc xsrc ysrc stepsize max_step hg =
       rbind (while_fuel fuel cond body s0) (fin3 zsrc xsrc ysrc max_step (nfree_max3 z x y stepsize))) /\
    (s_count s0 = 1 /\ s_nfree s0 = 0 /\ s_pcur s0 = of_list [zend; xend; yend] /\
     s_ray s0 = set_sub (full [max_step; 3] (nofZ 0)) [0] (of_list [zend; xend; yend]) /\ InvS3 hg s0 /\
     (hg = true -> cells3 z x y (of_list [zend; xend; yend]) (s_lower s0) (s_upper s0))) /\
    (forall s, InvS3 hg s -> step_spec3 hg max_step (nfree_max3 z x y stepsize) z x y s (body s)).

(* NB: `unfold` zeta-normalises, which would expand every let of the loop body; the walk below
   only uses `cbv beta delta [...]`, `change`, `intro` and `destruct`. *)
Lemma ray3d_core_char : hull3 z x y zend xend yend = true -> core3_char_stmt.
Proof.
  intros Hh.
  change (ign core3_char_stmt
            (u_ray3d_core_v 0%nat z x y zgrad xgrad ygrad zend xend yend zsrc xsrc ysrc stepsize max_step hg)).
  cbv beta delta [u_ray3d_core_v]. pull_lets.
  lazymatch goal with |- ign ?G (if _ then _ else ?e) => change (ign G e) end.
  pull_lets.
  repeat match goal with v := _ |- _ => subst v end.
  lazymatch goal with |- ign _ (rbind (while_fuel _ ?C ?B ?s0) _) =>
    change core3_char_stmt; cbv beta delta [core3_char_stmt]; exists C, B, s0 end.
  split; [|split].
  - intros fuel. cbv beta delta [u_ray3d_core_v].
    repeat pull_let_eq.
    apply if_negb_true; [exact Hh|].
    repeat pull_let_eq.
    repeat match goal with v := _ |- _ => subst v end.
    reflexivity.
  - split; [reflexivity|]. split; [reflexivity|]. split; [reflexivity|]. split; [reflexivity|].
    split; [split; [apply vec3_of_list|split; [reflexivity|]]|].
    + intros Ehg. rewrite Ehg. split; split; reflexivity.
    + intros Ehg. rewrite Ehg. split; [|split]; split; reflexivity.
  - intros s Hs. destruct Hs as (Hp & Hd & Hlu). cbv beta. pull_lets. head_if Ebud.
    + left. exact (f_equal Brk (St2_eta s)).
    + pull_lets. head_if Egn.
      * pull_lets. head_if Ehg.
        -- destruct (Hlu eq_refl) as [Hl Hu]. pull_lets. head_if Efac.
           ++ pull_lets. head_if Esrc.
              ** leaf_open3 Ebud. split; [honor_inv3 Hp Hd|].
                 right. left. split; [reflexivity|]. split; [right; reflexivity|]. honor_vertex3 Hp Hd Hl Hu.
              ** walk. leaf_open3 Ebud. split; [honor_inv3 Hp Hd|].
                 right. left. split; [reflexivity|]. split; [left; reflexivity|]. honor_vertex3 Hp Hd Hl Hu.
           ++ walk. leaf_open3 Ebud. split; [honor_inv3 Hp Hd|].
              right. right. repeat split; auto.
        -- walk. leaf_open3 Ebud.
           split; [split; [|split; [|intros; discriminate]]; cbn [s_pcur s_delta fst snd]; solve_vec3 Hp Hd|].
           left. repeat split; try reflexivity.
           all: cbn [s_pcur fst snd]; apply clamped3_intro; solve_vec3 Hp Hd.
      * left. exact (f_equal Brk (St2_eta s)).
Qed.
End Char.

(* ---------- consequences of step_spec3 ---------- *)
Definition progress3 (hg : bool) (max_step nfmax : Z) (z x y : arr T) (s s' : St3) : Prop :=
  s_count s < max_step /\ s_nfree s <= nfmax /\ InvS3 hg s' /\
  ((hg = false /\ s_count s' = s_count s + 1 /\ s_nfree s' = s_nfree s /\
    s_ray s' = set_sub (s_ray s) [s_count s] (s_pcur s') /\ clamped3 z x y (s_pcur s')) \/
   (hg = true /\ s_count s' = s_count s + 1 /\ s_nfree s' = 0 /\
    s_ray s' = set_sub (s_ray s) [s_count s] (s_pcur s') /\
    (exists p, magnets3 (s_lower s) (s_upper s) p (s_pcur s') /\ vec3 p /\ clamped3 z x y p) /\
    cells3 z x y (s_pcur s') (s_lower s') (s_upper s')) \/
   (hg = true /\ s_count s' = s_count s /\ s_nfree s' = s_nfree s + 1 /\ s_ray s' = s_ray s /\
    s_lower s' = s_lower s /\ s_upper s' = s_upper s)).

Lemma step_spec3_next hg ms nf z x y s s' : step_spec3 hg ms nf z x y s (Next s') -> progress3 hg ms nf z x y s s'.
Proof.
  intros [E|(H1 & H2 & t & Ht & Hc)]; [discriminate|].
  destruct Hc as [(A & B & C)|[(A & B & C)|(A & B & C)]].
  - injection B as <-. split; [exact H1|]. split; [exact H2|]. split; [exact Ht|]. left. tauto.
  - destruct B as [B|B]; [|discriminate]. injection B as <-.
    split; [exact H1|]. split; [exact H2|]. split; [exact Ht|]. right; left. tauto.
  - injection B as <-. split; [exact H1|]. split; [exact H2|]. split; [exact Ht|]. right; right. tauto.
Qed.
Lemma step_spec3_brk hg ms nf z x y s s' :
  step_spec3 hg ms nf z x y s (Brk s') -> s' = s \/ progress3 hg ms nf z x y s s'.
Proof.
  intros [E|(H1 & H2 & t & Ht & Hc)]; [injection E as <-; left; reflexivity|]. right.
  destruct Hc as [(A & B & C)|[(A & B & C)|(A & B & C)]]; try discriminate.
  destruct B as [B|B]; [discriminate|]. injection B as <-.
  split; [exact H1|]. split; [exact H2|]. split; [exact Ht|]. right; left. tauto.
Qed.
Lemma step_spec3_exc hg ms nf z x y s e : step_spec3 hg ms nf z x y s (Exc e) -> False.
Proof.
  intros [E|(H1 & H2 & t & Ht & Hc)]; [discriminate|].
  destruct Hc as [(A & B & C)|[(A & [B|B] & C)|(A & B & C)]]; discriminate.
Qed.

(* the loop, abstractly: any cond and a body satisfying step_spec3 *)
Section Loop.
Variables (hg : bool) (max_step nfmax : Z) (z x y : arr T).
Variables (cond : St3 -> bool) (body : St3 -> ctl St3).
Hypothesis Hstep : forall s, InvS3 hg s -> step_spec3 hg max_step nfmax z x y s (body s).

Lemma loop3_inv (P : St3 -> Prop) :
  (forall s s', P s -> InvS3 hg s -> progress3 hg max_step nfmax z x y s s' -> P s') ->
  forall fuel s0 s1, InvS3 hg s0 -> P s0 -> while_fuel fuel cond body s0 = Ok s1 -> InvS3 hg s1 /\ P s1.
Proof.
  intros HP fuel s0 s1 Hi0 H0 Hw.
  apply (while_fuel_inv cond body (fun s => InvS3 hg s /\ P s) (fun s => InvS3 hg s /\ P s)) with (4 := conj Hi0 H0) (5 := Hw).
  - intros s s' [Hi Hp] _ Eb. pose proof (Hstep s Hi) as Hs. rewrite Eb in Hs.
    apply step_spec3_next in Hs. split; [apply Hs|]. eapply HP; eauto.
  - intros s s' [Hi Hp] _ Eb. pose proof (Hstep s Hi) as Hs. rewrite Eb in Hs.
    apply step_spec3_brk in Hs. destruct Hs as [->|Hs]; [tauto|]. split; [apply Hs|]. eapply HP; eauto.
  - tauto.
Qed.

Lemma loop3_no_raise fuel s0 e : InvS3 hg s0 -> while_fuel fuel cond body s0 <> Raise e.
Proof.
  intros Hi0. apply (while_fuel_no_raise cond body (InvS3 hg)); auto.
  - intros s s' Hi _ Eb. pose proof (Hstep s Hi) as Hs. rewrite Eb in Hs.
    apply step_spec3_next in Hs. apply Hs.
  - intros s e' Hi _ Eb. pose proof (Hstep s Hi) as Hs. rewrite Eb in Hs.
    exact (step_spec3_exc _ _ _ _ _ _ _ _ Hs).
Qed.

(* lexicographic measure (remaining budget, remaining free steps) *)
Definition lexm3 (s : St3) : nat :=
  (Z.to_nat (max_step - s_count s) * (Z.to_nat nfmax + 2) + Z.to_nat (nfmax + 1 - s_nfree s))%nat.

Lemma progress3_lexm s s' : progress3 hg max_step nfmax z x y s s' -> (lexm3 s' < lexm3 s)%nat.
Proof.
  intros (H1 & H2 & _ & Hc). unfold lexm3.
  assert (Ea : exists a, Z.to_nat (max_step - s_count s) = Datatypes.S a /\
                         Z.to_nat (max_step - (s_count s + 1)) = a).
  { exists (Z.to_nat (max_step - s_count s - 1)). split; lia. }
  destruct Ea as (a & Ea1 & Ea2).
  destruct Hc as [(A & B & C & _)|[(A & B & C & _)|(A & B & C & _)]].
  - rewrite B, C, Ea1, Ea2. simpl. lia.
  - rewrite B, C, Ea1, Ea2. simpl. lia.
  - rewrite B, C. assert (Z.to_nat (nfmax + 1 - (s_nfree s + 1)) < Z.to_nat (nfmax + 1 - s_nfree s))%nat by lia.
    lia.
Qed.

Lemma loop3_terminates fuel s0 : InvS3 hg s0 -> (lexm3 s0 < fuel)%nat -> while_fuel fuel cond body s0 <> OutOfFuel.
Proof.
  intros Hi0 Hf. apply (while_fuel_measure cond body lexm3 (InvS3 hg)); auto.
  intros s s' Hi _ Eb. pose proof (Hstep s Hi) as Hs. rewrite Eb in Hs.
  apply step_spec3_next in Hs. split; [apply Hs|]. apply progress3_lexm; auto.
Qed.

(* free mode: the budget alone is a measure *)
Definition budm3 (s : St3) : nat := Z.to_nat (max_step - s_count s).
Lemma loop3_terminates_free fuel s0 :
  hg = false -> InvS3 hg s0 -> (budm3 s0 < fuel)%nat -> while_fuel fuel cond body s0 <> OutOfFuel.
Proof.
  intros Ehg Hi0 Hf. apply (while_fuel_measure cond body budm3 (InvS3 hg)); auto.
  intros s s' Hi _ Eb. pose proof (Hstep s Hi) as Hs. rewrite Eb in Hs.
  apply step_spec3_next in Hs. split; [apply Hs|].
  destruct Hs as (H1 & H2 & _ & [(A & B & C & _)|[(A & _)|(A & _)]]); try congruence.
  unfold budm3. rewrite B. lia.
Qed.
End Loop.

Lemma fin3_ok zsrc xsrc ysrc ms nf s : exists rc, fin3 zsrc xsrc ysrc ms nf s = Ok rc.
Proof. unfold fin3. destruct (_ || _); eexists; reflexivity. Qed.

(* ------------------------------------------------------------------------------------------ *)
(* theorems about _ray3d_core / _ray3d                                                          *)
(* ------------------------------------------------------------------------------------------ *)
Section Thm.
Variables (z x y zgrad xgrad ygrad : arr T) (zend xend yend zsrc xsrc ysrc stepsize : T) (max_step : Z) (hg : bool).
Notation core fuel := (u_ray3d_core_v fuel z x y zgrad xgrad ygrad zend xend yend zsrc xsrc ysrc stepsize max_step hg).
Notation single fuel := (u_ray3d_v fuel z x y zgrad xgrad ygrad zend xend yend zsrc xsrc ysrc stepsize max_step hg).

(* 1a *)
Theorem ray3d_core_outside :
  hull3 z x y zend xend yend = false -> forall fuel, core fuel = Ok (full [max_step; 3] (nofZ 0), -1).
Proof.
  intros Hh fuel. cbv beta delta [u_ray3d_core_v]. repeat pull_let_eq.
  apply if_negb_false; [exact Hh|reflexivity].
Qed.

Theorem ray3d_outside_raises : hull3 z x y zend xend yend = false -> forall fuel, single fuel = Raise ValueError.
Proof. intros Hh fuel. unfold u_ray3d_v. rewrite ray3d_core_outside by exact Hh. reflexivity. Qed.

(* the core itself never raises *)
Lemma ray3d_core_no_raise fuel e : core fuel <> Raise e.
Proof.
  destruct (hull3 z x y zend xend yend) eqn:Hh.
  - destruct (ray3d_core_char z x y zgrad xgrad ygrad zend xend yend zsrc xsrc ysrc stepsize max_step hg Hh)
      as (cond & body & s0 & Heq & (_ & _ & _ & _ & Hi0 & Hcell0) & Hstep).
    rewrite Heq. destruct (while_fuel fuel cond body s0) as [s1| |] eqn:Ew; simpl; try discriminate.
    + destruct (fin3_ok zsrc xsrc ysrc max_step (nfree_max3 z x y stepsize) s1) as [rc ->]. discriminate.
    + exfalso. eapply loop3_no_raise; eauto.
  - rewrite ray3d_core_outside by exact Hh. discriminate.
Qed.

(* 4 *)
Theorem ray3d_core_count_range fuel ray count :
  core fuel = Ok (ray, count) ->
  (count = -1 \/ count = -2 \/ 1 <= count < max_step) /\ shape ray = [max_step; 3].
Proof.
  intros Hc. destruct (hull3 z x y zend xend yend) eqn:Hh.
  - destruct (ray3d_core_char z x y zgrad xgrad ygrad zend xend yend zsrc xsrc ysrc stepsize max_step hg Hh)
      as (cond & body & s0 & Heq & (Hc0 & _ & _ & Hr0 & Hi0 & Hcell0) & Hstep).
    rewrite Heq in Hc. destruct (while_fuel fuel cond body s0) as [s1| |] eqn:Ew; simpl in Hc; try discriminate.
    destruct (loop3_inv _ _ _ _ _ _ cond body Hstep
                (fun s => 1 <= s_count s /\ shape (s_ray s) = [max_step; 3])) with (4 := Ew)
      as (_ & Hc1 & Hs1); auto.
    + intros s s' [Hp1 Hp2] _ (_ & _ & _ & [(A & B & C & D & _)|[(A & B & C & D & _)|(A & B & C & D & _)]]);
        rewrite B, D; split; try lia; auto.
    + rewrite Hc0, Hr0. split; [lia|reflexivity].
    + unfold fin3 in Hc. destruct ((max_step <=? s_count s1) || _) eqn:Eb; injection Hc as <- <-.
      * split; [right; left; reflexivity|exact Hs1].
      * apply orb_false_elim in Eb. destruct Eb as [Eb _]. apply Z.leb_gt in Eb.
        split; [right; right; lia|exact Hs1].
  - rewrite ray3d_core_outside in Hc by exact Hh. injection Hc as <- <-. split; [left|]; reflexivity.
Qed.

(* 1b *)
Theorem ray3d_raises_value_error_iff fuel :
  single fuel = OutOfFuel \/ (single fuel = Raise ValueError <-> hull3 z x y zend xend yend = false).
Proof.
  destruct (hull3 z x y zend xend yend) eqn:Hh.
  - unfold u_ray3d_v. destruct (core fuel) as [[ray count]| |] eqn:Ec; simpl.
    + right. destruct (ray3d_core_count_range fuel ray count Ec) as [Hr _].
      assert (Hn : count <> -1).
      { intros ->. destruct (ray3d_core_char z x y zgrad xgrad ygrad zend xend yend zsrc xsrc ysrc stepsize max_step hg Hh)
          as (cond & body & s0 & Heq & (Hc0 & _ & _ & _ & Hi0 & Hcell0) & Hstep).
        rewrite Heq in Ec. destruct (while_fuel fuel cond body s0) as [s1| |] eqn:Ew; simpl in Ec; try discriminate.
        destruct (loop3_inv _ _ _ _ _ _ cond body Hstep (fun s => 1 <= s_count s)) with (4 := Ew) as (_ & Hc1); auto.
        - intros s s' Hp1 _ (_ & _ & _ & [(A & B & _)|[(A & B & _)|(A & B & _)]]); rewrite B; lia.
        - lia.
        - unfold fin3 in Ec. destruct (_ || _); injection Ec as _ E; lia. }
      destruct (Z.eqb_spec count (-1)); [contradiction|].
      destruct (count =? -2); split; intros; discriminate.
    + exfalso. eapply ray3d_core_no_raise; eauto.
    + left. reflexivity.
  - right. split; auto. intros _. apply ray3d_outside_raises. exact Hh.
Qed.

(* 2 *)
Theorem ray3d_free_terminates fuel :
  hg = false -> (Z.to_nat max_step + 1 <= fuel)%nat -> core fuel <> OutOfFuel.
Proof.
  intros Ehg Hf. destruct (hull3 z x y zend xend yend) eqn:Hh.
  - destruct (ray3d_core_char z x y zgrad xgrad ygrad zend xend yend zsrc xsrc ysrc stepsize max_step hg Hh)
      as (cond & body & s0 & Heq & (Hc0 & _ & _ & _ & Hi0 & Hcell0) & Hstep).
    rewrite Heq. destruct (while_fuel fuel cond body s0) as [s1| |] eqn:Ew; simpl; try discriminate.
    + destruct (fin3_ok zsrc xsrc ysrc max_step (nfree_max3 z x y stepsize) s1) as [rc ->]. discriminate.
    + exfalso. revert Ew. eapply loop3_terminates_free; eauto. unfold budm3. rewrite Hc0. lia.
  - rewrite ray3d_core_outside by exact Hh. discriminate.
Qed.

(* 3 (the bound works for both modes) *)
Theorem ray3d_terminates fuel :
  ((Z.to_nat max_step + 1) * (Z.to_nat (nfree_max3 z x y stepsize) + 2) + 1 <= fuel)%nat ->
  core fuel <> OutOfFuel.
Proof.
  intros Hf. destruct (hull3 z x y zend xend yend) eqn:Hh.
  - destruct (ray3d_core_char z x y zgrad xgrad ygrad zend xend yend zsrc xsrc ysrc stepsize max_step hg Hh)
      as (cond & body & s0 & Heq & (Hc0 & Hn0 & _ & _ & Hi0 & Hcell0) & Hstep).
    rewrite Heq. destruct (while_fuel fuel cond body s0) as [s1| |] eqn:Ew; simpl; try discriminate.
    + destruct (fin3_ok zsrc xsrc ysrc max_step (nfree_max3 z x y stepsize) s1) as [rc ->]. discriminate.
    + exfalso. revert Ew. eapply loop3_terminates; eauto. unfold lexm3. rewrite Hc0, Hn0.
      set (N := nfree_max3 z x y stepsize) in *.
      assert (Z.to_nat (max_step - 1) <= Z.to_nat max_step)%nat by lia.
      assert (Z.to_nat (N + 1 - 0) <= Z.to_nat N + 1)%nat by lia.
      nia.
  - rewrite ray3d_core_outside by exact Hh. discriminate.
Qed.

Theorem ray3d_honor_terminates fuel :
  hg = true ->
  ((Z.to_nat max_step + 1) * (Z.to_nat (nfree_max3 z x y stepsize) + 2) + 1 <= fuel)%nat ->
  core fuel <> OutOfFuel.
Proof. intros _. apply ray3d_terminates. Qed.
End Thm.

(* ------------------------------------------------------------------------------------------ *)
(* 5. contract of a returned ray                                                                *)
(* ------------------------------------------------------------------------------------------ *)
Section Thm5.
Variables (z x y zgrad xgrad ygrad : arr T) (zend xend yend zsrc xsrc ysrc stepsize : T) (max_step : Z) (hg : bool).
Notation core fuel := (u_ray3d_core_v fuel z x y zgrad xgrad ygrad zend xend yend zsrc xsrc ysrc stepsize max_step hg).

(* rows that the loop keeps: shape, well-formedness, row 0 *)
Definition ray3_ok (s : St3) : Prop :=
  1 <= s_count s <= max_step /\ shape (s_ray s) = [max_step; 3] /\ wf (s_ray s) /\
  get (nofZ 0) (s_ray s) [0; 0] = zend /\ get (nofZ 0) (s_ray s) [0; 1] = xend /\
  get (nofZ 0) (s_ray s) [0; 2] = yend.

Lemma ray3_ok_set_sub s p :
  ray3_ok s -> s_count s < max_step -> vec3 p ->
  let r := set_sub (s_ray s) [s_count s] p in
  shape r = [max_step; 3] /\ wf r /\
  (get (nofZ 0) r [0; 0] = zend /\ get (nofZ 0) r [0; 1] = xend /\ get (nofZ 0) r [0; 2] = yend) /\
  get (nofZ 0) r [s_count s; 0] = get (nofZ 0) p [0] /\ get (nofZ 0) r [s_count s; 1] = get (nofZ 0) p [1] /\
  get (nofZ 0) r [s_count s; 2] = get (nofZ 0) p [2].
Proof.
  intros (Hc & Hsh & Hwf & H0 & H1 & H2) Hlt [Hp1 Hp2]. cbv zeta.
  split; [exact Hsh|]. split; [apply wf_set_sub; exact Hwf|].
  rewrite !(get_set_sub_other (nofZ 0) (s_ray s) p max_step 3 (s_count s) 0) by (auto; lia).
  rewrite !(get_set_sub_same (nofZ 0) (s_ray s) p max_step 3 (s_count s)) by (auto; lia).
  auto.
Qed.

Lemma ray3_ok_progress hg' nf s s' : ray3_ok s -> progress3 hg' max_step nf z x y s s' -> ray3_ok s'.
Proof.
  intros Hok (Hlt' & _ & [Hv _] & Hcase).
  destruct Hcase as [(A & B & C & D & _)|[(A & B & C & D & _)|(A & B & C & D & _)]].
  + destruct (ray3_ok_set_sub s (s_pcur s') Hok Hlt' Hv) as (R1 & R2 & R3 & _).
    destruct Hok as (Hc1 & _). unfold ray3_ok. rewrite B, D.
    split; [lia|]. split; [exact R1|]. split; [exact R2|exact R3].
  + destruct (ray3_ok_set_sub s (s_pcur s') Hok Hlt' Hv) as (R1 & R2 & R3 & _).
    destruct Hok as (Hc1 & _). unfold ray3_ok. rewrite B, D.
    split; [lia|]. split; [exact R1|]. split; [exact R2|exact R3].
  + unfold ray3_ok in *. rewrite B, D. exact Hok.
Qed.

Lemma ray3_ok_init s0 :
  0 <= max_step -> s_count s0 = 1 -> 1 <= max_step ->
  s_ray s0 = set_sub (full [max_step; 3] (nofZ 0)) [0] (of_list [zend; xend; yend]) -> ray3_ok s0.
Proof.
  intros Hms Hc0 Hms1 Hr0. unfold ray3_ok. rewrite Hc0, Hr0.
  assert (Hwf0 : wf (full [max_step; 3] (nofZ 0))).
  { apply wf_full. repeat constructor; lia. }
  split; [lia|]. split; [reflexivity|]. split; [apply wf_set_sub; exact Hwf0|].
  rewrite !(get_set_sub_same (nofZ 0) (full [max_step; 3] (nofZ 0)) (of_list [zend; xend; yend]) max_step 3 0)
    by (auto; try reflexivity; lia).
  repeat split; reflexivity.
Qed.

Theorem ray3d_core_endpoints fuel ray count :
  core fuel = Ok (ray, count) -> 1 <= count ->
  shape ray = [max_step; 3] /\ wf ray /\ count < max_step /\
  (get (nofZ 0) ray [0; 0] = zend /\ get (nofZ 0) ray [0; 1] = xend /\ get (nofZ 0) ray [0; 2] = yend) /\
  (get (nofZ 0) ray [count; 0] = zsrc /\ get (nofZ 0) ray [count; 1] = xsrc /\
   get (nofZ 0) ray [count; 2] = ysrc).
Proof.
  intros Hc Hpos.
  destruct (ray3d_core_count_range z x y zgrad xgrad ygrad zend xend yend zsrc xsrc ysrc stepsize max_step hg fuel ray count Hc)
    as [Hr Hsh].
  assert (Hlt : count < max_step) by lia.
  destruct (hull3 z x y zend xend yend) eqn:Hh.
  2:{ rewrite ray3d_core_outside in Hc by exact Hh. injection Hc as _ <-. lia. }
  destruct (ray3d_core_char z x y zgrad xgrad ygrad zend xend yend zsrc xsrc ysrc stepsize max_step hg Hh)
    as (cond & body & s0 & Heq & (Hc0 & _ & _ & Hr0 & Hi0 & Hcell0) & Hstep).
  rewrite Heq in Hc. destruct (while_fuel fuel cond body s0) as [s1| |] eqn:Ew; simpl in Hc; try discriminate.
  destruct (loop3_inv _ _ _ _ _ _ cond body Hstep ray3_ok) with (4 := Ew) as (_ & Hok); auto.
  - intros s s' Hok _ Hpr. eapply ray3_ok_progress; eauto.
  - (* initially *) apply ray3_ok_init; auto; lia.
  - unfold fin3 in Hc. destruct ((max_step <=? s_count s1) || _) eqn:Eb; injection Hc as <- <-; [lia|].
    apply orb_false_elim in Eb. destruct Eb as [Eb _]. apply Z.leb_gt in Eb.
    destruct (ray3_ok_set_sub s1 (of_list [zsrc; xsrc; ysrc]) Hok Eb (vec3_of_list zsrc xsrc ysrc))
      as (R1 & R2 & R3 & R4 & R5 & R6).
    split; [exact R1|]. split; [exact R2|]. split; [lia|]. split; [exact R3|].
    split; [exact R4|]. split; [exact R5|exact R6].
Qed.

End Thm5.

Theorem ray3d_1_endpoints fuel (z x y zgrad xgrad ygrad p src : arr T) (stepsize : T) (max_step : Z) (hg : bool) r :
  ray3d_1 fuel z x y zgrad xgrad ygrad p src stepsize max_step hg = Ok r ->
  exists count, 1 <= count < max_step /\ shape r = [count + 1; 3] /\
    (get (nofZ 0) r [0; 0] = get (nofZ 0) src [0] /\ get (nofZ 0) r [0; 1] = get (nofZ 0) src [1] /\
     get (nofZ 0) r [0; 2] = get (nofZ 0) src [2]) /\
    (get (nofZ 0) r [count; 0] = get (nofZ 0) p [0] /\ get (nofZ 0) r [count; 1] = get (nofZ 0) p [1] /\
     get (nofZ 0) r [count; 2] = get (nofZ 0) p [2]).
Proof.
  unfold ray3d_1, u_ray3d_v. intros Hr.
  destruct (u_ray3d_core_v _ _ _ _ _ _ _ _ _ _ _ _ _ _ _ _) as [[ray count]| |] eqn:Ec; simpl in Hr; try discriminate.
  destruct (ray3d_core_count_range _ _ _ _ _ _ _ _ _ _ _ _ _ _ _ _ _ _ Ec) as [Hrange _].
  destruct (Z.eqb_spec count (-1)); [discriminate|].
  destruct (Z.eqb_spec count (-2)); [discriminate|]. simpl in Hr. injection Hr as <-.
  assert (Hpos : 1 <= count) by lia.
  destruct (ray3d_core_endpoints _ _ _ _ _ _ _ _ _ _ _ _ _ _ _ _ _ _ Ec Hpos)
    as (Hsh & Hwf & Hlt & (E0 & E1 & E2) & (E3 & E4 & E5)).
  exists count. split; [lia|]. split; [apply shape_rev_prefix with (n := max_step); exact Hsh|].
  rewrite !(get_rev_prefix (nofZ 0) ray max_step 3 count) by (auto; lia).
  rewrite Z.sub_0_r, Z.sub_diag. auto.
Qed.

(* ------------------------------------------------------------------------------------------ *)
(* 7. the list form                                                                             *)
(* ------------------------------------------------------------------------------------------ *)
Section Thm7.
Variables (z x y zgrad xgrad ygrad zend xend yend : arr T) (zsrc xsrc ysrc stepsize : T) (max_step : Z) (hg : bool).
Notation core_at fuel i := (u_ray3d_core_v fuel z x y zgrad xgrad ygrad (get (nofZ 0) zend [i])
                                     (get (nofZ 0) xend [i]) (get (nofZ 0) yend [i]) zsrc xsrc ysrc stepsize max_step hg).
Notation single_at fuel i := (u_ray3d_v fuel z x y zgrad xgrad ygrad (get (nofZ 0) zend [i])
                                     (get (nofZ 0) xend [i]) (get (nofZ 0) yend [i]) zsrc xsrc ysrc stepsize max_step hg).
Notation core_i fuel := (fun i : Z => core_at fuel i).
Notation single_i fuel := (fun i : Z => single_at fuel i).
Notation items := (pyrange 0 (dim zend 0%nat) 1).

Theorem ray3d_vectorized_spec fuel :
  u_ray3d_vectorized_v fuel z x y zgrad xgrad ygrad zend xend yend zsrc xsrc ysrc stepsize max_step hg =
  rbind (mapM (core_i fuel) items)
        (fun l => match first_exc count_exc l with Some e => Raise e | None => Ok l end).
Proof.
  unfold u_ray3d_vectorized_v.
  destruct (mapM _ items) as [l| |] eqn:Em; simpl; try reflexivity.
  pose proof (mapM_ok_length _ _ _ Em) as Hl.
  assert (Hn : length items = Z.to_nat (dim zend 0%nat)).
  { rewrite pyrange_0_up, map_length, seq_length. reflexivity. }
  rewrite Hn in Hl.
  pose proof (find_exc_range count_exc (mkarr [0] [], 0) l (dim zend 0%nat) Hl) as E.
  unfold count_exc in E at 1. rewrite E. reflexivity.
Qed.

Lemma single3_of_core fuel i rc :
  core_at fuel i = Ok rc ->
  single_at fuel i = match count_exc rc with Some e => Raise e | None => Ok rc end.
Proof.
  intros Ec. unfold u_ray3d_v. rewrite Ec. simpl. unfold count_exc.
  destruct rc as [ray count]. simpl. destruct (count =? -1); [reflexivity|].
  destruct (count =? -2); reflexivity.
Qed.

(* modulo OutOfFuel the list call is the sequential map of the single call *)
Theorem ray3d_vectorized_as_singles fuel :
  (forall i, In i items -> core_at fuel i <> OutOfFuel) ->
  u_ray3d_vectorized_v fuel z x y zgrad xgrad ygrad zend xend yend zsrc xsrc ysrc stepsize max_step hg =
  mapM (single_i fuel) items.
Proof.
  rewrite ray3d_vectorized_spec. generalize items. intros l Hn.
  induction l as [|i t IH]; [reflexivity|].
  assert (Hn' : forall j, In j t -> core_at fuel j <> OutOfFuel) by (intros; apply Hn; right; auto).
  specialize (IH Hn'). cbn [mapM].
  destruct (core_at fuel i) as [rc|e|] eqn:Ec.
  - rewrite (single3_of_core fuel i rc Ec). cbn [rbind]. rewrite <- IH.
    destruct (mapM (core_i fuel) t) as [bs|e|] eqn:Et; cbn [rbind first_exc].
    + destruct (count_exc rc); cbn [rbind]; [reflexivity|].
      destruct (first_exc count_exc bs); reflexivity.
    + exfalso. apply (mapM_raise_iff (core_i fuel) t e Hn') in Et.
      destruct Et as (l1 & a & l2 & _ & _ & Ha).
      exact (ray3d_core_no_raise _ _ _ _ _ _ _ _ _ _ _ _ _ _ _ _ _ Ha).
    + exfalso. destruct (mapM_oof_witness _ _ Et) as (a & Ha & Ea). exact (Hn' a Ha Ea).
  - exfalso. exact (ray3d_core_no_raise _ _ _ _ _ _ _ _ _ _ _ _ _ _ _ _ _ Ec).
  - exfalso. exact (Hn i (or_introl eq_refl) Ec).
Qed.

Lemma single3_not_oof fuel i : core_at fuel i <> OutOfFuel -> single_at fuel i <> OutOfFuel.
Proof.
  intros Hc. unfold u_ray3d_v.
  destruct (core_at fuel i) as [[ray count]| |]; simpl; try discriminate; try congruence.
  destruct (count =? -1); [discriminate|]. destruct (count =? -2); discriminate.
Qed.

Theorem ray3d_list_raises_like_first_failing_single fuel :
  (forall i, In i items -> core_at fuel i <> OutOfFuel) ->
  (forall e,
     u_ray3d_vectorized_v fuel z x y zgrad xgrad ygrad zend xend yend zsrc xsrc ysrc stepsize max_step hg = Raise e <->
     exists l1 i l2, items = l1 ++ i :: l2 /\
       (forall j, In j l1 -> exists rc, single_at fuel j = Ok rc) /\ single_at fuel i = Raise e) /\
  (forall l,
     u_ray3d_vectorized_v fuel z x y zgrad xgrad ygrad zend xend yend zsrc xsrc ysrc stepsize max_step hg = Ok l <->
     Forall2 (fun i rc => single_at fuel i = Ok rc) items l).
Proof.
  intros Hn. rewrite (ray3d_vectorized_as_singles fuel Hn). split.
  - intros e. apply (mapM_raise_iff (single_i fuel)). intros i Hi. apply single3_not_oof. apply Hn. exact Hi.
  - intros l. apply (mapM_ok_iff (single_i fuel)).
Qed.
End Thm7.
End Core3.


(* ------------------------------------------------------------------------------------------ *)
(* 6. every vertex of a returned ray lies in the hull of the axes (real arithmetic)              *)
(*    (in_ax, axis_ok, clamp_in, cell_in come from Ray2dProofs)                                  *)
(* ------------------------------------------------------------------------------------------ *)
Section InHullR3.
Local Open Scope R_scope.
Variables (z x y zgrad xgrad ygrad : arr R) (zend xend yend zsrc xsrc ysrc stepsize : R)
          (max_step : Z) (hg : bool).

Lemma hull3_R : hull3 z x y zend xend yend = true -> in_ax z zend /\ in_ax x xend /\ in_ax y yend.
Proof.
  unfold hull3, in_ax. cbn [nleb nofZ NumR]. intros Hh.
  apply andb_prop in Hh. destruct Hh as [H12 H3].
  apply andb_prop in H12. destruct H12 as [H1 H2].
  apply andb_prop in H1. apply andb_prop in H2. apply andb_prop in H3.
  destruct H1 as [A B]. destruct H2 as [C D]. destruct H3 as [E F].
  apply Rleb_true in A, B, C, D, E, F. repeat split; assumption.
Qed.

Definition pt_in (p : arr R) : Prop :=
  in_ax z (get 0 p [0%Z]) /\ in_ax x (get 0 p [1%Z]) /\ in_ax y (get 0 p [2%Z]).
Definition row_in3 (ray : arr R) (k : Z) : Prop :=
  in_ax z (get 0 ray [k; 0%Z]) /\ in_ax x (get 0 ray [k; 1%Z]) /\ in_ax y (get 0 ray [k; 2%Z]).

(* loop invariant *)
Definition hullinv3 (s : St2) : Prop :=
  ray3_ok zend xend yend max_step s /\
  (forall k : Z, (1 <= k < s_count s)%Z -> row_in3 (s_ray s) k) /\
  (hg = true -> pt_in (s_lower s) /\ pt_in (s_upper s)).

Lemma clamped3_in (p : arr R) :
  in_ax z zend -> in_ax x xend -> in_ax y yend -> clamped3 z x y p -> pt_in p.
Proof.
  intros Hz Hx Hy ([a Ea] & [b Eb] & [c Ec]). cbn [nofZ NumR] in Ea, Eb, Ec.
  unfold pt_in. rewrite Ea, Eb, Ec.
  repeat split; apply clamp_in; unfold in_ax in *; lra.
Qed.

Lemma rows_after_store3 (s : St2) (p : arr R) :
  ray3_ok zend xend yend max_step s -> (s_count s < max_step)%Z -> vec3 p ->
  (forall k : Z, (1 <= k < s_count s)%Z -> row_in3 (s_ray s) k) ->
  forall k : Z, (1 <= k < s_count s)%Z -> row_in3 (set_sub (s_ray s) [s_count s] p) k.
Proof.
  intros (Hc & Hsh & Hwf & _) Hlt [Hp1 Hp2] Hrows k Hk. unfold row_in3.
  rewrite !(get_set_sub_other 0 (s_ray s) p max_step 3 (s_count s) k) by (auto; lia).
  apply Hrows. exact Hk.
Qed.

Lemma row_stored3 (s : St2) (p : arr R) :
  ray3_ok zend xend yend max_step s -> (s_count s < max_step)%Z -> vec3 p -> pt_in p ->
  row_in3 (set_sub (s_ray s) [s_count s] p) (s_count s).
Proof.
  intros (Hc & Hsh & Hwf & _) Hlt [Hp1 Hp2] Hin. unfold row_in3.
  rewrite !(get_set_sub_same 0 (s_ray s) p max_step 3 (s_count s)) by (auto; lia).
  exact Hin.
Qed.

Lemma hullinv3_progress nf s s' :
  (hg = true -> axis_ok z /\ axis_ok x /\ axis_ok y) -> in_ax z zend -> in_ax x xend -> in_ax y yend ->
  hullinv3 s -> progress3 hg max_step nf z x y s s' -> hullinv3 s'.
Proof.
  intros Hax Hz Hx Hy (Hok & Hrows & Hlu) Hpr.
  pose proof (ray3_ok_progress z x y zend xend yend max_step hg nf s s' Hok Hpr) as Hok'.
  destruct Hpr as (Hlt & _ & (Hv & _) & Hcase).
  destruct Hcase as [(A & B & C & D & E)|[(A & B & C & D & (p & (M0 & M1 & M2) & Hp & Hcl) & Hcells)|(A & B & C & D & E & F)]].
  - (* free mode: a clamped point *)
    split; [exact Hok'|]. split; [|intros Eh; congruence].
    intros k Hk. rewrite B in Hk. rewrite D.
    destruct (Z.eq_dec k (s_count s)) as [->|Hne].
    + apply row_stored3; auto. apply clamped3_in; auto.
    + apply rows_after_store3; auto. lia.
  - (* grid mode: a clamped point, possibly snapped to a cell boundary *)
    destruct (Hlu A) as ((L0 & L1 & L2) & (U0 & U1 & U2)). destruct (Hax A) as (Haz & Hax' & Hay).
    destruct (clamped3_in p Hz Hx Hy Hcl) as (P0 & P1 & P2).
    assert (Q : pt_in (s_pcur s')).
    { unfold magnet_of in M0, M1, M2. cbn [nofZ NumR] in M0, M1, M2. unfold pt_in. split; [|split].
      - destruct M0 as [E|[E|E]]; rewrite E; assumption.
      - destruct M1 as [E|[E|E]]; rewrite E; assumption.
      - destruct M2 as [E|[E|E]]; rewrite E; assumption. }
    split; [exact Hok'|]. split.
    + intros k Hk. rewrite B in Hk. rewrite D.
      destruct (Z.eq_dec k (s_count s)) as [->|Hne].
      * apply row_stored3; auto.
      * apply rows_after_store3; auto. lia.
    + intros _. destruct Hcells as (Cz & Cx & Cy). cbn [nofZ NumR] in Cz, Cx, Cy.
      destruct Q as (Q0 & Q1 & Q2).
      destruct (cell_in z _ _ _ Haz (proj1 Q0) Cz) as [? ?].
      destruct (cell_in x _ _ _ Hax' (proj1 Q1) Cx) as [? ?].
      destruct (cell_in y _ _ _ Hay (proj1 Q2) Cy) as [? ?]. unfold pt_in. tauto.
  - (* grid mode: a free step *)
    split; [exact Hok'|]. rewrite B, D, E, F. split; assumption.
Qed.

Theorem ray3d_vertices_in_hull fuel ray count :
  (hg = true -> axis_ok z /\ axis_ok x /\ axis_ok y) ->
  u_ray3d_core_v fuel z x y zgrad xgrad ygrad zend xend yend zsrc xsrc ysrc stepsize max_step hg
    = Ok (ray, count) ->
  forall k : Z, (0 <= k < count)%Z -> row_in3 ray k.
Proof.
  intros Hax Hc k Hk.
  destruct (ray3d_core_count_range z x y zgrad xgrad ygrad zend xend yend zsrc xsrc ysrc stepsize max_step hg
              fuel ray count Hc) as [Hr Hsh].
  assert (Hpos : (1 <= count)%Z) by lia.
  destruct (ray3d_core_endpoints z x y zgrad xgrad ygrad zend xend yend zsrc xsrc ysrc stepsize max_step hg
              fuel ray count Hc Hpos) as (_ & _ & Hlt & (E0 & E1 & E2) & _).
  destruct (hull3 z x y zend xend yend) eqn:Hh.
  2:{ rewrite ray3d_core_outside in Hc by exact Hh. injection Hc as _ <-. lia. }
  destruct (hull3_R Hh) as (Hz & Hx & Hy).
  destruct (Z.eq_dec k 0) as [->|Hk0].
  { unfold row_in3. cbn [nofZ NumR] in E0, E1, E2. rewrite E0, E1, E2. split; [|split]; assumption. }
  destruct (ray3d_core_char z x y zgrad xgrad ygrad zend xend yend zsrc xsrc ysrc stepsize max_step hg Hh)
    as (cond & body & s0 & Heq & (Hc0 & _ & _ & Hr0 & Hi0 & Hcell0) & Hstep).
  rewrite Heq in Hc. destruct (while_fuel fuel cond body s0) as [s1| |] eqn:Ew; simpl in Hc; try discriminate.
  destruct (loop3_inv _ _ _ _ _ _ cond body Hstep hullinv3) with (4 := Ew) as (_ & Hinv); auto.
  - intros s s' Hinv _ Hpr. eapply hullinv3_progress; eauto.
  - (* initially *)
    split; [apply ray3_ok_init; auto; lia|]. split; [intros j Hj; lia|].
    intros Ehg. destruct (Hax Ehg) as (Haz & Hax' & Hay). destruct (Hcell0 Ehg) as (Cz & Cx & Cy).
    cbn [nofZ NumR] in Cz, Cx, Cy.
    destruct (cell_in z _ _ _ Haz (proj1 Hz) Cz) as [? ?].
    destruct (cell_in x _ _ _ Hax' (proj1 Hx) Cx) as [? ?].
    destruct (cell_in y _ _ _ Hay (proj1 Hy) Cy) as [? ?]. unfold pt_in. tauto.
  - destruct Hinv as (Hok & Hrows & _).
    unfold fin3 in Hc. destruct ((max_step <=? s_count s1)%Z || _) eqn:Eb; injection Hc as <- <-; [lia|].
    apply orb_false_elim in Eb. destruct Eb as [Eb _]. apply Z.leb_gt in Eb.
    apply rows_after_store3; auto; [apply vec3_of_list|lia].
Qed.
End InHullR3.

(* ------------------------------------------------------------------------------------------ *)
(* 1c. binary64: a NaN end point is rejected with ValueError (for every fuel)                    *)
(* ------------------------------------------------------------------------------------------ *)
From FT.proofs Require NumFLaws.

Theorem ray3d_nan_end_point_raises
  (z x y zgrad xgrad ygrad : arr PrimFloat.float) (zend xend yend zsrc xsrc ysrc stepsize : PrimFloat.float)
  (max_step : Z) (hg : bool) (fuel : nat) :
  PrimFloat.is_nan zend = true \/ PrimFloat.is_nan xend = true \/ PrimFloat.is_nan yend = true ->
  u_ray3d_v fuel z x y zgrad xgrad ygrad zend xend yend zsrc xsrc ysrc stepsize max_step hg = Raise ValueError.
Proof.
  intros Hnan. apply ray3d_outside_raises. unfold hull3. cbn [nleb NumF].
  destruct Hnan as [Hn|[Hn|Hn]].
  - rewrite (NumFLaws.leb_nan_r zend _ Hn). reflexivity.
  - rewrite (NumFLaws.leb_nan_r xend _ Hn). cbn [andb]. rewrite Bool.andb_false_r. reflexivity.
  - rewrite (NumFLaws.leb_nan_r yend _ Hn). cbn [andb]. apply Bool.andb_false_r.
Qed.

Print Assumptions ray3d_core_outside.
Print Assumptions ray3d_raises_value_error_iff.
Print Assumptions ray3d_nan_end_point_raises.
Print Assumptions ray3d_free_terminates.
Print Assumptions ray3d_terminates.
Print Assumptions ray3d_honor_terminates.
Print Assumptions ray3d_core_count_range.
Print Assumptions ray3d_core_endpoints.
Print Assumptions ray3d_1_endpoints.
Print Assumptions ray3d_vertices_in_hull.
Print Assumptions ray3d_vectorized_spec.
Print Assumptions ray3d_vectorized_as_singles.
Print Assumptions ray3d_list_raises_like_first_failing_single.
