(* The API-layer definitions GENERATED from the source (gen/ApiGen.v, by tools/py2coq/apigen.py) coincide with the
   hand-written model (model/Api.v, model/GridMeta.v) for every numeric type: no algebraic law is used, so association
   and evaluation order are part of what is proved.  The structural facts (argument order of the kernel calls, what the
   result objects receive) are quoted from the generated data.
   Nothing is imported unqualified from ApiGen / Api / GridMeta: every name below says which side it comes from. *)
From Coq Require Import String ZArith List Bool.
From FT.lib Require Import Num.
From FT.gen Require ApiGen.
From FT.model Require Api GridMeta.
Import ListNotations.
Open Scope Z_scope.

Section Eq.
Context {T : Type} {N : Num T}.

(* ------------------------------------------------------------------ 1. node axes (_base.py zaxis / xaxis / yaxis) *)
Theorem gen_axis_node_2d_zaxis_eq (o d : T) k : ApiGen.axis_node_2d_zaxis o d k = nadd o (nmul d (nofZ k)).
Proof. reflexivity. Qed.
Theorem gen_axis_node_2d_xaxis_eq (o d : T) k : ApiGen.axis_node_2d_xaxis o d k = nadd o (nmul d (nofZ k)).
Proof. reflexivity. Qed.
Theorem gen_axis_node_3d_zaxis_eq (o d : T) k : ApiGen.axis_node_3d_zaxis o d k = nadd o (nmul d (nofZ k)).
Proof. reflexivity. Qed.
Theorem gen_axis_node_3d_xaxis_eq (o d : T) k : ApiGen.axis_node_3d_xaxis o d k = nadd o (nmul d (nofZ k)).
Proof. reflexivity. Qed.
Theorem gen_axis_node_3d_yaxis_eq (o d : T) k : ApiGen.axis_node_3d_yaxis o d k = nadd o (nmul d (nofZ k)).
Proof. reflexivity. Qed.

(* each property reads component i of origin, gridsize and shape alike: z -> 0, x -> 1, y -> 2 *)
Theorem gen_axis_2d_zaxis_eq (oz ox dz dx : T) nz nx :
  ApiGen.axis_2d_zaxis [oz; ox] [dz; dx] [nz; nx] = Api.axis_nodes oz dz nz.
Proof. reflexivity. Qed.
Theorem gen_axis_2d_xaxis_eq (oz ox dz dx : T) nz nx :
  ApiGen.axis_2d_xaxis [oz; ox] [dz; dx] [nz; nx] = Api.axis_nodes ox dx nx.
Proof. reflexivity. Qed.
Theorem gen_axis_3d_zaxis_eq (oz ox oy dz dx dy : T) nz nx ny :
  ApiGen.axis_3d_zaxis [oz; ox; oy] [dz; dx; dy] [nz; nx; ny] = Api.axis_nodes oz dz nz.
Proof. reflexivity. Qed.
Theorem gen_axis_3d_xaxis_eq (oz ox oy dz dx dy : T) nz nx ny :
  ApiGen.axis_3d_xaxis [oz; ox; oy] [dz; dx; dy] [nz; nx; ny] = Api.axis_nodes ox dx nx.
Proof. reflexivity. Qed.
Theorem gen_axis_3d_yaxis_eq (oz ox oy dz dx dy : T) nz nx ny :
  ApiGen.axis_3d_yaxis [oz; ox; oy] [dz; dx; dy] [nz; nx; ny] = Api.axis_nodes oy dy ny.
Proof. reflexivity. Qed.
(* the same for sequences of any length *)
Theorem gen_axis_2d_zaxis_eq_gen (origin gridsize : list T) shape :
  ApiGen.axis_2d_zaxis origin gridsize shape
  = Api.axis_nodes (nth 0 origin (nofZ 0)) (nth 0 gridsize (nofZ 0)) (nth 0 shape 0).
Proof. reflexivity. Qed.
Theorem gen_axis_2d_xaxis_eq_gen (origin gridsize : list T) shape :
  ApiGen.axis_2d_xaxis origin gridsize shape
  = Api.axis_nodes (nth 1 origin (nofZ 0)) (nth 1 gridsize (nofZ 0)) (nth 1 shape 0).
Proof. reflexivity. Qed.
Theorem gen_axis_3d_zaxis_eq_gen (origin gridsize : list T) shape :
  ApiGen.axis_3d_zaxis origin gridsize shape
  = Api.axis_nodes (nth 0 origin (nofZ 0)) (nth 0 gridsize (nofZ 0)) (nth 0 shape 0).
Proof. reflexivity. Qed.
Theorem gen_axis_3d_xaxis_eq_gen (origin gridsize : list T) shape :
  ApiGen.axis_3d_xaxis origin gridsize shape
  = Api.axis_nodes (nth 1 origin (nofZ 0)) (nth 1 gridsize (nofZ 0)) (nth 1 shape 0).
Proof. reflexivity. Qed.
Theorem gen_axis_3d_yaxis_eq_gen (origin gridsize : list T) shape :
  ApiGen.axis_3d_yaxis origin gridsize shape
  = Api.axis_nodes (nth 2 origin (nofZ 0)) (nth 2 gridsize (nofZ 0)) (nth 2 shape 0).
Proof. reflexivity. Qed.

(* ------------------------------------------------------------------ 2. ray-tracing defaults (_grid.py raytrace) *)
(* np.min(self._gridsize) is taken of a non-empty tuple (2 or 3 spacings) *)
Theorem gen_ray_stepsize_2d_eq (g : T) gs stepsize honor :
  ApiGen.ray_stepsize_2d (g :: gs) stepsize honor = Api.ray_stepsize (g :: gs) stepsize honor.
Proof. destruct stepsize as [s|]; [reflexivity | destruct honor; reflexivity]. Qed.
Theorem gen_ray_stepsize_3d_eq (g : T) gs stepsize honor :
  ApiGen.ray_stepsize_3d (g :: gs) stepsize honor = Api.ray_stepsize (g :: gs) stepsize honor.
Proof. destruct stepsize as [s|]; [reflexivity | destruct honor; reflexivity]. Qed.

(* 2.0 * ((nz * dz) ** 2 + (nx * dx) ** 2 [+ (ny * dy) ** 2]) ** 0.5, the sum associated to the left *)
Theorem gen_ray_max_dist_2d_eq nz nx (dz dx : T) :
  ApiGen.ray_max_dist_2d nz nx dz dx = Api.max_dist [nz; nx] [dz; dx].
Proof. reflexivity. Qed.
Theorem gen_ray_max_dist_3d_eq nz nx ny (dz dx dy : T) :
  ApiGen.ray_max_dist_3d nz nx ny dz dx dy = Api.max_dist [nz; nx; ny] [dz; dx; dy].
Proof. reflexivity. Qed.

Theorem gen_ray_max_step_2d_eq nz nx (dz dx step : T) max_step :
  ApiGen.ray_max_step_2d nz nx dz dx step max_step = Api.ray_max_step [nz; nx] [dz; dx] step max_step.
Proof.
  destruct max_step as [m|]; [|reflexivity].
  unfold ApiGen.ray_max_step_2d, Api.ray_max_step, ApiGen.optZ_truthy, ApiGen.optZ_val.
  destruct (m =? 0); reflexivity.
Qed.
Theorem gen_ray_max_step_3d_eq nz nx ny (dz dx dy step : T) max_step :
  ApiGen.ray_max_step_3d nz nx ny dz dx dy step max_step
  = Api.ray_max_step [nz; nx; ny] [dz; dx; dy] step max_step.
Proof.
  destruct max_step as [m|]; [|reflexivity].
  unfold ApiGen.ray_max_step_3d, Api.ray_max_step, ApiGen.optZ_truthy, ApiGen.optZ_val.
  destruct (m =? 0); reflexivity.
Qed.
(* the instance of the brief *)
Corollary gen_ray_max_step_2d_default nz nx (dz dx step : T) :
  ApiGen.ray_max_step_2d nz nx dz dx step None = Api.ray_max_step [nz; nx] [dz; dx] step None.
Proof. apply gen_ray_max_step_2d_eq. Qed.

(* statement order: the max_step default divides by the stepsize AFTER its own default was applied *)
Theorem gen_raytrace_defaults_2d_eq nz nx (dz dx : T) stepsize max_step honor :
  ApiGen.raytrace_defaults_2d nz nx dz dx stepsize max_step honor
  = (Api.ray_stepsize [dz; dx] stepsize honor,
     Api.ray_max_step [nz; nx] [dz; dx] (Api.ray_stepsize [dz; dx] stepsize honor) max_step).
Proof.
  unfold ApiGen.raytrace_defaults_2d. cbv zeta.
  rewrite gen_ray_max_step_2d_eq, gen_ray_stepsize_2d_eq. reflexivity.
Qed.
Theorem gen_raytrace_defaults_3d_eq nz nx ny (dz dx dy : T) stepsize max_step honor :
  ApiGen.raytrace_defaults_3d nz nx ny dz dx dy stepsize max_step honor
  = (Api.ray_stepsize [dz; dx; dy] stepsize honor,
     Api.ray_max_step [nz; nx; ny] [dz; dx; dy] (Api.ray_stepsize [dz; dx; dy] stepsize honor) max_step).
Proof.
  unfold ApiGen.raytrace_defaults_3d. cbv zeta.
  rewrite gen_ray_max_step_3d_eq, gen_ray_stepsize_3d_eq. reflexivity.
Qed.

(* ------------------------------------------------------------------ 3. what solve hands to the kernel (_solver.py) *)
Theorem gen_solve_slowness_2d_eq (grid : list T) : map ApiGen.solve_slowness_2d grid = Api.slowness_of grid.
Proof. reflexivity. Qed.
Theorem gen_solve_slowness_3d_eq (grid : list T) : map ApiGen.solve_slowness_3d grid = Api.slowness_of grid.
Proof. reflexivity. Qed.
Theorem gen_solve_source_2d_eq (src origin : list T) :
  ApiGen.zipw ApiGen.solve_source_2d src origin = Api.zip_sub src origin.
Proof. revert origin; induction src as [|x src IH]; intros [|y origin]; simpl; try reflexivity. rewrite IH. reflexivity. Qed.
Theorem gen_solve_source_3d_eq (src origin : list T) :
  ApiGen.zipw ApiGen.solve_source_3d src origin = Api.zip_sub src origin.
Proof. revert origin; induction src as [|x src IH]; intros [|y origin]; simpl; try reflexivity. rewrite IH. reflexivity. Qed.

(* the generated tuple is in the order of the call: (slowness, spacings, relative source, nsweep, return_gradient) *)
Theorem gen_solve_args_2d_eq (grid gridsize origin src : list T) nsweep rg :
  ApiGen.solve_args_2d grid gridsize origin src nsweep rg = (Api.solve_args grid gridsize origin src, nsweep, rg).
Proof. unfold ApiGen.solve_args_2d, Api.solve_args. rewrite gen_solve_source_2d_eq. reflexivity. Qed.
Theorem gen_solve_args_3d_eq (grid gridsize origin src : list T) nsweep rg :
  ApiGen.solve_args_3d grid gridsize origin src nsweep rg = (Api.solve_args grid gridsize origin src, nsweep, rg).
Proof. unfold ApiGen.solve_args_3d, Api.solve_args. rewrite gen_solve_source_3d_eq. reflexivity. Qed.

(* ------------------------------------------------------------------ 4. resample / smooth metadata (_base.py) *)
Theorem gen_resample_gridsize_2d_eq (gs : list T) old new :
  ApiGen.resample_gridsize_2d gs old new = GridMeta.resample_gridsize gs old new.
Proof.
  unfold ApiGen.resample_gridsize_2d.
  revert old new; induction gs as [|a gs IH]; intros [|b old] [|c new]; simpl; try reflexivity.
  rewrite IH. reflexivity.
Qed.
Theorem gen_resample_gridsize_3d_eq (gs : list T) old new :
  ApiGen.resample_gridsize_3d gs old new = GridMeta.resample_gridsize gs old new.
Proof.
  unfold ApiGen.resample_gridsize_3d.
  revert old new; induction gs as [|a gs IH]; intros [|b old] [|c new]; simpl; try reflexivity.
  rewrite IH. reflexivity.
Qed.
Theorem gen_resample_gridsize_elt_eq (a : T) b c :
  ApiGen.resample_gridsize_elt_2d a b c = ndiv (nmul a (nofZ b)) (nofZ c)
  /\ ApiGen.resample_gridsize_elt_3d a b c = ndiv (nmul a (nofZ b)) (nofZ c).
Proof. split; reflexivity. Qed.

Theorem gen_smooth_arg_2d_eq (sigma gs : list T) : ApiGen.smooth_arg_2d sigma gs = GridMeta.smooth_arg sigma gs.
Proof.
  unfold ApiGen.smooth_arg_2d.
  revert gs; induction sigma as [|s sigma IH]; intros [|g gs]; simpl; try reflexivity. rewrite IH. reflexivity.
Qed.
Theorem gen_smooth_arg_3d_eq (sigma gs : list T) : ApiGen.smooth_arg_3d sigma gs = GridMeta.smooth_arg sigma gs.
Proof.
  unfold ApiGen.smooth_arg_3d.
  revert gs; induction sigma as [|s sigma IH]; intros [|g gs]; simpl; try reflexivity. rewrite IH. reflexivity.
Qed.
(* a scalar sigma is repeated once per axis: np.full(2, sigma) / np.full(3, sigma) *)
Theorem gen_smooth_broadcast_2d_eq (s : T) : ApiGen.smooth_broadcast_2d s = [s; s].
Proof. reflexivity. Qed.
Theorem gen_smooth_broadcast_3d_eq (s : T) : ApiGen.smooth_broadcast_3d s = [s; s; s].
Proof. reflexivity. Qed.
Theorem gen_smooth_arg_scalar_2d_eq (s : T) gs : ApiGen.smooth_arg_scalar_2d s gs = GridMeta.smooth_arg [s; s] gs.
Proof. unfold ApiGen.smooth_arg_scalar_2d. rewrite gen_smooth_arg_2d_eq. reflexivity. Qed.
Theorem gen_smooth_arg_scalar_3d_eq (s : T) gs : ApiGen.smooth_arg_scalar_3d s gs = GridMeta.smooth_arg [s; s; s] gs.
Proof. unfold ApiGen.smooth_arg_scalar_3d. rewrite gen_smooth_arg_3d_eq. reflexivity. Qed.
End Eq.

(* ------------------------------------------------------------------ structural facts, quoted from the generated data *)
Open Scope string_scope.

(* storage of BaseGrid: the spacings are a tuple of Python floats, grid and origin float64 arrays; the public
   properties are plain aliases (so self.gridsize / self._gridsize, self.shape / self._grid.shape are the same thing) *)
Theorem gen_basegrid_storage :
  ApiGen.basegrid_init = [("_grid", "np.asarray(grid, dtype=np.float64)");
                          ("_gridsize", "tuple((float(x) for x in gridsize))");
                          ("_origin", "np.asarray(origin, dtype=np.float64)")]
  /\ ApiGen.basegrid_props = [("grid", "self._grid"); ("gridsize", "self._gridsize"); ("origin", "self._origin");
                              ("shape", "self._grid.shape")].
Proof. split; reflexivity. Qed.

(* which component each axis property reads (origin index, gridsize index, shape index) *)
Theorem gen_axis_index :
  ApiGen.axis_index_2d = [("BaseGrid2D.zaxis", (0, 0, 0)); ("BaseGrid2D.xaxis", (1, 1, 1))]
  /\ ApiGen.axis_index_3d = [("BaseGrid3D.zaxis", (0, 0, 0)); ("BaseGrid3D.xaxis", (1, 1, 1));
                             ("BaseGrid3D.yaxis", (2, 2, 2))].
Proof. split; reflexivity. Qed.

(* ray2d / ray3d: axes in z, x[, y] order, then the gradient components in the same order, the query points, the
   source, and the (defaulted) stepsize, max_step and honor_grid, each bound to the kernel parameter of that meaning *)
Theorem gen_raytrace_2d_call :
  ApiGen.raytrace_2d_call
  = ("ray2d", ["self.zaxis"; "self.xaxis"; "gradient[0].grid"; "gradient[1].grid";
               "np.asarray(points, dtype=np.float64)"; "self._source"; "stepsize"; "max_step"; "honor_grid"])
  /\ ApiGen.raytrace_2d_binding
     = [("z", "self.zaxis"); ("x", "self.xaxis"); ("zgrad", "gradient[0].grid"); ("xgrad", "gradient[1].grid");
        ("p", "np.asarray(points, dtype=np.float64)"); ("src", "self._source"); ("stepsize", "stepsize");
        ("max_step", "max_step"); ("honor_grid", "honor_grid")]
  /\ map fst ApiGen.raytrace_2d_binding = ApiGen.ray2d_params
  /\ map snd ApiGen.raytrace_2d_binding = snd ApiGen.raytrace_2d_call.
Proof. repeat split; reflexivity. Qed.
Theorem gen_raytrace_3d_call :
  ApiGen.raytrace_3d_call
  = ("ray3d", ["self.zaxis"; "self.xaxis"; "self.yaxis"; "gradient[0].grid"; "gradient[1].grid"; "gradient[2].grid";
               "np.asarray(points, dtype=np.float64)"; "self._source"; "stepsize"; "max_step"; "honor_grid"])
  /\ ApiGen.raytrace_3d_binding
     = [("z", "self.zaxis"); ("x", "self.xaxis"); ("y", "self.yaxis"); ("zgrad", "gradient[0].grid");
        ("xgrad", "gradient[1].grid"); ("ygrad", "gradient[2].grid");
        ("p", "np.asarray(points, dtype=np.float64)"); ("src", "self._source"); ("stepsize", "stepsize");
        ("max_step", "max_step"); ("honor_grid", "honor_grid")]
  /\ map fst ApiGen.raytrace_3d_binding = ApiGen.ray3d_params
  /\ map snd ApiGen.raytrace_3d_binding = snd ApiGen.raytrace_3d_call.
Proof. repeat split; reflexivity. Qed.
(* the names the max_step default unpacks, in order (the generated ray_max_dist / ray_max_step take them in this order),
   the defaults of the public arguments, and the gradient grids the call reads (component i of the stored gradient,
   on the SAME spacings and origin as the traveltime grid) *)
Theorem gen_raytrace_context :
  ApiGen.raytrace_2d_unpack = [("self.shape", ["nz"; "nx"]); ("self._gridsize", ["dz"; "dx"])]
  /\ ApiGen.raytrace_3d_unpack = [("self.shape", ["nz"; "nx"; "ny"]); ("self._gridsize", ["dz"; "dx"; "dy"])]
  /\ ApiGen.raytrace_2d_params = ["points"; "stepsize=None"; "max_step=None"; "honor_grid=False"]
  /\ ApiGen.raytrace_3d_params = ["points"; "stepsize=None"; "max_step=None"; "honor_grid=False"]
  /\ ApiGen.raytrace_2d_gradient = ("Grid2D", ["self._gradient[:, :, i]"; "self._gridsize"; "self._origin"; "range(2)"])
  /\ ApiGen.raytrace_3d_gradient
     = ("Grid3D", ["self._gradient[:, :, :, i]"; "self._gridsize"; "self._origin"; "range(3)"]).
Proof. repeat split; reflexivity. Qed.

(* solve2d / solve3d: slowness first, then the spacings in stored order (dz, dx[, dy]), then the source relative to the
   origin, nsweep, and return_gradient as the kernel's `grad` *)
Theorem gen_solve_2d_call :
  ApiGen.solve_2d_call
  = ("solve2d", ["1.0 / self._grid"; "*self._gridsize"; "sources - self._origin"; "nsweep"; "return_gradient"])
  /\ ApiGen.solve_2d_binding
     = [("slow", "1.0 / self._grid"); ("dz", "self._gridsize[0]"); ("dx", "self._gridsize[1]");
        ("src", "sources - self._origin"); ("nsweep", "nsweep"); ("grad", "return_gradient")]
  /\ map fst ApiGen.solve_2d_binding = ApiGen.solve2d_params
  /\ ApiGen.solve_2d_params = ["sources"; "nsweep=2"; "return_gradient=False"].
Proof. repeat split; reflexivity. Qed.
Theorem gen_solve_3d_call :
  ApiGen.solve_3d_call
  = ("solve3d", ["1.0 / self._grid"; "*self._gridsize"; "sources - self._origin"; "nsweep"; "return_gradient"])
  /\ ApiGen.solve_3d_binding
     = [("slow", "1.0 / self._grid"); ("dz", "self._gridsize[0]"); ("dx", "self._gridsize[1]");
        ("dy", "self._gridsize[2]"); ("src", "sources - self._origin"); ("nsweep", "nsweep");
        ("grad", "return_gradient")]
  /\ map fst ApiGen.solve_3d_binding = ApiGen.solve3d_params
  /\ ApiGen.solve_3d_params = ["sources"; "nsweep=2"; "return_gradient=False"].
Proof. repeat split; reflexivity. Qed.

(* the result objects: the kernel's three results go to grid / gradient / vzero (item i of each for several sources),
   the gradient only if it was asked for; spacings and origin are the solver's own; `source` is the ABSOLUTE source
   the caller passed (not the origin-relative one the kernel received) *)
Theorem gen_solve_2d_result :
  ApiGen.solve_2d_targets = ["tt"; "ttgrad"; "vzero"]
  /\ ApiGen.solve_2d_result_ctor = ("TraveltimeGrid2D", ["grid"; "gridsize"; "origin"; "source"; "gradient"; "vzero"])
  /\ ApiGen.solve_2d_result_single
     = [("grid", "tt"); ("gridsize", "self._gridsize"); ("origin", "self._origin"); ("source", "sources");
        ("gradient", "ttgrad if return_gradient else None"); ("vzero", "vzero")]
  /\ ApiGen.solve_2d_result_multi
     = [("grid", "tt[i]"); ("gridsize", "self._gridsize"); ("origin", "self._origin"); ("source", "sources[i]");
        ("gradient", "ttgrad[i] if return_gradient else None"); ("vzero", "vzero[i]")]
  /\ map fst ApiGen.solve_2d_result_single = snd ApiGen.solve_2d_result_ctor
  /\ map fst ApiGen.solve_2d_result_multi = snd ApiGen.solve_2d_result_ctor.
Proof. repeat split; reflexivity. Qed.
Theorem gen_solve_3d_result :
  ApiGen.solve_3d_targets = ["tt"; "ttgrad"; "vzero"]
  /\ ApiGen.solve_3d_result_ctor = ("TraveltimeGrid3D", ["grid"; "gridsize"; "origin"; "source"; "gradient"; "vzero"])
  /\ ApiGen.solve_3d_result_single
     = [("grid", "tt"); ("gridsize", "self._gridsize"); ("origin", "self._origin"); ("source", "sources");
        ("gradient", "ttgrad if return_gradient else None"); ("vzero", "vzero")]
  /\ ApiGen.solve_3d_result_multi
     = [("grid", "tt[i]"); ("gridsize", "self._gridsize"); ("origin", "self._origin"); ("source", "sources[i]");
        ("gradient", "ttgrad[i] if return_gradient else None"); ("vzero", "vzero[i]")]
  /\ map fst ApiGen.solve_3d_result_single = snd ApiGen.solve_3d_result_ctor
  /\ map fst ApiGen.solve_3d_result_multi = snd ApiGen.solve_3d_result_ctor.
Proof. repeat split; reflexivity. Qed.

(* resample zips (spacing, OLD extent, NEW extent) in this order; smooth hands sigma / gridsize to the filter *)
Theorem gen_resample_smooth_context :
  ApiGen.resample_2d_zip = [("a", "self.gridsize"); ("b", "old_shape"); ("c", "new_shape")]
  /\ ApiGen.resample_3d_zip = [("a", "self.gridsize"); ("b", "old_shape"); ("c", "new_shape")]
  /\ ApiGen.smooth_2d_call = ("gaussian_filter", ["self._grid"; "sigma / self._gridsize"])
  /\ ApiGen.smooth_3d_call = ("gaussian_filter", ["self._grid"; "sigma / self._gridsize"]).
Proof. repeat split; reflexivity. Qed.


(* ================================================================== round 2 *)
(* ------------------------------------------------------------------ 5. point evaluation: grid(points) *)
(* BaseGrid2D/3D.__call__ (inherited unchanged by the Grid and Eikonal classes): the kernel's axes x, y[, z] receive the z, x[, y]
   node axes IN THAT ORDER, v the stored grid, q the query points as float64, fval the fill value *)
Theorem gen_call_2d_wiring :
  ApiGen.call_2d_binding
  = [("x", "self.zaxis"); ("y", "self.xaxis"); ("v", "self._grid"); ("q", "np.asarray(points, dtype=np.float64)");
     ("fval", "fill_value")]
  /\ fst ApiGen.call_2d_call = "interp2d"
  /\ map fst ApiGen.call_2d_binding = ApiGen.interp2d_params
  /\ map snd ApiGen.call_2d_binding = snd ApiGen.call_2d_call
  /\ ApiGen.call_2d_params = ["points"; "fill_value=np.nan"]
  /\ ApiGen.interp2d_defaults = [("fval", "np.nan")].
Proof. repeat split; reflexivity. Qed.
Theorem gen_call_3d_wiring :
  ApiGen.call_3d_binding
  = [("x", "self.zaxis"); ("y", "self.xaxis"); ("z", "self.yaxis"); ("v", "self._grid");
     ("q", "np.asarray(points, dtype=np.float64)"); ("fval", "fill_value")]
  /\ fst ApiGen.call_3d_call = "interp3d"
  /\ map fst ApiGen.call_3d_binding = ApiGen.interp3d_params
  /\ map snd ApiGen.call_3d_binding = snd ApiGen.call_3d_call
  /\ ApiGen.call_3d_params = ["points"; "fill_value=np.nan"]
  /\ ApiGen.interp3d_defaults = [("fval", "np.nan")].
Proof. repeat split; reflexivity. Qed.
(* TraveltimeGrid2D/3D.__call__: the same, plus the stored (ABSOLUTE) source and the slowness at the source *)
Theorem gen_ttcall_2d_wiring :
  ApiGen.ttcall_2d_binding
  = [("x", "self.zaxis"); ("y", "self.xaxis"); ("v", "self._grid"); ("q", "np.asarray(points, dtype=np.float64)");
     ("src", "self._source"); ("vzero", "self._vzero"); ("fval", "fill_value")]
  /\ fst ApiGen.ttcall_2d_call = "vinterp2d"
  /\ map fst ApiGen.ttcall_2d_binding = ApiGen.vinterp2d_params
  /\ map snd ApiGen.ttcall_2d_binding = snd ApiGen.ttcall_2d_call
  /\ ApiGen.ttcall_2d_params = ["points"; "fill_value=np.nan"]
  /\ ApiGen.vinterp2d_defaults = [("fval", "np.nan")].
Proof. repeat split; reflexivity. Qed.
Theorem gen_ttcall_3d_wiring :
  ApiGen.ttcall_3d_binding
  = [("x", "self.zaxis"); ("y", "self.xaxis"); ("z", "self.yaxis"); ("v", "self._grid");
     ("q", "np.asarray(points, dtype=np.float64)"); ("src", "self._source"); ("vzero", "self._vzero");
     ("fval", "fill_value")]
  /\ fst ApiGen.ttcall_3d_call = "vinterp3d"
  /\ map fst ApiGen.ttcall_3d_binding = ApiGen.vinterp3d_params
  /\ map snd ApiGen.ttcall_3d_binding = snd ApiGen.ttcall_3d_call
  /\ ApiGen.ttcall_3d_params = ["points"; "fill_value=np.nan"]
  /\ ApiGen.vinterp3d_defaults = [("fval", "np.nan")].
Proof. repeat split; reflexivity. Qed.

(* ------------------------------------------------------------------ 6. the gradient property *)
(* raises ValueError when no gradient was stored; otherwise item k of the list is a Grid built from component k of the
   LAST axis of the stored gradient, k = 0 .. ndim-1 in increasing order, on the traveltime grid's own spacings and origin *)
Theorem gen_gradient_2d :
  ApiGen.gradient_2d_guard = ("self._gradient is None", "ValueError")
  /\ ApiGen.gradient_2d_ctor = "Grid2D"
  /\ ApiGen.gradient_2d_index = ApiGen.arange 2
  /\ ApiGen.gradient_2d_axis = (2, 3)
  /\ ApiGen.gradient_2d_items
     = [[("grid", "self._gradient[:, :, 0]"); ("gridsize", "self._gridsize"); ("origin", "self._origin")];
        [("grid", "self._gradient[:, :, 1]"); ("gridsize", "self._gridsize"); ("origin", "self._origin")]]
  /\ ApiGen.grid_2d_init = ("(self, *args, **kwargs)", "super().__init__(*args, **kwargs)").
Proof. repeat split; reflexivity. Qed.
Theorem gen_gradient_3d :
  ApiGen.gradient_3d_guard = ("self._gradient is None", "ValueError")
  /\ ApiGen.gradient_3d_ctor = "Grid3D"
  /\ ApiGen.gradient_3d_index = ApiGen.arange 3
  /\ ApiGen.gradient_3d_axis = (3, 4)
  /\ ApiGen.gradient_3d_items
     = [[("grid", "self._gradient[:, :, :, 0]"); ("gridsize", "self._gridsize"); ("origin", "self._origin")];
        [("grid", "self._gradient[:, :, :, 1]"); ("gridsize", "self._gridsize"); ("origin", "self._origin")];
        [("grid", "self._gradient[:, :, :, 2]"); ("gridsize", "self._gridsize"); ("origin", "self._origin")]]
  /\ ApiGen.grid_3d_init = ("(self, *args, **kwargs)", "super().__init__(*args, **kwargs)").
Proof. repeat split; reflexivity. Qed.
(* every item passes (gridsize, origin) on unchanged, and item k of the list is component k *)
Theorem gen_gradient_items_meta :
  Forall (fun it => tl it = [("gridsize", "self._gridsize"); ("origin", "self._origin")])
         (ApiGen.gradient_2d_items ++ ApiGen.gradient_3d_items)
  /\ length ApiGen.gradient_2d_items = 2%nat /\ length ApiGen.gradient_3d_items = 3%nat.
Proof. split; [repeat constructor | split; reflexivity]. Qed.

(* ------------------------------------------------------------------ 7. constructors *)
(* BaseTraveltime stores its three arguments as they are; its only property is an alias; the remaining BaseGrid members
   only read the stored array *)
Theorem gen_basetraveltime_storage :
  ApiGen.basetraveltime_init = [("_source", "source"); ("_gradient", "gradient"); ("_vzero", "vzero")]
  /\ ApiGen.basetraveltime_props = [("source", "self._source")]
  /\ ApiGen.basegrid_other = [("__getitem__(islice)", "self._grid[islice]"); ("size", "self._grid.size");
                              ("ndim", "self._grid.ndim")].
Proof. repeat split; reflexivity. Qed.
(* TraveltimeGrid2D/3D(grid, gridsize, origin, source, gradient, vzero): every keyword goes to the attribute of the same
   name; origin, source and (when present) gradient are converted to float64 arrays, grid and gridsize by BaseGrid *)
Theorem gen_ttinit_2d :
  ApiGen.ttinit_2d_params = ["grid"; "gridsize"; "origin"; "source"; "gradient"; "vzero"]
  /\ ApiGen.ttinit_2d_super
     = [("grid", "grid"); ("gridsize", "gridsize"); ("origin", "np.asarray(origin, dtype=np.float64)");
        ("source", "np.asarray(source, dtype=np.float64)");
        ("gradient", "np.asarray(gradient, dtype=np.float64) if gradient is not None else None"); ("vzero", "vzero")]
  /\ ApiGen.ttinit_2d_stored
     = [("_grid", "np.asarray(grid, dtype=np.float64)"); ("_gridsize", "tuple((float(x) for x in gridsize))");
        ("_origin", "np.asarray(np.asarray(origin, dtype=np.float64), dtype=np.float64)");
        ("_source", "np.asarray(source, dtype=np.float64)");
        ("_gradient", "np.asarray(gradient, dtype=np.float64) if gradient is not None else None");
        ("_vzero", "vzero")].
Proof. repeat split; reflexivity. Qed.
Theorem gen_ttinit_3d :
  ApiGen.ttinit_3d_params = ApiGen.ttinit_2d_params
  /\ ApiGen.ttinit_3d_super = ApiGen.ttinit_2d_super
  /\ ApiGen.ttinit_3d_stored = ApiGen.ttinit_2d_stored.
Proof. repeat split; reflexivity. Qed.
(* the result objects built by solve (gen_solve_*_result) name exactly the constructor's parameters *)
Theorem gen_ttinit_matches_solve :
  snd ApiGen.solve_2d_result_ctor = ApiGen.ttinit_2d_params /\ snd ApiGen.solve_3d_result_ctor = ApiGen.ttinit_3d_params.
Proof. split; reflexivity. Qed.

(* Eikonal2D/3D(grid, gridsize, origin=None): the only logic is the origin default *)
Theorem gen_eikonal_init_2d :
  ApiGen.eikonal_2d_init_params = ["grid"; "gridsize"; "origin=None"]
  /\ ApiGen.eikonal_2d_init_super
     = [("grid", "grid"); ("gridsize", "gridsize");
        ("origin", "origin if origin is not None else np.zeros(2, dtype=np.float64)")]
  /\ ApiGen.eikonal_2d_init_stored
     = [("_grid", "np.asarray(grid, dtype=np.float64)"); ("_gridsize", "tuple((float(x) for x in gridsize))");
        ("_origin", "np.asarray(origin if origin is not None else np.zeros(2, dtype=np.float64), dtype=np.float64)")].
Proof. repeat split; reflexivity. Qed.
Theorem gen_eikonal_init_3d :
  ApiGen.eikonal_3d_init_params = ["grid"; "gridsize"; "origin=None"]
  /\ ApiGen.eikonal_3d_init_super
     = [("grid", "grid"); ("gridsize", "gridsize");
        ("origin", "origin if origin is not None else np.zeros(3, dtype=np.float64)")]
  /\ ApiGen.eikonal_3d_init_stored
     = [("_grid", "np.asarray(grid, dtype=np.float64)"); ("_gridsize", "tuple((float(x) for x in gridsize))");
        ("_origin", "np.asarray(origin if origin is not None else np.zeros(3, dtype=np.float64), dtype=np.float64)")].
Proof. repeat split; reflexivity. Qed.

Section Origin.
Context {T : Type} {N : Num T}.
Theorem gen_eikonal_origin_2d_eq (o : list T) :
  ApiGen.eikonal_origin_2d (Some o) = o /\ ApiGen.eikonal_origin_2d (T:=T) None = [nofZ 0; nofZ 0].
Proof. split; reflexivity. Qed.
Theorem gen_eikonal_origin_3d_eq (o : list T) :
  ApiGen.eikonal_origin_3d (Some o) = o /\ ApiGen.eikonal_origin_3d (T:=T) None = [nofZ 0; nofZ 0; nofZ 0].
Proof. split; reflexivity. Qed.
(* omitting the origin is the same as passing the zero vector *)
Theorem gen_eikonal_origin_2d_default :
  ApiGen.eikonal_origin_2d (T:=T) None = ApiGen.eikonal_origin_2d (Some [nofZ 0; nofZ 0]).
Proof. reflexivity. Qed.
Theorem gen_eikonal_origin_3d_default :
  ApiGen.eikonal_origin_3d (T:=T) None = ApiGen.eikonal_origin_3d (Some [nofZ 0; nofZ 0; nofZ 0]).
Proof. reflexivity. Qed.
(* ... hence so is what solve hands to the kernel (in the hand model's terms) *)
Theorem gen_solve_args_2d_default_origin (grid gridsize src : list T) nsweep rg :
  ApiGen.solve_args_2d grid gridsize (ApiGen.eikonal_origin_2d None) src nsweep rg
  = (Api.solve_args grid gridsize [nofZ 0; nofZ 0] src, nsweep, rg).
Proof. rewrite gen_solve_args_2d_eq. reflexivity. Qed.
Theorem gen_solve_args_3d_default_origin (grid gridsize src : list T) nsweep rg :
  ApiGen.solve_args_3d grid gridsize (ApiGen.eikonal_origin_3d None) src nsweep rg
  = (Api.solve_args grid gridsize [nofZ 0; nofZ 0; nofZ 0] src, nsweep, rg).
Proof. rewrite gen_solve_args_3d_eq. reflexivity. Qed.
End Origin.


(* ================================================================== round 3: package surface *)
(* the package consists of exactly these source files (no other loadable file may sit next to them: apigen rejects it) *)
Theorem gen_pkg_files :
  ApiGen.pkg_files
  = ["__about__.py"; "__init__.py"; "_base.py"; "_common.py";
     "_fteik/__init__.py"; "_fteik/_common.py"; "_fteik/_fteik2d.py"; "_fteik/_fteik3d.py"; "_fteik/_ray2d.py";
     "_fteik/_ray3d.py"; "_grid.py"; "_helpers.py";
     "_interp/__init__.py"; "_interp/_interp2d.py"; "_interp/_interp3d.py"; "_interp/_vinterp2d.py";
     "_interp/_vinterp3d.py"; "_io.py"; "_solver.py"]
  /\ length ApiGen.pkg_files = 19%nat.
Proof. split; reflexivity. Qed.

(* module a name is imported from, according to an import table *)
Definition imported_from (tbl : list (string * list string)) (n : string) : option string :=
  match find (fun row => existsb (String.eqb n) (snd row)) tbl with Some r => Some (fst r) | None => None end.

(* fteikpy/__init__.py consists of relative imports and __all__ only; every exported name is imported, from the module
   that defines it (the classes from _solver / _grid, the thread helpers from _helpers, the converters from _io) *)
Theorem gen_pkg_exports :
  ApiGen.pkg_init_all
  = ["Eikonal2D"; "Eikonal3D"; "Grid2D"; "Grid3D"; "TraveltimeGrid2D"; "TraveltimeGrid3D"; "get_num_threads";
     "set_num_threads"; "grid_to_meshio"; "ray_to_meshio"; "__version__"]
  /\ ApiGen.pkg_init_imports
     = [(".__about__", ["__version__"]); ("._grid", ["Grid2D"; "Grid3D"; "TraveltimeGrid2D"; "TraveltimeGrid3D"]);
        ("._helpers", ["get_num_threads"; "set_num_threads"]); ("._io", ["grid_to_meshio"; "ray_to_meshio"]);
        ("._solver", ["Eikonal2D"; "Eikonal3D"])]
  /\ map (imported_from ApiGen.pkg_init_imports) ApiGen.pkg_init_all
     = [Some "._solver"; Some "._solver"; Some "._grid"; Some "._grid"; Some "._grid"; Some "._grid";
        Some "._helpers"; Some "._helpers"; Some "._io"; Some "._io"; Some ".__about__"]
  /\ map fst ApiGen.pkg_about = ["__version__"].
Proof. repeat split; reflexivity. Qed.
(* the two kernel sub-packages re-export the entry points from the modules the translator reads *)
Theorem gen_pkg_subpackages :
  ApiGen.pkg_fteik_all = ["fteik2d"; "fteik3d"; "solve2d"; "solve3d"; "ray2d"; "ray3d"]
  /\ map (imported_from ApiGen.pkg_fteik_imports) ApiGen.pkg_fteik_all
     = [Some "._fteik2d"; Some "._fteik3d"; Some "._fteik2d"; Some "._fteik3d"; Some "._ray2d"; Some "._ray3d"]
  /\ ApiGen.pkg_interp_all = ["interp2d"; "interp3d"; "vinterp2d"; "vinterp3d"]
  /\ map (imported_from ApiGen.pkg_interp_imports) ApiGen.pkg_interp_all
     = [Some "._interp2d"; Some "._interp3d"; Some "._vinterp2d"; Some "._vinterp3d"]
  /\ length (flat_map snd ApiGen.pkg_fteik_imports) = length ApiGen.pkg_fteik_all
  /\ length (flat_map snd ApiGen.pkg_interp_imports) = length ApiGen.pkg_interp_all.
Proof. repeat split; reflexivity. Qed.
(* the thread helpers only forward to numba *)
Theorem gen_helpers :
  ApiGen.helpers_imports = [("import", ["numba"])]
  /\ ApiGen.helpers_funcs = [("get_num_threads", ([], "return numba.get_num_threads()"));
                             ("set_num_threads", (["n"], "numba.set_num_threads(n)"))].
Proof. split; reflexivity. Qed.
(* module level of the three API modules: these imports and these classes, nothing else (no module-level call,
   assignment, function, try or decorator; class level: methods, and _ndim) *)
Theorem gen_module_surface :
  ApiGen.mod_base_imports
  = [("abc", ["ABC"]); ("import", ["numpy as np"]); ("scipy.interpolate", ["RegularGridInterpolator"]);
     ("scipy.ndimage", ["gaussian_filter"]); ("._interp", ["interp2d"; "interp3d"])]
  /\ ApiGen.mod_base_classes = ["BaseGrid"; "BaseGrid2D"; "BaseGrid3D"; "BaseTraveltime"]
  /\ ApiGen.mod_grid_imports
     = [("import", ["numpy as np"]); ("._base", ["BaseGrid2D"; "BaseGrid3D"; "BaseTraveltime"]);
        ("._fteik", ["ray2d"; "ray3d"]); ("._interp", ["vinterp2d"; "vinterp3d"])]
  /\ ApiGen.mod_grid_classes = ["Grid2D"; "Grid3D"; "TraveltimeGrid2D"; "TraveltimeGrid3D"]
  /\ ApiGen.mod_solver_imports
     = [("import", ["numpy as np"]); ("._base", ["BaseGrid2D"; "BaseGrid3D"]); ("._fteik", ["solve2d"; "solve3d"]);
        ("._grid", ["TraveltimeGrid2D"; "TraveltimeGrid3D"])]
  /\ ApiGen.mod_solver_classes = ["Eikonal2D"; "Eikonal3D"].
Proof. repeat split; reflexivity. Qed.

Print Assumptions gen_axis_node_2d_zaxis_eq.
Print Assumptions gen_axis_node_2d_xaxis_eq.
Print Assumptions gen_axis_node_3d_zaxis_eq.
Print Assumptions gen_axis_node_3d_xaxis_eq.
Print Assumptions gen_axis_node_3d_yaxis_eq.
Print Assumptions gen_axis_2d_zaxis_eq.
Print Assumptions gen_axis_2d_xaxis_eq.
Print Assumptions gen_axis_3d_zaxis_eq.
Print Assumptions gen_axis_3d_xaxis_eq.
Print Assumptions gen_axis_3d_yaxis_eq.
Print Assumptions gen_axis_2d_zaxis_eq_gen.
Print Assumptions gen_axis_2d_xaxis_eq_gen.
Print Assumptions gen_axis_3d_zaxis_eq_gen.
Print Assumptions gen_axis_3d_xaxis_eq_gen.
Print Assumptions gen_axis_3d_yaxis_eq_gen.
Print Assumptions gen_ray_stepsize_2d_eq.
Print Assumptions gen_ray_stepsize_3d_eq.
Print Assumptions gen_ray_max_dist_2d_eq.
Print Assumptions gen_ray_max_dist_3d_eq.
Print Assumptions gen_ray_max_step_2d_eq.
Print Assumptions gen_ray_max_step_3d_eq.
Print Assumptions gen_ray_max_step_2d_default.
Print Assumptions gen_raytrace_defaults_2d_eq.
Print Assumptions gen_raytrace_defaults_3d_eq.
Print Assumptions gen_solve_slowness_2d_eq.
Print Assumptions gen_solve_slowness_3d_eq.
Print Assumptions gen_solve_source_2d_eq.
Print Assumptions gen_solve_source_3d_eq.
Print Assumptions gen_solve_args_2d_eq.
Print Assumptions gen_solve_args_3d_eq.
Print Assumptions gen_resample_gridsize_2d_eq.
Print Assumptions gen_resample_gridsize_3d_eq.
Print Assumptions gen_resample_gridsize_elt_eq.
Print Assumptions gen_smooth_arg_2d_eq.
Print Assumptions gen_smooth_arg_3d_eq.
Print Assumptions gen_smooth_broadcast_2d_eq.
Print Assumptions gen_smooth_broadcast_3d_eq.
Print Assumptions gen_smooth_arg_scalar_2d_eq.
Print Assumptions gen_smooth_arg_scalar_3d_eq.
Print Assumptions gen_basegrid_storage.
Print Assumptions gen_axis_index.
Print Assumptions gen_raytrace_2d_call.
Print Assumptions gen_raytrace_3d_call.
Print Assumptions gen_raytrace_context.
Print Assumptions gen_solve_2d_call.
Print Assumptions gen_solve_3d_call.
Print Assumptions gen_solve_2d_result.
Print Assumptions gen_solve_3d_result.
Print Assumptions gen_resample_smooth_context.
Print Assumptions gen_call_2d_wiring.
Print Assumptions gen_call_3d_wiring.
Print Assumptions gen_ttcall_2d_wiring.
Print Assumptions gen_ttcall_3d_wiring.
Print Assumptions gen_gradient_2d.
Print Assumptions gen_gradient_3d.
Print Assumptions gen_gradient_items_meta.
Print Assumptions gen_basetraveltime_storage.
Print Assumptions gen_ttinit_2d.
Print Assumptions gen_ttinit_3d.
Print Assumptions gen_ttinit_matches_solve.
Print Assumptions gen_eikonal_init_2d.
Print Assumptions gen_eikonal_init_3d.
Print Assumptions gen_eikonal_origin_2d_eq.
Print Assumptions gen_eikonal_origin_3d_eq.
Print Assumptions gen_eikonal_origin_2d_default.
Print Assumptions gen_eikonal_origin_3d_default.
Print Assumptions gen_solve_args_2d_default_origin.
Print Assumptions gen_solve_args_3d_default_origin.
Print Assumptions gen_pkg_files.
Print Assumptions gen_pkg_exports.
Print Assumptions gen_pkg_subpackages.
Print Assumptions gen_helpers.
Print Assumptions gen_module_surface.
