(* The sweep passes hand the per-node update exactly the documented tuple of spacing constants:
     2D  (dz, dx, 1/dz, 1/dx, 1/dz/dz, 1/dx/dx)
     3D  (dz, dx, dy, 1/dz/dz, 1/dx/dx, 1/dy/dy, dz2i*dx2i, dz2i*dy2i, dx2i*dy2i, dz2i+dx2i+dy2i)
   and depend on the spacings only through it.  (The operator theorems of OperatorsR/Operators3R are stated for these
   tuples; this file is what ties them to sweep2d/sweep3d.)  Every numeric instance. *)
From Coq Require Import ZArith List Bool.
From FT.lib Require Import Num Arr.
From FT.gen Require Import Fteik2d Fteik3d.
Import ListNotations.
Open Scope Z_scope.

Section D.
Context {T : Type} `{Num T}.

Definition dargs2 (dz dx : T) : T * T * T * T * T * T :=
  let dzi := ndiv (nofZ 1) dz in let dxi := ndiv (nofZ 1) dx in
  (dz, dx, dzi, dxi, ndiv dzi dz, ndiv dxi dx).

Definition dargs3 (dz dx dy : T) : T * T * T * T * T * T * T * T * T * T :=
  let dz2i := ndiv (ndiv (nofZ 1) dz) dz in
  let dx2i := ndiv (ndiv (nofZ 1) dx) dx in
  let dy2i := ndiv (ndiv (nofZ 1) dy) dy in
  (dz, dx, dy, dz2i, dx2i, dy2i, nmul dz2i dx2i, nmul dz2i dy2i, nmul dx2i dy2i, nadd (nadd dz2i dx2i) dy2i).

(* a pass written against an explicit tuple: obtained from the generated definition by abstracting the tuple *)
Lemma sweep2d_through_dargs2 :
  exists F : T * T * T * T * T * T -> arr T -> arr Z -> arr T -> T -> T -> T -> T -> T -> Z -> Z -> bool -> arr T * arr Z,
  forall tt ttsgn slow dz dx zsi xsi zsa xsa vzero nz nx grad,
    sweep2d tt ttsgn slow dz dx zsi xsi zsa xsa vzero nz nx grad = F (dargs2 dz dx) tt ttsgn slow zsi xsi zsa xsa vzero nz nx grad.
Proof.
  eexists. intros. unfold sweep2d. cbv zeta.
  match goal with |- context [Fteik2d.sweep _ _ _ ?d] => change d with (dargs2 dz dx) end.
  generalize (dargs2 dz dx). intro d.
  reflexivity.
Qed.

Lemma sweep3d_through_dargs3 :
  exists F : T * T * T * T * T * T * T * T * T * T -> arr T -> arr Z -> arr T -> Z -> Z -> Z -> bool -> arr T * arr Z,
  forall tt ttsgn slow dz dx dy nz nx ny grad,
    sweep3d tt ttsgn slow dz dx dy nz nx ny grad = F (dargs3 dz dx dy) tt ttsgn slow nz nx ny grad.
Proof.
  eexists. intros. unfold sweep3d. cbv zeta.
  match goal with |- context [Fteik3d.sweep _ _ _ ?d] => change d with (dargs3 dz dx dy) end.
  generalize (dargs3 dz dx dy). intro d.
  reflexivity.
Qed.

(* plain corollaries: two sets of spacings with the same tuple give the same pass *)
Corollary sweep2d_depends_on_spacing_through_dargs2 tt ttsgn slow dz dx dz' dx' zsi xsi zsa xsa vzero nz nx grad :
  dargs2 dz dx = dargs2 dz' dx' ->
  sweep2d tt ttsgn slow dz dx zsi xsi zsa xsa vzero nz nx grad = sweep2d tt ttsgn slow dz' dx' zsi xsi zsa xsa vzero nz nx grad.
Proof. intros E. destruct sweep2d_through_dargs2 as [F HF]. rewrite !HF, E. reflexivity. Qed.
Corollary sweep3d_depends_on_spacing_through_dargs3 tt ttsgn slow dz dx dy dz' dx' dy' nz nx ny grad :
  dargs3 dz dx dy = dargs3 dz' dx' dy' ->
  sweep3d tt ttsgn slow dz dx dy nz nx ny grad = sweep3d tt ttsgn slow dz' dx' dy' nz nx ny grad.
Proof. intros E. destruct sweep3d_through_dargs3 as [F HF]. rewrite !HF, E. reflexivity. Qed.
End D.
