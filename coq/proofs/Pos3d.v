(* "Traveltimes are zero only at a node coinciding with the source" (clause of C03) for the 3D solver Fteik3d.fteik3d, over
   the reals (T := R, instance NumR).  zsa = zsrc/dz, xsa = xsrc/dx, ysa = ysrc/dy are the source coordinates in grid units
   exactly as the code computes them; the 3D code does NOT snap the source to a node (no rounding as in 2D), so a node
   coincides with the source only when the three coordinates are exactly integers.

   RESULT: THE CLAUSE IS FALSE FOR THE 3D SOLVER AS STATED (all inputs with positive slowness and spacings).
   The value written by a node update is min(t0, t1d, t2d, t3d).  With entries >= 0 and slowness > 0: t1d > 0, t2d > 0 (each
   plane operator is the placeholder Big or STRICTLY later than the face-diagonal neighbour: Pos2d.four_point_gt_tev), but the
   guarded 8-point candidate is only known to be >= tnve (the cube-diagonal neighbour), and when tnve = 0 (the source) it can
   be exactly 0:  t3d = (t1 + sqrt (t2 - t3)) / dsum = 0  iff  t1 <= 0 and t2 - t3 = t1^2; the guard `t3d < tnve` does not fire.

     node_value_zero_gen           exact sufficient conditions on the seven neighbours for a node update to write 0
     node_zero_refuted             2 x 2 x 2 nodes, ordinary magnitudes (times <= 1, slowness 1/4, dz = dx = 1, dy = 1/2), source
                                   at node (0,0,0), every other node > 0: the update of node (1,1,1) writes 0
     sweep_not_posinv              hence Fteik3d.sweep does not preserve "0 only at the source"
     fteik3d_zero_only_at_source_refuted
                                   A COMPLETE SOLVE: 1 x 2 x 1 cells of slowness 200000 and 900000, dz = dy = 1, dx = 4, source at
                                   node (0,1,0): for every nsweep >= 1 (grad or not) the returned grid has the time 0 at node
                                   (1,0,1) as well as at the source node.  The times of this model reach the placeholder
                                   Big = 100000 (unvisited nodes then look like legitimate times); this is what lets the tests in
                                   front of the 8-point operator pass in a reachable state.
     Binary64.fteik3d_two_zeros_binary64   the same run in binary64 (generated code, vm_compute): two entries == 0.0; the Python
                                   function _fteik3d.fteik3d returns the same grid on this input.
   Whether a complete solve can produce a second zero when all times stay far below Big is OPEN: the one-node witness
   node_zero_refuted shows that no argument local to one node update can exclude it, and a random search (2800 small models,
   binary64) found the accepted 8-point value next to the source always >= slowness * smallest spacing.

   WHAT IS TRUE FOR ALL INPUTS (slow well formed, >= 1 cell per axis, every slowness > 0, dz, dx, dy > 0, any source accepted
   by the solver, any nsweep, grad or not):
     0. t2d_zx_adm/_gt, t2d_zy_.., t2d_xy_..   plane operators: Big or > face-diagonal neighbour (strict)
        t3d_big_or_ge                           guarded 8-point candidate: Big or >= cube-diagonal neighbour
     1. Inv3 nz nx ny zsa xsa ysa tt            invariant: wf, shape, entries >= 0, and
                                                (PosAway3: every node other than the source is > 0)  OR
                                                (DiagZero: some node whose cube-diagonal neighbour is the source carries 0)
        ZK a b c tt                             node (a,b,c) carries 0 (and wf, shape, >= 0): preserved by every update
     2. node_value_facts, sweep_inv3, sweep_zk  one node update;  3. pass3T_inv3/_zk, sweep3d_inv3/_zk  one pass, one sweep
     4. init_posinv, init_zero_at_src           initial state: Big > 0, corner values vzero * distance > 0 off the source
     5. fteik3d_zero_dichotomy                  MAIN: either 0 occurs only at a node coinciding with the source, or one of the
                                                (at most 8) nodes (i,j,k) with (i-a, j-b, k-c) = source, a, b, c = +-1, carries 0
        fteik3d_zero_only_at_source_partial     the clause under the hypothesis "no such node carries 0" (a condition on the
                                                returned grid: at most 8 entries to inspect)
        fteik3d_zero_only_at_source_iff_diag    that hypothesis is also necessary: it is the weakest possible
        fteik3d_pos_off_node                    source not on a grid node (a condition on the inputs): every traveltime > 0
        fteik3d_zero_at_source                  converse, unconditional: a node coinciding with the source carries 0
        fteik3d_zero_iff_source_partial, fteik3d_at_most_one_zero_partial
     6. non-vacuity: fteik3d_pos_off_node_ex, fteik3d_zero_at_source_ex (over R); Binary64.one_zero_centre, one_zero_corner,
        no_zero_off_node (2 x 2 x 2 cells, eight different slownesses, generated solver run by vm_compute). *)
From Coq Require Import ZArith List Bool Lia Reals Lra Psatz.
From Coq Require Floats.PrimFloat.
From FT.lib Require Import Num Arr ArrLemmas.
From FT.gen Require Import Fteik3d.
From FT.proofs Require OperatorsR Sweep2dProofs Solve2dProofs Pos2d.
From FT.proofs Require Import NonNeg2d Sweep3dProofs Solve3dProofs SweepDargs NonNeg3d.
Import ListNotations.
Open Scope R_scope.

(* ------------------------------------------------------------------------------------------ *)
(* 0. real arithmetic                                                                           *)
(* ------------------------------------------------------------------------------------------ *)
Lemma Big3_pos : 0 < (Big : R).
Proof. unfold Big. cbn [nofZ NumR]. lra. Qed.

Lemma pymin2_Rmin (a b : R) : pymin2 a b = Rmin a b.
Proof.
  unfold pymin2, Rmin. cbn [nltb NumR].
  destruct (Rltb b a) eqn:E; destruct (Rle_dec a b) as [L|L];
    first [apply Rltb_true in E | apply Rltb_false in E]; lra.
Qed.
Lemma pymax2_Rmax (a b : R) : pymax2 a b = Rmax a b.
Proof.
  unfold pymax2, Rmax. cbn [nltb NumR].
  destruct (Rltb a b) eqn:E; destruct (Rle_dec a b) as [L|L];
    first [apply Rltb_true in E | apply Rltb_false in E]; lra.
Qed.
Lemma pymin3_Rmin (a b c : R) : pymin3 a b c = Rmin (Rmin a b) c.
Proof. unfold pymin3. rewrite !pymin2_Rmin. reflexivity. Qed.
Lemma pymin4_Rmin (a b c d : R) : pymin4 a b c d = Rmin (Rmin (Rmin a b) c) d.
Proof. unfold pymin4. rewrite pymin2_Rmin, pymin3_Rmin. reflexivity. Qed.
Lemma pymax3_Rmax (a b c : R) : pymax3 a b c = Rmax (Rmax a b) c.
Proof. unfold pymax3. rewrite !pymax2_Rmax. reflexivity. Qed.

Ltac rminmax := unfold Rmin, Rmax in *; repeat destruct (Rle_dec _ _); try lra.

Lemma pymin4_gt (m a b c d : R) : m < a -> m < b -> m < c -> m < d -> m < pymin4 a b c d.
Proof. intros. rewrite pymin4_Rmin. rminmax. Qed.
(* a node already at time 0 stays there *)
Lemma pymin4_zero (t0 a b c : R) : t0 = 0 -> 0 <= a -> 0 <= b -> 0 <= c -> pymin4 t0 a b c = 0.
Proof. intros -> Ha Hb Hc. rewrite pymin4_Rmin. rminmax. Qed.
(* all candidates >= m and one of the first three equal to m *)
Lemma pymin4_eq_bound (m a b c d : R) :
  m <= a -> m <= b -> m <= c -> m <= d -> (a = m \/ b = m \/ c = m \/ d = m) -> pymin4 a b c d = m.
Proof. intros Ha Hb Hc Hd He. rewrite pymin4_Rmin. destruct He as [E|[E|[E|E]]]; rminmax. Qed.

Lemma big_or_gt_pos (x d : R) : 0 <= d -> x = Big \/ d < x -> 0 < x.
Proof. intros Hd [-> | Hx]; [apply Big3_pos | lra]. Qed.

Lemma big_or_gt_ge (x d m : R) : m <= 100000 -> m <= d -> x = Big \/ d < x -> m <= x.
Proof. intros Hb Hd [-> | Hx]; [unfold Big; cbn [nofZ NumR]; exact Hb | lra]. Qed.

(* ------------------------------------------------------------------------------------------ *)
(* 1. the three plane operators, strict form                                                    *)
(* ------------------------------------------------------------------------------------------ *)
(* under its admissibility test and a positive slowness each plane operator is the 2D 4-point operator, whose value is
   strictly later than the face-diagonal neighbour (Pos2d.four_point_gt_tev) *)
Lemma t2d_zx_adm (tv te tev vref dz dx : R) :
  0 < dz -> 0 < dx -> 0 < vref -> tv < te + dx * vref -> te < tv + dz * vref ->
  tev < c_t2d_zx tv te tev vref dz dx (1 / dz / dz) (1 / dx / dx).
Proof.
  intros Hdz Hdx Hv H1 H2. unfold c_t2d_zx. rewrite plane_zx_four_point. numR.
  rewrite (proj2 (Rltb_true tv (te + dx * vref)) H1), (proj2 (Rltb_true te (tv + dz * vref)) H2). cbn [andb].
  apply Pos2d.four_point_gt_tev; lra.
Qed.
Lemma t2d_zy_adm (tv tn tnv vref dz dy : R) :
  0 < dz -> 0 < dy -> 0 < vref -> tv < tn + dy * vref -> tn < tv + dz * vref ->
  tnv < c_t2d_zy tv tn tnv vref dz dy (1 / dz / dz) (1 / dy / dy).
Proof.
  intros Hdz Hdy Hv H1 H2. unfold c_t2d_zy. rewrite plane_op_four_point. numR.
  rewrite (proj2 (Rltb_true tv (tn + dy * vref)) H1), (proj2 (Rltb_true tn (tv + dz * vref)) H2). cbn [andb].
  apply Pos2d.four_point_gt_tev; lra.
Qed.
Lemma t2d_xy_adm (te tn ten vref dx dy : R) :
  0 < dx -> 0 < dy -> 0 < vref -> te < tn + dy * vref -> tn < te + dx * vref ->
  ten < c_t2d_xy te tn ten vref dx dy (1 / dx / dx) (1 / dy / dy).
Proof.
  intros Hdx Hdy Hv H1 H2. unfold c_t2d_xy. rewrite plane_op_four_point. numR.
  rewrite (proj2 (Rltb_true te (tn + dy * vref)) H1), (proj2 (Rltb_true tn (te + dx * vref)) H2). cbn [andb].
  apply Pos2d.four_point_gt_tev; lra.
Qed.

(* a failed test gives the placeholder *)
Lemma t2d_zx_inadm (tv te tev vref dz dx dz2i dx2i : R) :
  te + dx * vref <= tv \/ tv + dz * vref <= te -> c_t2d_zx tv te tev vref dz dx dz2i dx2i = Big.
Proof.
  intros H. unfold c_t2d_zx. numR. destruct H as [H|H].
  - rewrite (proj2 (Rltb_false tv (te + dx * vref)) H). reflexivity.
  - rewrite (proj2 (Rltb_false te (tv + dz * vref)) H), andb_false_r. reflexivity.
Qed.
Lemma t2d_zy_inadm (tv tn tnv vref dz dy dz2i dy2i : R) :
  tn + dy * vref <= tv \/ tv + dz * vref <= tn -> c_t2d_zy tv tn tnv vref dz dy dz2i dy2i = Big.
Proof.
  intros H. unfold c_t2d_zy. numR. destruct H as [H|H].
  - rewrite (proj2 (Rltb_false tv (tn + dy * vref)) H). reflexivity.
  - rewrite (proj2 (Rltb_false tn (tv + dz * vref)) H), andb_false_r. reflexivity.
Qed.
Lemma t2d_xy_inadm (te tn ten vref dx dy dx2i dy2i : R) :
  tn + dy * vref <= te \/ te + dx * vref <= tn -> c_t2d_xy te tn ten vref dx dy dx2i dy2i = Big.
Proof.
  intros H. unfold c_t2d_xy. numR. destruct H as [H|H].
  - rewrite (proj2 (Rltb_false te (tn + dy * vref)) H). reflexivity.
  - rewrite (proj2 (Rltb_false tn (te + dx * vref)) H), andb_false_r. reflexivity.
Qed.

Lemma t2d_zx_gt (tv te tev vref dz dx : R) :
  0 < dz -> 0 < dx -> 0 < vref ->
  c_t2d_zx tv te tev vref dz dx (1 / dz / dz) (1 / dx / dx) = Big \/
  tev < c_t2d_zx tv te tev vref dz dx (1 / dz / dz) (1 / dx / dx).
Proof.
  intros Hdz Hdx Hv.
  destruct (Rlt_dec tv (te + dx * vref)) as [H1|H1]; [destruct (Rlt_dec te (tv + dz * vref)) as [H2|H2]|].
  - right. apply t2d_zx_adm; assumption.
  - left. apply t2d_zx_inadm. right. lra.
  - left. apply t2d_zx_inadm. left. lra.
Qed.
Lemma t2d_zy_gt (tv tn tnv vref dz dy : R) :
  0 < dz -> 0 < dy -> 0 < vref ->
  c_t2d_zy tv tn tnv vref dz dy (1 / dz / dz) (1 / dy / dy) = Big \/
  tnv < c_t2d_zy tv tn tnv vref dz dy (1 / dz / dz) (1 / dy / dy).
Proof.
  intros Hdz Hdy Hv.
  destruct (Rlt_dec tv (tn + dy * vref)) as [H1|H1]; [destruct (Rlt_dec tn (tv + dz * vref)) as [H2|H2]|].
  - right. apply t2d_zy_adm; assumption.
  - left. apply t2d_zy_inadm. right. lra.
  - left. apply t2d_zy_inadm. left. lra.
Qed.
Lemma t2d_xy_gt (te tn ten vref dx dy : R) :
  0 < dx -> 0 < dy -> 0 < vref ->
  c_t2d_xy te tn ten vref dx dy (1 / dx / dx) (1 / dy / dy) = Big \/
  ten < c_t2d_xy te tn ten vref dx dy (1 / dx / dx) (1 / dy / dy).
Proof.
  intros Hdx Hdy Hv.
  destruct (Rlt_dec te (tn + dy * vref)) as [H1|H1]; [destruct (Rlt_dec tn (te + dx * vref)) as [H2|H2]|].
  - right. apply t2d_xy_adm; assumption.
  - left. apply t2d_xy_inadm. right. lra.
  - left. apply t2d_xy_inadm. left. lra.
Qed.

(* the guarded 8-point candidate is the placeholder or at least the cube-diagonal neighbour's time *)
Lemma t3d_big_or_ge (tt slow : arr R) (dz dx dy dz2i dx2i dy2i dzxi dzyi dxyi dsum : R)
      i j k sgnvz sgnvx sgnvy sgntz sgntx sgnty nz nx ny :
  c_t3d true tt slow dz dx dy dz2i dx2i dy2i dzxi dzyi dxyi dsum i j k sgnvz sgnvx sgnvy sgntz sgntx sgnty nz nx ny = Big \/
  nb_nve tt i j k sgntz sgntx sgnty
  <= c_t3d true tt slow dz dx dy dz2i dx2i dy2i dzxi dzyi dxyi dsum i j k sgnvz sgnvx sgnvy sgntz sgntx sgnty nz nx ny.
Proof.
  unfold c_t3d. cbv zeta.
  destruct (ngtb _ _); [|left; reflexivity]. destruct (ngeb _ _); [|left; reflexivity].
  unfold guard3. numR.
  match goal with |- (if Rltb ?v ?d then _ else _) = _ \/ _ => destruct (Rltb v d) eqn:E end; [left; reflexivity|].
  right. apply Rltb_false in E. exact E.
Qed.

(* ------------------------------------------------------------------------------------------ *)
(* 2. one node update: sign of the value written                                                *)
(* ------------------------------------------------------------------------------------------ *)
(* every cell of a model with nz x nx x ny nodes has positive slowness *)
Definition SlowPos3 (nz nx ny : Z) (slow : arr R) : Prop :=
  forall p q r, (0 <= p < nz - 1)%Z -> (0 <= q < nx - 1)%Z -> (0 <= r < ny - 1)%Z -> 0 < get 0 slow [p; q; r].

Lemma SlowPos3_nonneg nz nx ny slow :
  wf slow -> shape slow = [(nz - 1)%Z; (nx - 1)%Z; (ny - 1)%Z] -> SlowPos3 nz nx ny slow -> nonneg slow.
Proof.
  intros W Sh Sp. apply (nonneg_iff_get3 slow _ _ _ W Sh). intros i j k Hi Hj Hk. left. apply Sp; assumption.
Qed.

Section Node.
Variables (tt slow : arr R) (dz dx dy : R) (i j k sgnvz sgnvx sgnvy sgntz sgntx sgnty nz nx ny : Z).
Hypotheses (Hdz : 0 < dz) (Hdx : 0 < dx) (Hdy : 0 < dy) (Hs : SlowPos3 nz nx ny slow) (Nn : nonneg tt).
Hypotheses (Hi : (0 <= i < nz)%Z) (Hj : (0 <= j < nx)%Z) (Hk : (0 <= k < ny)%Z).
Hypotheses (Hiv : (0 <= i - sgnvz < nz - 1)%Z) (Hjv : (0 <= j - sgnvx < nx - 1)%Z) (Hkv : (0 <= k - sgnvy < ny - 1)%Z).

Lemma t1d_pos3 : 0 < c_t1d tt slow dz dx dy i j k sgnvz sgnvx sgnvy sgntz sgntx sgnty nz nx ny.
Proof.
  unfold c_t1d, edge_s_z, edge_s_x, edge_s_y, nb_v, nb_e, nb_n. numR.
  apply pymin3_gt;
    match goal with |- 0 < ?a + ?d * ?m =>
      assert (0 <= a) by (apply get_nonneg, Nn);
      assert (0 < m) by (apply pymin4_gt; apply Hs; lia); nra end.
Qed.

Lemma face_zx_pos : 0 < face_s_zx slow i j k sgnvz sgnvx ny.
Proof. unfold face_s_zx. numR. apply pymin2_gt; apply Hs; lia. Qed.
Lemma face_zy_pos : 0 < face_s_zy slow i j k sgnvz sgnvy nx.
Proof. unfold face_s_zy. numR. apply pymin2_gt; apply Hs; lia. Qed.
Lemma face_xy_pos : 0 < face_s_xy slow i j k sgnvx sgnvy nz.
Proof. unfold face_s_xy. numR. apply pymin2_gt; apply Hs; lia. Qed.

Lemma t2d_pos3 :
  0 < c_t2d tt slow dz dx dy (1 / dz / dz) (1 / dx / dx) (1 / dy / dy) i j k sgnvz sgnvx sgnvy sgntz sgntx sgnty nz nx ny.
Proof.
  unfold c_t2d. cbv zeta. apply pymin3_gt.
  - apply (big_or_gt_pos _ (nb_ev tt i j k sgntz sgntx)); [apply (get_nonneg tt), Nn | apply t2d_zx_gt; try assumption; apply face_zx_pos].
  - apply (big_or_gt_pos _ (nb_nv tt i j k sgntz sgnty)); [apply (get_nonneg tt), Nn | apply t2d_zy_gt; try assumption; apply face_zy_pos].
  - apply (big_or_gt_pos _ (nb_en tt i j k sgntx sgnty)); [apply (get_nonneg tt), Nn | apply t2d_xy_gt; try assumption; apply face_xy_pos].
Qed.

Hypotheses (Ws : wf slow) (Ss : shape slow = [(nz - 1)%Z; (nx - 1)%Z; (ny - 1)%Z]).

(* the value written: >= 0; 0 when the node already carries 0; > 0 when the node and its cube-diagonal neighbour carry
   positive times (every candidate other than the 8-point one is > 0 anyway) *)
Lemma node_value_facts :
  let w := node_value_sp true tt slow dz dx dy i j k sgnvz sgnvx sgnvy sgntz sgntx sgnty nz nx ny in
  0 <= w /\ (get 0 tt [i; j; k] = 0 -> w = 0) /\
  (0 < get 0 tt [i; j; k] -> 0 < nb_nve tt i j k sgntz sgntx sgnty -> 0 < w).
Proof.
  pose proof (SlowPos3_nonneg _ _ _ _ Ws Ss Hs) as Ns.
  cbv zeta. split; [apply node_value_nonneg; assumption|]. split.
  - intros E0. unfold node_value_sp, node_value. cbv zeta. apply pymin4_zero.
    + exact E0.
    + apply t1d_nonneg_3d; assumption.
    + apply t2d_nonneg_3d; assumption.
    + apply t3d_guarded_nonneg; assumption.
  - intros H0 Hd. unfold node_value_sp, node_value. cbv zeta. apply pymin4_gt.
    + exact H0.
    + apply t1d_pos3.
    + apply t2d_pos3.
    + match goal with |- 0 < ?c => destruct (t3d_big_or_ge tt slow dz dx dy (1 / dz / dz) (1 / dx / dx) (1 / dy / dy)
         (1 / dz / dz * (1 / dx / dx)) (1 / dz / dz * (1 / dy / dy)) (1 / dx / dx * (1 / dy / dy))
         (1 / dz / dz + 1 / dx / dx + 1 / dy / dy) i j k sgnvz sgnvx sgnvy sgntz sgntx sgnty nz nx ny) as [E|E] end.
      * numR. rewrite E. apply Big3_pos.
      * numR. lra.
Qed.
End Node.

(* ------------------------------------------------------------------------------------------ *)
(* 3. the invariant                                                                             *)
(* ------------------------------------------------------------------------------------------ *)
Definition pm1 (a : Z) : Prop := a = 1%Z \/ a = (-1)%Z.

Lemma inb3_in {A} (a : arr A) n0 n1 n2 i j k :
  shape a = [n0; n1; n2] -> (0 <= i < n0)%Z -> (0 <= j < n1)%Z -> (0 <= k < n2)%Z -> inb a [i; j; k] = true.
Proof.
  intros E Hi Hj Hk. unfold inb. rewrite E. cbn [inb_sh].
  rewrite !andb_true_iff, !Z.leb_le, !Z.ltb_lt. lia.
Qed.

Section Inv.
Variables (nz nx ny : Z) (zsa xsa ysa : R).

(* node (i,j,k) coincides with the source (zsa, xsa, ysa are the source coordinates in grid units) *)
Definition AtSrc (i j k : Z) : Prop := IZR i = zsa /\ IZR j = xsa /\ IZR k = ysa.
Definition InR (i j k : Z) : Prop := (0 <= i < nz)%Z /\ (0 <= j < nx)%Z /\ (0 <= k < ny)%Z.
(* every node other than the source carries a positive time *)
Definition PosAway3 (tt : arr R) : Prop := forall i j k, InR i j k -> ~ AtSrc i j k -> 0 < get 0 tt [i; j; k].
(* a node whose cube-diagonal neighbour (i-a, j-b, k-c), a, b, c = +-1, is the source carries the time 0 *)
Definition DiagZero (tt : arr R) : Prop :=
  exists i j k a b c, InR i j k /\ pm1 a /\ pm1 b /\ pm1 c /\ AtSrc (i - a) (j - b) (k - c) /\ get 0 tt [i; j; k] = 0.
Definition Base3 (tt : arr R) : Prop := wf tt /\ shape tt = [nz; nx; ny] /\ nonneg tt.
Definition PosInv (tt : arr R) : Prop := Base3 tt /\ PosAway3 tt.
Definition Inv3 (tt : arr R) : Prop := Base3 tt /\ (PosAway3 tt \/ DiagZero tt).
(* node (a,b,c) carries the time 0 *)
Definition ZK (a b c : Z) (tt : arr R) : Prop := Base3 tt /\ get 0 tt [a; b; c] = 0.

Lemma AtSrc_dec i j k : AtSrc i j k \/ ~ AtSrc i j k.
Proof.
  unfold AtSrc. destruct (Req_dec (IZR i) zsa), (Req_dec (IZR j) xsa), (Req_dec (IZR k) ysa); tauto.
Qed.

Lemma Base3_set tt idx w : Base3 tt -> 0 <= w -> Base3 (set tt idx w).
Proof. intros (W & S & N) Hw. split; [apply wf_set, W|]. split; [exact S | apply nonneg_set; assumption]. Qed.

Lemma get_set3 tt i j k p q r w :
  Base3 tt -> InR i j k -> InR p q r ->
  get 0 (set tt [i; j; k] w) [p; q; r] = if list_eq_dec_Z [i; j; k] [p; q; r] then w else get 0 tt [p; q; r].
Proof.
  intros (W & S & _) (Hi & Hj & Hk) (Hp & Hq & Hr).
  destruct (list_eq_dec_Z [i; j; k] [p; q; r]) as [E|N].
  - injection E as <- <- <-. apply get_set_same; [exact W | apply (inb3_in tt nz nx ny); assumption].
  - apply get_set_other; [apply (inb3_in tt nz nx ny); assumption | apply (inb3_in tt nz nx ny); assumption | exact N].
Qed.

Lemma PosInv_set tt i j k w :
  PosInv tt -> InR i j k -> 0 <= w -> (~ AtSrc i j k -> 0 < w) -> PosInv (set tt [i; j; k] w).
Proof.
  intros [Hb Pa] Hin Hw Hp. split; [apply Base3_set; assumption|].
  intros p q r Hr Hn. rewrite get_set3 by assumption.
  destruct (list_eq_dec_Z [i; j; k] [p; q; r]) as [E|N]; [injection E as <- <- <-; auto | apply Pa; assumption].
Qed.

Lemma ZK_set a b c tt i j k w :
  ZK a b c tt -> InR a b c -> InR i j k -> 0 <= w -> (get 0 tt [i; j; k] = 0 -> w = 0) -> ZK a b c (set tt [i; j; k] w).
Proof.
  intros [Hb Hz] Ha Hin Hw H0. split; [apply Base3_set; assumption|].
  rewrite get_set3 by assumption.
  destruct (list_eq_dec_Z [i; j; k] [a; b; c]) as [E|N]; [injection E as <- <- <-; auto | exact Hz].
Qed.

Lemma Inv3_set tt i j k w :
  Inv3 tt -> InR i j k -> 0 <= w -> (get 0 tt [i; j; k] = 0 -> w = 0) ->
  (PosAway3 tt -> ~ AtSrc i j k ->
   0 < w \/ (w = 0 /\ exists a b c, pm1 a /\ pm1 b /\ pm1 c /\ AtSrc (i - a) (j - b) (k - c))) ->
  Inv3 (set tt [i; j; k] w).
Proof.
  intros [Hb Hd] Hin Hw H0 Hp. split; [apply Base3_set; assumption|].
  destruct Hd as [Pa | (p & q & r & a & b & c & Hr & Ha & Hb' & Hc & Hsrc & Hz)].
  - destruct (AtSrc_dec i j k) as [Hs|Hn].
    + left. intros p q r Hr Hnp. rewrite get_set3 by assumption.
      destruct (list_eq_dec_Z [i; j; k] [p; q; r]) as [E|N]; [injection E as <- <- <-; contradiction | apply Pa; assumption].
    + destruct (Hp Pa Hn) as [Hpos | [E0 (a & b & c & Ha & Hb' & Hc & Hsrc)]].
      * left. intros p q r Hr Hnp. rewrite get_set3 by assumption.
        destruct (list_eq_dec_Z [i; j; k] [p; q; r]) as [E|N]; [exact Hpos | apply Pa; assumption].
      * right. exists i, j, k, a, b, c. repeat (split; [assumption|]).
        rewrite get_set3 by assumption.
        destruct (list_eq_dec_Z [i; j; k] [i; j; k]) as [E|N]; [exact E0 | exfalso; apply N; reflexivity].
  - right. exists p, q, r, a, b, c. repeat (split; [assumption|]).
    rewrite get_set3 by assumption.
    destruct (list_eq_dec_Z [i; j; k] [p; q; r]) as [E|N]; [injection E as <- <- <-; auto | exact Hz].
Qed.

Lemma PosInv_full : (0 <= nz)%Z -> (0 <= nx)%Z -> (0 <= ny)%Z -> PosInv (full [nz; nx; ny] Big).
Proof.
  intros Hz Hx Hy. split.
  - split; [apply wf_full; repeat constructor; assumption|]. split; [reflexivity | apply nonneg_full, Big3_nonneg].
  - intros i j k (Hi & Hj & Hk) _. rewrite get_full; [apply Big3_pos|].
    cbn [inb_sh]. rewrite !andb_true_iff, !Z.leb_le, !Z.ltb_lt. lia.
Qed.

(* ---------- one node update ---------- *)
Section Upd.
Variables (slow : arr R) (dz dx dy : R).
Hypotheses (Hdz : 0 < dz) (Hdx : 0 < dx) (Hdy : 0 < dy).
Hypotheses (Ws : wf slow) (Ss : shape slow = [(nz - 1)%Z; (nx - 1)%Z; (ny - 1)%Z]) (Hs : SlowPos3 nz nx ny slow).

Lemma sweep_inv3 tt ttsgn i j k sgnvz sgnvx sgnvy sgntz sgntx sgnty grad :
  Inv3 tt -> InR i j k ->
  (0 <= i - sgnvz < nz - 1)%Z -> (0 <= j - sgnvx < nx - 1)%Z -> (0 <= k - sgnvy < ny - 1)%Z ->
  InR (i - sgntz) (j - sgntx) (k - sgnty) -> pm1 sgntz -> pm1 sgntx -> pm1 sgnty ->
  Inv3 (fst (sweep tt ttsgn slow (dargs3 dz dx dy) i j k sgnvz sgnvx sgnvy sgntz sgntx sgnty nz nx ny grad)).
Proof.
  intros Ht Hin Hiv Hjv Hkv Hd Pz Px Py. rewrite sweep_dargs3_eq.
  pose proof Ht as [(W & S & Nn) _]. destruct Hin as (Hi & Hj & Hk).
  destruct (node_value_facts tt slow dz dx dy i j k sgnvz sgnvx sgnvy sgntz sgntx sgnty nz nx ny
              Hdz Hdx Hdy Hs Nn Hi Hj Hk Hiv Hjv Hkv Ws Ss) as (F0 & Fz & Fp).
  apply Inv3_set; [exact Ht | split; [|split]; assumption | exact F0 | exact Fz |].
  intros Pa Hn.
  destruct (AtSrc_dec (i - sgntz) (j - sgntx) (k - sgnty)) as [Hsrc|Hns].
  - match goal with |- 0 < ?w \/ _ => destruct (Req_dec w 0) as [E|E] end.
    + right. split; [exact E|]. exists sgntz, sgntx, sgnty. auto.
    + left. lra.
  - left. apply Fp; [apply Pa; [split; [|split]; assumption | exact Hn] | unfold nb_nve; apply Pa; assumption].
Qed.

Lemma sweep_zk a b c tt ttsgn i j k sgnvz sgnvx sgnvy sgntz sgntx sgnty grad :
  ZK a b c tt -> InR a b c -> InR i j k ->
  (0 <= i - sgnvz < nz - 1)%Z -> (0 <= j - sgnvx < nx - 1)%Z -> (0 <= k - sgnvy < ny - 1)%Z ->
  ZK a b c (fst (sweep tt ttsgn slow (dargs3 dz dx dy) i j k sgnvz sgnvx sgnvy sgntz sgntx sgnty nz nx ny grad)).
Proof.
  intros Ht Ha Hin Hiv Hjv Hkv. rewrite sweep_dargs3_eq.
  pose proof Ht as [(W & S & Nn) _]. pose proof Hin as (Hi & Hj & Hk).
  destruct (node_value_facts tt slow dz dx dy i j k sgnvz sgnvx sgnvy sgntz sgntx sgnty nz nx ny
              Hdz Hdx Hdy Hs Nn Hi Hj Hk Hiv Hjv Hkv Ws Ss) as (F0 & Fz & _).
  apply ZK_set; assumption.
Qed.

(* ---------- one pass, one sweep ---------- *)
Ltac pass_ranges uz ux uy :=
  repeat match goal with H : In _ (dir_range _ _) |- _ => apply Sweep2dProofs.in_dir_range in H end;
  destruct uz, ux, uy; cbn [Sweep2dProofs.sgnv Sweep2dProofs.sgnt Sweep2dProofs.dir_ok] in *;
  unfold InR, pm1 in *; first [lia | tauto | auto].

Lemma pass3T_inv3 uz ux uy tt :
  Inv3 tt -> Inv3 (pass3T nz nx ny slow (dargs3 dz dx dy) uz ux uy tt).
Proof.
  intros Ht. unfold pass3T.
  apply (for_list_inv Inv3); [exact Ht|]. intros k t1 Hk H1.
  apply (for_list_inv Inv3); [exact H1|]. intros j t2 Hj H2.
  apply (for_list_inv Inv3); [exact H2|]. intros i t3 Hi H3.
  unfold swT. apply sweep_inv3; [exact H3 | ..]; pass_ranges uz ux uy.
Qed.

Lemma pass3T_zk a b c uz ux uy tt :
  InR a b c -> ZK a b c tt -> ZK a b c (pass3T nz nx ny slow (dargs3 dz dx dy) uz ux uy tt).
Proof.
  intros Ha Ht. unfold pass3T.
  apply (for_list_inv (ZK a b c)); [exact Ht|]. intros k t1 Hk H1.
  apply (for_list_inv (ZK a b c)); [exact H1|]. intros j t2 Hj H2.
  apply (for_list_inv (ZK a b c)); [exact H2|]. intros i t3 Hi H3.
  unfold swT. apply sweep_zk; [exact H3 | exact Ha | ..]; pass_ranges uz ux uy.
Qed.

Lemma sweep3d_inv3 tt ttsgn grad :
  Inv3 tt -> Inv3 (fst (sweep3d tt ttsgn slow dz dx dy nz nx ny grad)).
Proof.
  intros Ht. rewrite sweep3d_proj_dargs3. unfold sweep3dT. cbv zeta. repeat apply pass3T_inv3. exact Ht.
Qed.
Lemma sweep3d_zk a b c tt ttsgn grad :
  InR a b c -> ZK a b c tt -> ZK a b c (fst (sweep3d tt ttsgn slow dz dx dy nz nx ny grad)).
Proof.
  intros Ha Ht. rewrite sweep3d_proj_dargs3. unfold sweep3dT. cbv zeta. repeat (apply pass3T_zk; [exact Ha|]). exact Ht.
Qed.
End Upd.
End Inv.

(* ------------------------------------------------------------------------------------------ *)
(* 4. the initial state                                                                         *)
(* ------------------------------------------------------------------------------------------ *)
Lemma t_ana_pos3 i j k (dz dx dy zsa xsa ysa v : R) :
  0 < dz -> 0 < dx -> 0 < dy -> 0 < v -> ~ AtSrc zsa xsa ysa i j k -> 0 < t_ana i j k dz dx dy zsa xsa ysa v.
Proof.
  intros Hdz Hdx Hdy Hv Hn. rewrite t_ana_exact. apply Rmult_lt_0_compat; [exact Hv|]. apply sqrt_lt_R0.
  set (a := dz * (IZR i - zsa)). set (b := dx * (IZR j - xsa)). set (c := dy * (IZR k - ysa)).
  replace (a ^ 2 + b ^ 2 + c ^ 2) with (a * a + b * b + c * c) by ring.
  assert (Ha : 0 <= a * a) by nra. assert (Hb : 0 <= b * b) by nra. assert (Hc : 0 <= c * c) by nra.
  assert (Hne : IZR i <> zsa \/ IZR j <> xsa \/ IZR k <> ysa).
  { unfold AtSrc in Hn. destruct (Req_dec (IZR i) zsa), (Req_dec (IZR j) xsa), (Req_dec (IZR k) ysa); tauto. }
  destruct Hne as [N|[N|N]].
  - assert (a <> 0) by (unfold a; apply Rmult_integral_contrapositive_currified; lra).
    destruct (Rtotal_order a 0) as [L|[L|L]]; [nra | contradiction | nra].
  - assert (b <> 0) by (unfold b; apply Rmult_integral_contrapositive_currified; lra).
    destruct (Rtotal_order b 0) as [L|[L|L]]; [nra | contradiction | nra].
  - assert (c <> 0) by (unfold c; apply Rmult_integral_contrapositive_currified; lra).
    destruct (Rtotal_order c 0) as [L|[L|L]]; [nra | contradiction | nra].
Qed.

Lemma t_ana_at_src i j k (dz dx dy zsa xsa ysa v : R) :
  AtSrc zsa xsa ysa i j k -> t_ana i j k dz dx dy zsa xsa ysa v = 0.
Proof.
  intros (Ez & Ex & Ey). rewrite t_ana_exact, Ez, Ex, Ey.
  replace ((dz * (zsa - zsa)) ^ 2 + (dx * (xsa - xsa)) ^ 2 + (dy * (ysa - ysa)) ^ 2) with 0 by ring.
  rewrite sqrt_0. ring.
Qed.

(* ------------------------------------------------------------------------------------------ *)
(* 5. the solver                                                                                *)
(* ------------------------------------------------------------------------------------------ *)
Section Solver.
Variables (slow : arr R) (dz dx dy zsrc xsrc ysrc : R).
Notation zsa := (zsrc / dz).
Notation xsa := (xsrc / dx).
Notation ysa := (ysrc / dy).
Notation NZ := (dim slow 0 + 1)%Z.
Notation NX := (dim slow 1 + 1)%Z.
Notation NY := (dim slow 2 + 1)%Z.
Notation zsi := (zsi3 slow dz zsrc).
Notation xsi := (xsi3 slow dx xsrc).
Notation ysi := (ysi3 slow dy ysrc).
Notation vz := (vzero3 slow dz dx dy zsrc xsrc ysrc).
Notation tt0 := (tt0_3d slow dz dx dy zsrc xsrc ysrc).

Hypotheses (Hdz : 0 < dz) (Hdx : 0 < dx) (Hdy : 0 < dy).
Hypotheses (Hnz : (1 <= dim slow 0)%Z) (Hnx : (1 <= dim slow 1)%Z) (Hny : (1 <= dim slow 2)%Z).
Hypothesis (Hin : inside3d slow dz dx dy zsrc xsrc ysrc = true).

Lemma inside_coords3 :
  0 <= zsa <= IZR (dim slow 0) /\ 0 <= xsa <= IZR (dim slow 1) /\ 0 <= ysa <= IZR (dim slow 2).
Proof.
  unfold inside3d in Hin. cbv zeta in Hin. cbn [nleb nmul nofZ NumR] in Hin.
  rewrite !andb_true_iff, !Rleb_true in Hin. destruct Hin as [[[A1 A2] [B1 B2]] [C1 C2]].
  assert (Ez : zsrc / dz * dz = zsrc) by (field; lra).
  assert (Ex : xsrc / dx * dx = xsrc) by (field; lra).
  assert (Ey : ysrc / dy * dy = ysrc) by (field; lra).
  repeat split; nra.
Qed.

(* the source cell is a cell of the model and contains the source *)
Lemma source_cell3 :
  ((0 <= zsi <= dim slow 0 - 1)%Z /\ IZR zsi <= zsa <= IZR zsi + 1) /\
  ((0 <= xsi <= dim slow 1 - 1)%Z /\ IZR xsi <= xsa <= IZR xsi + 1) /\
  ((0 <= ysi <= dim slow 2 - 1)%Z /\ IZR ysi <= ysa <= IZR ysi + 1).
Proof.
  destruct inside_coords3 as (Cz & Cx & Cy).
  split; [exact (Pos2d.src_cell _ _ Hnz Cz) | split; [exact (Pos2d.src_cell _ _ Hnx Cx) | exact (Pos2d.src_cell _ _ Hny Cy)]].
Qed.

(* a node coinciding with the source is a corner of the source cell *)
Lemma src_is_corner i j k :
  InR NZ NX NY i j k -> AtSrc zsa xsa ysa i j k ->
  (i = zsi \/ i = (zsi + 1)%Z) /\ (j = xsi \/ j = (xsi + 1)%Z) /\ (k = ysi \/ k = (ysi + 1)%Z).
Proof.
  intros (Hi & Hj & Hk) (Ez & Ex & Ey).
  destruct source_cell3 as ((Sz & Bz) & (Sx & Bx) & (Sy & By)).
  rewrite <- Ez in Bz. rewrite <- Ex in Bx. rewrite <- Ey in By.
  assert (A1 : IZR (zsi - 1) < IZR i) by (rewrite minus_IZR; lra).
  assert (A2 : IZR i < IZR (zsi + 2)) by (rewrite plus_IZR; lra).
  assert (B1 : IZR (xsi - 1) < IZR j) by (rewrite minus_IZR; lra).
  assert (B2 : IZR j < IZR (xsi + 2)) by (rewrite plus_IZR; lra).
  assert (C1 : IZR (ysi - 1) < IZR k) by (rewrite minus_IZR; lra).
  assert (C2 : IZR k < IZR (ysi + 2)) by (rewrite plus_IZR; lra).
  apply lt_IZR in A1, A2, B1, B2, C1, C2. lia.
Qed.

Hypotheses (Hw : wf slow) (Hsh : shape slow = [dim slow 0; dim slow 1; dim slow 2]).
Hypothesis (Hpos : forall i j k, (0 <= i < dim slow 0)%Z -> (0 <= j < dim slow 1)%Z -> (0 <= k < dim slow 2)%Z ->
                                 0 < get 0 slow [i; j; k]).

Lemma slowpos3 : SlowPos3 NZ NX NY slow.
Proof. intros p q r Hp Hq Hr. apply Hpos; lia. Qed.
Lemma slow_shape3 : shape slow = [(NZ - 1)%Z; (NX - 1)%Z; (NY - 1)%Z].
Proof. rewrite Hsh at 1. f_equal; [|f_equal; [|f_equal]]; lia. Qed.

Lemma vzero3_pos : 0 < vz.
Proof. destruct source_cell3 as ((Sz & _) & (Sx & _) & (Sy & _)). unfold vzero3. apply Hpos; lia. Qed.

(* the state before the first sweep: Big everywhere except the 8 corners of the source cell, which hold
   vzero * distance to the source *)
Lemma init_posinv : PosInv NZ NX NY zsa xsa ysa tt0.
Proof.
  destruct source_cell3 as ((Sz & _) & (Sx & _) & (Sy & _)). pose proof vzero3_pos as Hv.
  unfold tt0_3d, corner3. cbv zeta.
  repeat (apply PosInv_set;
          [ | unfold InR; lia
            | rewrite t_anad_fst; apply t_ana_nonneg_3d; lra
            | intros Hn; rewrite t_anad_fst; apply t_ana_pos3; assumption ]).
  apply PosInv_full; lia.
Qed.

(* the value of a corner of the source cell in the initial state *)
Lemma corner3_get t i j k a b c :
  Base3 NZ NX NY t -> InR NZ NX NY i j k -> InR NZ NX NY a b c ->
  ([a; b; c] = [i; j; k] \/ get 0 t [a; b; c] = t_ana a b c dz dx dy zsa xsa ysa vz) ->
  get 0 (corner3 slow dz dx dy zsrc xsrc ysrc t i j k) [a; b; c] = t_ana a b c dz dx dy zsa xsa ysa vz.
Proof.
  intros Hb Hi Ha Hor. unfold corner3. rewrite (get_set3 NZ NX NY) by assumption. rewrite t_anad_fst.
  destruct (list_eq_dec_Z [i; j; k] [a; b; c]) as [E|N].
  - injection E as <- <- <-. reflexivity.
  - destruct Hor as [E|E]; [exfalso; apply N; symmetry; exact E | exact E].
Qed.
Lemma corner3_base t i j k : Base3 NZ NX NY t -> Base3 NZ NX NY (corner3 slow dz dx dy zsrc xsrc ysrc t i j k).
Proof.
  intros Hb. unfold corner3. apply Base3_set; [exact Hb|]. rewrite t_anad_fst. apply t_ana_nonneg_3d.
  pose proof vzero3_pos. lra.
Qed.

Lemma init_corner_value a b c :
  (a = zsi \/ a = (zsi + 1)%Z) -> (b = xsi \/ b = (xsi + 1)%Z) -> (c = ysi \/ c = (ysi + 1)%Z) ->
  get 0 tt0 [a; b; c] = t_ana a b c dz dx dy zsa xsa ysa vz.
Proof.
  intros Ha Hb Hc. destruct source_cell3 as ((Sz & _) & (Sx & _) & (Sy & _)).
  assert (B0 : Base3 NZ NX NY (full [NZ; NX; NY] Big)) by (apply (PosInv_full NZ NX NY zsa xsa ysa); lia).
  assert (Hr : InR NZ NX NY a b c) by (unfold InR; lia).
  unfold tt0_3d. cbv zeta.
  destruct Ha as [-> | ->], Hb as [-> | ->], Hc as [-> | ->];
    repeat first
      [ apply corner3_get;
        [ repeat apply corner3_base; exact B0 | unfold InR; lia | exact Hr
        | first [ left; reflexivity | right ] ] ].
Qed.

(* a node coinciding with the source carries 0 in the initial state *)
Lemma init_zero_at_src i j k :
  InR NZ NX NY i j k -> AtSrc zsa xsa ysa i j k -> ZK NZ NX NY i j k tt0.
Proof.
  intros Hr Hs. split; [apply init_posinv|].
  destruct (src_is_corner i j k Hr Hs) as (Ci & Cj & Ck).
  rewrite (init_corner_value i j k Ci Cj Ck). apply t_ana_at_src, Hs.
Qed.

(* one sweep, k sweeps *)
Lemma ptt3_inv3 grad t :
  Inv3 NZ NX NY zsa xsa ysa t -> Inv3 NZ NX NY zsa xsa ysa (ptt3 slow dz dx dy grad t).
Proof.
  intros Ht. unfold ptt3, pass3d. cbn [fst snd].
  apply sweep3d_inv3; try assumption; [apply slow_shape3 | apply slowpos3].
Qed.
Lemma ptt3_zk a b c grad t :
  InR NZ NX NY a b c -> ZK NZ NX NY a b c t -> ZK NZ NX NY a b c (ptt3 slow dz dx dy grad t).
Proof.
  intros Ha Ht. unfold ptt3, pass3d. cbn [fst snd].
  apply sweep3d_zk; try assumption; [apply slow_shape3 | apply slowpos3].
Qed.
Lemma iter_inv3 grad n : Inv3 NZ NX NY zsa xsa ysa (Nat.iter n (ptt3 slow dz dx dy grad) tt0).
Proof.
  induction n as [|n IH]; [destruct init_posinv as [B P]; split; [exact B | left; exact P]|].
  rewrite Solve2dProofs.iter_S. apply ptt3_inv3, IH.
Qed.
Lemma iter_zk a b c grad n t :
  InR NZ NX NY a b c -> ZK NZ NX NY a b c t -> ZK NZ NX NY a b c (Nat.iter n (ptt3 slow dz dx dy grad) t).
Proof.
  intros Ha Ht. induction n as [|n IH]; [exact Ht|]. rewrite Solve2dProofs.iter_S. apply ptt3_zk; assumption.
Qed.
End Solver.

(* ------------------------------------------------------------------------------------------ *)
(* 6. main statements (true for all inputs)                                                     *)
(* ------------------------------------------------------------------------------------------ *)
Section Main.
Variables (slow : arr R) (dz dx dy zsrc xsrc ysrc : R) (nsweep : Z) (grad : bool) (tt ttgrad : arr R) (vzero : R).
Hypotheses (Hdz : 0 < dz) (Hdx : 0 < dx) (Hdy : 0 < dy).
Hypotheses (Hw : wf slow) (Hnz : (1 <= dim slow 0)%Z) (Hnx : (1 <= dim slow 1)%Z) (Hny : (1 <= dim slow 2)%Z).
Hypothesis (Hsh : shape slow = [dim slow 0; dim slow 1; dim slow 2]).
Hypothesis (Hpos : forall i j k, (0 <= i < dim slow 0)%Z -> (0 <= j < dim slow 1)%Z -> (0 <= k < dim slow 2)%Z ->
                                 0 < get 0 slow [i; j; k]).
Hypothesis (E : fteik3d slow dz dx dy zsrc xsrc ysrc nsweep grad = Ok (tt, ttgrad, vzero)).

Lemma fteik3d_final_inv :
  Inv3 (dim slow 0 + 1) (dim slow 1 + 1) (dim slow 2 + 1) (zsrc / dz) (xsrc / dx) (ysrc / dy) tt.
Proof.
  apply fteik3d_ok_inv in E as (Hin & -> & _). apply iter_inv3; assumption.
Qed.

(* MAIN (all inputs): either the time 0 occurs only at a node coinciding with the source, or one of the (at most 8) nodes
   whose cube-diagonal neighbour is the source carries the time 0 *)
Theorem fteik3d_zero_dichotomy :
  (forall i j k, (0 <= i <= dim slow 0)%Z -> (0 <= j <= dim slow 1)%Z -> (0 <= k <= dim slow 2)%Z ->
     get 0 tt [i; j; k] = 0 -> IZR i = zsrc / dz /\ IZR j = xsrc / dx /\ IZR k = ysrc / dy)
  \/
  (exists i j k a b c, (0 <= i <= dim slow 0)%Z /\ (0 <= j <= dim slow 1)%Z /\ (0 <= k <= dim slow 2)%Z /\
     pm1 a /\ pm1 b /\ pm1 c /\
     IZR (i - a) = zsrc / dz /\ IZR (j - b) = xsrc / dx /\ IZR (k - c) = ysrc / dy /\ get 0 tt [i; j; k] = 0).
Proof.
  destruct fteik3d_final_inv as [_ [Pa | (i & j & k & a & b & c & (Hi & Hj & Hk) & Ha & Hb & Hc & (Ez & Ex & Ey) & E0)]].
  - left. intros i j k Hi Hj Hk E0.
    destruct (AtSrc_dec (zsrc / dz) (xsrc / dx) (ysrc / dy) i j k) as [Hs|Hn]; [exact Hs|].
    assert (0 < get 0 tt [i; j; k]) by (apply Pa; [unfold InR; lia | exact Hn]). lra.
  - right. exists i, j, k, a, b, c. repeat (split; [first [assumption | lia]|]). exact E0.
Qed.

(* the clause of C03 under the weakest hypothesis that makes it true (it is also necessary: such a node is not the source):
   no node whose cube-diagonal neighbour is the source carries the time 0 *)
Theorem fteik3d_zero_only_at_source_partial :
  (forall i j k a b c, (0 <= i <= dim slow 0)%Z -> (0 <= j <= dim slow 1)%Z -> (0 <= k <= dim slow 2)%Z ->
     pm1 a -> pm1 b -> pm1 c ->
     IZR (i - a) = zsrc / dz -> IZR (j - b) = xsrc / dx -> IZR (k - c) = ysrc / dy -> get 0 tt [i; j; k] <> 0) ->
  forall i j k, (0 <= i <= dim slow 0)%Z -> (0 <= j <= dim slow 1)%Z -> (0 <= k <= dim slow 2)%Z ->
    get 0 tt [i; j; k] = 0 -> IZR i = zsrc / dz /\ IZR j = xsrc / dx /\ IZR k = ysrc / dy.
Proof.
  intros Hd. destruct fteik3d_zero_dichotomy as [H | (i & j & k & a & b & c & Hi & Hj & Hk & Ha & Hb & Hc & Ez & Ex & Ey & E0)].
  - exact H.
  - exfalso. exact (Hd i j k a b c Hi Hj Hk Ha Hb Hc Ez Ex Ey E0).
Qed.

(* the hypothesis of fteik3d_zero_only_at_source_partial is also necessary: the clause holds for a run exactly when no node
   whose cube-diagonal neighbour is the source carries the time 0 *)
Theorem fteik3d_zero_only_at_source_iff_diag :
  (forall i j k, (0 <= i <= dim slow 0)%Z -> (0 <= j <= dim slow 1)%Z -> (0 <= k <= dim slow 2)%Z ->
     get 0 tt [i; j; k] = 0 -> IZR i = zsrc / dz /\ IZR j = xsrc / dx /\ IZR k = ysrc / dy)
  <->
  (forall i j k a b c, (0 <= i <= dim slow 0)%Z -> (0 <= j <= dim slow 1)%Z -> (0 <= k <= dim slow 2)%Z ->
     pm1 a -> pm1 b -> pm1 c ->
     IZR (i - a) = zsrc / dz -> IZR (j - b) = xsrc / dx -> IZR (k - c) = ysrc / dy -> get 0 tt [i; j; k] <> 0).
Proof.
  split.
  - intros Hc i j k a b c Hi Hj Hk Ha Hb Hc' Ez Ex Ey E0.
    destruct (Hc i j k Hi Hj Hk E0) as (A & _). rewrite <- Ez in A. apply eq_IZR in A. unfold pm1 in Ha. lia.
  - exact fteik3d_zero_only_at_source_partial.
Qed.

(* a source that is not on a grid node: every traveltime is > 0 (all inputs) *)
Theorem fteik3d_pos_off_node :
  ~ (exists kz kx ky : Z, zsrc / dz = IZR kz /\ xsrc / dx = IZR kx /\ ysrc / dy = IZR ky) ->
  forall i j k, (0 <= i <= dim slow 0)%Z -> (0 <= j <= dim slow 1)%Z -> (0 <= k <= dim slow 2)%Z ->
    0 < get 0 tt [i; j; k].
Proof.
  intros Hoff i j k Hi Hj Hk.
  destruct fteik3d_final_inv as [_ [Pa | (i' & j' & k' & a & b & c & _ & _ & _ & _ & (Ez & Ex & Ey) & _)]].
  - apply Pa; [unfold InR; lia|]. intros (Ez & Ex & Ey). apply Hoff. exists i, j, k. auto.
  - exfalso. apply Hoff. exists (i' - a)%Z, (j' - b)%Z, (k' - c)%Z. auto.
Qed.

(* converse (all inputs): a node coinciding with the source carries the time 0 *)
Theorem fteik3d_zero_at_source :
  forall i j k, (0 <= i <= dim slow 0)%Z -> (0 <= j <= dim slow 1)%Z -> (0 <= k <= dim slow 2)%Z ->
    IZR i = zsrc / dz -> IZR j = xsrc / dx -> IZR k = ysrc / dy -> get 0 tt [i; j; k] = 0.
Proof.
  intros i j k Hi Hj Hk Ez Ex Ey. apply fteik3d_ok_inv in E as (Hin & -> & _).
  assert (Hr : InR (dim slow 0 + 1) (dim slow 1 + 1) (dim slow 2 + 1) i j k) by (unfold InR; lia).
  assert (Hs : AtSrc (zsrc / dz) (xsrc / dx) (ysrc / dy) i j k) by (split; [|split]; assumption).
  destruct (iter_zk slow dz dx dy Hdz Hdx Hdy Hw Hsh Hpos i j k grad (Z.to_nat nsweep)
              (tt0_3d slow dz dx dy zsrc xsrc ysrc) Hr) as [_ H0]; [|exact H0].
  apply init_zero_at_src; assumption.
Qed.

Theorem fteik3d_zero_iff_source_partial :
  (forall i j k a b c, (0 <= i <= dim slow 0)%Z -> (0 <= j <= dim slow 1)%Z -> (0 <= k <= dim slow 2)%Z ->
     pm1 a -> pm1 b -> pm1 c ->
     IZR (i - a) = zsrc / dz -> IZR (j - b) = xsrc / dx -> IZR (k - c) = ysrc / dy -> get 0 tt [i; j; k] <> 0) ->
  forall i j k, (0 <= i <= dim slow 0)%Z -> (0 <= j <= dim slow 1)%Z -> (0 <= k <= dim slow 2)%Z ->
    (get 0 tt [i; j; k] = 0 <-> IZR i = zsrc / dz /\ IZR j = xsrc / dx /\ IZR k = ysrc / dy).
Proof.
  intros Hd i j k Hi Hj Hk. split.
  - apply fteik3d_zero_only_at_source_partial; assumption.
  - intros (Ez & Ex & Ey). apply fteik3d_zero_at_source; assumption.
Qed.

Corollary fteik3d_at_most_one_zero_partial :
  (forall i j k a b c, (0 <= i <= dim slow 0)%Z -> (0 <= j <= dim slow 1)%Z -> (0 <= k <= dim slow 2)%Z ->
     pm1 a -> pm1 b -> pm1 c ->
     IZR (i - a) = zsrc / dz -> IZR (j - b) = xsrc / dx -> IZR (k - c) = ysrc / dy -> get 0 tt [i; j; k] <> 0) ->
  forall i j k i' j' k', (0 <= i <= dim slow 0)%Z -> (0 <= j <= dim slow 1)%Z -> (0 <= k <= dim slow 2)%Z ->
    (0 <= i' <= dim slow 0)%Z -> (0 <= j' <= dim slow 1)%Z -> (0 <= k' <= dim slow 2)%Z ->
    get 0 tt [i; j; k] = 0 -> get 0 tt [i'; j'; k'] = 0 -> i = i' /\ j = j' /\ k = k'.
Proof.
  intros Hd i j k i' j' k' Hi Hj Hk Hi' Hj' Hk' E0 E0'.
  destruct (fteik3d_zero_only_at_source_partial Hd i j k Hi Hj Hk E0) as (A & B & C).
  destruct (fteik3d_zero_only_at_source_partial Hd i' j' k' Hi' Hj' Hk' E0') as (A' & B' & C').
  repeat split; apply eq_IZR; congruence.
Qed.
End Main.

(* ------------------------------------------------------------------------------------------ *)
(* 7. the accepted 8-point candidate can be exactly 0 next to the source                        *)
(* ------------------------------------------------------------------------------------------ *)
(* Exact characterisation of the hole, for a node whose seven neighbours carry tv te tn tev ten tnv and tnve = 0 (the
   source) in a cell where every slowness involved is s: if the three face neighbours are <= m, the three face diagonals
   are >= m, m < each 1D candidate, the linear part t1 of the 8-point operator is <= 0 and t2 - t3 = t1^2, then all tests of
   the code pass, the 8-point candidate is (t1 + sqrt (t1^2)) / dsum = 0, the guard `t3d < tnve` does not fire, and the
   node update writes 0. *)
Lemma node_value_zero_gen (tt slow : arr R) (dz dx dy : R) i j k sgnvz sgnvx sgnvy sgntz sgntx sgnty nz nx ny
      (tv te tn tev ten tnv s m t1 : R) :
  0 < dz -> 0 < dx -> 0 < dy -> 0 < s -> 0 <= m ->
  nb_v tt i j k sgntz = tv -> nb_e tt i j k sgntx = te -> nb_n tt i j k sgnty = tn ->
  nb_ev tt i j k sgntz sgntx = tev -> nb_en tt i j k sgntx sgnty = ten -> nb_nv tt i j k sgntz sgnty = tnv ->
  nb_nve tt i j k sgntz sgntx sgnty = 0 ->
  edge_s_z slow i j k sgnvz nx ny = s -> edge_s_x slow i j k sgnvx nz ny = s -> edge_s_y slow i j k sgnvy nz nx = s ->
  face_s_zx slow i j k sgnvz sgnvx ny = s -> face_s_zy slow i j k sgnvz sgnvy nx = s ->
  face_s_xy slow i j k sgnvx sgnvy nz = s -> cell_s slow i j k sgnvz sgnvx sgnvy = s ->
  0 < get 0 tt [i; j; k] ->
  tv <= m -> te <= m -> tn <= m -> m < tv + dz * s -> m < te + dx * s -> m < tn + dy * s ->
  m <= tev -> m <= ten -> m <= tnv ->
  op3_b tv te tn tev ten tnv 0 * (1 / dz / dz) + op3_a tv te tn tev ten tnv 0 * (1 / dx / dx)
    + op3_c tv te tn tev ten tnv 0 * (1 / dy / dy) = t1 ->
  t1 <= 0 ->
  op3_t2 s (1 / dz / dz + 1 / dx / dx + 1 / dy / dy)
    - op3_t3 tv te tn tev ten tnv 0 (1 / dz / dz * (1 / dx / dx)) (1 / dz / dz * (1 / dy / dy)) (1 / dx / dx * (1 / dy / dy))
    = t1 * t1 ->
  node_value_sp true tt slow dz dx dy i j k sgnvz sgnvx sgnvy sgntz sgntx sgnty nz nx ny = 0.
Proof.
  intros Hdz Hdx Hdy Hs Hm Ev Ee En Eev Een Env Enve Ez Ex Ey Fzx Fzy Fxy Ec H0
         Lv Le Ln Mv Me Mn Mev Men Mnv Ht1 Ht1n Ht23.
  unfold node_value_sp, node_value, c_t3d. cbv zeta.
  match goal with |- pymin4 _ ?a ?b _ = _ => set (T1 := a) in *; set (T2 := b) in * end.
  assert (H1 : m < T1).
  { unfold T1, c_t1d. rewrite Ev, Ee, En, Ez, Ex, Ey. numR. apply pymin3_gt; assumption. }
  assert (H2 : m < T2).
  { unfold T2, c_t2d. cbv zeta. rewrite Ev, Ee, En, Eev, Een, Env, Fzx, Fzy, Fxy. apply pymin3_gt.
    - eapply Rle_lt_trans; [exact Mev | apply t2d_zx_adm; try assumption; lra].
    - eapply Rle_lt_trans; [exact Mnv | apply t2d_zy_adm; try assumption; lra].
    - eapply Rle_lt_trans; [exact Men | apply t2d_xy_adm; try assumption; lra]. }
  rewrite Ev, Ee, En, Eev, Een, Env, Enve, Ec. unfold ngtb, ngeb, guard3. numR.
  assert (Hc : pymax3 tv te tn < pymin2 T1 T2) by (apply pymax3_lt; apply pymin2_gt; lra).
  rewrite (proj2 (Rltb_true _ _) Hc).
  match goal with |- context [Rleb ?a ?b] => assert (Hle : a <= b) by nra; rewrite (proj2 (Rleb_true a b) Hle) end.
  rewrite op3_R, Ht1, Ht23.
  replace (t1 * t1) with ((- t1) * (- t1)) by ring. rewrite sqrt_square by lra.
  replace (t1 + - t1) with 0 by ring.
  match goal with |- context [0 / ?d] => replace (0 / d) with 0 by (unfold Rdiv; ring) end.
  rewrite (proj2 (Rltb_false 0 0)) by lra.
  apply pymin4_eq_last; [exact H0 | lra | lra].
Qed.

(* ---------- 7a. one node update, ordinary magnitudes ---------- *)
(* 2 x 2 x 2 nodes (one cell of slowness 1/4), dz = dx = 1, dy = 1/2, source at node (0,0,0); every other node carries a
   positive time; the update of node (1,1,1) in the first pass writes exactly 0: the invariant "0 only at the source" is
   not preserved by a single node update *)
Definition zx_tt : arr R := mkarr [2%Z; 2%Z; 2%Z] [0; 1; 1; 1 / 4; 1 / 2; 1 / 4; 1 / 4; 1].
Definition zx_slow : arr R := mkarr [1%Z; 1%Z; 1%Z] [1 / 4].

Ltac get_cases := cbv [get shape dat flat flat_aux Z.to_nat Z.mul Z.add Pos.to_nat Pos.iter_op Nat.add nth Pos.mul Pos.add
                       zx_tt zx_slow].

Lemma zx_tt_posinv : PosInv 2 2 2 0 0 0 zx_tt.
Proof.
  split.
  - split; [split; [reflexivity | repeat constructor; lia]|]. split; [reflexivity|].
    unfold nonneg, zx_tt. cbn [dat]. repeat (apply Forall_cons; [lra|]). apply Forall_nil.
  - intros i j k (Hi & Hj & Hk) Hn.
    assert (Ci : i = 0%Z \/ i = 1%Z) by lia. assert (Cj : j = 0%Z \/ j = 1%Z) by lia. assert (Ck : k = 0%Z \/ k = 1%Z) by lia.
    destruct Ci as [-> | ->], Cj as [-> | ->], Ck as [-> | ->];
      first [ exfalso; apply Hn; repeat split; reflexivity | get_cases; lra ].
Qed.
Lemma zx_slow_pos : SlowPos3 2 2 2 zx_slow.
Proof.
  intros p q r Hp Hq Hr. assert (p = 0%Z) by lia. assert (q = 0%Z) by lia. assert (r = 0%Z) by lia. subst.
  get_cases. lra.
Qed.

Theorem node_zero_refuted :
  (0 < 1 /\ 0 < 1 / 2 /\ SlowPos3 2 2 2 zx_slow /\ PosInv 2 2 2 0 0 0 zx_tt) /\
  node_value_sp true zx_tt zx_slow 1 1 (1 / 2) 1 1 1 1 1 1 1 1 1 2 2 2 = 0.
Proof.
  split; [split; [lra | split; [lra | split; [apply zx_slow_pos | apply zx_tt_posinv]]]|].
  apply (node_value_zero_gen zx_tt zx_slow 1 1 (1 / 2) 1 1 1 1 1 1 1 1 1 2 2 2
           (1 / 4) (1 / 4) (1 / 4) 1 (1 / 2) 1 (1 / 4) (1 / 4) (- 3 / 4)); try lra; try reflexivity.
  - exact (pymin4_same (1 / 4)).
  - exact (pymin4_same (1 / 4)).
  - exact (pymin4_same (1 / 4)).
  - exact (pymin2_same (1 / 4)).
  - exact (pymin2_same (1 / 4)).
  - exact (pymin2_same (1 / 4)).
  - change (get 0 zx_tt [1%Z; 1%Z; 1%Z]) with 1. lra.
  - unfold op3_a, op3_b, op3_c, hf. numR. field.
  - unfold op3_t3, op3_t2, op3_a, op3_b, op3_c, hf. cbv zeta. unnum. field.
Qed.

(* hence one node update of the generated code does not preserve "0 only at the source" *)
Corollary sweep_not_posinv :
  PosInv 2 2 2 0 0 0 zx_tt /\
  ~ PosAway3 2 2 2 0 0 0 (fst (sweep zx_tt (full [2%Z; 2%Z; 2%Z; 3%Z] 0%Z) zx_slow (dargs3 1 1 (1 / 2)) 1 1 1 1 1 1 1 1 1 2 2 2 false)).
Proof.
  split; [apply zx_tt_posinv|]. intros Pa. rewrite sweep_dargs3_eq in Pa.
  assert (Hr : InR 2 2 2 1 1 1) by (unfold InR; lia).
  specialize (Pa 1%Z 1%Z 1%Z Hr). rewrite (get_set3 2 2 2) in Pa; [| apply zx_tt_posinv | exact Hr | exact Hr].
  destruct (list_eq_dec_Z [1%Z; 1%Z; 1%Z] [1%Z; 1%Z; 1%Z]) as [_|N]; [|apply N; reflexivity].
  rewrite (proj2 node_zero_refuted) in Pa.
  assert (0 < 0); [|lra]. apply Pa. intros (E & _). cbn in E. lra.
Qed.

(* ---------- 7b. a complete solve ---------- *)
(* 1 x 2 x 1 cells (2 x 3 x 2 nodes), dz = dy = 1, dx = 4, slowness 200000 in cell (0,0,0) and 900000 in cell (0,1,0), source
   at node (0,1,0) (zsrc = 0, xsrc = 4, ysrc = 0; the source cell is (0,1,0)).  The times involved reach the placeholder
   Big = 100000, which is what lets the tests of the 8-point operator pass.  First sweep:
     pass 1  node (1,1,1): planes ZX, XY not admissible -> t2d = Big, every other candidate >= Big        writes Big
             node (1,2,1): cube-diagonal neighbour = source, but min(t1d,t2d) <= max(tv,te,tn) -> t3d = Big   writes w2 >= Big
     pass 2  node (1,1,1): every candidate >= Big                                                          keeps Big
             node (1,0,1): tv = te = tn = tnv = Big, tev = ten = 900000, tnve = 0 (source), slowness 200000:
                           t1 = -750000, t2 - t3 = 750000^2                                                 writes 0
   and a node at 0 stays at 0.  Node (1,0,1) is not the source. *)
Definition cxs : arr R := mkarr [1%Z; 2%Z; 1%Z] [200000; 900000].
(* the states met: five entries are left symbolic *)
Definition cst (c4 c5 c9 c10 c11 : R) : arr R :=
  mkarr [2%Z; 3%Z; 2%Z] [100000; 100000; 0; 900000; c4; c5; 100000; 100000; 900000; c9; c10; c11].

Ltac ev_min := rewrite ?pymin4_Rmin, ?pymin3_Rmin, ?pymin2_Rmin; unfold Rmin; repeat destruct (Rle_dec _ _); lra.

Lemma cxs_wf : wf cxs.
Proof. split; [reflexivity | repeat constructor; lia]. Qed.
Lemma cxs_pos : forall i j k, (0 <= i < 1)%Z -> (0 <= j < 2)%Z -> (0 <= k < 1)%Z -> 0 < get 0 cxs [i; j; k].
Proof.
  intros i j k Hi Hj Hk. assert (i = 0%Z) by lia. assert (k = 0%Z) by lia. assert (Cj : j = 0%Z \/ j = 1%Z) by lia. subst.
  destruct Cj as [-> | ->];
    cbv [get shape dat flat flat_aux Z.to_nat Z.mul Z.add Pos.to_nat Pos.iter_op Nat.add nth Pos.mul Pos.add cxs]; lra.
Qed.
Lemma cxs_slowpos : SlowPos3 2 3 2 cxs.
Proof. intros p q r Hp Hq Hr. apply cxs_pos; lia. Qed.

Lemma cst_base c4 c5 c9 c10 c11 :
  0 <= c4 -> 0 <= c5 -> 0 <= c9 -> 0 <= c10 -> 0 <= c11 -> Base3 2 3 2 (cst c4 c5 c9 c10 c11).
Proof.
  intros. split; [split; [reflexivity | repeat constructor; lia]|]. split; [reflexivity|].
  unfold nonneg, cst. cbn [dat]. repeat (apply Forall_cons; [lra|]). apply Forall_nil.
Qed.

(* the ZY plane operator at node (1,1,1) (face-diagonal neighbour = source) *)
Lemma zy_special : 100000 <= c_t2d_zy 900000 900000 0 200000 1 1 (1 / 1 / 1) (1 / 1 / 1).
Proof.
  unfold c_t2d_zy. rewrite plane_op_four_point. numR.
  rewrite (proj2 (Rltb_true 900000 (900000 + 1 * 200000))) by lra. cbn [andb].
  unfold OperatorsR.four_point. cbv zeta. replace (1 / 1 / 1) with 1 by field.
  set (S := sqrt _).
  assert (HS : 400000 <= S).
  { unfold S. rewrite <- (sqrt_square 400000) by lra. apply sqrt_le_1_alt. lra. }
  apply (Rmult_le_reg_r (1 + 1)); [lra|]. unfold Rdiv. rewrite Rmult_assoc, Rinv_l by lra. lra.
Qed.

(* pass 1, node (1,1,1) *)
Lemma U1_value c4 c5 c9 c10 c11 :
  100000 <= c9 -> node_value_sp true (cst c4 c5 c9 c10 c11) cxs 1 4 1 1 1 1 1 1 1 1 1 1 2 3 2 = 100000.
Proof.
  intros H9. set (S := cst c4 c5 c9 c10 c11).
  assert (Ev : nb_v S 1 1 1 1 = 900000) by reflexivity.
  assert (Ee : nb_e S 1 1 1 1 = 100000) by reflexivity.
  assert (En : nb_n S 1 1 1 1 = 900000) by reflexivity.
  assert (Eev : nb_ev S 1 1 1 1 1 = 100000) by reflexivity.
  assert (Een : nb_en S 1 1 1 1 1 = 100000) by reflexivity.
  assert (Env : nb_nv S 1 1 1 1 1 = 0) by reflexivity.
  assert (Enve : nb_nve S 1 1 1 1 1 1 = 100000) by reflexivity.
  assert (Ez : edge_s_z cxs 1 1 1 1 3 2 = 200000) by (change (pymin4 200000 200000 900000 900000 = 200000); ev_min).
  assert (Ex : edge_s_x cxs 1 1 1 1 2 2 = 200000) by exact (pymin4_same 200000).
  assert (Ey : edge_s_y cxs 1 1 1 1 2 3 = 200000) by (change (pymin4 200000 900000 200000 900000 = 200000); ev_min).
  assert (Fzx : face_s_zx cxs 1 1 1 1 1 2 = 200000) by exact (pymin2_same 200000).
  assert (Fzy : face_s_zy cxs 1 1 1 1 1 3 = 200000) by (change (pymin2 200000 900000 = 200000); ev_min).
  assert (Fxy : face_s_xy cxs 1 1 1 1 1 2 = 200000) by exact (pymin2_same 200000).
  unfold node_value_sp, node_value. cbv zeta.
  match goal with |- pymin4 _ _ ?b _ = _ => assert (E2 : b = 100000) end.
  { unfold c_t2d. cbv zeta. rewrite Ev, Ee, En, Eev, Een, Env, Fzx, Fzy, Fxy.
    rewrite (t2d_zx_inadm 900000 100000 100000 200000 1 4) by (left; lra).
    rewrite (t2d_xy_inadm 100000 900000 100000 200000 4 1) by (right; lra).
    pose proof zy_special as Hz. rewrite pymin3_Rmin. unfold Big. numR. unfold Rmin; repeat destruct (Rle_dec _ _); lra. }
  apply pymin4_eq_bound.
  - exact H9.
  - unfold c_t1d. rewrite Ev, Ee, En, Ez, Ex, Ey. numR. apply pymin3_ge; lra.
  - rewrite E2. lra.
  - match goal with |- _ <= ?c => destruct (t3d_big_or_ge S cxs 1 4 1 (1 / 1 / 1) (1 / 4 / 4) (1 / 1 / 1)
       (1 / 1 / 1 * (1 / 4 / 4)) (1 / 1 / 1 * (1 / 1 / 1)) (1 / 4 / 4 * (1 / 1 / 1))
       (1 / 1 / 1 + 1 / 4 / 4 + 1 / 1 / 1) 1 1 1 1 1 1 1 1 1 2 3 2) as [E|E] end.
    + numR. rewrite E. unfold Big. numR. lra.
    + rewrite Enve in E. numR. exact E.
  - right. right. left. exact E2.
Qed.

(* pass 1, node (1,2,1) *)
Lemma U2_value c4 c5 c10 c11 :
  100000 <= c4 -> 3700000 <= c5 -> 100000 <= c10 -> 100000 <= c11 ->
  100000 <= node_value_sp true (cst c4 c5 100000 c10 c11) cxs 1 4 1 1 2 1 1 1 1 1 1 1 2 3 2.
Proof.
  intros H4 H5 H10 H11. set (S := cst c4 c5 100000 c10 c11).
  assert (Ev : nb_v S 1 2 1 1 = c5) by reflexivity.
  assert (Ee : nb_e S 1 2 1 1 = 100000) by reflexivity.
  assert (En : nb_n S 1 2 1 1 = c10) by reflexivity.
  assert (Eev : nb_ev S 1 2 1 1 1 = 900000) by reflexivity.
  assert (Een : nb_en S 1 2 1 1 1 = 900000) by reflexivity.
  assert (Env : nb_nv S 1 2 1 1 1 = c4) by reflexivity.
  assert (Ez : edge_s_z cxs 1 2 1 1 3 2 = 900000) by exact (pymin4_same 900000).
  assert (Ex : edge_s_x cxs 1 2 1 1 2 2 = 900000) by exact (pymin4_same 900000).
  assert (Ey : edge_s_y cxs 1 2 1 1 2 3 = 900000) by exact (pymin4_same 900000).
  assert (Fzx : face_s_zx cxs 1 2 1 1 1 2 = 900000) by exact (pymin2_same 900000).
  assert (Fzy : face_s_zy cxs 1 2 1 1 1 3 = 900000) by exact (pymin2_same 900000).
  assert (Fxy : face_s_xy cxs 1 2 1 1 1 2 = 900000) by exact (pymin2_same 900000).
  unfold node_value_sp, node_value, c_t3d. cbv zeta.
  match goal with |- _ <= pymin4 _ ?a ?b _ => set (T1 := a) in *; set (T2 := b) in * end.
  assert (E1 : T1 = pymin3 (c5 + 1 * 900000) (100000 + 4 * 900000) (c10 + 1 * 900000)).
  { unfold T1, c_t1d. rewrite Ev, Ee, En, Ez, Ex, Ey. reflexivity. }
  assert (G2 : 100000 <= T2).
  { unfold T2, c_t2d. cbv zeta. rewrite Ev, Ee, En, Eev, Een, Env, Fzx, Fzy, Fxy. apply pymin3_ge.
    - apply (big_or_gt_ge _ 900000); [lra | lra | apply t2d_zx_gt; lra].
    - apply (big_or_gt_ge _ c4); [lra | lra | apply t2d_zy_gt; lra].
    - apply (big_or_gt_ge _ 900000); [lra | lra | apply t2d_xy_gt; lra]. }
  rewrite Ev, Ee, En. unfold ngtb. numR.
  assert (Hno : pymin2 T1 T2 <= pymax3 c5 100000 c10).
  { rewrite E1, pymin2_Rmin, pymin3_Rmin, pymax3_Rmax. unfold Rmin, Rmax; repeat destruct (Rle_dec _ _); lra. }
  rewrite (proj2 (Rltb_false _ _) Hno).
  apply pymin4_ge; [exact H11 | rewrite E1; apply pymin3_ge; lra | exact G2 | unfold Big; numR; lra].
Qed.

(* pass 2, node (1,1,1) *)
Lemma U3_value c4 c5 c10 w2 :
  100000 <= c4 -> 100000 <= c5 -> 100000 <= c10 -> 100000 <= w2 ->
  node_value_sp true (cst c4 c5 100000 c10 w2) cxs 1 4 1 1 1 1 1 0 1 1 (-1) 1 2 3 2 = 100000.
Proof.
  intros H4 H5 H10 H2. set (S := cst c4 c5 100000 c10 w2).
  assert (Ev : nb_v S 1 1 1 1 = 900000) by reflexivity.
  assert (Ee : nb_e S 1 1 1 (-1) = w2) by reflexivity.
  assert (En : nb_n S 1 1 1 1 = 900000) by reflexivity.
  assert (Eev : nb_ev S 1 1 1 1 (-1) = c5) by reflexivity.
  assert (Een : nb_en S 1 1 1 (-1) 1 = c10) by reflexivity.
  assert (Env : nb_nv S 1 1 1 1 1 = 0) by reflexivity.
  assert (Enve : nb_nve S 1 1 1 1 (-1) 1 = c4) by reflexivity.
  assert (Ez : edge_s_z cxs 1 1 1 1 3 2 = 200000) by (change (pymin4 200000 200000 900000 900000 = 200000); ev_min).
  assert (Ex : edge_s_x cxs 1 1 1 0 2 2 = 900000) by exact (pymin4_same 900000).
  assert (Ey : edge_s_y cxs 1 1 1 1 2 3 = 200000) by (change (pymin4 200000 900000 200000 900000 = 200000); ev_min).
  assert (Fzx : face_s_zx cxs 1 1 1 1 0 2 = 900000) by exact (pymin2_same 900000).
  assert (Fzy : face_s_zy cxs 1 1 1 1 1 3 = 200000) by (change (pymin2 200000 900000 = 200000); ev_min).
  assert (Fxy : face_s_xy cxs 1 1 1 0 1 2 = 900000) by exact (pymin2_same 900000).
  unfold node_value_sp, node_value. cbv zeta.
  apply pymin4_eq_bound.
  - change (100000 <= 100000). lra.
  - unfold c_t1d. rewrite Ev, Ee, En, Ez, Ex, Ey. numR. apply pymin3_ge; lra.
  - unfold c_t2d. cbv zeta. rewrite Ev, Ee, En, Eev, Een, Env, Fzx, Fzy, Fxy. apply pymin3_ge.
    + apply (big_or_gt_ge _ c5); [lra | lra | apply t2d_zx_gt; lra].
    + exact zy_special.
    + apply (big_or_gt_ge _ c10); [lra | lra | apply t2d_xy_gt; lra].
  - match goal with |- _ <= ?c => destruct (t3d_big_or_ge S cxs 1 4 1 (1 / 1 / 1) (1 / 4 / 4) (1 / 1 / 1)
       (1 / 1 / 1 * (1 / 4 / 4)) (1 / 1 / 1 * (1 / 1 / 1)) (1 / 4 / 4 * (1 / 1 / 1))
       (1 / 1 / 1 + 1 / 4 / 4 + 1 / 1 / 1) 1 1 1 1 0 1 1 (-1) 1 2 3 2) as [E|E] end.
    + numR. rewrite E. unfold Big. numR. lra.
    + rewrite Enve in E. numR. lra.
  - left. reflexivity.
Qed.

(* pass 2, node (1,0,1): the 8-point operator returns exactly 0 *)
Lemma U4_value c4 c5 c10 w2 :
  node_value_sp true (cst c4 c5 100000 c10 w2) cxs 1 4 1 1 0 1 1 0 1 1 (-1) 1 2 3 2 = 0.
Proof.
  apply (node_value_zero_gen (cst c4 c5 100000 c10 w2) cxs 1 4 1 1 0 1 1 0 1 1 (-1) 1 2 3 2
           100000 100000 100000 900000 900000 100000 200000 100000 (- 750000)); try lra; try reflexivity.
  - exact (pymin4_same 200000).
  - exact (pymin4_same 200000).
  - exact (pymin4_same 200000).
  - exact (pymin2_same 200000).
  - exact (pymin2_same 200000).
  - exact (pymin2_same 200000).
  - change (0 < 100000). lra.
  - unfold op3_a, op3_b, op3_c, hf. numR. field.
  - unfold op3_t3, op3_t2, op3_a, op3_b, op3_c, hf. cbv zeta. unnum. field.
Qed.

(* the first two passes on 2 x 3 x 2 nodes, call by call *)
Lemma pass1_232 slow dargs (tt : arr R) :
  pass3T 2 3 2 slow dargs true true true tt
  = swT 2 3 2 slow dargs 1 1 1 1 1 1 1 2 1 (swT 2 3 2 slow dargs 1 1 1 1 1 1 1 1 1 tt).
Proof. reflexivity. Qed.
Lemma pass2_232 slow dargs (tt : arr R) :
  pass3T 2 3 2 slow dargs true false true tt
  = swT 2 3 2 slow dargs 1 0 1 1 (-1) 1 1 0 1 (swT 2 3 2 slow dargs 1 0 1 1 (-1) 1 1 1 1 tt).
Proof. reflexivity. Qed.

(* the source cell and the initial state *)
Lemma cx_zsi : zsi3 cxs 1 0 = 0%Z.
Proof.
  unfold zsi3, zsa3. cbn [ntrunc ndiv NumR dim shape cxs nth]. replace (0 / 1) with (IZR 0) by (simpl; field).
  rewrite Pos2d.Rtrunc_IZR. reflexivity.
Qed.
Lemma cx_xsi : xsi3 cxs 4 4 = 1%Z.
Proof.
  unfold xsi3, xsa3. cbn [ntrunc ndiv NumR dim shape cxs nth]. replace (4 / 4) with (IZR 1) by (simpl; field).
  rewrite Pos2d.Rtrunc_IZR. reflexivity.
Qed.
Lemma cx_ysi : ysi3 cxs 1 0 = 0%Z.
Proof.
  unfold ysi3, ysa3. cbn [ntrunc ndiv NumR dim shape cxs nth]. replace (0 / 1) with (IZR 0) by (simpl; field).
  rewrite Pos2d.Rtrunc_IZR. reflexivity.
Qed.

Definition cxF (a b c : Z) : R := 900000 * sqrt ((1 * (IZR a - 0 / 1)) ^ 2 + (4 * (IZR b - 4 / 4)) ^ 2 + (1 * (IZR c - 0 / 1)) ^ 2).

Lemma cx_tt0 :
  tt0_3d cxs 1 4 1 0 4 0 =
  mkarr [2%Z; 3%Z; 2%Z] [100000; 100000; cxF 0 1 0; cxF 0 1 1; cxF 0 2 0; cxF 0 2 1;
                           100000; 100000; cxF 1 1 0; cxF 1 1 1; cxF 1 2 0; cxF 1 2 1].
Proof.
  unfold tt0_3d, corner3. cbv zeta. rewrite !t_anad_fst, !t_ana_exact.
  unfold vzero3. rewrite cx_zsi, cx_xsi, cx_ysi.
  change (get (nofZ 0) cxs [0%Z; 1%Z; 0%Z]) with 900000.
  unfold zsa3, xsa3, ysa3. cbn [ndiv NumR]. reflexivity.
Qed.

Lemma cxF_ge a b c n : 1 <= n -> (1 * (IZR a - 0 / 1)) ^ 2 + (4 * (IZR b - 4 / 4)) ^ 2 + (1 * (IZR c - 0 / 1)) ^ 2 = n ->
  100000 <= cxF a b c.
Proof.
  intros Hn En. unfold cxF. rewrite En.
  assert (1 <= sqrt n) by (rewrite <- sqrt_1; apply sqrt_le_1_alt; exact Hn). nra.
Qed.

Lemma cx_tt0_cst :
  exists c4 c5 c9 c10 c11,
    tt0_3d cxs 1 4 1 0 4 0 = cst c4 c5 c9 c10 c11 /\
    100000 <= c4 /\ 3700000 <= c5 /\ 100000 <= c9 /\ 100000 <= c10 /\ 100000 <= c11.
Proof.
  exists (cxF 0 2 0), (cxF 0 2 1), (cxF 1 1 1), (cxF 1 2 0), (cxF 1 2 1). split.
  - rewrite cx_tt0. unfold cst. f_equal.
    assert (E0 : cxF 0 1 0 = 0).
    { unfold cxF. replace ((1 * (0 - 0 / 1)) ^ 2 + (4 * (1 - 4 / 4)) ^ 2 + (1 * (0 - 0 / 1)) ^ 2) with 0 by field.
      rewrite sqrt_0. ring. }
    assert (E1 : cxF 0 1 1 = 900000).
    { unfold cxF. replace ((1 * (0 - 0 / 1)) ^ 2 + (4 * (1 - 4 / 4)) ^ 2 + (1 * (1 - 0 / 1)) ^ 2) with 1 by field.
      rewrite sqrt_1. ring. }
    assert (E2 : cxF 1 1 0 = 900000).
    { unfold cxF. replace ((1 * (1 - 0 / 1)) ^ 2 + (4 * (1 - 4 / 4)) ^ 2 + (1 * (0 - 0 / 1)) ^ 2) with 1 by field.
      rewrite sqrt_1. ring. }
    rewrite E0, E1, E2. reflexivity.
  - split; [apply (cxF_ge 0 2 0 16); [lra | field]|].
    split.
    + unfold cxF. replace ((1 * (0 - 0 / 1)) ^ 2 + (4 * (2 - 4 / 4)) ^ 2 + (1 * (1 - 0 / 1)) ^ 2) with 17 by field.
      assert (37 / 9 <= sqrt 17).
      { rewrite <- (sqrt_square (37 / 9)) by lra. apply sqrt_le_1_alt. lra. }
      lra.
    + split; [apply (cxF_ge 1 1 1 2); [lra | field]|].
      split; [apply (cxF_ge 1 2 0 17); [lra | field] | apply (cxF_ge 1 2 1 18); [lra | field]].
Qed.

(* after the first two passes node (1,0,1) carries the time 0 *)
Lemma cx_two_passes :
  ZK 2 3 2 1 0 1
     (pass3T 2 3 2 cxs (dargs3 1 4 1) true false true
        (pass3T 2 3 2 cxs (dargs3 1 4 1) true true true (tt0_3d cxs 1 4 1 0 4 0))).
Proof.
  destruct cx_tt0_cst as (c4 & c5 & c9 & c10 & c11 & -> & H4 & H5 & H9 & H10 & H11).
  rewrite pass2_232, pass1_232. unfold swT. rewrite !sweep_dargs3_eq.
  rewrite (U1_value c4 c5 c9 c10 c11 H9).
  change (set (cst c4 c5 c9 c10 c11) [1%Z; 1%Z; 1%Z] 100000) with (cst c4 c5 100000 c10 c11).
  pose proof (U2_value c4 c5 c10 c11 H4 H5 H10 H11) as H2.
  set (w2 := node_value_sp true (cst c4 c5 100000 c10 c11) cxs 1 4 1 1 2 1 1 1 1 1 1 1 2 3 2) in *.
  change (set (cst c4 c5 100000 c10 c11) [1%Z; 2%Z; 1%Z] w2) with (cst c4 c5 100000 c10 w2).
  rewrite (U3_value c4 c5 c10 w2) by lra.
  change (set (cst c4 c5 100000 c10 w2) [1%Z; 1%Z; 1%Z] 100000) with (cst c4 c5 100000 c10 w2).
  rewrite U4_value.
  assert (Hb : Base3 2 3 2 (cst c4 c5 100000 c10 w2)) by (apply cst_base; lra).
  assert (Hr : InR 2 3 2 1 0 1) by (unfold InR; lia).
  split; [apply Base3_set; [exact Hb | lra]|].
  rewrite (get_set3 2 3 2) by assumption.
  destruct (list_eq_dec_Z [1%Z; 0%Z; 1%Z] [1%Z; 0%Z; 1%Z]) as [_|N]; [reflexivity | exfalso; apply N; reflexivity].
Qed.

Lemma iter_S_r {A} (f : A -> A) n x : Nat.iter (S n) f x = Nat.iter n f (f x).
Proof. induction n as [|n IH]; [reflexivity|]. rewrite Solve2dProofs.iter_S, IH. reflexivity. Qed.

Lemma cx_inside : inside3d cxs 1 4 1 0 4 0 = true.
Proof.
  unfold inside3d. cbn [dim shape cxs nth]. cbn [nleb nmul nofZ NumR].
  rewrite !andb_true_iff, !Rleb_true. lra.
Qed.

(* THE CLAUSE IS FALSE AS STATED: a model with positive slowness, positive spacings and a source on a grid node for which the
   solver (any number of sweeps >= 1, with or without gradient) returns the time 0 at a node that is not the source *)
Theorem fteik3d_zero_only_at_source_refuted :
  (0 < 1 /\ 0 < 4 /\ wf cxs /\ (1 <= dim cxs 0)%Z /\ (1 <= dim cxs 1)%Z /\ (1 <= dim cxs 2)%Z /\
   shape cxs = [dim cxs 0; dim cxs 1; dim cxs 2] /\
   (forall i j k, (0 <= i < dim cxs 0)%Z -> (0 <= j < dim cxs 1)%Z -> (0 <= k < dim cxs 2)%Z -> 0 < get 0 cxs [i; j; k])) /\
  forall nsweep grad, (1 <= nsweep)%Z ->
    exists tt G v,
      fteik3d cxs 1 4 1 0 4 0 nsweep grad = Ok (tt, G, v) /\
      (0 <= 1 <= dim cxs 0)%Z /\ (0 <= 0 <= dim cxs 1)%Z /\ (0 <= 1 <= dim cxs 2)%Z /\
      get 0 tt [1%Z; 0%Z; 1%Z] = 0 /\
      ~ (IZR 1 = 0 / 1 /\ IZR 0 = 4 / 4 /\ IZR 1 = 0 / 1) /\
      (* the source is the node (0,1,0), which carries 0 as well *)
      (IZR 0 = 0 / 1 /\ IZR 1 = 4 / 4 /\ IZR 0 = 0 / 1) /\ get 0 tt [0%Z; 1%Z; 0%Z] = 0.
Proof.
  split.
  { split; [lra|]. split; [lra|]. split; [apply cxs_wf|]. cbn [dim shape cxs nth].
    split; [lia|]. split; [lia|]. split; [lia|]. split; [reflexivity | exact cxs_pos]. }
  intros nsweep grad Hn.
  destruct (fteik3d_raises_iff cxs 1 4 1 0 4 0 nsweep grad) as [_ H].
  destruct (H cx_inside) as [[[tt G] v] E]. exists tt, G, v. split; [exact E|].
  cbn [dim shape cxs nth]. split; [lia|]. split; [lia|]. split; [lia|].
  assert (Hsrc : get 0 tt [0%Z; 1%Z; 0%Z] = 0).
  { apply (fteik3d_zero_at_source cxs 1 4 1 0 4 0 nsweep grad tt G v); try lra; try (cbn [dim shape cxs nth]; lia);
      try exact cxs_wf; try reflexivity; try exact cxs_pos; try exact E; simpl; field. }
  apply fteik3d_ok_inv in E as (_ & -> & _).
  split; [|split; [intros (E1 & _); simpl in E1; lra | split; [repeat split; simpl; field | exact Hsrc]]].
  replace (Z.to_nat nsweep) with (S (Z.to_nat (nsweep - 1))) by lia. rewrite iter_S_r.
  assert (Hr : InR (dim cxs 0 + 1) (dim cxs 1 + 1) (dim cxs 2 + 1) 1 0 1) by (cbn [dim shape cxs nth]; unfold InR; lia).
  refine (proj2 (iter_zk cxs 1 4 1 _ _ _ cxs_wf eq_refl cxs_pos 1 0 1 grad _ _ Hr _)); try lra.
  unfold ptt3, pass3d. cbn [fst snd]. rewrite sweep3d_proj_dargs3.
  change (dim cxs 0 + 1)%Z with 2%Z. change (dim cxs 1 + 1)%Z with 3%Z. change (dim cxs 2 + 1)%Z with 2%Z.
  unfold sweep3dT. cbv zeta.
  do 6 (apply (pass3T_zk 2 3 2 cxs 1 4 1); [lra | lra | lra | exact cxs_wf | reflexivity | exact cxs_slowpos | unfold InR; lia |]).
  exact cx_two_passes.
Qed.

(* ------------------------------------------------------------------------------------------ *)
(* 8. non-vacuity                                                                               *)
(* ------------------------------------------------------------------------------------------ *)
(* over R: the model NonNeg3d.ex3 (2 x 2 x 2 cells of slowness 1), spacings 1, 1/2, 2 *)
Lemma ex3_pos i j k : (0 <= i < 2)%Z -> (0 <= j < 2)%Z -> (0 <= k < 2)%Z -> 0 < get 0 ex3 [i; j; k].
Proof.
  intros Hi Hj Hk.
  assert (Ci : i = 0%Z \/ i = 1%Z) by lia. assert (Cj : j = 0%Z \/ j = 1%Z) by lia. assert (Ck : k = 0%Z \/ k = 1%Z) by lia.
  destruct Ci as [-> | ->], Cj as [-> | ->], Ck as [-> | ->];
    cbv [get ex3 shape dat flat flat_aux Z.to_nat Z.mul Z.add Pos.to_nat Pos.iter_op Nat.add nth Pos.mul Pos.add]; lra.
Qed.
Lemma ex3_wf : wf ex3.
Proof. split; [reflexivity | repeat constructor; lia]. Qed.

(* source in the middle of cell (0,0,0) (not on a node): every traveltime is > 0 *)
Example fteik3d_pos_off_node_ex :
  exists tt G v, fteik3d ex3 1 (1/2) 2 (1/2) (1/4) 1 2 false = Ok (tt, G, v) /\
    forall i j k, (0 <= i <= 2)%Z -> (0 <= j <= 2)%Z -> (0 <= k <= 2)%Z -> 0 < get 0 tt [i; j; k].
Proof.
  destruct (fteik3d_raises_iff ex3 1 (1/2) 2 (1/2) (1/4) 1 2 false) as [_ H].
  destruct (H ex3_inside) as [[[tt G] v] E]. exists tt, G, v. split; [exact E|].
  apply (fteik3d_pos_off_node ex3 1 (1/2) 2 (1/2) (1/4) 1 2 false tt G v); try lra; try exact ex3_wf;
    try (cbn; lia); try reflexivity; try exact ex3_pos; try exact E.
  intros (kz & _ & _ & Ez & _).
  assert (E2 : IZR (2 * kz) = IZR 1) by (rewrite mult_IZR; lra). apply eq_IZR in E2. lia.
Qed.

Lemma ex3_inside111 : inside3d ex3 1 (1/2) 2 1 (1/2) 2 = true.
Proof.
  unfold inside3d. cbn [dim shape ex3 nth]. cbn [nleb nmul nofZ NumR].
  rewrite !andb_true_iff, !Rleb_true. lra.
Qed.
(* source on the central node (1,1,1): that node carries the time 0, and the time 0 occurs nowhere else unless it occurs at
   one of the 8 corner nodes (its cube-diagonal neighbours) *)
Example fteik3d_zero_at_source_ex :
  exists tt G v, fteik3d ex3 1 (1/2) 2 1 (1/2) 2 2 false = Ok (tt, G, v) /\
    get 0 tt [1%Z; 1%Z; 1%Z] = 0 /\
    ((forall i j k, (0 <= i <= 2)%Z -> (0 <= j <= 2)%Z -> (0 <= k <= 2)%Z ->
        (get 0 tt [i; j; k] = 0 <-> i = 1%Z /\ j = 1%Z /\ k = 1%Z)) \/
     (exists i j k, (i = 0%Z \/ i = 2%Z) /\ (j = 0%Z \/ j = 2%Z) /\ (k = 0%Z \/ k = 2%Z) /\ get 0 tt [i; j; k] = 0)).
Proof.
  destruct (fteik3d_raises_iff ex3 1 (1/2) 2 1 (1/2) 2 2 false) as [_ H].
  destruct (H ex3_inside111) as [[[tt G] v] E]. exists tt, G, v. split; [exact E|].
  assert (Ez : 1 / 1 = IZR 1) by (simpl; field). assert (Ex : 1 / 2 / (1 / 2) = IZR 1) by (simpl; field).
  assert (Ey : 2 / 2 = IZR 1) by (simpl; field).
  assert (Hsrc : get 0 tt [1%Z; 1%Z; 1%Z] = 0).
  { apply (fteik3d_zero_at_source ex3 1 (1/2) 2 1 (1/2) 2 2 false tt G v); try lra; try exact ex3_wf;
      try (cbn; lia); try reflexivity; try exact ex3_pos; try exact E; symmetry; assumption. }
  split; [exact Hsrc|].
  destruct (fteik3d_zero_dichotomy ex3 1 (1/2) 2 1 (1/2) 2 2 false tt G v) as [Hl | Hr];
    try lra; try exact ex3_wf; try (cbn; lia); try reflexivity; try exact ex3_pos; try exact E.
  - left. intros i j k Hi Hj Hk. cbn [dim shape ex3 nth] in Hl. split.
    + intros E0. destruct (Hl i j k Hi Hj Hk E0) as (A & B & C). rewrite Ez in A. rewrite Ex in B. rewrite Ey in C.
      apply eq_IZR in A, B, C. auto.
    + intros (-> & -> & ->). exact Hsrc.
  - right. destruct Hr as (i & j & k & a & b & c & Hi & Hj & Hk & Ha & Hb & Hc & A & B & C & E0).
    rewrite Ez in A. rewrite Ex in B. rewrite Ey in C. apply eq_IZR in A, B, C.
    exists i, j, k. unfold pm1 in *. repeat split; try lia. exact E0.
Qed.

(* binary64: the generated solver run by vm_compute; which entries of the returned grid (row-major) are == 0.0 *)
Module Binary64.
Import Coq.Floats.PrimFloat.
Local Open Scope float_scope.
Definition zeros (r : res (arr float * arr float * float)) : option (list bool) :=
  match r with Ok (t, _, _) => Some (map (fun x => Coq.Floats.PrimFloat.eqb x 0) (dat t)) | _ => None end.

(* 2 x 2 x 2 cells with eight different positive slownesses, dz = 1, dx = 2, dy = 0.5 *)
Definition fslow : arr float := mkarr [2%Z; 2%Z; 2%Z] [1; 1.25; 0.75; 1.5; 2; 0.5; 1.125; 0.875].
(* source on the central node (1,1,1) (flat index 13 of 27): exactly one zero entry, there *)
Example one_zero_centre :
  zeros (fteik3d fslow 1 2 0.5 1 2 0.5 2 false)
  = Some [false; false; false; false; false; false; false; false; false;
          false; false; false; false; true; false; false; false; false;
          false; false; false; false; false; false; false; false; false].
Proof. vm_compute. reflexivity. Qed.
(* source on the corner node (2,2,2), with gradient *)
Example one_zero_corner :
  zeros (fteik3d fslow 1 2 0.5 2 4 1 2 true)
  = Some [false; false; false; false; false; false; false; false; false;
          false; false; false; false; false; false; false; false; false;
          false; false; false; false; false; false; false; false; true].
Proof. vm_compute. reflexivity. Qed.
(* source on an edge (x = 1 is not a node coordinate): no zero entry *)
Example no_zero_off_node :
  zeros (fteik3d fslow 1 2 0.5 1 1 0.5 2 false)
  = Some [false; false; false; false; false; false; false; false; false;
          false; false; false; false; false; false; false; false; false;
          false; false; false; false; false; false; false; false; false].
Proof. vm_compute. reflexivity. Qed.

(* the instance of fteik3d_zero_only_at_source_refuted in binary64: the grid returned by the generated code (and by the
   Python implementation: fteik3d(np.array([[[2e5],[9e5]]]), 1., 4., 1., 0., 4., 0., nsweep)) has TWO entries == 0.0: the
   source node (0,1,0) (flat index 2) and node (1,0,1) (flat index 7), for 1, 2 and 5 sweeps *)
Definition cxsF : arr float := mkarr [1%Z; 2%Z; 1%Z] [200000; 900000].
Example fteik3d_two_zeros_binary64 :
  forall n, In n [1%Z; 2%Z; 5%Z] ->
  zeros (fteik3d cxsF 1 4 1 0 4 0 n false)
  = Some [false; false; true; false; false; false; false; true; false; false; false; false].
Proof. intros n [<- | [<- | [<- | []]]]; vm_compute; reflexivity. Qed.
End Binary64.

Print Assumptions node_value_facts.
Print Assumptions sweep_inv3.
Print Assumptions sweep3d_inv3.
Print Assumptions init_posinv.
Print Assumptions fteik3d_zero_dichotomy.
Print Assumptions fteik3d_zero_only_at_source_partial.
Print Assumptions fteik3d_zero_only_at_source_iff_diag.
Print Assumptions fteik3d_pos_off_node.
Print Assumptions fteik3d_zero_at_source.
Print Assumptions fteik3d_zero_iff_source_partial.
Print Assumptions fteik3d_at_most_one_zero_partial.
Print Assumptions node_value_zero_gen.
Print Assumptions node_zero_refuted.
Print Assumptions sweep_not_posinv.
Print Assumptions fteik3d_zero_only_at_source_refuted.
Print Assumptions fteik3d_pos_off_node_ex.
Print Assumptions fteik3d_zero_at_source_ex.
Print Assumptions Binary64.one_zero_centre.
Print Assumptions Binary64.fteik3d_two_zeros_binary64.
