(* _vinterp2d (gen/Vinterp2d.v: u_vinterp2d_v): interpolation of a traveltime grid through APPARENT
   VELOCITIES.  With source s, query q, dq = |s q| and, for the corners c of the cell that contains q,
   d_c = |s c| and t_c = v[c]:

        result = dq / ( bilinear interpolation at q of the corner values a_c = d_c / t_c )

   except: outside the hull -> fval; q in the source's searchsorted cell -> vzero * dq; a corner time
   the kernel reads is 0 -> vzero * dq.  On a far face (query coordinate = last node) the kernel reads
   only the corners on that face (the mirrored dummy corners carry weight 0).
   Exact real arithmetic (T := R), axes ascending with >= 2 nodes; the outside-hull and source-cell
   statements hold for every numeric type. *)
From Coq Require Import ZArith List Bool Reals Lra Lia Psatz Field.
From FT.lib Require Import Num Arr NumArr ArrLemmas.
From FT.gen Require Import Common Vinterp2d.
From FT.proofs Require Import SSR InterpR.
Import ListNotations.
Open Scope R_scope.

(* ================================================================== *)
(* 1. statements that hold for every numeric type                       *)
(* ================================================================== *)
(* the code's own hull test is false: the fill value (NaN coordinates included, in the float instance) *)
Theorem vinterp2d_outside {T : Type} `{Num T} (x y v : arr T) (xq yq xsrc ysrc vzero fval : T) :
  (nleb (get (nofZ 0) x [0%Z]) xq && nleb xq (get (nofZ 0) x [(dim x 0%nat - 1)%Z])) &&
  (nleb (get (nofZ 0) y [0%Z]) yq && nleb yq (get (nofZ 0) y [(dim y 0%nat - 1)%Z])) = false ->
  u_vinterp2d_v x y v xq yq xsrc ysrc vzero fval = fval.
Proof. intros E. cbv beta zeta delta [u_vinterp2d_v]. rewrite E. reflexivity. Qed.

(* inside the hull, same searchsorted indices as the source: vzero * distance *)
Theorem vinterp2d_source_cell_gen {T : Type} `{Num T} (x y v : arr T) (xq yq xsrc ysrc vzero fval : T) :
  (nleb (get (nofZ 0) x [0%Z]) xq && nleb xq (get (nofZ 0) x [(dim x 0%nat - 1)%Z])) &&
  (nleb (get (nofZ 0) y [0%Z]) yq && nleb yq (get (nofZ 0) y [(dim y 0%nat - 1)%Z])) = true ->
  searchsorted_right x xsrc = searchsorted_right x xq ->
  searchsorted_right y ysrc = searchsorted_right y yq ->
  u_vinterp2d_v x y v xq yq xsrc ysrc vzero fval = nmul vzero (dist2d xsrc ysrc xq yq).
Proof.
  intros E Ex Ey. cbv beta zeta delta [u_vinterp2d_v]. rewrite E, Ex, Ey, !Z.eqb_refl. reflexivity.
Qed.

(* ================================================================== *)
(* 2. shared vocabulary (also used by Vinterp3R.v)                      *)
(* ================================================================== *)
(* Euclidean distances over R *)
Lemma dist2d_R a b c d : dist2d a b c d = R_sqrt.sqrt ((a - c) ^ 2 + (b - d) ^ 2).
Proof. unfold dist2d, norm2d. simpl. f_equal. ring. Qed.
Lemma dist2d_nonneg a b c d : 0 <= dist2d a b c d.
Proof. rewrite dist2d_R. apply sqrt_pos. Qed.
Lemma dist2d_zero a b c d : dist2d a b c d = 0 -> a = c /\ b = d.
Proof.
  rewrite dist2d_R. intros E.
  pose proof (pow2_ge_0 (a - c)) as P1. pose proof (pow2_ge_0 (b - d)) as P2.
  apply sqrt_eq_0 in E; [|lra].
  assert (E1 : (a - c) ^ 2 = 0) by lra. assert (E2 : (b - d) ^ 2 = 0) by lra.
  simpl in E1, E2. split; nra.
Qed.
Lemma dist2d_self a b : dist2d a b a b = 0.
Proof. rewrite dist2d_R. replace ((a - a) ^ 2 + (b - b) ^ 2) with 0 by ring. apply sqrt_0. Qed.

(* the kernel's own far-face test on one axis: the unclamped index is the last node *)
Definition far (x : arr R) (n : Z) (q : R) : bool := (searchsorted_right x q - 1 =? n - 1)%Z.

(* node indices (of the clamped cell [cell, cell+1]) whose times the kernel reads on one axis:
   always the upper node; the lower node unless the query lies on the far face *)
Definition used (x : arr R) (n : Z) (q : R) (k : Z) : Prop :=
  k = (cell x n q + 1)%Z \/ (k = cell x n q /\ far x n q = false).

Lemma used_hi x n q : used x n q (cell x n q + 1).
Proof. left; reflexivity. Qed.
Lemma used_lo x n q : far x n q = false -> used x n q (cell x n q).
Proof. intros F; right; split; auto. Qed.

Section Far.
Variables (x : arr R) (n : Z) (q : R).
Hypothesis A : axis x n.
Hypothesis Hlo : get 0 x [0%Z] <= q.
Hypothesis Hhi : q <= get 0 x [(n - 1)%Z].

Lemma far_true_iff : far x n q = true <-> q = get 0 x [(n - 1)%Z].
Proof.
  unfold far. rewrite Z.eqb_eq.
  destruct (ssrR_cases x n q A Hlo Hhi) as [(Hi & Hm & Hl & Hu) | (Hi & Hm & Hq & Hd)].
  - split; [lia|]. intros E. exfalso.
    assert (get 0 x [(searchsorted_right x q - 1 + 1)%Z] <= get 0 x [(n - 1)%Z])
      by (apply (axis_le x n); auto; lia).
    lra.
  - tauto.
Qed.

(* interior: strictly left of the upper node of the located cell; far face: on it *)
Lemma far_cases :
  (far x n q = false /\ q < get 0 x [(cell x n q + 1)%Z]) \/
  (far x n q = true /\ q = get 0 x [(cell x n q + 1)%Z] /\ (cell x n q + 1 = n - 1)%Z).
Proof.
  unfold far, cell.
  destruct (ssrR_cases x n q A Hlo Hhi) as [(Hi & Hm & Hl & Hu) | (Hi & Hm & Hq & Hd)]; rewrite Hm.
  - left. split; [apply Z.eqb_neq; lia | lra].
  - right. replace (n - 2 + 1)%Z with (n - 1)%Z by lia. repeat split; [apply Z.eqb_eq; lia | exact Hq].
Qed.

Lemma used_lo_lt : q < get 0 x [(cell x n q + 1)%Z] -> used x n q (cell x n q).
Proof.
  intros Hlt. apply used_lo. destruct far_cases as [(F & _) | (_ & E & _)]; [exact F | lra].
Qed.

(* in terms of the code's unclamped index i1 = searchsorted - 1: the kernel reads node i1 and,
   unless i1 is the last node, node i1 + 1 (the other corners are dummies with d = 0, t = 1) *)
Lemma used_code k :
  used x n q k <->
  (k = searchsorted_right x q - 1 \/
   (k = searchsorted_right x q - 1 + 1 /\ searchsorted_right x q - 1 <> n - 1))%Z.
Proof.
  unfold used, far, cell.
  destruct (ssrR_cases x n q A Hlo Hhi) as [(Hi & Hm & Hl & Hu) | (Hi & Hm & Hq & Hd)]; rewrite Hm.
  - assert (E : (searchsorted_right x q - 1 =? n - 1)%Z = false) by (apply Z.eqb_neq; lia).
    rewrite E. split; intros [K | [K1 K2]]; subst; auto; right; split; auto; lia.
  - assert (E : (searchsorted_right x q - 1 =? n - 1)%Z = true) by (apply Z.eqb_eq; lia).
    rewrite E. split; intros [K | [K1 K2]]; subst; try discriminate; try lia; left; lia.
Qed.

Lemma used_range k : used x n q k -> (0 <= k < n)%Z.
Proof.
  destruct (cell_facts x n q A Hlo Hhi) as (C & _). intros [K | [K _]]; lia.
Qed.
End Far.

(* "time is non-zero", masked: m = true marks a corner the kernel does not read *)
Definition nzm (m : bool) (t : R) : bool := m || negb (Reqb t 0).

Lemma nzm_true m t : (m = false -> t <> 0) -> nzm m t = true.
Proof. unfold nzm. destruct m; [reflexivity|]. intros Ht. rewrite (proj2 (Reqb_false t 0) (Ht eq_refl)). reflexivity. Qed.
Lemma nzm_zero : nzm false 0 = false.
Proof. unfold nzm. rewrite (proj2 (Reqb_true 0 0) eq_refl). reflexivity. Qed.
Lemma Reqb_1_0 : Reqb 1 0 = false.
Proof. apply Reqb_false. lra. Qed.

(* one axis: interior cell / far face; decide the kernel's `i1 =? n-1` in Eu and in the goal *)
Ltac decide_far i1 b tac :=
  repeat match goal with
  | H : context [Z.eqb i1 ?m] |- _ => replace (Z.eqb i1 m) with b in H by (symmetry; tac)
  | |- context [Z.eqb i1 ?m] => replace (Z.eqb i1 m) with b by (symmetry; tac)
  end.
Ltac vaxis_split C i1 :=
  let Hi := fresh "Hi" in let Hm := fresh "Hm" in let Hl := fresh "Hl" in
  let Hu := fresh "Hu" in let Hq := fresh "Hq" in let Hd := fresh "Hd" in
  destruct C as [(Hi & Hm & Hl & Hu) | (Hi & Hm & Hq & Hd)]; rewrite Hm;
  [ decide_far i1 false ltac:(apply Z.eqb_neq; lia)
  | decide_far i1 true ltac:(apply Z.eqb_eq; lia);
    subst i1;
    repeat match goal with |- context [(?n - 2 + 1)%Z] => replace (n - 2 + 1)%Z with (n - 1)%Z by lia end ].

(* booleans of the zero-time test: drop the dummies (t = 1) and the masked corners *)
Ltac norm_bools :=
  rewrite ?Reqb_1_0; cbn [orb andb negb]; rewrite ?andb_true_r; cbn [orb andb negb].

(* treat every apparent velocity d / v[...] as an atom (no side condition on unread times) *)
Ltac atom_quotients v :=
  repeat match goal with
  | |- context [?d / get 0 v ?idx] =>
      let a := fresh "a" in generalize (d / get 0 v idx); intros a
  end.

(* one branch of the kernel, after the axis splits: same test on both sides, then the weighted sums *)
Ltac vbranch_done u v :=
  subst u; cbn [fst snd]; norm_bools;
  match goal with
  | |- (if ?c then _ else _) = (if ?c then _ else _) => destruct c; [reflexivity|]
  | |- (if ?c then _ else _) = (if ?c' then _ else _) => fail 1 "tests differ:" c c'
  end;
  f_equal;
  repeat match goal with H : ?q = get _ _ _ |- _ => is_var q; subst q end;
  atom_quotients v;
  kill_abs; field; repeat split; lra.

(* ================================================================== *)
(* 3. the kernel, inside the hull and outside the source's cell         *)
(* ================================================================== *)
(* apparent velocity seen from the source at node (k,l) *)
Definition appvel2 (x y v : arr R) (xsrc ysrc : R) (k l : Z) : R :=
  dist2d xsrc ysrc (get 0 x [k]) (get 0 y [l]) / get 0 v [k; l].

(* distance / bilinear interpolation of the apparent velocities on cell (i,j) *)
Definition vbilin (x y v : arr R) (xsrc ysrc : R) (i j : Z) (xq yq : R) : R :=
  dist2d xsrc ysrc xq yq /
  bilin_core (get 0 x [i]) (get 0 x [(i + 1)%Z]) (get 0 y [j]) (get 0 y [(j + 1)%Z])
             (appvel2 x y v xsrc ysrc i j) (appvel2 x y v xsrc ysrc (i + 1) j)
             (appvel2 x y v xsrc ysrc i (j + 1)) (appvel2 x y v xsrc ysrc (i + 1) (j + 1)) xq yq.

(* all times the kernel reads are non-zero, as the boolean the kernel computes *)
Definition times_ok2 (x y v : arr R) (nx ny : Z) (xq yq : R) : bool :=
  let i := cell x nx xq in let j := cell y ny yq in
  let fx := far x nx xq in let fy := far y ny yq in
  nzm (fx || fy) (get 0 v [i; j]) && nzm fy (get 0 v [(i + 1)%Z; j]) &&
  nzm fx (get 0 v [i; (j + 1)%Z]) && nzm false (get 0 v [(i + 1)%Z; (j + 1)%Z]).

Lemma vinterp2d_char (x y v : arr R) (nx ny : Z) (xq yq xsrc ysrc vzero fval : R) :
  axis x nx -> axis y ny -> shape v = [nx; ny] ->
  get 0 x [0%Z] <= xq <= get 0 x [(nx - 1)%Z] ->
  get 0 y [0%Z] <= yq <= get 0 y [(ny - 1)%Z] ->
  ~ (searchsorted_right x xsrc = searchsorted_right x xq /\
     searchsorted_right y ysrc = searchsorted_right y yq) ->
  u_vinterp2d_v x y v xq yq xsrc ysrc vzero fval =
  if negb (times_ok2 x y v nx ny xq yq) then vzero * dist2d xsrc ysrc xq yq
  else vbilin x y v xsrc ysrc (cell x nx xq) (cell y ny yq) xq yq.
Proof.
  intros Ax Ay Sv [Hx0 Hx1] [Hy0 Hy1] NS.
  pose proof (ssrR_cases x nx xq Ax Hx0 Hx1) as Cx.
  pose proof (ssrR_cases y ny yq Ay Hy0 Hy1) as Cy.
  assert (NSb : ((searchsorted_right x xsrc - 1 =? searchsorted_right x xq - 1)%Z &&
                 (searchsorted_right y ysrc - 1 =? searchsorted_right y yq - 1)%Z)%bool = false).
  { apply andb_false_iff. rewrite !Z.eqb_neq.
    destruct (Z.eq_dec (searchsorted_right x xsrc) (searchsorted_right x xq));
    destruct (Z.eq_dec (searchsorted_right y ysrc) (searchsorted_right y yq)); try tauto; lia. }
  unfold vbilin, appvel2, bilin_core, times_ok2, nzm, far, cell, u_vinterp2d_v.
  cbv beta zeta. rewrite NSb.
  cbv beta iota zeta delta [nleb nsub nmul nadd ndiv nabs nofZ ntruthy neqb NumR]. cbn [fst snd].
  name_selection u Eu.
  rewrite ?(axis_dim x nx Ax), ?(axis_dim y ny Ay).
  rewrite ?(axis_dim x nx Ax), ?(axis_dim y ny Ay), ?(dim2_0 v nx ny Sv), ?(dim2_1 v nx ny Sv) in Eu.
  rewrite (proj2 (Rleb_true _ _) Hx0), (proj2 (Rleb_true _ _) Hx1),
          (proj2 (Rleb_true _ _) Hy0), (proj2 (Rleb_true _ _) Hy1).
  cbn [andb negb].
  clear NSb NS.
  remember (searchsorted_right x xq - 1)%Z as i1 eqn:Ei1. clear Ei1.
  remember (searchsorted_right y yq - 1)%Z as j1 eqn:Ej1. clear Ej1.
  vaxis_split Cx i1; vaxis_split Cy j1; cbn [andb negb] in Eu; vbranch_done u v.
Qed.

(* ================================================================== *)
(* 4. pure real-number facts: far faces, convexity over the read corners *)
(* ================================================================== *)
(* on the far x-face the two lower-x corner values carry weight 0: any values may stand there *)
Lemma bilin_core_far_x x1 x2 y1 y2 v11 v21 v12 v22 xq yq w11 w12 : x1 <> x2 -> xq = x2 ->
  bilin_core x1 x2 y1 y2 v11 v21 v12 v22 xq yq = bilin_core x1 x2 y1 y2 w11 v21 w12 v22 xq yq.
Proof.
  intros D ->. unfold bilin_core. cbv zeta.
  replace ((x2 - x1) / (x2 - x1)) with 1 by (field; lra). ring.
Qed.
Lemma bilin_core_far_y x1 x2 y1 y2 v11 v21 v12 v22 xq yq w11 w21 : y1 <> y2 -> yq = y2 ->
  bilin_core x1 x2 y1 y2 v11 v21 v12 v22 xq yq = bilin_core x1 x2 y1 y2 w11 w21 v12 v22 xq yq.
Proof.
  intros D ->. unfold bilin_core. cbv zeta.
  replace ((y2 - y1) / (y2 - y1)) with 1 by (field; lra). ring.
Qed.

(* linear interpolation on [a,b] *)
Definition lin_core (a b va vb q : R) : R := let t := (q - a) / (b - a) in (1 - t) * va + t * vb.

(* ... hence on a far face the bilinear interpolant is the linear one along that face,
   and at the far corner it is the corner value *)
Lemma bilin_core_on_far_x x1 x2 y1 y2 v11 v21 v12 v22 xq yq : x1 <> x2 -> xq = x2 ->
  bilin_core x1 x2 y1 y2 v11 v21 v12 v22 xq yq = lin_core y1 y2 v21 v22 yq.
Proof.
  intros D ->. unfold bilin_core, lin_core. cbv zeta.
  replace ((x2 - x1) / (x2 - x1)) with 1 by (field; lra). ring.
Qed.
Lemma bilin_core_on_far_y x1 x2 y1 y2 v11 v21 v12 v22 xq yq : y1 <> y2 -> yq = y2 ->
  bilin_core x1 x2 y1 y2 v11 v21 v12 v22 xq yq = lin_core x1 x2 v12 v22 xq.
Proof.
  intros D ->. unfold bilin_core, lin_core. cbv zeta.
  replace ((y2 - y1) / (y2 - y1)) with 1 by (field; lra). ring.
Qed.
Lemma bilin_core_on_far_xy x1 x2 y1 y2 v11 v21 v12 v22 xq yq : x1 <> x2 -> y1 <> y2 -> xq = x2 -> yq = y2 ->
  bilin_core x1 x2 y1 y2 v11 v21 v12 v22 xq yq = v22.
Proof. intros Dx Dy -> ->. unfold bilin_core. field. lra. Qed.

(* convexity needs bounds only on the corners that carry weight: the lower corner of an axis is
   exempt when the query sits on the upper node of that axis *)
Lemma bilin_core_convex_used x1 x2 y1 y2 v11 v21 v12 v22 xq yq lo hi :
  x1 < x2 -> x1 <= xq <= x2 -> y1 < y2 -> y1 <= yq <= y2 ->
  (xq < x2 -> yq < y2 -> lo <= v11 <= hi) -> (yq < y2 -> lo <= v21 <= hi) ->
  (xq < x2 -> lo <= v12 <= hi) -> lo <= v22 <= hi ->
  lo <= bilin_core x1 x2 y1 y2 v11 v21 v12 v22 xq yq <= hi.
Proof.
  intros Hx Hxq Hy Hyq H11 H21 H12 H22.
  destruct (Rle_lt_or_eq_dec _ _ (proj2 Hxq)) as [Lx|Ex];
  destruct (Rle_lt_or_eq_dec _ _ (proj2 Hyq)) as [Ly|Ey].
  - apply bilin_core_convex; auto.
  - rewrite (bilin_core_far_y x1 x2 y1 y2 v11 v21 v12 v22 xq yq v12 v22) by lra.
    apply bilin_core_convex; auto.
  - rewrite (bilin_core_far_x x1 x2 y1 y2 v11 v21 v12 v22 xq yq v21 v22) by lra.
    apply bilin_core_convex; auto.
  - rewrite (bilin_core_far_x x1 x2 y1 y2 v11 v21 v12 v22 xq yq v22 v22) by lra.
    rewrite (bilin_core_far_y x1 x2 y1 y2 v22 v21 v22 v22 xq yq v22 v22) by lra.
    apply bilin_core_convex; auto.
Qed.

(* ================================================================== *)
(* 5. the theorems                                                      *)
(* ================================================================== *)
Ltac split_andb :=
  repeat match goal with |- (_ && _)%bool = true => apply andb_true_intro; split end.
(* a `far x || far y || ... = false` hypothesis M gives each disjunct *)
Ltac far_false M :=
  revert M;
  repeat match goal with |- context [far ?a ?n ?q] => destruct (far a n q) end;
  simpl; intros; congruence.
Ltac used_side M := first [ apply used_hi | apply used_lo; far_false M ].
Ltac kill_andb_false :=
  repeat progress (rewrite ?andb_false_r; cbn [andb]).

Lemma used_node x n k : axis x n -> (0 <= k < n)%Z -> used x n (get 0 x [k]) k.
Proof.
  intros A Hk. pose proof (axis_n _ _ A) as N. unfold used, far.
  rewrite (cell_node x n k A Hk), (ssrR_node x n k A Hk).
  destruct (Z.eq_dec k (n - 1)) as [E|E]; [left; lia|].
  right. split; [lia | apply Z.eqb_neq; lia].
Qed.

Lemma hull1_true (a : arr R) n q : axis a n -> get 0 a [0%Z] <= q <= get 0 a [(n - 1)%Z] ->
  (nleb (get (nofZ 0) a [0%Z]) q && nleb q (get (nofZ 0) a [(dim a 0%nat - 1)%Z]))%bool = true.
Proof.
  intros A [H0 H1]. rewrite (axis_dim a n A). simpl.
  rewrite (proj2 (Rleb_true _ _) H0), (proj2 (Rleb_true _ _) H1). reflexivity.
Qed.

Section Theorems.
Variables (x y v : arr R) (nx ny : Z).
Hypothesis Ax : axis x nx.
Hypothesis Ay : axis y ny.
Hypothesis Sv : shape v = [nx; ny].

Section InHull.
Variables (xq yq xsrc ysrc vzero fval : R).
Hypothesis Hx : get 0 x [0%Z] <= xq <= get 0 x [(nx - 1)%Z].
Hypothesis Hy : get 0 y [0%Z] <= yq <= get 0 y [(ny - 1)%Z].

Local Notation dq := (R_sqrt.sqrt ((xsrc - xq) ^ 2 + (ysrc - yq) ^ 2)).
Local Notation result := (u_vinterp2d_v x y v xq yq xsrc ysrc vzero fval).
(* the query lies in the source's searchsorted cell *)
Local Notation same_cell :=
  (searchsorted_right x xsrc = searchsorted_right x xq /\
   searchsorted_right y ysrc = searchsorted_right y yq).
(* every time the kernel reads is non-zero *)
Local Notation times_nonzero :=
  (forall k l, used x nx xq k -> used y ny yq l -> get 0 v [k; l] <> 0).

Lemma times_ok2_true : times_nonzero -> times_ok2 x y v nx ny xq yq = true.
Proof.
  intros NZ. unfold times_ok2. cbv zeta. split_andb; apply nzm_true; intros M; apply NZ; used_side M.
Qed.

Lemma times_ok2_false :
  (exists k l, used x nx xq k /\ used y ny yq l /\ get 0 v [k; l] = 0) ->
  times_ok2 x y v nx ny xq yq = false.
Proof.
  intros (k & l & [-> | [-> Fx]] & [-> | [-> Fy]] & Z0); unfold times_ok2; cbv zeta;
  rewrite ?Fx, ?Fy, Z0; cbn [orb]; rewrite nzm_zero; kill_andb_false; reflexivity.
Qed.

(* 3a. the query shares the source's searchsorted cell *)
Theorem vinterp2d_source_cell : same_cell -> result = vzero * dq.
Proof.
  intros [Ex Ey]. rewrite <- dist2d_R.
  rewrite (vinterp2d_source_cell_gen x y v xq yq xsrc ysrc vzero fval); auto.
  rewrite (hull1_true x nx xq Ax Hx), (hull1_true y ny yq Ay Hy). reflexivity.
Qed.

(* 3b. not the source's cell, but one of the times the kernel reads is zero *)
Theorem vinterp2d_zero_corner : ~ same_cell ->
  (exists k l, used x nx xq k /\ used y ny yq l /\ get 0 v [k; l] = 0) ->
  result = vzero * dq.
Proof.
  intros NS Z0. rewrite <- dist2d_R.
  rewrite (vinterp2d_char x y v nx ny xq yq xsrc ysrc vzero fval Ax Ay Sv Hx Hy NS).
  rewrite (times_ok2_false Z0). reflexivity.
Qed.

(* 4. otherwise: distance over the bilinear interpolation of the apparent velocities, on the
      clamped cell.  On a far face the lower corners of that axis enter with weight 0
      (bilin_core_far_x/y: their values are irrelevant; vinterp2d_spec_far_faces below). *)
Theorem vinterp2d_spec : ~ same_cell -> times_nonzero ->
  result = vbilin x y v xsrc ysrc (cell x nx xq) (cell y ny yq) xq yq.
Proof.
  intros NS NZ.
  rewrite (vinterp2d_char x y v nx ny xq yq xsrc ysrc vzero fval Ax Ay Sv Hx Hy NS).
  rewrite (times_ok2_true NZ). reflexivity.
Qed.

(* the same, spelled out with the weights *)
Corollary vinterp2d_spec_weights : ~ same_cell -> times_nonzero ->
  let i := cell x nx xq in let j := cell y ny yq in
  let tx := (xq - get 0 x [i]) / (get 0 x [(i + 1)%Z] - get 0 x [i]) in
  let ty := (yq - get 0 y [j]) / (get 0 y [(j + 1)%Z] - get 0 y [j]) in
  let d k l := R_sqrt.sqrt ((xsrc - get 0 x [k]) ^ 2 + (ysrc - get 0 y [l]) ^ 2) in
  let t k l := get 0 v [k; l] in
  let i' := (i + 1)%Z in let j' := (j + 1)%Z in
  result = dq / ((1 - tx) * (1 - ty) * (d i j / t i j) + tx * (1 - ty) * (d i' j / t i' j) +
                 (1 - tx) * ty * (d i j' / t i j') + tx * ty * (d i' j' / t i' j')).
Proof.
  intros NS NZ i j tx ty d t i' j'. rewrite (vinterp2d_spec NS NZ).
  unfold vbilin, bilin_core, appvel2. rewrite !dist2d_R. reflexivity.
Qed.

(* the two descriptions of a far face agree: with the clamped cell (i,j), a query on the last x-node
   (resp. y-node) gets the LINEAR interpolation of the apparent velocities along that face, which
   only involves the corners the kernel reads *)
Theorem vinterp2d_spec_far_faces : ~ same_cell -> times_nonzero ->
  let i := cell x nx xq in let j := cell y ny yq in
  let a := appvel2 x y v xsrc ysrc in
  (xq = get 0 x [(nx - 1)%Z] ->
     (i + 1 = nx - 1)%Z /\
     result = dist2d xsrc ysrc xq yq /
              lin_core (get 0 y [j]) (get 0 y [(j + 1)%Z]) (a (i + 1)%Z j) (a (i + 1)%Z (j + 1)%Z) yq) /\
  (yq = get 0 y [(ny - 1)%Z] ->
     (j + 1 = ny - 1)%Z /\
     result = dist2d xsrc ysrc xq yq /
              lin_core (get 0 x [i]) (get 0 x [(i + 1)%Z]) (a i (j + 1)%Z) (a (i + 1)%Z (j + 1)%Z) xq) /\
  (xq = get 0 x [(nx - 1)%Z] -> yq = get 0 y [(ny - 1)%Z] ->
     result = dist2d xsrc ysrc xq yq / a (nx - 1)%Z (ny - 1)%Z).
Proof.
  intros NS NZ i j a. rewrite (vinterp2d_spec NS NZ). fold i j. unfold vbilin. fold a.
  destruct (cell_facts x nx xq Ax (proj1 Hx) (proj2 Hx)) as (_ & _ & Dx).
  destruct (cell_facts y ny yq Ay (proj1 Hy) (proj2 Hy)) as (_ & _ & Dy).
  fold i in Dx. fold j in Dy.
  assert (Fx : xq = get 0 x [(nx - 1)%Z] -> (i + 1 = nx - 1)%Z /\ xq = get 0 x [(i + 1)%Z]).
  { intros E. apply (far_true_iff x nx xq Ax (proj1 Hx) (proj2 Hx)) in E.
    destruct (far_cases x nx xq Ax (proj1 Hx) (proj2 Hx)) as [(F & _) | (_ & Eq & Ei)]; [congruence|].
    fold i in Eq, Ei. split; assumption. }
  assert (Fy : yq = get 0 y [(ny - 1)%Z] -> (j + 1 = ny - 1)%Z /\ yq = get 0 y [(j + 1)%Z]).
  { intros E. apply (far_true_iff y ny yq Ay (proj1 Hy) (proj2 Hy)) in E.
    destruct (far_cases y ny yq Ay (proj1 Hy) (proj2 Hy)) as [(F & _) | (_ & Eq & Ei)]; [congruence|].
    fold j in Eq, Ei. split; assumption. }
  split; [|split].
  - intros E. destruct (Fx E) as [Ei Eq]. split; [exact Ei|].
    rewrite (bilin_core_on_far_x _ _ _ _ _ _ _ _ xq yq) by (auto; lra). reflexivity.
  - intros E. destruct (Fy E) as [Ei Eq]. split; [exact Ei|].
    rewrite (bilin_core_on_far_y _ _ _ _ _ _ _ _ xq yq) by (auto; lra). reflexivity.
  - intros E E'. destruct (Fx E) as [Ei Eq]. destruct (Fy E') as [Ej Eq'].
    rewrite (bilin_core_on_far_xy _ _ _ _ _ _ _ _ xq yq) by (auto; lra).
    rewrite Ei, Ej. reflexivity.
Qed.

(* 5b. bounds: the result is the distance over a convex combination of the apparent velocities *)
Theorem vinterp2d_bounds (lo hi : R) : ~ same_cell -> 0 < lo ->
  (forall k l, used x nx xq k -> used y ny yq l ->
     get 0 v [k; l] <> 0 /\ lo <= appvel2 x y v xsrc ysrc k l <= hi) ->
  dq / hi <= result <= dq / lo.
Proof.
  intros NS Hlo Hb.
  assert (NZ : times_nonzero) by (intros k l Uk Ul; apply (Hb k l Uk Ul)).
  rewrite (vinterp2d_spec NS NZ). unfold vbilin. rewrite <- dist2d_R.
  destruct (cell_facts x nx xq Ax (proj1 Hx) (proj2 Hx)) as (_ & Bx & Dx).
  destruct (cell_facts y ny yq Ay (proj1 Hy) (proj2 Hy)) as (_ & By & Dy).
  pose proof (used_lo_lt x nx xq Ax (proj1 Hx) (proj2 Hx)) as Lx.
  pose proof (used_lo_lt y ny yq Ay (proj1 Hy) (proj2 Hy)) as Ly.
  pose proof (used_hi x nx xq) as Ux. pose proof (used_hi y ny yq) as Uy.
  match goal with |- _ <= _ / ?S <= _ => assert (HS : lo <= S <= hi) end.
  { apply bilin_core_convex_used; auto; intros; apply Hb; auto. }
  pose proof (dist2d_nonneg xsrc ysrc xq yq) as Dq.
  unfold Rdiv. split; apply Rmult_le_compat_l; auto; apply Rinv_le_contravar; lra.
Qed.

(* 5c. exact for a homogeneous medium: times proportional to the distance from the source *)
Theorem vinterp2d_homogeneous_exact (s : R) : ~ same_cell -> 0 < s ->
  (forall k l, used x nx xq k -> used y ny yq l ->
     0 < dist2d xsrc ysrc (get 0 x [k]) (get 0 y [l]) /\
     get 0 v [k; l] = s * dist2d xsrc ysrc (get 0 x [k]) (get 0 y [l])) ->
  result = s * dq.
Proof.
  intros NS Hs Hh.
  assert (P : 0 < 1 / s) by (apply Rdiv_lt_0_compat; lra).
  destruct (vinterp2d_bounds (1 / s) (1 / s) NS P) as [B1 B2].
  { intros k l Uk Ul. destruct (Hh k l Uk Ul) as [Dp Et]. unfold appvel2. rewrite Et.
    split; [nra|]. 
    replace (dist2d xsrc ysrc (get 0 x [k]) (get 0 y [l]) / (s * dist2d xsrc ysrc (get 0 x [k]) (get 0 y [l])))
      with (1 / s) by (field; lra). lra. }
  replace (dq / (1 / s)) with (s * dq) in B1, B2 by (field; lra). lra.
Qed.
End InHull.

(* 2. at the source itself (inside the hull): 0 *)
Theorem vinterp2d_source (xsrc ysrc vzero fval : R) :
  get 0 x [0%Z] <= xsrc <= get 0 x [(nx - 1)%Z] -> get 0 y [0%Z] <= ysrc <= get 0 y [(ny - 1)%Z] ->
  u_vinterp2d_v x y v xsrc ysrc xsrc ysrc vzero fval = 0.
Proof.
  intros Hx Hy. rewrite (vinterp2d_source_cell xsrc ysrc xsrc ysrc vzero fval Hx Hy (conj eq_refl eq_refl)).
  rewrite <- dist2d_R, dist2d_self. ring.
Qed.

(* 5a. at a node outside the source's cell, with non-zero times around: the node's time *)
Theorem vinterp2d_node (k l : Z) (xsrc ysrc vzero fval : R) : (0 <= k < nx)%Z -> (0 <= l < ny)%Z ->
  let xq := get 0 x [k] in let yq := get 0 y [l] in
  ~ (searchsorted_right x xsrc = searchsorted_right x xq /\
     searchsorted_right y ysrc = searchsorted_right y yq) ->
  (forall k' l', used x nx xq k' -> used y ny yq l' -> get 0 v [k'; l'] <> 0) ->
  u_vinterp2d_v x y v xq yq xsrc ysrc vzero fval = get 0 v [k; l].
Proof.
  intros Hk Hl xq yq NS NZ.
  rewrite (vinterp2d_spec xq yq xsrc ysrc vzero fval (hull_node x nx k Ax Hk) (hull_node y ny l Ay Hl) NS NZ).
  assert (Vn : get 0 v [k; l] <> 0) by (apply NZ; apply used_node; auto).
  assert (Dn : dist2d xsrc ysrc xq yq <> 0).
  { intros E. apply dist2d_zero in E as [E1 E2]. apply NS. rewrite E1, E2. split; reflexivity. }
  unfold xq, yq in *. rewrite (cell_node x nx k Ax Hk), (cell_node y ny l Ay Hl).
  pose proof (axis_n _ _ Ax) as Nx. pose proof (axis_n _ _ Ay) as Ny.
  remember (Z.min k (nx - 2)) as c eqn:Ec. remember (Z.min l (ny - 2)) as e eqn:Ee.
  assert (Hc : (0 <= c <= nx - 2)%Z) by lia. assert (He : (0 <= e <= ny - 2)%Z) by lia.
  pose proof (axis_lt x nx c (c + 1) Ax ltac:(lia)) as Dx.
  pose proof (axis_lt y ny e (e + 1) Ay ltac:(lia)) as Dy.
  unfold vbilin.
  destruct (bilin_core_corners (get 0 x [c]) (get 0 x [(c + 1)%Z]) (get 0 y [e]) (get 0 y [(e + 1)%Z])
              (appvel2 x y v xsrc ysrc c e) (appvel2 x y v xsrc ysrc (c + 1) e)
              (appvel2 x y v xsrc ysrc c (e + 1)) (appvel2 x y v xsrc ysrc (c + 1) (e + 1))
              ltac:(lra) ltac:(lra)) as (C11 & C21 & C12 & C22).
  assert (Kc : k = c \/ k = (c + 1)%Z) by lia. assert (Le : l = e \/ l = (e + 1)%Z) by lia.
  clear Ec Ee.
  destruct Kc as [Ek | Ek]; destruct Le as [El | El]; subst k l;
  first [rewrite C11 | rewrite C21 | rewrite C12 | rewrite C22]; unfold appvel2; field; split; assumption.
Qed.
End Theorems.

(* ================================================================== *)
(* 6. the hypotheses of vinterp2d_bounds are satisfiable: a 2 x 2 grid  *)
(* ================================================================== *)
(* nodes x = 0, 12 and y = 5, 9; source (0,0) (on the x = 0 grid line, below the grid);
   distances to the nodes 5, 9 (x = 0) and 13, 15 (x = 12);
   times 5, 9, 26, 30: apparent velocities 1, 1, 1/2, 1/2 *)
Definition xe : arr R := mkarr [2%Z] [0; 12].
Definition ye : arr R := mkarr [2%Z] [5; 9].
Definition ve : arr R := mkarr [2%Z; 2%Z] [5; 9; 26; 30].

Lemma axis2 (a b : R) : a < b -> axis (mkarr [2%Z] [a; b]) 2.
Proof.
  intros Hab. repeat split; try reflexivity; try lia.
  intros i j Hij. assert (i = 0%Z) by lia. assert (j = 1%Z) by lia. subst. unfold get; simpl. exact Hab.
Qed.

Lemma sqrt_of_square (a s : R) : 0 <= s -> a = s * s -> R_sqrt.sqrt a = s.
Proof. intros Hs ->. apply sqrt_square. exact Hs. Qed.

Example vinterp2d_bounds_example (xq yq vzero fval : R) : 0 <= xq <= 12 -> 5 <= yq <= 9 ->
  let dq := R_sqrt.sqrt ((0 - xq) ^ 2 + (0 - yq) ^ 2) in
  dq / 1 <= u_vinterp2d_v xe ye ve xq yq 0 0 vzero fval <= dq / (1 / 2).
Proof.
  intros Hx Hy dq.
  assert (Ax : axis xe 2) by (apply axis2; lra). assert (Ay : axis ye 2) by (apply axis2; lra).
  assert (Hx' : get 0 xe [0%Z] <= xq <= get 0 xe [(2 - 1)%Z]) by (unfold get; simpl; exact Hx).
  assert (Hy' : get 0 ye [0%Z] <= yq <= get 0 ye [(2 - 1)%Z]) by (unfold get; simpl; exact Hy).
  apply (vinterp2d_bounds xe ye ve 2 2 Ax Ay eq_refl xq yq 0 0 vzero fval Hx' Hy' (1 / 2) 1); [| lra |].
  - (* the source is below the first y-node: its y-index is -1, the query's is >= 0 *)
    intros [_ E].
    pose proof (ssrR_range ye 2 yq Ay (proj1 Hy')) as Rg.
    assert (E0 : searchsorted_right ye 0 = 0%Z).
    { unfold searchsorted_right, ye. simpl. rewrite (proj2 (Rltb_true 0 5)) by lra. reflexivity. }
    lia.
  - intros k l Uk Ul.
    apply (used_range xe 2 xq Ax (proj1 Hx') (proj2 Hx')) in Uk.
    apply (used_range ye 2 yq Ay (proj1 Hy') (proj2 Hy')) in Ul.
    assert (D00 : dist2d 0 0 0 5 = 5) by (rewrite dist2d_R; apply sqrt_of_square; [lra | ring]).
    assert (D01 : dist2d 0 0 0 9 = 9) by (rewrite dist2d_R; apply sqrt_of_square; [lra | ring]).
    assert (D10 : dist2d 0 0 12 5 = 13) by (rewrite dist2d_R; apply sqrt_of_square; [lra | ring]).
    assert (D11 : dist2d 0 0 12 9 = 15) by (rewrite dist2d_R; apply sqrt_of_square; [lra | ring]).
    assert (Hk : k = 0%Z \/ k = 1%Z) by lia. assert (Hl : l = 0%Z \/ l = 1%Z) by lia.
    assert (X0 : get 0 xe [0%Z] = 0) by reflexivity. assert (X1 : get 0 xe [1%Z] = 12) by reflexivity.
    assert (Y0 : get 0 ye [0%Z] = 5) by reflexivity. assert (Y1 : get 0 ye [1%Z] = 9) by reflexivity.
    assert (V00 : get 0 ve [0%Z; 0%Z] = 5) by reflexivity. assert (V01 : get 0 ve [0%Z; 1%Z] = 9) by reflexivity.
    assert (V10 : get 0 ve [1%Z; 0%Z] = 26) by reflexivity. assert (V11 : get 0 ve [1%Z; 1%Z] = 30) by reflexivity.
    destruct Hk as [-> | ->]; destruct Hl as [-> | ->]; unfold appvel2;
    rewrite ?X0, ?X1, ?Y0, ?Y1, ?V00, ?V01, ?V10, ?V11, ?D00, ?D01, ?D10, ?D11; split; lra.
Qed.

Print Assumptions vinterp2d_outside.
Print Assumptions vinterp2d_source_cell_gen.
Print Assumptions vinterp2d_source.
Print Assumptions vinterp2d_source_cell.
Print Assumptions vinterp2d_zero_corner.
Print Assumptions vinterp2d_spec.
Print Assumptions vinterp2d_spec_far_faces.
Print Assumptions vinterp2d_node.
Print Assumptions vinterp2d_bounds.
Print Assumptions vinterp2d_homogeneous_exact.
Print Assumptions vinterp2d_bounds_example.
