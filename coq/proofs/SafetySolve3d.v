(* Memory safety of the whole 3D solver (gen/Fteik3d.v: fteik3d), generic in the numeric type, all shapes with at
   least one cell per axis, all sources:
     sgn_inv3, sgn_inv3_zeros, sweep_preserves_sgn_inv3, sweep3d_preserves_tinv3
                               the 3D sign bookkeeping always points to an existing neighbour
     fteik3d_p1_ok_true        the gradient assembly (fteik3d_p1) only performs in-range accesses under sgn_inv3
     fteik3d_ok_true           fteik3d only performs in-range accesses (needs TruncDivLaw only: holds for the reals and for binary64)
   `f_ok true false args = true` : index obligations on, divisor obligations off.
   Compile proofs/SafetyTools.v, SafetySolveTools.v, Safety2d.v (sgn_ok only), Safety3d.v first. *)
From Coq Require Import ZArith List Bool Lia Reals.
From FT.lib Require Import Num Arr ArrLemmas.
From FT.gen Require Import Common Fteik3d.
From FT.proofs Require Import SafetyTools SafetySolveTools Safety3d.
From FT.proofs Require Safety2d.
Import ListNotations.
Open Scope Z_scope.

Lemma inb_sub3_true {A} (a : arr A) n0 n1 n2 l i j k :
  shape a = n0 :: n1 :: n2 :: l -> 0 <= i < n0 -> 0 <= j < n1 -> 0 <= k < n2 -> inb_sub a [i; j; k] = true.
Proof. intros E Hi Hj Hk. unfold inb_sub. rewrite E. cbn [inb_prefix].
  repeat (apply andb_true_intro; split);
    first [ reflexivity | apply Z.leb_le; lia | apply Z.ltb_lt; lia | destruct l; reflexivity ]. Qed.

(* ---------- the 3D sign bookkeeping (independent of the numeric type) ---------- *)
Notation sgn_ok := Safety2d.sgn_ok.
Definition sgn_inv3 (nz nx ny : Z) (sg : arr Z) : Prop :=
  wf sg /\ shape sg = [nz; nx; ny; 3] /\
  forall i j k, 0 <= i < nz -> 0 <= j < nx -> 0 <= k < ny ->
    sgn_ok (get 0 sg [i; j; k; 0]) i nz /\ sgn_ok (get 0 sg [i; j; k; 1]) j nx /\
    sgn_ok (get 0 sg [i; j; k; 2]) k ny.

Lemma sgn_inv3_zeros nz nx ny : 0 <= nz -> 0 <= nx -> 0 <= ny -> sgn_inv3 nz nx ny (full [nz; nx; ny; 3] 0).
Proof.
  intros Hnz Hnx Hny. split; [ apply wf_full; repeat constructor; lia | ]. split; [ reflexivity | ].
  intros i j k Hi Hj Hk.
  rewrite !get_full by (cbn [inb_sh]; repeat (apply andb_true_intro; split);
                        first [ reflexivity | apply Z.leb_le; lia | apply Z.ltb_lt; lia ]).
  split; [ | split ]; apply Safety2d.sgn_ok_0.
Qed.

Ltac neq_idx := let E := fresh "E" in intro E; injection E; intros; lia.

Lemma sgn_inv3_set3 nz nx ny sg i j k a b c :
  sgn_inv3 nz nx ny sg -> 0 <= i < nz -> 0 <= j < nx -> 0 <= k < ny ->
  sgn_ok a i nz -> sgn_ok b j nx -> sgn_ok c k ny ->
  sgn_inv3 nz nx ny (set (set (set sg [i; j; k; 0] a) [i; j; k; 1] b) [i; j; k; 2] c).
Proof.
  intros (W & S & Hq) Hi Hj Hk Ha Hb Hc.
  assert (W1 : wf (set sg [i; j; k; 0] a)) by (apply wf_set; exact W).
  assert (W2 : wf (set (set sg [i; j; k; 0] a) [i; j; k; 1] b)) by (apply wf_set; exact W1).
  assert (I0 : forall p q r d, 0 <= p < nz -> 0 <= q < nx -> 0 <= r < ny -> 0 <= d < 3 ->
               inb sg [p; q; r; d] = true) by (intros; eapply inb4_true; eauto).
  assert (I1 : forall p q r d, 0 <= p < nz -> 0 <= q < nx -> 0 <= r < ny -> 0 <= d < 3 ->
               inb (set sg [i; j; k; 0] a) [p; q; r; d] = true)
    by (intros; rewrite inb_set; apply I0; assumption).
  assert (I2 : forall p q r d, 0 <= p < nz -> 0 <= q < nx -> 0 <= r < ny -> 0 <= d < 3 ->
               inb (set (set sg [i; j; k; 0] a) [i; j; k; 1] b) [p; q; r; d] = true)
    by (intros; rewrite inb_set; apply I1; assumption).
  split; [ apply wf_set; exact W2 | ]. split; [ exact S | ].
  intros p q r Hp Hq' Hr.
  destruct (Z.eq_dec p i) as [-> | Np]; [ destruct (Z.eq_dec q j) as [-> | Nq];
                                          [ destruct (Z.eq_dec r k) as [-> | Nr] | ] | ].
  - split; [ | split ].
    + rewrite !get_set_other by (first [ apply I2; lia | apply I1; lia | neq_idx ]).
      rewrite get_set_same by (first [ exact W | apply I0; lia ]). exact Ha.
    + rewrite get_set_other by (first [ apply I2; lia | neq_idx ]).
      rewrite get_set_same by (first [ exact W1 | apply I1; lia ]). exact Hb.
    + rewrite get_set_same by (first [ exact W2 | apply I2; lia ]). exact Hc.
  - rewrite !get_set_other by (first [ apply I2; lia | apply I1; lia | apply I0; lia | neq_idx ]).
    apply Hq; assumption.
  - rewrite !get_set_other by (first [ apply I2; lia | apply I1; lia | apply I0; lia | neq_idx ]).
    apply Hq; assumption.
  - rewrite !get_set_other by (first [ apply I2; lia | apply I1; lia | apply I0; lia | neq_idx ]).
    apply Hq; assumption.
Qed.

Section S3.
Context {T : Type} `{Num T}.

Lemma sgn_ok_dirp sgnv sgnt idx n : dirp sgnv sgnt idx n -> sgn_ok sgnt idx n /\ 0 <= idx < n.
Proof. unfold dirp, Safety2d.sgn_ok. lia. Qed.

Theorem sweep_preserves_sgn_inv3 (tt : arr T) ttsgn (slow : arr T) dargs
        i j k sgnvz sgnvx sgnvy sgntz sgntx sgnty nz nx ny grad :
  sgn_inv3 nz nx ny ttsgn -> dirp sgnvz sgntz i nz -> dirp sgnvx sgntx j nx -> dirp sgnvy sgnty k ny ->
  sgn_inv3 nz nx ny (snd (sweep tt ttsgn slow dargs i j k sgnvz sgnvx sgnvy sgntz sgntx sgnty nz nx ny grad)).
Proof.
  intros Hinv Di Dj Dk.
  destruct (sgn_ok_dirp _ _ _ _ Di) as [Oz Hi]. destruct (sgn_ok_dirp _ _ _ _ Dj) as [Ox Hj].
  destruct (sgn_ok_dirp _ _ _ _ Dk) as [Oy Hk].
  destruct (sweep_snd_char tt ttsgn slow dargs i j k sgnvz sgnvx sgnvy sgntz sgntx sgnty nz nx ny grad)
    as [-> | (_ & a & b & c & Ha & Hb & Hc & ->)]; [ exact Hinv | ].
  apply sgn_inv3_set3; auto.
  - destruct Ha as [-> | ->]; [ exact Oz | apply Safety2d.sgn_ok_0 ].
  - destruct Hb as [-> | ->]; [ exact Ox | apply Safety2d.sgn_ok_0 ].
  - destruct Hc as [-> | ->]; [ exact Oy | apply Safety2d.sgn_ok_0 ].
Qed.

(* loop invariant of the sweeps: shape of the traveltime grid, and the sign invariant when gradients are requested *)
Definition tinv3 (nz nx ny : Z) (grad : bool) (s : arr T * arr Z) : Prop :=
  shape (fst s) = [nz; nx; ny] /\ (grad = true -> sgn_inv3 nz nx ny (snd s)).
Lemma tinv3_eta nz nx ny grad s : tinv3 nz nx ny grad s -> tinv3 nz nx ny grad (fst s, snd s).
Proof. intros Hs. exact Hs. Qed.
Lemma tinv3_sweep nz nx ny grad tt ttsgn (slow : arr T) dargs i j k sgnvz sgnvx sgnvy sgntz sgntx sgnty :
  dirp sgnvz sgntz i nz -> dirp sgnvx sgntx j nx -> dirp sgnvy sgnty k ny ->
  tinv3 nz nx ny grad (tt, ttsgn) ->
  tinv3 nz nx ny grad
    (fst (sweep tt ttsgn slow dargs i j k sgnvz sgnvx sgnvy sgntz sgntx sgnty nz nx ny grad),
     snd (sweep tt ttsgn slow dargs i j k sgnvz sgnvx sgnvy sgntz sgntx sgnty nz nx ny grad)).
Proof.
  intros Di Dj Dk [H1 H2]. cbn [fst snd] in *. split; cbn [fst snd].
  - rewrite sweep_fst_shape. exact H1.
  - intros G. apply sweep_preserves_sgn_inv3; auto.
Qed.

(* walks through value-level code one binding at a time: loops are cut out with the invariant, the rest is substituted *)
Ltac t3_walk :=
  cbv beta;
  lazymatch goal with
  | |- tinv3 ?a ?b ?c ?g (let x := for_list ?l ?bd ?s in @?F x) =>
      let Hx := fresh "Hx" in let X := fresh "X" in
      assert (Hx : tinv3 a b c g (for_list l bd s))
        by (apply for_list_inv; [ t3_walk | intros ? ? ? ?; t3_walk ]);
      revert Hx; generalize (for_list l bd s); intros X Hx;
      change (tinv3 a b c g (F X)); t3_walk
  | |- tinv3 ?a ?b ?c ?g (let x := ?v in @?F x) =>
      let G := eval cbv beta in (F v) in change (tinv3 a b c g G); t3_walk
  | |- tinv3 _ _ _ _ (fst ?x, snd ?x) =>
      first [ assumption
            | apply tinv3_sweep;
              [ range_hyps; unfold dirp; lia | range_hyps; unfold dirp; lia | range_hyps; unfold dirp; lia
              | t3_walk ]
            | apply tinv3_eta; t3_walk ]
  | |- _ => assumption
  end.

Theorem sweep3d_preserves_tinv3 (tt : arr T) ttsgn (slow : arr T) (dz dx dy : T) nz nx ny grad :
  tinv3 nz nx ny grad (tt, ttsgn) ->
  tinv3 nz nx ny grad (sweep3d tt ttsgn slow dz dx dy nz nx ny grad).
Proof. intros H0. cbv beta delta [sweep3d]. t3_walk. Qed.


Lemma tinv3_sweep3d_pair nz nx ny grad tt ttsgn (slow : arr T) (dz dx dy : T) :
  tinv3 nz nx ny grad (tt, ttsgn) ->
  tinv3 nz nx ny grad (fst (sweep3d tt ttsgn slow dz dx dy nz nx ny grad),
                       snd (sweep3d tt ttsgn slow dz dx dy nz nx ny grad)).
Proof. intros H0. apply tinv3_eta. apply sweep3d_preserves_tinv3. exact H0. Qed.

Ltac t3_walk2 :=
  cbv beta;
  lazymatch goal with
  | |- tinv3 ?a ?b ?c ?g (let x := for_list ?l ?bd ?s in @?F x) =>
      let Hx := fresh "Hx" in let X := fresh "X" in
      assert (Hx : tinv3 a b c g (for_list l bd s))
        by (apply for_list_inv; [ t3_walk2 | intros ? ? ? ?; t3_walk2 ]);
      revert Hx; generalize (for_list l bd s); intros X Hx;
      change (tinv3 a b c g (F X)); t3_walk2
  | |- tinv3 ?a ?b ?c ?g (let x := ?v in @?F x) =>
      let G := eval cbv beta in (F v) in change (tinv3 a b c g G); t3_walk2
  | |- tinv3 _ _ _ _ (for_list _ _ _) => apply for_list_inv; [ t3_walk2 | intros ? ? ? ?; t3_walk2 ]
  | |- tinv3 _ _ _ _ (fst ?x, snd ?x) =>
      first [ assumption | apply tinv3_sweep3d_pair; t3_walk2 | apply tinv3_eta; t3_walk2 ]
  | |- _ => assumption
  end.

(* ---------- the gradient assembly ---------- *)
(* shape of an array-valued let-chain: loops and conditional updates are cut out, every array has the shape sh *)
Ltac sh_walk :=
  cbv beta;
  lazymatch goal with
  | |- shape (let x := ?v in @?F x) = ?sh =>
      let tv := type of v in
      lazymatch tv with
      | arr _ =>
          let Hx := fresh "Hx" in let X := fresh "X" in
          assert (Hx : shape v = sh) by sh_walk;
          revert Hx; generalize v; intros X Hx; change (shape (F X) = sh); sh_walk
      | _ => let G := eval cbv beta in (F v) in change (shape G = sh); sh_walk
      end
  | |- shape (for_list ?l ?b ?s) = ?sh =>
      apply (for_list_inv (fun g => shape g = sh) l b s); [ sh_walk | intros ? ? ? ?; sh_walk ]
  | |- shape (if ?c then _ else _) = _ => destruct c; sh_walk
  | |- shape (set _ _ _) = _ => rewrite shape_set; sh_walk
  | |- shape (set_sub _ _ _) = _ => rewrite shape_set_sub; sh_walk
  | |- _ => assumption
  end.

Lemma t_anad_ok_true3 wI i j k (dz dx dy zsa xsa ysa vzero : T) :
  t_anad_ok wI false i j k dz dx dy zsa xsa ysa vzero = true.
Proof. cbv beta delta [t_anad_ok t_ana_ok]. ok_walk fail. Qed.

Theorem fteik3d_p1_ok_true (dx dy dz : T) grad i j k nx ny nz (tt ttgrad : arr T) (ttsgn : arr Z) :
  shape tt = [nz; nx; ny] ->
  (grad = true -> sgn_inv3 nz nx ny ttsgn /\ shape ttgrad = [nz; nx; ny; 3]) ->
  fteik3d_p1_ok true false dx dy dz grad i j k nx ny nz tt ttgrad ttsgn = true.
Proof.
  intros Htt Hg. cbv beta delta [fteik3d_p1_ok].
  destruct grad; [ destruct (Hg eq_refl) as [(W & Ssg & Hq) Sg] | ]; clear Hg.
  - okw ltac:(fun A => constr:(fun g : arr T => shape g = [nz; nx; ny; 3]))
        ltac:(fun S => constr:(fun g : arr T => shape g = [nz; nx; ny; 3]))
        let_post2 ltac:(fun Hh => idtac) ltac:(cbv beta; sh_walk) ltac:(fun s => cbv beta; sh_walk)
        ltac:(first [ reflexivity
                    | range_hyps;
                      match goal with
                      | Hi : 0 <= ?i' < nz, Hj : 0 <= ?j' < nx, Hk : 0 <= ?k' < ny |- _ =>
                          destruct (Hq i' j' k' Hi Hj Hk) as (Fz & Fx & Fy);
                          unfold Safety2d.sgn_ok in Fz, Fx, Fy
                      end;
                      first [ inb_solve
                            | unfold obI; eapply inb_sub3_true; [ eassumption | lia | lia | lia ] ] ]).
  - okw ltac:(fun A => constr:(fun g : arr T => True)) ltac:(fun S => constr:(fun g : arr T => True))
        let_post2 ltac:(fun Hh => idtac) ltac:(exact I) ltac:(fun s => exact I) ltac:(reflexivity).
Qed.

(* ---------- the solver ---------- *)
Section Solver.
Context `{!TruncDivLaw T}.

Ltac add_trunc_facts :=
  repeat match goal with
  | Hz : nleb (nofZ 0) ?z = true, Hd : nltb (nofZ 0) ?d = true |- _ =>
      lazymatch goal with
      | _ : 0 <= ntrunc (ndiv z d) |- _ => fail
      | _ => pose proof (trunc_div_nonneg z d Hz Hd)
      end
  end.

(* scalar bindings (integers, truth values, quotients) are substituted, arrays are replaced by their shapes *)
Ltac post3 x Hx v :=
  lazymatch type of x with
  | Z => subst x
  | bool => subst x
  | _ => lazymatch v with
         | ndiv _ _ => subst x
         | _ => let_post2 x Hx v
         end
  end.

Ltac isolve3t :=
  cbv beta;
  lazymatch goal with
  | |- tinv3 _ _ _ _ (for_list _ _ _) => apply for_list_inv; [ isolve3t | intros ? ? ? ?; t3_walk2 ]
  | |- tinv3 _ _ _ _ _ =>
      split; cbn [fst snd];
      [ assumption
      | intros _;
        first [ assumption
              | match goal with Hq : ?a = full _ 0 |- sgn_inv3 _ _ _ ?a =>
                  rewrite Hq; apply sgn_inv3_zeros; lia end ] ]
  | |- _ => assumption
  end.
Ltac isolve3f :=
  cbv beta;
  lazymatch goal with
  | |- tinv3 _ _ _ _ (for_list _ _ _) => apply for_list_inv; [ isolve3f | intros ? ? ? ?; t3_walk2 ]
  | |- tinv3 _ _ _ _ _ =>
      split; cbn [fst snd]; [ assumption | let E := fresh "E" in intros E; discriminate E ]
  | |- _ => exact I
  end.

Theorem fteik3d_ok_true (slow : arr T) (dz dx dy zsrc xsrc ysrc : T) (nsweep : Z) (grad : bool) (nz nx ny : Z) :
  shape slow = [nz; nx; ny] -> 1 <= nz -> 1 <= nx -> 1 <= ny ->
  nltb (nofZ 0) dz = true -> nltb (nofZ 0) dx = true -> nltb (nofZ 0) dy = true ->
  fteik3d_ok true false slow dz dx dy zsrc xsrc ysrc nsweep grad = true.
Proof.
  intros Hs Hnz Hnx Hny Hdz Hdx Hdy.
  assert (Hslow' : shape slow = [nz + 1 - 1; nx + 1 - 1; ny + 1 - 1])
    by (rewrite Hs; repeat (f_equal; try lia)).
  cbv beta delta [fteik3d_ok].
  rewrite (dim_0 slow nz [nx; ny] Hs), (dim_1 slow nz nx [ny] Hs), (dim_2 slow nz nx ny [] Hs).
  destruct grad.
  - okw ltac:(fun A => lazymatch A with
                       | arr T => constr:(fun g : arr T => shape g = [nz + 1; nx + 1; ny + 1; 3])
                       end)
        ltac:(fun S => constr:(tinv3 (nz + 1) (nx + 1) (ny + 1) true))
        post3
        ltac:(fun Hh => unfold tinv3 in Hh; cbn [fst snd] in Hh)
        isolve3t
        ltac:(fun s => cbv beta; t3_walk2)
        ltac:(first [ apply t_anad_ok_true3
                    | apply sweep3d_ok_true; first [ lia | assumption | intros _; match goal with Hq : sgn_inv3 _ _ _ _ |- _ => apply Hq end ]
                    | apply fteik3d_p1_ok_true; [ assumption | intros _; split; assumption ]
                    | add_trunc_facts; inb_solve ]).
  - okw ltac:(fun A => lazymatch A with
                       | arr T => constr:(fun g : arr T => True)
                       end)
        ltac:(fun S => constr:(tinv3 (nz + 1) (nx + 1) (ny + 1) false))
        post3
        ltac:(fun Hh => unfold tinv3 in Hh; cbn [fst snd] in Hh)
        isolve3f
        ltac:(fun s => cbv beta; t3_walk2)
        ltac:(first [ apply t_anad_ok_true3
                    | apply sweep3d_ok_true; first [ lia | assumption | let E := fresh "E" in intros E; discriminate E ]
                    | apply fteik3d_p1_ok_true; [ assumption | let E := fresh "E" in intros E; discriminate E ]
                    | add_trunc_facts; inb_solve ]).
Qed.
End Solver.
End S3.

(* the theorem at the reals *)
Corollary fteik3d_ok_true_R (slow : arr R) (dz dx dy zsrc xsrc ysrc : R) (nsweep : Z) (grad : bool) (nz nx ny : Z) :
  shape slow = [nz; nx; ny] -> 1 <= nz -> 1 <= nx -> 1 <= ny -> (0 < dz)%R -> (0 < dx)%R -> (0 < dy)%R ->
  fteik3d_ok true false slow dz dx dy zsrc xsrc ysrc nsweep grad = true.
Proof.
  intros Hs Hnz Hnx Hny Hdz Hdx Hdy.
  apply (@fteik3d_ok_true R NumR TruncDivLawR slow dz dx dy zsrc xsrc ysrc nsweep grad nz nx ny Hs Hnz Hnx Hny);
    apply Rltb_true; assumption.
Qed.

(* the theorem at binary64 (NaN and infinities included; the only laws used are those of TruncDivLawF) *)
Corollary fteik3d_ok_true_F (slow : arr PrimFloat.float) (dz dx dy zsrc xsrc ysrc : PrimFloat.float)
          (nsweep : Z) (grad : bool) (nz nx ny : Z) :
  shape slow = [nz; nx; ny] -> 1 <= nz -> 1 <= nx -> 1 <= ny ->
  PrimFloat.ltb (f_ofZ 0) dz = true -> PrimFloat.ltb (f_ofZ 0) dx = true -> PrimFloat.ltb (f_ofZ 0) dy = true ->
  fteik3d_ok true false slow dz dx dy zsrc xsrc ysrc nsweep grad = true.
Proof. apply (@fteik3d_ok_true PrimFloat.float NumF TruncDivLawF). Qed.

Print Assumptions sgn_inv3_zeros.
Print Assumptions sweep_preserves_sgn_inv3.
Print Assumptions sweep3d_preserves_tinv3.
Print Assumptions fteik3d_p1_ok_true.
Print Assumptions fteik3d_ok_true.
Print Assumptions fteik3d_ok_true_R.
Print Assumptions fteik3d_ok_true_F.
