(* Local update operators of the 2D fast-sweeping eikonal solver (gen/Fteik2d.v: t_ana, t_anad, delta, sweep)
   over the reals (T := R, instance NumR).  All statements are about the GENERATED definitions.

     A. exactness in homogeneous media / on plane waves
          t_ana_exact, t_anad_exact, delta_spherical_exact (+ _neg),
          sweep_uses_four_point, four_point_exact_on_plane_wave, sweep_four_point_plane_wave,
          sweep_uses_three_point_e/_v, three_point_e/_v_exact_on_plane_wave, sweep_three_point_*_plane_wave
     B. unit invariance (c > 0)
          t_ana_scale_slowness/_length, t_anad_scale_slowness/_length, delta_scale_slowness/_length,
          sweep_scale_slowness/_length (with the explicit `Big` caveat)
     C. symmetry under exchanging the two axes
          t_ana_swap, t_anad_swap, delta_swap, four_point_swap, three_point_swap

   Orientation used by the code (sweep): tv = tt[i-sgntz, j] is the z-neighbour, te = tt[i, j-sgntx] the x-neighbour,
   tev = tt[i-sgntz, j-sgntx] the diagonal neighbour of node (i,j). *)
From Coq Require Import ZArith List Bool Lia Reals Lra Psatz.
From FT.lib Require Import Num Arr.
From FT.gen Require Import Fteik2d.
Import ListNotations.
Open Scope R_scope.

(* every numeric variable below is a real: T := R *)
Implicit Types (dz dx zsa xsa zsi xsi v vzero vref c s a b t tauv taue tauev t0c tzc txc dzi dxi dz2i dx2i : R).
Implicit Types (tv te tev x y : R) (i j sgntz sgntx sgnvz sgnvx nz nx : Z) (tt slow : arr R).

(* ------------------------------------------------------------------------------------------ *)
(* tools                                                                                        *)
(* ------------------------------------------------------------------------------------------ *)

(* Num operations at the R instance are the R operations (all by computation) *)
Ltac numR := cbn [nadd nsub nmul ndiv nsqrt nabs nneg nltb nleb neqb nofZ nofQ NumR] in *.
Ltac unnum := unfold nsq, ngtb, ngeb, nneb, pymin3, pymin2 in *; numR.

Lemma sqrt_sq_nonneg x : 0 <= x -> sqrt (x * x) = x.
Proof. apply sqrt_square. Qed.
Lemma sqrt_sq_abs x : sqrt (x * x) = Rabs x.
Proof. apply sqrt_Rsqr_abs. Qed.
(* sqrt is positively homogeneous of degree 1/2, with no side condition on the radicand *)
Lemma sqrt_scale c x : 0 <= c -> sqrt (c * c * x) = c * sqrt x.
Proof. intros Hc. rewrite sqrt_mult_alt by nra. rewrite sqrt_square by exact Hc. reflexivity. Qed.
Lemma sqrt_scale' c x y : 0 <= c -> y = c * c * x -> sqrt y = c * sqrt x.
Proof. intros Hc ->. apply sqrt_scale, Hc. Qed.

Lemma sq_scale_nonneg c x : 0 < c -> (0 <= c * c * x <-> 0 <= x).
Proof. intros Hc. assert (H2 : 0 < c * c) by nra. split; intros Hd.
  - apply (Rmult_le_reg_l (c * c)); [exact H2|]. lra.
  - apply Rmult_le_pos; lra. Qed.

Lemma Rleb_scale c a b : 0 < c -> Rleb (c * a) (c * b) = Rleb a b.
Proof. intros Hc. destruct (Rleb a b) eqn:E.
  - apply Rleb_true in E. apply Rleb_true. nra.
  - apply Rleb_false in E. apply Rleb_false. nra. Qed.
Lemma Rltb_scale c a b : 0 < c -> Rltb (c * a) (c * b) = Rltb a b.
Proof. intros Hc. destruct (Rltb a b) eqn:E.
  - apply Rltb_true in E. apply Rltb_true. nra.
  - apply Rltb_false in E. apply Rltb_false. nra. Qed.
Lemma Rleb_ext a b a' b' : (a <= b <-> a' <= b') -> Rleb a b = Rleb a' b'.
Proof. intros Hi. destruct (Rleb a' b') eqn:E.
  - apply Rleb_true in E. apply Rleb_true. tauto.
  - apply Rleb_false in E. apply Rleb_false. destruct (Rle_dec a b); [exfalso|]; lra || tauto. Qed.
Lemma Rltb_ext a b a' b' : (a < b <-> a' < b') -> Rltb a b = Rltb a' b'.
Proof. intros Hi. destruct (Rltb a' b') eqn:E.
  - apply Rltb_true in E. apply Rltb_true. tauto.
  - apply Rltb_false in E. apply Rltb_false. destruct (Rlt_dec a b); [exfalso|]; lra || tauto. Qed.

(* ------------------------------------------------------------------------------------------ *)
(* A1  analytic traveltime in a homogeneous medium: time = slowness * distance                 *)
(* ------------------------------------------------------------------------------------------ *)

Theorem t_ana_exact i j dz dx zsa xsa v :
  t_ana i j dz dx zsa xsa v = v * sqrt ((dz * (IZR i - zsa)) ^ 2 + (dx * (IZR j - xsa)) ^ 2).
Proof. unfold t_ana. unnum. f_equal. f_equal. ring. Qed.

(* first component: the time; the others: its partial derivatives  dt/dz = v^2 (i - zsa) dz / t,
   dt/dx = v^2 (j - xsa) dx / t  (zero at the source, where t is not differentiable) *)
Theorem t_anad_exact i j dz dx zsa xsa v :
  t_anad i j dz dx zsa xsa v =
    (t_ana i j dz dx zsa xsa v,
     (if Rlt_dec 0 (t_ana i j dz dx zsa xsa v) then v ^ 2 * (IZR i - zsa) * dz / t_ana i j dz dx zsa xsa v else 0),
     (if Rlt_dec 0 (t_ana i j dz dx zsa xsa v) then v ^ 2 * (IZR j - xsa) * dx / t_ana i j dz dx zsa xsa v else 0)).
Proof.
  unfold t_anad. set (t := t_ana i j dz dx zsa xsa v). cbv zeta. unnum. unfold Rltb.
  destruct (Rlt_dec 0 t); cbn [fst snd]; [|reflexivity].
  f_equal; [f_equal|]; unfold Rdiv; ring.
Qed.

Corollary t_anad_fst i j dz dx zsa xsa v :
  fst (fst (t_anad i j dz dx zsa xsa v)) = t_ana i j dz dx zsa xsa v.
Proof. rewrite t_anad_exact. reflexivity. Qed.

(* the derivative components really are the partial derivatives of the distance function: with
   t = v * r, r = sqrt (Z^2 + X^2), Z = dz (i - zsa):  v^2 Z / t = v * Z / r  *)
Lemma t_anad_is_gradient i j dz dx zsa xsa v :
  let Z := dz * (IZR i - zsa) in let X := dx * (IZR j - xsa) in
  let r := sqrt (Z ^ 2 + X ^ 2) in
  0 < v -> 0 < r ->
  t_anad i j dz dx zsa xsa v = (v * r, v * (Z / r), v * (X / r)).
Proof.
  intros Z X r Hv Hr. rewrite t_anad_exact. rewrite !t_ana_exact. fold Z X r.
  destruct (Rlt_dec 0 (v * r)) as [_|N]; [|exfalso; apply N; nra].
  f_equal; [f_equal|]; unfold Z, X; field; lra.
Qed.

(* ------------------------------------------------------------------------------------------ *)
(* delta: the quadratic it solves                                                               *)
(* ------------------------------------------------------------------------------------------ *)
Definition delta_b (tauv taue tauev tzc txc dzi dxi dz2i dx2i : R) (sgntz sgntx : Z) : R :=
  4 * (IZR sgntx * txc * dxi + IZR sgntz * tzc * dzi)
  - 2 * ((tauev + taue - tauv) * dx2i + (tauev - taue + tauv) * dz2i).
Definition delta_c (tauv taue tauev tzc txc dzi dxi dz2i dx2i vzero vref : R) (sgntz sgntx : Z) : R :=
  let ta := tauev + taue - tauv in let tb := tauev - taue + tauv in
  ta * ta * dx2i + tb * tb * dz2i - 4 * (IZR sgntx * txc * dxi * ta + IZR sgntz * tzc * dzi * tb)
  + 4 * (vzero * vzero - vref * vref).
Definition delta_d (tauv taue tauev tzc txc dzi dxi dz2i dx2i vzero vref : R) (sgntz sgntx : Z) : R :=
  let b := delta_b tauv taue tauev tzc txc dzi dxi dz2i dx2i sgntz sgntx in
  b * b - 4 * (dz2i + dx2i) * delta_c tauv taue tauev tzc txc dzi dxi dz2i dx2i vzero vref sgntz sgntx.

(* characterisation of the generated delta *)
Lemma delta_eq t1 tauv taue tauev t0c tzc txc dzi dxi dz2i dx2i vzero vref sgntz sgntx :
  delta t1 tauv taue tauev t0c tzc txc dzi dxi dz2i dx2i vzero vref sgntz sgntx =
  if Rle_dec 0 (delta_d tauv taue tauev tzc txc dzi dxi dz2i dx2i vzero vref sgntz sgntx)
  then 1 / 2 * (sqrt (delta_d tauv taue tauev tzc txc dzi dxi dz2i dx2i vzero vref sgntz sgntx)
                - delta_b tauv taue tauev tzc txc dzi dxi dz2i dx2i sgntz sgntx) / (dz2i + dx2i) + t0c
  else t1.
Proof.
  unfold delta. cbv zeta. unnum. unfold Rleb, delta_d, delta_c, delta_b. cbv zeta.
  match goal with |- (if (if Rle_dec 0 ?a then _ else _) then _ else _) = (if Rle_dec 0 ?b then _ else _) =>
    replace b with a by ring; destruct (Rle_dec 0 a) end; reflexivity.
Qed.

(* A2: without perturbation and with the reference slowness, the spherical operator returns the analytic time
   when the sweep direction looks away from the source ... *)
Theorem delta_spherical_exact t1 t0c tzc txc dzi dxi dz2i dx2i vzero sgntz sgntx :
  0 <= IZR sgntx * txc * dxi + IZR sgntz * tzc * dzi ->
  delta t1 0 0 0 t0c tzc txc dzi dxi dz2i dx2i vzero vzero sgntz sgntx = t0c.
Proof.
  intros Hs. rewrite delta_eq. unfold delta_d, delta_c, delta_b. cbv zeta.
  set (S := IZR sgntx * txc * dxi + IZR sgntz * tzc * dzi) in *.
  match goal with |- context [Rle_dec 0 ?d] => replace d with ((4 * S) * (4 * S)) by ring end.
  destruct (Rle_dec 0 (4 * S * (4 * S))) as [_|N]; [|exfalso; apply N; nra].
  rewrite sqrt_square by lra.
  match goal with |- ?a / ?b + _ = _ => replace a with 0 by ring end. unfold Rdiv. ring.
Qed.

(* ... and otherwise the other root of the quadratic: t0c - bpoly/apoly with bpoly = 4 (...) < 0 *)
Theorem delta_spherical_exact_neg t1 t0c tzc txc dzi dxi dz2i dx2i vzero sgntz sgntx :
  IZR sgntx * txc * dxi + IZR sgntz * tzc * dzi < 0 ->
  delta t1 0 0 0 t0c tzc txc dzi dxi dz2i dx2i vzero vzero sgntz sgntx
  = t0c - 4 * (IZR sgntx * txc * dxi + IZR sgntz * tzc * dzi) / (dz2i + dx2i).
Proof.
  intros Hs. rewrite delta_eq. unfold delta_d, delta_c, delta_b. cbv zeta.
  set (S := IZR sgntx * txc * dxi + IZR sgntz * tzc * dzi) in *.
  match goal with |- context [Rle_dec 0 ?d] => replace d with ((- (4 * S)) * (- (4 * S))) by ring end.
  destruct (Rle_dec 0 (- (4 * S) * - (4 * S))) as [_|N]; [|exfalso; apply N; nra].
  rewrite sqrt_square by lra.
  match goal with |- 1 / 2 * ?X / ?b + _ = _ => replace (1 / 2 * X) with (- (4 * S)) by lra end.
  unfold Rdiv. ring.
Qed.

(* the hypotheses are satisfiable: node (3,4) seen from a source at the origin, unit grid, unit slowness:
   t0c = 5, (tzc, txc) = (3/5, 4/5), sweeping with sgntz = sgntx = 1 *)
Example delta_spherical_exact_ex : delta 100000 0 0 0 5 (3/5) (4/5) 1 1 1 1 1 1 1 1 = 5.
Proof. apply delta_spherical_exact. lra. Qed.
Example delta_spherical_exact_neg_ex : delta 100000 0 0 0 5 (3/5) (4/5) 1 1 1 1 1 1 (-1) (-1) = 5 + 14/5.
Proof. rewrite delta_spherical_exact_neg; lra. Qed.

(* ------------------------------------------------------------------------------------------ *)
(* B1  unit invariance of the analytic solution                                                 *)
(* ------------------------------------------------------------------------------------------ *)
Theorem t_ana_scale_slowness c i j dz dx zsa xsa v :
  t_ana i j dz dx zsa xsa (c * v) = c * t_ana i j dz dx zsa xsa v.
Proof. unfold t_ana. unnum. ring. Qed.

(* zsa, xsa are source coordinates in grid units: a change of length unit does not touch them *)
Theorem t_ana_scale_length c i j dz dx zsa xsa v : 0 <= c ->
  t_ana i j (c * dz) (c * dx) zsa xsa v = c * t_ana i j dz dx zsa xsa v.
Proof.
  intros Hc. unfold t_ana. unnum.
  rewrite (sqrt_scale' c (dz * (IZR i - zsa) * (dz * (IZR i - zsa)) + dx * (IZR j - xsa) * (dx * (IZR j - xsa))))
    by (auto; ring). ring.
Qed.

(* slowness scaling multiplies the time and both derivative components by c *)
Theorem t_anad_scale_slowness c i j dz dx zsa xsa v : 0 < c ->
  t_anad i j dz dx zsa xsa (c * v) =
  let '(t, tzc, txc) := t_anad i j dz dx zsa xsa v in (c * t, c * tzc, c * txc).
Proof.
  intros Hc. rewrite !t_anad_exact. cbv zeta. rewrite t_ana_scale_slowness.
  set (t := t_ana i j dz dx zsa xsa v).
  destruct (Rlt_dec 0 t) as [P|N], (Rlt_dec 0 (c * t)) as [P'|N']; try (exfalso; nra).
  - f_equal; [f_equal|]; field; lra.
  - f_equal; [f_equal|]; ring.
Qed.

(* length scaling multiplies the time by c and leaves the derivative components (slowness units) unchanged *)
Theorem t_anad_scale_length c i j dz dx zsa xsa v : 0 < c ->
  t_anad i j (c * dz) (c * dx) zsa xsa v =
  let '(t, tzc, txc) := t_anad i j dz dx zsa xsa v in (c * t, tzc, txc).
Proof.
  intros Hc. rewrite !t_anad_exact. cbv zeta. rewrite t_ana_scale_length by lra.
  set (t := t_ana i j dz dx zsa xsa v).
  destruct (Rlt_dec 0 t) as [P|N], (Rlt_dec 0 (c * t)) as [P'|N']; try (exfalso; nra).
  - f_equal; [f_equal|]; field; lra.
  - reflexivity.
Qed.

(* ------------------------------------------------------------------------------------------ *)
(* B2  unit invariance of the spherical operator                                                *)
(* ------------------------------------------------------------------------------------------ *)
Lemma delta_d_scale_slowness c tauv taue tauev tzc txc dzi dxi dz2i dx2i vzero vref sgntz sgntx :
  delta_d (c * tauv) (c * taue) (c * tauev) (c * tzc) (c * txc) dzi dxi dz2i dx2i (c * vzero) (c * vref) sgntz sgntx
  = c * c * delta_d tauv taue tauev tzc txc dzi dxi dz2i dx2i vzero vref sgntz sgntx.
Proof. unfold delta_d, delta_c, delta_b. cbv zeta. ring. Qed.
Lemma delta_b_scale_slowness c tauv taue tauev tzc txc dzi dxi dz2i dx2i sgntz sgntx :
  delta_b (c * tauv) (c * taue) (c * tauev) (c * tzc) (c * txc) dzi dxi dz2i dx2i sgntz sgntx
  = c * delta_b tauv taue tauev tzc txc dzi dxi dz2i dx2i sgntz sgntx.
Proof. unfold delta_b. ring. Qed.

(* general form: the fallback value t1 is passed through untouched (the code passes the constant Big) *)
Lemma delta_scale_slowness_gen c t1 t1' tauv taue tauev t0c tzc txc dzi dxi dz2i dx2i vzero vref sgntz sgntx :
  0 < c ->
  delta t1' (c * tauv) (c * taue) (c * tauev) (c * t0c) (c * tzc) (c * txc) dzi dxi dz2i dx2i (c * vzero) (c * vref) sgntz sgntx
  = if Rle_dec 0 (delta_d tauv taue tauev tzc txc dzi dxi dz2i dx2i vzero vref sgntz sgntx)
    then c * delta t1 tauv taue tauev t0c tzc txc dzi dxi dz2i dx2i vzero vref sgntz sgntx else t1'.
Proof.
  intros Hc. rewrite !delta_eq, delta_d_scale_slowness, delta_b_scale_slowness.
  set (d := delta_d tauv taue tauev tzc txc dzi dxi dz2i dx2i vzero vref sgntz sgntx).
  set (b := delta_b tauv taue tauev tzc txc dzi dxi dz2i dx2i sgntz sgntx).
  rewrite sqrt_scale by lra.
  destruct (Rle_dec 0 d) as [P|N], (Rle_dec 0 (c * c * d)) as [P'|N'];
    try (exfalso; pose proof (sq_scale_nonneg c d Hc); tauto); try reflexivity.
  unfold Rdiv. ring.
Qed.

Theorem delta_scale_slowness c t1 tauv taue tauev t0c tzc txc dzi dxi dz2i dx2i vzero vref sgntz sgntx :
  0 < c ->
  delta (c * t1) (c * tauv) (c * taue) (c * tauev) (c * t0c) (c * tzc) (c * txc) dzi dxi dz2i dx2i
        (c * vzero) (c * vref) sgntz sgntx
  = c * delta t1 tauv taue tauev t0c tzc txc dzi dxi dz2i dx2i vzero vref sgntz sgntx.
Proof.
  intros Hc. rewrite (delta_scale_slowness_gen c t1) by exact Hc.
  destruct (Rle_dec _ _) as [P|N]; [reflexivity|].
  rewrite delta_eq. destruct (Rle_dec _ _); [contradiction|reflexivity].
Qed.

Lemma delta_d_scale_length c tauv taue tauev tzc txc dzi dxi dz2i dx2i vzero vref sgntz sgntx : c <> 0 ->
  delta_d (c * tauv) (c * taue) (c * tauev) tzc txc (dzi / c) (dxi / c) (dz2i / (c * c)) (dx2i / (c * c)) vzero vref sgntz sgntx
  = / c * / c * delta_d tauv taue tauev tzc txc dzi dxi dz2i dx2i vzero vref sgntz sgntx.
Proof. intros Hc. unfold delta_d, delta_c, delta_b. cbv zeta. field. exact Hc. Qed.
Lemma delta_b_scale_length c tauv taue tauev tzc txc dzi dxi dz2i dx2i sgntz sgntx : c <> 0 ->
  delta_b (c * tauv) (c * taue) (c * tauev) tzc txc (dzi / c) (dxi / c) (dz2i / (c * c)) (dx2i / (c * c)) sgntz sgntx
  = / c * delta_b tauv taue tauev tzc txc dzi dxi dz2i dx2i sgntz sgntx.
Proof. intros Hc. unfold delta_b. field. exact Hc. Qed.

Lemma delta_scale_length_gen c t1 t1' tauv taue tauev t0c tzc txc dzi dxi dz2i dx2i vzero vref sgntz sgntx :
  0 < c ->
  delta t1' (c * tauv) (c * taue) (c * tauev) (c * t0c) tzc txc (dzi / c) (dxi / c) (dz2i / (c * c)) (dx2i / (c * c))
        vzero vref sgntz sgntx
  = if Rle_dec 0 (delta_d tauv taue tauev tzc txc dzi dxi dz2i dx2i vzero vref sgntz sgntx)
    then c * delta t1 tauv taue tauev t0c tzc txc dzi dxi dz2i dx2i vzero vref sgntz sgntx else t1'.
Proof.
  intros Hc. assert (Hi : 0 < / c) by (apply Rinv_0_lt_compat; exact Hc).
  rewrite !delta_eq, delta_d_scale_length, delta_b_scale_length by lra.
  set (d := delta_d tauv taue tauev tzc txc dzi dxi dz2i dx2i vzero vref sgntz sgntx).
  set (b := delta_b tauv taue tauev tzc txc dzi dxi dz2i dx2i sgntz sgntx).
  rewrite sqrt_scale by lra.
  destruct (Rle_dec 0 d) as [P|N], (Rle_dec 0 (/ c * / c * d)) as [P'|N'];
    try (exfalso; pose proof (sq_scale_nonneg (/ c) d Hi); tauto); try reflexivity.
  replace (dz2i / (c * c) + dx2i / (c * c)) with ((dz2i + dx2i) * (/ c * / c)) by (field; lra).
  unfold Rdiv. rewrite !Rinv_mult, !Rinv_inv. set (ia := / (dz2i + dx2i)). field. lra.
Qed.

Theorem delta_scale_length c t1 tauv taue tauev t0c tzc txc dzi dxi dz2i dx2i vzero vref sgntz sgntx :
  0 < c ->
  delta (c * t1) (c * tauv) (c * taue) (c * tauev) (c * t0c) tzc txc (dzi / c) (dxi / c)
        (dz2i / (c * c)) (dx2i / (c * c)) vzero vref sgntz sgntx
  = c * delta t1 tauv taue tauev t0c tzc txc dzi dxi dz2i dx2i vzero vref sgntz sgntx.
Proof.
  intros Hc. rewrite (delta_scale_length_gen c t1) by exact Hc.
  destruct (Rle_dec _ _) as [P|N]; [reflexivity|].
  rewrite delta_eq. destruct (Rle_dec _ _); [contradiction|reflexivity].
Qed.

(* ------------------------------------------------------------------------------------------ *)
(* C  no axis is privileged                                                                     *)
(* ------------------------------------------------------------------------------------------ *)
Theorem t_ana_swap i j dz dx zsa xsa v : t_ana i j dz dx zsa xsa v = t_ana j i dx dz xsa zsa v.
Proof. unfold t_ana. unnum. f_equal. f_equal. ring. Qed.

Theorem t_anad_swap i j dz dx zsa xsa v :
  t_anad i j dz dx zsa xsa v = let '(t, txc, tzc) := t_anad j i dx dz xsa zsa v in (t, tzc, txc).
Proof. rewrite !t_anad_exact. cbv zeta. rewrite (t_ana_swap j i). reflexivity. Qed.

Theorem delta_swap t1 tauv taue tauev t0c tzc txc dzi dxi dz2i dx2i vzero vref sgntz sgntx :
  delta t1 tauv taue tauev t0c tzc txc dzi dxi dz2i dx2i vzero vref sgntz sgntx
  = delta t1 taue tauv tauev t0c txc tzc dxi dzi dx2i dz2i vzero vref sgntx sgntz.
Proof.
  rewrite !delta_eq.
  assert (Eb : delta_b taue tauv tauev txc tzc dxi dzi dx2i dz2i sgntx sgntz
             = delta_b tauv taue tauev tzc txc dzi dxi dz2i dx2i sgntz sgntx) by (unfold delta_b; ring).
  assert (Ed : delta_d taue tauv tauev txc tzc dxi dzi dx2i dz2i vzero vref sgntx sgntz
             = delta_d tauv taue tauev tzc txc dzi dxi dz2i dx2i vzero vref sgntz sgntx)
    by (unfold delta_d, delta_c, delta_b; cbv zeta; ring).
  rewrite Eb, Ed, (Rplus_comm dx2i dz2i). reflexivity.
Qed.

(* ------------------------------------------------------------------------------------------ *)
(* The 2D operators used by `sweep`, and the characterisation of `sweep` in terms of them       *)
(* ------------------------------------------------------------------------------------------ *)

(* values read by one call of sweep at node (i,j) *)
Definition nb_v tt i j sgntz : R := get 0 tt [(i - sgntz)%Z; j].                       (* z-neighbour  tv  *)
Definition nb_e tt i j sgntx : R := get 0 tt [i; (j - sgntx)%Z].                       (* x-neighbour  te  *)
Definition nb_ev tt i j sgntz sgntx : R := get 0 tt [(i - sgntz)%Z; (j - sgntx)%Z].    (* diagonal     tev *)
Definition cell_s slow i j sgnvz sgnvx : R := get 0 slow [(i - sgnvz)%Z; (j - sgnvx)%Z]. (* upwind cell slowness *)
(* 1D operators: along z with the smaller slowness of the two cells adjoining the edge, resp. along x *)
Definition edge_s_z slow i j sgnvz nx : R :=
  pymin2 (get 0 slow [(i - sgnvz)%Z; Z.max (j - 1) 0]) (get 0 slow [(i - sgnvz)%Z; Z.min j (nx - 2)]).
Definition edge_s_x slow i j sgnvx nz : R :=
  pymin2 (get 0 slow [Z.max (i - 1) 0; (j - sgnvx)%Z]) (get 0 slow [Z.min i (nz - 2); (j - sgnvx)%Z]).
Definition t1d_z tt slow dz i j sgnvz sgntz nx : R := nb_v tt i j sgntz + dz * edge_s_z slow i j sgnvz nx.
Definition t1d_x tt slow dx i j sgnvx sgntx nz : R := nb_e tt i j sgntx + dx * edge_s_x slow i j sgnvx nz.
Definition t1d tt slow dz dx i j sgnvz sgnvx sgntz sgntx nz nx : R :=
  pymin2 (t1d_z tt slow dz i j sgnvz sgntz nx) (t1d_x tt slow dx i j sgnvx sgntx nz).

(* plane-wave operators *)
Definition four_point tv te tev vref dz2i dx2i : R :=
  let ta := tev + te - tv in let tb := tev - te + tv in
  ((tb * dz2i + ta * dx2i) + sqrt (4 * (vref * vref) * (dz2i + dx2i) - dz2i * dx2i * ((ta - tb) * (ta - tb))))
  / (dz2i + dx2i).
Definition three_point_e te tev vref dz dx : R := te + dx * sqrt (vref * vref - (te - tev) / dz * ((te - tev) / dz)).
Definition three_point_v tv tev vref dz dx : R := tv + dz * sqrt (vref * vref - (tv - tev) / dx * ((tv - tev) / dx)).
(* their admissibility tests *)
Definition adm4 tv te tev vref dz dx : bool :=
  Rleb tv (te + dx * vref) && Rleb te (tv + dz * vref) && Rleb tev te && Rleb tev tv.
Definition adm3e te tev vref dz dx : bool :=
  Rleb (te - tev) (dz * dz * vref / sqrt (dx * dx + dz * dz)) && Rltb 0 (te - tev).
Definition adm3v tv tev vref dz dx : bool :=
  Rleb (tv - tev) (dx * dx * vref / sqrt (dx * dx + dz * dz)) && Rltb 0 (tv - tev).
Definition plane_t2d tv te tev vref dz dx dz2i dx2i : R :=
  if adm4 tv te tev vref dz dx then four_point tv te tev vref dz2i dx2i
  else if adm3e te tev vref dz dx then three_point_e te tev vref dz dx
  else if adm3v tv tev vref dz dx then three_point_v tv tev vref dz dx
  else Big.
(* spherical operator near the source *)
Definition admS tv te tev vref dz dx : bool :=
  Rltb tv (te + dx * vref) && Rltb te (tv + dz * vref) && Rleb tev te && Rleb tev tv.
Definition spherical_raw tv te tev vref dz dx dzi dxi dz2i dx2i zsa xsa vzero i j sgntz sgntx : R :=
  let '(t0c, tzc, txc) := t_anad i j dz dx zsa xsa vzero in
  delta Big (tv - t_ana (i - sgntz) j dz dx zsa xsa vzero) (te - t_ana i (j - sgntx) dz dx zsa xsa vzero)
        (tev - t_ana (i - sgntz) (j - sgntx) dz dx zsa xsa vzero)
        t0c tzc txc dzi dxi dz2i dx2i vzero vref sgntz sgntx.
Definition spherical_t2d tv te tev vref dz dx dzi dxi dz2i dx2i zsa xsa vzero i j sgntz sgntx : R :=
  if admS tv te tev vref dz dx then
    let d := spherical_raw tv te tev vref dz dx dzi dxi dz2i dx2i zsa xsa vzero i j sgntz sgntx in
    if Rltb d tv || Rltb d te then Big else d
  else Big.
Definition outside_box zsi xsi i j : bool :=
  Rltb (IZR epsin) (Rabs (IZR i - zsi)) || Rltb (IZR epsin) (Rabs (IZR j - xsi)).
Definition sweep_t2d tt slow dz dx dzi dxi dz2i dx2i zsi xsi zsa xsa vzero i j sgnvz sgnvx sgntz sgntx : R :=
  let tv := nb_v tt i j sgntz in let te := nb_e tt i j sgntx in let tev := nb_ev tt i j sgntz sgntx in
  let vref := cell_s slow i j sgnvz sgnvx in
  if outside_box zsi xsi i j then plane_t2d tv te tev vref dz dx dz2i dx2i
  else spherical_t2d tv te tev vref dz dx dzi dxi dz2i dx2i zsa xsa vzero i j sgntz sgntx.

(* THE TIE: the generated sweep writes  min(t0, t1d, t2d)  with exactly these operators (by computation) *)
Theorem sweep_tt_eq tt ttsgn slow dz dx dzi dxi dz2i dx2i zsi xsi zsa xsa vzero i j sgnvz sgnvx sgntz sgntx nz nx grad :
  fst (sweep tt ttsgn slow (dz, dx, dzi, dxi, dz2i, dx2i) zsi xsi zsa xsa vzero i j sgnvz sgnvx sgntz sgntx nz nx grad)
  = set tt [i; j] (pymin3 (get 0 tt [i; j]) (t1d tt slow dz dx i j sgnvz sgnvx sgntz sgntx nz nx)
                          (sweep_t2d tt slow dz dx dzi dxi dz2i dx2i zsi xsi zsa xsa vzero i j sgnvz sgnvx sgntz sgntx)).
Proof.
  unfold sweep. cbv zeta.
  lazymatch goal with |- fst (?a, _) = ?r => change (a = r) end.
  reflexivity.
Qed.

(* boolean tests as propositions *)
Lemma outside_box_true zsi xsi i j :
  outside_box zsi xsi i j = true <-> (IZR epsin < Rabs (IZR i - zsi) \/ IZR epsin < Rabs (IZR j - xsi)).
Proof. unfold outside_box. rewrite orb_true_iff, !Rltb_true. tauto. Qed.
Lemma adm4_true tv te tev vref dz dx :
  adm4 tv te tev vref dz dx = true <-> (tv <= te + dx * vref /\ te <= tv + dz * vref /\ tev <= te /\ tev <= tv).
Proof. unfold adm4. rewrite !andb_true_iff, !Rleb_true. tauto. Qed.
Lemma adm3e_true te tev vref dz dx :
  adm3e te tev vref dz dx = true <-> (te - tev <= dz * dz * vref / sqrt (dx * dx + dz * dz) /\ 0 < te - tev).
Proof. unfold adm3e. rewrite !andb_true_iff, Rleb_true, Rltb_true. tauto. Qed.
Lemma adm3v_true tv tev vref dz dx :
  adm3v tv tev vref dz dx = true <-> (tv - tev <= dx * dx * vref / sqrt (dx * dx + dz * dz) /\ 0 < tv - tev).
Proof. unfold adm3v. rewrite !andb_true_iff, Rleb_true, Rltb_true. tauto. Qed.
Lemma admS_true tv te tev vref dz dx :
  admS tv te tev vref dz dx = true <-> (tv < te + dx * vref /\ te < tv + dz * vref /\ tev <= te /\ tev <= tv).
Proof. unfold admS. rewrite !andb_true_iff, !Rleb_true, !Rltb_true. tauto. Qed.
Lemma bool_false_iff (b : bool) (P : Prop) : (b = true <-> P) -> (b = false <-> ~ P).
Proof. intros Hb. destruct b; split; intros H; try discriminate; try reflexivity.
  - exfalso. apply H. apply Hb. reflexivity.
  - intros HP. apply Hb in HP. discriminate. Qed.

(* A3 tie: outside the source box, with the 4-point admissibility conditions, sweep uses the 4-point operator *)
Theorem sweep_uses_four_point tt ttsgn slow dz dx dzi dxi dz2i dx2i zsi xsi zsa xsa vzero i j sgnvz sgnvx sgntz sgntx nz nx grad :
  let tv := nb_v tt i j sgntz in let te := nb_e tt i j sgntx in let tev := nb_ev tt i j sgntz sgntx in
  let vref := cell_s slow i j sgnvz sgnvx in
  (IZR epsin < Rabs (IZR i - zsi) \/ IZR epsin < Rabs (IZR j - xsi)) ->
  tv <= te + dx * vref -> te <= tv + dz * vref -> tev <= te -> tev <= tv ->
  fst (sweep tt ttsgn slow (dz, dx, dzi, dxi, dz2i, dx2i) zsi xsi zsa xsa vzero i j sgnvz sgnvx sgntz sgntx nz nx grad)
  = set tt [i; j] (pymin3 (get 0 tt [i; j]) (t1d tt slow dz dx i j sgnvz sgnvx sgntz sgntx nz nx)
                          (four_point tv te tev vref dz2i dx2i)).
Proof.
  intros tv te tev vref Hbox H1 H2 H3 H4. rewrite sweep_tt_eq. unfold sweep_t2d. cbv zeta.
  rewrite (proj2 (outside_box_true zsi xsi i j) Hbox). unfold plane_t2d.
  fold tv te tev vref. rewrite (proj2 (adm4_true tv te tev vref dz dx)) by tauto. reflexivity.
Qed.

(* A4 tie: the two 3-point operators *)
Theorem sweep_uses_three_point_e tt ttsgn slow dz dx dzi dxi dz2i dx2i zsi xsi zsa xsa vzero i j sgnvz sgnvx sgntz sgntx nz nx grad :
  let tv := nb_v tt i j sgntz in let te := nb_e tt i j sgntx in let tev := nb_ev tt i j sgntz sgntx in
  let vref := cell_s slow i j sgnvz sgnvx in
  (IZR epsin < Rabs (IZR i - zsi) \/ IZR epsin < Rabs (IZR j - xsi)) ->
  ~ (tv <= te + dx * vref /\ te <= tv + dz * vref /\ tev <= te /\ tev <= tv) ->
  te - tev <= dz * dz * vref / sqrt (dx * dx + dz * dz) -> 0 < te - tev ->
  fst (sweep tt ttsgn slow (dz, dx, dzi, dxi, dz2i, dx2i) zsi xsi zsa xsa vzero i j sgnvz sgnvx sgntz sgntx nz nx grad)
  = set tt [i; j] (pymin3 (get 0 tt [i; j]) (t1d tt slow dz dx i j sgnvz sgnvx sgntz sgntx nz nx)
                          (three_point_e te tev vref dz dx)).
Proof.
  intros tv te tev vref Hbox N4 H1 H2. rewrite sweep_tt_eq. unfold sweep_t2d. cbv zeta.
  rewrite (proj2 (outside_box_true zsi xsi i j) Hbox). unfold plane_t2d.
  fold tv te tev vref. rewrite (proj2 (bool_false_iff _ _ (adm4_true tv te tev vref dz dx)) N4).
  rewrite (proj2 (adm3e_true te tev vref dz dx)) by tauto. reflexivity.
Qed.

Theorem sweep_uses_three_point_v tt ttsgn slow dz dx dzi dxi dz2i dx2i zsi xsi zsa xsa vzero i j sgnvz sgnvx sgntz sgntx nz nx grad :
  let tv := nb_v tt i j sgntz in let te := nb_e tt i j sgntx in let tev := nb_ev tt i j sgntz sgntx in
  let vref := cell_s slow i j sgnvz sgnvx in
  (IZR epsin < Rabs (IZR i - zsi) \/ IZR epsin < Rabs (IZR j - xsi)) ->
  ~ (tv <= te + dx * vref /\ te <= tv + dz * vref /\ tev <= te /\ tev <= tv) ->
  ~ (te - tev <= dz * dz * vref / sqrt (dx * dx + dz * dz) /\ 0 < te - tev) ->
  tv - tev <= dx * dx * vref / sqrt (dx * dx + dz * dz) -> 0 < tv - tev ->
  fst (sweep tt ttsgn slow (dz, dx, dzi, dxi, dz2i, dx2i) zsi xsi zsa xsa vzero i j sgnvz sgnvx sgntz sgntx nz nx grad)
  = set tt [i; j] (pymin3 (get 0 tt [i; j]) (t1d tt slow dz dx i j sgnvz sgnvx sgntz sgntx nz nx)
                          (three_point_v tv tev vref dz dx)).
Proof.
  intros tv te tev vref Hbox N4 N3 H1 H2. rewrite sweep_tt_eq. unfold sweep_t2d. cbv zeta.
  rewrite (proj2 (outside_box_true zsi xsi i j) Hbox). unfold plane_t2d.
  fold tv te tev vref. rewrite (proj2 (bool_false_iff _ _ (adm4_true tv te tev vref dz dx)) N4).
  rewrite (proj2 (bool_false_iff _ _ (adm3e_true te tev vref dz dx)) N3).
  rewrite (proj2 (adm3v_true tv tev vref dz dx)) by tauto. reflexivity.
Qed.

(* tie for the spherical operator (inside the source box) *)
Theorem sweep_uses_spherical tt ttsgn slow dz dx dzi dxi dz2i dx2i zsi xsi zsa xsa vzero i j sgnvz sgnvx sgntz sgntx nz nx grad :
  let tv := nb_v tt i j sgntz in let te := nb_e tt i j sgntx in let tev := nb_ev tt i j sgntz sgntx in
  let vref := cell_s slow i j sgnvz sgnvx in
  let d := spherical_raw tv te tev vref dz dx dzi dxi dz2i dx2i zsa xsa vzero i j sgntz sgntx in
  ~ (IZR epsin < Rabs (IZR i - zsi) \/ IZR epsin < Rabs (IZR j - xsi)) ->
  tv < te + dx * vref -> te < tv + dz * vref -> tev <= te -> tev <= tv -> tv <= d -> te <= d ->
  fst (sweep tt ttsgn slow (dz, dx, dzi, dxi, dz2i, dx2i) zsi xsi zsa xsa vzero i j sgnvz sgnvx sgntz sgntx nz nx grad)
  = set tt [i; j] (pymin3 (get 0 tt [i; j]) (t1d tt slow dz dx i j sgnvz sgnvx sgntz sgntx nz nx) d).
Proof.
  intros tv te tev vref d Hbox H1 H2 H3 H4 H5 H6. rewrite sweep_tt_eq. unfold sweep_t2d. cbv zeta.
  rewrite (proj2 (bool_false_iff _ _ (outside_box_true zsi xsi i j)) Hbox). unfold spherical_t2d.
  fold tv te tev vref. rewrite (proj2 (admS_true tv te tev vref dz dx)) by tauto. cbv zeta. fold d.
  rewrite (proj2 (Rltb_false d tv) H5), (proj2 (Rltb_false d te) H6). reflexivity.
Qed.

(* ------------------------------------------------------------------------------------------ *)
(* A3 / A4  exactness on a plane wave  T(z,x) = s (a z + b x),  a^2 + b^2 = 1,  a, b >= 0       *)
(*   tev = T0 (diagonal),  tv = T0 + s b dx (z-neighbour),  te = T0 + s a dz (x-neighbour),     *)
(*   exact value at the node:  T0 + s (a dz + b dx).   dz2i = 1/dz/dz as computed by sweep2d.   *)
(* ------------------------------------------------------------------------------------------ *)
Definition dargs_of dz dx : R * R * R * R * R * R := (dz, dx, 1 / dz, 1 / dx, 1 / dz / dz, 1 / dx / dx).

Theorem four_point_exact_on_plane_wave (T0 : R) s a b dz dx :
  0 < dz -> 0 < dx -> 0 <= s -> 0 <= a -> 0 <= b -> a * a + b * b = 1 ->
  four_point (T0 + s * b * dx) (T0 + s * a * dz) T0 s (1 / dz / dz) (1 / dx / dx) = T0 + s * (a * dz + b * dx).
Proof.
  intros Hdz Hdx Hs Ha Hb Hn. unfold four_point. cbv zeta.
  match goal with |- context [sqrt ?r] =>
    assert (E : r = (2 * s * (b * dz + a * dx) / (dz * dx)) * (2 * s * (b * dz + a * dx) / (dz * dx))) end.
  { replace (s * s) with (s * s * (a * a + b * b)) by (rewrite Hn; ring). field. lra. }
  rewrite E, sqrt_square.
  - field. split; [lra|]. split; [lra|]. nra.
  - assert (H0 : 0 <= b * dz + a * dx) by (apply Rplus_le_le_0_compat; apply Rmult_le_pos; lra).
    apply Rmult_le_pos; [apply Rmult_le_pos; [lra | exact H0]|].
    left. apply Rinv_0_lt_compat. apply Rmult_lt_0_compat; lra.
Qed.

Theorem three_point_e_exact_on_plane_wave (T0 : R) s a b dz dx :
  dz <> 0 -> 0 <= s -> 0 <= b -> a * a + b * b = 1 ->
  three_point_e (T0 + s * a * dz) T0 s dz dx = T0 + s * (a * dz + b * dx).
Proof.
  intros Hdz Hs Hb Hn. unfold three_point_e.
  match goal with |- context [sqrt ?r] => assert (E : r = (s * b) * (s * b)) end.
  { replace (s * s) with (s * s * (a * a + b * b)) by (rewrite Hn; ring). field. exact Hdz. }
  rewrite E, sqrt_square by nra. ring.
Qed.

Theorem three_point_v_exact_on_plane_wave (T0 : R) s a b dz dx :
  dx <> 0 -> 0 <= s -> 0 <= a -> a * a + b * b = 1 ->
  three_point_v (T0 + s * b * dx) T0 s dz dx = T0 + s * (a * dz + b * dx).
Proof.
  intros Hdx Hs Ha Hn. unfold three_point_v.
  match goal with |- context [sqrt ?r] => assert (E : r = (s * a) * (s * a)) end.
  { replace (s * s) with (s * s * (a * a + b * b)) by (rewrite Hn; ring). field. exact Hdx. }
  rewrite E, sqrt_square by nra. ring.
Qed.

(* a = 3/5, b = 4/5 *)
Example four_point_exact_ex : four_point (0 + 2 * (4/5) * 1) (0 + 2 * (3/5) * 1) 0 2 (1 / 1 / 1) (1 / 1 / 1) = 0 + 2 * (3/5 * 1 + 4/5 * 1).
Proof. apply four_point_exact_on_plane_wave; lra. Qed.

(* the generated sweep is exact on a plane wave: the admissibility conditions of the 4-point operator hold
   automatically for a plane wave travelling in the sweep direction *)
Theorem sweep_four_point_plane_wave tt ttsgn slow dz dx zsi xsi zsa xsa vzero i j sgnvz sgnvx sgntz sgntx nz nx grad
        (T0 : R) s a b :
  0 < dz -> 0 < dx -> 0 <= s -> 0 <= a -> 0 <= b -> a * a + b * b = 1 ->
  (IZR epsin < Rabs (IZR i - zsi) \/ IZR epsin < Rabs (IZR j - xsi)) ->
  nb_ev tt i j sgntz sgntx = T0 -> nb_v tt i j sgntz = T0 + s * b * dx -> nb_e tt i j sgntx = T0 + s * a * dz ->
  cell_s slow i j sgnvz sgnvx = s ->
  fst (sweep tt ttsgn slow (dargs_of dz dx) zsi xsi zsa xsa vzero i j sgnvz sgnvx sgntz sgntx nz nx grad)
  = set tt [i; j] (pymin3 (get 0 tt [i; j]) (t1d tt slow dz dx i j sgnvz sgnvx sgntz sgntx nz nx)
                          (T0 + s * (a * dz + b * dx))).
Proof.
  intros Hdz Hdx Hs Ha Hb Hn Hbox Eev Ev Ee Es. unfold dargs_of.
  assert (Ha1 : a <= 1) by nra. assert (Hb1 : b <= 1) by nra.
  assert (P1 : 0 <= s * dx * (1 - b)) by (apply Rmult_le_pos; [apply Rmult_le_pos|]; lra).
  assert (P2 : 0 <= s * dz * (1 - a)) by (apply Rmult_le_pos; [apply Rmult_le_pos|]; lra).
  assert (P3 : 0 <= s * a * dz) by (apply Rmult_le_pos; [apply Rmult_le_pos|]; lra).
  assert (P4 : 0 <= s * b * dx) by (apply Rmult_le_pos; [apply Rmult_le_pos|]; lra).
  rewrite sweep_uses_four_point; rewrite ?Eev, ?Ev, ?Ee, ?Es; try assumption; try lra.
  rewrite four_point_exact_on_plane_wave by assumption. reflexivity.
Qed.

Lemma diag_pos dz dx : 0 < dz -> 0 < dx -> 0 < sqrt (dx * dx + dz * dz).
Proof. intros. apply sqrt_lt_R0. nra. Qed.
Lemma le_div_diag x y r : 0 < r -> x * r <= y -> x <= y / r.
Proof. intros Hr H. apply (Rmult_le_reg_r r); [exact Hr|]. unfold Rdiv. rewrite Rmult_assoc, Rinv_l by lra. lra. Qed.

(* 3-point operator through the x-neighbour: used when the z-neighbour tv does not fit (e.g. not reached yet, tv = Big);
   admissible when the wave is steep enough in x: a <= dz / sqrt (dx^2 + dz^2) *)
Theorem sweep_three_point_e_plane_wave tt ttsgn slow dz dx zsi xsi zsa xsa vzero i j sgnvz sgnvx sgntz sgntx nz nx grad
        (T0 : R) s a b :
  let tv := nb_v tt i j sgntz in
  0 < dz -> 0 < dx -> 0 < s -> 0 < a -> 0 <= b -> a * a + b * b = 1 -> a * sqrt (dx * dx + dz * dz) <= dz ->
  (IZR epsin < Rabs (IZR i - zsi) \/ IZR epsin < Rabs (IZR j - xsi)) ->
  nb_ev tt i j sgntz sgntx = T0 -> nb_e tt i j sgntx = T0 + s * a * dz -> cell_s slow i j sgnvz sgnvx = s ->
  (T0 + s * a * dz + dx * s < tv \/ tv + dz * s < T0 + s * a * dz \/ tv < T0) ->
  fst (sweep tt ttsgn slow (dargs_of dz dx) zsi xsi zsa xsa vzero i j sgnvz sgnvx sgntz sgntx nz nx grad)
  = set tt [i; j] (pymin3 (get 0 tt [i; j]) (t1d tt slow dz dx i j sgnvz sgnvx sgntz sgntx nz nx)
                          (T0 + s * (a * dz + b * dx))).
Proof.
  intros tv Hdz Hdx Hs Ha Hb Hn Hst Hbox Eev Ee Es Hv. unfold dargs_of.
  pose proof (diag_pos dz dx Hdz Hdx) as Hr.
  assert (P3 : 0 < s * a * dz) by (apply Rmult_lt_0_compat; [apply Rmult_lt_0_compat|]; lra).
  rewrite sweep_uses_three_point_e; rewrite ?Eev, ?Ee, ?Es; try assumption.
  - rewrite three_point_e_exact_on_plane_wave with (b := b); try assumption; try lra. reflexivity.
  - fold tv. lra.
  - apply le_div_diag; [exact Hr|].
    assert (0 <= s * dz * (dz - a * sqrt (dx * dx + dz * dz))) by (apply Rmult_le_pos; [apply Rmult_le_pos|]; lra).
    lra.
  - lra.
Qed.

Theorem sweep_three_point_v_plane_wave tt ttsgn slow dz dx zsi xsi zsa xsa vzero i j sgnvz sgnvx sgntz sgntx nz nx grad
        (T0 : R) s a b :
  let te := nb_e tt i j sgntx in
  0 < dz -> 0 < dx -> 0 < s -> 0 <= a -> 0 < b -> a * a + b * b = 1 -> b * sqrt (dx * dx + dz * dz) <= dx ->
  (IZR epsin < Rabs (IZR i - zsi) \/ IZR epsin < Rabs (IZR j - xsi)) ->
  nb_ev tt i j sgntz sgntx = T0 -> nb_v tt i j sgntz = T0 + s * b * dx -> cell_s slow i j sgnvz sgnvx = s ->
  (te + dx * s < T0 + s * b * dx \/ T0 + s * b * dx + dz * s < te \/ te < T0) ->
  ~ (te - T0 <= dz * dz * s / sqrt (dx * dx + dz * dz) /\ 0 < te - T0) ->
  fst (sweep tt ttsgn slow (dargs_of dz dx) zsi xsi zsa xsa vzero i j sgnvz sgnvx sgntz sgntx nz nx grad)
  = set tt [i; j] (pymin3 (get 0 tt [i; j]) (t1d tt slow dz dx i j sgnvz sgnvx sgntz sgntx nz nx)
                          (T0 + s * (a * dz + b * dx))).
Proof.
  intros te Hdz Hdx Hs Ha Hb Hn Hst Hbox Eev Ev Es He N3. unfold dargs_of.
  pose proof (diag_pos dz dx Hdz Hdx) as Hr.
  assert (P3 : 0 < s * b * dx) by (apply Rmult_lt_0_compat; [apply Rmult_lt_0_compat|]; lra).
  rewrite sweep_uses_three_point_v; rewrite ?Eev, ?Ev, ?Es; try assumption.
  - rewrite three_point_v_exact_on_plane_wave with (a := a); try assumption; try lra. reflexivity.
  - fold te. lra.
  - apply le_div_diag; [exact Hr|].
    assert (0 <= s * dx * (dx - b * sqrt (dx * dx + dz * dz))) by (apply Rmult_le_pos; [apply Rmult_le_pos|]; lra).
    lra.
  - lra.
Qed.

(* ---- satisfiability of the hypotheses: a 2x2 grid, one cell of slowness 2, wave direction (3/5, 4/5), unit spacing,
        source far away (zsi = xsi = 100); node (1,1) holds Big ---- *)
Definition ex_tt (tv te : R) : arr R := mkarr [2%Z; 2%Z] [0; tv; te; 100000].
Definition ex_slow : arr R := mkarr [1%Z; 1%Z] [2].
Definition ex_sgn : arr Z := full [2%Z; 2%Z; 2%Z] 0%Z.

Example sweep_four_point_plane_wave_ex :
  fst (sweep (ex_tt (8/5) (6/5)) ex_sgn ex_slow (dargs_of 1 1) 100 100 100 100 2 1 1 1 1 1 1 2 2 false)
  = set (ex_tt (8/5) (6/5)) [1%Z; 1%Z]
        (pymin3 100000 (t1d (ex_tt (8/5) (6/5)) ex_slow 1 1 1 1 1 1 1 1 2 2) (0 + 2 * (3/5 * 1 + 4/5 * 1))).
Proof.
  apply (sweep_four_point_plane_wave (ex_tt (8/5) (6/5)) ex_sgn ex_slow 1 1 100 100 100 100 2 1 1 1 1 1 1 2 2 false
           0 2 (3/5) (4/5)); try lra.
  - left. unfold epsin. rewrite Rabs_left; lra.
  - reflexivity.
  - change (8 / 5 = 0 + 2 * (4 / 5) * 1). lra.
  - change (6 / 5 = 0 + 2 * (3 / 5) * 1). lra.
  - reflexivity.
Qed.

(* z-neighbour not reached yet (Big): the 3-point operator through the x-neighbour gives the exact plane-wave value
   (a = 3/5 <= 1/sqrt 2) *)
Example sweep_three_point_e_plane_wave_ex :
  fst (sweep (ex_tt 100000 (6/5)) ex_sgn ex_slow (dargs_of 1 1) 100 100 100 100 2 1 1 1 1 1 1 2 2 false)
  = set (ex_tt 100000 (6/5)) [1%Z; 1%Z]
        (pymin3 100000 (t1d (ex_tt 100000 (6/5)) ex_slow 1 1 1 1 1 1 1 1 2 2) (0 + 2 * (3/5 * 1 + 4/5 * 1))).
Proof.
  apply (sweep_three_point_e_plane_wave (ex_tt 100000 (6/5)) ex_sgn ex_slow 1 1 100 100 100 100 2 1 1 1 1 1 1 2 2 false
           0 2 (3/5) (4/5)); try lra.
  - replace (1 * 1 + 1 * 1) with 2 by ring.
    assert (H : sqrt 2 * sqrt 2 = 2) by (apply sqrt_sqrt; lra).
    pose proof (sqrt_pos 2). nra.
  - left. unfold epsin. rewrite Rabs_left; lra.
  - reflexivity.
  - change (6 / 5 = 0 + 2 * (3 / 5) * 1). lra.
  - reflexivity.
  - left. change (0 + 2 * (3 / 5) * 1 + 1 * 2 < 100000). lra.
Qed.

(* ------------------------------------------------------------------------------------------ *)
(* C (operators)  exchanging the axes: (tv, dz, i, zsa, sgntz) <-> (te, dx, j, xsa, sgntx)      *)
(* ------------------------------------------------------------------------------------------ *)
Theorem four_point_swap tv te tev vref dz2i dx2i :
  four_point tv te tev vref dz2i dx2i = four_point te tv tev vref dx2i dz2i.
Proof.
  unfold four_point. cbv zeta. replace (dx2i + dz2i) with (dz2i + dx2i) by ring.
  f_equal. f_equal; [ring | f_equal; ring].
Qed.

(* the two 3-point operators are exchanged *)
Theorem three_point_swap te tev vref dz dx : three_point_e te tev vref dz dx = three_point_v te tev vref dx dz.
Proof. reflexivity. Qed.

Lemma adm4_swap tv te tev vref dz dx : adm4 tv te tev vref dz dx = adm4 te tv tev vref dx dz.
Proof. apply eq_true_iff_eq. rewrite !adm4_true. tauto. Qed.
Lemma adm3_swap te tev vref dz dx : adm3e te tev vref dz dx = adm3v te tev vref dx dz.
Proof. unfold adm3e, adm3v. rewrite (Rplus_comm (dx * dx)). reflexivity. Qed.
Lemma admS_swap tv te tev vref dz dx : admS tv te tev vref dz dx = admS te tv tev vref dx dz.
Proof. apply eq_true_iff_eq. rewrite !admS_true. tauto. Qed.

(* when both 3-point operators are admissible so is the 4-point one: their order in the code is immaterial *)
Lemma adm3_both_adm4 tv te tev vref dz dx : 0 < dz -> 0 < dx -> 0 <= vref ->
  adm3e te tev vref dz dx = true -> adm3v tv tev vref dz dx = true -> adm4 tv te tev vref dz dx = true.
Proof.
  intros Hdz Hdx Hv He Hvv. apply adm3e_true in He. apply adm3v_true in Hvv. apply adm4_true.
  pose proof (diag_pos dz dx Hdz Hdx) as Hr. set (r := sqrt (dx * dx + dz * dz)) in *.
  assert (Hrr : r * r = dx * dx + dz * dz) by (apply sqrt_sqrt; nra).
  assert (Hzr : dz <= r) by nra. assert (Hxr : dx <= r) by nra.
  assert (B1 : dz * dz * vref / r <= dz * vref).
  { apply (Rmult_le_reg_r r); [exact Hr|]. unfold Rdiv. rewrite Rmult_assoc, Rinv_l by lra.
    assert (0 <= dz * vref * (r - dz)) by (apply Rmult_le_pos; [apply Rmult_le_pos|]; lra). lra. }
  assert (B2 : dx * dx * vref / r <= dx * vref).
  { apply (Rmult_le_reg_r r); [exact Hr|]. unfold Rdiv. rewrite Rmult_assoc, Rinv_l by lra.
    assert (0 <= dx * vref * (r - dx)) by (apply Rmult_le_pos; [apply Rmult_le_pos|]; lra). lra. }
  lra.
Qed.

Theorem plane_t2d_swap tv te tev vref dz dx dz2i dx2i : 0 < dz -> 0 < dx -> 0 <= vref ->
  plane_t2d tv te tev vref dz dx dz2i dx2i = plane_t2d te tv tev vref dx dz dx2i dz2i.
Proof.
  intros Hdz Hdx Hv. unfold plane_t2d.
  rewrite <- (adm4_swap tv te), <- (adm3_swap te tev vref dz dx).
  replace (adm3e tv tev vref dx dz) with (adm3v tv tev vref dz dx) by (symmetry; apply adm3_swap).
  destruct (adm4 tv te tev vref dz dx) eqn:E4; [apply four_point_swap|].
  destruct (adm3e te tev vref dz dx) eqn:E3e, (adm3v tv tev vref dz dx) eqn:E3v; try reflexivity.
  rewrite (adm3_both_adm4 tv te tev vref dz dx) in E4 by assumption. discriminate.
Qed.

Theorem spherical_t2d_swap tv te tev vref dz dx dzi dxi dz2i dx2i zsa xsa vzero i j sgntz sgntx :
  spherical_t2d tv te tev vref dz dx dzi dxi dz2i dx2i zsa xsa vzero i j sgntz sgntx
  = spherical_t2d te tv tev vref dx dz dxi dzi dx2i dz2i xsa zsa vzero j i sgntx sgntz.
Proof.
  assert (E : spherical_raw tv te tev vref dz dx dzi dxi dz2i dx2i zsa xsa vzero i j sgntz sgntx
            = spherical_raw te tv tev vref dx dz dxi dzi dx2i dz2i xsa zsa vzero j i sgntx sgntz).
  { unfold spherical_raw. rewrite (t_anad_swap i j).
    destruct (t_anad j i dx dz xsa zsa vzero) as [[t0c txc] tzc].
    rewrite delta_swap, (t_ana_swap (i - sgntz) j), (t_ana_swap i (j - sgntx)), (t_ana_swap (i - sgntz) (j - sgntx)).
    reflexivity. }
  unfold spherical_t2d. rewrite E, (admS_swap tv te). cbv zeta. rewrite (orb_comm (Rltb _ tv)). reflexivity.
Qed.

(* ------------------------------------------------------------------------------------------ *)
(* B3  unit invariance of one sweep call                                                        *)
(*   slowness:  tt, slow, vzero multiplied by c                                                 *)
(*   length:    tt multiplied by c, dargs = (c dz, c dx, dzi/c, dxi/c, dz2i/c^2, dx2i/c^2)       *)
(*   CAVEAT: the code uses the absolute constant Big = 1e5 for "no 2D candidate"; Big does not   *)
(*   scale, so the law needs that the 0D/1D candidate min(t0,t1d) is below Big in both systems   *)
(*   (hypotheses Hbig, Hbig').                                                                   *)
(* ------------------------------------------------------------------------------------------ *)
Definition smap c (arr0 : arr R) : arr R := amap (Rmult c) arr0.

Lemma get_smap c (arr0 : arr R) idx : get 0 (smap c arr0) idx = c * get 0 arr0 idx.
Proof.
  unfold get, smap, amap. cbn [shape dat].
  transitivity (nth (Z.to_nat (flat (shape arr0) idx)) (map (Rmult c) (dat arr0)) (c * 0)).
  - f_equal. ring.
  - apply map_nth.
Qed.
Lemma upd_map {A B} (f : A -> B) l n (w : A) : upd (map f l) n (f w) = map f (upd l n w).
Proof. revert n; induction l as [|h tl IH]; intros [|n]; simpl; auto. f_equal. apply IH. Qed.
Lemma set_smap c (arr0 : arr R) idx v : set (smap c arr0) idx (c * v) = smap c (set arr0 idx v).
Proof. unfold set, smap, amap. cbn [shape dat]. f_equal. apply (upd_map (Rmult c)). Qed.

Lemma pymin2_scale c (x y : R) : 0 < c -> pymin2 (c * x) (c * y) = c * pymin2 x y.
Proof. intros Hc. unfold pymin2. cbn [nltb NumR]. rewrite Rltb_scale by exact Hc. destruct (Rltb y x); reflexivity. Qed.
Lemma lin1 c x d y : c * x + d * (c * y) = c * (x + d * y). Proof. ring. Qed.
Lemma lin2 c x d y : c * x + c * d * y = c * (x + d * y). Proof. ring. Qed.
Lemma lin3 c x y : c * x - c * y = c * (x - y). Proof. ring. Qed.
Lemma div_scale c x d : c <> 0 -> (c * x) / (c * d) = x / d.
Proof. intros Hc. unfold Rdiv. rewrite Rinv_mult. set (id := / d). field. exact Hc. Qed.

(* 1D operators *)
Theorem t1d_z_scale_slowness c tt slow dz i j sgnvz sgntz nx : 0 < c ->
  t1d_z (smap c tt) (smap c slow) dz i j sgnvz sgntz nx = c * t1d_z tt slow dz i j sgnvz sgntz nx.
Proof. intros Hc. unfold t1d_z, edge_s_z, nb_v. rewrite !get_smap, pymin2_scale by exact Hc. apply lin1. Qed.
Theorem t1d_x_scale_slowness c tt slow dx i j sgnvx sgntx nz : 0 < c ->
  t1d_x (smap c tt) (smap c slow) dx i j sgnvx sgntx nz = c * t1d_x tt slow dx i j sgnvx sgntx nz.
Proof. intros Hc. unfold t1d_x, edge_s_x, nb_e. rewrite !get_smap, pymin2_scale by exact Hc. apply lin1. Qed.
Theorem t1d_z_scale_length c tt slow dz i j sgnvz sgntz nx :
  t1d_z (smap c tt) slow (c * dz) i j sgnvz sgntz nx = c * t1d_z tt slow dz i j sgnvz sgntz nx.
Proof. unfold t1d_z, nb_v. rewrite !get_smap. apply lin2. Qed.
Theorem t1d_x_scale_length c tt slow dx i j sgnvx sgntx nz :
  t1d_x (smap c tt) slow (c * dx) i j sgnvx sgntx nz = c * t1d_x tt slow dx i j sgnvx sgntx nz.
Proof. unfold t1d_x, nb_e. rewrite !get_smap. apply lin2. Qed.
Lemma t1d_scale_slowness c tt slow dz dx i j sgnvz sgnvx sgntz sgntx nz nx : 0 < c ->
  t1d (smap c tt) (smap c slow) dz dx i j sgnvz sgnvx sgntz sgntx nz nx = c * t1d tt slow dz dx i j sgnvz sgnvx sgntz sgntx nz nx.
Proof. intros Hc. unfold t1d. rewrite t1d_z_scale_slowness, t1d_x_scale_slowness by exact Hc. apply pymin2_scale, Hc. Qed.
Lemma t1d_scale_length c tt slow dz dx i j sgnvz sgnvx sgntz sgntx nz nx : 0 < c ->
  t1d (smap c tt) slow (c * dz) (c * dx) i j sgnvz sgnvx sgntz sgntx nz nx = c * t1d tt slow dz dx i j sgnvz sgnvx sgntz sgntx nz nx.
Proof. intros Hc. unfold t1d. rewrite t1d_z_scale_length, t1d_x_scale_length. apply pymin2_scale, Hc. Qed.

(* plane-wave operators and their admissibility tests *)
Theorem four_point_scale_slowness c tv te tev vref dz2i dx2i : 0 <= c ->
  four_point (c * tv) (c * te) (c * tev) (c * vref) dz2i dx2i = c * four_point tv te tev vref dz2i dx2i.
Proof.
  intros Hc. unfold four_point. cbv zeta.
  match goal with |- _ = c * ((_ + sqrt ?x) / _) => rewrite (sqrt_scale' c x) by (auto; ring) end.
  unfold Rdiv. ring.
Qed.
Theorem four_point_scale_length c tv te tev vref dz2i dx2i : 0 < c ->
  four_point (c * tv) (c * te) (c * tev) vref (dz2i / (c * c)) (dx2i / (c * c)) = c * four_point tv te tev vref dz2i dx2i.
Proof.
  intros Hc. assert (Hi : 0 < / c) by (apply Rinv_0_lt_compat; exact Hc). unfold four_point. cbv zeta.
  match goal with |- _ = c * ((_ + sqrt ?x) / _) => rewrite (sqrt_scale' (/ c) x) by (try lra; field; lra) end.
  replace (dz2i / (c * c) + dx2i / (c * c)) with ((dz2i + dx2i) * (/ c * / c)) by (field; lra).
  unfold Rdiv. rewrite !Rinv_mult, !Rinv_inv. set (iq := / (dz2i + dx2i)). set (sx := sqrt _). field. lra.
Qed.
Theorem three_point_e_scale_slowness c te tev vref dz dx : 0 <= c ->
  three_point_e (c * te) (c * tev) (c * vref) dz dx = c * three_point_e te tev vref dz dx.
Proof.
  intros Hc. unfold three_point_e.
  match goal with |- _ = c * (_ + _ * sqrt ?x) => rewrite (sqrt_scale' c x) by (auto; unfold Rdiv; ring) end. ring.
Qed.
Theorem three_point_v_scale_slowness c tv tev vref dz dx : 0 <= c ->
  three_point_v (c * tv) (c * tev) (c * vref) dz dx = c * three_point_v tv tev vref dz dx.
Proof. intros Hc. rewrite <- !three_point_swap. apply three_point_e_scale_slowness, Hc. Qed.
Theorem three_point_e_scale_length c te tev vref dz dx : c <> 0 ->
  three_point_e (c * te) (c * tev) vref (c * dz) (c * dx) = c * three_point_e te tev vref dz dx.
Proof. intros Hc. unfold three_point_e. rewrite lin3, div_scale by exact Hc. ring. Qed.
Theorem three_point_v_scale_length c tv tev vref dz dx : c <> 0 ->
  three_point_v (c * tv) (c * tev) vref (c * dz) (c * dx) = c * three_point_v tv tev vref dz dx.
Proof. intros Hc. rewrite <- !three_point_swap. apply three_point_e_scale_length, Hc. Qed.

Lemma adm4_scale_slowness c tv te tev vref dz dx : 0 < c ->
  adm4 (c * tv) (c * te) (c * tev) (c * vref) dz dx = adm4 tv te tev vref dz dx.
Proof. intros Hc. unfold adm4. rewrite !lin1, !Rleb_scale by exact Hc. reflexivity. Qed.
Lemma adm4_scale_length c tv te tev vref dz dx : 0 < c ->
  adm4 (c * tv) (c * te) (c * tev) vref (c * dz) (c * dx) = adm4 tv te tev vref dz dx.
Proof. intros Hc. unfold adm4. rewrite !lin2, !Rleb_scale by exact Hc. reflexivity. Qed.
Lemma admS_scale_slowness c tv te tev vref dz dx : 0 < c ->
  admS (c * tv) (c * te) (c * tev) (c * vref) dz dx = admS tv te tev vref dz dx.
Proof. intros Hc. unfold admS. rewrite !lin1, !Rleb_scale, !Rltb_scale by exact Hc. reflexivity. Qed.
Lemma admS_scale_length c tv te tev vref dz dx : 0 < c ->
  admS (c * tv) (c * te) (c * tev) vref (c * dz) (c * dx) = admS tv te tev vref dz dx.
Proof. intros Hc. unfold admS. rewrite !lin2, !Rleb_scale, !Rltb_scale by exact Hc. reflexivity. Qed.
Lemma adm3e_scale_slowness c te tev vref dz dx : 0 < c ->
  adm3e (c * te) (c * tev) (c * vref) dz dx = adm3e te tev vref dz dx.
Proof.
  intros Hc. unfold adm3e. rewrite lin3.
  replace (dz * dz * (c * vref) / sqrt (dx * dx + dz * dz)) with (c * (dz * dz * vref / sqrt (dx * dx + dz * dz)))
    by (unfold Rdiv; ring).
  rewrite Rleb_scale by exact Hc. replace 0 with (c * 0) at 1 by ring. rewrite Rltb_scale by exact Hc. reflexivity.
Qed.
Lemma adm3e_scale_length c te tev vref dz dx : 0 < c ->
  adm3e (c * te) (c * tev) vref (c * dz) (c * dx) = adm3e te tev vref dz dx.
Proof.
  intros Hc. unfold adm3e. rewrite lin3.
  rewrite (sqrt_scale' c (dx * dx + dz * dz) (c * dx * (c * dx) + c * dz * (c * dz))) by (try lra; ring).
  replace (c * dz * (c * dz) * vref / (c * sqrt (dx * dx + dz * dz)))
    with (c * (dz * dz * vref / sqrt (dx * dx + dz * dz)))
    by (unfold Rdiv; rewrite Rinv_mult; set (ir := / sqrt _); field; lra).
  rewrite Rleb_scale by exact Hc. replace 0 with (c * 0) at 1 by ring. rewrite Rltb_scale by exact Hc. reflexivity.
Qed.
Lemma adm3v_scale_slowness c tv tev vref dz dx : 0 < c ->
  adm3v (c * tv) (c * tev) (c * vref) dz dx = adm3v tv tev vref dz dx.
Proof. intros Hc. rewrite <- !adm3_swap. apply adm3e_scale_slowness, Hc. Qed.
Lemma adm3v_scale_length c tv tev vref dz dx : 0 < c ->
  adm3v (c * tv) (c * tev) vref (c * dz) (c * dx) = adm3v tv tev vref dz dx.
Proof. intros Hc. rewrite <- !adm3_swap. apply adm3e_scale_length, Hc. Qed.

(* a 2D candidate either scales or is the constant Big in both systems *)
Definition t2rel c (x x' : R) : Prop := x' = c * x \/ (x = Big /\ x' = Big).

Lemma plane_t2d_scale_slowness c tv te tev vref dz dx dz2i dx2i : 0 < c ->
  t2rel c (plane_t2d tv te tev vref dz dx dz2i dx2i) (plane_t2d (c * tv) (c * te) (c * tev) (c * vref) dz dx dz2i dx2i).
Proof.
  intros Hc. unfold plane_t2d.
  rewrite adm4_scale_slowness, adm3e_scale_slowness, adm3v_scale_slowness by exact Hc.
  destruct (adm4 tv te tev vref dz dx); [left; apply four_point_scale_slowness; lra|].
  destruct (adm3e te tev vref dz dx); [left; apply three_point_e_scale_slowness; lra|].
  destruct (adm3v tv tev vref dz dx); [left; apply three_point_v_scale_slowness; lra|].
  right. split; reflexivity.
Qed.
Lemma plane_t2d_scale_length c tv te tev vref dz dx dz2i dx2i : 0 < c ->
  t2rel c (plane_t2d tv te tev vref dz dx dz2i dx2i)
          (plane_t2d (c * tv) (c * te) (c * tev) vref (c * dz) (c * dx) (dz2i / (c * c)) (dx2i / (c * c))).
Proof.
  intros Hc. unfold plane_t2d.
  rewrite adm4_scale_length, adm3e_scale_length, adm3v_scale_length by exact Hc.
  destruct (adm4 tv te tev vref dz dx); [left; apply four_point_scale_length; lra|].
  destruct (adm3e te tev vref dz dx); [left; apply three_point_e_scale_length; lra|].
  destruct (adm3v tv tev vref dz dx); [left; apply three_point_v_scale_length; lra|].
  right. split; reflexivity.
Qed.

Lemma delta_Big_rel_slowness c tauv taue tauev t0c tzc txc dzi dxi dz2i dx2i vzero vref sgntz sgntx : 0 < c ->
  t2rel c (delta Big tauv taue tauev t0c tzc txc dzi dxi dz2i dx2i vzero vref sgntz sgntx)
          (delta Big (c * tauv) (c * taue) (c * tauev) (c * t0c) (c * tzc) (c * txc) dzi dxi dz2i dx2i
                 (c * vzero) (c * vref) sgntz sgntx).
Proof.
  intros Hc. rewrite (delta_scale_slowness_gen c Big) by exact Hc.
  destruct (Rle_dec _ _) as [P|N]; [left; reflexivity|].
  right. split; [|reflexivity]. rewrite delta_eq. destruct (Rle_dec _ _); [contradiction|reflexivity].
Qed.
Lemma delta_Big_rel_length c tauv taue tauev t0c tzc txc dzi dxi dz2i dx2i vzero vref sgntz sgntx : 0 < c ->
  t2rel c (delta Big tauv taue tauev t0c tzc txc dzi dxi dz2i dx2i vzero vref sgntz sgntx)
          (delta Big (c * tauv) (c * taue) (c * tauev) (c * t0c) tzc txc (dzi / c) (dxi / c)
                 (dz2i / (c * c)) (dx2i / (c * c)) vzero vref sgntz sgntx).
Proof.
  intros Hc. rewrite (delta_scale_length_gen c Big) by exact Hc.
  destruct (Rle_dec _ _) as [P|N]; [left; reflexivity|].
  right. split; [|reflexivity]. rewrite delta_eq. destruct (Rle_dec _ _); [contradiction|reflexivity].
Qed.

Lemma spherical_raw_scale_slowness c tv te tev vref dz dx dzi dxi dz2i dx2i zsa xsa vzero i j sgntz sgntx : 0 < c ->
  t2rel c (spherical_raw tv te tev vref dz dx dzi dxi dz2i dx2i zsa xsa vzero i j sgntz sgntx)
          (spherical_raw (c * tv) (c * te) (c * tev) (c * vref) dz dx dzi dxi dz2i dx2i zsa xsa (c * vzero) i j sgntz sgntx).
Proof.
  intros Hc. unfold spherical_raw. rewrite t_anad_scale_slowness by exact Hc.
  destruct (t_anad i j dz dx zsa xsa vzero) as [[t0c tzc] txc].
  rewrite !t_ana_scale_slowness, !lin3. apply delta_Big_rel_slowness, Hc.
Qed.
Lemma spherical_raw_scale_length c tv te tev vref dz dx dzi dxi dz2i dx2i zsa xsa vzero i j sgntz sgntx : 0 < c ->
  t2rel c (spherical_raw tv te tev vref dz dx dzi dxi dz2i dx2i zsa xsa vzero i j sgntz sgntx)
          (spherical_raw (c * tv) (c * te) (c * tev) vref (c * dz) (c * dx) (dzi / c) (dxi / c)
                         (dz2i / (c * c)) (dx2i / (c * c)) zsa xsa vzero i j sgntz sgntx).
Proof.
  intros Hc. unfold spherical_raw. rewrite t_anad_scale_length by exact Hc.
  destruct (t_anad i j dz dx zsa xsa vzero) as [[t0c tzc] txc].
  rewrite !t_ana_scale_length, !lin3 by lra. apply delta_Big_rel_length, Hc.
Qed.

Lemma guard_rel c d d' tv te : 0 < c -> t2rel c d d' ->
  t2rel c (if Rltb d tv || Rltb d te then Big else d) (if Rltb d' (c * tv) || Rltb d' (c * te) then Big else d').
Proof.
  intros Hc [->|[-> ->]].
  - rewrite !Rltb_scale by exact Hc. destruct (Rltb d tv || Rltb d te); [right; split; reflexivity | left; reflexivity].
  - right. split; [destruct (_ || _) | destruct (_ || _)]; reflexivity.
Qed.

Lemma spherical_t2d_scale_slowness c tv te tev vref dz dx dzi dxi dz2i dx2i zsa xsa vzero i j sgntz sgntx : 0 < c ->
  t2rel c (spherical_t2d tv te tev vref dz dx dzi dxi dz2i dx2i zsa xsa vzero i j sgntz sgntx)
          (spherical_t2d (c * tv) (c * te) (c * tev) (c * vref) dz dx dzi dxi dz2i dx2i zsa xsa (c * vzero) i j sgntz sgntx).
Proof.
  intros Hc. unfold spherical_t2d. rewrite admS_scale_slowness by exact Hc.
  destruct (admS tv te tev vref dz dx); [|right; split; reflexivity].
  cbv zeta. apply guard_rel; [exact Hc|]. apply spherical_raw_scale_slowness, Hc.
Qed.
Lemma spherical_t2d_scale_length c tv te tev vref dz dx dzi dxi dz2i dx2i zsa xsa vzero i j sgntz sgntx : 0 < c ->
  t2rel c (spherical_t2d tv te tev vref dz dx dzi dxi dz2i dx2i zsa xsa vzero i j sgntz sgntx)
          (spherical_t2d (c * tv) (c * te) (c * tev) vref (c * dz) (c * dx) (dzi / c) (dxi / c)
                         (dz2i / (c * c)) (dx2i / (c * c)) zsa xsa vzero i j sgntz sgntx).
Proof.
  intros Hc. unfold spherical_t2d. rewrite admS_scale_length by exact Hc.
  destruct (admS tv te tev vref dz dx); [|right; split; reflexivity].
  cbv zeta. apply guard_rel; [exact Hc|]. apply spherical_raw_scale_length, Hc.
Qed.

Lemma pymin3_rel c (t0 t1 t2 t2' : R) : 0 < c -> t2rel c t2 t2' ->
  pymin2 t0 t1 < Big -> c * pymin2 t0 t1 < Big ->
  pymin3 (c * t0) (c * t1) t2' = c * pymin3 t0 t1 t2.
Proof.
  intros Hc Hr Hb Hb'. unfold pymin3. rewrite pymin2_scale by exact Hc. set (m := pymin2 t0 t1) in *.
  destruct Hr as [->|[-> ->]]; [apply pymin2_scale, Hc|].
  unfold pymin2. cbn [nltb NumR].
  rewrite (proj2 (Rltb_false Big (c * m))), (proj2 (Rltb_false Big m)) by lra. reflexivity.
Qed.

Theorem sweep_scale_slowness c tt ttsgn slow dz dx dzi dxi dz2i dx2i zsi xsi zsa xsa vzero
        i j sgnvz sgnvx sgntz sgntx nz nx grad :
  0 < c ->
  let m := pymin2 (get 0 tt [i; j]) (t1d tt slow dz dx i j sgnvz sgnvx sgntz sgntx nz nx) in
  forall (Hbig : m < Big) (Hbig' : c * m < Big),
  fst (sweep (smap c tt) ttsgn (smap c slow) (dz, dx, dzi, dxi, dz2i, dx2i) zsi xsi zsa xsa (c * vzero)
             i j sgnvz sgnvx sgntz sgntx nz nx grad)
  = smap c (fst (sweep tt ttsgn slow (dz, dx, dzi, dxi, dz2i, dx2i) zsi xsi zsa xsa vzero
                       i j sgnvz sgnvx sgntz sgntx nz nx grad)).
Proof.
  intros Hc m Hbig Hbig'. rewrite !sweep_tt_eq, <- set_smap. f_equal.
  rewrite get_smap, t1d_scale_slowness by exact Hc. apply pymin3_rel; try assumption.
  unfold sweep_t2d, nb_v, nb_e, nb_ev, cell_s. cbv zeta. rewrite !get_smap.
  destruct (outside_box zsi xsi i j).
  - apply plane_t2d_scale_slowness, Hc.
  - apply spherical_t2d_scale_slowness, Hc.
Qed.

Theorem sweep_scale_length c tt ttsgn slow dz dx dzi dxi dz2i dx2i zsi xsi zsa xsa vzero
        i j sgnvz sgnvx sgntz sgntx nz nx grad :
  0 < c ->
  let m := pymin2 (get 0 tt [i; j]) (t1d tt slow dz dx i j sgnvz sgnvx sgntz sgntx nz nx) in
  forall (Hbig : m < Big) (Hbig' : c * m < Big),
  fst (sweep (smap c tt) ttsgn slow (c * dz, c * dx, dzi / c, dxi / c, dz2i / (c * c), dx2i / (c * c))
             zsi xsi zsa xsa vzero i j sgnvz sgnvx sgntz sgntx nz nx grad)
  = smap c (fst (sweep tt ttsgn slow (dz, dx, dzi, dxi, dz2i, dx2i) zsi xsi zsa xsa vzero
                       i j sgnvz sgnvx sgntz sgntx nz nx grad)).
Proof.
  intros Hc m Hbig Hbig'. rewrite !sweep_tt_eq, <- set_smap. f_equal.
  rewrite get_smap, t1d_scale_length by exact Hc. apply pymin3_rel; try assumption.
  unfold sweep_t2d, nb_v, nb_e, nb_ev. cbv zeta. rewrite !get_smap.
  destruct (outside_box zsi xsi i j).
  - apply plane_t2d_scale_length, Hc.
  - apply spherical_t2d_scale_length, Hc.
Qed.

(* the arguments sweep2d builds from (c dz, c dx) are the scaled arguments it builds from (dz, dx) *)
Lemma dargs_of_scale_length c dz dx : c <> 0 ->
  dargs_of (c * dz) (c * dx)
  = (c * dz, c * dx, 1 / dz / c, 1 / dx / c, 1 / dz / dz / (c * c), 1 / dx / dx / (c * c)).
Proof. intros Hc. unfold dargs_of. unfold Rdiv. rewrite !Rinv_mult.
  repeat (f_equal; try ring). Qed.

(* the same law with the arguments sweep2d actually builds from the grid spacings *)
Corollary sweep_scale_length_dargs c tt ttsgn slow dz dx zsi xsi zsa xsa vzero i j sgnvz sgnvx sgntz sgntx nz nx grad :
  0 < c ->
  let m := pymin2 (get 0 tt [i; j]) (t1d tt slow dz dx i j sgnvz sgnvx sgntz sgntx nz nx) in
  forall (Hbig : m < Big) (Hbig' : c * m < Big),
  fst (sweep (smap c tt) ttsgn slow (dargs_of (c * dz) (c * dx)) zsi xsi zsa xsa vzero i j sgnvz sgnvx sgntz sgntx nz nx grad)
  = smap c (fst (sweep tt ttsgn slow (dargs_of dz dx) zsi xsi zsa xsa vzero i j sgnvz sgnvx sgntz sgntx nz nx grad)).
Proof.
  intros Hc m Hbig Hbig'. rewrite dargs_of_scale_length by lra. unfold dargs_of. apply sweep_scale_length; assumption.
Qed.

(* Hbig/Hbig' are satisfiable whenever the node or one of its axial neighbours has been reached and the times are
   below 1e5 in both unit systems, e.g. on the example grid with c = 1000 (seconds -> milliseconds): *)
Example sweep_scale_slowness_ex :
  fst (sweep (smap 1000 (ex_tt (8/5) (6/5))) ex_sgn (smap 1000 ex_slow) (dargs_of 1 1) 100 100 100 100 (1000 * 2)
             1 1 1 1 1 1 2 2 false)
  = smap 1000 (fst (sweep (ex_tt (8/5) (6/5)) ex_sgn ex_slow (dargs_of 1 1) 100 100 100 100 2 1 1 1 1 1 1 2 2 false)).
Proof.
  assert (E : pymin2 (get 0 (ex_tt (8/5) (6/5)) [1%Z; 1%Z]) (t1d (ex_tt (8/5) (6/5)) ex_slow 1 1 1 1 1 1 1 1 2 2) = 6/5 + 1 * 2).
  { change (pymin2 100000 (pymin2 (8/5 + 1 * pymin2 2 2) (6/5 + 1 * pymin2 2 2)) = 6/5 + 1 * 2).
    unfold pymin2. cbn [nltb NumR].
    rewrite (proj2 (Rltb_false 2 2)) by lra. rewrite (proj2 (Rltb_true (6/5 + 1 * 2) (8/5 + 1 * 2))) by lra.
    rewrite (proj2 (Rltb_true (6/5 + 1 * 2) 100000)) by lra. reflexivity. }
  apply sweep_scale_slowness; [lra | |]; rewrite E; unfold Big; cbn [nofZ NumR]; lra.
Qed.

(* x-neighbour not reached yet (Big): the 3-point operator through the z-neighbour, direction (4/5, 3/5) *)
Example sweep_three_point_v_plane_wave_ex :
  fst (sweep (ex_tt (6/5) 100000) ex_sgn ex_slow (dargs_of 1 1) 100 100 100 100 2 1 1 1 1 1 1 2 2 false)
  = set (ex_tt (6/5) 100000) [1%Z; 1%Z]
        (pymin3 100000 (t1d (ex_tt (6/5) 100000) ex_slow 1 1 1 1 1 1 1 1 2 2) (0 + 2 * (4/5 * 1 + 3/5 * 1))).
Proof.
  assert (H2 : sqrt 2 * sqrt 2 = 2) by (apply sqrt_sqrt; lra). pose proof (sqrt_pos 2) as P2.
  assert (H1 : 1 <= sqrt 2) by nra.
  apply (sweep_three_point_v_plane_wave (ex_tt (6/5) 100000) ex_sgn ex_slow 1 1 100 100 100 100 2 1 1 1 1 1 1 2 2 false
           0 2 (4/5) (3/5)); try lra.
  - replace (1 * 1 + 1 * 1) with 2 by ring. nra.
  - left. unfold epsin. rewrite Rabs_left; lra.
  - reflexivity.
  - change (6 / 5 = 0 + 2 * (3 / 5) * 1). lra.
  - reflexivity.
  - right. left. change (0 + 2 * (3 / 5) * 1 + 1 * 2 < 100000). lra.
  - change (~ (100000 - 0 <= 1 * 1 * 2 / sqrt (1 * 1 + 1 * 1) /\ 0 < 100000 - 0)).
    replace (1 * 1 + 1 * 1) with 2 by ring. intros [Hle _].
    assert (1 * 1 * 2 / sqrt 2 <= 2).
    { apply (Rmult_le_reg_r (sqrt 2)); [lra|]. unfold Rdiv. rewrite Rmult_assoc, Rinv_l by lra. lra. }
    lra.
Qed.

(* ------------------------------------------------------------------------------------------ *)
(* A2 at the level of sweep: near the source of a homogeneous medium the spherical operator     *)
(* reproduces the analytic time                                                                 *)
(* ------------------------------------------------------------------------------------------ *)
Theorem spherical_raw_homogeneous dz dx dzi dxi dz2i dx2i zsa xsa vzero i j sgntz sgntx :
  0 <= dz -> 0 <= dx -> 0 <= dzi -> 0 <= dxi ->
  0 <= IZR sgntz * (IZR i - zsa) -> 0 <= IZR sgntx * (IZR j - xsa) ->      (* the sweep looks away from the source *)
  spherical_raw (t_ana (i - sgntz) j dz dx zsa xsa vzero) (t_ana i (j - sgntx) dz dx zsa xsa vzero)
                (t_ana (i - sgntz) (j - sgntx) dz dx zsa xsa vzero) vzero
                dz dx dzi dxi dz2i dx2i zsa xsa vzero i j sgntz sgntx
  = t_ana i j dz dx zsa xsa vzero.
Proof.
  intros Hdz Hdx Hdzi Hdxi Hz Hx. unfold spherical_raw. rewrite t_anad_exact.
  set (t := t_ana i j dz dx zsa xsa vzero).
  replace (t_ana (i - sgntz) j dz dx zsa xsa vzero - t_ana (i - sgntz) j dz dx zsa xsa vzero) with 0 by ring.
  replace (t_ana i (j - sgntx) dz dx zsa xsa vzero - t_ana i (j - sgntx) dz dx zsa xsa vzero) with 0 by ring.
  replace (t_ana (i - sgntz) (j - sgntx) dz dx zsa xsa vzero - t_ana (i - sgntz) (j - sgntx) dz dx zsa xsa vzero)
    with 0 by ring.
  apply delta_spherical_exact.
  destruct (Rlt_dec 0 t) as [P|N]; [|lra].
  assert (Hv : 0 <= vzero ^ 2) by apply pow2_ge_0.
  assert (Hit : 0 <= / t) by (left; apply Rinv_0_lt_compat; exact P).
  assert (G : forall q1 q2 q3 q4 q5 : R, 0 <= q1 -> 0 <= q2 -> 0 <= q3 -> 0 <= q4 -> 0 <= q5 -> 0 <= q1 * q2 * q3 * q4 * q5)
    by (intros; repeat apply Rmult_le_pos; assumption).
  set (v2 := vzero ^ 2) in *. set (pz := IZR sgntz * (IZR i - zsa)) in *. set (px := IZR sgntx * (IZR j - xsa)) in *.
  apply Rplus_le_le_0_compat.
  - replace (IZR sgntx * (v2 * (IZR j - xsa) * dx / t) * dxi) with (v2 * px * dx * / t * dxi)
      by (unfold px, Rdiv; ring).
    apply G; assumption.
  - replace (IZR sgntz * (v2 * (IZR i - zsa) * dz / t) * dzi) with (v2 * pz * dz * / t * dzi)
      by (unfold pz, Rdiv; ring).
    apply G; assumption.
Qed.

Theorem sweep_spherical_homogeneous tt ttsgn slow dz dx dzi dxi dz2i dx2i zsi xsi zsa xsa vzero
        i j sgnvz sgnvx sgntz sgntx nz nx grad :
  let tv := t_ana (i - sgntz) j dz dx zsa xsa vzero in let te := t_ana i (j - sgntx) dz dx zsa xsa vzero in
  let tev := t_ana (i - sgntz) (j - sgntx) dz dx zsa xsa vzero in let tn := t_ana i j dz dx zsa xsa vzero in
  0 <= dz -> 0 <= dx -> 0 <= dzi -> 0 <= dxi ->
  0 <= IZR sgntz * (IZR i - zsa) -> 0 <= IZR sgntx * (IZR j - xsa) ->
  ~ (IZR epsin < Rabs (IZR i - zsi) \/ IZR epsin < Rabs (IZR j - xsi)) ->
  nb_v tt i j sgntz = tv -> nb_e tt i j sgntx = te -> nb_ev tt i j sgntz sgntx = tev ->   (* exact upwind values *)
  cell_s slow i j sgnvz sgnvx = vzero ->
  tv < te + dx * vzero -> te < tv + dz * vzero -> tev <= te -> tev <= tv -> tv <= tn -> te <= tn ->
  fst (sweep tt ttsgn slow (dz, dx, dzi, dxi, dz2i, dx2i) zsi xsi zsa xsa vzero i j sgnvz sgnvx sgntz sgntx nz nx grad)
  = set tt [i; j] (pymin3 (get 0 tt [i; j]) (t1d tt slow dz dx i j sgnvz sgnvx sgntz sgntx nz nx) tn).
Proof.
  intros tv te tev tn Hdz Hdx Hdzi Hdxi Hz Hx Hbox Ev Ee Eev Es H1 H2 H3 H4 H5 H6.
  pose proof (spherical_raw_homogeneous dz dx dzi dxi dz2i dx2i zsa xsa vzero i j sgntz sgntx Hdz Hdx Hdzi Hdxi Hz Hx) as E.
  fold tv te tev tn in E.
  rewrite sweep_uses_spherical; rewrite ?Ev, ?Ee, ?Eev, ?Es, ?E; try assumption. reflexivity.
Qed.

(* ------------------------------------------------------------------------------------------ *)
Print Assumptions t_ana_exact.
Print Assumptions t_anad_exact.
Print Assumptions delta_spherical_exact.
Print Assumptions delta_spherical_exact_neg.
Print Assumptions sweep_tt_eq.
Print Assumptions sweep_uses_four_point.
Print Assumptions four_point_exact_on_plane_wave.
Print Assumptions sweep_four_point_plane_wave.
Print Assumptions sweep_three_point_e_plane_wave.
Print Assumptions sweep_three_point_v_plane_wave.
Print Assumptions sweep_spherical_homogeneous.
Print Assumptions t_ana_scale_slowness.
Print Assumptions t_ana_scale_length.
Print Assumptions t_anad_scale_slowness.
Print Assumptions t_anad_scale_length.
Print Assumptions delta_scale_slowness.
Print Assumptions delta_scale_length.
Print Assumptions sweep_scale_slowness.
Print Assumptions sweep_scale_length.
Print Assumptions sweep_scale_length_dargs.
Print Assumptions t_ana_swap.
Print Assumptions t_anad_swap.
Print Assumptions delta_swap.
Print Assumptions four_point_swap.
Print Assumptions three_point_swap.
Print Assumptions plane_t2d_swap.
Print Assumptions spherical_t2d_swap.
