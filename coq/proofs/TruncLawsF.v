(* The node-index law of TruncLaws for IEEE binary64 (instance NumF), with a bound on the number of cells:

     trunc_round_div_range_F :
       forall z d n, 1 <= n <= 2^50 -> leb 0 z = true -> ltb 0 d = true -> leb z (mul d (f_ofZ n)) = true ->
       0 <= f_trunc (f_round (div z d)) <= n
     TruncLawsF : TruncLaws float           cells_ok n := 1 <= n <= 2^50
     fteik2d_ok_true_F                      SafetySolve2d.fteik2d_ok_true at binary64

   for ALL floats z and d: NaN, infinities, signed zeros, subnormal numbers, overflow of d * n to +inf and underflow of
   z / d included.  (Without a bound the law is false: SafetySolveTools.trunc_round_div_range_F_needs_bound, n = 2^53+3.)

   Proof.  rnd is round-to-nearest-even in the format FLT(emin = -1074, prec = 53) with unbounded exponents upwards.
   * leb 0 z and ltb 0 d leave z in {+-0, positive finite, +inf} and d in {positive finite, +inf}.
     If d = +inf, or z = +inf, the quotient is a zero, an infinity or NaN, and int(np.round(.)) of those is 0
     (f_trunc maps infinities and NaN to 0): trunc_round_not_fin.
   * z, d finite: z <= rnd (d * n) holds in the reals whether or not d * n overflows (when it does, rnd (d * n) >= 2^1024
     exceeds every finite float).  d is an integer multiple of 2^-1074, hence so is d * n, and the relative error bound
     |rnd x - x| <= 2^-53 |x| holds for such x, subnormal range included (Flocq relative_error_N_FLT_F2R_emin).  Thus
     z / d <= n (1 + 2^-53) <= n + 1/8 <= n + 1/4, a float, so q = rnd (z / d) is in [0, n + 1/4] (monotonicity; no
     overflow; underflow only lowers q): core_R.
   * np.round q = (q + 2^52) - 2^52: a = rnd (q + 2^52) is at least as close to q + 2^52 as the floats 2^52 and
     2^52 + n, which gives 2^52 <= a <= 2^52 + n + 1/2; then r = rnd (a - 2^52) lies in [0, n + 1/2] (n + 1/2 is a float): round_R.
   * int r <= r < n + 1 and int r >= 0: f_trunc_le.
   Assumptions used: the PrimFloat/Uint63 primitives with their FloatAxioms/Uint63 specifications, the classical
   standard-library reals (as required by Flocq), functional extensionality; see Print Assumptions at the end. *)
From Coq Require Import ZArith Reals Lia Lra List Bool.
From Coq Require Import PrimFloat Uint63 FloatOps FloatAxioms SpecFloat.
From Flocq Require Import Core Relative BinarySingleNaN.
From Flocq Require IEEE754.PrimFloat.
From FT.lib Require Import Num Arr.
From FT.proofs Require Import NumFLaws SafetySolveTools SafetySolve2d.
Import ListNotations.

Local Open Scope R_scope.

Notation fexp64 := (FLT_exp (-1074) 53).
Notation fmt := (generic_format radix2 fexp64).
Notation rnd := (round radix2 fexp64 ZnearestE).

Local Instance prec53_gt_0 : Prec_gt_0 53 := eq_refl.

Lemma fmt_F2R (m e : Z) : (Z.abs m < 2 ^ 53)%Z -> (-1074 <= e)%Z -> fmt (F2R (Float radix2 m e)).
Proof.
  intros Hm He. apply generic_format_FLT.
  exact (FLT_spec radix2 (-1074) 53 _ (Float radix2 m e) eq_refl Hm He).
Qed.

Lemma fmt_IZR (k : Z) : (Z.abs k < 2 ^ 53)%Z -> fmt (IZR k).
Proof.
  intros Hk. replace (IZR k) with (F2R (Float radix2 k 0)).
  - apply fmt_F2R; [ exact Hk | lia ].
  - unfold F2R; simpl. ring.
Qed.

Lemma fmt_quarter (n : Z) : (0 <= n <= 1125899906842624)%Z -> fmt (IZR n + / 4).
Proof.
  intros Hn. replace (IZR n + / 4) with (F2R (Float radix2 (4 * n + 1) (-2))).
  - apply fmt_F2R; lia.
  - unfold F2R; cbn [Fnum Fexp]. rewrite plus_IZR, mult_IZR. simpl. change (Z.pow_pos 2 2) with 4%Z. lra.
Qed.

Lemma fmt_half (n : Z) : (0 <= n <= 1125899906842624)%Z -> fmt (IZR n + / 2).
Proof.
  intros Hn. replace (IZR n + / 2) with (F2R (Float radix2 (2 * n + 1) (-1))).
  - apply fmt_F2R; lia.
  - unfold F2R; cbn [Fnum Fexp]. rewrite plus_IZR, mult_IZR. simpl. change (Z.pow_pos 2 1) with 2%Z. lra.
Qed.

Lemma rnd_le (x y : R) : x <= y -> rnd x <= rnd y.
Proof. apply round_le; auto with typeclass_instances. Qed.

Lemma rnd_id (x : R) : fmt x -> rnd x = x.
Proof. apply round_generic; auto with typeclass_instances. Qed.

Lemma rnd_0 : rnd 0 = 0.
Proof. apply round_0; auto with typeclass_instances. Qed.

(* rounding error of (float) * (integer) : relative, subnormal range included *)
Lemma mul_int_err (d : R) (k : Z) : fmt d ->
  Rabs (rnd (d * IZR k) - d * IZR k) <= / 2 * bpow radix2 (-53 + 1) * Rabs (d * IZR k).
Proof.
  intros Fd.
  apply generic_format_FIX_FLT in Fd. apply FIX_format_generic in Fd.
  destruct Fd as [[m e] Hd He]. simpl in He. subst e.
  replace (d * IZR k) with (F2R (Float radix2 (m * k) (-1074))).
  - exact (relative_error_N_FLT_F2R_emin radix2 (-1074) 53 eq_refl (fun x => negb (Z.even x)) (m * k)).
  - rewrite Hd. unfold F2R. cbn [Fnum Fexp]. rewrite mult_IZR. ring.
Qed.

Definition P52 : R := 4503599627370496.

Lemma bpow_m52 : bpow radix2 (-53 + 1) = / P52.
Proof. unfold P52. simpl. reflexivity. Qed.

(* z <= fl(d * n)  ->  0 <= fl(z / d) <= n + 1/4   (idealised rounding: unbounded exponent range upwards) *)
Lemma core_R (z d : R) (n : Z) :
  fmt d -> 0 <= z -> 0 < d -> (1 <= n <= 1125899906842624)%Z -> z <= rnd (d * IZR n) ->
  0 <= rnd (z / d) <= IZR n + / 4.
Proof.
  intros Fd Hz Hd Hn Hle.
  assert (N1 : 1 <= IZR n) by (apply IZR_le; lia).
  assert (N2 : IZR n <= 1125899906842624) by (apply IZR_le; lia).
  pose proof (mul_int_err d n Fd) as E. rewrite bpow_m52 in E. unfold P52 in E.
  assert (Hdn : 0 <= d * IZR n) by (apply Rmult_le_pos; lra).
  rewrite (Rabs_pos_eq _ Hdn) in E.
  assert (E' : rnd (d * IZR n) <= d * IZR n + / 2 * / 4503599627370496 * (d * IZR n)).
  { revert E. unfold Rabs. destruct Rcase_abs; lra. }
  assert (Hid : 0 < / d) by (apply Rinv_0_lt_compat; exact Hd).
  assert (Q0 : 0 <= z / d) by (unfold Rdiv; apply Rmult_le_pos; lra).
  assert (Q1 : z / d <= IZR n + / 4).
  { apply Rle_trans with ((d * IZR n + / 2 * / 4503599627370496 * (d * IZR n)) / d).
    - unfold Rdiv. apply Rmult_le_compat_r; lra.
    - replace ((d * IZR n + / 2 * / 4503599627370496 * (d * IZR n)) / d)
        with (IZR n + / 2 * / 4503599627370496 * IZR n) by (field; lra).
      lra. }
  split.
  - rewrite <- rnd_0. apply rnd_le. exact Q0.
  - rewrite <- (rnd_id (IZR n + / 4)) by (apply fmt_quarter; lia). apply rnd_le. exact Q1.
Qed.

(* np.round by the 2^52 trick followed by int(): real-number part *)
Lemma round_R (q : R) (n : Z) :
  (0 <= n <= 1125899906842624)%Z -> 0 <= q <= IZR n + / 4 ->
  (P52 <= rnd (q + P52) <= P52 + IZR n + / 2) /\
  (0 <= rnd (rnd (q + P52) - P52) <= IZR n + / 2).
Proof.
  intros Hn Hq.
  assert (N2 : 0 <= IZR n <= 1125899906842624) by (split; apply IZR_le; lia).
  assert (A : P52 <= rnd (q + P52) <= P52 + IZR n + / 2).
  { destruct (round_N_pt radix2 fexp64 (fun x => negb (Z.even x)) (q + P52)) as [_ Hnear].
    fold ZnearestE in Hnear.
    assert (F1 : fmt P52) by (unfold P52; apply fmt_IZR; change (2 ^ 53)%Z with 9007199254740992%Z; lia).
    assert (F2 : fmt (P52 + IZR n)).
    { unfold P52. rewrite <- plus_IZR. apply fmt_IZR. change (2 ^ 53)%Z with 9007199254740992%Z. lia. }
    pose proof (Hnear _ F1) as H1. pose proof (Hnear _ F2) as H2.
    revert H1 H2. unfold Rabs. repeat destruct Rcase_abs; lra. }
  split; [ exact A | ].
  split.
  - rewrite <- rnd_0. apply rnd_le. lra.
  - rewrite <- (rnd_id (IZR n + / 2)) by (apply fmt_half; lia). apply rnd_le. lra.
Qed.

(* ------------------------------------------------------------------------------------------ *)
(* binary64                                                                                     *)
(* ------------------------------------------------------------------------------------------ *)
Local Existing Instance FP.Hprec.
Local Existing Instance FP.Hmax.

Lemma P52_B : is_finite (FP.Prim2B f_2p52) = true /\ B2R (FP.Prim2B f_2p52) = P52.
Proof.
  unfold FP.Prim2B. rewrite is_finite_SF2B, B2R_SF2B.
  replace (Prim2SF f_2p52) with (S754_finite false 4503599627370496 0) by (vm_compute; reflexivity).
  split; [ reflexivity | ]. unfold SF2R, F2R, P52. cbn [cond_Zopp Fnum Fexp bpow]. ring.
Qed.

Lemma zero_B : FP.Prim2B 0%float = B754_zero false.
Proof.
  apply B2SF_inj. rewrite FP.B2SF_Prim2B. vm_compute. reflexivity.
Qed.

Lemma Bmult_rnd_fin (x y : B64) :
  Rabs (rnd (B2R x * B2R y)) < bpow radix2 1024 ->
  B2R (Bmult mode_NE x y) = rnd (B2R x * B2R y) /\
  is_finite (Bmult mode_NE x y) = andb (is_finite x) (is_finite y).
Proof.
  intros H. pose proof (Bmult_correct prec emax _ _ mode_NE x y) as C.
  rewrite Rlt_bool_true in C by exact H. destruct C as (C1 & C2 & _). split; [ exact C1 | exact C2 ].
Qed.

Lemma Bdiv_rnd_fin (x y : B64) :
  B2R y <> 0 -> Rabs (rnd (B2R x / B2R y)) < bpow radix2 1024 ->
  B2R (Bdiv mode_NE x y) = rnd (B2R x / B2R y) /\ is_finite (Bdiv mode_NE x y) = is_finite x.
Proof.
  intros Hy H. pose proof (Bdiv_correct prec emax _ _ mode_NE x y Hy) as C.
  rewrite Rlt_bool_true in C by exact H. destruct C as (C1 & C2 & _). split; [ exact C1 | exact C2 ].
Qed.

Lemma Bplus_rnd_fin (x y : B64) :
  is_finite x = true -> is_finite y = true -> Rabs (rnd (B2R x + B2R y)) < bpow radix2 1024 ->
  B2R (Bplus mode_NE x y) = rnd (B2R x + B2R y) /\ is_finite (Bplus mode_NE x y) = true.
Proof.
  intros Fx Fy H. pose proof (Bplus_correct prec emax _ _ mode_NE x y Fx Fy) as C.
  rewrite Rlt_bool_true in C by exact H. destruct C as (C1 & C2 & _). split; [ exact C1 | exact C2 ].
Qed.

Lemma Bminus_rnd_fin (x y : B64) :
  is_finite x = true -> is_finite y = true -> Rabs (rnd (B2R x - B2R y)) < bpow radix2 1024 ->
  B2R (Bminus mode_NE x y) = rnd (B2R x - B2R y) /\ is_finite (Bminus mode_NE x y) = true.
Proof.
  intros Fx Fy H. pose proof (Bminus_correct prec emax _ _ mode_NE x y Fx Fy) as C.
  rewrite Rlt_bool_true in C by exact H. destruct C as (C1 & C2 & _). split; [ exact C1 | exact C2 ].
Qed.

Lemma big_1024 : 9007199254740992 < bpow radix2 1024.
Proof.
  change 9007199254740992 with (bpow radix2 53). apply bpow_lt. lia.
Qed.

(* int() of a finite non-negative float is below its value and not negative *)
Lemma f_trunc_le (r : PrimFloat.float) :
  is_finite (FP.Prim2B r) = true -> 0 <= B2R (FP.Prim2B r) ->
  (0 <= f_trunc r)%Z /\ IZR (f_trunc r) <= B2R (FP.Prim2B r).
Proof.
  unfold f_trunc. rewrite <- FP.B2SF_Prim2B.
  destruct (FP.Prim2B r) as [s | s | | s m e Hb]; cbn [B2SF B2R is_finite]; intros Hf Hr; try discriminate Hf.
  - split; [ lia | lra ].
  - destruct s.
    + exfalso.
      assert (F2R (Float radix2 (cond_Zopp true (Z.pos m)) e) < 0) by (apply F2R_lt_0; reflexivity). lra.
    + cbn [cond_Zopp]. unfold F2R. cbn [Fnum Fexp].
      destruct (0 <=? e)%Z eqn:E.
      * apply Z.leb_le in E. split.
        -- apply Z.mul_nonneg_nonneg; [ lia | apply Z.pow_nonneg; lia ].
        -- rewrite mult_IZR, IZR_pow2 by exact E. lra.
      * apply Z.leb_gt in E.
        assert (Hp : (0 < 2 ^ (- e))%Z) by (apply Z.pow_pos_nonneg; lia).
        split; [ apply Z.div_pos; lia | ].
        replace e with (- (- e))%Z at 2 by lia. rewrite bpow_opp, <- IZR_pow2 by lia.
        assert (HpR : 0 < IZR (2 ^ (- e))) by (apply IZR_lt; exact Hp).
        assert (M : IZR (Z.pos m / 2 ^ (- e)) * IZR (2 ^ (- e)) <= IZR (Z.pos m)).
        { rewrite <- mult_IZR. apply IZR_le. rewrite Z.mul_comm. apply Z.mul_div_le. exact Hp. }
        apply Rmult_le_reg_r with (IZR (2 ^ (- e))); [ exact HpR | ].
        rewrite Rmult_assoc, Rinv_l by lra. lra.
Qed.

Definition not_fin (x : spec_float) : bool := match x with S754_finite _ _ _ => false | _ => true end.

(* zeros, infinities and NaN all end up as index 0 *)
Lemma trunc_round_not_fin (q : PrimFloat.float) : not_fin (Prim2SF q) = true -> f_trunc (f_round q) = 0%Z.
Proof.
  rewrite <- (SF2Prim_Prim2SF q) at 2.
  destruct (Prim2SF q) as [s | s | | s m e]; intros H; try discriminate H;
    try destruct s; vm_compute; reflexivity.
Qed.

Lemma not_fin_B (q : PrimFloat.float) : (match FP.Prim2B q with B754_finite _ _ _ _ => false | _ => true end) = true ->
  not_fin (Prim2SF q) = true.
Proof. rewrite <- FP.B2SF_Prim2B. destruct (FP.Prim2B q); intros H; try discriminate H; reflexivity. Qed.

(* int(np.round(q)) for a finite float 0 <= q <= n + 1/4 *)
Lemma round_trunc_F (q : PrimFloat.float) (n : Z) :
  (0 <= n <= 1125899906842624)%Z -> is_finite (FP.Prim2B q) = true -> 0 <= B2R (FP.Prim2B q) <= IZR n + / 4 ->
  (0 <= f_trunc (f_round q) <= n)%Z.
Proof.
  intros Hn Fq Hq.
  assert (N2 : 0 <= IZR n <= 1125899906842624) by (split; apply IZR_le; lia).
  destruct P52_B as [F52 R52]. pose proof big_1024 as Big.
  destruct (round_R _ n Hn Hq) as [A Rr].
  unfold f_round.
  assert (C1 : PrimFloat.ltb (PrimFloat.abs q) f_2p52 = true).
  { rewrite FP.ltb_equiv, FP.abs_equiv, Bltb_correct by (rewrite ?is_finite_Babs; assumption).
    rewrite B2R_Babs, R52. apply Rlt_bool_true. rewrite Rabs_pos_eq by lra. unfold P52. lra. }
  assert (C2 : PrimFloat.ltb q 0%float = false).
  { rewrite FP.ltb_equiv, zero_B, Bltb_correct by (assumption || reflexivity).
    apply Rlt_bool_false. simpl. lra. }
  rewrite C1, C2.
  assert (HA : Rabs (rnd (B2R (FP.Prim2B q) + B2R (FP.Prim2B f_2p52))) < bpow radix2 1024).
  { rewrite R52. rewrite Rabs_pos_eq by (unfold P52 in *; lra). unfold P52 in *. lra. }
  destruct (Bplus_rnd_fin _ _ Fq F52 HA) as [RA FA]. rewrite <- FP.add_equiv in RA, FA. rewrite R52 in RA.
  assert (HS : Rabs (rnd (B2R (FP.Prim2B (q + f_2p52)%float) - B2R (FP.Prim2B f_2p52))) < bpow radix2 1024).
  { rewrite R52, RA. rewrite Rabs_pos_eq by lra. lra. }
  destruct (Bminus_rnd_fin _ _ FA F52 HS) as [RS FS]. rewrite <- FP.sub_equiv in RS, FS. rewrite R52, RA in RS.
  destruct (f_trunc_le _ FS) as [T0 T1]; [ rewrite RS; lra | ].
  split; [ exact T0 | ].
  assert (L : IZR (f_trunc (q + f_2p52 - f_2p52)%float) < IZR (n + 1)).
  { rewrite plus_IZR. rewrite RS in T1. lra. }
  apply lt_IZR in L. lia.
Qed.

Lemma ofZ_B (n : Z) : (1 <= n <= 1125899906842624)%Z ->
  is_finite (FP.Prim2B (f_ofZ n)) = true /\ B2R (FP.Prim2B (f_ofZ n)) = IZR n.
Proof.
  intros Hn. destruct n as [ | p | p ]; try lia. cbn [f_ofZ].
  rewrite FP.of_int63_equiv.
  assert (E : Uint63.to_Z (Uint63.of_Z (Z.pos p)) = Z.pos p).
  { rewrite Uint63.of_Z_spec. apply Z.mod_small. change wB with 9223372036854775808%Z. lia. }
  rewrite E.
  pose proof (binary_normalize_correct prec emax _ _ mode_NE (Z.pos p) 0 false) as C. cbv zeta in C.
  assert (V : F2R (Float radix2 (Z.pos p) 0) = IZR (Z.pos p)) by (unfold F2R; simpl; ring).
  assert (Fp : fmt (IZR (Z.pos p))) by (apply fmt_IZR; change (2 ^ 53)%Z with 9007199254740992%Z; lia).
  assert (H : Rabs (rnd (F2R (Float radix2 (Z.pos p) 0))) < bpow radix2 1024).
  { rewrite V, rnd_id by exact Fp. pose proof big_1024. 
    assert (0 < IZR (Z.pos p) <= 1125899906842624) by (split; [ apply IZR_lt | apply IZR_le ]; lia).
    rewrite Rabs_pos_eq by lra. lra. }
  rewrite Rlt_bool_true in C by exact H. destruct C as (C1 & C2 & _).
  split; [ exact C2 | ]. rewrite <- (rnd_id _ Fp), <- V. exact C1.
Qed.

Lemma Bleb_zero_cases (Z : B64) : Bleb (B754_zero false) Z = true ->
  (is_finite Z = true /\ 0 <= B2R Z) \/ Z = B754_infinity false.
Proof.
  intros H. destruct (is_finite Z) eqn:F.
  - left. split; [ reflexivity | ]. rewrite Bleb_correct in H by (assumption || reflexivity).
    revert H. case Rle_bool_spec; [ intros L _; exact L | intros _ H; discriminate H ].
  - destruct Z as [s | s | | s m e Hb]; try discriminate F.
    + destruct s; [ discriminate H | right; reflexivity ].
    + discriminate H.
Qed.

Lemma Bltb_zero_cases (D : B64) : Bltb (B754_zero false) D = true ->
  (is_finite D = true /\ 0 < B2R D) \/ D = B754_infinity false.
Proof.
  intros H. destruct (is_finite D) eqn:F.
  - left. split; [ reflexivity | ]. rewrite Bltb_correct in H by (assumption || reflexivity).
    revert H. case Rlt_bool_spec; [ intros L _; exact L | intros _ H; discriminate H ].
  - destruct D as [s | s | | s m e Hb]; try discriminate F.
    + destruct s; [ discriminate H | right; reflexivity ].
    + discriminate H.
Qed.

(* The node-index law of TruncLaws for binary64, every float z and d (NaN, infinities, signed zeros, subnormal
   numbers, overflow of d * n, underflow of z / d included), cell counts 1 .. 2^50. *)
Theorem trunc_round_div_range_F (z d : PrimFloat.float) (n : Z) :
  (1 <= n <= 2 ^ 50)%Z ->
  PrimFloat.leb (f_ofZ 0) z = true -> PrimFloat.ltb (f_ofZ 0) d = true ->
  PrimFloat.leb z (PrimFloat.mul d (f_ofZ n)) = true ->
  (0 <= f_trunc (f_round (PrimFloat.div z d)) <= n)%Z.
Proof.
  intros Hn Hz Hd Hle. change (2 ^ 50)%Z with 1125899906842624%Z in Hn.
  change (f_ofZ 0) with 0%float in Hz, Hd.
  rewrite FP.leb_equiv in Hz, Hle. rewrite FP.ltb_equiv in Hd. rewrite FP.mul_equiv in Hle.
  rewrite zero_B in Hz, Hd.
  destruct (ofZ_B n Hn) as [FN RN].
  assert (NF : forall q, (match FP.Prim2B q with B754_finite _ _ _ _ => false | _ => true end) = true ->
               (0 <= f_trunc (f_round q) <= n)%Z).
  { intros q Hq. rewrite (trunc_round_not_fin q (not_fin_B q Hq)). lia. }
  destruct (Bltb_zero_cases _ Hd) as [[FD RD] | ED].
  - destruct (Bleb_zero_cases _ Hz) as [[FZ RZ] | EZ].
    + (* both finite *)
      assert (Fd : fmt (B2R (FP.Prim2B d))) by (exact (generic_format_B2R prec emax (FP.Prim2B d))).
      assert (Hdn : 0 <= B2R (FP.Prim2B d) * IZR n).
      { apply Rmult_le_pos; [ lra | apply IZR_le; lia ]. }
      assert (R0 : 0 <= rnd (B2R (FP.Prim2B d) * IZR n)) by (rewrite <- rnd_0; apply rnd_le; exact Hdn).
      assert (Hzr : B2R (FP.Prim2B z) <= rnd (B2R (FP.Prim2B d) * IZR n)).
      { destruct (Rlt_or_le (Rabs (rnd (B2R (FP.Prim2B d) * IZR n))) (bpow radix2 1024)) as [Hfin | Hovf].
        - rewrite <- RN in Hfin. destruct (Bmult_rnd_fin _ _ Hfin) as [RM FM].
          rewrite FD, FN in FM. rewrite Bleb_correct in Hle by assumption.
          revert Hle. case Rle_bool_spec; [ intros L _ | intros _ H; discriminate H ].
          rewrite RM, RN in L. exact L.
        - rewrite Rabs_pos_eq in Hovf by exact R0.
          pose proof (abs_B2R_lt_emax prec emax (FP.Prim2B z)) as Hlt.
          rewrite Rabs_pos_eq in Hlt by exact RZ. change (bpow radix2 emax) with (bpow radix2 1024) in Hlt. lra. }
      destruct (core_R _ _ n Fd RZ RD Hn Hzr) as [Q0 Q1].
      assert (N2 : IZR n <= 1125899906842624) by (apply IZR_le; lia).
      assert (HQ : Rabs (rnd (B2R (FP.Prim2B z) / B2R (FP.Prim2B d))) < bpow radix2 1024).
      { pose proof big_1024. rewrite Rabs_pos_eq by exact Q0. lra. }
      destruct (Bdiv_rnd_fin (FP.Prim2B z) (FP.Prim2B d)) as [RQ FQ]; [ lra | exact HQ | ].
      rewrite <- FP.div_equiv in RQ, FQ.
      apply round_trunc_F; [ lia | rewrite FQ; exact FZ | rewrite RQ; split; assumption ].
    + (* z = +inf, d finite: the quotient is infinite *)
      apply NF. rewrite FP.div_equiv, EZ.
      destruct (FP.Prim2B d) as [s | s | | s m e Hb]; try discriminate FD; try reflexivity.
  - (* d = +inf: the quotient is a zero or NaN *)
    apply NF. rewrite FP.div_equiv, ED.
    destruct (FP.Prim2B z) as [s | s | | s m e Hb]; reflexivity.
Qed.

#[global] Instance TruncLawsF : @TruncLaws PrimFloat.float NumF :=
  @Build_TruncLaws PrimFloat.float NumF TruncDivLawF (fun n => (1 <= n <= 2 ^ 50)%Z) trunc_round_div_range_F.

(* memory safety of the 2D solver at binary64: every model with 1 .. 2^50 cells per axis and positive spacings, every
   source position (NaN and infinities included), every nsweep and gradient flag *)
Corollary fteik2d_ok_true_F (slow : arr PrimFloat.float) (dz dx zsrc xsrc : PrimFloat.float) (nsweep : Z) (grad : bool)
    (nz nx : Z) :
  shape slow = [nz; nx] -> (1 <= nz <= 2 ^ 50)%Z -> (1 <= nx <= 2 ^ 50)%Z ->
  PrimFloat.ltb 0%float dz = true -> PrimFloat.ltb 0%float dx = true ->
  Fteik2d.fteik2d_ok true false slow dz dx zsrc xsrc nsweep grad = true.
Proof.
  intros Hs Hnz Hnx Hdz Hdx.
  apply (@fteik2d_ok_true PrimFloat.float NumF TruncLawsF slow dz dx zsrc xsrc nsweep grad nz nx Hs);
    try assumption; lia.
Qed.

(* edge cases, computed: d subnormal, d * n inexact, n = 2^50, z = +inf, d = +inf, z = -0, d * n overflowing *)
Goal let chk z d n := ((0 <=? f_trunc (f_round (PrimFloat.div z d))) && (f_trunc (f_round (PrimFloat.div z d)) <=? n))%Z in
  let top d n := PrimFloat.mul d (f_ofZ n) in
  chk (top 0x1p-1074%float 1125899906842624%Z) 0x1p-1074%float 1125899906842624%Z = true /\
  chk (top 0x1.999999999999ap-4%float 1125899906842623%Z) 0x1.999999999999ap-4%float 1125899906842623%Z = true /\
  chk (top 0x1.fffffffffffffp-1%float 1125899906842623%Z) 0x1.fffffffffffffp-1%float 1125899906842623%Z = true /\
  chk (top 0x1.0000000000001p0%float 67108863%Z) 0x1.0000000000001p0%float 67108863%Z = true /\
  chk (top 0x0.0000000000003p-1022%float 7%Z) 0x0.0000000000003p-1022%float 7%Z = true /\
  chk infinity infinity 1%Z = true /\ chk infinity 0x1p1000%float 67108864%Z = true /\
  chk 1%float infinity 3%Z = true /\
  chk (-0)%float 1%float 1%Z = true /\ chk 0x1.fffffffffffffp1023%float 0x1p1000%float 67108864%Z = true.
Proof. vm_compute. repeat split; reflexivity. Qed.

Print Assumptions TruncLawsF.
Print Assumptions fteik2d_ok_true_F.
