(* C11, clause "every gradient component's sign follows the direction of increasing traveltime" for the 2D solver
   (end of fteik2d, `sweep`, the source initialisation in _fteik/_fteik2d.py), over the reals (T := R, instance NumR).

   RESULT: the assembly part is PROVED, the "upwind" part is REFUTED (a finding about the code).

   The code records at each node two signs ttsgn[i,j,0..1] in {-1,0,1} and finally returns
       ttgrad[i,j,0] = s * (tt[i,j] - tt[i-s,j]) / dz   (s = ttsgn[i,j,0] <> 0; same for x), then divides by the norm.

   (G1) PROVED  asm2_value, fteik2d_gradient_assembly: for every returned (tt, ttgrad), with sg the sign array after the
        sweeps (`final_state`), every node holds (rz, rx) / |(rz, rx)| (or (rz, rx) when the norm is 0), where
        rz = sg_z * (tt[i,j] - tt[i - sg_z, j]) / dz when sg_z <> 0 and otherwise the seed left in the slot by the
        initialisation (0, or the analytic derivative at the 4 corners of the source cell); same for rx.
   (G3) PROVED AS AN EQUIVALENCE  comp_sign_z/x, fteik2d_gradient_sign_iff: for a non-zero recorded sign s and dz > 0,
        c * s >= 0  <->  tt[i - s, j] <= tt[i, j]      and      c * s < 0  <->  tt[i, j] < tt[i - s, j]:
        the returned component is just the difference quotient towards the neighbour the sign points to, so its sign
        against s is right exactly when that neighbour is not later.  fteik2d_gradient_sign_partial: (G3) from the upwind
        relation at the node as a HYPOTHESIS.  comp_sign0_z/x: a component with recorded sign 0 is a positive multiple of
        the seed (so it is 0 except at the corners of the source cell, where the seed is the analytic derivative).
   (G2) the upwind invariant `upwind` (every non-zero sign points to a neighbour that is not later) is FALSE:
        sweep_upwind_partial   one node update keeps it PROVIDED the 2D candidate, when it is the value written, is not
                               earlier than the two neighbours the signs will point to (hypothesis Hc); all the rest of the
                               argument of the brief is proved there (1D candidates, unchanged node keeps its signs, other
                               nodes only see the updated node get earlier).  Hc is what is missing, and it fails:
        sweep_breaks_upwind    REFUTATION 1 (node update, R): the 3-point operator uses te and tev only, but the signs
                               (sgntz, sgntx) are recorded for both axes; with tv = Big (node not reached) the update writes
                               14/5 and a z sign pointing to a node holding 100000.  Pre-state satisfies every invariant.
        four_point_not_causal  the 4-point operator is not causal under its admissibility test either (tv = te = 10,
                               tev = 0 passes and gives sqrt 2): the test bounds |tv - te|, not tv - tev.
        init_breaks_upwind, fteik2d_gradient_wrong_sign
                               REFUTATION 2 (whole solve, R, EVERY nsweep): homogeneous 1 x 2-cell model, slowness 1, unit
                               spacings, source (1/4, 1/2).  The east loop of the initialisation computes node (0,2) from
                               the virtual source row z = zsa and records the z sign -1, which the assembly reads as
                               "neighbour (1,2)"; that node is LATER (sqrt 45 / 4 > sqrt 37 / 4).  All six nodes hold the
                               exact analytic times, every sweep leaves times and signs alone (ex_sweep2d_fixed), and the
                               returned z component at (0,2) is > 0 with recorded sign -1 (c * s < 0); the exact gradient
                               there has z component (0 - 1/4) / t < 0: the returned component has the WRONG SIGN.
        FloatWitness.wrong_sign_binary64
                               REFUTATION 3 (whole solve, binary64, nsweep = 2, source on a node, heterogeneous 1 x 6 cells,
                               dz = 1/2, dx = 4): the signs are recorded by a 4-point update in the sweeps (tv = te = Big not
                               reached yet, tev = 42: admissible, cf. four_point_not_causal); node (1,6) ends with z sign
                               +1, a later z neighbour, and the returned component -0.9688 (c * s < 0).
   Non-vacuity: fteik2d_gradient_wrong_sign (the solver returns, so the premises of (G1)/(G3) are satisfiable),
   sweep_upwind_partial_ex, w2_model_ok.  The 3D analogue is not treated (the 3D initialisation has no source-line loops; a
   run of the homogeneous analogue with the implementation shows no sign mismatch against the analytic gradient). *)
From Coq Require Import ZArith List Bool Lia Reals Lra Psatz FinFun.
From FT.lib Require Import Num Arr ArrLemmas.
From FT.gen Require Import Common Fteik2d.
From FT.proofs Require Import SafetyTools GradR OperatorsR Sweep2dProofs Solve2dProofs Safety2d NonNeg2d Pos2d InitExact GradUnit.
Import ListNotations.
Open Scope Z_scope.

(* conversion must never unfold the big generated constants *)
Local Strategy 1000 [fteik2d_p1 fteik2d_p2 sweep2d].

(* ------------------------------------------------------------------------------------------ *)
(* what one node update does to the sign array (companion of OperatorsR.sweep_tt_eq)             *)
(* ------------------------------------------------------------------------------------------ *)
Definition sweep_sgn (tn t0 t1z t1x : R) (sg : arr Z) (i j sgntz sgntx : Z) (grad : bool) : arr Z :=
  if grad && nneb tn t0 then
    if neqb tn t1z then set (set sg [i; j; 0] sgntz) [i; j; 1] 0
    else if neqb tn t1x then set (set sg [i; j; 0] 0) [i; j; 1] sgntx
    else set (set sg [i; j; 0] sgntz) [i; j; 1] sgntx
  else sg.

Definition sweep_val (tt slow : arr R) (dz dx dzi dxi dz2i dx2i zsi xsi zsa xsa vzero : R)
           (i j sgnvz sgnvx sgntz sgntx nz nx : Z) : R :=
  pymin3 (get 0%R tt [i; j]) (t1d tt slow dz dx i j sgnvz sgnvx sgntz sgntx nz nx)
         (sweep_t2d tt slow dz dx dzi dxi dz2i dx2i zsi xsi zsa xsa vzero i j sgnvz sgnvx sgntz sgntx).

Lemma sweep_snd_eq tt sg slow dz dx dzi dxi dz2i dx2i zsi xsi zsa xsa vzero i j sgnvz sgnvx sgntz sgntx nz nx grad :
  snd (sweep tt sg slow (dz, dx, dzi, dxi, dz2i, dx2i) zsi xsi zsa xsa vzero i j sgnvz sgnvx sgntz sgntx nz nx grad)
  = sweep_sgn (get 0%R (set tt [i; j] (sweep_val tt slow dz dx dzi dxi dz2i dx2i zsi xsi zsa xsa vzero
                                                i j sgnvz sgnvx sgntz sgntx nz nx)) [i; j])
              (get 0%R tt [i; j]) (t1d_z tt slow dz i j sgnvz sgntz nx) (t1d_x tt slow dx i j sgnvx sgntx nz)
              sg i j sgntz sgntx grad.
Proof.
  unfold sweep. cbv zeta.
  lazymatch goal with |- snd (_, ?b) = ?r => change (b = r) end.
  reflexivity.
Qed.

Lemma sweep_fst_eq tt sg slow dz dx dzi dxi dz2i dx2i zsi xsi zsa xsa vzero i j sgnvz sgnvx sgntz sgntx nz nx grad :
  fst (sweep tt sg slow (dz, dx, dzi, dxi, dz2i, dx2i) zsi xsi zsa xsa vzero i j sgnvz sgnvx sgntz sgntx nz nx grad)
  = set tt [i; j] (sweep_val tt slow dz dx dzi dxi dz2i dx2i zsi xsi zsa xsa vzero i j sgnvz sgnvx sgntz sgntx nz nx).
Proof. apply sweep_tt_eq. Qed.

(* ------------------------------------------------------------------------------------------ *)
(* (G1) the assembly loop nest, node by node                                                    *)
(* ------------------------------------------------------------------------------------------ *)
(* loops over distinct keys: the iteration of key a processes key a and leaves the other keys alone *)
Lemma for_list_nodes {S} (I : S -> Prop) (E D : Z -> S -> S -> Prop) (l : list Z) (body : Z -> S -> S) :
  (forall i s, E i s s) ->
  (forall i a b c, E i a b -> E i b c -> E i a c) ->
  (forall i a b c, E i a b -> D i b c -> D i a c) ->
  (forall i a b c, D i a b -> E i b c -> D i a c) ->
  (forall a s, In a l -> I s -> I (body a s) /\ D a s (body a s) /\ forall i, i <> a -> E i s (body a s)) ->
  NoDup l -> forall s, I s ->
  I (for_list l body s) /\ (forall i, In i l -> D i s (for_list l body s)) /\
  (forall i, ~ In i l -> E i s (for_list l body s)).
Proof.
  intros Er Et ED DE Hb. induction l as [|a l IH]; intros Hn s Hs.
  - split; [exact Hs|]. split; [intros i []|]. intros i _. apply Er.
  - rewrite for_list_cons. inversion Hn as [|? ? Ha Hn']; subst.
    destruct (Hb a s (or_introl eq_refl) Hs) as (Ia & Da & Ea).
    destruct (IH (fun a' s' Hi => Hb a' s' (or_intror Hi)) Hn' (body a s) Ia) as (If & Df & Ef).
    split; [exact If|]. split.
    + intros i [<-|Hi].
      * eapply DE; [exact Da | apply Ef, Ha].
      * eapply ED; [apply Ea; intros ->; contradiction | apply Df, Hi].
    + intros i Hni. eapply Et; [apply Ea; intros ->; apply Hni; left; reflexivity|].
      apply Ef. intros Hi. apply Hni. right. exact Hi.
Qed.

Lemma NoDup_pyrange_up a b : NoDup (pyrange a b 1).
Proof.
  unfold pyrange. change (0 <? 1) with true. cbv iota.
  apply Injective_map_NoDup; [|apply seq_NoDup].
  intros x y Hxy. lia.
Qed.

Open Scope R_scope.

(* the raw (un-normalised) components at node (i, j): from the recorded sign when it is non-zero, otherwise whatever the
   slot holds (0, or the analytic seed written by the source initialisation at the four corners of the source cell) *)
Definition raw_z (tt : arr R) (sg : arr Z) (dz : R) (G : arr R) (i j : Z) : R :=
  let s := get 0%Z sg [i; j; 0%Z] in
  if (s =? 0)%Z then get 0 G [i; j; 0%Z] else IZR s * (get 0 tt [i; j] - get 0 tt [(i - s)%Z; j]) / dz.
Definition raw_x (tt : arr R) (sg : arr Z) (dx : R) (G : arr R) (i j : Z) : R :=
  let s := get 0%Z sg [i; j; 1%Z] in
  if (s =? 0)%Z then get 0 G [i; j; 1%Z] else IZR s * (get 0 tt [i; j] - get 0 tt [i; (j - s)%Z]) / dx.
(* a component c of the vector (a, b), divided by the norm when the norm is > 0 *)
Definition normed (a b c : R) : R := if Rltb 0 (sqrt (a * a + b * b)) then c / sqrt (a * a + b * b) else c.

Lemma node2_value nz nx (tt : arr R) sg dz dx (G : arr R) i j :
  okG2 nz nx G -> (0 <= i < nz)%Z -> (0 <= j < nx)%Z ->
  let rz := raw_z tt sg dz G i j in let rx := raw_x tt sg dx G i j in
  get 0 (node2 tt sg dz dx i j G) [i; j; 0%Z] = normed rz rx rz /\
  get 0 (node2 tt sg dz dx i j G) [i; j; 1%Z] = normed rz rx rx.
Proof.
  intros Hok Hi Hj rz rx. unfold node2. cbv zeta.
  set (sz := get 0%Z sg [i; j; 0%Z]). set (sx := get 0%Z sg [i; j; 1%Z]).
  set (G1 := if negb (sz =? 0)%Z then set G [i; j; 0%Z] _ else G).
  set (G2 := if negb (sx =? 0)%Z then set G1 [i; j; 1%Z] _ else G1).
  assert (I0 : forall k, (0 <= k < 2)%Z -> inb G [i; j; k] = true) by (intros; eapply okG2_inb; eauto).
  assert (H1 : okG2 nz nx G1 /\ get 0 G1 [i; j; 0%Z] = rz /\ get 0 G1 [i; j; 1%Z] = get 0 G [i; j; 1%Z]).
  { unfold G1, rz, raw_z. cbv zeta. fold sz. destruct (sz =? 0)%Z; cbn [negb].
    - split; [exact Hok|]. split; reflexivity.
    - split; [apply okG2_set, Hok|]. split.
      + rewrite get_set_same; [reflexivity | apply Hok | apply I0; lia].
      + apply get_set_other; [apply I0; lia | apply I0; lia | intro E; injection E; lia]. }
  destruct H1 as (Hok1 & A1 & B1).
  assert (I1 : forall k, (0 <= k < 2)%Z -> inb G1 [i; j; k] = true) by (intros; eapply okG2_inb; eauto).
  assert (H2 : okG2 nz nx G2 /\ get 0 G2 [i; j; 0%Z] = rz /\ get 0 G2 [i; j; 1%Z] = rx).
  { unfold G2. fold (raw_x tt sg dx G i j). destruct (sx =? 0)%Z eqn:Es; cbn [negb].
    - split; [exact Hok1|]. split; [exact A1|]. rewrite B1. unfold rx, raw_x. cbv zeta. fold sx. rewrite Es. reflexivity.
    - split; [apply okG2_set, Hok1|]. split.
      + rewrite get_set_other; [exact A1 | apply I1; lia | apply I1; lia | intro E; injection E; lia].
      + rewrite get_set_same; [| apply Hok1 | apply I1; lia].
        unfold rx, raw_x. cbv zeta. fold sx. rewrite Es. reflexivity. }
  destruct H2 as (Hok2 & A2 & B2). clearbody G2. clear G1 Hok1 A1 B1 I1.
  unfold normalize2. cbv zeta. change (@nofZ R NumR 0) with 0. rewrite A2, B2.
  change (ngtb (norm2d rz rx) 0) with (Rltb 0 (norm2d rz rx)). rewrite norm2d_R.
  unfold normed. destruct (Rltb 0 (sqrt (rz * rz + rx * rx))).
  - pose proof Hok2 as [W2 S2].
    rewrite !(get_block_map3 _ 0 G2 nz nx 2 i j i j) by (auto; lia). rewrite !Z.eqb_refl. cbn [andb].
    rewrite A2, B2. split; reflexivity.
  - split; assumption.
Qed.

Section Asm.
Variables (nz nx : Z) (tt : arr R) (sg : arr Z) (dz dx : R).

(* the entries of node (i, j) agree in a and b / b holds the processed form of a's entries *)
Definition nodeE (i j : Z) (a b : arr R) : Prop :=
  get 0 b [i; j; 0%Z] = get 0 a [i; j; 0%Z] /\ get 0 b [i; j; 1%Z] = get 0 a [i; j; 1%Z].
Definition nodeD (i j : Z) (a b : arr R) : Prop :=
  let rz := raw_z tt sg dz a i j in let rx := raw_x tt sg dx a i j in
  get 0 b [i; j; 0%Z] = normed rz rx rz /\ get 0 b [i; j; 1%Z] = normed rz rx rx.

Lemma raw_nodeE i j a b : nodeE i j a b -> raw_z tt sg dz b i j = raw_z tt sg dz a i j /\ raw_x tt sg dx b i j = raw_x tt sg dx a i j.
Proof. intros [E0 E1]. unfold raw_z, raw_x. cbv zeta. rewrite E0, E1. split; reflexivity. Qed.
Lemma nodeE_refl i j a : nodeE i j a a. Proof. split; reflexivity. Qed.
Lemma nodeE_trans i j a b c : nodeE i j a b -> nodeE i j b c -> nodeE i j a c.
Proof. intros [A0 A1] [B0 B1]. split; congruence. Qed.
Lemma nodeED i j a b c : nodeE i j a b -> nodeD i j b c -> nodeD i j a c.
Proof. intros E D. unfold nodeD in *. cbv zeta in *. destruct (raw_nodeE i j a b E) as [Ez Ex]. rewrite Ez, Ex in D. exact D. Qed.
Lemma nodeDE i j a b c : nodeD i j a b -> nodeE i j b c -> nodeD i j a c.
Proof. intros [D0 D1] [E0 E1]. unfold nodeD. cbv zeta. rewrite E0, E1. split; assumption. Qed.

Definition row2 (i : Z) (G : arr R) : arr R := for_list (pyrange 0 nx 1) (fun j G => node2 tt sg dz dx i j G) G.

Lemma row2_value i G :
  okG2 nz nx G -> (0 <= i < nz)%Z ->
  okG2 nz nx (row2 i G) /\
  (forall j, (0 <= j < nx)%Z -> nodeD i j G (row2 i G)) /\
  (forall i' j', (0 <= i' < nz)%Z -> (0 <= j' < nx)%Z -> i' <> i -> nodeE i' j' G (row2 i G)).
Proof.
  intros Hok Hi. unfold row2.
  destruct (for_list_nodes
              (fun G' => okG2 nz nx G' /\ forall i' j', (0 <= i' < nz)%Z -> (0 <= j' < nx)%Z -> i' <> i -> nodeE i' j' G G')
              (fun j a b => (0 <= j < nx)%Z -> nodeE i j a b) (fun j a b => (0 <= j < nx)%Z -> nodeD i j a b)
              (pyrange 0 nx 1) (fun j G => node2 tt sg dz dx i j G)) with (s := G) as ((Hok' & Fr) & HD & _).
  - intros j s _. apply nodeE_refl.
  - intros j a b c H1 H2 Hj. eapply nodeE_trans; eauto.
  - intros j a b c H1 H2 Hj. eapply nodeED; eauto.
  - intros j a b c H1 H2 Hj. eapply nodeDE; eauto.
  - intros j s Hj [Hs Fs]. apply in_pyrange_up in Hj.
    destruct (node2_spec nz nx tt sg dz dx s i j Hs Hi Hj) as (Hs' & _ & F).
    split; [split; [exact Hs'|]|split].
    + intros i' j' Hi' Hj' Ne. eapply nodeE_trans; [apply Fs; assumption|].
      split; apply F; auto; lia.
    + intros _. apply (node2_value nz nx); assumption.
    + intros j' Ne Hj'. split; apply F; auto; lia.
  - apply NoDup_pyrange_up.
  - split; [exact Hok|]. intros. apply nodeE_refl.
  - split; [exact Hok'|]. split; [|exact Fr].
    intros j Hj. apply HD; [apply in_pyrange_up; lia | exact Hj].
Qed.

(* ASSEMBLY (G1): every node of the outgoing array holds the raw vector of the incoming data, normalised *)
Theorem asm2_value (G : arr R) :
  okG2 nz nx G ->
  forall i j, (0 <= i < nz)%Z -> (0 <= j < nx)%Z -> nodeD i j G (asm2 tt sg dz dx nz nx G).
Proof.
  intros Hok i j Hi Hj. unfold asm2.
  destruct (for_list_nodes (okG2 nz nx)
              (fun i a b => (0 <= i < nz)%Z -> forall j, (0 <= j < nx)%Z -> nodeE i j a b)
              (fun i a b => (0 <= i < nz)%Z -> forall j, (0 <= j < nx)%Z -> nodeD i j a b)
              (pyrange 0 nz 1) (fun i G => for_list (pyrange 0 nx 1) (fun j G => node2 tt sg dz dx i j G) G))
    with (s := G) as (_ & HD & _).
  - intros k s _ q _. apply nodeE_refl.
  - intros k a b c H1 H2 Hk q Hq. eapply nodeE_trans; eauto.
  - intros k a b c H1 H2 Hk q Hq. eapply nodeED; eauto.
  - intros k a b c H1 H2 Hk q Hq. eapply nodeDE; eauto.
  - intros k s Hk Hs. apply in_pyrange_up in Hk.
    destruct (row2_value k s Hs Hk) as (Hs' & D & F). fold (row2 k s).
    split; [exact Hs'|]. split.
    + intros _ q Hq. apply D, Hq.
    + intros k' Ne Hk' q Hq. apply F; assumption.
  - apply NoDup_pyrange_up.
  - exact Hok.
  - apply HD; [apply in_pyrange_up; lia | exact Hi | exact Hj].
Qed.
End Asm.

(* the solver returns (fst st, asm2 (fst st) (snd st) .. seed, vzero) with st the state after the sweeps *)
Section Solve.
Context {T : Type} `{Num T}.
Variables (slow : arr T) (dz dx zsrc xsrc : T).
Notation NZ := (dim slow 0 + 1)%Z.
Notation NX := (dim slow 1 + 1)%Z.

(* the state (traveltimes, recorded signs) after the sweeps *)
Definition final_state (nsweep : Z) : arr T * arr Z :=
  Nat.iter (Z.to_nat nsweep) (pass2d slow dz dx zsrc xsrc true)
           (i_tt slow dz dx zsrc xsrc true, i_ttsgn slow dz dx zsrc xsrc true).

Definition out_is (Q : arr T -> arr T -> Prop) (r : res (arr T * arr T * T)) : Prop :=
  match r with Ok (t, G, _) => Q t G | _ => True end.
Lemma out_is_inv Q r a G c : out_is Q r -> r = Ok (a, G, c) -> Q a G.
Proof. intros Hr ->. exact Hr. Qed.

Ltac olet :=
  lazymatch goal with
  | |- out_is ?Q (let x := ?v in @?F x) => let y := fresh x in pose (y := v); change (out_is Q (F y)); cbv beta
  end.

Lemma fteik2d_out_true nsweep :
  out_is (fun t G => t = fst (final_state nsweep) /\
                     G = asm2 (fst (final_state nsweep)) (snd (final_state nsweep)) dz dx NZ NX
                              (i_ttgrad slow dz dx zsrc xsrc true))
         (fteik2d slow dz dx zsrc xsrc nsweep true).
Proof.
  rewrite <- (i_nz_eq slow dz dx zsrc xsrc true), <- (i_nx_eq slow dz dx zsrc xsrc true).
  cbv beta delta [fteik2d]. repeat olet.
  lazymatch goal with |- out_is _ (if ?c then _ else _) => destruct c; [exact I|] end.
  repeat olet.
  lazymatch goal with u := for_list (pyrange 0 nsweep 1) _ _ |- _ =>
    assert (Es : u = final_state nsweep)
      by (subst u; apply for_range_iter; intros i s; symmetry; apply surjective_pairing);
    clearbody u; subst u end.
  cbn [out_is]. split; reflexivity.
Qed.
End Solve.

(* ------------------------------------------------------------------------------------------ *)
(* (G3) the sign of a returned component                                                        *)
(* ------------------------------------------------------------------------------------------ *)
Lemma normed_pos_mult a b c : exists k, 0 < k /\ normed a b c = k * c.
Proof.
  unfold normed. destruct (Rltb 0 (sqrt (a * a + b * b))) eqn:E.
  - apply Rltb_true in E. exists (/ sqrt (a * a + b * b)). split; [apply Rinv_0_lt_compat, E | unfold Rdiv; ring].
  - exists 1. split; lra.
Qed.

Lemma pos_mult_sign (q d : R) : 0 < q -> (0 <= q * d <-> 0 <= d) /\ (q * d < 0 <-> d < 0).
Proof. intros Hq. split; split; intros; nra. Qed.

Section Sign.
Variables (tt : arr R) (sg : arr Z) (dz dx : R) (G0 G : arr R) (i j : Z).
Hypothesis HD : nodeD tt sg dz dx i j G0 G.

(* z axis: with s the recorded sign, the returned component times s has the sign of  tt[i,j] - tt[i-s,j] *)
Theorem comp_sign_z :
  0 < dz -> let s := get 0%Z sg [i; j; 0%Z] in s <> 0%Z ->
  let c := get 0 G [i; j; 0%Z] in
  (0 <= c * IZR s <-> get 0 tt [(i - s)%Z; j] <= get 0 tt [i; j]) /\
  (c * IZR s < 0 <-> get 0 tt [i; j] < get 0 tt [(i - s)%Z; j]).
Proof.
  intros Hdz s Hs c. destruct HD as [D0 _]. cbv zeta in D0.
  set (rz := raw_z tt sg dz G0 i j) in *. set (rx := raw_x tt sg dx G0 i j) in *.
  destruct (normed_pos_mult rz rx rz) as (k & Hk & Ek). unfold c. rewrite D0, Ek.
  assert (Er : rz = IZR s * (get 0 tt [i; j] - get 0 tt [(i - s)%Z; j]) / dz).
  { unfold rz, raw_z. cbv zeta. fold s. destruct (Z.eqb_spec s 0); [contradiction | reflexivity]. }
  assert (Hs2 : 0 < IZR s * IZR s).
  { assert (IZR s <> 0) by (apply not_0_IZR; exact Hs). nra. }
  set (d := get 0 tt [i; j] - get 0 tt [(i - s)%Z; j]) in *.
  assert (Hq : 0 < k * (IZR s * IZR s) / dz).
  { apply Rmult_lt_0_compat; [apply Rmult_lt_0_compat; assumption | apply Rinv_0_lt_compat; exact Hdz]. }
  replace (k * rz * IZR s) with (k * (IZR s * IZR s) / dz * d) by (rewrite Er; field; lra).
  destruct (pos_mult_sign _ d Hq) as [A B]. unfold d in *. split; [rewrite A | rewrite B]; split; lra.
Qed.

Theorem comp_sign_x :
  0 < dx -> let s := get 0%Z sg [i; j; 1%Z] in s <> 0%Z ->
  let c := get 0 G [i; j; 1%Z] in
  (0 <= c * IZR s <-> get 0 tt [i; (j - s)%Z] <= get 0 tt [i; j]) /\
  (c * IZR s < 0 <-> get 0 tt [i; j] < get 0 tt [i; (j - s)%Z]).
Proof.
  intros Hdx s Hs c. destruct HD as [_ D1]. cbv zeta in D1.
  set (rz := raw_z tt sg dz G0 i j) in *. set (rx := raw_x tt sg dx G0 i j) in *.
  destruct (normed_pos_mult rz rx rx) as (k & Hk & Ek). unfold c. rewrite D1, Ek.
  assert (Er : rx = IZR s * (get 0 tt [i; j] - get 0 tt [i; (j - s)%Z]) / dx).
  { unfold rx, raw_x. cbv zeta. fold s. destruct (Z.eqb_spec s 0); [contradiction | reflexivity]. }
  assert (Hs2 : 0 < IZR s * IZR s).
  { assert (IZR s <> 0) by (apply not_0_IZR; exact Hs). nra. }
  set (d := get 0 tt [i; j] - get 0 tt [i; (j - s)%Z]) in *.
  assert (Hq : 0 < k * (IZR s * IZR s) / dx).
  { apply Rmult_lt_0_compat; [apply Rmult_lt_0_compat; assumption | apply Rinv_0_lt_compat; exact Hdx]. }
  replace (k * rx * IZR s) with (k * (IZR s * IZR s) / dx * d) by (rewrite Er; field; lra).
  destruct (pos_mult_sign _ d Hq) as [A B]. unfold d in *. split; [rewrite A | rewrite B]; split; lra.
Qed.

(* a component whose recorded sign is 0 is the (normalised) seed left in the slot: 0 unless the initialisation wrote
   the analytic derivative there (the four corners of the source cell) *)
Theorem comp_sign0_z :
  get 0%Z sg [i; j; 0%Z] = 0%Z ->
  exists k, 0 < k /\ get 0 G [i; j; 0%Z] = k * get 0 G0 [i; j; 0%Z].
Proof.
  intros Hs. destruct HD as [D0 _]. cbv zeta in D0.
  destruct (normed_pos_mult (raw_z tt sg dz G0 i j) (raw_x tt sg dx G0 i j) (raw_z tt sg dz G0 i j)) as (k & Hk & Ek).
  exists k. split; [exact Hk|]. rewrite D0, Ek. unfold raw_z. cbv zeta. rewrite Hs. reflexivity.
Qed.
Theorem comp_sign0_x :
  get 0%Z sg [i; j; 1%Z] = 0%Z ->
  exists k, 0 < k /\ get 0 G [i; j; 1%Z] = k * get 0 G0 [i; j; 1%Z].
Proof.
  intros Hs. destruct HD as [_ D1]. cbv zeta in D1.
  destruct (normed_pos_mult (raw_z tt sg dz G0 i j) (raw_x tt sg dx G0 i j) (raw_x tt sg dx G0 i j)) as (k & Hk & Ek).
  exists k. split; [exact Hk|]. rewrite D1, Ek. unfold raw_x. cbv zeta. rewrite Hs. reflexivity.
Qed.
End Sign.

(* ------------------------------------------------------------------------------------------ *)
(* (G2) the upwind invariant                                                                    *)
(* ------------------------------------------------------------------------------------------ *)
Definition upwind_at (tt : arr R) (sg : arr Z) (i j : Z) : Prop :=
  (let s := get 0%Z sg [i; j; 0%Z] in s <> 0%Z -> get 0 tt [(i - s)%Z; j] <= get 0 tt [i; j]) /\
  (let s := get 0%Z sg [i; j; 1%Z] in s <> 0%Z -> get 0 tt [i; (j - s)%Z] <= get 0 tt [i; j]).
Definition upwind (nz nx : Z) (tt : arr R) (sg : arr Z) : Prop :=
  forall i j, (0 <= i < nz)%Z -> (0 <= j < nx)%Z -> upwind_at tt sg i j.

Lemma pymin2_cases (a b : R) : pymin2 a b = a \/ pymin2 a b = b.
Proof. unfold pymin2. destruct (nltb b a); auto. Qed.
Lemma pymin3_cases (a b c : R) : pymin3 a b c = a \/ pymin3 a b c = b \/ pymin3 a b c = c.
Proof. unfold pymin3. destruct (pymin2_cases (pymin2 a b) c) as [-> | ->]; [destruct (pymin2_cases a b); auto | auto]. Qed.
Lemma pymin2_le_l (a b : R) : pymin2 a b <= a.
Proof. unfold pymin2. cbn [nltb NumR]. destruct (Rltb b a) eqn:E; [apply Rltb_true in E; lra | lra]. Qed.
Lemma pymin3_le_1 (a b c : R) : pymin3 a b c <= a.
Proof. unfold pymin3. eapply Rle_trans; [apply pymin2_le_l | apply pymin2_le_l]. Qed.
Lemma upd_nth_same {A} (l : list A) n d : upd l n (nth n l d) = l.
Proof. revert n. induction l as [|x l IH]; intros [|n]; cbn; try reflexivity. f_equal. apply IH. Qed.
Lemma set_get_same {A} (d : A) (a : arr A) idx : set a idx (get d a idx) = a.
Proof. unfold set, get. rewrite upd_nth_same. destruct a; reflexivity. Qed.

Section SgSet.
Variables (nz nx : Z) (sg : arr Z) (i j a b : Z).
Hypotheses (Hinv : sgn_inv nz nx sg) (Hi : (0 <= i < nz)%Z) (Hj : (0 <= j < nx)%Z).
Let sg' := set (set sg [i; j; 0%Z] a) [i; j; 1%Z] b.
Lemma sg_inb p q c : (0 <= p < nz)%Z -> (0 <= q < nx)%Z -> (0 <= c < 2)%Z -> inb sg [p; q; c] = true.
Proof. destruct Hinv as (_ & S & _). intros. eapply inb3_true; eauto. Qed.
Lemma sg_set2_z : get 0%Z sg' [i; j; 0%Z] = a.
Proof.
  destruct Hinv as (W & S & _). unfold sg'.
  rewrite get_set_other; [| rewrite inb_set; apply sg_inb; lia | rewrite inb_set; apply sg_inb; lia | intro E; injection E; lia].
  apply get_set_same; [exact W | apply sg_inb; lia].
Qed.
Lemma sg_set2_x : get 0%Z sg' [i; j; 1%Z] = b.
Proof.
  destruct Hinv as (W & S & _). unfold sg'.
  apply get_set_same; [apply wf_set, W | rewrite inb_set; apply sg_inb; lia].
Qed.
Lemma sg_set2_other p q c :
  (0 <= p < nz)%Z -> (0 <= q < nx)%Z -> (0 <= c < 2)%Z -> (p <> i \/ q <> j) -> get 0%Z sg' [p; q; c] = get 0%Z sg [p; q; c].
Proof.
  intros Hp Hq Hc Ne. unfold sg'.
  rewrite get_set_other; [| rewrite inb_set; apply sg_inb; lia | rewrite inb_set; apply sg_inb; lia | intro E; injection E; lia].
  apply get_set_other; [apply sg_inb; lia | apply sg_inb; lia | intro E; injection E; lia].
Qed.
End SgSet.

Section UpwindStep.
Variables (nz nx : Z).
Hypotheses (Hnz : (2 <= nz)%Z) (Hnx : (2 <= nx)%Z).

(* ONE NODE UPDATE keeps the upwind invariant PROVIDED the 2D candidate, when it is the value written, is not earlier
   than the two neighbours the signs will point to (`Hc`).  Everything else is proved: the 1D candidates add a
   non-negative term to the neighbour they come from, an unchanged node keeps its signs, the other nodes keep signs and
   times while the updated node only gets earlier.  `Hc` is what FAILS for the 3-point and 4-point operators (and for
   the constant Big): see sweep_breaks_upwind below. *)
Theorem sweep_upwind_partial (tt : arr R) (sg : arr Z) (slow : arr R) (dz dx dzi dxi dz2i dx2i zsi xsi zsa xsa vzero : R)
        i j sgnvz sgnvx sgntz sgntx :
  okT nz nx tt -> sgn_inv nz nx sg -> dirp sgnvz sgntz i nz -> dirp sgnvx sgntx j nx ->
  0 < dz -> 0 < dx -> nonneg slow ->
  upwind nz nx tt sg ->
  let t2 := sweep_t2d tt slow dz dx dzi dxi dz2i dx2i zsi xsi zsa xsa vzero i j sgnvz sgnvx sgntz sgntx in
  (t2 < get 0 tt [i; j] -> nb_v tt i j sgntz <= t2 /\ nb_e tt i j sgntx <= t2) ->
  let r := sweep tt sg slow (dz, dx, dzi, dxi, dz2i, dx2i) zsi xsi zsa xsa vzero i j sgnvz sgnvx sgntz sgntx nz nx true in
  upwind nz nx (fst r) (snd r).
Proof.
  intros Hok Hinv Di Dj Hdz Hdx Hs Hup t2 Hc r.
  assert (Bi : (0 <= i < nz /\ 0 <= i - sgntz < nz /\ sgntz <> 0)%Z) by (unfold dirp in Di; lia).
  assert (Bj : (0 <= j < nx /\ 0 <= j - sgntx < nx /\ sgntx <> 0)%Z) by (unfold dirp in Dj; lia).
  destruct Bi as (Hi & Hiz & Nz). destruct Bj as (Hj & Hjx & Nx).
  pose proof Hok as [Wt St].
  assert (It : forall p q, (0 <= p < nz)%Z -> (0 <= q < nx)%Z -> inb tt [p; q] = true)
    by (intros; eapply inb2_true; eauto).
  unfold r. rewrite sweep_fst_eq, sweep_snd_eq.
  set (tn := sweep_val tt slow dz dx dzi dxi dz2i dx2i zsi xsi zsa xsa vzero i j sgnvz sgnvx sgntz sgntx nz nx).
  set (t0 := get 0 tt [i; j]).
  set (t1z := t1d_z tt slow dz i j sgnvz sgntz nx). set (t1x := t1d_x tt slow dx i j sgnvx sgntx nz).
  rewrite get_set_same by (auto). 
  assert (Hle : tn <= t0) by apply pymin3_le_1.
  assert (Hz1 : nb_v tt i j sgntz <= t1z).
  { unfold t1z, t1d_z. assert (0 <= edge_s_z slow i j sgnvz nx) by (apply pymin2_ge; apply get_nonneg, Hs). nra. }
  assert (Hx1 : nb_e tt i j sgntx <= t1x).
  { unfold t1x, t1d_x. assert (0 <= edge_s_x slow i j sgnvx nz) by (apply pymin2_ge; apply get_nonneg, Hs). nra. }
  unfold sweep_sgn. cbn [andb]. unfold nneb. cbn [neqb NumR].
  destruct (Reqb tn t0) eqn:E0; cbn [negb].
  { (* nothing changes *)
    apply Reqb_true in E0. rewrite E0. unfold t0. rewrite set_get_same. exact Hup. }
  apply Reqb_false in E0. assert (Hlt : tn < t0) by lra.
  (* the signs written and what they need *)
  assert (Hw : exists a b, (if Reqb tn t1z then set (set sg [i; j; 0%Z] sgntz) [i; j; 1%Z] 0%Z
                            else if Reqb tn t1x then set (set sg [i; j; 0%Z] 0%Z) [i; j; 1%Z] sgntx
                            else set (set sg [i; j; 0%Z] sgntz) [i; j; 1%Z] sgntx)
                           = set (set sg [i; j; 0%Z] a) [i; j; 1%Z] b /\
                           (a = 0%Z \/ (a = sgntz /\ nb_v tt i j sgntz <= tn)) /\
                           (b = 0%Z \/ (b = sgntx /\ nb_e tt i j sgntx <= tn))).
  { destruct (Reqb tn t1z) eqn:E1; [apply Reqb_true in E1 | apply Reqb_false in E1].
    - exists sgntz, 0%Z. split; [reflexivity|]. split; [right; split; [reflexivity | lra] | left; reflexivity].
    - destruct (Reqb tn t1x) eqn:E2; [apply Reqb_true in E2 | apply Reqb_false in E2].
      + exists 0%Z, sgntx. split; [reflexivity|]. split; [left; reflexivity | right; split; [reflexivity | lra]].
      + exists sgntz, sgntx. split; [reflexivity|].
        assert (Etn : tn = pymin3 t0 (pymin2 t1z t1x) t2) by reflexivity.
        assert (Et : tn = t2).
        { destruct (pymin3_cases t0 (pymin2 t1z t1x) t2) as [C | [C | C]].
          - exfalso. apply E0. rewrite Etn. exact C.
          - exfalso. destruct (pymin2_cases t1z t1x) as [C' | C']; [apply E1 | apply E2]; rewrite Etn, C; exact C'.
          - rewrite Etn. exact C. }
        destruct (Hc ltac:(fold t0; lra)) as [C1 C2]. rewrite Et. split; right; split; auto. }
  destruct Hw as (a & b & -> & Ha & Hb).
  set (tt' := set tt [i; j] tn).
  assert (Gsame : get 0 tt' [i; j] = tn) by (apply get_set_same; auto).
  assert (Goth : forall p q, (0 <= p < nz)%Z -> (0 <= q < nx)%Z -> (p <> i \/ q <> j) -> get 0 tt' [p; q] = get 0 tt [p; q]).
  { intros p q Hp Hq Ne. apply get_set_other; auto. intro E; injection E; lia. }
  assert (Gle : forall p q, (0 <= p < nz)%Z -> (0 <= q < nx)%Z -> get 0 tt' [p; q] <= get 0 tt [p; q]).
  { intros p q Hp Hq. destruct (Z.eq_dec p i) as [-> | Np]; [destruct (Z.eq_dec q j) as [-> | Nq] |].
    - rewrite Gsame. exact Hle.
    - rewrite Goth by (auto; lia). lra.
    - rewrite Goth by (auto; lia). lra. }
  intros p q Hp Hq.
  destruct (Z.eq_dec p i) as [-> | Np]; [destruct (Z.eq_dec q j) as [-> | Nq] |].
  - (* the updated node *)
    unfold upwind_at. rewrite (sg_set2_z nz nx sg i j a b Hinv Hi Hj), (sg_set2_x nz nx sg i j a b Hinv Hi Hj).
    cbv zeta. rewrite Gsame. split; intros Hne.
    + destruct Ha as [-> | [-> Hv]]; [contradiction|]. rewrite Goth by (auto; lia). exact Hv.
    + destruct Hb as [-> | [-> He]]; [contradiction|]. rewrite Goth by (auto; lia). exact He.
  - (* same row, other column *)
    destruct (Hup i q Hi Hq) as [U0 U1]. destruct Hinv as (Ws & Ss & Hq').
    destruct (Hq' i q Hi Hq) as [Oz Ox]. unfold sgn_ok in Oz, Ox.
    unfold upwind_at. rewrite !(sg_set2_other nz nx sg i j a b (conj Ws (conj Ss Hq')) Hi Hj) by (auto; lia).
    cbv zeta in *. rewrite (Goth i q) by (auto; lia). split; intros Hne.
    + eapply Rle_trans; [apply Gle; lia | apply U0, Hne].
    + eapply Rle_trans; [apply Gle; lia | apply U1, Hne].
  - destruct (Hup p q Hp Hq) as [U0 U1]. destruct Hinv as (Ws & Ss & Hq').
    destruct (Hq' p q Hp Hq) as [Oz Ox]. unfold sgn_ok in Oz, Ox.
    unfold upwind_at. rewrite !(sg_set2_other nz nx sg i j a b (conj Ws (conj Ss Hq')) Hi Hj) by (auto; lia).
    cbv zeta in *. rewrite (Goth p q) by (auto; lia). split; intros Hne.
    + eapply Rle_trans; [apply Gle; lia | apply U0, Hne].
    + eapply Rle_trans; [apply Gle; lia | apply U1, Hne].
Qed.
End UpwindStep.

(* ------------------------------------------------------------------------------------------ *)
(* (G1), (G3) at SOLVER level                                                                   *)
(* ------------------------------------------------------------------------------------------ *)
(* (G1) SOLVER LEVEL *)
Theorem fteik2d_gradient_assembly (slow : arr R) (dz dx zsrc xsrc : R) (nsweep : Z) (tt ttgrad : arr R) (vzero : R) :
  fteik2d slow dz dx zsrc xsrc nsweep true = Ok (tt, ttgrad, vzero) ->
  let sg := snd (final_state slow dz dx zsrc xsrc nsweep) in
  let G0 := i_ttgrad slow dz dx zsrc xsrc true in
  tt = fst (final_state slow dz dx zsrc xsrc nsweep) /\
  forall i j, (0 <= i < dim slow 0 + 1)%Z -> (0 <= j < dim slow 1 + 1)%Z ->
    let rz := raw_z tt sg dz G0 i j in let rx := raw_x tt sg dx G0 i j in
    get 0 ttgrad [i; j; 0%Z] = normed rz rx rz /\ get 0 ttgrad [i; j; 1%Z] = normed rz rx rx.
Proof.
  intros E sg G0.
  destruct (out_is_inv _ _ _ _ _ (fteik2d_out_true slow dz dx zsrc xsrc nsweep) E) as [Et EG].
  split; [exact Et|]. intros i j Hi Hj.
  destruct (i_ttgrad_true_ok slow dz dx zsrc xsrc) as [W S]; [lia | lia |].
  rewrite EG, <- Et. fold sg G0.
  exact (asm2_value _ _ tt sg dz dx G0 (conj W S) i j Hi Hj).
Qed.

(* (G3) SOLVER LEVEL: the sign of a returned component against its recorded sign is decided by the upwind relation *)
Theorem fteik2d_gradient_sign_iff (slow : arr R) (dz dx zsrc xsrc : R) (nsweep : Z) (tt ttgrad : arr R) (vzero : R) :
  0 < dz -> 0 < dx ->
  fteik2d slow dz dx zsrc xsrc nsweep true = Ok (tt, ttgrad, vzero) ->
  let sg := snd (final_state slow dz dx zsrc xsrc nsweep) in
  forall i j, (0 <= i < dim slow 0 + 1)%Z -> (0 <= j < dim slow 1 + 1)%Z ->
    (let s := get 0%Z sg [i; j; 0%Z] in let c := get 0 ttgrad [i; j; 0%Z] in
     s <> 0%Z -> (0 <= c * IZR s <-> get 0 tt [(i - s)%Z; j] <= get 0 tt [i; j]) /\
                 (c * IZR s < 0 <-> get 0 tt [i; j] < get 0 tt [(i - s)%Z; j])) /\
    (let s := get 0%Z sg [i; j; 1%Z] in let c := get 0 ttgrad [i; j; 1%Z] in
     s <> 0%Z -> (0 <= c * IZR s <-> get 0 tt [i; (j - s)%Z] <= get 0 tt [i; j]) /\
                 (c * IZR s < 0 <-> get 0 tt [i; j] < get 0 tt [i; (j - s)%Z])).
Proof.
  intros Hdz Hdx E sg i j Hi Hj.
  destruct (fteik2d_gradient_assembly slow dz dx zsrc xsrc nsweep tt ttgrad vzero E) as [_ A].
  specialize (A i j Hi Hj). cbv zeta in A.
  split; cbv zeta; intros Hs.
  - exact (comp_sign_z tt sg dz dx _ ttgrad i j A Hdz Hs).
  - exact (comp_sign_x tt sg dz dx _ ttgrad i j A Hdx Hs).
Qed.

(* (G3) from the invariant as a HYPOTHESIS *)
Theorem fteik2d_gradient_sign_partial (slow : arr R) (dz dx zsrc xsrc : R) (nsweep : Z) (tt ttgrad : arr R) (vzero : R) :
  0 < dz -> 0 < dx ->
  fteik2d slow dz dx zsrc xsrc nsweep true = Ok (tt, ttgrad, vzero) ->
  let sg := snd (final_state slow dz dx zsrc xsrc nsweep) in
  forall i j, (0 <= i < dim slow 0 + 1)%Z -> (0 <= j < dim slow 1 + 1)%Z ->
    upwind_at tt sg i j ->
    0 <= get 0 ttgrad [i; j; 0%Z] * IZR (get 0%Z sg [i; j; 0%Z]) /\
    0 <= get 0 ttgrad [i; j; 1%Z] * IZR (get 0%Z sg [i; j; 1%Z]).
Proof.
  intros Hdz Hdx E sg i j Hi Hj [Uz Ux].
  destruct (fteik2d_gradient_sign_iff slow dz dx zsrc xsrc nsweep tt ttgrad vzero Hdz Hdx E i j Hi Hj) as [Sz Sx].
  fold sg in Sz, Sx. cbv zeta in *. split.
  - destruct (Z.eq_dec (get 0%Z sg [i; j; 0%Z]) 0) as [-> | Ne]; [change (IZR 0) with 0; lra|].
    apply (proj1 (Sz Ne)), Uz, Ne.
  - destruct (Z.eq_dec (get 0%Z sg [i; j; 1%Z]) 0) as [-> | Ne]; [change (IZR 0) with 0; lra|].
    apply (proj1 (Sx Ne)), Ux, Ne.
Qed.

(* decide the comparisons of the goal by linear arithmetic *)
Ltac no_cmp t :=
  lazymatch t with
  | context [Rltb _ _] => fail
  | context [Rleb _ _] => fail
  | context [Reqb _ _] => fail
  | _ => idtac
  end.
Ltac rdec :=
  repeat match goal with
  | |- context [Rltb ?a ?b] =>
      no_cmp a; no_cmp b;
      let E := fresh "E" in destruct (Rltb a b) eqn:E; [apply Rltb_true in E | apply Rltb_false in E]; try (exfalso; lra)
  | |- context [Rleb ?a ?b] =>
      no_cmp a; no_cmp b;
      let E := fresh "E" in destruct (Rleb a b) eqn:E; [apply Rleb_true in E | apply Rleb_false in E]; try (exfalso; lra)
  | |- context [Reqb ?a ?b] =>
      no_cmp a; no_cmp b;
      let E := fresh "E" in destruct (Reqb a b) eqn:E; [apply Reqb_true in E | apply Reqb_false in E]; try (exfalso; lra)
  end.

(* ------------------------------------------------------------------------------------------ *)
(* REFUTATION 1 (node update).  2 x 2 nodes, one cell of slowness 2, unit spacings, source far away (plane-wave       *)
(* branch).  Node (0,0) = 0, node (1,0) = 6/5, nodes (0,1), (1,1) not reached yet (Big), no sign recorded: the        *)
(* upwind invariant holds.  The update of node (1,1) in direction (+,+) finds the 4-point operator inadmissible       *)
(* (tv = Big), accepts the 3-point operator through te = tt[1,0] and tev = tt[0,0], writes 14/5 and records the signs *)
(* (+1, +1): the z sign points to node (0,1), which was NOT used and holds Big = 100000 > 14/5.                       *)
(* ------------------------------------------------------------------------------------------ *)
Definition w1_tt : arr R := ex_tt 100000 (6 / 5).
Definition w1_step : arr R * arr Z :=
  sweep w1_tt ex_sgn ex_slow (dargs_of 1 1) 100 100 100 100 2 1 1 1 1 1 1 2 2 true.

Lemma w1_okT : okT 2 2 w1_tt.
Proof. split; [split; [reflexivity | repeat constructor; lia] | reflexivity]. Qed.
Lemma w1_sgn_inv : sgn_inv 2 2 ex_sgn.
Proof. apply sgn_inv_zeros; lia. Qed.
Lemma w1_upwind_before : upwind 2 2 w1_tt ex_sgn.
Proof.
  intros i j Hi Hj. destruct w1_sgn_inv as (_ & S & _).
  unfold upwind_at, ex_sgn. rewrite !get_full by (cbn [inb_sh]; repeat (apply andb_true_intro; split);
                        first [reflexivity | apply Z.leb_le; lia | apply Z.ltb_lt; lia]).
  split; intros H; exfalso; apply H; reflexivity.
Qed.

Lemma w1_t1d_z : t1d_z w1_tt ex_slow 1 1 1 1 1 2 = 100002.
Proof.
  unfold t1d_z, edge_s_z, nb_v.
  change (get 0 w1_tt [(1 - 1)%Z; 1%Z]) with 100000.
  change (get 0 ex_slow [(1 - 1)%Z; Z.max (1 - 1) 0]) with 2. change (get 0 ex_slow [(1 - 1)%Z; Z.min 1 (2 - 2)]) with 2.
  unfold pymin2. cbn [nltb NumR]. rdec; lra.
Qed.
Lemma w1_t1d_x : t1d_x w1_tt ex_slow 1 1 1 1 1 2 = 16 / 5.
Proof.
  unfold t1d_x, edge_s_x, nb_e.
  change (get 0 w1_tt [1%Z; (1 - 1)%Z]) with (6 / 5).
  change (get 0 ex_slow [Z.max (1 - 1) 0; (1 - 1)%Z]) with 2. change (get 0 ex_slow [Z.min 1 (2 - 2); (1 - 1)%Z]) with 2.
  unfold pymin2. cbn [nltb NumR]. rdec; lra.
Qed.

Lemma w1_val : sweep_val w1_tt ex_slow 1 1 (1 / 1) (1 / 1) (1 / 1 / 1) (1 / 1 / 1) 100 100 100 100 2 1 1 1 1 1 1 2 2 = 14 / 5.
Proof.
  pose proof (sweep_three_point_e_plane_wave_ex) as E.
  change (ex_tt 100000 (6 / 5)) with w1_tt in E. unfold dargs_of in E.
  rewrite sweep_fst_eq in E.
  assert (G : forall v, get 0 (set w1_tt [1%Z; 1%Z] v) [1%Z; 1%Z] = v).
  { intros v. apply get_set_same; [apply w1_okT | reflexivity]. }
  apply (f_equal (fun a => get 0 a [1%Z; 1%Z])) in E. rewrite !G in E. rewrite E.
  unfold t1d. rewrite w1_t1d_z, w1_t1d_x. unfold pymin3, pymin2. cbn [nltb NumR]. rdec; lra.
Qed.

Theorem sweep_breaks_upwind :
  okT 2 2 w1_tt /\ sgn_inv 2 2 ex_sgn /\ nonneg ex_slow /\ nonneg w1_tt /\
  (forall i j, (0 <= i < 2)%Z -> (0 <= j < 2)%Z -> get 0 w1_tt [i; j] <= Big) /\
  upwind 2 2 w1_tt ex_sgn /\
  get 0 (fst w1_step) [1%Z; 1%Z] = 14 / 5 /\ get 0%Z (snd w1_step) [1%Z; 1%Z; 0%Z] = 1%Z /\
  get 0 (fst w1_step) [0%Z; 1%Z] = 100000 /\
  ~ upwind 2 2 (fst w1_step) (snd w1_step).
Proof.
  assert (V : get 0 (fst w1_step) [1%Z; 1%Z] = 14 / 5).
  { unfold w1_step, dargs_of. rewrite sweep_fst_eq, w1_val. apply get_set_same; [apply w1_okT | reflexivity]. }
  assert (N : get 0 (fst w1_step) [0%Z; 1%Z] = 100000).
  { unfold w1_step, dargs_of. rewrite sweep_fst_eq, w1_val.
    rewrite get_set_other; [reflexivity | reflexivity | reflexivity | intro E; discriminate E]. }
  assert (Sg : get 0%Z (snd w1_step) [1%Z; 1%Z; 0%Z] = 1%Z).
  { unfold w1_step, dargs_of. rewrite sweep_snd_eq, w1_val.
    rewrite get_set_same by (first [apply w1_okT | reflexivity]).
    rewrite w1_t1d_z, w1_t1d_x. change (get 0 w1_tt [1%Z; 1%Z]) with 100000.
    unfold sweep_sgn, nneb. cbn [andb neqb NumR]. rdec. cbn [negb].
    apply (sg_set2_z 2 2 ex_sgn 1 1 1 1 w1_sgn_inv); lia. }
  split; [apply w1_okT|]. split; [apply w1_sgn_inv|].
  split; [unfold nonneg, ex_slow; cbn [dat]; repeat constructor; lra|].
  split; [unfold nonneg, w1_tt, ex_tt; cbn [dat]; repeat constructor; lra|].
  split.
  { intros i j Hi Hj. assert (Ci : i = 0%Z \/ i = 1%Z) by lia. assert (Cj : j = 0%Z \/ j = 1%Z) by lia.
    unfold Big. cbn [nofZ NumR].
    destruct Ci as [-> | ->], Cj as [-> | ->].
    - change (get 0 w1_tt [0%Z; 0%Z]) with 0. lra.
    - change (get 0 w1_tt [0%Z; 1%Z]) with 100000. lra.
    - change (get 0 w1_tt [1%Z; 0%Z]) with (6 / 5). lra.
    - change (get 0 w1_tt [1%Z; 1%Z]) with 100000. lra. }
  split; [apply w1_upwind_before|]. split; [exact V|]. split; [exact Sg|]. split; [exact N|].
  intros U. destruct (U 1%Z 1%Z ltac:(lia) ltac:(lia)) as [Uz _]. cbv zeta in Uz. rewrite Sg in Uz.
  specialize (Uz ltac:(lia)). change (1 - 1)%Z with 0%Z in Uz. rewrite V, N in Uz. lra.
Qed.

(* the 4-point operator is not causal either under its admissibility test: tv = te = 10, tev = 0, slowness 1, unit
   spacings pass the test and give sqrt 2 < 10 (the test bounds |tv - te|, not tv - tev) *)
Example four_point_not_causal :
  adm4 10 10 0 1 1 1 = true /\ four_point 10 10 0 1 (1 / 1 / 1) (1 / 1 / 1) < 10.
Proof.
  split; [apply adm4_true; lra|]. unfold four_point. cbv zeta.
  match goal with |- context [sqrt ?r] => replace r with 8 by field end.
  assert (H : sqrt 8 < sqrt 16) by (apply sqrt_lt_1_alt; lra).
  replace 16 with (4 * 4) in H by ring. rewrite sqrt_square in H by lra. lra.
Qed.

(* ------------------------------------------------------------------------------------------ *)
(* a grid holding the exact analytic times of a homogeneous medium, entirely inside the source box, is left alone by   *)
(* every node update: times AND recorded signs                                                                        *)
(* ------------------------------------------------------------------------------------------ *)
Lemma delta_homog_ge t1 t0c tzc txc dzi dxi dz2i dx2i v sz sx :
  0 < dz2i + dx2i -> t0c <= delta t1 0 0 0 t0c tzc txc dzi dxi dz2i dx2i v v sz sx.
Proof.
  intros Ha. destruct (Rle_dec 0 (IZR sx * txc * dxi + IZR sz * tzc * dzi)) as [P | N].
  - rewrite delta_spherical_exact by exact P. lra.
  - rewrite delta_spherical_exact_neg by lra.
    set (S := IZR sx * txc * dxi + IZR sz * tzc * dzi) in *.
    assert (0 <= - (4 * S) / (dz2i + dx2i)).
    { apply Rmult_le_pos; [lra | left; apply Rinv_0_lt_compat; exact Ha]. }
    unfold Rdiv in *. lra.
Qed.

Lemma spherical_raw_homog_ge dz dx dzi dxi dz2i dx2i zsa xsa v i j sz sx :
  0 < dz2i + dx2i ->
  t_ana i j dz dx zsa xsa v <=
  spherical_raw (t_ana (i - sz) j dz dx zsa xsa v) (t_ana i (j - sx) dz dx zsa xsa v)
                (t_ana (i - sz) (j - sx) dz dx zsa xsa v) v dz dx dzi dxi dz2i dx2i zsa xsa v i j sz sx.
Proof.
  intros Ha. unfold spherical_raw. rewrite t_anad_exact.
  replace (t_ana (i - sz) j dz dx zsa xsa v - t_ana (i - sz) j dz dx zsa xsa v) with 0 by ring.
  replace (t_ana i (j - sx) dz dx zsa xsa v - t_ana i (j - sx) dz dx zsa xsa v) with 0 by ring.
  replace (t_ana (i - sz) (j - sx) dz dx zsa xsa v - t_ana (i - sz) (j - sx) dz dx zsa xsa v) with 0 by ring.
  apply delta_homog_ge, Ha.
Qed.

(* the Euclidean norm is 1-Lipschitz in each coordinate *)
Lemma sqrt_lip (a b X : R) : sqrt (a * a + X * X) <= sqrt (b * b + X * X) + Rabs (a - b).
Proof.
  set (r := sqrt (b * b + X * X)). set (h := Rabs (a - b)).
  assert (Hr : 0 <= r) by apply sqrt_pos. assert (Hh : 0 <= h) by apply Rabs_pos.
  assert (Er : r * r = b * b + X * X) by (apply sqrt_sqrt; nra).
  assert (Eh : h * h = (a - b) * (a - b)).
  { unfold h, Rabs. destruct (Rcase_abs (a - b)); ring. }
  assert (Hb : Rabs b <= r).
  { unfold r. rewrite <- (sqrt_Rsqr_abs b). apply sqrt_le_1_alt. unfold Rsqr. nra. }
  assert (Hab : (a - b) * b <= h * r).
  { eapply Rle_trans; [apply Rle_abs|]. rewrite Rabs_mult. fold h. apply Rmult_le_compat_l; assumption. }
  rewrite <- (sqrt_square (r + h)) by lra. apply sqrt_le_1_alt. nra.
Qed.

Lemma t_ana_step_z i s j dz dx zsa xsa v :
  0 <= dz -> 0 <= v -> (s = 1 \/ s = -1)%Z ->
  t_ana i j dz dx zsa xsa v <= t_ana (i - s) j dz dx zsa xsa v + dz * v.
Proof.
  intros Hdz Hv Hs. rewrite !t_ana_exact.
  replace ((dz * (IZR i - zsa)) ^ 2 + (dx * (IZR j - xsa)) ^ 2)
    with ((dz * (IZR i - zsa)) * (dz * (IZR i - zsa)) + (dx * (IZR j - xsa)) * (dx * (IZR j - xsa))) by ring.
  replace ((dz * (IZR (i - s) - zsa)) ^ 2 + (dx * (IZR j - xsa)) ^ 2)
    with ((dz * (IZR (i - s) - zsa)) * (dz * (IZR (i - s) - zsa)) + (dx * (IZR j - xsa)) * (dx * (IZR j - xsa))) by ring.
  pose proof (sqrt_lip (dz * (IZR i - zsa)) (dz * (IZR (i - s) - zsa)) (dx * (IZR j - xsa))) as L.
  assert (E : Rabs (dz * (IZR i - zsa) - dz * (IZR (i - s) - zsa)) = dz).
  { rewrite minus_IZR. replace (dz * (IZR i - zsa) - dz * (IZR i - IZR s - zsa)) with (dz * IZR s) by ring.
    destruct Hs as [-> | ->]; [change (IZR 1) with 1 | change (IZR (-1)) with (-1)].
    - rewrite Rabs_pos_eq; lra.
    - rewrite Rabs_left1; lra. }
  rewrite E in L. nra.
Qed.
Lemma t_ana_step_x i j s dz dx zsa xsa v :
  0 <= dx -> 0 <= v -> (s = 1 \/ s = -1)%Z ->
  t_ana i j dz dx zsa xsa v <= t_ana i (j - s) dz dx zsa xsa v + dx * v.
Proof. intros. rewrite (t_ana_swap i j), (t_ana_swap i (j - s)). apply t_ana_step_z; assumption. Qed.

Lemma pymin3_keep' (t a b : R) : t <= a -> t <= b -> pymin3 t a b = t.
Proof. intros Ha Hb. unfold pymin3, pymin2. cbn [nltb NumR]. rdec; lra. Qed.

Section ExactFixed.
Variables (nz nx : Z) (tt : arr R) (slow : arr R) (dz dx zsi xsi zsa xsa v : R).
Hypotheses (Hnz : (2 <= nz)%Z) (Hnx : (2 <= nx)%Z) (Hdz : 0 < dz) (Hdx : 0 < dx) (Hv : 0 <= v).
Hypothesis Hok : okT nz nx tt.
Hypothesis Hget : forall i j, (0 <= i < nz)%Z -> (0 <= j < nx)%Z -> get 0 tt [i; j] = t_ana i j dz dx zsa xsa v.
Hypothesis Hslow : forall p q, (0 <= p <= nz - 2)%Z -> (0 <= q <= nx - 2)%Z -> get 0 slow [p; q] = v.
Hypothesis Hbox : forall i j, (0 <= i < nz)%Z -> (0 <= j < nx)%Z ->
  ~ (IZR epsin < Rabs (IZR i - zsi) \/ IZR epsin < Rabs (IZR j - xsi)).
Hypothesis HBig : forall i j, (0 <= i < nz)%Z -> (0 <= j < nx)%Z -> t_ana i j dz dx zsa xsa v <= Big.

Lemma ex_t1d_ge i j sgnvz sgnvx sgntz sgntx :
  dirp sgnvz sgntz i nz -> dirp sgnvx sgntx j nx ->
  get 0 tt [i; j] <= t1d tt slow dz dx i j sgnvz sgnvx sgntz sgntx nz nx.
Proof.
  intros Di Dj. unfold dirp in Di, Dj.
  unfold t1d, t1d_z, t1d_x, nb_v, nb_e, edge_s_z, edge_s_x.
  rewrite !Hget by lia. rewrite !Hslow by lia.
  assert (M : pymin2 v v = v) by (destruct (pymin2_cases v v); assumption). rewrite M.
  apply pymin2_ge.
  - apply t_ana_step_z; [lra | exact Hv | lia].
  - apply t_ana_step_x; [lra | exact Hv | lia].
Qed.

Lemma ex_t2d_ge i j sgnvz sgnvx sgntz sgntx :
  dirp sgnvz sgntz i nz -> dirp sgnvx sgntx j nx ->
  get 0 tt [i; j] <=
  sweep_t2d tt slow dz dx (1 / dz) (1 / dx) (1 / dz / dz) (1 / dx / dx) zsi xsi zsa xsa v i j sgnvz sgnvx sgntz sgntx.
Proof.
  intros Di Dj. unfold dirp in Di, Dj.
  unfold sweep_t2d. cbv zeta.
  rewrite (proj2 (bool_false_iff _ _ (outside_box_true zsi xsi i j)) (Hbox i j ltac:(lia) ltac:(lia))).
  unfold spherical_t2d, nb_v, nb_e, nb_ev, cell_s. rewrite !Hget by lia. rewrite Hslow by lia.
  destruct (admS _ _ _ _ _ _); [|apply HBig; lia]. cbv zeta.
  match goal with |- _ <= (if ?c then _ else _) => destruct c end; [apply HBig; lia|].
  apply spherical_raw_homog_ge.
  assert (0 < / dz) by (apply Rinv_0_lt_compat; exact Hdz). assert (0 < / dx) by (apply Rinv_0_lt_compat; exact Hdx).
  unfold Rdiv. rewrite !Rmult_1_l. nra.
Qed.

Lemma ex_sweep_noop sg i j sgnvz sgnvx sgntz sgntx grad :
  dirp sgnvz sgntz i nz -> dirp sgnvx sgntx j nx ->
  sweep tt sg slow (dz, dx, 1 / dz, 1 / dx, 1 / dz / dz, 1 / dx / dx) zsi xsi zsa xsa v
        i j sgnvz sgnvx sgntz sgntx nz nx grad = (tt, sg).
Proof.
  intros Di Dj.
  assert (Hi : (0 <= i < nz)%Z) by (unfold dirp in Di; lia). assert (Hj : (0 <= j < nx)%Z) by (unfold dirp in Dj; lia).
  assert (Ev : sweep_val tt slow dz dx (1 / dz) (1 / dx) (1 / dz / dz) (1 / dx / dx) zsi xsi zsa xsa v
                         i j sgnvz sgnvx sgntz sgntx nz nx = get 0 tt [i; j]).
  { unfold sweep_val. apply pymin3_keep'; [apply ex_t1d_ge | apply ex_t2d_ge]; assumption. }
  rewrite (surjective_pairing (sweep _ _ _ _ _ _ _ _ _ _ _ _ _ _ _ _ _ _)).
  rewrite sweep_fst_eq, sweep_snd_eq, Ev, set_get_same. f_equal.
  unfold sweep_sgn, nneb. cbn [neqb NumR].
  replace (Reqb (get 0 tt [i; j]) (get 0 tt [i; j])) with true by (symmetry; apply Reqb_true; reflexivity).
  cbn [negb]. rewrite andb_false_r. reflexivity.
Qed.

Ltac fixp leaf :=
  cbv beta; cbn [fst snd];
  lazymatch goal with
  | |- (?a, ?b) = (tt, ?sg) =>
      lazymatch a with
      | fst ?u => let E := fresh "E" in assert (E : u = (tt, sg)); [ fixp leaf | rewrite E; reflexivity ]
      | _ => reflexivity
      end
  | |- for_list ?l ?b ?s = (tt, ?sg) =>
      lazymatch s with
      | (fst ?y, snd ?y) =>
          let E := fresh "E" in assert (E : y = (tt, sg)); [ fixp leaf | rewrite E; fixp leaf ]
      | _ => apply (for_list_inv (fun st => st = (tt, sg)));
             [ reflexivity | let Hin := fresh "Hin" in let Hs := fresh "Hs" in intros ? ? Hin Hs; rewrite Hs; fixp leaf ]
      end
  | |- sweep _ _ _ _ _ _ _ _ _ _ _ _ _ _ _ _ _ _ = _ => leaf
  end.

Theorem ex_sweep2d_fixed sg grad : sweep2d tt sg slow dz dx zsi xsi zsa xsa v nz nx grad = (tt, sg).
Proof.
  unfold sweep2d. cbv zeta. cbn [ndiv nofZ NumR].
  fixp ltac:(repeat match goal with
             | H : In _ (pyrange _ _ 1) |- _ => apply in_pyrange_up in H
             | H : In _ (pyrange _ _ (-1)) |- _ => apply in_pyrange_down in H
             end; apply ex_sweep_noop; unfold dirp; lia).
Qed.
End ExactFixed.

(* ------------------------------------------------------------------------------------------ *)
(* REFUTATION 2 (whole solve, every nsweep).  Homogeneous model of 1 x 2 cells (2 x 3 nodes), slowness 1, unit        *)
(* spacings, source at (z, x) = (1/4, 1/2) inside cell (0, 0).                                                        *)
(* ------------------------------------------------------------------------------------------ *)
Definition w2_slow : arr R := full [1%Z; 2%Z] 1.
Notation w2 f := (f w2_slow 1 1 (1 / 4) (1 / 2)) (only parsing).

Lemma w2_slow_get p q : (0 <= p <= 2 - 2)%Z -> (0 <= q <= 3 - 2)%Z -> get 0 w2_slow [p; q] = 1.
Proof.
  intros Hp Hq. unfold w2_slow. apply get_full. cbn [inb_sh].
  repeat (apply andb_true_intro; split); first [reflexivity | apply Z.leb_le; lia | apply Z.ltb_lt; lia].
Qed.

(* the premises of the property hold for this input: well-formed model, positive slowness, positive spacings (1, 1),
   source inside the model (w2_inside below: the solver accepts it) *)
Lemma w2_model_ok :
  wf w2_slow /\ shape w2_slow = [1%Z; 2%Z] /\
  forall p q, (0 <= p < 1)%Z -> (0 <= q < 2)%Z -> 0 < get 0 w2_slow [p; q].
Proof.
  split; [apply wf_full; repeat constructor; lia|]. split; [reflexivity|].
  intros p q Hp Hq. rewrite w2_slow_get by lia. lra.
Qed.

Lemma Rtrunc_lt1 x : 0 <= x < 1 -> Rtrunc x = 0%Z.
Proof.
  intros [H0 H1]. destruct (Rtrunc_bounds x H0) as [P [L U]].
  assert (A : IZR (Rtrunc x) < IZR 1) by (change (IZR 1) with 1; lra). apply lt_IZR in A. lia.
Qed.

Lemma w2_zsi : w2 i_zsi true = 0%Z.
Proof. rewrite i_zsi_eq. rewrite Rtrunc_lt1 by lra. reflexivity. Qed.
Lemma w2_xsi : w2 i_xsi true = 0%Z.
Proof. rewrite i_xsi_eq. rewrite Rtrunc_lt1 by lra. reflexivity. Qed.
Lemma w2_vzero : w2 i_vzero true = 1.
Proof. rewrite i_vzero_eq, w2_zsi, w2_xsi. apply w2_slow_get; lia. Qed.

Lemma w2_flag_src : w2 i_iflag true = 2%Z /\ w2 i_zsa true = 1 / 4 /\ w2 i_xsa true = 1 / 2.
Proof.
  pose proof w2_zsi as Ez. pose proof w2_xsi as Ex.
  unfold i_zsa, i_xsa, i_zsi, i_xsi, i_iflag, p1 in *. revert Ez Ex. cbv beta delta [fteik2d_p1]. cbv zeta.
  cbn [fst snd ndiv nround nabs nsub nofZ ntrunc NumR]. unfold ngtb. cbn [nltb NumR]. intros Ez Ex. rewrite Ez, Ex.
  replace (1 / 4 / 1 - 0) with (1 / 4) by field. replace (1 / 2 / 1 - 0) with (1 / 2) by field.
  rewrite (Rabs_pos_eq (1 / 4)) by lra. rewrite (Rabs_pos_eq (1 / 2)) by lra.
  assert (Ee : (eps : R) = 1 / 1000000000000000) by (unfold eps; cbn [nofQ NumR]; reflexivity).
  set (e := eps) in *. clearbody e.
  unfold pymin2. cbn [nltb NumR]. rdec; cbn [andb orb fst snd]; repeat split; lra.
Qed.

Lemma w2_inside : w2 inside2d = true.
Proof.
  unfold inside2d. cbv zeta. change (dim w2_slow 0) with 1%Z. change (dim w2_slow 1) with 2%Z.
  cbn [nleb nmul nofZ NumR]. rewrite !andb_true_iff, !Rleb_true. lra.
Qed.

Notation w2_ta i j := (t_ana i j 1 1 (1 / 4) (1 / 2) 1) (only parsing).

Lemma w2_ta_lt_Big i j : (0 <= i < 2)%Z -> (0 <= j < 3)%Z -> w2_ta i j < Big.
Proof.
  intros Hi Hj. rewrite t_ana_exact, Rmult_1_l. apply sqrt_lt_Big.
  assert (0 <= IZR i <= 1) by (split; [apply (IZR_le 0) | apply (IZR_le i 1)]; lia).
  assert (0 <= IZR j <= 2) by (split; [apply (IZR_le 0) | apply (IZR_le j 2)]; lia).
  replace ((1 * (IZR i - 1 / 4)) ^ 2 + (1 * (IZR j - 1 / 2)) ^ 2)
    with ((IZR i - 1 / 4) * (IZR i - 1 / 4) + (IZR j - 1 / 2) * (IZR j - 1 / 2)) by ring.
  set (a := IZR i - 1 / 4). set (b := IZR j - 1 / 2).
  assert (Ha : -1 <= a <= 1) by (unfold a; lra). assert (Hb : -2 <= b <= 2) by (unfold b; lra).
  assert (0 <= a * a) by nra. assert (0 <= b * b) by nra.
  assert (a * a <= 1) by nra. assert (b * b <= 4) by nra. lra.
Qed.

Lemma i_ttsgn1_true (slow : arr R) dz dx zsrc xsrc :
  i_ttsgn1 slow dz dx zsrc xsrc true = full [(dim slow 0 + 1)%Z; (dim slow 1 + 1)%Z; 2%Z] 0%Z.
Proof. unfold i_ttsgn1, p1. cbv beta delta [fteik2d_p1]. reflexivity. Qed.

(* the state before the first sweep: exact analytic times at the six nodes; node (0,2), written by the east loop of the
   source row, carries the z sign -1, i.e. points to node (1,2) *)
Lemma w2_init :
  okT 2 3 (w2 i_tt true) /\
  (forall i j, (0 <= i < 2)%Z -> (0 <= j < 3)%Z -> get 0 (w2 i_tt true) [i; j] = w2_ta i j) /\
  get 0%Z (w2 i_ttsgn true) [0%Z; 2%Z; 0%Z] = (-1)%Z /\ get 0%Z (w2 i_ttsgn true) [1%Z; 2%Z; 0%Z] = 1%Z.
Proof.
  split.
  { apply (fteik2d_init_okT w2_slow 1 1 (1 / 4) (1 / 2) true); cbn; lia. }
  destruct w2_flag_src as (Ef & Ea & Eb).
  unfold i_tt, i_ttsgn, p2.
  rewrite Ef, Ea, Eb, w2_zsi, w2_xsi, w2_vzero, i_nz_eq, i_nx_eq, i_tt1_eq, i_ttsgn1_true.
  change (dim w2_slow 0 + 1)%Z with 2%Z. change (dim w2_slow 1 + 1)%Z with 3%Z.
  set (G1 := i_ttgrad1 w2_slow 1 1 (1 / 4) (1 / 2) true).
  assert (Hslow : forall i j, (0 <= i < 2 - 1)%Z -> (0 <= j < 3 - 1)%Z -> get 0 w2_slow [i; j] = 1)
    by (intros; apply w2_slow_get; lia).
  assert (Hbig : forall i j, (0 <= i < 2)%Z -> (0 <= j < 3)%Z -> get 0 (full [2%Z; 3%Z] (@Big R NumR)) [i; j] = Big).
  { intros i j Hi Hj. apply get_full. cbn [inb_sh].
    repeat (apply andb_true_intro; split); first [reflexivity | apply Z.leb_le; lia | apply Z.ltb_lt; lia]. }
  assert (Wt : wf (full [2%Z; 3%Z] (@Big R NumR))) by (apply wf_full; repeat constructor; lia).
  assert (Ws : wf (full [2%Z; 3%Z; 2%Z] 0%Z)) by (apply wf_full; repeat constructor; lia).
  assert (A1 : Rabs (1 / 4 - 0) = 1 / 4) by (rewrite Rabs_pos_eq; lra).
  assert (Sall : forall i j, (0 <= i < 2)%Z -> (0 <= j < 3)%Z -> init_set 1 1 1 (1 / 4) (1 / 2) 0 0 i j).
  { intros i j Hi Hj. apply init_set_spelled_out.
    destruct (Z_le_gt_dec j 1) as [Hj1 | Hj2]; [left; lia | right; left].
    split; [| split; [lia | apply w2_ta_lt_Big; lia]].
    change (IZR 0) with 0. rewrite A1.
    assert (Ci : i = 0%Z \/ i = 1%Z) by lia. destruct Ci as [-> | ->]; [right | left]; split; first [lia | lra]. }
  pose proof (fteik2d_init_homogeneous_exact 2 3 1 1 true w2_slow (full [2%Z; 3%Z] Big) G1 (full [2%Z; 3%Z; 2%Z] 0%Z)
                1 (1 / 4) (1 / 2) 0 0 ltac:(lra) ltac:(lra) ltac:(lra) ltac:(lia) ltac:(lia)
                ltac:(change (IZR 0) with 0; lra) ltac:(change (IZR 0) with 0; lra) Hslow Wt eq_refl Hbig) as E.
  pose proof (fteik2d_init_homogeneous_signs 2 3 1 1 w2_slow (full [2%Z; 3%Z] Big) G1 (full [2%Z; 3%Z; 2%Z] 0%Z)
                1 (1 / 4) (1 / 2) 0 0 ltac:(lra) ltac:(lra) ltac:(lra) ltac:(lia) ltac:(lia)
                ltac:(change (IZR 0) with 0; lra) ltac:(change (IZR 0) with 0; lra) Hslow Wt eq_refl Hbig Ws eq_refl) as Sg.
  cbv zeta in E, Sg.
  split; [| split].
  - intros i j Hi Hj. destruct (E i j Hi Hj) as (_ & Ex & _). apply Ex, Sall; assumption.
  - destruct (Sg 0%Z 2%Z ltac:(lia) ltac:(lia) (Sall 0%Z 2%Z ltac:(lia) ltac:(lia)) ltac:(lia)) as [S0 _]. exact S0.
  - destruct (Sg 1%Z 2%Z ltac:(lia) ltac:(lia) (Sall 1%Z 2%Z ltac:(lia) ltac:(lia)) ltac:(lia)) as [S0 _]. exact S0.
Qed.

(* every pass leaves this state alone *)
Lemma w2_pass_fixed :
  pass2d w2_slow 1 1 (1 / 4) (1 / 2) true (w2 i_tt true, w2 i_ttsgn true) = (w2 i_tt true, w2 i_ttsgn true).
Proof.
  destruct w2_init as (Hok & Hget & _). destruct w2_flag_src as (_ & Ea & Eb).
  unfold pass2d. cbn [fst snd]. rewrite Ea, Eb, w2_zsi, w2_xsi, w2_vzero, i_nz_eq, i_nx_eq.
  change (dim w2_slow 0 + 1)%Z with 2%Z. change (dim w2_slow 1 + 1)%Z with 3%Z. cbn [nofZ NumR].
  apply ex_sweep2d_fixed; try lia; try lra; try assumption.
  - exact w2_slow_get.
  - intros i j Hi Hj. unfold epsin.
    assert (0 <= IZR i <= 1) by (split; [apply (IZR_le 0) | apply (IZR_le i 1)]; lia).
    assert (0 <= IZR j <= 2) by (split; [apply (IZR_le 0) | apply (IZR_le j 2)]; lia).
    rewrite !Rabs_pos_eq by lra. lra.
  - intros i j Hi Hj. left. apply w2_ta_lt_Big; assumption.
Qed.

Lemma w2_final nsweep : w2 final_state nsweep = (w2 i_tt true, w2 i_ttsgn true).
Proof.
  unfold final_state. induction (Z.to_nat nsweep) as [|k IH]; [reflexivity|].
  rewrite iter_S, IH. apply w2_pass_fixed.
Qed.
(* projections, through a lemma about variables (the kernel never compares `fst (a, b)` with a big `a`) *)
Lemma pair_projs {A B} (p : A * B) a b : p = (a, b) -> fst p = a /\ snd p = b.
Proof. intros ->. split; reflexivity. Qed.
Lemma w2_final_fst nsweep : fst (w2 final_state nsweep) = w2 i_tt true.
Proof. exact (proj1 (pair_projs _ _ _ (w2_final nsweep))). Qed.
Lemma w2_final_snd nsweep : snd (w2 final_state nsweep) = w2 i_ttsgn true.
Proof. exact (proj2 (pair_projs _ _ _ (w2_final nsweep))). Qed.

Lemma w2_ta_lt : w2_ta 0 2 < w2_ta 1 2.
Proof.
  rewrite !t_ana_exact, !Rmult_1_l. apply sqrt_lt_1_alt.
  change (IZR 0) with 0. change (IZR 1) with 1. change (IZR 2) with 2.
  replace ((0 - 1 / 4) ^ 2 + (2 - 1 / 2) ^ 2) with (37 / 16) by field.
  replace ((1 - 1 / 4) ^ 2 + (2 - 1 / 2) ^ 2) with (45 / 16) by field. split; lra.
Qed.

(* the source initialisation already breaks the upwind invariant *)
Theorem init_breaks_upwind : ~ upwind 2 3 (w2 i_tt true) (w2 i_ttsgn true).
Proof.
  destruct w2_init as (_ & Hget & S0 & _). intros U.
  destruct (U 0%Z 2%Z ltac:(lia) ltac:(lia)) as [Uz _]. cbv zeta in Uz. rewrite S0 in Uz.
  specialize (Uz ltac:(lia)). change (0 - -1)%Z with 1%Z in Uz. rewrite !Hget in Uz by lia.
  pose proof w2_ta_lt. lra.
Qed.

Theorem fteik2d_gradient_wrong_sign (nsweep : Z) :
  exists tt G v,
    fteik2d w2_slow 1 1 (1 / 4) (1 / 2) nsweep true = Ok (tt, G, v) /\
    get 0%Z (snd (w2 final_state nsweep)) [0%Z; 2%Z; 0%Z] = (-1)%Z /\
    get 0 tt [0%Z; 2%Z] = w2_ta 0 2 /\ get 0 tt [1%Z; 2%Z] = w2_ta 1 2 /\
    get 0 tt [0%Z; 2%Z] < get 0 tt [1%Z; 2%Z] /\
    0 < get 0 G [0%Z; 2%Z; 0%Z] /\
    get 0 G [0%Z; 2%Z; 0%Z] * IZR (get 0%Z (snd (w2 final_state nsweep)) [0%Z; 2%Z; 0%Z]) < 0.
Proof.
  destruct (proj2 (fteik2d_raises_iff w2_slow 1 1 (1 / 4) (1 / 2) nsweep true) w2_inside) as [[[tt G] v] E].
  exists tt, G, v. split; [exact E|].
  destruct w2_init as (_ & Hget & S0 & _).
  destruct (fteik2d_gradient_assembly _ _ _ _ _ _ _ _ _ E) as [Et _].
  destruct (fteik2d_gradient_sign_iff w2_slow 1 1 (1 / 4) (1 / 2) nsweep tt G v ltac:(lra) ltac:(lra) E 0%Z 2%Z
              ltac:(cbn; lia) ltac:(cbn; lia))
    as [Sz _].
  cbv zeta in Sz. rewrite w2_final_snd in Sz |- *. rewrite w2_final_fst in Et. rewrite S0 in Sz |- *.
  specialize (Sz ltac:(lia)). change (0 - -1)%Z with 1%Z in Sz.
  assert (T0 : get 0 tt [0%Z; 2%Z] = w2_ta 0 2) by (rewrite Et; apply Hget; lia).
  assert (T1 : get 0 tt [1%Z; 2%Z] = w2_ta 1 2) by (rewrite Et; apply Hget; lia).
  assert (L : get 0 tt [0%Z; 2%Z] < get 0 tt [1%Z; 2%Z]) by (rewrite T0, T1; apply w2_ta_lt).
  split; [reflexivity|]. split; [exact T0|]. split; [exact T1|]. split; [exact L|].
  pose proof (proj2 (proj2 Sz) L) as N. change (IZR (-1)) with (-1) in N. split; lra.
Qed.

(* the premises of sweep_upwind_partial are satisfiable: same grid as above with node (0,1) reached (8/5): the 4-point
   operator is admissible and gives 14/5, not earlier than tv = 8/5 and te = 6/5 *)
Example sweep_upwind_partial_ex :
  let r := sweep (ex_tt (8 / 5) (6 / 5)) ex_sgn ex_slow (dargs_of 1 1) 100 100 100 100 2 1 1 1 1 1 1 2 2 true in
  upwind 2 2 (fst r) (snd r).
Proof.
  unfold dargs_of.
  apply (sweep_upwind_partial 2 2); try lra.
  - split; [split; [reflexivity | repeat constructor; lia] | reflexivity].
  - apply w1_sgn_inv.
  - unfold dirp. lia.
  - unfold dirp. lia.
  - unfold nonneg, ex_slow. cbn [dat]. repeat constructor; lra.
  - intros i j Hi Hj. unfold upwind_at, ex_sgn.
    rewrite !get_full by (cbn [inb_sh]; repeat (apply andb_true_intro; split);
                          first [reflexivity | apply Z.leb_le; lia | apply Z.ltb_lt; lia]).
    split; intros H; exfalso; apply H; reflexivity.
  - intros _. unfold sweep_t2d, nb_v, nb_e, nb_ev, cell_s. cbv zeta.
    change (get 0 (ex_tt (8 / 5) (6 / 5)) [(1 - 1)%Z; 1%Z]) with (8 / 5).
    change (get 0 (ex_tt (8 / 5) (6 / 5)) [1%Z; (1 - 1)%Z]) with (6 / 5).
    change (get 0 (ex_tt (8 / 5) (6 / 5)) [(1 - 1)%Z; (1 - 1)%Z]) with 0.
    change (get 0 ex_slow [(1 - 1)%Z; (1 - 1)%Z]) with 2.
    rewrite (proj2 (outside_box_true 100 100 1 1)) by (left; unfold epsin; rewrite Rabs_left; lra).
    unfold plane_t2d. rewrite (proj2 (adm4_true (8 / 5) (6 / 5) 0 2 1 1)) by lra.
    pose proof four_point_exact_ex as F.
    replace (0 + 2 * (4 / 5) * 1) with (8 / 5) in F by lra. replace (0 + 2 * (3 / 5) * 1) with (6 / 5) in F by lra.
    rewrite F. lra.
Qed.

(* ------------------------------------------------------------------------------------------ *)
(* REFUTATION 3 (whole solve on binary64, the generated solver run by vm_compute; default nsweep = 2, source ON a node *)
(* so that the initialisation records no sign).  1 x 6 cells of slowness 2, 4, 1/2, 2, 2, 4, dz = 1/2, dx = 4, source  *)
(* at the node (0,0).  Node (1,6) lies 6 columns from the source (plane-wave branch): in the first pass it is written by *)
(* the 4-point operator with tv = te = Big (not reached), tev = 42 - admissible - and gets 45.9691 with signs (+1, +1);  *)
(* its z neighbour (0,6) only comes down to 47.9066 and stays LATER; the returned z component is negative (-0.9688).     *)
(* The same numbers come out of the Python implementation (numba), for nsweep = 2, 3, 10.                               *)
(* ------------------------------------------------------------------------------------------ *)
Module FloatWitness.
Import Coq.Floats.PrimFloat.
Module PF := Coq.Floats.PrimFloat.
Definition fslow : arr float := mkarr [1%Z; 6%Z] [2; 4; 0.5; 2; 2; 4]%float.
Definition run := fteik2d (T := float) fslow 0.5%float 4%float 0%float 0%float 2 true.
Definition st := final_state (T := float) fslow 0.5%float 4%float 0%float 0%float 2.
Definition check : bool :=
  match run with
  | Ok (t, G, _) =>
      (get 0%Z (snd st) [1%Z; 6%Z; 0%Z] =? 1)%Z &&
      PF.ltb (get 0%float t [1%Z; 6%Z]) (get 0%float t [0%Z; 6%Z]) &&
      PF.ltb (get 0%float G [1%Z; 6%Z; 0%Z]) (-0.96875)%float && PF.ltb (-1)%float (get 0%float G [1%Z; 6%Z; 0%Z]) &&
      PF.ltb 47.875%float (get 0%float t [0%Z; 6%Z]) && PF.ltb (get 0%float t [1%Z; 6%Z]) 46%float
  | _ => false
  end.
Example wrong_sign_binary64 : check = true.
Proof. vm_compute. reflexivity. Qed.
End FloatWitness.

Print Assumptions asm2_value.
Print Assumptions fteik2d_gradient_assembly.
Print Assumptions fteik2d_gradient_sign_iff.
Print Assumptions fteik2d_gradient_sign_partial.
Print Assumptions sweep_upwind_partial.
Print Assumptions sweep_breaks_upwind.
Print Assumptions four_point_not_causal.
Print Assumptions ex_sweep2d_fixed.
Print Assumptions init_breaks_upwind.
Print Assumptions fteik2d_gradient_wrong_sign.
Print Assumptions FloatWitness.wrong_sign_binary64.
