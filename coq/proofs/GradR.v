(* Exact-arithmetic facts about the gradient normalisation (C11): dividing a vector by its norm gives a unit vector. *)
From Coq Require Import ZArith List Bool Reals Lra Psatz.
From FT.lib Require Import Num Arr.
From FT.gen Require Import Common.
Open Scope R_scope.

Lemma norm2d_R a b : norm2d (T:=R) a b = sqrt (a * a + b * b).
Proof. reflexivity. Qed.
Lemma norm3d_R a b c : norm3d (T:=R) a b c = sqrt (a * a + b * b + c * c).
Proof. reflexivity. Qed.

Lemma norm2d_nonneg a b : 0 <= norm2d (T:=R) a b.
Proof. rewrite norm2d_R. apply sqrt_pos. Qed.

Lemma norm2d_normalised a b :
  0 < norm2d (T:=R) a b ->
  norm2d (T:=R) (a / norm2d (T:=R) a b) (b / norm2d (T:=R) a b) = 1.
Proof.
  rewrite !norm2d_R. intros Hn. set (n := sqrt (a * a + b * b)) in *.
  assert (Hs : n * n = a * a + b * b) by (unfold n; apply sqrt_sqrt; nra).
  replace (a / n * (a / n) + b / n * (b / n)) with ((a * a + b * b) / (n * n)) by (field; lra).
  rewrite <- Hs. replace (n * n / (n * n)) with 1 by (field; lra). apply sqrt_1.
Qed.

Lemma norm3d_normalised a b c :
  0 < norm3d (T:=R) a b c ->
  norm3d (T:=R) (a / norm3d (T:=R) a b c) (b / norm3d (T:=R) a b c) (c / norm3d (T:=R) a b c) = 1.
Proof.
  rewrite !norm3d_R. intros Hn. set (n := sqrt (a * a + b * b + c * c)) in *.
  assert (Hs : n * n = a * a + b * b + c * c) by (unfold n; apply sqrt_sqrt; nra).
  replace (a / n * (a / n) + b / n * (b / n) + c / n * (c / n)) with ((a * a + b * b + c * c) / (n * n)) by (field; lra).
  rewrite <- Hs. replace (n * n / (n * n)) with 1 by (field; lra). apply sqrt_1.
Qed.

(* norm is zero exactly for the zero vector: the code's test `gn > 0` fails only there *)
Lemma norm2d_zero_iff a b : norm2d (T:=R) a b = 0 <-> a = 0 /\ b = 0.
Proof.
  rewrite norm2d_R. split.
  - intros H0. apply sqrt_eq_0 in H0; [|nra]. split; nra.
  - intros [-> ->]. replace (0 * 0 + 0 * 0) with 0 by ring. apply sqrt_0.
Qed.
