(* The mesh-export definitions GENERATED from the source (gen/IoGen.v, by tools/py2coq/iogen.py from fteikpy/_io.py)
   coincide with the hand-written model (model/MeshIO.v) for all inputs; where coordinates are involved, for every
   numeric type (no algebraic law of the numeric type is used, so the association of `arange(n) * d + x0` is part of
   what is proved).  The structural facts (unpack order, argument binding, what happens to `points` afterwards) are
   quoted from the generated data.
   Nothing is imported unqualified from IoGen / MeshIO: every name below says which side it comes from. *)
From Coq Require Import String ZArith List Bool Lia.
From FT.lib Require Import Num.
From FT.gen Require IoGen.
From FT.model Require MeshIO.
Import ListNotations.
Open Scope Z_scope.

(* ------------------------------------------------------------------ list lemmas *)
Lemma map_flat_map' (A B C : Type) (f : A -> list B) (g : B -> C) l :
  map g (flat_map f l) = flat_map (fun a => map g (f a)) l.
Proof. induction l as [|a l IH]; simpl; [reflexivity|]. rewrite map_app, IH. reflexivity. Qed.
Lemma flat_map_map' (A B C : Type) (f : A -> B) (g : B -> list C) l :
  flat_map g (map f l) = flat_map (fun a => g (f a)) l.
Proof. induction l as [|a l IH]; simpl; [reflexivity|]. rewrite IH. reflexivity. Qed.
Lemma flat_map_ext' (A B : Type) (f g : A -> list B) l : (forall a, f a = g a) -> flat_map f l = flat_map g l.
Proof. intros E. induction l as [|a l IH]; simpl; [reflexivity|]. rewrite E, IH. reflexivity. Qed.
Lemma flat_map_singleton (A B : Type) (f : A -> B) l : flat_map (fun a => [f a]) l = map f l.
Proof. induction l as [|a l IH]; simpl; [reflexivity|]. rewrite IH. reflexivity. Qed.
Lemma map_id' (A : Type) (l : list A) : map (fun k => k) l = l.
Proof. induction l as [|a l IH]; simpl; [reflexivity|]. rewrite IH. reflexivity. Qed.

(* np.arange(n) is the model's range0 *)
Lemma gen_arange_eq n : IoGen.arange n = MeshIO.range0 n.
Proof. reflexivity. Qed.

(* ------------------------------------------------------------------ 1. the inner meshgrid functions *)
(* 2D: indexing='ij', order='F': the FIRST axis runs fastest; row p = [X[p]; Y[p]] *)
Theorem gen_mesh2d_meshgrid_eq (A : Type) (xs ys : list A) :
  IoGen.mesh2d_meshgrid [xs; ys] = flat_map (fun y => map (fun x => [x; y]) xs) ys.
Proof.
  unfold IoGen.mesh2d_meshgrid, IoGen.np_meshgrid_rows, IoGen.cart.
  cbn [IoGen.sel flat_map nth_error app rev IoGen.cart_C map].
  rewrite !map_flat_map'. apply flat_map_ext'. intros y.
  rewrite flat_map_singleton, !map_map. reflexivity.
Qed.
(* 3D: indexing='ij', order='C': the LAST axis runs fastest; row p = [X[p]; Y[p]; Z[p]] *)
Theorem gen_mesh3d_meshgrid_eq (A : Type) (xs ys zs : list A) :
  IoGen.mesh3d_meshgrid [xs; ys; zs]
  = flat_map (fun x => flat_map (fun y => map (fun z => [x; y; z]) zs) ys) xs.
Proof.
  unfold IoGen.mesh3d_meshgrid, IoGen.np_meshgrid_rows, IoGen.cart.
  cbn [IoGen.sel flat_map nth_error app rev IoGen.cart_C map].
  rewrite !map_flat_map'. apply flat_map_ext'. intros x.
  rewrite !map_flat_map'. apply flat_map_ext'. intros y.
  rewrite flat_map_singleton, !map_map. reflexivity.
Qed.

Section Eq.
Context {T : Type} {N : Num T}.

(* ------------------------------------------------------------------ 2. node coordinates: arange(n + 1) * d + x0 *)
Theorem gen_mesh2d_dx_node_eq nx ny (dx dy x0 y0 : T) k :
  IoGen.mesh2d_dx_node nx ny dx dy x0 y0 k = nadd (nmul (nofZ k) dx) x0.
Proof. reflexivity. Qed.
Theorem gen_mesh2d_dy_node_eq nx ny (dx dy x0 y0 : T) k :
  IoGen.mesh2d_dy_node nx ny dx dy x0 y0 k = nadd (nmul (nofZ k) dy) y0.
Proof. reflexivity. Qed.
Theorem gen_mesh3d_dx_node_eq nx ny nz (dx dy dz x0 y0 z0 : T) k :
  IoGen.mesh3d_dx_node nx ny nz dx dy dz x0 y0 z0 k = nadd (nmul (nofZ k) dx) x0.
Proof. reflexivity. Qed.
Theorem gen_mesh3d_dy_node_eq nx ny nz (dx dy dz x0 y0 z0 : T) k :
  IoGen.mesh3d_dy_node nx ny nz dx dy dz x0 y0 z0 k = nadd (nmul (nofZ k) dy) y0.
Proof. reflexivity. Qed.
Theorem gen_mesh3d_dz_node_eq nx ny nz (dx dy dz x0 y0 z0 : T) k :
  IoGen.mesh3d_dz_node nx ny nz dx dy dz x0 y0 z0 k = nadd (nmul (nofZ k) dz) z0.
Proof. reflexivity. Qed.
(* one node more than cells along every axis *)
Theorem gen_mesh_node_counts nx ny nz (dx dy dz x0 y0 z0 : T) :
  IoGen.mesh2d_dx_len nx ny dx dy x0 y0 = nx + 1 /\ IoGen.mesh2d_dy_len nx ny dx dy x0 y0 = ny + 1
  /\ IoGen.mesh3d_dx_len nx ny nz dx dy dz x0 y0 z0 = nx + 1 /\ IoGen.mesh3d_dy_len nx ny nz dx dy dz x0 y0 z0 = ny + 1
  /\ IoGen.mesh3d_dz_len nx ny nz dx dy dz x0 y0 z0 = nz + 1.
Proof. repeat split; reflexivity. Qed.
(* the node arrays themselves *)
Theorem gen_mesh2d_axes_eq nx ny (dx dy x0 y0 : T) :
  IoGen.mesh2d_dx nx ny dx dy x0 y0 = map (fun k => nadd (nmul (nofZ k) dx) x0) (MeshIO.range0 (nx + 1))
  /\ IoGen.mesh2d_dy nx ny dx dy x0 y0 = map (fun k => nadd (nmul (nofZ k) dy) y0) (MeshIO.range0 (ny + 1)).
Proof. split; reflexivity. Qed.
Theorem gen_mesh3d_axes_eq nx ny nz (dx dy dz x0 y0 z0 : T) :
  IoGen.mesh3d_dx nx ny nz dx dy dz x0 y0 z0 = map (fun k => nadd (nmul (nofZ k) dx) x0) (MeshIO.range0 (nx + 1))
  /\ IoGen.mesh3d_dy nx ny nz dx dy dz x0 y0 z0 = map (fun k => nadd (nmul (nofZ k) dy) y0) (MeshIO.range0 (ny + 1))
  /\ IoGen.mesh3d_dz nx ny nz dx dy dz x0 y0 z0 = map (fun k => nadd (nmul (nofZ k) dz) z0) (MeshIO.range0 (nz + 1)).
Proof. repeat split; reflexivity. Qed.

(* the extents handed to ravel_multi_index (nodes) and to the cell aranges (cells) *)
Theorem gen_mesh_shapes nx ny nz (dx dy dz x0 y0 z0 : T) :
  IoGen.mesh2d_xy_shape nx ny dx dy x0 y0 = [nx + 1; ny + 1] /\ IoGen.mesh2d_ij_shape nx ny dx dy x0 y0 = [nx; ny]
  /\ IoGen.mesh3d_xyz_shape nx ny nz dx dy dz x0 y0 z0 = [nx + 1; ny + 1; nz + 1]
  /\ IoGen.mesh3d_ijk_shape nx ny nz dx dy dz x0 y0 z0 = [nx; ny; nz].
Proof. repeat split; reflexivity. Qed.

(* ------------------------------------------------------------------ 3. corners of one cell, in order *)
Theorem gen_mesh2d_vertices_eq i j :
  IoGen.mesh2d_mesh_vertices i j = [[i; j]; [i + 1; j]; [i + 1; j + 1]; [i; j + 1]].
Proof. reflexivity. Qed.
Theorem gen_mesh3d_vertices_eq i j k :
  IoGen.mesh3d_mesh_vertices i j k
  = [[i; j; k]; [i + 1; j; k]; [i + 1; j + 1; k]; [i; j + 1; k];
     [i; j; k + 1]; [i + 1; j; k + 1]; [i + 1; j + 1; k + 1]; [i; j + 1; k + 1]].
Proof. reflexivity. Qed.

(* np.ravel_multi_index over the node extents, order 'F' (2D) / 'C' (3D), is the model's point numbering *)
Theorem gen_ravel_multi_index_2d_eq nx ny i j :
  IoGen.np_ravel_multi_index [i; j] [nx + 1; ny + 1] IoGen.OrdF = MeshIO.pidx2 nx i j.
Proof. cbv [IoGen.np_ravel_multi_index IoGen.rmi_C rev app MeshIO.pidx2]. ring. Qed.
Theorem gen_ravel_multi_index_3d_eq nx ny nz i j k :
  IoGen.np_ravel_multi_index [i; j; k] [nx + 1; ny + 1; nz + 1] IoGen.OrdC = MeshIO.pidx3 ny nz i j k.
Proof. cbv [IoGen.np_ravel_multi_index IoGen.rmi_C MeshIO.pidx3]. ring. Qed.

Ltac list_ring := repeat (apply (f_equal2 (@cons Z)); [ring|]); reflexivity.

Theorem gen_mesh2d_cell_eq nx ny (dx dy x0 y0 : T) i j :
  IoGen.mesh2d_cells_elt nx ny dx dy x0 y0 i j = MeshIO.corners2 nx i j.
Proof.
  cbv [IoGen.mesh2d_cells_elt IoGen.mesh2d_mesh_vertices IoGen.mesh2d_xy_shape IoGen.np_ravel_multi_index IoGen.rmi_C
       rev app map MeshIO.corners2 MeshIO.pidx2].
  list_ring.
Qed.
Theorem gen_mesh3d_cell_eq nx ny nz (dx dy dz x0 y0 z0 : T) i j k :
  IoGen.mesh3d_cells_elt nx ny nz dx dy dz x0 y0 z0 i j k = MeshIO.corners3 ny nz i j k.
Proof.
  cbv [IoGen.mesh3d_cells_elt IoGen.mesh3d_mesh_vertices IoGen.mesh3d_xyz_shape IoGen.np_ravel_multi_index IoGen.rmi_C
       rev app map MeshIO.corners3 MeshIO.pidx3].
  list_ring.
Qed.

(* ------------------------------------------------------------------ 4. all cells / all points, in the order produced *)
Theorem gen_mesh2d_cells_eq nx ny (dx dy x0 y0 : T) :
  IoGen.mesh2d_cells nx ny dx dy x0 y0 = MeshIO.cells2 nx ny.
Proof.
  unfold IoGen.mesh2d_cells, IoGen.mesh2d_I_J, IoGen.mesh2d_ij_shape, MeshIO.cells2.
  cbn [map]. rewrite !map_id', gen_mesh2d_meshgrid_eq, !gen_arange_eq.
  rewrite !map_flat_map'. apply flat_map_ext'. intros iz.
  rewrite !map_map. apply map_ext. intros ix.
  cbn [IoGen.sel flat_map nth_error app nth]. apply gen_mesh2d_cell_eq.
Qed.
Theorem gen_mesh3d_cells_eq nx ny nz (dx dy dz x0 y0 z0 : T) :
  IoGen.mesh3d_cells nx ny nz dx dy dz x0 y0 z0 = MeshIO.cells3 nx ny nz.
Proof.
  unfold IoGen.mesh3d_cells, IoGen.mesh3d_I_J_K, IoGen.mesh3d_ijk_shape, MeshIO.cells3.
  cbn [map]. rewrite !map_id', gen_mesh3d_meshgrid_eq, !gen_arange_eq.
  rewrite !map_flat_map'. apply flat_map_ext'. intros ix.
  rewrite !map_flat_map'. apply flat_map_ext'. intros iy.
  rewrite !map_map. apply map_ext. intros iz.
  cbn [IoGen.sel flat_map nth_error app nth]. apply gen_mesh3d_cell_eq.
Qed.

(* point number p has the coordinates of the node (ix, iz) the model lists at position p *)
Theorem gen_mesh2d_points_eq nx ny (dx dy x0 y0 : T) :
  IoGen.mesh2d_points nx ny dx dy x0 y0
  = map (fun p => [nadd (nmul (nofZ (fst p)) dx) x0; nadd (nmul (nofZ (snd p)) dy) y0]) (MeshIO.points2 nx ny).
Proof.
  unfold IoGen.mesh2d_points, IoGen.mesh2d_X_Y, MeshIO.points2.
  rewrite gen_mesh2d_meshgrid_eq.
  destruct (gen_mesh2d_axes_eq nx ny dx dy x0 y0) as [-> ->].
  rewrite flat_map_map'. rewrite !map_flat_map'. apply flat_map_ext'. intros iz.
  rewrite !map_map. apply map_ext. intros ix. reflexivity.
Qed.
Theorem gen_mesh3d_points_eq nx ny nz (dx dy dz x0 y0 z0 : T) :
  IoGen.mesh3d_points nx ny nz dx dy dz x0 y0 z0
  = map (fun p => [nadd (nmul (nofZ (fst (fst p))) dx) x0; nadd (nmul (nofZ (snd (fst p))) dy) y0;
                   nadd (nmul (nofZ (snd p)) dz) z0]) (MeshIO.points3 nx ny nz).
Proof.
  unfold IoGen.mesh3d_points, IoGen.mesh3d_X_Y_Z, MeshIO.points3.
  rewrite gen_mesh3d_meshgrid_eq.
  destruct (gen_mesh3d_axes_eq nx ny nz dx dy dz x0 y0 z0) as (-> & -> & ->).
  rewrite flat_map_map'. rewrite !map_flat_map'. apply flat_map_ext'. intros ix.
  rewrite flat_map_map'. rewrite !map_flat_map'. apply flat_map_ext'. intros iy.
  rewrite !map_map. apply map_ext. intros iz. reflexivity.
Qed.
End Eq.

(* ------------------------------------------------------------------ 5. the numbering: position pidx / cidx in those lists *)
Lemma nth_error_flat_map_blocks (A C : Type) (g : A -> list C) (L : nat) ys j i :
  (forall y, length (g y) = L) -> (i < L)%nat ->
  nth_error (flat_map g ys) (j * L + i) = match nth_error ys j with Some y => nth_error (g y) i | None => None end.
Proof.
  intros HL Hi. revert j. induction ys as [|y ys IH]; intros j.
  - simpl. destruct (j * L + i)%nat; destruct j; reflexivity.
  - destruct j as [|j]; simpl.
    + apply nth_error_app1. rewrite HL. exact Hi.
    + rewrite nth_error_app2 by (rewrite HL; lia).
      rewrite HL. replace (L + j * L + i - L)%nat with (j * L + i)%nat by lia. apply IH.
Qed.
Lemma length_range0 n : length (MeshIO.range0 n) = Z.to_nat n.
Proof. unfold MeshIO.range0. rewrite map_length, seq_length. reflexivity. Qed.
Lemma nth_error_range0 n k : 0 <= k < n -> nth_error (MeshIO.range0 n) (Z.to_nat k) = Some k.
Proof.
  intros Hk. unfold MeshIO.range0.
  rewrite nth_error_map, (nth_error_nth' _ 0%nat) by (rewrite seq_length; lia).
  rewrite seq_nth by lia. simpl. f_equal. lia.
Qed.

Lemma model_points2_nth nx nz ix iz : 0 <= ix <= nx -> 0 <= iz <= nz ->
  nth_error (MeshIO.points2 nx nz) (Z.to_nat (MeshIO.pidx2 nx ix iz)) = Some (ix, iz).
Proof.
  intros Hx Hz. unfold MeshIO.points2, MeshIO.pidx2.
  replace (Z.to_nat (ix + (nx + 1) * iz)) with (Z.to_nat iz * Z.to_nat (nx + 1) + Z.to_nat ix)%nat by nia.
  rewrite (@nth_error_flat_map_blocks _ _ _ (Z.to_nat (nx + 1))) by
    (try (intros; rewrite map_length, length_range0; reflexivity); lia).
  rewrite nth_error_range0 by lia. rewrite nth_error_map, nth_error_range0 by lia. reflexivity.
Qed.
Lemma model_cells2_nth nx nz ix iz : 0 <= ix < nx -> 0 <= iz < nz ->
  nth_error (MeshIO.cells2 nx nz) (Z.to_nat (MeshIO.cidx2 nx ix iz)) = Some (MeshIO.corners2 nx ix iz).
Proof.
  intros Hx Hz. unfold MeshIO.cells2, MeshIO.cidx2.
  replace (Z.to_nat (ix + nx * iz)) with (Z.to_nat iz * Z.to_nat nx + Z.to_nat ix)%nat by nia.
  rewrite (@nth_error_flat_map_blocks _ _ _ (Z.to_nat nx)) by
    (try (intros; rewrite map_length, length_range0; reflexivity); lia).
  rewrite nth_error_range0 by lia. rewrite nth_error_map, nth_error_range0 by lia. reflexivity.
Qed.
Lemma model_points3_nth nx ny nz ix iy iz : 0 <= ix <= nx -> 0 <= iy <= ny -> 0 <= iz <= nz ->
  nth_error (MeshIO.points3 nx ny nz) (Z.to_nat (MeshIO.pidx3 ny nz ix iy iz)) = Some (ix, iy, iz).
Proof.
  intros Hx Hy Hz. unfold MeshIO.points3, MeshIO.pidx3.
  replace (Z.to_nat ((ix * (ny + 1) + iy) * (nz + 1) + iz))
    with (Z.to_nat ix * (Z.to_nat (ny + 1) * Z.to_nat (nz + 1)) + (Z.to_nat iy * Z.to_nat (nz + 1) + Z.to_nat iz))%nat by nia.
  assert (Hin : forall x : Z, length (flat_map (fun iy0 => map (fun iz0 => (x, iy0, iz0)) (MeshIO.range0 (nz + 1)))
                                     (MeshIO.range0 (ny + 1))) = (Z.to_nat (ny + 1) * Z.to_nat (nz + 1))%nat).
  { intros x. rewrite <- (length_range0 (ny + 1)). induction (MeshIO.range0 (ny + 1)) as [|a l IH]; simpl; [reflexivity|].
    rewrite app_length, map_length, length_range0, IH. reflexivity. }
  rewrite (@nth_error_flat_map_blocks _ _ _ (Z.to_nat (ny + 1) * Z.to_nat (nz + 1))) by (try exact Hin; nia).
  rewrite nth_error_range0 by lia.
  rewrite (@nth_error_flat_map_blocks _ _ _ (Z.to_nat (nz + 1))) by
    (try (intros; rewrite map_length, length_range0; reflexivity); lia).
  rewrite nth_error_range0 by lia. rewrite nth_error_map, nth_error_range0 by lia. reflexivity.
Qed.
Lemma model_cells3_nth nx ny nz ix iy iz : 0 <= ix < nx -> 0 <= iy < ny -> 0 <= iz < nz ->
  nth_error (MeshIO.cells3 nx ny nz) (Z.to_nat (MeshIO.cidx3 ny nz ix iy iz)) = Some (MeshIO.corners3 ny nz ix iy iz).
Proof.
  intros Hx Hy Hz. unfold MeshIO.cells3, MeshIO.cidx3.
  replace (Z.to_nat ((ix * ny + iy) * nz + iz))
    with (Z.to_nat ix * (Z.to_nat ny * Z.to_nat nz) + (Z.to_nat iy * Z.to_nat nz + Z.to_nat iz))%nat by nia.
  assert (Hin : forall x : Z, length (flat_map (fun iy0 => map (fun iz0 => MeshIO.corners3 ny nz x iy0 iz0) (MeshIO.range0 nz))
                                     (MeshIO.range0 ny)) = (Z.to_nat ny * Z.to_nat nz)%nat).
  { intros x. rewrite <- (length_range0 ny). induction (MeshIO.range0 ny) as [|a l IH]; simpl; [reflexivity|].
    rewrite app_length, map_length, length_range0, IH. reflexivity. }
  rewrite (@nth_error_flat_map_blocks _ _ _ (Z.to_nat ny * Z.to_nat nz)) by (try exact Hin; nia).
  rewrite nth_error_range0 by lia.
  rewrite (@nth_error_flat_map_blocks _ _ _ (Z.to_nat nz)) by
    (try (intros; rewrite map_length, length_range0; reflexivity); lia).
  rewrite nth_error_range0 by lia. rewrite nth_error_map, nth_error_range0 by lia. reflexivity.
Qed.

Section Numbering.
Context {T : Type} {N : Num T}.
(* the meshgrid / ravel order of the source puts node (ix, iz) at point number pidx2, cell (ix, iz) at cidx2 *)
Theorem gen_mesh2d_point_number nx ny (dx dy x0 y0 : T) ix iz : 0 <= ix <= nx -> 0 <= iz <= ny ->
  nth_error (IoGen.mesh2d_points nx ny dx dy x0 y0) (Z.to_nat (MeshIO.pidx2 nx ix iz))
  = Some [nadd (nmul (nofZ ix) dx) x0; nadd (nmul (nofZ iz) dy) y0].
Proof. intros Hx Hz. rewrite gen_mesh2d_points_eq, nth_error_map, model_points2_nth by assumption. reflexivity. Qed.
Theorem gen_mesh2d_cell_number nx ny (dx dy x0 y0 : T) ix iz : 0 <= ix < nx -> 0 <= iz < ny ->
  nth_error (IoGen.mesh2d_cells nx ny dx dy x0 y0) (Z.to_nat (MeshIO.cidx2 nx ix iz)) = Some (MeshIO.corners2 nx ix iz).
Proof. intros Hx Hz. rewrite gen_mesh2d_cells_eq. apply model_cells2_nth; assumption. Qed.
Theorem gen_mesh3d_point_number nx ny nz (dx dy dz x0 y0 z0 : T) ix iy iz :
  0 <= ix <= nx -> 0 <= iy <= ny -> 0 <= iz <= nz ->
  nth_error (IoGen.mesh3d_points nx ny nz dx dy dz x0 y0 z0) (Z.to_nat (MeshIO.pidx3 ny nz ix iy iz))
  = Some [nadd (nmul (nofZ ix) dx) x0; nadd (nmul (nofZ iy) dy) y0; nadd (nmul (nofZ iz) dz) z0].
Proof. intros Hx Hy Hz. rewrite gen_mesh3d_points_eq, nth_error_map, model_points3_nth by assumption. reflexivity. Qed.
Theorem gen_mesh3d_cell_number nx ny nz (dx dy dz x0 y0 z0 : T) ix iy iz :
  0 <= ix < nx -> 0 <= iy < ny -> 0 <= iz < nz ->
  nth_error (IoGen.mesh3d_cells nx ny nz dx dy dz x0 y0 z0) (Z.to_nat (MeshIO.cidx3 ny nz ix iy iz))
  = Some (MeshIO.corners3 ny nz ix iy iz).
Proof. intros Hx Hy Hz. rewrite gen_mesh3d_cells_eq. apply model_cells3_nth; assumption. Qed.
End Numbering.

(* ------------------------------------------------------------------ 6. data ordering: _ravel_grid *)
(* 2D: grid.ravel() of an array indexed [iz, ix]; 3D: np.transpose(grid, [1, 2, 0]).ravel() of one indexed [iz, ix, iy] *)
Theorem gen_ravel_grid_2d_eq nzn ncols iz ix : IoGen.ravel_grid_2d [nzn; ncols] [iz; ix] = MeshIO.ravel2 ncols iz ix.
Proof. cbv [IoGen.ravel_grid_2d IoGen.np_ravel_multi_index IoGen.rmi_C MeshIO.ravel2]. ring. Qed.
Theorem gen_ravel_grid_3d_eq nzn nxn nyn iz ix iy :
  IoGen.ravel_grid_3d [nzn; nxn; nyn] [iz; ix; iy] = MeshIO.ravel3_t nyn nzn iz ix iy.
Proof.
  cbv [IoGen.ravel_grid_3d IoGen.np_ravel_multi_index IoGen.rmi_C IoGen.sel flat_map nth_error app MeshIO.ravel3_t]. ring.
Qed.
(* hence cell data (velocity, shape = cells) sits at the cell's number and point data (traveltime, shape = nodes) at
   the point's number *)
Corollary gen_ravel_grid_2d_cell nz nx iz ix : IoGen.ravel_grid_2d [nz; nx] [iz; ix] = MeshIO.cidx2 nx ix iz.
Proof. rewrite gen_ravel_grid_2d_eq. unfold MeshIO.ravel2, MeshIO.cidx2. ring. Qed.
Corollary gen_ravel_grid_2d_point nz nx iz ix : IoGen.ravel_grid_2d [nz + 1; nx + 1] [iz; ix] = MeshIO.pidx2 nx ix iz.
Proof. rewrite gen_ravel_grid_2d_eq. unfold MeshIO.ravel2, MeshIO.pidx2. ring. Qed.
Corollary gen_ravel_grid_3d_cell nz nx ny iz ix iy :
  IoGen.ravel_grid_3d [nz; nx; ny] [iz; ix; iy] = MeshIO.cidx3 ny nz ix iy iz.
Proof. rewrite gen_ravel_grid_3d_eq. reflexivity. Qed.
Corollary gen_ravel_grid_3d_point nz nx ny iz ix iy :
  IoGen.ravel_grid_3d [nz + 1; nx + 1; ny + 1] [iz; ix; iy] = MeshIO.pidx3 ny nz ix iy iz.
Proof. rewrite gen_ravel_grid_3d_eq. reflexivity. Qed.

(* ------------------------------------------------------------------ 7. rays *)
Lemma combine_firstn_l (A B : Type) (l : list A) (l' : list B) k :
  (length l' <= k)%nat -> combine (firstn k l) l' = combine l l'.
Proof.
  revert l' k. induction l as [|a l IH]; intros l' k Hk.
  - rewrite firstn_nil. reflexivity.
  - destruct l' as [|b l']; [destruct k; reflexivity|]. destruct k as [|k]; [simpl in Hk; lia|].
    simpl. f_equal. apply IH. simpl in Hk. lia.
Qed.
Lemma combine_seq_tl (A : Type) (g : nat -> A) s m :
  combine (map g (seq s (S m))) (map g (seq (S s) m)) = map (fun i => (g i, g (S i))) (seq s m).
Proof.
  revert s. induction m as [|m IH]; intros s; [reflexivity|].
  simpl. f_equal. exact (IH (S s)).
Qed.

Theorem gen_ray_cell_eq off n : IoGen.ray_cell off n = map (fun k => k + off) (MeshIO.range0 n).
Proof. reflexivity. Qed.
(* np.column_stack((cell[:-1], cell[1:])): consecutive vertices, offset by len(points) *)
Theorem gen_ray_segments_eq off n : IoGen.ray_segments off n = MeshIO.ray_segments off n.
Proof.
  unfold IoGen.ray_segments, IoGen.column_stack2, IoGen.slice_upto_neg, IoGen.slice_from, MeshIO.ray_segments.
  unfold IoGen.ray_cell, IoGen.ray_cell_len, IoGen.ray_cell_node, IoGen.arange, MeshIO.range0.
  rewrite !map_map. rewrite map_length, seq_length.
  change (Z.to_nat 1) with 1%nat.
  destruct (Z.to_nat n) as [|m] eqn:E.
  - replace (Z.to_nat (n - 1)) with 0%nat by lia. reflexivity.
  - replace (Z.to_nat (n - 1)) with m by lia.
    rewrite combine_firstn_l by (rewrite skipn_length, map_length, seq_length; lia).
    change (skipn 1 (map (fun x : nat => Z.of_nat x + off) (seq 0 (S m))))
      with (map (fun x : nat => Z.of_nat x + off) (seq 1 m)).
    rewrite combine_seq_tl. apply map_ext. intros i. f_equal; lia.
Qed.
(* len(points) after a ray: np.array(ray) when there was no point yet, np.vstack((points, ray)) otherwise *)
Theorem gen_ray_next_off_eq off n : IoGen.ray_next_off off n = off + n.
Proof. unfold IoGen.ray_next_off. destruct (Z.eqb_spec off 0); lia. Qed.
(* several rays: the offset is the running sum of the lengths of the preceding rays *)
Theorem gen_rays_cells_eq off lens : IoGen.rays_cells off lens = MeshIO.rays_segments off lens.
Proof.
  revert off. induction lens as [|n t IH]; intros off; [reflexivity|].
  cbn [IoGen.rays_cells MeshIO.rays_segments]. rewrite gen_ray_segments_eq, gen_ray_next_off_eq, IH. reflexivity.
Qed.
Theorem gen_ray_to_meshio_cells_eq lens : IoGen.ray_to_meshio_cells lens = MeshIO.rays_segments 0 lens.
Proof. apply gen_rays_cells_eq. Qed.

(* ------------------------------------------------------------------ structural facts, quoted from the generated data *)
Open Scope string_scope.

(* grid_to_meshio reads ndim / shape / gridsize / origin off the FIRST argument; they are unpacked z first (z, x[, y]) *)
Theorem gen_grid_first_arg :
  IoGen.grid_first_arg = [("ndim", "arg._ndim"); ("shape", "arg.shape"); ("gridsize", "arg.gridsize"); ("origin", "arg.origin")]
  /\ IoGen.grid_2d_unpack = [("shape", ["nz"; "nx"]); ("gridsize", ["dz"; "dx"]); ("origin", ["z0"; "x0"])]
  /\ IoGen.grid_3d_unpack = [("shape", ["nz"; "nx"; "ny"]); ("gridsize", ["dz"; "dx"; "dy"]); ("origin", ["z0"; "x0"; "y0"])].
Proof. repeat split; reflexivity. Qed.
(* a traveltime grid is node-based: one cell less than nodes along every axis *)
Theorem gen_grid_node_adjust :
  IoGen.grid_2d_node_adjust = ("isinstance(args[0], TraveltimeGrid2D)", ["nz -= 1"; "nx -= 1"])
  /\ IoGen.grid_3d_node_adjust = ("isinstance(args[0], TraveltimeGrid3D)", ["nz -= 1"; "nx -= 1"; "ny -= 1"]).
Proof. split; reflexivity. Qed.
(* the generators receive x first: in 2D their `y` axis is the caller's z axis (so the model's points2 nx nz is
   mesh2d_points nx nz dx dz x0 z0); in 3D the axes are (x, y, z) *)
Theorem gen_grid_2d_binding :
  IoGen.grid_2d_call = ("_generate_mesh_2d", ["nx"; "nz"; "dx"; "dz"; "x0"; "z0"])
  /\ IoGen.mesh2d_params = ["nx"; "ny"; "dx"; "dy"; "x0"; "y0"; "order='F'"]
  /\ IoGen.grid_2d_binding = [("nx", "nx"); ("ny", "nz"); ("dx", "dx"); ("dy", "dz"); ("x0", "x0"); ("y0", "z0")]
  /\ map snd IoGen.grid_2d_binding = snd IoGen.grid_2d_call.
Proof. repeat split; reflexivity. Qed.
Theorem gen_grid_3d_binding :
  IoGen.grid_3d_call = ("_generate_mesh_3d", ["nx"; "ny"; "nz"; "dx"; "dy"; "dz"; "x0"; "y0"; "z0"])
  /\ IoGen.mesh3d_params = ["nx"; "ny"; "nz"; "dx"; "dy"; "dz"; "x0"; "y0"; "z0"]
  /\ IoGen.grid_3d_binding = [("nx", "nx"); ("ny", "ny"); ("nz", "nz"); ("dx", "dx"); ("dy", "dy"); ("dz", "dz");
                              ("x0", "x0"); ("y0", "y0"); ("z0", "z0")]
  /\ map snd IoGen.grid_3d_binding = snd IoGen.grid_3d_call
  /\ map fst IoGen.grid_3d_binding = IoGen.mesh3d_params.
Proof. repeat split; reflexivity. Qed.
(* the inner meshgrid functions: 'ij' indexing; raveled in 'F' order in 2D (through the generator's own default) and in
   'C' order in 3D *)
Theorem gen_mesh_meshgrid_sig :
  IoGen.mesh2d_meshgrid_sig = ["x"; "y"; "indexing='ij'"; "order='F'"]
  /\ IoGen.mesh3d_meshgrid_sig = ["x"; "y"; "z"; "indexing='ij'"; "order='C'"].
Proof. split; reflexivity. Qed.
(* what the generators return: float coordinates, and ONE block of quad / hexahedron cells *)
Theorem gen_mesh_return :
  IoGen.mesh2d_return = ["np.array(points, dtype=float)"; "[('quad', np.array(cells))]"]
  /\ IoGen.mesh2d_celltype = "quad"
  /\ IoGen.mesh3d_return = ["np.array(points, dtype=float)"; "[('hexahedron', np.array(cells))]"]
  /\ IoGen.mesh3d_celltype = "hexahedron".
Proof. repeat split; reflexivity. Qed.
(* afterwards: 2D points (x, z) get a zero column and become (x, 0, z); then the third column (depth) changes sign *)
Theorem gen_grid_points_post :
  IoGen.grid_2d_points_post = ["points = np.column_stack((points, np.zeros(len(points))))"; "points = points[:, [0, 2, 1]]"]
  /\ IoGen.grid_3d_points_post = []
  /\ IoGen.grid_points_final = ["points[:, 2] *= -1.0"]
  /\ IoGen.grid_return = "meshio.Mesh(points, cells, point_data, cell_data)".
Proof. repeat split; reflexivity. Qed.
(* every data array goes through _ravel_grid: velocities as cell data, traveltimes and gradients as point data *)
Theorem gen_grid_data_arrays :
  IoGen.grid_data_arrays
  = ["cell_data[name] = [_ravel_grid(arg.grid, ndim)]"; "point_data[name] = _ravel_grid(arg.grid, ndim)";
     "gradient = np.column_stack([_ravel_grid(grad.grid, ndim) for grad in arg.gradient])"].
Proof. reflexivity. Qed.
(* rays: 'line' blocks; the points are stacked ray after ray, then (z, x[, y]) -> (x, y, -z) *)
Theorem gen_ray_context :
  IoGen.ray_celltype = "line"
  /\ IoGen.ray_points_update = "points = np.array(ray) if len(points) == 0 else np.vstack((points, ray))"
  /\ IoGen.ray_points_post
     = ["points = np.column_stack((points, np.zeros(len(points)))) if ndim == 2 else np.array(points)";
        "points = points[:, [1, 2, 0]]"; "points[:, 2] *= -1.0"]
  /\ IoGen.ray_return = "meshio.Mesh(points, cells)".
Proof. repeat split; reflexivity. Qed.

Print Assumptions gen_arange_eq.
Print Assumptions gen_mesh2d_meshgrid_eq.
Print Assumptions gen_mesh3d_meshgrid_eq.
Print Assumptions gen_mesh2d_dx_node_eq.
Print Assumptions gen_mesh2d_dy_node_eq.
Print Assumptions gen_mesh3d_dx_node_eq.
Print Assumptions gen_mesh3d_dy_node_eq.
Print Assumptions gen_mesh3d_dz_node_eq.
Print Assumptions gen_mesh_node_counts.
Print Assumptions gen_mesh2d_axes_eq.
Print Assumptions gen_mesh3d_axes_eq.
Print Assumptions gen_mesh_shapes.
Print Assumptions gen_mesh2d_vertices_eq.
Print Assumptions gen_mesh3d_vertices_eq.
Print Assumptions gen_ravel_multi_index_2d_eq.
Print Assumptions gen_ravel_multi_index_3d_eq.
Print Assumptions gen_mesh2d_cell_eq.
Print Assumptions gen_mesh3d_cell_eq.
Print Assumptions gen_mesh2d_cells_eq.
Print Assumptions gen_mesh3d_cells_eq.
Print Assumptions gen_mesh2d_points_eq.
Print Assumptions gen_mesh3d_points_eq.
Print Assumptions gen_mesh2d_point_number.
Print Assumptions gen_mesh2d_cell_number.
Print Assumptions gen_mesh3d_point_number.
Print Assumptions gen_mesh3d_cell_number.
Print Assumptions gen_ravel_grid_2d_eq.
Print Assumptions gen_ravel_grid_3d_eq.
Print Assumptions gen_ravel_grid_2d_cell.
Print Assumptions gen_ravel_grid_2d_point.
Print Assumptions gen_ravel_grid_3d_cell.
Print Assumptions gen_ravel_grid_3d_point.
Print Assumptions gen_ray_cell_eq.
Print Assumptions gen_ray_segments_eq.
Print Assumptions gen_ray_next_off_eq.
Print Assumptions gen_rays_cells_eq.
Print Assumptions gen_ray_to_meshio_cells_eq.
Print Assumptions gen_grid_first_arg.
Print Assumptions gen_grid_node_adjust.
Print Assumptions gen_grid_2d_binding.
Print Assumptions gen_grid_3d_binding.
Print Assumptions gen_mesh_meshgrid_sig.
Print Assumptions gen_mesh_return.
Print Assumptions gen_grid_points_post.
Print Assumptions gen_grid_data_arrays.
Print Assumptions gen_ray_context.
