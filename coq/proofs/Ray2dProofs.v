(* A posteriori 2D ray tracing (gen/Ray2d.v, source /repo/fteikpy/_fteik/_ray2d.py).

   Generic in the numeric type T unless stated otherwise:
     1. ray2d_core_outside, ray2d_outside_raises, ray2d_raises_value_error_iff,
        ray2d_nan_end_point_raises (binary64)
     2. ray2d_free_terminates      (honor_grid = false, fuel >= max_step + 1)
     3. ray2d_terminates / ray2d_honor_terminates
                                   (fuel >= (max_step + 1) * (nfree_max + 2) + 1, either mode)
     4. ray2d_core_count_range
     5. ray2d_core_endpoints, ray2d_1_endpoints
     6. ray2d_vertices_in_hull     (T := R; grid mode needs axis_ok, e.g. ascending axes)
     7. ray2d_vectorized_spec, ray2d_vectorized_as_singles,
        ray2d_list_raises_like_first_failing_single

   Method: ray2d_core_char exhibits the loop (cond, body, initial state) of the generated core and
   proves step_spec for one execution of the body; everything else only uses step_spec.
   The first part (sections While, Blocks, MapM) is generic and reused by Ray3dProofs.v. *)
From Coq Require Import ZArith List Bool Lia Reals Lra.
From FT.lib Require Import Num Arr ArrLemmas NumArr.
From FT.gen Require Import Common Interp2d FteikCommon Ray2d.
Import ListNotations.
Open Scope Z_scope.

(* ------------------------------------------------------------------------------------------ *)
(* while_fuel                                                                                   *)
(* ------------------------------------------------------------------------------------------ *)
Section While.
Context {S : Type}.
Variables (cond : S -> bool) (body : S -> ctl S).

(* partial-correctness rule *)
Lemma while_fuel_inv (P Q : S -> Prop) :
  (forall s s', P s -> cond s = true -> body s = Next s' -> P s') ->
  (forall s s', P s -> cond s = true -> body s = Brk s' -> Q s') ->
  (forall s, P s -> cond s = false -> Q s) ->
  forall fuel s0 s1, P s0 -> while_fuel fuel cond body s0 = Ok s1 -> Q s1.
Proof.
  intros HN HB HE. induction fuel as [|f IH]; intros s0 s1 H0 Hw; simpl in Hw; [discriminate|].
  destruct (cond s0) eqn:Ec.
  - destruct (body s0) as [s'|s'|e] eqn:Eb; try discriminate.
    + eapply IH; [|exact Hw]. eapply HN; eauto.
    + injection Hw as <-. eapply HB; eauto.
  - injection Hw as <-. apply HE; auto.
Qed.

(* a loop whose body never raises does not raise *)
Lemma while_fuel_no_raise (P : S -> Prop) :
  (forall s s', P s -> cond s = true -> body s = Next s' -> P s') ->
  (forall s e, P s -> cond s = true -> body s <> Exc e) ->
  forall fuel s0 e, P s0 -> while_fuel fuel cond body s0 <> Raise e.
Proof.
  intros HN HX. induction fuel as [|f IH]; intros s0 e H0; simpl; [discriminate|].
  destruct (cond s0) eqn:Ec; [|discriminate].
  destruct (body s0) as [s'|s'|e'] eqn:Eb; try discriminate.
  - apply IH. eapply HN; eauto.
  - exfalso. eapply HX; eauto.
Qed.

(* termination rule: a measure that strictly decreases on every continuing iteration bounds the
   number of iterations (in particular the loop cannot continue from a state of measure 0) *)
Lemma while_fuel_measure (m : S -> nat) (P : S -> Prop) :
  (forall s s', P s -> cond s = true -> body s = Next s' -> P s' /\ (m s' < m s)%nat) ->
  forall fuel s0, P s0 -> (m s0 < fuel)%nat -> while_fuel fuel cond body s0 <> OutOfFuel.
Proof.
  intros HN. induction fuel as [|f IH]; intros s0 H0 Hm; [lia|]. simpl.
  destruct (cond s0) eqn:Ec; [|discriminate].
  destruct (body s0) as [s'|s'|e'] eqn:Eb; try discriminate.
  destruct (HN s0 s' H0 Ec Eb) as [HP Hlt]. apply IH; auto. lia.
Qed.
End While.

(* ------------------------------------------------------------------------------------------ *)
(* row blocks of a 2-D array: set_sub, get_sub, rev_prefix                                      *)
(* ------------------------------------------------------------------------------------------ *)
Section Blocks.
Context {A : Type}.
Implicit Types (a s : arr A) (l : list A).

Lemma upd_block_length l : forall vs n, length (upd_block l n vs) = length l.
Proof.
  intros vs; revert l. induction vs as [|v vs IH]; intros l n; simpl; [reflexivity|].
  rewrite IH. apply upd_length.
Qed.

Lemma nth_upd_block_out d : forall vs l n m,
  (m < n \/ n + length vs <= m)%nat -> nth m (upd_block l n vs) d = nth m l d.
Proof.
  induction vs as [|v vs IH]; intros l n m Hm; simpl in *; [reflexivity|].
  rewrite IH by lia. apply nth_upd_other. lia.
Qed.

Lemma nth_upd_block_in d : forall vs l n m,
  (n + length vs <= length l)%nat -> (n <= m < n + length vs)%nat ->
  nth m (upd_block l n vs) d = nth (m - n) vs d.
Proof.
  induction vs as [|v vs IH]; intros l n m Hl Hm; simpl in *; [lia|].
  destruct (Nat.eq_dec m n) as [->|Hne].
  - rewrite nth_upd_block_out by lia. rewrite Nat.sub_diag. apply nth_upd_same. lia.
  - rewrite IH by (rewrite ?upd_length; lia).
    replace (m - n)%nat with (Datatypes.S (m - Datatypes.S n)) by lia. reflexivity.
Qed.

Lemma shape_set_sub a idx s : shape (set_sub a idx s) = shape a.
Proof. reflexivity. Qed.

Lemma wf_set_sub a idx s : wf a -> wf (set_sub a idx s).
Proof. intros [H1 H2]. split; simpl; auto. rewrite upd_block_length. exact H1. Qed.

Lemma flat2 n w k c : flat [n; w] [k; c] = k * w + c.
Proof. unfold flat. simpl. lia. Qed.
Lemma flat1 w c : flat [w] [c] = c.
Proof. unfold flat. simpl. lia. Qed.

Lemma get1 d s w c : shape s = [w] -> get d s [c] = nth (Z.to_nat c) (dat s) d.
Proof. intros E. unfold get. rewrite E, flat1. reflexivity. Qed.

Lemma wf2_length a n w : shape a = [n; w] -> wf a -> 0 <= n -> 0 <= w ->
  length (dat a) = Z.to_nat (n * w).
Proof. intros E [Hl _] Hn Hw. rewrite Hl, E. unfold prodZ. simpl. f_equal. lia. Qed.

(* reading a row block that was just stored / another row *)
Lemma get_set_sub_row d a s n w k k' c :
  shape a = [n; w] -> wf a -> 0 <= k < n -> 0 <= k' < n -> 0 <= c < w ->
  length (dat s) = Z.to_nat w ->
  get d (set_sub a [k] s) [k'; c] =
  if k' =? k then nth (Z.to_nat c) (dat s) d else get d a [k'; c].
Proof.
  intros E Hwf Hk Hk' Hc Hs.
  pose proof (wf2_length a n w E Hwf ltac:(lia) ltac:(lia)) as Hlen.
  unfold get, set_sub. simpl shape. simpl dat. rewrite E, flat2.
  assert (Eo : sub_off [n; w] [k] = k * w).
  { unfold sub_off, flat. simpl. unfold prodZ. simpl. lia. }
  rewrite Eo.
  assert (Hfit : (Z.to_nat (k * w) + length (dat s) <= length (dat a))%nat).
  { rewrite Hs, Hlen. assert (k * w + w <= n * w) by nia.
    rewrite <- Z2Nat.inj_add by nia. apply Z2Nat.inj_le; nia. }
  destruct (Z.eqb_spec k' k) as [->|Hne].
  - rewrite nth_upd_block_in; auto.
    + f_equal. rewrite <- Z2Nat.inj_sub by nia. f_equal. lia.
    + rewrite Hs. rewrite <- Z2Nat.inj_add by nia. split; [apply Z2Nat.inj_le; nia|apply Z2Nat.inj_lt; nia].
  - apply nth_upd_block_out. rewrite Hs. rewrite <- Z2Nat.inj_add by nia.
    destruct (Z_lt_le_dec k' k); [left; apply Z2Nat.inj_lt; nia|right; apply Z2Nat.inj_le; nia].
Qed.

Lemma get_set_sub_same d a s n w k c :
  shape a = [n; w] -> wf a -> 0 <= k < n -> 0 <= c < w -> shape s = [w] ->
  length (dat s) = Z.to_nat w ->
  get d (set_sub a [k] s) [k; c] = get d s [c].
Proof.
  intros E Hwf Hk Hc Es Hs. rewrite (get_set_sub_row d a s n w k k c) by (auto; lia).
  rewrite Z.eqb_refl. symmetry. apply get1 with (w := w). exact Es.
Qed.

Lemma get_set_sub_other d a s n w k k' c :
  shape a = [n; w] -> wf a -> 0 <= k < n -> 0 <= k' < n -> k' <> k -> 0 <= c < w ->
  length (dat s) = Z.to_nat w ->
  get d (set_sub a [k] s) [k'; c] = get d a [k'; c].
Proof.
  intros E Hwf Hk Hk' Hne Hc Hs. rewrite (get_set_sub_row d a s n w k k' c) by auto.
  destruct (Z.eqb_spec k' k); [contradiction|reflexivity].
Qed.

(* ---- rev_prefix ---- *)
Lemma nth_firstn_lt d : forall l (k c : nat), (c < k)%nat -> nth c (firstn k l) d = nth c l d.
Proof.
  induction l as [|h t IH]; intros [|k] [|c] Hc; simpl; try lia; auto. apply IH. lia.
Qed.
Lemma nth_skipn_add d : forall l (m c : nat), nth c (skipn m l) d = nth (m + c) l d.
Proof.
  induction l as [|h t IH]; intros [|m] c; simpl; auto. destruct c; reflexivity.
Qed.
Lemma length_firstn_skipn l (k m : nat) : (m + k <= length l)%nat -> length (firstn k (skipn m l)) = k.
Proof. intros Hl. rewrite firstn_length, skipn_length. lia. Qed.

Lemma nth_concat_uniform d (w : nat) : forall (L : list (list A)) (i c : nat),
  Forall (fun r => length r = w) L -> (i < length L)%nat -> (c < w)%nat ->
  nth (i * w + c) (concat L) d = nth c (nth i L []) d.
Proof.
  induction L as [|r L IH]; intros i c HF Hi Hc; simpl in Hi; [lia|].
  apply Forall_cons_iff in HF. destruct HF as [Hr HF']. simpl concat. destruct i as [|i].
  - simpl. apply app_nth1. lia.
  - rewrite app_nth2 by (rewrite Hr; simpl; lia).
    replace (Datatypes.S i * w + c - length r)%nat with (i * w + c)%nat by (rewrite Hr; simpl; lia).
    simpl nth. apply IH; auto. lia.
Qed.

Lemma shape_rev_prefix a n w count : shape a = [n; w] -> shape (rev_prefix a count) = [count + 1; w].
Proof. intros E. unfold rev_prefix, dim. rewrite E. reflexivity. Qed.

Lemma get_rev_prefix d a n w count i c :
  shape a = [n; w] -> wf a -> 0 <= count < n -> 0 <= i <= count -> 0 <= c < w ->
  get d (rev_prefix a count) [i; c] = get d a [count - i; c].
Proof.
  intros E Hwf Hcn Hi Hc.
  pose proof (wf2_length a n w E Hwf ltac:(lia) ltac:(lia)) as Hlen.
  unfold get at 1. rewrite (shape_rev_prefix a n w count E), flat2.
  unfold rev_prefix. cbv zeta. cbn [dat].
  set (rows := map (fun r : nat => dat (get_sub a [Z.of_nat r])) (seq 0 (Z.to_nat (count + 1)))).
  assert (Hrow : forall r : nat, (r < Z.to_nat (count + 1))%nat ->
            dat (get_sub a [Z.of_nat r]) =
            firstn (Z.to_nat w) (skipn (Z.to_nat (Z.of_nat r * w)) (dat a))).
  { intros r Hr. unfold get_sub. rewrite E. simpl.
    assert (Eo : sub_off [n; w] [Z.of_nat r] = Z.of_nat r * w).
    { unfold sub_off, flat. simpl. unfold prodZ. simpl. lia. }
    rewrite Eo. unfold prodZ. simpl. rewrite Z.mul_1_r. reflexivity. }
  assert (Hrl : length rows = Z.to_nat (count + 1)).
  { unfold rows. rewrite map_length, seq_length. reflexivity. }
  assert (HF : Forall (fun r => length r = Z.to_nat w) (rev rows)).
  { apply Forall_forall. intros r Hr. apply in_rev in Hr. unfold rows in Hr.
    apply in_map_iff in Hr. destruct Hr as (q & <- & Hq). apply in_seq in Hq.
    rewrite Hrow by lia. apply length_firstn_skipn. rewrite Hlen.
    rewrite <- Z2Nat.inj_add by nia. apply Z2Nat.inj_le; nia. }
  replace (Z.to_nat (i * w + c)) with (Z.to_nat i * Z.to_nat w + Z.to_nat c)%nat
    by (rewrite Z2Nat.inj_add, Z2Nat.inj_mul by nia; reflexivity).
  rewrite (nth_concat_uniform d (Z.to_nat w)); auto; [|rewrite rev_length, Hrl; lia|lia].
  rewrite rev_nth by lia. rewrite Hrl.
  replace (Z.to_nat (count + 1) - Datatypes.S (Z.to_nat i))%nat with (Z.to_nat (count - i)) by lia.
  unfold rows.
  rewrite (nth_indep _ [] (dat (get_sub a [Z.of_nat 0%nat]))) by (rewrite map_length, seq_length; lia).
  rewrite (map_nth (fun r : nat => dat (get_sub a [Z.of_nat r]))).
  rewrite seq_nth by lia. simpl plus.
  rewrite Hrow by lia. rewrite nth_firstn_lt by lia. rewrite nth_skipn_add.
  unfold get. rewrite E, flat2. f_equal. nia.
Qed.
End Blocks.

(* ------------------------------------------------------------------------------------------ *)
(* mapM / find_exc                                                                              *)
(* ------------------------------------------------------------------------------------------ *)
Section MapM.
Context {A B : Type}.

Lemma mapM_all_ok (f : A -> res B) (g : A -> B) (l : list A) :
  (forall a, In a l -> f a = Ok (g a)) -> mapM f l = Ok (map g l).
Proof.
  induction l as [|a t IH]; intros Hf; simpl; [reflexivity|].
  rewrite (Hf a (or_introl eq_refl)). simpl. rewrite IH by (intros; apply Hf; right; auto).
  reflexivity.
Qed.

Lemma mapM_ok_length (f : A -> res B) : forall l bs, mapM f l = Ok bs -> length bs = length l.
Proof.
  induction l as [|a t IH]; intros bs Hm; simpl in Hm.
  - injection Hm as <-. reflexivity.
  - destruct (f a) as [b| |]; simpl in Hm; try discriminate.
    destruct (mapM f t) as [bs'| |]; simpl in Hm; try discriminate.
    injection Hm as <-. simpl. f_equal. apply IH. reflexivity.
Qed.

Lemma mapM_ok_iff (f : A -> res B) : forall l bs,
  mapM f l = Ok bs <-> Forall2 (fun a b => f a = Ok b) l bs.
Proof.
  induction l as [|a t IH]; intros bs; simpl.
  - split; intros Hm; [injection Hm as <-; constructor|inversion Hm; reflexivity].
  - split.
    + intros Hm. destruct (f a) as [b| |] eqn:Ea; simpl in Hm; try discriminate.
      destruct (mapM f t) as [bs'| |] eqn:Et; simpl in Hm; try discriminate.
      injection Hm as <-. constructor; auto. apply IH. reflexivity.
    + intros Hm. inversion Hm as [|? b ? bs' Ha Ht]; subst. rewrite Ha. simpl.
      apply IH in Ht. rewrite Ht. reflexivity.
Qed.

(* the first failing item decides, provided no item runs out of fuel *)
Lemma mapM_raise_iff (f : A -> res B) : forall l e,
  (forall a, In a l -> f a <> OutOfFuel) ->
  (mapM f l = Raise e <->
   exists l1 a l2, l = l1 ++ a :: l2 /\ (forall b, In b l1 -> exists v, f b = Ok v) /\ f a = Raise e).
Proof.
  induction l as [|a t IH]; intros e Hn; simpl.
  - split; [discriminate|]. intros (l1 & a & l2 & E & _). destruct l1; discriminate.
  - assert (Hn' : forall b, In b t -> f b <> OutOfFuel) by (intros; apply Hn; right; auto).
    specialize (IH e Hn'). destruct (f a) as [b|e'|] eqn:Ea; simpl.
    + split.
      * intros Hm. destruct (mapM f t) as [bs| |] eqn:Et; simpl in Hm; try discriminate.
        apply IH in Hm. destruct Hm as (l1 & a' & l2 & -> & H1 & H2).
        exists (a :: l1), a', l2. split; [reflexivity|]. split; auto.
        intros b' [<-|Hb]; eauto.
      * intros (l1 & a' & l2 & E & H1 & H2). destruct l1 as [|c l1]; simpl in E; injection E as -> ->.
        { congruence. }
        assert (Ht : mapM f (l1 ++ a' :: l2) = Raise e).
        { apply IH. exists l1, a', l2. split; auto. split; auto. intros; apply H1; right; auto. }
        rewrite Ht. reflexivity.
    + split.
      * intros Hm. injection Hm as ->. exists [], a, t. split; [reflexivity|]. split; [intros ? []|exact Ea].
      * intros (l1 & a' & l2 & E & H1 & H2). destruct l1 as [|c l1]; simpl in E; injection E as -> ->.
        { congruence. }
        destruct (H1 c (or_introl eq_refl)) as [v Hv]. congruence.
    + exfalso. exact (Hn a (or_introl eq_refl) Ea).
Qed.
End MapM.

Lemma pyrange_0_up n : pyrange 0 n 1 = map Z.of_nat (seq 0 (Z.to_nat n)).
Proof.
  unfold pyrange. change (0 <? 1) with true. cbv iota.
  replace ((n - 0 + 1 - 1) / 1) with n by (rewrite Z.div_1_r; lia).
  apply map_ext. intros k. lia.
Qed.

(* the validation loop `for i in range(n): if items[i] fails: raise` finds the first failing item *)
Fixpoint first_exc {X} (f : X -> option exn) (l : list X) : option exn :=
  match l with
  | [] => None
  | a :: t => match f a with Some e => Some e | None => first_exc f t end
  end.

Lemma find_exc_nth {X} (f : X -> option exn) (dflt : X) : forall (l2 l1 : list X),
  find_exc (fun i => f (nth (Z.to_nat i) (l1 ++ l2) dflt))
           (map Z.of_nat (seq (length l1) (length l2))) = first_exc f l2.
Proof.
  induction l2 as [|a t IH]; intros l1; simpl; [reflexivity|].
  rewrite Nat2Z.id. rewrite app_nth2 by lia. rewrite Nat.sub_diag. simpl.
  destruct (f a); [reflexivity|].
  specialize (IH (l1 ++ [a])). rewrite <- app_assoc in IH. simpl in IH.
  rewrite app_length in IH. simpl in IH. rewrite Nat.add_1_r in IH. exact IH.
Qed.

Lemma find_exc_range {X} (f : X -> option exn) (dflt : X) (l : list X) n :
  length l = Z.to_nat n ->
  find_exc (fun i => f (nth (Z.to_nat i) l dflt)) (pyrange 0 n 1) = first_exc f l.
Proof.
  intros Hl. rewrite pyrange_0_up, <- Hl. exact (find_exc_nth f dflt l []).
Qed.

(* ------------------------------------------------------------------------------------------ *)
(* tactics to walk through a generated body without expanding its lets                          *)
(* ------------------------------------------------------------------------------------------ *)
(* goal  P (let x := v in b)  becomes  P b  with a local definition x := v *)
Ltac pull_let :=
  lazymatch goal with
  | |- ?P (let x := ?v in @?b x) => change (let x := v in P (b x)); cbv beta; intro
  end.
Ltac pull_lets := repeat pull_let.
(* goal  P (if c then a else b) : case analysis on c *)
Ltac head_if E :=
  lazymatch goal with
  | |- ?P (if ?c then _ else _) => destruct c eqn:E
  end.
(* unfold a let-bound continuation at the head:  P (k args)  with  k := fun .. => ..  in the context *)
Ltac head_unfold :=
  lazymatch goal with
  | |- ?P (?f ?a) => is_var f; let body := eval cbv delta [f] in f in change (P (body a)); cbv beta
  end.
Ltac walk := repeat first [pull_let | head_unfold].
(* same for the left-hand side of an equation *)
Ltac pull_let_eq :=
  lazymatch goal with
  | |- (let x := ?v in @?b x) = ?r => change (let x := v in b x = r); cbv beta; intro
  end.

(* ------------------------------------------------------------------------------------------ *)
(* the 2D core                                                                                  *)
(* ------------------------------------------------------------------------------------------ *)
Section Core2.
Context {T : Type} `{Num T}.

(* loop state of _ray2d_core: (count, delta, lower, nfree, pcur, ray, upper) *)
Definition St2 : Type := (Z * arr T * arr T * Z * arr T * arr T * arr T)%type.
Definition s_count (s : St2) : Z := fst (fst (fst (fst (fst (fst s))))).
Definition s_delta (s : St2) : arr T := snd (fst (fst (fst (fst (fst s))))).
Definition s_lower (s : St2) : arr T := snd (fst (fst (fst (fst s)))).
Definition s_nfree (s : St2) : Z := snd (fst (fst (fst s))).
Definition s_pcur (s : St2) : arr T := snd (fst (fst s)).
Definition s_ray (s : St2) : arr T := snd (fst s).
Definition s_upper (s : St2) : arr T := snd s.

(* the code's hull test  z[0] <= zend <= z[-1] and x[0] <= xend <= x[-1] *)
Definition hull2 (z x : arr T) (zend xend : T) : bool :=
  ((nleb (get (nofZ 0) z [0]) zend) && (nleb zend (get (nofZ 0) z [(dim z 0%nat - 1)]))) &&
  ((nleb (get (nofZ 0) x [0]) xend) && (nleb xend (get (nofZ 0) x [(dim x 0%nat - 1)]))).
(* nfree_max as computed by the code *)
Definition nfree_max2 (z x : arr T) (stepsize : T) : Z :=
  (ntrunc (ndiv (Common.dist2d (get (nofZ 0) z [0]) (get (nofZ 0) x [0])
                               (get (nofZ 0) z [(dim z 0%nat - 1)]) (get (nofZ 0) x [(dim x 0%nat - 1)]))
                stepsize)) + 1.
(* min(max(a, lo), hi) against the ends of an axis *)
Definition clamp (ax : arr T) (a : T) : T :=
  pymin2 (pymax2 a (get (nofZ 0) ax [0])) (get (nofZ 0) ax [(dim ax 0%nat - 1)]).

(* a 1-D array with two entries *)
Definition vec2 (p : arr T) : Prop := shape p = [2] /\ length (dat p) = 2%nat.

Lemma vec2_set p i v : vec2 p -> vec2 (set p i v).
Proof. intros [H1 H2]. split; simpl; auto. rewrite upd_length. exact H2. Qed.
Lemma vec2_amap2 (f : T -> T -> T) p q : vec2 p -> length (dat q) = 2%nat -> vec2 (amap2 f p q).
Proof.
  intros [H1 H2] Hq. split; simpl; auto.
  destruct (dat p) as [|a [|b [|]]]; try discriminate.
  destruct (dat q) as [|a' [|b' [|]]]; try discriminate. reflexivity.
Qed.
Lemma vec2_of_list (a b : T) : vec2 (of_list [a; b]).
Proof. split; reflexivity. Qed.
Lemma vec2_wf p : vec2 p -> wf p.
Proof. intros [H1 H2]. split; rewrite H1; [rewrite H2; reflexivity|]. repeat constructor; lia. Qed.
Lemma get_set2 d p a b : vec2 p ->
  get d (set (set p [0] a) [1] b) [0] = a /\ get d (set (set p [0] a) [1] b) [1] = b.
Proof.
  intros [H1 H2]. destruct p as [sh l]. simpl in *. subst sh.
  destruct l as [|u [|v [|]]]; try discriminate. split; reflexivity.
Qed.
Lemma get_of_list2 d (a b : T) : get d (of_list [a; b]) [0] = a /\ get d (of_list [a; b]) [1] = b.
Proof. split; reflexivity. Qed.

(* invariant of the auxiliary vectors *)
Definition InvS (hg : bool) (s : St2) : Prop :=
  vec2 (s_pcur s) /\ length (dat (s_delta s)) = 2%nat /\
  (hg = true -> vec2 (s_lower s) /\ vec2 (s_upper s)).

(* the stored point is the result of the two clamps *)
Definition clamped (z x p : arr T) : Prop :=
  (exists a, get (nofZ 0) p [0] = clamp z a) /\ (exists b, get (nofZ 0) p [1] = clamp x b).

(* grid magnetism: component ix is kept or snapped to the lower / upper cell boundary *)
Definition magnet_of (lo up p p' : arr T) (ix : Z) : Prop :=
  get (nofZ 0) p' [ix] = get (nofZ 0) p [ix] \/
  get (nofZ 0) p' [ix] = get (nofZ 0) lo [ix] \/ get (nofZ 0) p' [ix] = get (nofZ 0) up [ix].
(* cell boundaries recomputed from a coordinate q on an axis *)
Definition cell (ax : arr T) (q lo_v up_v : T) : Prop :=
  let i := searchsorted_right ax q - 1 in
  lo_v = (if neqb q (get (nofZ 0) ax [i]) then get (nofZ 0) ax [Z.max (i - 1) 0] else get (nofZ 0) ax [i]) /\
  up_v = get (nofZ 0) ax [Z.min (i + 1) (dim ax 0%nat - 1)].
Definition cells (z x : arr T) (p lo up : arr T) : Prop :=
  cell z (get (nofZ 0) p [0]) (get (nofZ 0) lo [0]) (get (nofZ 0) up [0]) /\
  cell x (get (nofZ 0) p [1]) (get (nofZ 0) lo [1]) (get (nofZ 0) up [1]).

(* one execution of the loop body: a plain break, a stored vertex, or a free step *)
Definition step_spec (hg : bool) (max_step nfmax : Z) (z x : arr T) (s : St2) (r : ctl St2) : Prop :=
  r = Brk s \/
  (s_count s < max_step /\ s_nfree s <= nfmax /\
   exists s', InvS hg s' /\
     ((hg = false /\ r = Next s' /\ s_count s' = s_count s + 1 /\ s_nfree s' = s_nfree s /\
       s_ray s' = set_sub (s_ray s) [s_count s] (s_pcur s') /\ clamped z x (s_pcur s')) \/
      (hg = true /\ (r = Next s' \/ r = Brk s') /\ s_count s' = s_count s + 1 /\ s_nfree s' = 0 /\
       s_ray s' = set_sub (s_ray s) [s_count s] (s_pcur s') /\
       (exists p, (magnet_of (s_lower s) (s_upper s) p (s_pcur s') 0 /\
                   magnet_of (s_lower s) (s_upper s) p (s_pcur s') 1) /\ vec2 p /\ clamped z x p) /\
       cells z x (s_pcur s') (s_lower s') (s_upper s')) \/
      (hg = true /\ r = Next s' /\ s_count s' = s_count s /\ s_nfree s' = s_nfree s + 1 /\
       s_ray s' = s_ray s /\ s_lower s' = s_lower s /\ s_upper s' = s_upper s))).

(* what the function returns after the loop *)
Definition fin2 (zsrc xsrc : T) (max_step nfmax : Z) (s : St2) : res (arr T * Z) :=
  if (max_step <=? s_count s) || (nfmax <? s_nfree s) then Ok (s_ray s, -2)
  else Ok (set_sub (s_ray s) [s_count s] (of_list [zsrc; xsrc]), s_count s).

Lemma if_negb_true {A} (c : bool) (a b r : A) : c = true -> b = r -> (if negb c then a else b) = r.
Proof. intros -> <-. reflexivity. Qed.

Lemma magnet_vec2 (lower upper : arr T) (l : list Z) p (body : Z -> arr T -> arr T) :
  (forall ix q, vec2 q -> vec2 (body ix q)) -> vec2 p -> vec2 (for_list l body p).
Proof. intros Hb Hp. apply for_list_inv; auto. Qed.

Lemma St2_eta (s : St2) :
  (s_count s, s_delta s, s_lower s, s_nfree s, s_pcur s, s_ray s, s_upper s) = s.
Proof. destruct s as [[[[[[? ?] ?] ?] ?] ?] ?]. reflexivity. Qed.
Lemma len2_set (a : arr T) i v : length (dat a) = 2%nat -> length (dat (set a i v)) = 2%nat.
Proof. intros E. simpl. rewrite upd_length. exact E. Qed.
Lemma len2_amap (f : T -> T) (a : arr T) : length (dat a) = 2%nat -> length (dat (amap f a)) = 2%nat.
Proof. intros E. simpl. rewrite map_length. exact E. Qed.
Lemma vec2_for_list (l : list Z) (body : Z -> arr T -> arr T) p :
  (forall ix q, vec2 q -> vec2 (body ix q)) -> vec2 p -> vec2 (for_list l body p).
Proof. intros Hb Hp. apply for_list_inv; auto. Qed.
Lemma clamped_intro z x p a b : vec2 p -> clamped z x (set (set p [0] (clamp z a)) [1] (clamp x b)).
Proof.
  intros Hp. destruct (get_set2 (nofZ 0) p (clamp z a) (clamp x b) Hp) as [G0 G1].
  split; [exists a; exact G0|exists b; exact G1].
Qed.

Lemma get_set_vec2 d p v : vec2 p ->
  get d (set p [0] v) [0] = v /\ get d (set p [0] v) [1] = get d p [1] /\
  get d (set p [1] v) [1] = v /\ get d (set p [1] v) [0] = get d p [0].
Proof.
  intros [H1 H2]. destruct p as [sh l]. simpl in *. subst sh.
  destruct l as [|u [|w [|]]]; try discriminate. repeat split; reflexivity.
Qed.

Lemma magnet_for_list lo up (body : Z -> arr T -> arr T) p :
  (forall ix q, body ix q = q \/ body ix q = set q [ix] (get (nofZ 0) lo [ix]) \/
                body ix q = set q [ix] (get (nofZ 0) up [ix])) ->
  vec2 p ->
  magnet_of lo up p (for_list (pyrange 0 2 1) body p) 0 /\
  magnet_of lo up p (for_list (pyrange 0 2 1) body p) 1.
Proof.
  intros Hb Hp. change (pyrange 0 2 1) with [0; 1]. unfold for_list. simpl fold_left.
  assert (H0 : vec2 (body 0 p) /\ magnet_of lo up p (body 0 p) 0 /\
               get (nofZ 0) (body 0 p) [1] = get (nofZ 0) p [1]).
  { unfold magnet_of. destruct (Hb 0 p) as [E|[E|E]]; rewrite E.
    - auto.
    - destruct (get_set_vec2 (nofZ 0) p (get (nofZ 0) lo [0]) Hp) as (G1 & G2 & _).
      split; [apply vec2_set; exact Hp|]. rewrite G1, G2. auto.
    - destruct (get_set_vec2 (nofZ 0) p (get (nofZ 0) up [0]) Hp) as (G1 & G2 & _).
      split; [apply vec2_set; exact Hp|]. rewrite G1, G2. auto. }
  destruct H0 as (Hq & M0 & K1). set (q := body 0 p) in *.
  unfold magnet_of in *. destruct (Hb 1 q) as [E|[E|E]]; rewrite E.
  - rewrite K1. auto.
  - destruct (get_set_vec2 (nofZ 0) q (get (nofZ 0) lo [1]) Hq) as (_ & _ & G3 & G4).
    rewrite G3, G4. auto.
  - destruct (get_set_vec2 (nofZ 0) q (get (nofZ 0) up [1]) Hq) as (_ & _ & G3 & G4).
    rewrite G3, G4. auto.
Qed.

Lemma cells_intro z x p lo up :
  vec2 lo -> vec2 up ->
  let i := searchsorted_right z (get (nofZ 0) p [0]) - 1 in
  let j := searchsorted_right x (get (nofZ 0) p [1]) - 1 in
  cells z x p
    (set (set lo [0] (if neqb (get (nofZ 0) p [0]) (get (nofZ 0) z [i])
                      then get (nofZ 0) z [Z.max (i - 1) 0] else get (nofZ 0) z [i]))
         [1] (if neqb (get (nofZ 0) p [1]) (get (nofZ 0) x [j])
              then get (nofZ 0) x [Z.max (j - 1) 0] else get (nofZ 0) x [j]))
    (set (set up [0] (get (nofZ 0) z [Z.min (i + 1) (dim z 0%nat - 1)]))
         [1] (get (nofZ 0) x [Z.min (j + 1) (dim x 0%nat - 1)])).
Proof.
  intros Hl Hu i j. unfold cells, cell.
  match goal with |- context [set (set lo [0] ?a) [1] ?b] =>
    destruct (get_set2 (nofZ 0) lo a b Hl) as [L0 L1] end.
  match goal with |- context [set (set up [0] ?a) [1] ?b] =>
    destruct (get_set2 (nofZ 0) up a b Hu) as [U0 U1] end.
  rewrite L0, L1, U0, U1. repeat split; reflexivity.
Qed.

Ltac leaf_open Ebud :=
  lazymatch goal with
  | |- step_spec _ _ _ _ _ _ (_ ?tup) =>
     right; apply orb_false_elim in Ebud;
     let E1 := fresh "Eb1" in let E2 := fresh "Eb2" in
     destruct Ebud as [E1 E2]; apply Z.leb_gt in E1; apply Z.ltb_ge in E2;
     split; [exact E1|]; split; [exact E2|]; exists tup
  end.
Ltac solve_vec2 Hp Hd :=
  repeat first
    [ exact Hp | exact Hd | match goal with Hx : _ |- _ => exact Hx end
    | apply len2_set | apply len2_amap | apply vec2_set | apply vec2_amap2
    | apply vec2_for_list;
      [ let ix := fresh "ix" in let q := fresh "q" in let Hq := fresh "Hq" in
        intros ix q Hq; cbv beta zeta;
        repeat (match goal with |- context [if ?c then _ else _] => destruct c end);
        repeat apply vec2_set; exact Hq | ] ].

Ltac honor_inv Hp Hd :=
  split; [|split; [|intros _; split]]; cbn [s_pcur s_delta s_lower s_upper fst snd]; solve_vec2 Hp Hd.
Ltac honor_vertex Hp Hd Hl Hu :=
  split; [reflexivity|]; split; [reflexivity|]; split; [reflexivity|];
  cbn [s_pcur s_lower s_upper fst snd];
  split;
  [ eexists; split;
    [ apply magnet_for_list;
      [ let ix := fresh "ix" in let q := fresh "q" in
        intros ix q; cbv beta zeta;
        repeat (match goal with |- context [if ?c then _ else _] => destruct c end); auto
      | solve_vec2 Hp Hd ]
    | split; [solve_vec2 Hp Hd | apply clamped_intro; solve_vec2 Hp Hd] ]
  | apply cells_intro; [exact Hl|exact Hu] ].

Section Char.
Variables (z x zgrad xgrad : arr T) (zend xend zsrc xsrc stepsize : T) (max_step : Z) (hg : bool).

(* carrier used to walk through the generated definition before choosing the witnesses *)
Definition ign {X} (G : Prop) (r : X) : Prop := G.

Definition core_char_stmt : Prop :=
  exists (cond : St2 -> bool) (body : St2 -> ctl St2) (s0 : St2),
    (forall fuel,
       u_ray2d_core_v fuel z x zgrad xgrad zend xend zsrc xsrc stepsize max_step hg =
       rbind (while_fuel fuel cond body s0) (fin2 zsrc xsrc max_step (nfree_max2 z x stepsize))) /\
    (s_count s0 = 1 /\ s_nfree s0 = 0 /\ s_pcur s0 = of_list [zend; xend] /\
     s_ray s0 = set_sub (full [max_step; 2] (nofZ 0)) [0] (of_list [zend; xend]) /\ InvS hg s0 /\
     (hg = true -> cells z x (of_list [zend; xend]) (s_lower s0) (s_upper s0))) /\
    (forall s, InvS hg s -> step_spec hg max_step (nfree_max2 z x stepsize) z x s (body s)).

(* NB: `unfold` zeta-normalises, which would expand every let of the loop body; the walk below
   only uses `cbv beta delta [...]`, `change`, `intro` and `destruct`. *)
Lemma ray2d_core_char : hull2 z x zend xend = true -> core_char_stmt.
Proof.
  intros Hh.
  change (ign core_char_stmt
            (u_ray2d_core_v 0%nat z x zgrad xgrad zend xend zsrc xsrc stepsize max_step hg)).
  cbv beta delta [u_ray2d_core_v]. pull_lets.
  lazymatch goal with |- ign ?G (if _ then _ else ?e) => change (ign G e) end.
  pull_lets.
  repeat match goal with v := _ |- _ => subst v end.
  lazymatch goal with |- ign _ (rbind (while_fuel _ ?C ?B ?s0) _) =>
    change core_char_stmt; cbv beta delta [core_char_stmt]; exists C, B, s0 end.
  split; [|split].
  - intros fuel. cbv beta delta [u_ray2d_core_v].
    repeat pull_let_eq.
    apply if_negb_true; [exact Hh|].
    repeat pull_let_eq.
    repeat match goal with v := _ |- _ => subst v end.
    reflexivity.
  - split; [reflexivity|]. split; [reflexivity|]. split; [reflexivity|]. split; [reflexivity|].
    split; [split; [apply vec2_of_list|split; [reflexivity|]]|].
    + intros Ehg. rewrite Ehg. split; split; reflexivity.
    + intros Ehg. rewrite Ehg. split; split; reflexivity.
  - intros s Hs. destruct Hs as (Hp & Hd & Hlu). cbv beta. pull_lets. head_if Ebud.
    + left. exact (f_equal Brk (St2_eta s)).
    + pull_lets. head_if Egn.
      * pull_lets. head_if Ehg.
        -- destruct (Hlu eq_refl) as [Hl Hu]. pull_lets. head_if Efac.
           ++ pull_lets. head_if Esrc.
              ** leaf_open Ebud. split; [honor_inv Hp Hd|].
                 right. left. split; [reflexivity|]. split; [right; reflexivity|]. honor_vertex Hp Hd Hl Hu.
              ** walk. leaf_open Ebud. split; [honor_inv Hp Hd|].
                 right. left. split; [reflexivity|]. split; [left; reflexivity|]. honor_vertex Hp Hd Hl Hu.
           ++ walk. leaf_open Ebud. split; [honor_inv Hp Hd|].
              right. right. repeat split; auto.
        -- walk. leaf_open Ebud.
           split; [split; [|split; [|intros; discriminate]]; cbn [s_pcur s_delta fst snd]; solve_vec2 Hp Hd|].
           left. repeat split; try reflexivity.
           all: cbn [s_pcur fst snd]; apply clamped_intro; solve_vec2 Hp Hd.
      * left. exact (f_equal Brk (St2_eta s)).
Qed.
End Char.

(* ---------- consequences of step_spec ---------- *)
Definition progress (hg : bool) (max_step nfmax : Z) (z x : arr T) (s s' : St2) : Prop :=
  s_count s < max_step /\ s_nfree s <= nfmax /\ InvS hg s' /\
  ((hg = false /\ s_count s' = s_count s + 1 /\ s_nfree s' = s_nfree s /\
    s_ray s' = set_sub (s_ray s) [s_count s] (s_pcur s') /\ clamped z x (s_pcur s')) \/
   (hg = true /\ s_count s' = s_count s + 1 /\ s_nfree s' = 0 /\
    s_ray s' = set_sub (s_ray s) [s_count s] (s_pcur s') /\
    (exists p, (magnet_of (s_lower s) (s_upper s) p (s_pcur s') 0 /\
                magnet_of (s_lower s) (s_upper s) p (s_pcur s') 1) /\ vec2 p /\ clamped z x p) /\
    cells z x (s_pcur s') (s_lower s') (s_upper s')) \/
   (hg = true /\ s_count s' = s_count s /\ s_nfree s' = s_nfree s + 1 /\ s_ray s' = s_ray s /\
    s_lower s' = s_lower s /\ s_upper s' = s_upper s)).

Lemma step_spec_next hg ms nf z x s s' : step_spec hg ms nf z x s (Next s') -> progress hg ms nf z x s s'.
Proof.
  intros [E|(H1 & H2 & t & Ht & Hc)]; [discriminate|].
  destruct Hc as [(A & B & C)|[(A & B & C)|(A & B & C)]].
  - injection B as <-. split; [exact H1|]. split; [exact H2|]. split; [exact Ht|]. left. tauto.
  - destruct B as [B|B]; [|discriminate]. injection B as <-.
    split; [exact H1|]. split; [exact H2|]. split; [exact Ht|]. right; left. tauto.
  - injection B as <-. split; [exact H1|]. split; [exact H2|]. split; [exact Ht|]. right; right. tauto.
Qed.
Lemma step_spec_brk hg ms nf z x s s' :
  step_spec hg ms nf z x s (Brk s') -> s' = s \/ progress hg ms nf z x s s'.
Proof.
  intros [E|(H1 & H2 & t & Ht & Hc)]; [injection E as <-; left; reflexivity|]. right.
  destruct Hc as [(A & B & C)|[(A & B & C)|(A & B & C)]]; try discriminate.
  destruct B as [B|B]; [discriminate|]. injection B as <-.
  split; [exact H1|]. split; [exact H2|]. split; [exact Ht|]. right; left. tauto.
Qed.
Lemma step_spec_exc hg ms nf z x s e : step_spec hg ms nf z x s (Exc e) -> False.
Proof.
  intros [E|(H1 & H2 & t & Ht & Hc)]; [discriminate|].
  destruct Hc as [(A & B & C)|[(A & [B|B] & C)|(A & B & C)]]; discriminate.
Qed.

(* the loop, abstractly: any cond and a body satisfying step_spec *)
Section Loop.
Variables (hg : bool) (max_step nfmax : Z) (z x : arr T).
Variables (cond : St2 -> bool) (body : St2 -> ctl St2).
Hypothesis Hstep : forall s, InvS hg s -> step_spec hg max_step nfmax z x s (body s).

Lemma loop_inv (P : St2 -> Prop) :
  (forall s s', P s -> InvS hg s -> progress hg max_step nfmax z x s s' -> P s') ->
  forall fuel s0 s1, InvS hg s0 -> P s0 -> while_fuel fuel cond body s0 = Ok s1 -> InvS hg s1 /\ P s1.
Proof.
  intros HP fuel s0 s1 Hi0 H0 Hw.
  apply (while_fuel_inv cond body (fun s => InvS hg s /\ P s) (fun s => InvS hg s /\ P s)) with (4 := conj Hi0 H0) (5 := Hw).
  - intros s s' [Hi Hp] _ Eb. pose proof (Hstep s Hi) as Hs. rewrite Eb in Hs.
    apply step_spec_next in Hs. split; [apply Hs|]. eapply HP; eauto.
  - intros s s' [Hi Hp] _ Eb. pose proof (Hstep s Hi) as Hs. rewrite Eb in Hs.
    apply step_spec_brk in Hs. destruct Hs as [->|Hs]; [tauto|]. split; [apply Hs|]. eapply HP; eauto.
  - tauto.
Qed.

Lemma loop_no_raise fuel s0 e : InvS hg s0 -> while_fuel fuel cond body s0 <> Raise e.
Proof.
  intros Hi0. apply (while_fuel_no_raise cond body (InvS hg)); auto.
  - intros s s' Hi _ Eb. pose proof (Hstep s Hi) as Hs. rewrite Eb in Hs.
    apply step_spec_next in Hs. apply Hs.
  - intros s e' Hi _ Eb. pose proof (Hstep s Hi) as Hs. rewrite Eb in Hs.
    exact (step_spec_exc _ _ _ _ _ _ _ Hs).
Qed.

(* lexicographic measure (remaining budget, remaining free steps) *)
Definition lexm (s : St2) : nat :=
  (Z.to_nat (max_step - s_count s) * (Z.to_nat nfmax + 2) + Z.to_nat (nfmax + 1 - s_nfree s))%nat.

Lemma progress_lexm s s' : progress hg max_step nfmax z x s s' -> (lexm s' < lexm s)%nat.
Proof.
  intros (H1 & H2 & _ & Hc). unfold lexm.
  assert (Ea : exists a, Z.to_nat (max_step - s_count s) = Datatypes.S a /\
                         Z.to_nat (max_step - (s_count s + 1)) = a).
  { exists (Z.to_nat (max_step - s_count s - 1)). split; lia. }
  destruct Ea as (a & Ea1 & Ea2).
  destruct Hc as [(A & B & C & _)|[(A & B & C & _)|(A & B & C & _)]].
  - rewrite B, C, Ea1, Ea2. simpl. lia.
  - rewrite B, C, Ea1, Ea2. simpl. lia.
  - rewrite B, C. assert (Z.to_nat (nfmax + 1 - (s_nfree s + 1)) < Z.to_nat (nfmax + 1 - s_nfree s))%nat by lia.
    lia.
Qed.

Lemma loop_terminates fuel s0 : InvS hg s0 -> (lexm s0 < fuel)%nat -> while_fuel fuel cond body s0 <> OutOfFuel.
Proof.
  intros Hi0 Hf. apply (while_fuel_measure cond body lexm (InvS hg)); auto.
  intros s s' Hi _ Eb. pose proof (Hstep s Hi) as Hs. rewrite Eb in Hs.
  apply step_spec_next in Hs. split; [apply Hs|]. apply progress_lexm; auto.
Qed.

(* free mode: the budget alone is a measure *)
Definition budm (s : St2) : nat := Z.to_nat (max_step - s_count s).
Lemma loop_terminates_free fuel s0 :
  hg = false -> InvS hg s0 -> (budm s0 < fuel)%nat -> while_fuel fuel cond body s0 <> OutOfFuel.
Proof.
  intros Ehg Hi0 Hf. apply (while_fuel_measure cond body budm (InvS hg)); auto.
  intros s s' Hi _ Eb. pose proof (Hstep s Hi) as Hs. rewrite Eb in Hs.
  apply step_spec_next in Hs. split; [apply Hs|].
  destruct Hs as (H1 & H2 & _ & [(A & B & C & _)|[(A & _)|(A & _)]]); try congruence.
  unfold budm. rewrite B. lia.
Qed.
End Loop.

Lemma if_negb_false {A} (c : bool) (a b r : A) : c = false -> a = r -> (if negb c then a else b) = r.
Proof. intros -> <-. reflexivity. Qed.

Lemma fin2_ok zsrc xsrc ms nf s : exists rc, fin2 zsrc xsrc ms nf s = Ok rc.
Proof. unfold fin2. destruct (_ || _); eexists; reflexivity. Qed.

(* ------------------------------------------------------------------------------------------ *)
(* theorems about _ray2d_core / _ray2d                                                          *)
(* ------------------------------------------------------------------------------------------ *)
Section Thm.
Variables (z x zgrad xgrad : arr T) (zend xend zsrc xsrc stepsize : T) (max_step : Z) (hg : bool).
Notation core fuel := (u_ray2d_core_v fuel z x zgrad xgrad zend xend zsrc xsrc stepsize max_step hg).
Notation single fuel := (u_ray2d_v fuel z x zgrad xgrad zend xend zsrc xsrc stepsize max_step hg).

(* 1a *)
Theorem ray2d_core_outside :
  hull2 z x zend xend = false -> forall fuel, core fuel = Ok (full [max_step; 2] (nofZ 0), -1).
Proof.
  intros Hh fuel. cbv beta delta [u_ray2d_core_v]. repeat pull_let_eq.
  apply if_negb_false; [exact Hh|reflexivity].
Qed.

Theorem ray2d_outside_raises : hull2 z x zend xend = false -> forall fuel, single fuel = Raise ValueError.
Proof. intros Hh fuel. unfold u_ray2d_v. rewrite ray2d_core_outside by exact Hh. reflexivity. Qed.

(* the core itself never raises *)
Lemma ray2d_core_no_raise fuel e : core fuel <> Raise e.
Proof.
  destruct (hull2 z x zend xend) eqn:Hh.
  - destruct (ray2d_core_char z x zgrad xgrad zend xend zsrc xsrc stepsize max_step hg Hh)
      as (cond & body & s0 & Heq & (_ & _ & _ & _ & Hi0 & Hcell0) & Hstep).
    rewrite Heq. destruct (while_fuel fuel cond body s0) as [s1| |] eqn:Ew; simpl; try discriminate.
    + destruct (fin2_ok zsrc xsrc max_step (nfree_max2 z x stepsize) s1) as [rc ->]. discriminate.
    + exfalso. eapply loop_no_raise; eauto.
  - rewrite ray2d_core_outside by exact Hh. discriminate.
Qed.

(* 4 *)
Theorem ray2d_core_count_range fuel ray count :
  core fuel = Ok (ray, count) ->
  (count = -1 \/ count = -2 \/ 1 <= count < max_step) /\ shape ray = [max_step; 2].
Proof.
  intros Hc. destruct (hull2 z x zend xend) eqn:Hh.
  - destruct (ray2d_core_char z x zgrad xgrad zend xend zsrc xsrc stepsize max_step hg Hh)
      as (cond & body & s0 & Heq & (Hc0 & _ & _ & Hr0 & Hi0 & Hcell0) & Hstep).
    rewrite Heq in Hc. destruct (while_fuel fuel cond body s0) as [s1| |] eqn:Ew; simpl in Hc; try discriminate.
    destruct (loop_inv _ _ _ _ _ cond body Hstep
                (fun s => 1 <= s_count s /\ shape (s_ray s) = [max_step; 2])) with (4 := Ew)
      as (_ & Hc1 & Hs1); auto.
    + intros s s' [Hp1 Hp2] _ (_ & _ & _ & [(A & B & C & D & _)|[(A & B & C & D & _)|(A & B & C & D & _)]]);
        rewrite B, D; split; try lia; auto.
    + rewrite Hc0, Hr0. split; [lia|reflexivity].
    + unfold fin2 in Hc. destruct ((max_step <=? s_count s1) || _) eqn:Eb; injection Hc as <- <-.
      * split; [right; left; reflexivity|exact Hs1].
      * apply orb_false_elim in Eb. destruct Eb as [Eb _]. apply Z.leb_gt in Eb.
        split; [right; right; lia|exact Hs1].
  - rewrite ray2d_core_outside in Hc by exact Hh. injection Hc as <- <-. split; [left|]; reflexivity.
Qed.

(* 1b *)
Theorem ray2d_raises_value_error_iff fuel :
  single fuel = OutOfFuel \/ (single fuel = Raise ValueError <-> hull2 z x zend xend = false).
Proof.
  destruct (hull2 z x zend xend) eqn:Hh.
  - unfold u_ray2d_v. destruct (core fuel) as [[ray count]| |] eqn:Ec; simpl.
    + right. destruct (ray2d_core_count_range fuel ray count Ec) as [Hr _].
      assert (Hn : count <> -1).
      { intros ->. destruct (ray2d_core_char z x zgrad xgrad zend xend zsrc xsrc stepsize max_step hg Hh)
          as (cond & body & s0 & Heq & (Hc0 & _ & _ & _ & Hi0 & Hcell0) & Hstep).
        rewrite Heq in Ec. destruct (while_fuel fuel cond body s0) as [s1| |] eqn:Ew; simpl in Ec; try discriminate.
        destruct (loop_inv _ _ _ _ _ cond body Hstep (fun s => 1 <= s_count s)) with (4 := Ew) as (_ & Hc1); auto.
        - intros s s' Hp1 _ (_ & _ & _ & [(A & B & _)|[(A & B & _)|(A & B & _)]]); rewrite B; lia.
        - lia.
        - unfold fin2 in Ec. destruct (_ || _); injection Ec as _ E; lia. }
      destruct (Z.eqb_spec count (-1)); [contradiction|].
      destruct (count =? -2); split; intros; discriminate.
    + exfalso. eapply ray2d_core_no_raise; eauto.
    + left. reflexivity.
  - right. split; auto. intros _. apply ray2d_outside_raises. exact Hh.
Qed.

(* 2 *)
Theorem ray2d_free_terminates fuel :
  hg = false -> (Z.to_nat max_step + 1 <= fuel)%nat -> core fuel <> OutOfFuel.
Proof.
  intros Ehg Hf. destruct (hull2 z x zend xend) eqn:Hh.
  - destruct (ray2d_core_char z x zgrad xgrad zend xend zsrc xsrc stepsize max_step hg Hh)
      as (cond & body & s0 & Heq & (Hc0 & _ & _ & _ & Hi0 & Hcell0) & Hstep).
    rewrite Heq. destruct (while_fuel fuel cond body s0) as [s1| |] eqn:Ew; simpl; try discriminate.
    + destruct (fin2_ok zsrc xsrc max_step (nfree_max2 z x stepsize) s1) as [rc ->]. discriminate.
    + exfalso. revert Ew. eapply loop_terminates_free; eauto. unfold budm. rewrite Hc0. lia.
  - rewrite ray2d_core_outside by exact Hh. discriminate.
Qed.

(* 3 (the bound works for both modes) *)
Theorem ray2d_terminates fuel :
  ((Z.to_nat max_step + 1) * (Z.to_nat (nfree_max2 z x stepsize) + 2) + 1 <= fuel)%nat ->
  core fuel <> OutOfFuel.
Proof.
  intros Hf. destruct (hull2 z x zend xend) eqn:Hh.
  - destruct (ray2d_core_char z x zgrad xgrad zend xend zsrc xsrc stepsize max_step hg Hh)
      as (cond & body & s0 & Heq & (Hc0 & Hn0 & _ & _ & Hi0 & Hcell0) & Hstep).
    rewrite Heq. destruct (while_fuel fuel cond body s0) as [s1| |] eqn:Ew; simpl; try discriminate.
    + destruct (fin2_ok zsrc xsrc max_step (nfree_max2 z x stepsize) s1) as [rc ->]. discriminate.
    + exfalso. revert Ew. eapply loop_terminates; eauto. unfold lexm. rewrite Hc0, Hn0.
      set (N := nfree_max2 z x stepsize) in *.
      assert (Z.to_nat (max_step - 1) <= Z.to_nat max_step)%nat by lia.
      assert (Z.to_nat (N + 1 - 0) <= Z.to_nat N + 1)%nat by lia.
      nia.
  - rewrite ray2d_core_outside by exact Hh. discriminate.
Qed.

Theorem ray2d_honor_terminates fuel :
  hg = true ->
  ((Z.to_nat max_step + 1) * (Z.to_nat (nfree_max2 z x stepsize) + 2) + 1 <= fuel)%nat ->
  core fuel <> OutOfFuel.
Proof. intros _. apply ray2d_terminates. Qed.
End Thm.

(* ------------------------------------------------------------------------------------------ *)
(* 5. contract of a returned ray                                                                *)
(* ------------------------------------------------------------------------------------------ *)
Section Thm5.
Variables (z x zgrad xgrad : arr T) (zend xend zsrc xsrc stepsize : T) (max_step : Z) (hg : bool).
Notation core fuel := (u_ray2d_core_v fuel z x zgrad xgrad zend xend zsrc xsrc stepsize max_step hg).

(* rows that the loop keeps: shape, well-formedness, row 0 *)
Definition ray_ok (s : St2) : Prop :=
  1 <= s_count s <= max_step /\ shape (s_ray s) = [max_step; 2] /\ wf (s_ray s) /\
  get (nofZ 0) (s_ray s) [0; 0] = zend /\ get (nofZ 0) (s_ray s) [0; 1] = xend.

Lemma ray_ok_set_sub s p :
  ray_ok s -> s_count s < max_step -> vec2 p ->
  let r := set_sub (s_ray s) [s_count s] p in
  shape r = [max_step; 2] /\ wf r /\ get (nofZ 0) r [0; 0] = zend /\ get (nofZ 0) r [0; 1] = xend /\
  get (nofZ 0) r [s_count s; 0] = get (nofZ 0) p [0] /\ get (nofZ 0) r [s_count s; 1] = get (nofZ 0) p [1].
Proof.
  intros (Hc & Hsh & Hwf & H0 & H1) Hlt [Hp1 Hp2]. cbv zeta.
  split; [exact Hsh|]. split; [apply wf_set_sub; exact Hwf|].
  rewrite !(get_set_sub_other (nofZ 0) (s_ray s) p max_step 2 (s_count s) 0) by (auto; lia).
  rewrite !(get_set_sub_same (nofZ 0) (s_ray s) p max_step 2 (s_count s)) by (auto; lia).
  auto.
Qed.

Lemma ray_ok_progress hg' nf s s' : ray_ok s -> progress hg' max_step nf z x s s' -> ray_ok s'.
Proof.
  intros Hok (Hlt' & _ & [Hv _] & Hcase).
  destruct Hcase as [(A & B & C & D & _)|[(A & B & C & D & _)|(A & B & C & D & _)]].
  + destruct (ray_ok_set_sub s (s_pcur s') Hok Hlt' Hv) as (R1 & R2 & R3 & R4 & _).
    destruct Hok as (Hc1 & _). unfold ray_ok. rewrite B, D.
    split; [lia|]. split; [exact R1|]. split; [exact R2|]. split; [exact R3|exact R4].
  + destruct (ray_ok_set_sub s (s_pcur s') Hok Hlt' Hv) as (R1 & R2 & R3 & R4 & _).
    destruct Hok as (Hc1 & _). unfold ray_ok. rewrite B, D.
    split; [lia|]. split; [exact R1|]. split; [exact R2|]. split; [exact R3|exact R4].
  + unfold ray_ok in *. rewrite B, D. exact Hok.
Qed.

Lemma ray_ok_init s0 :
  0 <= max_step -> s_count s0 = 1 -> 1 <= max_step ->
  s_ray s0 = set_sub (full [max_step; 2] (nofZ 0)) [0] (of_list [zend; xend]) -> ray_ok s0.
Proof.
  intros Hms Hc0 Hms1 Hr0. unfold ray_ok. rewrite Hc0, Hr0.
  assert (Hwf0 : wf (full [max_step; 2] (nofZ 0))).
  { apply wf_full. repeat constructor; lia. }
  split; [lia|]. split; [reflexivity|]. split; [apply wf_set_sub; exact Hwf0|].
  rewrite !(get_set_sub_same (nofZ 0) (full [max_step; 2] (nofZ 0)) (of_list [zend; xend]) max_step 2 0)
    by (auto; try reflexivity; lia).
  split; reflexivity.
Qed.

Theorem ray2d_core_endpoints fuel ray count :
  core fuel = Ok (ray, count) -> 1 <= count ->
  shape ray = [max_step; 2] /\ wf ray /\ count < max_step /\
  get (nofZ 0) ray [0; 0] = zend /\ get (nofZ 0) ray [0; 1] = xend /\
  get (nofZ 0) ray [count; 0] = zsrc /\ get (nofZ 0) ray [count; 1] = xsrc.
Proof.
  intros Hc Hpos.
  destruct (ray2d_core_count_range z x zgrad xgrad zend xend zsrc xsrc stepsize max_step hg fuel ray count Hc)
    as [Hr Hsh].
  assert (Hlt : count < max_step) by lia.
  destruct (hull2 z x zend xend) eqn:Hh.
  2:{ rewrite ray2d_core_outside in Hc by exact Hh. injection Hc as _ <-. lia. }
  destruct (ray2d_core_char z x zgrad xgrad zend xend zsrc xsrc stepsize max_step hg Hh)
    as (cond & body & s0 & Heq & (Hc0 & _ & _ & Hr0 & Hi0 & Hcell0) & Hstep).
  rewrite Heq in Hc. destruct (while_fuel fuel cond body s0) as [s1| |] eqn:Ew; simpl in Hc; try discriminate.
  destruct (loop_inv _ _ _ _ _ cond body Hstep ray_ok) with (4 := Ew) as (_ & Hok); auto.
  - intros s s' Hok _ Hpr. eapply ray_ok_progress; eauto.
  - (* initially *) apply ray_ok_init; auto; lia.
  - unfold fin2 in Hc. destruct ((max_step <=? s_count s1) || _) eqn:Eb; injection Hc as <- <-; [lia|].
    apply orb_false_elim in Eb. destruct Eb as [Eb _]. apply Z.leb_gt in Eb.
    destruct (ray_ok_set_sub s1 (of_list [zsrc; xsrc]) Hok Eb (vec2_of_list zsrc xsrc))
      as (R1 & R2 & R3 & R4 & R5 & R6).
    split; [exact R1|]. split; [exact R2|]. split; [lia|]. split; [exact R3|]. split; [exact R4|].
    split; [exact R5|exact R6].
Qed.

End Thm5.

Theorem ray2d_1_endpoints fuel (z x zgrad xgrad p src : arr T) (stepsize : T) (max_step : Z) (hg : bool) r :
  ray2d_1 fuel z x zgrad xgrad p src stepsize max_step hg = Ok r ->
  exists count, 1 <= count < max_step /\ shape r = [count + 1; 2] /\
    get (nofZ 0) r [0; 0] = get (nofZ 0) src [0] /\ get (nofZ 0) r [0; 1] = get (nofZ 0) src [1] /\
    get (nofZ 0) r [count; 0] = get (nofZ 0) p [0] /\ get (nofZ 0) r [count; 1] = get (nofZ 0) p [1].
Proof.
  unfold ray2d_1, u_ray2d_v. intros Hr.
  destruct (u_ray2d_core_v _ _ _ _ _ _ _ _ _ _ _ _) as [[ray count]| |] eqn:Ec; simpl in Hr; try discriminate.
  destruct (ray2d_core_count_range _ _ _ _ _ _ _ _ _ _ _ _ _ _ Ec) as [Hrange _].
  destruct (Z.eqb_spec count (-1)); [discriminate|].
  destruct (Z.eqb_spec count (-2)); [discriminate|]. simpl in Hr. injection Hr as <-.
  assert (Hpos : 1 <= count) by lia.
  destruct (ray2d_core_endpoints _ _ _ _ _ _ _ _ _ _ _ _ _ _ Ec Hpos) as (Hsh & Hwf & Hlt & E0 & E1 & E2 & E3).
  exists count. split; [lia|]. split; [apply shape_rev_prefix with (n := max_step); exact Hsh|].
  rewrite !(get_rev_prefix (nofZ 0) ray max_step 2 count) by (auto; lia).
  rewrite Z.sub_0_r, Z.sub_diag. auto.
Qed.

(* ------------------------------------------------------------------------------------------ *)
(* 7. the list form                                                                             *)
(* ------------------------------------------------------------------------------------------ *)
Definition count_exc (it : arr T * Z) : option exn :=
  if snd it =? -1 then Some ValueError else if snd it =? -2 then Some RuntimeError else None.

Section Thm7.
Variables (z x zgrad xgrad zend xend : arr T) (zsrc xsrc stepsize : T) (max_step : Z) (hg : bool).
Notation core_at fuel i := (u_ray2d_core_v fuel z x zgrad xgrad (get (nofZ 0) zend [i])
                                     (get (nofZ 0) xend [i]) zsrc xsrc stepsize max_step hg).
Notation single_at fuel i := (u_ray2d_v fuel z x zgrad xgrad (get (nofZ 0) zend [i])
                                     (get (nofZ 0) xend [i]) zsrc xsrc stepsize max_step hg).
Notation core_i fuel := (fun i : Z => core_at fuel i).
Notation single_i fuel := (fun i : Z => single_at fuel i).
Notation items := (pyrange 0 (dim zend 0%nat) 1).

Theorem ray2d_vectorized_spec fuel :
  u_ray2d_vectorized_v fuel z x zgrad xgrad zend xend zsrc xsrc stepsize max_step hg =
  rbind (mapM (core_i fuel) items)
        (fun l => match first_exc count_exc l with Some e => Raise e | None => Ok l end).
Proof.
  unfold u_ray2d_vectorized_v.
  destruct (mapM _ items) as [l| |] eqn:Em; simpl; try reflexivity.
  pose proof (mapM_ok_length _ _ _ Em) as Hl.
  assert (Hn : length items = Z.to_nat (dim zend 0%nat)).
  { rewrite pyrange_0_up, map_length, seq_length. reflexivity. }
  rewrite Hn in Hl.
  pose proof (find_exc_range count_exc (mkarr [0] [], 0) l (dim zend 0%nat) Hl) as E.
  unfold count_exc in E at 1. rewrite E. reflexivity.
Qed.

Lemma single_of_core fuel i rc :
  core_at fuel i = Ok rc ->
  single_at fuel i = match count_exc rc with Some e => Raise e | None => Ok rc end.
Proof.
  intros Ec. unfold u_ray2d_v. rewrite Ec. simpl. unfold count_exc.
  destruct rc as [ray count]. simpl. destruct (count =? -1); [reflexivity|].
  destruct (count =? -2); reflexivity.
Qed.

Lemma mapM_oof_witness {X Y} (f : X -> res Y) : forall l,
  mapM f l = OutOfFuel -> exists a, In a l /\ f a = OutOfFuel.
Proof.
  induction l as [|a t IH]; simpl; intros Hm; [discriminate|].
  destruct (f a) eqn:Ea; simpl in Hm; try discriminate.
  - destruct (mapM f t) eqn:Et; simpl in Hm; try discriminate.
    destruct (IH eq_refl) as (b & Hb & Eb). exists b. split; [right|]; auto.
  - exists a. split; [left|]; auto.
Qed.

(* modulo OutOfFuel the list call is the sequential map of the single call *)
Theorem ray2d_vectorized_as_singles fuel :
  (forall i, In i items -> core_at fuel i <> OutOfFuel) ->
  u_ray2d_vectorized_v fuel z x zgrad xgrad zend xend zsrc xsrc stepsize max_step hg =
  mapM (single_i fuel) items.
Proof.
  rewrite ray2d_vectorized_spec. generalize items. intros l Hn.
  induction l as [|i t IH]; [reflexivity|].
  assert (Hn' : forall j, In j t -> core_at fuel j <> OutOfFuel) by (intros; apply Hn; right; auto).
  specialize (IH Hn'). cbn [mapM].
  destruct (core_at fuel i) as [rc|e|] eqn:Ec.
  - rewrite (single_of_core fuel i rc Ec). cbn [rbind]. rewrite <- IH.
    destruct (mapM (core_i fuel) t) as [bs|e|] eqn:Et; cbn [rbind first_exc].
    + destruct (count_exc rc); cbn [rbind]; [reflexivity|].
      destruct (first_exc count_exc bs); reflexivity.
    + exfalso. apply (mapM_raise_iff (core_i fuel) t e Hn') in Et.
      destruct Et as (l1 & a & l2 & _ & _ & Ha).
      exact (ray2d_core_no_raise _ _ _ _ _ _ _ _ _ _ _ _ _ Ha).
    + exfalso. destruct (mapM_oof_witness _ _ Et) as (a & Ha & Ea). exact (Hn' a Ha Ea).
  - exfalso. exact (ray2d_core_no_raise _ _ _ _ _ _ _ _ _ _ _ _ _ Ec).
  - exfalso. exact (Hn i (or_introl eq_refl) Ec).
Qed.

Lemma single_not_oof fuel i : core_at fuel i <> OutOfFuel -> single_at fuel i <> OutOfFuel.
Proof.
  intros Hc. unfold u_ray2d_v.
  destruct (core_at fuel i) as [[ray count]| |]; simpl; try discriminate; try congruence.
  destruct (count =? -1); [discriminate|]. destruct (count =? -2); discriminate.
Qed.

Theorem ray2d_list_raises_like_first_failing_single fuel :
  (forall i, In i items -> core_at fuel i <> OutOfFuel) ->
  (forall e,
     u_ray2d_vectorized_v fuel z x zgrad xgrad zend xend zsrc xsrc stepsize max_step hg = Raise e <->
     exists l1 i l2, items = l1 ++ i :: l2 /\
       (forall j, In j l1 -> exists rc, single_at fuel j = Ok rc) /\ single_at fuel i = Raise e) /\
  (forall l,
     u_ray2d_vectorized_v fuel z x zgrad xgrad zend xend zsrc xsrc stepsize max_step hg = Ok l <->
     Forall2 (fun i rc => single_at fuel i = Ok rc) items l).
Proof.
  intros Hn. rewrite (ray2d_vectorized_as_singles fuel Hn). split.
  - intros e. apply (mapM_raise_iff (single_i fuel)). intros i Hi. apply single_not_oof. apply Hn. exact Hi.
  - intros l. apply (mapM_ok_iff (single_i fuel)).
Qed.
End Thm7.
End Core2.

(* ------------------------------------------------------------------------------------------ *)
(* searchsorted bounds (generic)                                                                *)
(* ------------------------------------------------------------------------------------------ *)
Lemma ssr_list_range {T} `{Num T} (l : list T) q : 0 <= ssr_list l q <= Z.of_nat (length l).
Proof.
  induction l as [|e t IH]; [simpl; lia|]. cbn [ssr_list length]. rewrite Nat2Z.inj_succ.
  destruct (nltb q e); lia.
Qed.
Lemma ssr_list_pos {T} `{Num T} (e : T) t q : nltb q e = false -> 1 <= ssr_list (e :: t) q.
Proof. intros E. cbn [ssr_list]. rewrite E. pose proof (ssr_list_range t q). lia. Qed.

(* ------------------------------------------------------------------------------------------ *)
(* 6. every vertex of a returned ray lies in the hull of the axes (real arithmetic)              *)
(* ------------------------------------------------------------------------------------------ *)
Section InHullR.
Local Open Scope R_scope.

Definition in_ax (ax : arr R) (v : R) : Prop :=
  get 0 ax [0%Z] <= v <= get 0 ax [(dim ax 0%nat - 1)%Z].

(* a non-empty 1-D axis whose values all lie between its first and last entry
   (in particular any ascending axis) *)
Definition axis_ok (ax : arr R) : Prop :=
  exists n : Z, shape ax = [n] /\ length (dat ax) = Z.to_nat n /\ (1 <= n)%Z /\
                forall k : Z, (0 <= k < n)%Z -> in_ax ax (get 0 ax [k]).

Lemma axis_ok_of_ascending (ax : arr R) n :
  shape ax = [n] -> length (dat ax) = Z.to_nat n -> (1 <= n)%Z ->
  (forall i j : Z, (0 <= i <= j)%Z -> (j < n)%Z -> get 0 ax [i] <= get 0 ax [j]) -> axis_ok ax.
Proof.
  intros Hsh Hl Hn Hasc. exists n. repeat split; auto.
  - apply Hasc; lia.
  - unfold dim. rewrite Hsh. simpl. apply Hasc; lia.
Qed.

Lemma clamp_in (ax : arr R) (a : R) :
  get 0 ax [0%Z] <= get 0 ax [(dim ax 0%nat - 1)%Z] -> in_ax ax (clamp ax a).
Proof.
  intros Hle. unfold in_ax, clamp, pymin2, pymax2. cbn [nltb nofZ NumR].
  destruct (Rltb a (get 0 ax [0%Z])) eqn:E1;
    [apply Rltb_true in E1|apply Rltb_false in E1];
  match goal with |- context [Rltb ?u ?v] => destruct (Rltb u v) eqn:E2 end;
    try (apply Rltb_true in E2); try (apply Rltb_false in E2); lra.
Qed.

Lemma cell_in (ax : arr R) (q lo up : R) :
  axis_ok ax -> get 0 ax [0%Z] <= q -> cell ax q lo up -> in_ax ax lo /\ in_ax ax up.
Proof.
  intros (n & Hsh & Hlen & Hn & Hall) Hq. unfold cell. cbv zeta. cbn [nofZ NumR].
  assert (Hd : dim ax 0%nat = n) by (unfold dim; rewrite Hsh; reflexivity).
  rewrite Hd.
  set (i := (searchsorted_right ax q - 1)%Z).
  assert (Hi : (0 <= i <= n - 1)%Z).
  { unfold i, searchsorted_right.
    pose proof (ssr_list_range (dat ax) q) as Hr. rewrite Hlen in Hr.
    destruct (dat ax) as [|e t] eqn:Ed; [simpl in Hlen; lia|].
    assert (He : e = get 0 ax [0%Z]).
    { unfold get. rewrite Hsh, Ed. reflexivity. }
    assert (Hp : (1 <= ssr_list (e :: t) q)%Z).
    { apply ssr_list_pos. cbn [nltb NumR]. apply Rltb_false. rewrite He. exact Hq. }
    lia. }
  intros [-> ->]. split.
  - destruct (neqb q (get 0 ax [i])); apply Hall; lia.
  - apply Hall. lia.
Qed.

Section Main.
Variables (z x zgrad xgrad : arr R) (zend xend zsrc xsrc stepsize : R) (max_step : Z) (hg : bool).

Lemma hull2_R : hull2 z x zend xend = true -> in_ax z zend /\ in_ax x xend.
Proof.
  unfold hull2, in_ax. cbn [nleb nofZ NumR]. intros Hh.
  apply andb_prop in Hh. destruct Hh as [H1 H2].
  apply andb_prop in H1. apply andb_prop in H2. destruct H1 as [A B]. destruct H2 as [C D].
  apply Rleb_true in A, B, C, D. repeat split; assumption.
Qed.

Definition row_in (ray : arr R) (k : Z) : Prop :=
  in_ax z (get 0 ray [k; 0%Z]) /\ in_ax x (get 0 ray [k; 1%Z]).

(* loop invariant *)
Definition hullinv (s : St2) : Prop :=
  ray_ok zend xend max_step s /\
  (forall k : Z, (1 <= k < s_count s)%Z -> row_in (s_ray s) k) /\
  (hg = true ->
   in_ax z (get 0 (s_lower s) [0%Z]) /\ in_ax z (get 0 (s_upper s) [0%Z]) /\
   in_ax x (get 0 (s_lower s) [1%Z]) /\ in_ax x (get 0 (s_upper s) [1%Z])).

Lemma clamped_in (p : arr R) :
  in_ax z zend -> in_ax x xend -> clamped z x p -> in_ax z (get 0 p [0%Z]) /\ in_ax x (get 0 p [1%Z]).
Proof.
  intros Hz Hx [[a Ea] [b Eb]]. cbn [nofZ NumR] in Ea, Eb. rewrite Ea, Eb.
  split; apply clamp_in; unfold in_ax in *; lra.
Qed.

Lemma rows_after_store (s : St2) (p : arr R) :
  ray_ok zend xend max_step s -> (s_count s < max_step)%Z -> vec2 p ->
  (forall k : Z, (1 <= k < s_count s)%Z -> row_in (s_ray s) k) ->
  forall k : Z, (1 <= k < s_count s)%Z -> row_in (set_sub (s_ray s) [s_count s] p) k.
Proof.
  intros (Hc & Hsh & Hwf & _) Hlt [Hp1 Hp2] Hrows k Hk. unfold row_in.
  rewrite !(get_set_sub_other 0 (s_ray s) p max_step 2 (s_count s) k) by (auto; lia).
  apply Hrows. exact Hk.
Qed.

Lemma row_stored (s : St2) (p : arr R) :
  ray_ok zend xend max_step s -> (s_count s < max_step)%Z -> vec2 p ->
  in_ax z (get 0 p [0%Z]) /\ in_ax x (get 0 p [1%Z]) ->
  row_in (set_sub (s_ray s) [s_count s] p) (s_count s).
Proof.
  intros (Hc & Hsh & Hwf & _) Hlt [Hp1 Hp2] Hin. unfold row_in.
  rewrite !(get_set_sub_same 0 (s_ray s) p max_step 2 (s_count s)) by (auto; lia).
  exact Hin.
Qed.

Lemma hullinv_progress nf s s' :
  (hg = true -> axis_ok z /\ axis_ok x) -> in_ax z zend -> in_ax x xend ->
  hullinv s -> progress hg max_step nf z x s s' -> hullinv s'.
Proof.
  intros Hax Hz Hx (Hok & Hrows & Hlu) Hpr.
  pose proof (ray_ok_progress z x zend xend max_step hg nf s s' Hok Hpr) as Hok'.
  destruct Hpr as (Hlt & _ & (Hv & _) & Hcase).
  destruct Hcase as [(A & B & C & D & E)|[(A & B & C & D & (p & (M0 & M1) & Hp & Hcl) & Hcells)|(A & B & C & D & E & F)]].
  - (* free mode: a clamped point *)
    split; [exact Hok'|]. split; [|intros Eh; congruence].
    intros k Hk. rewrite B in Hk. rewrite D.
    destruct (Z.eq_dec k (s_count s)) as [->|Hne].
    + apply row_stored; auto. apply clamped_in; auto.
    + apply rows_after_store; auto. lia.
  - (* grid mode: a clamped point, possibly snapped to a cell boundary *)
    destruct (Hlu A) as (L0 & U0 & L1 & U1). destruct (Hax A) as [Haz Hax'].
    destruct (clamped_in p Hz Hx Hcl) as [P0 P1].
    assert (Q : in_ax z (get 0 (s_pcur s') [0%Z]) /\ in_ax x (get 0 (s_pcur s') [1%Z])).
    { unfold magnet_of in M0, M1. cbn [nofZ NumR] in M0, M1.
      split.
      - destruct M0 as [E|[E|E]]; rewrite E; assumption.
      - destruct M1 as [E|[E|E]]; rewrite E; assumption. }
    split; [exact Hok'|]. split.
    + intros k Hk. rewrite B in Hk. rewrite D.
      destruct (Z.eq_dec k (s_count s)) as [->|Hne].
      * apply row_stored; auto.
      * apply rows_after_store; auto. lia.
    + intros _. destruct Hcells as [Cz Cx]. cbn [nofZ NumR] in Cz, Cx.
      destruct Q as [Q0 Q1].
      destruct (cell_in z _ _ _ Haz (proj1 Q0) Cz) as [? ?].
      destruct (cell_in x _ _ _ Hax' (proj1 Q1) Cx) as [? ?]. tauto.
  - (* grid mode: a free step *)
    split; [exact Hok'|]. rewrite B, D, E, F. split; assumption.
Qed.

Theorem ray2d_vertices_in_hull fuel ray count :
  (hg = true -> axis_ok z /\ axis_ok x) ->
  u_ray2d_core_v fuel z x zgrad xgrad zend xend zsrc xsrc stepsize max_step hg = Ok (ray, count) ->
  forall k : Z, (0 <= k < count)%Z -> row_in ray k.
Proof.
  intros Hax Hc k Hk.
  destruct (ray2d_core_count_range z x zgrad xgrad zend xend zsrc xsrc stepsize max_step hg fuel ray count Hc)
    as [Hr Hsh].
  assert (Hpos : (1 <= count)%Z) by lia.
  destruct (ray2d_core_endpoints z x zgrad xgrad zend xend zsrc xsrc stepsize max_step hg fuel ray count Hc Hpos)
    as (_ & _ & Hlt & E0 & E1 & _).
  destruct (hull2 z x zend xend) eqn:Hh.
  2:{ rewrite ray2d_core_outside in Hc by exact Hh. injection Hc as _ <-. lia. }
  destruct (hull2_R Hh) as [Hz Hx].
  destruct (Z.eq_dec k 0) as [->|Hk0].
  { unfold row_in. cbn [nofZ NumR] in E0, E1. rewrite E0, E1. split; assumption. }
  destruct (ray2d_core_char z x zgrad xgrad zend xend zsrc xsrc stepsize max_step hg Hh)
    as (cond & body & s0 & Heq & (Hc0 & _ & _ & Hr0 & Hi0 & Hcell0) & Hstep).
  rewrite Heq in Hc. destruct (while_fuel fuel cond body s0) as [s1| |] eqn:Ew; simpl in Hc; try discriminate.
  destruct (loop_inv _ _ _ _ _ cond body Hstep hullinv) with (4 := Ew) as (_ & Hinv); auto.
  - intros s s' Hinv _ Hpr. eapply hullinv_progress; eauto.
  - (* initially *)
    split; [apply ray_ok_init; auto; lia|]. split; [intros j Hj; lia|].
    intros Ehg. destruct (Hax Ehg) as [Haz Hax']. destruct (Hcell0 Ehg) as [Cz Cx].
    cbn [nofZ NumR] in Cz, Cx.
    destruct (cell_in z _ _ _ Haz (proj1 Hz) Cz) as [? ?].
    destruct (cell_in x _ _ _ Hax' (proj1 Hx) Cx) as [? ?]. tauto.
  - destruct Hinv as (Hok & Hrows & _).
    unfold fin2 in Hc. destruct ((max_step <=? s_count s1)%Z || _) eqn:Eb; injection Hc as <- <-; [lia|].
    apply orb_false_elim in Eb. destruct Eb as [Eb _]. apply Z.leb_gt in Eb.
    apply rows_after_store; auto; [apply vec2_of_list|lia].
Qed.
End Main.
End InHullR.

(* ------------------------------------------------------------------------------------------ *)
(* 1c. binary64: a NaN end point is rejected with ValueError (for every fuel)                    *)
(* ------------------------------------------------------------------------------------------ *)
From FT.proofs Require NumFLaws.

Theorem ray2d_nan_end_point_raises
  (z x zgrad xgrad : arr PrimFloat.float) (zend xend zsrc xsrc stepsize : PrimFloat.float)
  (max_step : Z) (hg : bool) (fuel : nat) :
  PrimFloat.is_nan zend = true \/ PrimFloat.is_nan xend = true ->
  u_ray2d_v fuel z x zgrad xgrad zend xend zsrc xsrc stepsize max_step hg = Raise ValueError.
Proof.
  intros Hnan. apply ray2d_outside_raises. unfold hull2. cbn [nleb NumF].
  destruct Hnan as [Hn|Hn].
  - rewrite (NumFLaws.leb_nan_r zend _ Hn). reflexivity.
  - rewrite (NumFLaws.leb_nan_r xend _ Hn). cbn [andb]. apply Bool.andb_false_r.
Qed.

Print Assumptions ray2d_core_outside.
Print Assumptions ray2d_raises_value_error_iff.
Print Assumptions ray2d_nan_end_point_raises.
Print Assumptions ray2d_free_terminates.
Print Assumptions ray2d_terminates.
Print Assumptions ray2d_honor_terminates.
Print Assumptions ray2d_core_count_range.
Print Assumptions ray2d_core_endpoints.
Print Assumptions ray2d_1_endpoints.
Print Assumptions ray2d_vertices_in_hull.
Print Assumptions ray2d_vectorized_spec.
Print Assumptions ray2d_vectorized_as_singles.
Print Assumptions ray2d_list_raises_like_first_failing_single.
