(* Unit invariance of the a posteriori ray tracers, free-step mode (gen/Ray2d.v, gen/Ray3d.v; sources
   /repo/fteikpy/_fteik/_ray2d.py, _ray3d.py, interpolators /repo/fteikpy/_interp/_interp2d.py, _interp3d.py):
   "multiplying all grid spacings, the origin, the source and end coordinates by c ... leaves gradient
   directions unchanged and scales free-step ray coordinates by c".  Exact real arithmetic (T := R, NumR).

   `sc c a` is the array a with every entry multiplied by c (same shape).  All statements hold for EVERY
   input (no hypothesis on the axes, the gradient grids, the end point or the source), the only premise
   is 0 < c, and they are equalities between the two runs of the generated functions:

   (U1) interp2d_scale, interp3d_scale
          _interp2d on axes scaled by c, the same node values and a query scaled by c returns the same
          value: outside the hull (fill value), far faces, generic cells, degenerate axes alike.
   (U2) ray2d_core_scale        _ray2d_core with honor_grid = false: scaling the axes, the end point, the
          source and the step size by c (same gradients, budget, fuel) returns `rmap (sc_out c)` of the
          unscaled result: the same count - including the sentinels -1 and -2 and running out of fuel -
          and the whole ray buffer multiplied by c.
          ray2d_core_scale_rows / ray2d_core_scale_outcome   the same in "row" form.
   (U3) ray2d_wrapper_scale (_ray2d: the same exception or the scaled result), ray2d_1_scale
          (ray2d on one point: the returned polyline ray[count::-1] is multiplied by c),
          ray2d_vectorized_scale, ray2d_n_scale (several end points).
   (U4) ray3d_core_scale (+ _rows, _outcome)      (U5) ray3d_wrapper_scale, ray3d_1_scale,
          ray3d_vectorized_scale, ray3d_n_scale.
   (U6) REFUTED for honor_grid = true: ray2d_honor_grid_not_scale_invariant exhibits, for every
          0 < c < 2e-8, a run whose stored vertex is (1, 1/2) while the run scaled by c stores (c, 0)
          instead of (c, c/2): the absolute tolerance 1e-8 of the "grid magnetism" snaps it onto a grid
          line.  ray2d_core_scale_fails_with_honor_grid: the law (U2) is false with honor_grid = true.
          (The same outputs are produced by the Python implementation in binary64.)
   Non-vacuity: ray2d_scale_nonvacuous, ray3d_scale_nonvacuous (a returned ray with count = 2 in metres
   and in millimetres), interp2d_scale_instances.

   Method.  (U1): both calls are unfolded once; searchsorted, the hull test and every node coordinate
   commute with the scaling (`get 0 (sc c a) idx = c * get 0 a idx` holds for every index because the
   default entry is 0), and the quotient of the weighted sum by the cell area is homogeneous of degree 0
   (`/ 0 = 0` makes this true even on degenerate cells).  (U2)/(U4): the loop (cond, body, init) is the
   one extracted in RayBudget.v (loop2/loop3, core2_eq/core3_eq); its free-step body is characterised by
   reflexivity (body2_free, body3_free: free_step2, free_step3), `scS c` (scale every array of the loop
   state) is shown to commute with one body execution, the loop test, the initial state and the final
   block, and while_fuel_hom transports the whole loop. *)
From Coq Require Import ZArith List Bool Reals Lra Lia Psatz.
From FT.lib Require Import Num Arr NumArr ArrLemmas.
From FT.gen Require Import Common Interp2d Interp3d FteikCommon Ray2d Ray3d.
From FT.proofs Require Import SSR InterpR Interp3R Ray2dProofs Ray3dProofs RayStep RayBudget.
Import ListNotations.
Open Scope R_scope.

(* ================================================================== *)
(* 1. the scaled array; (U1) the interpolators                          *)
(* ================================================================== *)
Definition sc (c : R) (a : arr R) : arr R := amap (Rmult c) a.

Lemma sc_shape c a : shape (sc c a) = shape a.
Proof. reflexivity. Qed.
Lemma sc_dim c a k : dim (sc c a) k = dim a k.
Proof. reflexivity. Qed.
Lemma sc_get c a idx : get 0 (sc c a) idx = c * get 0 a idx.
Proof.
  unfold get, sc, amap. cbn [shape dat].
  transitivity (nth (Z.to_nat (flat (shape a) idx)) (map (Rmult c) (dat a)) (c * 0)).
  - f_equal. ring.
  - apply map_nth.
Qed.

Lemma Rltb_sc c a b : 0 < c -> Rltb (c * a) (c * b) = Rltb a b.
Proof.
  intros Hc. unfold Rltb. destruct (Rlt_dec (c * a) (c * b)) as [H|H], (Rlt_dec a b) as [H'|H']; auto; exfalso.
  - apply H'. apply (Rmult_lt_reg_l c); assumption.
  - apply H. apply Rmult_lt_compat_l; assumption.
Qed.
Lemma Rleb_sc c a b : 0 < c -> Rleb (c * a) (c * b) = Rleb a b.
Proof.
  intros Hc. unfold Rleb. destruct (Rle_dec (c * a) (c * b)) as [H|H], (Rle_dec a b) as [H'|H']; auto; exfalso.
  - apply H'. apply (Rmult_le_reg_l c); assumption.
  - apply H. apply Rmult_le_compat_l; lra.
Qed.

Lemma ssr_list_sc c (l : list R) q : 0 < c -> ssr_list (map (Rmult c) l) (c * q) = ssr_list l q.
Proof.
  intros Hc. induction l as [|e t IH]; [reflexivity|]. cbn [map ssr_list].
  change (@nltb R NumR) with Rltb. rewrite Rltb_sc by exact Hc. rewrite IH. reflexivity.
Qed.
Lemma ssr_sc c x q : 0 < c -> searchsorted_right (sc c x) (c * q) = searchsorted_right x q.
Proof. intros Hc. unfold searchsorted_right. apply ssr_list_sc. exact Hc. Qed.

Lemma Rabs_cc c a b : 0 < c -> Rabs (c * a * (c * b)) = (c * c) * Rabs (a * b).
Proof.
  intros Hc. replace (c * a * (c * b)) with ((c * c) * (a * b)) by ring.
  rewrite Rabs_mult. rewrite (Rabs_pos_eq (c * c)) by nra. reflexivity.
Qed.
Lemma Rabs_ccc c a b d : 0 < c -> Rabs (c * a * (c * b) * (c * d)) = (c * c * c) * Rabs (a * b * d).
Proof.
  intros Hc. replace (c * a * (c * b) * (c * d)) with ((c * c * c) * (a * b * d)) by ring.
  rewrite Rabs_mult. rewrite (Rabs_pos_eq (c * c * c)); [reflexivity|].
  apply Rmult_le_pos; [nra|lra].
Qed.
Lemma div_sc k N D : k <> 0 -> (k * N) / (k * D) = N / D.
Proof.
  intros Hk. unfold Rdiv. rewrite Rinv_mult.
  replace (k * N * (/ k * / D)) with ((k * / k) * (N * / D)) by ring.
  rewrite Rinv_r by exact Hk. ring.
Qed.

Lemma frac4 k a1 a2 a3 a4 A1 A2 A3 A4 D : k <> 0 ->
  (a1 * (k * A1) + a2 * (k * A2) + a3 * (k * A3) + a4 * (k * A4)) / (k * D) =
  (a1 * A1 + a2 * A2 + a3 * A3 + a4 * A4) / D.
Proof.
  intros Hk. rewrite <- (div_sc k _ D Hk). f_equal. ring.
Qed.
Lemma frac8 k a1 a2 a3 a4 a5 a6 a7 a8 A1 A2 A3 A4 A5 A6 A7 A8 D : k <> 0 ->
  (a1 * (k * A1) + a2 * (k * A2) + a3 * (k * A3) + a4 * (k * A4) +
   a5 * (k * A5) + a6 * (k * A6) + a7 * (k * A7) + a8 * (k * A8)) / (k * D) =
  (a1 * A1 + a2 * A2 + a3 * A3 + a4 * A4 + a5 * A5 + a6 * A6 + a7 * A7 + a8 * A8) / D.
Proof.
  intros Hk. rewrite <- (div_sc k _ D Hk). f_equal. ring.
Qed.
(* pull the common factor c out of every coordinate difference *)
Ltac pull_c c :=
  repeat match goal with
         | |- context [2 * (c * ?a)] => replace (2 * (c * a)) with (c * (2 * a)) by ring
         end;
  rewrite <- !Rmult_minus_distr_l.

Theorem interp2d_scale c x y v xq yq fval : 0 < c ->
  u_interp2d_v (sc c x) (sc c y) v (c * xq) (c * yq) fval = u_interp2d_v x y v xq yq fval.
Proof.
  intros Hc. unfold u_interp2d_v.
  cbv beta iota zeta delta [nleb nsub nmul nadd ndiv nabs nofZ NumR]. cbn [fst snd].
  rewrite !sc_dim. rewrite !ssr_sc by exact Hc. rewrite !sc_get. rewrite !Rleb_sc by exact Hc.
  match goal with |- (if ?b then _ else _) = _ => destruct b end; [reflexivity|].
  destruct (searchsorted_right x xq - 1 =? dim v 0 - 1)%Z, (searchsorted_right y yq - 1 =? dim v 1 - 1)%Z; cbn [andb negb fst snd].
  all: pull_c c; rewrite !Rabs_cc by exact Hc; apply frac4; nra.
Qed.

Theorem interp3d_scale c x y z v xq yq zq fval : 0 < c ->
  u_interp3d_v (sc c x) (sc c y) (sc c z) v (c * xq) (c * yq) (c * zq) fval =
  u_interp3d_v x y z v xq yq zq fval.
Proof.
  intros Hc. unfold u_interp3d_v.
  cbv beta iota zeta delta [nleb nsub nmul nadd ndiv nabs nofZ NumR]. cbn [fst snd].
  (* one copy of each of the two selections *)
  name_selection u Eu. name_selection u' Eu'.
  rewrite ?sc_dim, ?ssr_sc, ?sc_get in Eu by exact Hc.
  rewrite ?sc_dim, ?ssr_sc, ?sc_get in Eu' by exact Hc.
  rewrite ?sc_dim, ?ssr_sc, ?sc_get, ?Rleb_sc by exact Hc.
  match goal with |- (if ?b then _ else _) = _ => destruct b end; [reflexivity|].
  destruct (searchsorted_right x xq - 1 =? dim v 0 - 1)%Z,
           (searchsorted_right y yq - 1 =? dim v 1 - 1)%Z,
           (searchsorted_right z zq - 1 =? dim v 2 - 1)%Z;
    cbn [andb negb] in Eu, Eu'; subst u u'; cbn [fst snd].
  all: pull_c c; rewrite !Rabs_ccc by exact Hc; apply frac8; apply Rgt_not_eq;
       apply Rmult_lt_0_compat; [nra|lra].
Qed.

(* ================================================================== *)
(* 2. scaling commutes with the array operations of the ray loops       *)
(* ================================================================== *)
Lemma map_upd {A B} (f : A -> B) : forall (l : list A) n v, map f (upd l n v) = upd (map f l) n (f v).
Proof. induction l as [|h t IH]; intros [|n] v; simpl; auto. rewrite IH. reflexivity. Qed.
Lemma map_upd_block {A B} (f : A -> B) : forall (vs l : list A) n,
  map f (upd_block l n vs) = upd_block (map f l) n (map f vs).
Proof. induction vs as [|v vs IH]; intros l n; simpl; auto. rewrite IH, map_upd. reflexivity. Qed.
Lemma map_repeat' {A B} (f : A -> B) a n : map f (repeat a n) = repeat (f a) n.
Proof. induction n as [|n IH]; simpl; auto. rewrite IH. reflexivity. Qed.
Lemma map_zipw_sub c : forall l1 l2 : list R,
  map (Rmult c) (zipw Rminus l1 l2) = zipw Rminus (map (Rmult c) l1) (map (Rmult c) l2).
Proof.
  induction l1 as [|a t IH]; intros [|b t2]; simpl; auto. rewrite IH. f_equal. ring.
Qed.

Lemma sc_set c a idx v : sc c (set a idx v) = set (sc c a) idx (c * v).
Proof. unfold sc, amap, set. cbn [shape dat]. rewrite map_upd. reflexivity. Qed.
Lemma sc_set_sub c a idx s : sc c (set_sub a idx s) = set_sub (sc c a) idx (sc c s).
Proof. unfold sc, amap, set_sub. cbn [shape dat]. rewrite map_upd_block. reflexivity. Qed.
Lemma sc_amap2_sub c p d : sc c (amap2 Rminus p d) = amap2 Rminus (sc c p) (sc c d).
Proof. unfold sc, amap, amap2. cbn [shape dat]. rewrite map_zipw_sub. reflexivity. Qed.
Lemma sc_full0 c sh : sc c (full sh 0) = full sh 0.
Proof. unfold sc, amap, full. cbn [shape dat]. rewrite map_repeat', Rmult_0_r. reflexivity. Qed.
Lemma sc_of_list2 c a b : sc c (of_list [a; b]) = of_list [c * a; c * b].
Proof. reflexivity. Qed.
Lemma sc_of_list3 c a b d : sc c (of_list [a; b; d]) = of_list [c * a; c * b; c * d].
Proof. reflexivity. Qed.
Lemma sc_empty c sh : sc c (mkarr sh []) = mkarr sh [].
Proof. reflexivity. Qed.

Lemma sc_get_sub c a idx : sc c (get_sub a idx) = get_sub (sc c a) idx.
Proof.
  unfold sc, amap, get_sub. cbn [shape dat]. f_equal. rewrite skipn_map, firstn_map. reflexivity.
Qed.
Lemma sc_rev_prefix c a count : sc c (rev_prefix a count) = rev_prefix (sc c a) count.
Proof.
  unfold rev_prefix. rewrite sc_dim. cbv zeta. unfold sc at 1, amap. cbn [shape dat]. f_equal.
  rewrite concat_map, map_rev, map_map. f_equal. f_equal. apply map_ext. intros r.
  rewrite <- sc_get_sub. reflexivity.
Qed.

(* ---------- scalar operations ---------- *)
Lemma pymin2_sc c a b : 0 < c -> @pymin2 R NumR (c * a) (c * b) = c * pymin2 a b.
Proof. intros Hc. unfold pymin2. cbn [nltb NumR]. rewrite Rltb_sc by exact Hc. destruct (Rltb b a); reflexivity. Qed.
Lemma pymax2_sc c a b : 0 < c -> @pymax2 R NumR (c * a) (c * b) = c * pymax2 a b.
Proof. intros Hc. unfold pymax2. cbn [nltb NumR]. rewrite Rltb_sc by exact Hc. destruct (Rltb a b); reflexivity. Qed.
Lemma clamp_sc c ax a : 0 < c -> clamp (sc c ax) (c * a) = c * clamp ax a.
Proof.
  intros Hc. unfold clamp. rewrite sc_dim. change (@nofZ R NumR 0%Z) with 0. rewrite !sc_get.
  rewrite pymax2_sc, pymin2_sc by exact Hc. reflexivity.
Qed.

Lemma sqrt_sc c a : 0 < c -> R_sqrt.sqrt (c * c * a) = c * R_sqrt.sqrt a.
Proof.
  intros Hc. rewrite sqrt_mult_alt by nra. rewrite sqrt_square by lra. reflexivity.
Qed.
Lemma norm2d_sc c a b : 0 < c -> @norm2d R NumR (c * a) (c * b) = c * norm2d a b.
Proof.
  intros Hc. unfold norm2d. cbn [nsqrt nadd nmul NumR]. rewrite <- sqrt_sc by exact Hc. f_equal. ring.
Qed.
Lemma norm3d_sc c a b d : 0 < c -> @norm3d R NumR (c * a) (c * b) (c * d) = c * norm3d a b d.
Proof.
  intros Hc. unfold norm3d. cbn [nsqrt nadd nmul NumR]. rewrite <- sqrt_sc by exact Hc. f_equal. ring.
Qed.
Lemma dist2d_sc c a b d e : 0 < c -> @dist2d R NumR (c * a) (c * b) (c * d) (c * e) = c * dist2d a b d e.
Proof.
  intros Hc. unfold dist2d. cbn [nsub NumR]. rewrite <- !Rmult_minus_distr_l. apply norm2d_sc. exact Hc.
Qed.
Lemma dist3d_sc c a b d e f g : 0 < c ->
  @dist3d R NumR (c * a) (c * b) (c * d) (c * e) (c * f) (c * g) = c * dist3d a b d e f g.
Proof.
  intros Hc. unfold dist3d. cbn [nsub NumR]. rewrite <- !Rmult_minus_distr_l. apply norm3d_sc. exact Hc.
Qed.

(* ================================================================== *)
(* 3. generic: a loop commutes with a map of its state                  *)
(* ================================================================== *)
Definition cmap {S S'} (f : S -> S') (r : ctl S) : ctl S' :=
  match r with Next s => Next (f s) | Brk s => Brk (f s) | Exc e => Exc e end.
Definition rmap {A B} (f : A -> B) (r : res A) : res B :=
  match r with Ok a => Ok (f a) | Raise e => Raise e | OutOfFuel => OutOfFuel end.

Lemma while_fuel_hom {S S'} (f : S -> S') cond body cond' body' :
  (forall s, cond' (f s) = cond s) ->
  (forall s, body' (f s) = cmap f (body s)) ->
  forall fuel s, while_fuel fuel cond' body' (f s) = rmap f (while_fuel fuel cond body s).
Proof.
  intros Hcnd Hbody. induction fuel as [|n IH]; intros s; [reflexivity|]. cbn [while_fuel].
  rewrite Hcnd, Hbody. destruct (cond s); [|reflexivity].
  destruct (body s) as [s'|s'|e]; cbn [cmap]; [apply IH|reflexivity|reflexivity].
Qed.

Lemma rbind_rmap {A A' B B'} (f : A -> A') (g : B -> B') (r : res A) (F : A -> res B) (F' : A' -> res B') :
  (forall a, F' (f a) = rmap g (F a)) ->
  rbind (rmap f r) F' = rmap g (rbind r F).
Proof. intros HF. destruct r; cbn; auto. Qed.

(* the result of the cores: (ray buffer, count) *)
Definition sc_out (c : R) (rc : arr R * Z) : arr R * Z := (sc c (fst rc), snd rc).

(* the loop state with every array scaled *)
Definition scS (c : R) (s : @St2 R) : @St2 R :=
  (s_count s, sc c (s_delta s), sc c (s_lower s), s_nfree s, sc c (s_pcur s), sc c (s_ray s),
   sc c (s_upper s)).

(* ================================================================== *)
(* 4. the free-step body of the 2D core                                 *)
(* ================================================================== *)
Section Free2.
Context {T : Type} `{Num T}.
Variables (z x zgrad xgrad : arr T) (stepsize : T) (M nf : Z).

Definition free_step2 (s : @St2 T) : ctl (@St2 T) :=
  if ((M <=? s_count s)%Z || (nf <? s_nfree s)%Z)%bool then Brk s
  else
    let gz := interp2d_1 z x zgrad (s_pcur s) nnan in
    let gx := interp2d_1 z x xgrad (s_pcur s) nnan in
    let gn := norm2d gz gx in
    if ngtb gn (nofZ 0) then
      let gni := ndiv (nofZ 1) gn in
      let d1 := set (set (s_delta s) [0%Z] (nmul (nmul stepsize gz) gni)) [1%Z]
                    (nmul (nmul stepsize gx) gni) in
      let p1 := amap2 nsub (s_pcur s) d1 in
      let p2 := set p1 [0%Z] (clamp z (get (nofZ 0) p1 [0%Z])) in
      let p3 := set p2 [1%Z] (clamp x (get (nofZ 0) p2 [1%Z])) in
      Next ((s_count s + 1)%Z, d1, s_lower s, s_nfree s, p3, set_sub (s_ray s) [s_count s] p3, s_upper s)
    else Brk s.
End Free2.

Lemma body2_free {T} `{Num T} z x zgrad xgrad zend xend zsrc xsrc stepsize M s :
  body2 z x zgrad xgrad zend xend zsrc xsrc stepsize false M s =
  free_step2 z x zgrad xgrad stepsize M (nf2 z x stepsize) s.
Proof. destruct s as [[[[[[cnt d] l] n] p] r] u]. reflexivity. Qed.

Lemma cond2_free {T} `{Num T} z x zgrad xgrad zend xend zsrc xsrc stepsize s :
  cond2 z x zgrad xgrad zend xend zsrc xsrc stepsize false s =
  ngeb (dist2d zsrc xsrc (get (nofZ 0) (s_pcur s) [0%Z]) (get (nofZ 0) (s_pcur s) [1%Z])) stepsize.
Proof. destruct s as [[[[[[cnt d] l] n] p] r] u]. reflexivity. Qed.

Lemma init2_free {T} `{Num T} z x zgrad xgrad zend xend zsrc xsrc stepsize M :
  init2 z x zgrad xgrad zend xend zsrc xsrc stepsize false M =
  (1%Z, full [2%Z] (nofZ 0), mkarr [0%Z] [], 0%Z, of_list [zend; xend],
   set_sub (full [M; 2%Z] (nofZ 0)) [0%Z] (of_list [zend; xend]), mkarr [0%Z] []).
Proof. reflexivity. Qed.

(* ================================================================== *)
(* 5. (U2), (U3): the 2D core, wrapper and entry point, free-step mode  *)
(* ================================================================== *)
Section Scale2.
Variable c : R.
Hypothesis Hc : 0 < c.
Variables (z x zgrad xgrad : arr R).

Lemma interp2d_1_sc g p fill : interp2d_1 (sc c z) (sc c x) g (sc c p) fill = interp2d_1 z x g p fill.
Proof.
  unfold interp2d_1. change (@nofZ R NumR 0%Z) with 0. rewrite !sc_get. apply interp2d_scale. exact Hc.
Qed.

Lemma free_step2_sc stepsize M nf s :
  free_step2 (sc c z) (sc c x) zgrad xgrad (c * stepsize) M nf (scS c s) =
  cmap (scS c) (free_step2 z x zgrad xgrad stepsize M nf s).
Proof.
  destruct s as [[[[[[cnt d] l] n] p] r] u]. unfold free_step2, scS.
  cbn [s_count s_delta s_lower s_nfree s_pcur s_ray s_upper fst snd].
  destruct (_ || _)%bool; [reflexivity|].
  rewrite !interp2d_1_sc. cbv zeta.
  destruct (ngtb _ _); [|reflexivity].
  cbn [cmap s_count s_delta s_lower s_nfree s_pcur s_ray s_upper fst snd].
  change (@nofZ R NumR 0%Z) with 0. change (@nsub R NumR) with Rminus. cbn [nmul ndiv nofZ NumR].
  repeat first [rewrite sc_set_sub | rewrite sc_set | rewrite sc_amap2_sub
               | rewrite <- clamp_sc by exact Hc | rewrite <- sc_get].
  rewrite <- !Rmult_assoc. reflexivity.
Qed.

Variables (zend xend zsrc xsrc stepsize : R).

Lemma hull2_sc : hull2 (sc c z) (sc c x) (c * zend) (c * xend) = hull2 z x zend xend.
Proof.
  unfold hull2. rewrite !sc_dim. change (@nofZ R NumR 0%Z) with 0. rewrite !sc_get.
  cbn [nleb NumR]. rewrite !Rleb_sc by exact Hc. reflexivity.
Qed.

Lemma nf2_sc : nf2 (sc c z) (sc c x) (c * stepsize) = nf2 z x stepsize.
Proof.
  unfold nf2, nfree_max2. rewrite !sc_dim. change (@nofZ R NumR 0%Z) with 0. rewrite !sc_get.
  rewrite dist2d_sc by exact Hc. cbn [ndiv NumR]. rewrite div_sc by lra. reflexivity.
Qed.

Local Notation cond' := (cond2 (sc c z) (sc c x) zgrad xgrad (c * zend) (c * xend) (c * zsrc) (c * xsrc) (c * stepsize) false).
Local Notation body' := (body2 (sc c z) (sc c x) zgrad xgrad (c * zend) (c * xend) (c * zsrc) (c * xsrc) (c * stepsize) false).
Local Notation init' := (init2 (sc c z) (sc c x) zgrad xgrad (c * zend) (c * xend) (c * zsrc) (c * xsrc) (c * stepsize) false).
Local Notation cond0 := (cond2 z x zgrad xgrad zend xend zsrc xsrc stepsize false).
Local Notation body0 := (body2 z x zgrad xgrad zend xend zsrc xsrc stepsize false).
Local Notation init0 := (init2 z x zgrad xgrad zend xend zsrc xsrc stepsize false).

Lemma cond2_sc s : cond' (scS c s) = cond0 s.
Proof.
  rewrite !cond2_free. destruct s as [[[[[[cnt d] l] n] p] r] u]. unfold scS.
  cbn [s_count s_delta s_lower s_nfree s_pcur s_ray s_upper fst snd].
  change (@nofZ R NumR 0%Z) with 0. rewrite !sc_get, dist2d_sc by exact Hc.
  unfold ngeb. cbn [nleb NumR]. apply Rleb_sc. exact Hc.
Qed.

Lemma body2_sc M s : body' M (scS c s) = cmap (scS c) (body0 M s).
Proof. rewrite !body2_free, nf2_sc. apply free_step2_sc. Qed.

Lemma init2_sc M : init' M = scS c (init0 M).
Proof.
  rewrite !init2_free. unfold scS. cbn [s_count s_delta s_lower s_nfree s_pcur s_ray s_upper fst snd].
  change (@nofZ R NumR 0%Z) with 0. rewrite sc_set_sub, !sc_full0. reflexivity.
Qed.

Lemma finG2_sc nf M s :
  finG nf (src2 (c * zsrc) (c * xsrc)) M (scS c s) = rmap (sc_out c) (finG nf (src2 zsrc xsrc) M s).
Proof.
  destruct s as [[[[[[cnt d] l] n] p] r] u]. unfold finG, btest, scS, sc_out, src2.
  cbn [s_count s_delta s_lower s_nfree s_pcur s_ray s_upper fst snd].
  destruct (_ || _)%bool; cbn [rmap fst snd]; [reflexivity|]. rewrite sc_set_sub. reflexivity.
Qed.

(* (U2) *)
Theorem ray2d_core_scale fuel M :
  u_ray2d_core_v fuel (sc c z) (sc c x) zgrad xgrad (c * zend) (c * xend) (c * zsrc) (c * xsrc)
                 (c * stepsize) M false =
  rmap (sc_out c) (u_ray2d_core_v fuel z x zgrad xgrad zend xend zsrc xsrc stepsize M false).
Proof.
  destruct (hull2 z x zend xend) eqn:Hh.
  - rewrite !core2_eq by (rewrite ?hull2_sc; exact Hh). unfold run.
    rewrite init2_sc, nf2_sc.
    rewrite (while_fuel_hom (scS c) cond0 (body0 M) cond' (body' M) cond2_sc (body2_sc M)).
    apply rbind_rmap. intros s. apply finG2_sc.
  - rewrite !ray2d_core_outside by (rewrite ?hull2_sc; exact Hh).
    cbn [rmap]. unfold sc_out. cbn [fst snd]. change (@nofZ R NumR 0%Z) with 0. rewrite sc_full0. reflexivity.
Qed.

(* (U3) the wrapper _ray2d *)
Theorem ray2d_wrapper_scale fuel M :
  u_ray2d_v fuel (sc c z) (sc c x) zgrad xgrad (c * zend) (c * xend) (c * zsrc) (c * xsrc)
            (c * stepsize) M false =
  rmap (sc_out c) (u_ray2d_v fuel z x zgrad xgrad zend xend zsrc xsrc stepsize M false).
Proof.
  unfold u_ray2d_v. rewrite ray2d_core_scale.
  destruct (u_ray2d_core_v fuel z x zgrad xgrad zend xend zsrc xsrc stepsize M false) as [[ray cnt]| |];
    cbn [rmap rbind sc_out fst snd]; [|reflexivity|reflexivity].
  destruct (cnt =? -1)%Z; [reflexivity|]. destruct (cnt =? -2)%Z; reflexivity.
Qed.
End Scale2.

(* (U3) the entry point ray2d on a single point *)
Theorem ray2d_1_scale c z x zgrad xgrad p src stepsize fuel M : 0 < c ->
  ray2d_1 fuel (sc c z) (sc c x) zgrad xgrad (sc c p) (sc c src) (c * stepsize) M false =
  rmap (sc c) (ray2d_1 fuel z x zgrad xgrad p src stepsize M false).
Proof.
  intros Hc. unfold ray2d_1. change (@nofZ R NumR 0%Z) with 0. rewrite !sc_get.
  rewrite ray2d_wrapper_scale by exact Hc.
  destruct (u_ray2d_v fuel z x zgrad xgrad _ _ _ _ stepsize M false) as [[ray cnt]| |];
    cbn [rmap rbind sc_out fst snd]; [|reflexivity|reflexivity].
  rewrite sc_rev_prefix. reflexivity.
Qed.

(* ================================================================== *)
(* 6. the 3D core, free-step mode                                       *)
(* ================================================================== *)
Section Free3.
Context {T : Type} `{Num T}.
Variables (z x y zgrad xgrad ygrad : arr T) (stepsize : T) (M nf : Z).

Definition free_step3 (s : @St2 T) : ctl (@St2 T) :=
  if ((M <=? s_count s)%Z || (nf <? s_nfree s)%Z)%bool then Brk s
  else
    let gz := interp3d_1 z x y zgrad (s_pcur s) nnan in
    let gx := interp3d_1 z x y xgrad (s_pcur s) nnan in
    let gy := interp3d_1 z x y ygrad (s_pcur s) nnan in
    let gn := norm3d gz gx gy in
    if ngtb gn (nofZ 0) then
      let gni := ndiv (nofZ 1) gn in
      let d1 := set (set (set (s_delta s) [0%Z] (nmul (nmul stepsize gz) gni)) [1%Z]
                         (nmul (nmul stepsize gx) gni)) [2%Z] (nmul (nmul stepsize gy) gni) in
      let p1 := amap2 nsub (s_pcur s) d1 in
      let p2 := set p1 [0%Z] (clamp z (get (nofZ 0) p1 [0%Z])) in
      let p3 := set p2 [1%Z] (clamp x (get (nofZ 0) p2 [1%Z])) in
      let p4 := set p3 [2%Z] (clamp y (get (nofZ 0) p3 [2%Z])) in
      Next ((s_count s + 1)%Z, d1, s_lower s, s_nfree s, p4, set_sub (s_ray s) [s_count s] p4, s_upper s)
    else Brk s.
End Free3.

Lemma body3_free {T} `{Num T} z x y zgrad xgrad ygrad zend xend yend zsrc xsrc ysrc stepsize M s :
  body3 z x y zgrad xgrad ygrad zend xend yend zsrc xsrc ysrc stepsize false M s =
  free_step3 z x y zgrad xgrad ygrad stepsize M (nf3 z x y stepsize) s.
Proof. destruct s as [[[[[[cnt d] l] n] p] r] u]. reflexivity. Qed.

Lemma cond3_free {T} `{Num T} z x y zgrad xgrad ygrad zend xend yend zsrc xsrc ysrc stepsize s :
  cond3 z x y zgrad xgrad ygrad zend xend yend zsrc xsrc ysrc stepsize false s =
  ngeb (dist3d zsrc xsrc ysrc (get (nofZ 0) (s_pcur s) [0%Z]) (get (nofZ 0) (s_pcur s) [1%Z])
               (get (nofZ 0) (s_pcur s) [2%Z])) stepsize.
Proof. destruct s as [[[[[[cnt d] l] n] p] r] u]. reflexivity. Qed.

Lemma init3_free {T} `{Num T} z x y zgrad xgrad ygrad zend xend yend zsrc xsrc ysrc stepsize M :
  init3 z x y zgrad xgrad ygrad zend xend yend zsrc xsrc ysrc stepsize false M =
  (1%Z, full [3%Z] (nofZ 0), mkarr [0%Z] [], 0%Z, of_list [zend; xend; yend],
   set_sub (full [M; 3%Z] (nofZ 0)) [0%Z] (of_list [zend; xend; yend]), mkarr [0%Z] []).
Proof. reflexivity. Qed.

Section Scale3.
Variable c : R.
Hypothesis Hc : 0 < c.
Variables (z x y zgrad xgrad ygrad : arr R).

Lemma interp3d_1_sc g p fill :
  interp3d_1 (sc c z) (sc c x) (sc c y) g (sc c p) fill = interp3d_1 z x y g p fill.
Proof.
  unfold interp3d_1. change (@nofZ R NumR 0%Z) with 0. rewrite !sc_get. apply interp3d_scale. exact Hc.
Qed.

Lemma free_step3_sc stepsize M nf s :
  free_step3 (sc c z) (sc c x) (sc c y) zgrad xgrad ygrad (c * stepsize) M nf (scS c s) =
  cmap (scS c) (free_step3 z x y zgrad xgrad ygrad stepsize M nf s).
Proof.
  destruct s as [[[[[[cnt d] l] n] p] r] u]. unfold free_step3, scS.
  cbn [s_count s_delta s_lower s_nfree s_pcur s_ray s_upper fst snd].
  destruct (_ || _)%bool; [reflexivity|].
  rewrite !interp3d_1_sc. cbv zeta.
  destruct (ngtb _ _); [|reflexivity].
  cbn [cmap s_count s_delta s_lower s_nfree s_pcur s_ray s_upper fst snd].
  change (@nofZ R NumR 0%Z) with 0. change (@nsub R NumR) with Rminus. cbn [nmul ndiv nofZ NumR].
  repeat first [rewrite sc_set_sub | rewrite sc_set | rewrite sc_amap2_sub
               | rewrite <- clamp_sc by exact Hc | rewrite <- sc_get].
  rewrite <- !Rmult_assoc. reflexivity.
Qed.

Variables (zend xend yend zsrc xsrc ysrc stepsize : R).

Lemma hull3_sc : hull3 (sc c z) (sc c x) (sc c y) (c * zend) (c * xend) (c * yend) = hull3 z x y zend xend yend.
Proof.
  unfold hull3. rewrite !sc_dim. change (@nofZ R NumR 0%Z) with 0. rewrite !sc_get.
  cbn [nleb NumR]. rewrite !Rleb_sc by exact Hc. reflexivity.
Qed.

Lemma nf3_sc : nf3 (sc c z) (sc c x) (sc c y) (c * stepsize) = nf3 z x y stepsize.
Proof.
  unfold nf3, nfree_max3. rewrite !sc_dim. change (@nofZ R NumR 0%Z) with 0. rewrite !sc_get.
  rewrite dist3d_sc by exact Hc. cbn [ndiv NumR]. rewrite div_sc by lra. reflexivity.
Qed.

Local Notation cond' := (cond3 (sc c z) (sc c x) (sc c y) zgrad xgrad ygrad (c * zend) (c * xend) (c * yend)
                               (c * zsrc) (c * xsrc) (c * ysrc) (c * stepsize) false).
Local Notation body' := (body3 (sc c z) (sc c x) (sc c y) zgrad xgrad ygrad (c * zend) (c * xend) (c * yend)
                               (c * zsrc) (c * xsrc) (c * ysrc) (c * stepsize) false).
Local Notation init' := (init3 (sc c z) (sc c x) (sc c y) zgrad xgrad ygrad (c * zend) (c * xend) (c * yend)
                               (c * zsrc) (c * xsrc) (c * ysrc) (c * stepsize) false).
Local Notation cond0 := (cond3 z x y zgrad xgrad ygrad zend xend yend zsrc xsrc ysrc stepsize false).
Local Notation body0 := (body3 z x y zgrad xgrad ygrad zend xend yend zsrc xsrc ysrc stepsize false).
Local Notation init0 := (init3 z x y zgrad xgrad ygrad zend xend yend zsrc xsrc ysrc stepsize false).

Lemma cond3_sc s : cond' (scS c s) = cond0 s.
Proof.
  rewrite !cond3_free. destruct s as [[[[[[cnt d] l] n] p] r] u]. unfold scS.
  cbn [s_count s_delta s_lower s_nfree s_pcur s_ray s_upper fst snd].
  change (@nofZ R NumR 0%Z) with 0. rewrite !sc_get, dist3d_sc by exact Hc.
  unfold ngeb. cbn [nleb NumR]. apply Rleb_sc. exact Hc.
Qed.

Lemma body3_sc M s : body' M (scS c s) = cmap (scS c) (body0 M s).
Proof. rewrite !body3_free, nf3_sc. apply free_step3_sc. Qed.

Lemma init3_sc M : init' M = scS c (init0 M).
Proof.
  rewrite !init3_free. unfold scS. cbn [s_count s_delta s_lower s_nfree s_pcur s_ray s_upper fst snd].
  change (@nofZ R NumR 0%Z) with 0. rewrite sc_set_sub, !sc_full0. reflexivity.
Qed.

Lemma finG3_sc nf M s :
  finG nf (src3 (c * zsrc) (c * xsrc) (c * ysrc)) M (scS c s) =
  rmap (sc_out c) (finG nf (src3 zsrc xsrc ysrc) M s).
Proof.
  destruct s as [[[[[[cnt d] l] n] p] r] u]. unfold finG, btest, scS, sc_out, src3.
  cbn [s_count s_delta s_lower s_nfree s_pcur s_ray s_upper fst snd].
  destruct (_ || _)%bool; cbn [rmap fst snd]; [reflexivity|]. rewrite sc_set_sub. reflexivity.
Qed.

(* (U4) *)
Theorem ray3d_core_scale fuel M :
  u_ray3d_core_v fuel (sc c z) (sc c x) (sc c y) zgrad xgrad ygrad (c * zend) (c * xend) (c * yend)
                 (c * zsrc) (c * xsrc) (c * ysrc) (c * stepsize) M false =
  rmap (sc_out c)
       (u_ray3d_core_v fuel z x y zgrad xgrad ygrad zend xend yend zsrc xsrc ysrc stepsize M false).
Proof.
  destruct (hull3 z x y zend xend yend) eqn:Hh.
  - rewrite !core3_eq by (rewrite ?hull3_sc; exact Hh). unfold run.
    rewrite init3_sc, nf3_sc.
    rewrite (while_fuel_hom (scS c) cond0 (body0 M) cond' (body' M) cond3_sc (body3_sc M)).
    apply rbind_rmap. intros s. apply finG3_sc.
  - rewrite !ray3d_core_outside by (rewrite ?hull3_sc; exact Hh).
    cbn [rmap]. unfold sc_out. cbn [fst snd]. change (@nofZ R NumR 0%Z) with 0. rewrite sc_full0. reflexivity.
Qed.

(* (U5) the wrapper _ray3d *)
Theorem ray3d_wrapper_scale fuel M :
  u_ray3d_v fuel (sc c z) (sc c x) (sc c y) zgrad xgrad ygrad (c * zend) (c * xend) (c * yend)
            (c * zsrc) (c * xsrc) (c * ysrc) (c * stepsize) M false =
  rmap (sc_out c) (u_ray3d_v fuel z x y zgrad xgrad ygrad zend xend yend zsrc xsrc ysrc stepsize M false).
Proof.
  unfold u_ray3d_v. rewrite ray3d_core_scale.
  destruct (u_ray3d_core_v fuel z x y zgrad xgrad ygrad zend xend yend zsrc xsrc ysrc stepsize M false)
    as [[ray cnt]| |]; cbn [rmap rbind sc_out fst snd]; [|reflexivity|reflexivity].
  destruct (cnt =? -1)%Z; [reflexivity|]. destruct (cnt =? -2)%Z; reflexivity.
Qed.
End Scale3.

(* (U5) the entry point ray3d on a single point *)
Theorem ray3d_1_scale c z x y zgrad xgrad ygrad p src stepsize fuel M : 0 < c ->
  ray3d_1 fuel (sc c z) (sc c x) (sc c y) zgrad xgrad ygrad (sc c p) (sc c src) (c * stepsize) M false =
  rmap (sc c) (ray3d_1 fuel z x y zgrad xgrad ygrad p src stepsize M false).
Proof.
  intros Hc. unfold ray3d_1. change (@nofZ R NumR 0%Z) with 0. rewrite !sc_get.
  rewrite ray3d_wrapper_scale by exact Hc.
  destruct (u_ray3d_v fuel z x y zgrad xgrad ygrad _ _ _ _ _ _ stepsize M false) as [[ray cnt]| |];
    cbn [rmap rbind sc_out fst snd]; [|reflexivity|reflexivity].
  rewrite sc_rev_prefix. reflexivity.
Qed.

(* ================================================================== *)
(* 7. the statements in "row" form                                      *)
(* ================================================================== *)
Lemma rmap_ok_inv {A B} (f : A -> B) (r : res A) b : rmap f r = Ok b -> exists a, r = Ok a /\ b = f a.
Proof. destruct r as [a| |]; cbn; intros E; try discriminate. injection E as <-. eauto. Qed.

(* every stored row of the scaled run is c times the row of the unscaled run, same count *)
Corollary ray2d_core_scale_rows c z x zgrad xgrad zend xend zsrc xsrc stepsize fuel M ray cnt : 0 < c ->
  u_ray2d_core_v fuel z x zgrad xgrad zend xend zsrc xsrc stepsize M false = Ok (ray, cnt) ->
  exists ray',
    u_ray2d_core_v fuel (sc c z) (sc c x) zgrad xgrad (c * zend) (c * xend) (c * zsrc) (c * xsrc)
                   (c * stepsize) M false = Ok (ray', cnt) /\
    shape ray' = shape ray /\
    forall k j, get 0 ray' [k; j] = c * get 0 ray [k; j].
Proof.
  intros Hc E. exists (sc c ray). rewrite (ray2d_core_scale c Hc), E. split; [reflexivity|].
  split; [reflexivity|]. intros k j. apply sc_get.
Qed.

(* the outcomes coincide: same count (in particular the sentinels -1 and -2), same OutOfFuel *)
Corollary ray2d_core_scale_outcome c z x zgrad xgrad zend xend zsrc xsrc stepsize fuel M : 0 < c ->
  (forall cnt,
     (exists ray', u_ray2d_core_v fuel (sc c z) (sc c x) zgrad xgrad (c * zend) (c * xend) (c * zsrc) (c * xsrc)
                                  (c * stepsize) M false = Ok (ray', cnt)) <->
     (exists ray, u_ray2d_core_v fuel z x zgrad xgrad zend xend zsrc xsrc stepsize M false = Ok (ray, cnt))) /\
  (u_ray2d_core_v fuel (sc c z) (sc c x) zgrad xgrad (c * zend) (c * xend) (c * zsrc) (c * xsrc)
                  (c * stepsize) M false = OutOfFuel <->
   u_ray2d_core_v fuel z x zgrad xgrad zend xend zsrc xsrc stepsize M false = OutOfFuel).
Proof.
  intros Hc. rewrite (ray2d_core_scale c Hc).
  destruct (u_ray2d_core_v fuel z x zgrad xgrad zend xend zsrc xsrc stepsize M false) as [[ray n]| |];
    unfold sc_out; cbn [rmap fst snd]; (split; [intros cnt; split; intros [r E]|split; intros E]);
    try discriminate; try reflexivity.
  - injection E as _ <-. eauto.
  - injection E as _ <-. eauto.
Qed.

Corollary ray3d_core_scale_rows c z x y zgrad xgrad ygrad zend xend yend zsrc xsrc ysrc stepsize fuel M ray cnt :
  0 < c ->
  u_ray3d_core_v fuel z x y zgrad xgrad ygrad zend xend yend zsrc xsrc ysrc stepsize M false = Ok (ray, cnt) ->
  exists ray',
    u_ray3d_core_v fuel (sc c z) (sc c x) (sc c y) zgrad xgrad ygrad (c * zend) (c * xend) (c * yend)
                   (c * zsrc) (c * xsrc) (c * ysrc) (c * stepsize) M false = Ok (ray', cnt) /\
    shape ray' = shape ray /\
    forall k j, get 0 ray' [k; j] = c * get 0 ray [k; j].
Proof.
  intros Hc E. exists (sc c ray). rewrite (ray3d_core_scale c Hc), E. split; [reflexivity|].
  split; [reflexivity|]. intros k j. apply sc_get.
Qed.

Corollary ray3d_core_scale_outcome c z x y zgrad xgrad ygrad zend xend yend zsrc xsrc ysrc stepsize fuel M :
  0 < c ->
  (forall cnt,
     (exists ray', u_ray3d_core_v fuel (sc c z) (sc c x) (sc c y) zgrad xgrad ygrad (c * zend) (c * xend)
                     (c * yend) (c * zsrc) (c * xsrc) (c * ysrc) (c * stepsize) M false = Ok (ray', cnt)) <->
     (exists ray, u_ray3d_core_v fuel z x y zgrad xgrad ygrad zend xend yend zsrc xsrc ysrc stepsize M false
                  = Ok (ray, cnt))) /\
  (u_ray3d_core_v fuel (sc c z) (sc c x) (sc c y) zgrad xgrad ygrad (c * zend) (c * xend) (c * yend)
                  (c * zsrc) (c * xsrc) (c * ysrc) (c * stepsize) M false = OutOfFuel <->
   u_ray3d_core_v fuel z x y zgrad xgrad ygrad zend xend yend zsrc xsrc ysrc stepsize M false = OutOfFuel).
Proof.
  intros Hc. rewrite (ray3d_core_scale c Hc).
  destruct (u_ray3d_core_v fuel z x y zgrad xgrad ygrad zend xend yend zsrc xsrc ysrc stepsize M false)
    as [[ray n]| |]; unfold sc_out; cbn [rmap fst snd]; (split; [intros cnt; split; intros [r E]|split; intros E]);
    try discriminate; try reflexivity.
  - injection E as _ <-. eauto.
  - injection E as _ <-. eauto.
Qed.

(* the polyline returned by ray2d / ray3d on one point: every vertex is multiplied by c; the two
   exceptions (end point outside: ValueError, budget exhausted: RuntimeError) are raised by both runs
   or by none *)
Corollary ray2d_1_scale_rows c z x zgrad xgrad p src stepsize fuel M : 0 < c ->
  (forall r, ray2d_1 fuel z x zgrad xgrad p src stepsize M false = Ok r ->
     exists r', ray2d_1 fuel (sc c z) (sc c x) zgrad xgrad (sc c p) (sc c src) (c * stepsize) M false = Ok r' /\
                shape r' = shape r /\ forall k j, get 0 r' [k; j] = c * get 0 r [k; j]) /\
  (forall e, ray2d_1 fuel (sc c z) (sc c x) zgrad xgrad (sc c p) (sc c src) (c * stepsize) M false = Raise e <->
             ray2d_1 fuel z x zgrad xgrad p src stepsize M false = Raise e).
Proof.
  intros Hc. rewrite (ray2d_1_scale c z x zgrad xgrad p src stepsize fuel M Hc).
  destruct (ray2d_1 fuel z x zgrad xgrad p src stepsize M false) as [r0|e0|]; cbn [rmap]; split.
  - intros r E. injection E as <-. exists (sc c r0). split; [reflexivity|]. split; [reflexivity|].
    intros k j. apply sc_get.
  - intros e. split; discriminate.
  - intros r E. discriminate.
  - intros e. reflexivity.
  - intros r E. discriminate.
  - intros e. split; discriminate.
Qed.

Corollary ray3d_1_scale_rows c z x y zgrad xgrad ygrad p src stepsize fuel M : 0 < c ->
  (forall r, ray3d_1 fuel z x y zgrad xgrad ygrad p src stepsize M false = Ok r ->
     exists r', ray3d_1 fuel (sc c z) (sc c x) (sc c y) zgrad xgrad ygrad (sc c p) (sc c src) (c * stepsize) M false
                = Ok r' /\
                shape r' = shape r /\ forall k j, get 0 r' [k; j] = c * get 0 r [k; j]) /\
  (forall e, ray3d_1 fuel (sc c z) (sc c x) (sc c y) zgrad xgrad ygrad (sc c p) (sc c src) (c * stepsize) M false
             = Raise e <->
             ray3d_1 fuel z x y zgrad xgrad ygrad p src stepsize M false = Raise e).
Proof.
  intros Hc. rewrite (ray3d_1_scale c z x y zgrad xgrad ygrad p src stepsize fuel M Hc).
  destruct (ray3d_1 fuel z x y zgrad xgrad ygrad p src stepsize M false) as [r0|e0|]; cbn [rmap]; split.
  - intros r E. injection E as <-. exists (sc c r0). split; [reflexivity|]. split; [reflexivity|].
    intros k j. apply sc_get.
  - intros e. split; discriminate.
  - intros r E. discriminate.
  - intros e. reflexivity.
  - intros r E. discriminate.
  - intros e. split; discriminate.
Qed.

(* ================================================================== *)
(* 8. several end points at once (_ray2d_vectorized / ray2d on a 2-D p) *)
(* ================================================================== *)
Lemma mapM_rmap {A B B'} (g : B -> B') (f : A -> res B) (f' : A -> res B') (l : list A) :
  (forall a, f' a = rmap g (f a)) -> mapM f' l = rmap (map g) (mapM f l).
Proof.
  intros Hf. induction l as [|a t IH]; [reflexivity|]. cbn [mapM]. rewrite Hf.
  destruct (f a) as [b| |]; cbn [rmap rbind]; [|reflexivity|reflexivity].
  rewrite IH. destruct (mapM f t) as [bs| |]; reflexivity.
Qed.
Lemma find_exc_ext (f f' : Z -> option exn) l : (forall i, f i = f' i) -> find_exc f l = find_exc f' l.
Proof. intros Hf. induction l as [|i t IH]; [reflexivity|]. cbn [find_exc]. rewrite Hf, IH. reflexivity. Qed.

Lemma sc_col c p k : col 0 (sc c p) k = sc c (col 0 p k).
Proof.
  unfold col. rewrite sc_dim. cbv zeta. unfold sc at 2, amap. cbn [shape dat]. f_equal.
  rewrite map_map. apply map_ext. intros i. apply sc_get.
Qed.

Lemma snd_nth_sc_out c (items : list (arr R * Z)) n :
  snd (nth n (map (sc_out c) items) (mkarr [0%Z] [], 0%Z)) = snd (nth n items (mkarr [0%Z] [], 0%Z)).
Proof.
  change (mkarr [0%Z] (@nil R), 0%Z) with (sc_out c (mkarr [0%Z] [], 0%Z)) at 1.
  rewrite map_nth. reflexivity.
Qed.

Theorem ray2d_vectorized_scale c z x zgrad xgrad zend xend zsrc xsrc stepsize fuel M : 0 < c ->
  u_ray2d_vectorized_v fuel (sc c z) (sc c x) zgrad xgrad (sc c zend) (sc c xend) (c * zsrc) (c * xsrc)
                       (c * stepsize) M false =
  rmap (map (sc_out c))
       (u_ray2d_vectorized_v fuel z x zgrad xgrad zend xend zsrc xsrc stepsize M false).
Proof.
  intros Hc. unfold u_ray2d_vectorized_v. cbv zeta. rewrite sc_dim. change (@nofZ R NumR 0%Z) with 0.
  rewrite (mapM_rmap (sc_out c)
             (fun i => u_ray2d_core_v fuel z x zgrad xgrad (get 0 zend [i]) (get 0 xend [i]) zsrc xsrc stepsize M false)).
  2:{ intros i. rewrite !sc_get. apply ray2d_core_scale. exact Hc. }
  destruct (mapM _ _) as [items| |]; cbn [rmap rbind]; [|reflexivity|reflexivity].
  rewrite (find_exc_ext _ (fun i => if (snd (nth (Z.to_nat i) items (mkarr [0%Z] [], 0%Z)) =? -1)%Z then Some ValueError
                                    else if (snd (nth (Z.to_nat i) items (mkarr [0%Z] [], 0%Z)) =? -2)%Z
                                         then Some RuntimeError else None)).
  2:{ intros i. rewrite !snd_nth_sc_out. reflexivity. }
  destruct (find_exc _ _); reflexivity.
Qed.

Theorem ray2d_n_scale c z x zgrad xgrad p src stepsize fuel M : 0 < c ->
  ray2d_n fuel (sc c z) (sc c x) zgrad xgrad (sc c p) (sc c src) (c * stepsize) M false =
  rmap (map (sc c)) (ray2d_n fuel z x zgrad xgrad p src stepsize M false).
Proof.
  intros Hc. unfold ray2d_n. change (@nofZ R NumR 0%Z) with 0. rewrite !sc_get, !sc_col.
  rewrite ray2d_vectorized_scale by exact Hc.
  destruct (u_ray2d_vectorized_v _ _ _ _ _ _ _ _ _ _ _ _) as [items| |]; cbn [rmap rbind]; [|reflexivity|reflexivity].
  cbv zeta. rewrite !map_map. f_equal. apply map_ext. intros [ray n]. cbn [sc_out fst snd].
  symmetry. apply sc_rev_prefix.
Qed.

Theorem ray3d_vectorized_scale c z x y zgrad xgrad ygrad zend xend yend zsrc xsrc ysrc stepsize fuel M : 0 < c ->
  u_ray3d_vectorized_v fuel (sc c z) (sc c x) (sc c y) zgrad xgrad ygrad (sc c zend) (sc c xend) (sc c yend)
                       (c * zsrc) (c * xsrc) (c * ysrc) (c * stepsize) M false =
  rmap (map (sc_out c))
       (u_ray3d_vectorized_v fuel z x y zgrad xgrad ygrad zend xend yend zsrc xsrc ysrc stepsize M false).
Proof.
  intros Hc. unfold u_ray3d_vectorized_v. cbv zeta. rewrite sc_dim. change (@nofZ R NumR 0%Z) with 0.
  rewrite (mapM_rmap (sc_out c)
             (fun i => u_ray3d_core_v fuel z x y zgrad xgrad ygrad (get 0 zend [i]) (get 0 xend [i]) (get 0 yend [i])
                                      zsrc xsrc ysrc stepsize M false)).
  2:{ intros i. rewrite !sc_get. apply ray3d_core_scale. exact Hc. }
  destruct (mapM _ _) as [items| |]; cbn [rmap rbind]; [|reflexivity|reflexivity].
  rewrite (find_exc_ext _ (fun i => if (snd (nth (Z.to_nat i) items (mkarr [0%Z] [], 0%Z)) =? -1)%Z then Some ValueError
                                    else if (snd (nth (Z.to_nat i) items (mkarr [0%Z] [], 0%Z)) =? -2)%Z
                                         then Some RuntimeError else None)).
  2:{ intros i. rewrite !snd_nth_sc_out. reflexivity. }
  destruct (find_exc _ _); reflexivity.
Qed.

Theorem ray3d_n_scale c z x y zgrad xgrad ygrad p src stepsize fuel M : 0 < c ->
  ray3d_n fuel (sc c z) (sc c x) (sc c y) zgrad xgrad ygrad (sc c p) (sc c src) (c * stepsize) M false =
  rmap (map (sc c)) (ray3d_n fuel z x y zgrad xgrad ygrad p src stepsize M false).
Proof.
  intros Hc. unfold ray3d_n. change (@nofZ R NumR 0%Z) with 0. rewrite !sc_get, !sc_col.
  rewrite ray3d_vectorized_scale by exact Hc.
  destruct (u_ray3d_vectorized_v _ _ _ _ _ _ _ _ _ _ _ _ _ _ _ _) as [items| |]; cbn [rmap rbind];
    [|reflexivity|reflexivity].
  cbv zeta. rewrite !map_map. f_equal. apply map_ext. intros [ray n]. cbn [sc_out fst snd].
  symmetry. apply sc_rev_prefix.
Qed.

(* ================================================================== *)
(* 9. non-vacuity: a run that returns a ray, in metres and in millimetres *)
(* ================================================================== *)
(* RayStep.free_ray_three_vertices_2d: grid z = [0,2,3], x = [0,1], gradient (1,0), end (3,0),
   source (3/2,0), unit steps: a ray with count = 2 is returned.  The same model with all lengths
   multiplied by 1000 returns the same count and the rows multiplied by 1000. *)
Example ray2d_scale_nonvacuous :
  exists ray,
    u_ray2d_core_v 11 exz exx exg1 exg0 3 0 (3/2) 0 1 10%Z false = Ok (ray, 2%Z) /\
    u_ray2d_core_v 11 (sc 1000 exz) (sc 1000 exx) exg1 exg0 (1000 * 3) (1000 * 0) (1000 * (3/2)) (1000 * 0)
                   (1000 * 1) 10%Z false = Ok (sc 1000 ray, 2%Z) /\
    (forall k j, get 0 (sc 1000 ray) [k; j] = 1000 * get 0 ray [k; j]) /\
    get 0 (sc 1000 exz) [1%Z] = 2000.
Proof.
  destruct free_ray_three_vertices_2d as [ray E]. exists ray. split; [exact E|].
  split; [rewrite ray2d_core_scale by lra; rewrite E; reflexivity|].
  split; [intros; apply sc_get|]. rewrite sc_get. change (get 0 exz [1%Z]) with 2. lra.
Qed.

Example ray3d_scale_nonvacuous :
  exists ray,
    u_ray3d_core_v 11 exz exx exx exh1 exh0 exh0 3 0 0 (3/2) 0 0 1 10%Z false = Ok (ray, 2%Z) /\
    u_ray3d_core_v 11 (sc 1000 exz) (sc 1000 exx) (sc 1000 exx) exh1 exh0 exh0 (1000 * 3) (1000 * 0) (1000 * 0)
                   (1000 * (3/2)) (1000 * 0) (1000 * 0) (1000 * 1) 10%Z false = Ok (sc 1000 ray, 2%Z).
Proof.
  destruct free_ray_three_vertices_3d as [ray E]. exists ray. split; [exact E|].
  rewrite ray3d_core_scale by lra. rewrite E. reflexivity.
Qed.

(* the interpolators: a generic query, a far-face query and an outside query of a concrete grid *)
Example interp2d_scale_instances :
  u_interp2d_v (sc 1000 exz) (sc 1000 exx) exg1 (1000 * (5/2)) (1000 * (1/3)) 7 = u_interp2d_v exz exx exg1 (5/2) (1/3) 7 /\
  u_interp2d_v (sc 1000 exz) (sc 1000 exx) exg1 (1000 * 3) (1000 * 1) 7 = u_interp2d_v exz exx exg1 3 1 7 /\
  u_interp2d_v (sc 1000 exz) (sc 1000 exx) exg1 (1000 * 4) (1000 * 0) 7 = 7.
Proof.
  split; [apply interp2d_scale; lra|]. split; [apply interp2d_scale; lra|].
  rewrite interp2d_scale by lra. apply interp2d_outside.
  cbn [nleb nofZ NumR]. change (get 0 exz [(dim exz 0 - 1)%Z]) with 3.
  replace (Rleb 4 3) with false by (symmetry; apply Rleb_false; lra).
  rewrite andb_false_r. reflexivity.
Qed.

(* ================================================================== *)
(* 10. (U6) the grid-honouring mode is not scale invariant              *)
(* ================================================================== *)
Section Honor2.
Context {T : Type} `{Num T}.
Variables (z x zgrad xgrad : arr T) (zsrc xsrc stepsize : T) (M nf : Z).

(* the "grid magnetism" loop *)
Definition magnet2 (lo up p : arr T) : arr T :=
  for_list (pyrange 0 2 1) (fun (ix : Z) (q : arr T) =>
    if nltb (nabs (nsub (get (nofZ 0) q [ix]) (get (nofZ 0) lo [ix]))) (nofQ 1 100000000)
    then set q [ix] (get (nofZ 0) lo [ix])
    else if nltb (nabs (nsub (get (nofZ 0) q [ix]) (get (nofZ 0) up [ix]))) (nofQ 1 100000000)
         then set q [ix] (get (nofZ 0) up [ix]) else q) p.

Definition honor_step2 (s : @St2 T) : ctl (@St2 T) :=
  if ((M <=? s_count s)%Z || (nf <? s_nfree s)%Z)%bool then Brk s
  else
    let gz := interp2d_1 z x zgrad (s_pcur s) nnan in
    let gx := interp2d_1 z x xgrad (s_pcur s) nnan in
    let gn := norm2d gz gx in
    if ngtb gn (nofZ 0) then
      let gni := ndiv (nofZ 1) gn in
      let d1 := set (set (s_delta s) [0%Z] (nmul (nmul stepsize gz) gni)) [1%Z]
                    (nmul (nmul stepsize gx) gni) in
      let fac := shrink (s_pcur s) d1 (s_lower s) (s_upper s) in
      let p1 := amap2 nsub (s_pcur s) (amap (fun e => nmul fac e) d1) in
      let p2 := set p1 [0%Z] (clamp z (get (nofZ 0) p1 [0%Z])) in
      let p3 := set p2 [1%Z] (clamp x (get (nofZ 0) p2 [1%Z])) in
      if nltb fac (nofZ 1) then
        let p4 := magnet2 (s_lower s) (s_upper s) p3 in
        let i := (searchsorted_right z (get (nofZ 0) p4 [0%Z]) - 1)%Z in
        let j := (searchsorted_right x (get (nofZ 0) p4 [1%Z]) - 1)%Z in
        let lo1 := set (s_lower s) [0%Z]
                       (if neqb (get (nofZ 0) p4 [0%Z]) (get (nofZ 0) z [i])
                        then get (nofZ 0) z [Z.max (i - 1) 0] else get (nofZ 0) z [i]) in
        let lo2 := set lo1 [1%Z]
                       (if neqb (get (nofZ 0) p4 [1%Z]) (get (nofZ 0) x [j])
                        then get (nofZ 0) x [Z.max (j - 1) 0] else get (nofZ 0) x [j]) in
        let up1 := set (s_upper s) [0%Z] (get (nofZ 0) z [Z.min (i + 1) (dim z 0 - 1)]) in
        let up2 := set up1 [1%Z] (get (nofZ 0) x [Z.min (j + 1) (dim x 0 - 1)]) in
        let s' := ((s_count s + 1)%Z, d1, lo2, 0%Z, p4, set_sub (s_ray s) [s_count s] p4, up2) in
        if ((i =? searchsorted_right z zsrc - 1)%Z && (j =? searchsorted_right x xsrc - 1)%Z)%bool
        then Brk s' else Next s'
      else Next (s_count s, d1, s_lower s, (s_nfree s + 1)%Z, p3, s_ray s, s_upper s)
    else Brk s.
End Honor2.

Lemma body2_honor {T} `{Num T} z x zgrad xgrad zend xend zsrc xsrc stepsize M s :
  body2 z x zgrad xgrad zend xend zsrc xsrc stepsize true M s =
  honor_step2 z x zgrad xgrad zsrc xsrc stepsize M (nf2 z x stepsize) s.
Proof. destruct s as [[[[[[cnt d] l] n] p] r] u]. reflexivity. Qed.

Lemma cond2_honor {T} `{Num T} z x zgrad xgrad zend xend zsrc xsrc stepsize s :
  cond2 z x zgrad xgrad zend xend zsrc xsrc stepsize true s =
  ngeb (dist2d zsrc xsrc (get (nofZ 0) (s_pcur s) [0%Z]) (get (nofZ 0) (s_pcur s) [1%Z])) stepsize.
Proof. destruct s as [[[[[[cnt d] l] n] p] r] u]. reflexivity. Qed.


(* one grid-honouring step that stores a vertex and continues, from the values of its parts *)
Lemma honor_step2_vertex {T} `{Num T} (z x zgrad xgrad : arr T) (zsrc xsrc stepsize : T) (M nf : Z)
    (s : @St2 T) (gz gx fac : T) (d1 p3 p4 : arr T) (i j : Z) :
  ((M <=? s_count s)%Z || (nf <? s_nfree s)%Z)%bool = false ->
  interp2d_1 z x zgrad (s_pcur s) nnan = gz -> interp2d_1 z x xgrad (s_pcur s) nnan = gx ->
  ngtb (norm2d gz gx) (nofZ 0) = true ->
  set (set (s_delta s) [0%Z] (nmul (nmul stepsize gz) (ndiv (nofZ 1) (norm2d gz gx)))) [1%Z]
      (nmul (nmul stepsize gx) (ndiv (nofZ 1) (norm2d gz gx))) = d1 ->
  shrink (s_pcur s) d1 (s_lower s) (s_upper s) = fac ->
  nltb fac (nofZ 1) = true ->
  (let p1 := amap2 nsub (s_pcur s) (amap (fun e => nmul fac e) d1) in
   let p2 := set p1 [0%Z] (clamp z (get (nofZ 0) p1 [0%Z])) in
   set p2 [1%Z] (clamp x (get (nofZ 0) p2 [1%Z]))) = p3 ->
  magnet2 (s_lower s) (s_upper s) p3 = p4 ->
  (searchsorted_right z (get (nofZ 0) p4 [0%Z]) - 1)%Z = i ->
  (searchsorted_right x (get (nofZ 0) p4 [1%Z]) - 1)%Z = j ->
  ((i =? searchsorted_right z zsrc - 1)%Z && (j =? searchsorted_right x xsrc - 1)%Z)%bool = false ->
  exists lo up,
    honor_step2 z x zgrad xgrad zsrc xsrc stepsize M nf s =
    Next ((s_count s + 1)%Z, d1, lo, 0%Z, p4, set_sub (s_ray s) [s_count s] p4, up).
Proof.
  intros Hb Hgz Hgx Hgn Hd Hf Hf1 Hp3 Hp4 Hi Hj Hsrc.
  unfold honor_step2. rewrite Hb. cbv zeta. rewrite Hgz, Hgx, Hgn, Hd, Hf, Hf1.
  cbv zeta in Hp3. rewrite Hp3, Hp4, Hi, Hj, Hsrc. eexists. eexists. reflexivity.
Qed.

(* ---------- a concrete pair of runs ---------- *)
Definition hz : arr R := mkarr [3%Z] [0; 1; 2].
Definition hx : arr R := mkarr [2%Z] [0; 1].
Definition hg1 : arr R := mkarr [3%Z; 2%Z] [1; 1; 1; 1; 1; 1].
Definition hg0 : arr R := mkarr [3%Z; 2%Z] [0; 0; 0; 0; 0; 0].

Lemma hz_axis : axis hz 3.
Proof.
  split; [reflexivity|]. split; [reflexivity|]. split; [lia|]. intros i j Hij.
  assert (Hi : (i = 0 \/ i = 1)%Z) by lia. assert (Hj : (j = 1 \/ j = 2)%Z) by lia.
  destruct Hi as [-> | ->]; destruct Hj as [-> | ->]; try lia;
    [change (0 < 1)|change (0 < 2)|change (1 < 2)]; lra.
Qed.
Lemma hx_axis : axis hx 2.
Proof.
  split; [reflexivity|]. split; [reflexivity|]. split; [lia|]. intros i j Hij.
  assert (Hi : (i = 0)%Z) by lia. assert (Hj : (j = 1)%Z) by lia. subst. change (0 < 1). lra.
Qed.

(* constant node values interpolate to the constant *)
Lemma interp_const (v : arr R) (a q0 q1 : R) :
  shape v = [3%Z; 2%Z] -> (forall i j, (0 <= i < 3)%Z -> (0 <= j < 2)%Z -> get 0 v [i; j] = a) ->
  0 <= q0 <= 2 -> 0 <= q1 <= 1 ->
  interp2d_1 hz hx v (mkarr [2%Z] [q0; q1]) 0 = a.
Proof.
  intros Sv Hv H0 H1. unfold interp2d_1.
  change (get (@nofZ R NumR 0%Z) (mkarr [2%Z] [q0; q1]) [0%Z]) with q0.
  change (get (@nofZ R NumR 0%Z) (mkarr [2%Z] [q0; q1]) [1%Z]) with q1.
  rewrite (interp2d_multilinear_exact hz hx v 3 2 hz_axis hx_axis Sv q0 q1 0 H0 H1 a 0 0 0).
  - ring.
  - intros i j Hi Hj. rewrite (Hv i j Hi Hj). ring.
Qed.
Lemma hg1_const i j : (0 <= i < 3)%Z -> (0 <= j < 2)%Z -> get 0 hg1 [i; j] = 1.
Proof.
  intros Hi Hj. assert (Ci : (i = 0 \/ i = 1 \/ i = 2)%Z) by lia. assert (Cj : (j = 0 \/ j = 1)%Z) by lia.
  destruct Ci as [->|[->| ->]], Cj as [->| ->]; reflexivity.
Qed.
Lemma hg0_const i j : (0 <= i < 3)%Z -> (0 <= j < 2)%Z -> get 0 hg0 [i; j] = 0.
Proof.
  intros Hi Hj. assert (Ci : (i = 0 \/ i = 1 \/ i = 2)%Z) by lia. assert (Cj : (j = 0 \/ j = 1)%Z) by lia.
  destruct Ci as [->|[->| ->]], Cj as [->| ->]; reflexivity.
Qed.

Lemma sqrt_ge_of_sq X s : 0 <= s -> s * s <= X -> s <= R_sqrt.sqrt X.
Proof. intros Hs Hx. rewrite <- (sqrt_square s Hs). apply sqrt_le_1_alt. exact Hx. Qed.
Lemma sqrt_lt_of_sq X s : 0 < s -> X < s * s -> R_sqrt.sqrt X < s.
Proof.
  intros Hs Hx. destruct (Rle_dec 0 X) as [H0|H0].
  - apply Rlt_le_trans with (R_sqrt.sqrt (s * s)); [apply sqrt_lt_1_alt; split; assumption|].
    rewrite sqrt_square by lra. lra.
  - rewrite sqrt_neg_0 by lra. exact Hs.
Qed.

(* decide every comparison of two closed real expressions, remove |.| of closed expressions *)
Ltac dec_R :=
  repeat match goal with
  | |- context [Rabs ?e] => first [ rewrite (Rabs_pos_eq e) by lra | rewrite (Rabs_left1 e) by lra ]
  | |- context [Rltb ?a ?b] =>
      first [ rewrite (proj2 (Rltb_true a b)) by lra | rewrite (proj2 (Rltb_false a b)) by lra ]
  | |- context [Rleb ?a ?b] =>
      first [ rewrite (proj2 (Rleb_true a b)) by lra | rewrite (proj2 (Rleb_false a b)) by lra ]
  | |- context [Reqb ?a ?b] =>
      first [ rewrite (proj2 (Reqb_true a b)) by lra | rewrite (proj2 (Reqb_false a b)) by lra ]
  | |- context [Pos.to_nat ?p] => let n := eval compute in (Pos.to_nat p) in change (Pos.to_nat p) with n
  end.
Ltac ev1 := cbv beta iota delta [Arr.set of_list get dim amap amap2 amask aany alen amin searchsorted_right
                                 shape dat flat pymin2 pymax2 ngtb ngeb nneb sc];
            cbn -[IZR Rltb Rleb Reqb Rtrunc Rabs R_sqrt.sqrt Rdiv Rminus Rmult Rplus Rinv Ropp
                  interp2d_1 set_sub full nf2].
Ltac ev := repeat (progress (ev1; dec_R)).



Section HonorRun.
Variable k : R.
Hypothesis Hk : 0 < k.
Variable snap : bool.
Hypothesis Hsnap : if snap then k * (1/2) < 1 / 100000000 else 1 / 100000000 <= k * (1/2).

Definition hs0 (r : arr R) : @St2 R :=
  (1%Z, full [2%Z] 0, mkarr [2%Z] [k * 1; k * 0], 0%Z, mkarr [2%Z] [k * (3/2); k * (1/2)], r,
   mkarr [2%Z] [k * 2; k * 1]).
Definition hp4 : arr R := mkarr [2%Z] [k * 1; if snap then k * 0 else k * (1/2)].

Local Notation cond' := (cond2 (sc k hz) (sc k hx) hg1 hg0 (k * (3/2)) (k * (1/2)) (k * (1/4)) (k * (1/2)) (k * 1) true).
Local Notation body' := (body2 (sc k hz) (sc k hx) hg1 hg0 (k * (3/2)) (k * (1/2)) (k * (1/4)) (k * (1/2)) (k * 1) true).
Local Notation init' := (init2 (sc k hz) (sc k hx) hg1 hg0 (k * (3/2)) (k * (1/2)) (k * (1/4)) (k * (1/2)) (k * 1) true).

Lemma h_init : init' 10%Z = hs0 (set_sub (full [10%Z; 2%Z] 0) [0%Z] (mkarr [2%Z] [k * (3/2); k * (1/2)])).
Proof.
  cbv beta iota zeta delta [init2 loop2 u_ray2d_core_v_p1 fst snd]. unfold hs0.
  match goal with |- (_, _, ?lo, _, _, _, ?up) = _ =>
    replace lo with (mkarr [2%Z] [k * 1; k * 0]) by (symmetry; unfold hz, hx; ev; reflexivity);
    replace up with (mkarr [2%Z] [k * 2; k * 1]) by (symmetry; unfold hz, hx; ev; reflexivity)
  end.
  reflexivity.
Qed.

Lemma h_hull : hull2 (sc k hz) (sc k hx) (k * (3/2)) (k * (1/2)) = true.
Proof. unfold hull2, hz, hx. ev. reflexivity. Qed.

Lemma h_cond0 r : cond' (hs0 r) = true.
Proof.
  rewrite cond2_honor. unfold hs0. cbn [s_pcur fst snd]. unfold ngeb, dist2d, norm2d. ev.
  apply Rleb_true. apply sqrt_ge_of_sq; nra.
Qed.

Lemma h_gz g a : shape g = [3%Z; 2%Z] -> (forall i j, (0 <= i < 3)%Z -> (0 <= j < 2)%Z -> get 0 g [i; j] = a) ->
  interp2d_1 (sc k hz) (sc k hx) g (mkarr [2%Z] [k * (3/2); k * (1/2)]) 0 = a.
Proof.
  intros Sg Hg. change (mkarr [2%Z] [k * (3/2); k * (1/2)]) with (sc k (mkarr [2%Z] [3/2; 1/2])).
  rewrite (interp2d_1_sc k Hk). apply interp_const; [exact Sg|exact Hg|lra|lra].
Qed.

Lemma h_body0 r : exists d lo up,
  body' 10%Z (hs0 r) = Next (2%Z, d, lo, 0%Z, hp4, set_sub r [1%Z] hp4, up).
Proof.
  rewrite body2_honor.
  destruct (honor_step2_vertex (sc k hz) (sc k hx) hg1 hg0 (k * (1/4)) (k * (1/2)) (k * 1) 10
              (nf2 (sc k hz) (sc k hx) (k * 1)) (hs0 r) 1 0 (1/2)
              (mkarr [2%Z] [k; 0]) (mkarr [2%Z] [k * 1; k * (1/2)]) hp4 1 0) as (lo & up & E).
  - pose proof (nfm2_nonneg (sc k hz) (sc k hx) (k * 1) ltac:(lra)) as Hnf.
    unfold hs0. cbn [s_count s_nfree fst snd]. apply orb_false_intro; [reflexivity|].
    apply Z.ltb_ge. exact Hnf.
  - apply h_gz; [reflexivity|apply hg1_const].
  - apply h_gz; [reflexivity|apply hg0_const].
  - unfold norm2d, ngtb. cbn [nsqrt nadd nmul nltb nofZ NumR]. rewrite sqrt_10. apply Rltb_true. lra.
  - unfold norm2d, hs0. cbn [nsqrt nadd nmul ndiv nofZ NumR s_delta fst snd]. rewrite sqrt_10.
    change (full [2%Z] 0) with (mkarr [2%Z] [0; 0]). ev.
    f_equal. f_equal; [field|f_equal; field].
  - unfold hs0, shrink. cbn [s_pcur s_lower s_upper fst snd]. ev. field. lra.
  - cbn [nltb nofZ NumR]. apply Rltb_true. lra.
  - unfold hs0, clamp, hz, hx. cbn [s_pcur fst snd]. ev. f_equal. f_equal; [field|f_equal; field].
  - unfold hs0, magnet2, hp4. cbn [s_lower s_upper fst snd]. destruct snap; ev; reflexivity.
  - unfold hp4, hz. destruct snap; ev; reflexivity.
  - unfold hp4, hx. destruct snap; ev; reflexivity.
  - unfold hz, hx. ev. reflexivity.
  - exists (mkarr [2%Z] [k; 0]), lo, up. exact E.
Qed.

Lemma h_cond1 d lo up r : cond' (2%Z, d, lo, 0%Z, hp4, r, up) = false.
Proof.
  rewrite cond2_honor. cbn [s_pcur fst snd]. unfold hp4, ngeb, dist2d, norm2d.
  pose proof (Rmult_lt_0_compat k k Hk Hk) as Hkk.
  destruct snap; ev; apply Rleb_false; apply sqrt_lt_of_sq; nra.
Qed.

Lemma h_run : exists ray,
  u_ray2d_core_v 2 (sc k hz) (sc k hx) hg1 hg0 (k * (3/2)) (k * (1/2)) (k * (1/4)) (k * (1/2)) (k * 1) 10%Z true
  = Ok (ray, 2%Z) /\
  get 0 ray [1%Z; 0%Z] = k * 1 /\ get 0 ray [1%Z; 1%Z] = (if snap then k * 0 else k * (1/2)).
Proof.
  rewrite core2_eq by apply h_hull. unfold run. rewrite h_init.
  set (r0 := set_sub (full [10%Z; 2%Z] 0) [0%Z] (mkarr [2%Z] [k * (3 / 2); k * (1 / 2)])).
  destruct (h_body0 r0) as (d & lo & up & Eb).
  cbn [while_fuel]. rewrite h_cond0, Eb, h_cond1. cbn [rbind]. unfold finG, btest.
  cbn [s_count s_nfree s_ray fst snd].
  pose proof (nfm2_nonneg (sc k hz) (sc k hx) (k * 1) ltac:(lra)) as Hnf. fold (nf2 (sc k hz) (sc k hx) (k * 1)) in Hnf.
  replace (nf2 (sc k hz) (sc k hx) (k * 1)%R <? 0)%Z with false by (symmetry; apply Z.ltb_ge; exact Hnf).
  cbn [Z.leb Z.compare Pos.compare Pos.compare_cont orb].
  eexists. split; [reflexivity|].
  unfold r0, hp4, src2, get, set_sub, full.
  repeat (progress (cbn -[IZR Rdiv Rminus Rmult Rplus Rinv Ropp]; dec_R)).
  split; reflexivity.
Qed.
End HonorRun.

Lemma sc_1 a : sc 1 a = a.
Proof.
  destruct a as [sh l]. unfold sc, amap. cbn [shape dat]. f_equal.
  rewrite <- (map_id l) at 2. apply map_ext. intros r. apply Rmult_1_l.
Qed.

(* (U6) refuted: with honor_grid = true the rows are NOT scaled by c.  One grid-honouring step from
   (3/2, 1/2) against the gradient (1, 0) on the grid z = [0,1,2], x = [0,1] stops on the grid line
   z = 1 at (1, 1/2); the same model with every length multiplied by any c < 2e-8 stops at (c, c/2),
   and the magnetism test |c/2 - 0| < 1e-8 moves that vertex onto the grid line x = 0. *)
Theorem ray2d_honor_grid_not_scale_invariant (c : R) : 0 < c < 2 / 100000000 ->
  exists ray ray',
    u_ray2d_core_v 2 hz hx hg1 hg0 (3/2) (1/2) (1/4) (1/2) 1 10%Z true = Ok (ray, 2%Z) /\
    u_ray2d_core_v 2 (sc c hz) (sc c hx) hg1 hg0 (c * (3/2)) (c * (1/2)) (c * (1/4)) (c * (1/2)) (c * 1)
                   10%Z true = Ok (ray', 2%Z) /\
    get 0 ray [1%Z; 0%Z] = 1 /\ get 0 ray [1%Z; 1%Z] = 1/2 /\
    get 0 ray' [1%Z; 0%Z] = c /\ get 0 ray' [1%Z; 1%Z] = 0 /\
    get 0 ray' [1%Z; 1%Z] <> c * get 0 ray [1%Z; 1%Z].
Proof.
  intros [Hc0 Hc1].
  destruct (h_run 1 ltac:(lra) false ltac:(cbv iota; lra)) as (ray & E & G0 & G1).
  destruct (h_run c Hc0 true ltac:(cbv iota; lra)) as (ray' & E' & G0' & G1').
  rewrite !sc_1, !Rmult_1_l in E. rewrite !Rmult_1_l in G0, G1. cbv iota in G1, G1'.
  exists ray, ray'. split; [exact E|]. split; [exact E'|].
  rewrite G0, G1, G0', G1'. repeat split; try lra.
Qed.

(* hence the law proved above for free-step rays does not extend to the grid-honouring mode *)
Corollary ray2d_core_scale_fails_with_honor_grid :
  ~ (forall c z x zgrad xgrad zend xend zsrc xsrc stepsize fuel M, 0 < c ->
       u_ray2d_core_v fuel (sc c z) (sc c x) zgrad xgrad (c * zend) (c * xend) (c * zsrc) (c * xsrc)
                      (c * stepsize) M true =
       rmap (sc_out c) (u_ray2d_core_v fuel z x zgrad xgrad zend xend zsrc xsrc stepsize M true)).
Proof.
  intros Hall.
  assert (Hc : 0 < 1 / 1000000000 < 2 / 100000000) by lra.
  destruct (ray2d_honor_grid_not_scale_invariant _ Hc) as (ray & ray' & E & E' & _ & _ & _ & _ & Hne).
  rewrite (Hall (1 / 1000000000) hz hx hg1 hg0 (3/2) (1/2) (1/4) (1/2) 1 2%nat 10%Z ltac:(lra)), E in E'.
  cbn [rmap sc_out fst snd] in E'. injection E' as <-. apply Hne. apply sc_get.
Qed.

Print Assumptions interp2d_scale.
Print Assumptions interp3d_scale.
Print Assumptions ray2d_core_scale.
Print Assumptions ray2d_core_scale_rows.
Print Assumptions ray2d_core_scale_outcome.
Print Assumptions ray2d_wrapper_scale.
Print Assumptions ray2d_1_scale.
Print Assumptions ray2d_1_scale_rows.
Print Assumptions ray2d_vectorized_scale.
Print Assumptions ray2d_n_scale.
Print Assumptions ray3d_core_scale.
Print Assumptions ray3d_core_scale_rows.
Print Assumptions ray3d_core_scale_outcome.
Print Assumptions ray3d_wrapper_scale.
Print Assumptions ray3d_1_scale.
Print Assumptions ray3d_1_scale_rows.
Print Assumptions ray3d_vectorized_scale.
Print Assumptions ray3d_n_scale.
Print Assumptions ray2d_honor_grid_not_scale_invariant.
Print Assumptions ray2d_core_scale_fails_with_honor_grid.
Print Assumptions ray2d_scale_nonvacuous.
Print Assumptions ray3d_scale_nonvacuous.
Print Assumptions interp2d_scale_instances.
