(* 3D fast-sweeping kernel (gen/Fteik3d.v: sweep, sweep3d), generic in the numeric type:
     A. sweep_tt_shape / sweep_tt_indep   one sweep call writes  min(t0, min(t1d1,t1d2,t1d3), t2d, t3d)  at node (i,j,k)
     B. sweep3d_lowers                    one sweep3d never increases a time
     C. sweep3d_tt_indep                  the times do not depend on the gradient bookkeeping
     D. sweep3d_fixed_edges (+ _R)        at a fixed point of sweep3d adjacent nodes differ by at most
                                          edge length * min slowness of the four cells adjoining the edge
   Everything holds for every T with Num T, NumLaws T (binary64 with NaN included) and all shapes.
   The generic tools (chains / nests of lowering maps, projection tactic, loop directions) come from Sweep2dProofs. *)
From Coq Require Import ZArith List Bool Lia Reals Lra.
From FT.lib Require Import Num Arr ArrLemmas Lower.
From FT.proofs Require Import Sweep2dProofs.
From FT.gen Require Import Fteik3d.
Import ListNotations.
Open Scope Z_scope.

(* ---------- pymin4 analogues of pymin3_los / pymin3_fix ---------- *)
Section Min4.
Context {T : Type} `{NumLaws T}.
Lemma pymin2_los (a b : T) : le_or_same (pymin2 a b) a.
Proof. unfold pymin2. destruct (nltb b a) eqn:E; [right | left]; auto. Qed.
Lemma pymin4_los (a b c d : T) : le_or_same (pymin4 a b c d) a.
Proof. unfold pymin4. eapply los_trans; [apply pymin2_los | apply pymin3_los]. Qed.
Lemma pymin4_fix (a b c d : T) : pymin4 a b c d = a -> nltb b a = false.
Proof.
  unfold pymin4. intros E. pose proof (pymin3_los a b c) as L.
  unfold pymin2 in E. destruct (nltb d (pymin3 a b c)) eqn:Ed.
  - subst d. destruct L as [L|L].
    + rewrite L, nltb_irrefl in Ed. discriminate.
    + pose proof (nltb_trans _ _ _ Ed L) as X. rewrite nltb_irrefl in X. discriminate.
  - apply pymin3_fix in E. exact E.
Qed.
(* min(t1, t2, t3) = pymin2 (pymin2 t1 t2) t3 *)
Lemma pymin3_fix_1 (a b c t : T) : nltb (pymin3 a b c) t = false -> nltb a t = false.
Proof. unfold pymin3. intros E. apply pymin2_fix_l in E. apply pymin2_fix_l in E. exact E. Qed.
Lemma pymin3_fix_2 (a b c t : T) : comparable a b t -> nltb (pymin3 a b c) t = false -> nltb b t = false.
Proof. unfold pymin3. intros Hc E. apply pymin2_fix_l in E. eapply pymin2_fix_r; eauto. Qed.
Lemma pymin3_fix_3 (a b c t : T) : comparable (pymin2 a b) c t -> nltb (pymin3 a b c) t = false -> nltb c t = false.
Proof. unfold pymin3. intros Hc E. eapply pymin2_fix_r; eauto. Qed.
End Min4.

(* ------------------------------------------------------------------------------------------ *)
(* A. one sweep call                                                                            *)
(* ------------------------------------------------------------------------------------------ *)
Section A.
Context {T : Type} `{NumLaws T}.
Notation g := (get (nofZ 0)).
Notation dargsT := (T * T * T * T * T * T * T * T * T * T)%type.

Definition dz_of (dargs : dargsT) : T := fst (fst (fst (fst (fst (fst (fst (fst (fst dargs)))))))).
Definition dx_of (dargs : dargsT) : T := snd (fst (fst (fst (fst (fst (fst (fst (fst dargs)))))))).
Definition dy_of (dargs : dargsT) : T := snd (fst (fst (fst (fst (fst (fst (fst dargs))))))).

(* smallest slowness (Python min of four, i.e. pymin4) of the four cells adjoining an edge, with the code's clamping
   at the boundary:
     Z-edge between nodes (c,j,k),(c+1,j,k): cells (c, j-1|j, k-1|k)
     X-edge between nodes (i,c,k),(i,c+1,k): cells (i-1|i, c, k-1|k)
     Y-edge between nodes (i,j,c),(i,j,c+1): cells (i-1|i, j-1|j, c)                                        *)
Definition smin_zedge (nx ny : Z) (slow : arr T) (c j k : Z) : T :=
  pymin4 (g slow [c; Z.max (j - 1) 0; Z.max (k - 1) 0]) (g slow [c; Z.max (j - 1) 0; Z.min k (ny - 2)])
         (g slow [c; Z.min j (nx - 2); Z.max (k - 1) 0]) (g slow [c; Z.min j (nx - 2); Z.min k (ny - 2)]).
Definition smin_xedge (nz ny : Z) (slow : arr T) (i c k : Z) : T :=
  pymin4 (g slow [Z.max (i - 1) 0; c; Z.max (k - 1) 0]) (g slow [Z.min i (nz - 2); c; Z.max (k - 1) 0])
         (g slow [Z.max (i - 1) 0; c; Z.min k (ny - 2)]) (g slow [Z.min i (nz - 2); c; Z.min k (ny - 2)]).
Definition smin_yedge (nz nx : Z) (slow : arr T) (i j c : Z) : T :=
  pymin4 (g slow [Z.max (i - 1) 0; Z.max (j - 1) 0; c]) (g slow [Z.max (i - 1) 0; Z.min j (nx - 2); c])
         (g slow [Z.min i (nz - 2); Z.max (j - 1) 0; c]) (g slow [Z.min i (nz - 2); Z.min j (nx - 2); c]).

(* the three 1D candidates exactly as computed in `sweep` *)
Definition sweep_t1d1 (tt slow : arr T) (dz : T) (i j k sgnvz sgntz nx ny : Z) : T :=
  nadd (g tt [i - sgntz; j; k]) (nmul dz (smin_zedge nx ny slow (i - sgnvz) j k)).
Definition sweep_t1d2 (tt slow : arr T) (dx : T) (i j k sgnvx sgntx nz ny : Z) : T :=
  nadd (g tt [i; j - sgntx; k]) (nmul dx (smin_xedge nz ny slow i (j - sgnvx) k)).
Definition sweep_t1d3 (tt slow : arr T) (dy : T) (i j k sgnvy sgnty nz nx : Z) : T :=
  nadd (g tt [i; j; k - sgnty]) (nmul dy (smin_yedge nz nx slow i j (k - sgnvy))).

Lemma sweep_tt_shape_strong tt slow dargs i j k sgnvz sgnvx sgnvy sgntz sgntx sgnty nz nx ny :
  exists t2d t3d : T, forall ttsgn grad,
    fst (sweep tt ttsgn slow dargs i j k sgnvz sgnvx sgnvy sgntz sgntx sgnty nz nx ny grad)
    = set tt [i; j; k] (pymin4 (g tt [i; j; k])
         (pymin3 (sweep_t1d1 tt slow (dz_of dargs) i j k sgnvz sgntz nx ny)
                 (sweep_t1d2 tt slow (dx_of dargs) i j k sgnvx sgntx nz ny)
                 (sweep_t1d3 tt slow (dy_of dargs) i j k sgnvy sgnty nz nx)) t2d t3d).
Proof.
  do 2 eexists. intros ttsgn grad.
  unfold sweep, sweep_t1d1, sweep_t1d2, sweep_t1d3, smin_zedge, smin_xedge, smin_yedge, dz_of, dx_of, dy_of.
  cbv zeta.
  lazymatch goal with |- fst (?a, _) = ?r => change (a = r) end.
  reflexivity.
Qed.

Lemma sweep_tt_shape tt ttsgn slow dargs i j k sgnvz sgnvx sgnvy sgntz sgntx sgnty nz nx ny grad :
  exists t2d t3d : T,
    fst (sweep tt ttsgn slow dargs i j k sgnvz sgnvx sgnvy sgntz sgntx sgnty nz nx ny grad)
    = set tt [i; j; k] (pymin4 (g tt [i; j; k])
         (pymin3 (sweep_t1d1 tt slow (dz_of dargs) i j k sgnvz sgntz nx ny)
                 (sweep_t1d2 tt slow (dx_of dargs) i j k sgnvx sgntx nz ny)
                 (sweep_t1d3 tt slow (dy_of dargs) i j k sgnvy sgnty nz nx)) t2d t3d).
Proof.
  destruct (sweep_tt_shape_strong tt slow dargs i j k sgnvz sgnvx sgnvy sgntz sgntx sgnty nz nx ny) as (t2d & t3d & E).
  exists t2d, t3d. apply E.
Qed.

Lemma sweep_tt_indep tt ttsgn ttsgn' slow dargs i j k sgnvz sgnvx sgnvy sgntz sgntx sgnty nz nx ny grad grad' :
  fst (sweep tt ttsgn slow dargs i j k sgnvz sgnvx sgnvy sgntz sgntx sgnty nz nx ny grad)
  = fst (sweep tt ttsgn' slow dargs i j k sgnvz sgnvx sgnvy sgntz sgntx sgnty nz nx ny grad').
Proof.
  destruct (sweep_tt_shape_strong tt slow dargs i j k sgnvz sgnvx sgnvy sgntz sgntx sgnty nz nx ny) as (t2d & t3d & E).
  rewrite (E ttsgn grad), (E ttsgn' grad'). reflexivity.
Qed.
End A.

(* ------------------------------------------------------------------------------------------ *)
(* B, C, D                                                                                      *)
(* ------------------------------------------------------------------------------------------ *)
Section P.
Context {T : Type} `{NumLaws T}.
Variables nz nx ny : Z.
Hypothesis Hnz : 2 <= nz.
Hypothesis Hnx : 2 <= nx.
Hypothesis Hny : 2 <= ny.
Notation g := (get (nofZ 0)).
Notation dargsT := (T * T * T * T * T * T * T * T * T * T)%type.

Definition okT (a : arr T) : Prop := wf a /\ shape a = [nz; nx; ny].
Definition leT (a b : arr T) : Prop :=
  forall i j k, 0 <= i < nz -> 0 <= j < nx -> 0 <= k < ny -> le_or_same (g a [i; j; k]) (g b [i; j; k]).

Lemma inb_ok a i j k : okT a -> 0 <= i < nz -> 0 <= j < nx -> 0 <= k < ny -> inb a [i; j; k] = true.
Proof. intros [_ Hs] Hi Hj Hk. unfold inb. rewrite Hs. cbn [inb_sh].
  repeat (apply andb_true_intro; split);
    first [ reflexivity | apply Z.leb_le; lia | apply Z.ltb_lt; lia ]. Qed.

Lemma okT_set a idx v : okT a -> okT (set a idx v).
Proof. intros [Hw Hs]. split; [apply wf_set; auto | rewrite shape_set; auto]. Qed.

Lemma get3_nth (a : arr T) d i j k :
  shape a = [nz; nx; ny] -> get d a [i; j; k] = nth (Z.to_nat ((i * nx + j) * ny + k)) (dat a) d.
Proof. intros E. unfold get. rewrite E. unfold flat. cbn [flat_aux].
  replace (((0 * nz + i) * nx + j) * ny + k) with ((i * nx + j) * ny + k) by lia. reflexivity. Qed.

Lemma arr_ext3 (a b : arr T) d : okT a -> okT b ->
  (forall i j k, 0 <= i < nz -> 0 <= j < nx -> 0 <= k < ny -> get d a [i; j; k] = get d b [i; j; k]) -> a = b.
Proof.
  intros [[La _] Sa] [[Lb _] Sb] Hg.
  assert (Ed : dat a = dat b).
  { apply nth_ext with (d := d) (d' := d); [congruence|]. intros n Hn. rewrite La, Sa in Hn.
    unfold prodZ in Hn. cbn [fold_right] in Hn.
    assert (Hn' : 0 <= Z.of_nat n < (nz * nx) * ny) by lia.
    destruct (decomp2 (Z.of_nat n) (nz * nx) ny Hn' ltac:(lia)) as (Hm & Hr & En).
    destruct (decomp2 (Z.of_nat n / ny) nz nx Hm ltac:(lia)) as (Hp & Hq & Em).
    specialize (Hg _ _ _ Hp Hq Hr). rewrite !get3_nth in Hg by assumption.
    rewrite <- Em, <- En, Nat2Z.id in Hg. exact Hg. }
  destruct a, b; simpl in *. congruence.
Qed.

Lemma leT_refl a : okT a -> leT a a. Proof. intros _ i j k _ _ _. apply los_refl. Qed.
Lemma leT_trans a b c : leT a b -> leT b c -> leT a c.
Proof. intros H1 H2 i j k Hi Hj Hk. eapply los_trans; eauto. Qed.
Lemma leT_antisym a b : okT a -> okT b -> leT a b -> leT b a -> a = b.
Proof. intros Ha Hb H1 H2. apply (arr_ext3 a b (nofZ 0) Ha Hb). intros i j k Hi Hj Hk. apply los_antisym; auto. Qed.

Notation LOW := (lowering (arr T) okT leT).

(* the traveltime component of one sweep call, as a map on traveltime arrays *)
Definition swT (slow : arr T) (dargs : dargsT) (sgnvz sgnvx sgnvy sgntz sgntx sgnty i j k : Z) (tt : arr T) : arr T :=
  fst (sweep tt (full [] 0) slow dargs i j k sgnvz sgnvx sgnvy sgntz sgntx sgnty nz nx ny false).

Lemma swT_lowering slow dargs a b c d e f i j k :
  0 <= i < nz -> 0 <= j < nx -> 0 <= k < ny -> LOW (swT slow dargs a b c d e f i j k).
Proof.
  intros Hi Hj Hk tt Hok. unfold swT.
  destruct (sweep_tt_shape tt (full [] 0) slow dargs i j k a b c d e f nz nx ny false) as (t2d & t3d & ->).
  split; [apply okT_set; auto|]. intros p q r Hp Hq Hr.
  destruct (list_eq_dec_Z [i; j; k] [p; q; r]) as [Eq|Ne].
  - injection Eq as <- <- <-. rewrite get_set_same; [apply pymin4_los | apply Hok | apply inb_ok; auto].
  - rewrite get_set_other; [apply los_refl | apply inb_ok; auto | apply inb_ok; auto | exact Ne].
Qed.

(* a call that leaves the array unchanged certifies that the 1D candidate is not smaller than the node value *)
Lemma swT_fixed slow dargs a b c d e f i j k tt :
  okT tt -> 0 <= i < nz -> 0 <= j < nx -> 0 <= k < ny -> swT slow dargs a b c d e f i j k tt = tt ->
  nltb (pymin3 (sweep_t1d1 tt slow (dz_of dargs) i j k a d nx ny)
               (sweep_t1d2 tt slow (dx_of dargs) i j k b e nz ny)
               (sweep_t1d3 tt slow (dy_of dargs) i j k c f nz nx))
       (g tt [i; j; k]) = false.
Proof.
  intros Hok Hi Hj Hk. unfold swT.
  destruct (sweep_tt_shape tt (full [] 0) slow dargs i j k a b c d e f nz nx ny false) as (t2d & t3d & ->).
  intros E.
  match type of E with set _ _ ?v = _ =>
    assert (G := get_set_same (nofZ 0) tt [i; j; k] v (proj1 Hok) (inb_ok tt i j k Hok Hi Hj Hk)) end.
  rewrite E in G. symmetry in G. apply pymin4_fix in G. exact G.
Qed.

(* one pass = three nested loops with fixed directions (uz, ux, uy); sweep3d = the eight passes in the code's order *)
Definition pass3T (slow : arr T) (dargs : dargsT) (uz ux uy : bool) (tt : arr T) : arr T :=
  for_list (dir_range uy ny) (fun k tt =>
    for_list (dir_range ux nx) (fun j tt =>
      for_list (dir_range uz nz) (fun i tt =>
        swT slow dargs (sgnv uz) (sgnv ux) (sgnv uy) (sgnt uz) (sgnt ux) (sgnt uy) i j k tt) tt) tt) tt.

Definition sweep3dT (slow : arr T) (dargs : dargsT) (tt : arr T) : arr T :=
  let tt := pass3T slow dargs true true true tt in
  let tt := pass3T slow dargs true false true tt in
  let tt := pass3T slow dargs true true false tt in
  let tt := pass3T slow dargs true false false tt in
  let tt := pass3T slow dargs false true true tt in
  let tt := pass3T slow dargs false false true tt in
  let tt := pass3T slow dargs false true false tt in
  let tt := pass3T slow dargs false false false tt in
  tt.

(* sweep3d projects onto sweep3dT; the only facts needed about `dargs` are its first three components.
   All eight passes are handled by the one tactic proj_solve. *)
Lemma sweep3d_proj slow dz dx dy :
  exists dargs, (forall tt ttsgn grad,
     fst (sweep3d tt ttsgn slow dz dx dy nz nx ny grad) = sweep3dT slow dargs tt)
   /\ dz_of dargs = dz /\ dx_of dargs = dx /\ dy_of dargs = dy.
Proof.
  eexists. split; [| split; [| split]].
  - intros tt ttsgn grad. cbv beta iota delta [sweep3d sweep3dT pass3T dir_range sgnv sgnt].
    proj_solve ltac:(subst; unfold swT; apply sweep_tt_indep).
  - reflexivity.
  - reflexivity.
  - reflexivity.
Qed.

Section Nest.
Variables (slow : arr T) (dargs : dargsT).
Notation sw := (swT slow dargs).
Notation pass := (pass3T slow dargs).

Definition passes : list (arr T -> arr T) :=
  [pass true true true; pass true false true; pass true true false; pass true false false;
   pass false true true; pass false false true; pass false true false; pass false false false].
Lemma sweep3dT_chain tt : sweep3dT slow dargs tt = chain (arr T) passes tt.
Proof. reflexivity. Qed.
Lemma in_passes uz ux uy : In (pass uz ux uy) passes.
Proof. destruct uz, ux, uy; simpl; auto 10. Qed.

Lemma call_low (uz ux uy : bool) k j i :
  In k (dir_range uy ny) -> In j (dir_range ux nx) -> In i (dir_range uz nz) ->
  LOW ((fun k j i tt => sw (sgnv uz) (sgnv ux) (sgnv uy) (sgnt uz) (sgnt ux) (sgnt uy) i j k tt) k j i).
Proof. intros Hk Hj Hi. apply in_dir_range, dir_ok_range in Hk, Hj, Hi. apply swT_lowering; auto. Qed.

(* one lemma for all eight passes *)
Lemma pass_low uz ux uy : LOW (pass uz ux uy).
Proof.
  apply (lowering_for3 (arr T) okT leT leT_refl leT_trans (dir_range uy ny) (dir_range ux nx) (dir_range uz nz)
           (fun k j i tt => sw (sgnv uz) (sgnv ux) (sgnv uy) (sgnt uz) (sgnt ux) (sgnt uy) i j k tt)).
  intros k j i. apply call_low.
Qed.
Lemma passes_low : Forall LOW passes.
Proof. unfold passes. repeat (apply Forall_cons; [apply pass_low|]). apply Forall_nil. Qed.
Lemma sweep3dT_low : LOW (sweep3dT slow dargs).
Proof. intros tt Hok. rewrite sweep3dT_chain.
  apply (lowering_chain (arr T) okT leT leT_refl leT_trans passes passes_low); auto. Qed.

(* at a fixed point of the whole nest every single call is the identity *)
Lemma sweep3dT_fixed_calls tt :
  okT tt -> sweep3dT slow dargs tt = tt ->
  forall uz ux uy i j k, dir_ok uz i nz -> dir_ok ux j nx -> dir_ok uy k ny ->
    sw (sgnv uz) (sgnv ux) (sgnv uy) (sgnt uz) (sgnt ux) (sgnt uy) i j k tt = tt.
Proof.
  intros Hok E uz ux uy i j k Hi Hj Hk. rewrite sweep3dT_chain in E.
  pose proof (fixed_chain (arr T) okT leT leT_refl leT_trans leT_antisym passes tt passes_low Hok E) as F.
  rewrite Forall_forall in F. specialize (F _ (in_passes uz ux uy)).
  apply (fixed_for3 (arr T) okT leT leT_refl leT_trans leT_antisym (dir_range uy ny) (dir_range ux nx) (dir_range uz nz)
           (fun k j i tt => sw (sgnv uz) (sgnv ux) (sgnv uy) (sgnt uz) (sgnt ux) (sgnt uy) i j k tt) tt);
    try (apply in_dir_range; assumption); auto.
  intros k' j' i'. apply call_low.
Qed.

Lemma sweep3dT_fixed_dirs tt :
  okT tt -> sweep3dT slow dargs tt = tt ->
  forall uz ux uy i j k, dir_ok uz i nz -> dir_ok ux j nx -> dir_ok uy k ny ->
    let t0 := g tt [i; j; k] in
    let t1 := sweep_t1d1 tt slow (dz_of dargs) i j k (sgnv uz) (sgnt uz) nx ny in
    let t2 := sweep_t1d2 tt slow (dx_of dargs) i j k (sgnv ux) (sgnt ux) nz ny in
    let t3 := sweep_t1d3 tt slow (dy_of dargs) i j k (sgnv uy) (sgnt uy) nz nx in
    nltb t1 t0 = false /\ (comparable t1 t2 t0 -> nltb t2 t0 = false) /\
    (comparable (pymin2 t1 t2) t3 t0 -> nltb t3 t0 = false).
Proof.
  intros Hok E uz ux uy i j k Hi Hj Hk t0 t1 t2 t3.
  pose proof (sweep3dT_fixed_calls tt Hok E uz ux uy i j k Hi Hj Hk) as Ec.
  apply swT_fixed in Ec; [ | assumption | eapply dir_ok_range; eassumption ..].
  fold t0 t1 t2 t3 in Ec. split; [| split].
  - eapply pymin3_fix_1; eauto.
  - intros Hc. eapply pymin3_fix_2; eauto.
  - intros Hc. eapply pymin3_fix_3; eauto.
Qed.
End Nest.

(* ---------- B ---------- *)
Theorem sweep3d_lowers tt ttsgn slow dz dx dy grad :
  okT tt ->
  okT (fst (sweep3d tt ttsgn slow dz dx dy nz nx ny grad)) /\
  leT (fst (sweep3d tt ttsgn slow dz dx dy nz nx ny grad)) tt.
Proof.
  intros Hok. destruct (sweep3d_proj slow dz dx dy) as (dargs & E & _).
  rewrite E. apply sweep3dT_low; auto.
Qed.

(* ---------- C ---------- *)
Theorem sweep3d_tt_indep tt ttsgn ttsgn' slow dz dx dy grad grad' :
  fst (sweep3d tt ttsgn slow dz dx dy nz nx ny grad) = fst (sweep3d tt ttsgn' slow dz dx dy nz nx ny grad').
Proof.
  destruct (sweep3d_proj slow dz dx dy) as (dargs & E & _).
  rewrite (E tt ttsgn grad), (E tt ttsgn' grad'). reflexivity.
Qed.

(* ---------- D ---------- *)
(* explicit form of the three 1D candidates of node (i,j,k) for a loop direction (true = neighbour at index - 1) *)
Definition zcand (tt slow : arr T) (dz : T) (u : bool) (i j k : Z) : T :=
  if u then nadd (g tt [i - 1; j; k]) (nmul dz (smin_zedge nx ny slow (i - 1) j k))
       else nadd (g tt [i + 1; j; k]) (nmul dz (smin_zedge nx ny slow i j k)).
Definition xcand (tt slow : arr T) (dx : T) (u : bool) (i j k : Z) : T :=
  if u then nadd (g tt [i; j - 1; k]) (nmul dx (smin_xedge nz ny slow i (j - 1) k))
       else nadd (g tt [i; j + 1; k]) (nmul dx (smin_xedge nz ny slow i j k)).
Definition ycand (tt slow : arr T) (dy : T) (u : bool) (i j k : Z) : T :=
  if u then nadd (g tt [i; j; k - 1]) (nmul dy (smin_yedge nz nx slow i j (k - 1)))
       else nadd (g tt [i; j; k + 1]) (nmul dy (smin_yedge nz nx slow i j k)).
Lemma t1d1_cand tt slow dz u i j k : sweep_t1d1 tt slow dz i j k (sgnv u) (sgnt u) nx ny = zcand tt slow dz u i j k.
Proof. destruct u; unfold sweep_t1d1, zcand; cbn [sgnv sgnt]; [reflexivity|].
  replace (i - -1) with (i + 1) by lia. replace (i - 0) with i by lia. reflexivity. Qed.
Lemma t1d2_cand tt slow dx u i j k : sweep_t1d2 tt slow dx i j k (sgnv u) (sgnt u) nz ny = xcand tt slow dx u i j k.
Proof. destruct u; unfold sweep_t1d2, xcand; cbn [sgnv sgnt]; [reflexivity|].
  replace (j - -1) with (j + 1) by lia. replace (j - 0) with j by lia. reflexivity. Qed.
Lemma t1d3_cand tt slow dy u i j k : sweep_t1d3 tt slow dy i j k (sgnv u) (sgnt u) nz nx = ycand tt slow dy u i j k.
Proof. destruct u; unfold sweep_t1d3, ycand; cbn [sgnv sgnt]; [reflexivity|].
  replace (k - -1) with (k + 1) by lia. replace (k - 0) with k by lia. reflexivity. Qed.

Lemma sweep3d_fixed_cands tt ttsgn slow dz dx dy grad :
  okT tt -> fst (sweep3d tt ttsgn slow dz dx dy nz nx ny grad) = tt ->
  forall uz ux uy i j k, dir_ok uz i nz -> dir_ok ux j nx -> dir_ok uy k ny ->
    let t0 := g tt [i; j; k] in
    let z := zcand tt slow dz uz i j k in
    let x := xcand tt slow dx ux i j k in
    let y := ycand tt slow dy uy i j k in
    nltb z t0 = false /\ (comparable z x t0 -> nltb x t0 = false) /\ (comparable (pymin2 z x) y t0 -> nltb y t0 = false).
Proof.
  intros Hok E uz ux uy i j k Hi Hj Hk.
  destruct (sweep3d_proj slow dz dx dy) as (dargs & Ep & Edz & Edx & Edy).
  rewrite Ep in E.
  pose proof (sweep3dT_fixed_dirs slow dargs tt Hok E uz ux uy i j k Hi Hj Hk) as F.
  rewrite Edz, Edx, Edy, t1d1_cand, t1d2_cand, t1d3_cand in F. exact F.
Qed.

(* At a fixed point of sweep3d, for every node (i,j,k) with value t0:
     zup/zdn : value at the Z-neighbour above/below plus dz * (min slowness of the 4 cells adjoining that edge) is not
               < t0 (always);
     xup/xdn : the same for the X-neighbours, provided the Z-candidate z of the same sweep call is comparable
               (comparable z x t0 := nltb x z = false -> nltb x t0 = true -> nltb z t0 = true);
     yup/ydn : the same for the Y-neighbours, provided min(z, x) of the same call is comparable.
   The side conditions are needed because Python's min keeps its accumulator when the comparison is false, so a NaN
   in an earlier candidate hides the later ones (lib/Lower.v, pymin2_fix_r).  In a total order they always hold, see
   sweep3d_fixed_edges_R. *)
Theorem sweep3d_fixed_edges tt ttsgn slow dz dx dy grad :
  okT tt -> fst (sweep3d tt ttsgn slow dz dx dy nz nx ny grad) = tt ->
  forall i j k, 0 <= i < nz -> 0 <= j < nx -> 0 <= k < ny ->
  let t0 := g tt [i; j; k] in
  let zup := nadd (g tt [i - 1; j; k]) (nmul dz (smin_zedge nx ny slow (i - 1) j k)) in
  let zdn := nadd (g tt [i + 1; j; k]) (nmul dz (smin_zedge nx ny slow i j k)) in
  let xup := nadd (g tt [i; j - 1; k]) (nmul dx (smin_xedge nz ny slow i (j - 1) k)) in
  let xdn := nadd (g tt [i; j + 1; k]) (nmul dx (smin_xedge nz ny slow i j k)) in
  let yup := nadd (g tt [i; j; k - 1]) (nmul dy (smin_yedge nz nx slow i j (k - 1))) in
  let ydn := nadd (g tt [i; j; k + 1]) (nmul dy (smin_yedge nz nx slow i j k)) in
  let zc z := (1 <= i /\ z = zup) \/ (i <= nz - 2 /\ z = zdn) in
  let xc x := (1 <= j /\ x = xup) \/ (j <= nx - 2 /\ x = xdn) in
  (1 <= i -> nltb zup t0 = false) /\
  (i <= nz - 2 -> nltb zdn t0 = false) /\
  (1 <= j -> forall z, zc z -> comparable z xup t0 -> nltb xup t0 = false) /\
  (j <= nx - 2 -> forall z, zc z -> comparable z xdn t0 -> nltb xdn t0 = false) /\
  (1 <= k -> forall z x, zc z -> xc x -> comparable (pymin2 z x) yup t0 -> nltb yup t0 = false) /\
  (k <= ny - 2 -> forall z x, zc z -> xc x -> comparable (pymin2 z x) ydn t0 -> nltb ydn t0 = false).
Proof.
  intros Hok E i j k Hi Hj Hk t0 zup zdn xup xdn yup ydn zc xc.
  pose proof (sweep3d_fixed_cands tt ttsgn slow dz dx dy grad Hok E) as F.
  destruct (exists_dir i nz Hnz Hi) as [uz0 Hz0].
  destruct (exists_dir j nx Hnx Hj) as [ux0 Hx0].
  destruct (exists_dir k ny Hny Hk) as [uy0 Hy0].
  assert (Zc : forall z, zc z -> exists uz, dir_ok uz i nz /\ z = zcand tt slow dz uz i j k).
  { intros z [[Hz ->]|[Hz ->]]; [exists true | exists false]; split; simpl; auto; lia. }
  assert (Xc : forall x, xc x -> exists ux, dir_ok ux j nx /\ x = xcand tt slow dx ux i j k).
  { intros x [[Hx ->]|[Hx ->]]; [exists true | exists false]; split; simpl; auto; lia. }
  repeat split.
  - intros Hd. apply (F true ux0 uy0 i j k); simpl; auto; lia.
  - intros Hd. apply (F false ux0 uy0 i j k); simpl; auto; lia.
  - intros Hd z Hz Hc. destruct (Zc z Hz) as (uz & Hu & ->).
    apply (F uz true uy0 i j k); simpl; auto; lia.
  - intros Hd z Hz Hc. destruct (Zc z Hz) as (uz & Hu & ->).
    apply (F uz false uy0 i j k); simpl; auto; lia.
  - intros Hd z x Hz Hx Hc. destruct (Zc z Hz) as (uz & Hu & ->). destruct (Xc x Hx) as (ux & Hv & ->).
    apply (F uz ux true i j k); simpl; auto; lia.
  - intros Hd z x Hz Hx Hc. destruct (Zc z Hz) as (uz & Hu & ->). destruct (Xc x Hx) as (ux & Hv & ->).
    apply (F uz ux false i j k); simpl; auto; lia.
Qed.
End P.

(* ---------- real-number instance: no side condition, two-sided bound on every edge ---------- *)
Theorem sweep3d_fixed_edges_R (nz nx ny : Z) (tt : arr R) ttsgn (slow : arr R) (dz dx dy : R) grad :
  2 <= nz -> 2 <= nx -> 2 <= ny ->
  okT nz nx ny tt -> fst (sweep3d tt ttsgn slow dz dx dy nz nx ny grad) = tt ->
  (forall c j k, 0 <= c <= nz - 2 -> 0 <= j <= nx - 1 -> 0 <= k <= ny - 1 ->
     (Rabs (get 0 tt [(c + 1)%Z; j; k] - get 0 tt [c; j; k]) <= dz * smin_zedge nx ny slow c j k)%R) /\
  (forall i c k, 0 <= i <= nz - 1 -> 0 <= c <= nx - 2 -> 0 <= k <= ny - 1 ->
     (Rabs (get 0 tt [i; (c + 1)%Z; k] - get 0 tt [i; c; k]) <= dx * smin_xedge nz ny slow i c k)%R) /\
  (forall i j c, 0 <= i <= nz - 1 -> 0 <= j <= nx - 1 -> 0 <= c <= ny - 2 ->
     (Rabs (get 0 tt [i; j; (c + 1)%Z] - get 0 tt [i; j; c]) <= dy * smin_yedge nz nx slow i j c)%R).
Proof.
  intros Hnz Hnx Hny Hok E.
  pose proof (sweep3d_fixed_cands nz nx ny Hnz Hnx Hny tt ttsgn slow dz dx dy grad Hok E) as F.
  assert (G : forall uz ux uy i j k, dir_ok uz i nz -> dir_ok ux j nx -> dir_ok uy k ny ->
     (get 0%R tt [i; j; k] <= zcand nx ny tt slow dz uz i j k)%R /\
     (get 0%R tt [i; j; k] <= xcand nz ny tt slow dx ux i j k)%R /\
     (get 0%R tt [i; j; k] <= ycand nz nx tt slow dy uy i j k)%R).
  { intros uz ux uy i j k Hi Hj Hk. destruct (F uz ux uy i j k Hi Hj Hk) as (A & B & C).
    specialize (B (comparable_R _ _ _)). specialize (C (comparable_R _ _ _)).
    simpl in A, B, C. apply Rltb_false in A, B, C. auto. }
  clear F. repeat split.
  - intros c j k Hc Hj Hk.
    destruct (exists_dir j nx Hnx ltac:(lia)) as [ux Hx]. destruct (exists_dir k ny Hny ltac:(lia)) as [uy Hy].
    destruct (G true ux uy (c + 1) j k ltac:(simpl; lia) Hx Hy) as (A & _).
    destruct (G false ux uy c j k ltac:(simpl; lia) Hx Hy) as (B & _).
    unfold zcand in A, B. replace (c + 1 - 1) with c in A by lia. simpl in A, B. apply Rabs_le. lra.
  - intros i c k Hi Hc Hk.
    destruct (exists_dir i nz Hnz ltac:(lia)) as [uz Hz]. destruct (exists_dir k ny Hny ltac:(lia)) as [uy Hy].
    destruct (G uz true uy i (c + 1) k Hz ltac:(simpl; lia) Hy) as (_ & A & _).
    destruct (G uz false uy i c k Hz ltac:(simpl; lia) Hy) as (_ & B & _).
    unfold xcand in A, B. replace (c + 1 - 1) with c in A by lia. simpl in A, B. apply Rabs_le. lra.
  - intros i j c Hi Hj Hc.
    destruct (exists_dir i nz Hnz ltac:(lia)) as [uz Hz]. destruct (exists_dir j nx Hnx ltac:(lia)) as [ux Hx].
    destruct (G uz ux true i j (c + 1) Hz Hx ltac:(simpl; lia)) as (_ & _ & A).
    destruct (G uz ux false i j c Hz Hx ltac:(simpl; lia)) as (_ & _ & B).
    unfold ycand in A, B. replace (c + 1 - 1) with c in A by lia. simpl in A, B. apply Rabs_le. lra.
Qed.

Print Assumptions sweep3d_lowers.
Print Assumptions sweep3d_tt_indep.
Print Assumptions sweep3d_fixed_edges.
Print Assumptions sweep3d_fixed_edges_R.
