(* C05 (unit invariance) for the WHOLE 2D solver (gen/Fteik2d.v: fteik2d = fteik2d_p1 ; fteik2d_p2 ; nsweep * sweep2d ;
   gradient), over the reals (T := R, instance NumR).  Both unit changes are treated at once (`skind` of InitExact):

     slowness unit   every slowness multiplied by c > 0:        fteik2d (smap c slow) dz dx zsrc xsrc nsweep grad
     length unit     dz, dx, zsrc, xsrc multiplied by c > 0:    fteik2d slow (c dz) (c dx) (c zsrc) (c xsrc) nsweep grad

   MAIN RESULTS
     fteik2d_scale_slowness, fteik2d_scale_length   (1), (2):  if the reference problem returns Ok (tt, g, vz) then the
         scaled problem returns Ok (tt', g', vz') with vz' = c vz (slowness) resp. vz' = vz (length) and
         TRel nz nx c tt tt' /\ SameReach nz nx tt tt'  (nz = dim slow 0 + 1, nx = dim slow 1 + 1), i.e. for every node
         (TRel_SameReach_spelled_out):   tt'[i,j] = c tt[i,j] with both sides < Big,  or  tt[i,j] = tt'[i,j] = Big.
         Hypotheses on the data: c > 0, dz > 0, dx > 0, at least one cell per axis, every slowness >= 0.
         The gradient output g' is NOT characterised (it depends on which candidate wins the min, i.e. on ties).
     fteik2d_scale_raises (+ _slowness_raises, _length_raises, fteik2d_scale_ok_iff)   (3): the scaled problem raises
         ValueError iff the reference problem does; no caveat, no hypothesis on the model.
     fteik2d_scale_slowness_bounded, fteik2d_scale_length_bounded   c >= 1: the same conclusion from a caveat made of
         numbers only (see below).
     fteik2d_scale_slowness_ex, fteik2d_scale_length_ex, hx_SweepCav, fteik2d_scale_raises_ex   non-vacuity: a
         heterogeneous model of 2 x 2 cells, off-node source, two sweeps, c = 2.

   THE CAVEAT.  The code uses the absolute constant Big = 1e5 as "not reached yet"; Big does not scale.  What is needed is
   that Big really behaves as +infinity in the reference run and still does after multiplication by c:
     Below c q :=  q < Big /\ c q < Big          Side c q :=  Below c q \/ (Big <= q /\ Big <= c q)
   (for c <= 1 and q >= 0, Below c q is just q < Big; for c >= 1 and q >= 0 it is just c q < Big: Below_le1, Below_ge1).
   (a) initialisation (hypothesis Hinit, the only two-sided one): `SameReach` of the two initial grids (the grids before
       the first sweep, `i_tt` of Solve2dProofs): every node is reached (< Big) in both runs or unreached (= Big) in both.
       [A condition on the reference run alone cannot do: a time computed as exactly Big by the initialisation of the
       reference run is c Big in the other.]  For c >= 1 it follows from bounds: init_SameReach_ge1.
   (b) sweeping phase (hypothesis Hsweep = `SweepCav`, on the REFERENCE run only, any c > 0): before every node update
       performed by the reference run (`Along` walks through `all_steps`: nsweep times the updates of one sweep2d, in
       program order, each in the grid reached at that point), `NodeCav` holds.  With t0 = tt[i,j], tv / te / tev the
       z- / x- / diagonal upwind neighbours, vz / vx the edge slownesses of the two 1D operators, vref the slowness of
       the upwind cell (`node_cav`):
         N1  tv < Big -> Below c (tv + dz vz)          N2  te < Big -> Below c (te + dx vx)
         and, in the plane-wave branch (node outside the source box) only,
         N3  tv = Big -> te < Big -> tev < Big -> Below c (te + dx vref)
         N4  te = Big -> tv < Big -> tev < Big -> Below c (tv + dz vref) /\ Below c (tev + dz^2 vref / sqrt (dx^2 + dz^2))
         N5  t0 = tv = te = Big -> tev < Big -> Side c (the 2D candidate, here the diagonal update
                                                       tev + 2 vref / sqrt (1/dz^2 + 1/dx^2))
       N1, N2: a 1D candidate built on a reached neighbour stays below Big.  N3, N4: when one axial neighbour is
       unreached, the tests of the 4-point / 3-point operators that compare it with "reached neighbour + spacing *
       slowness" must fail in both runs (if they passed, the operator would compute with Big as if it were a time).
       N5: the only case where a 2D candidate is compared with Big itself.  The spherical branch needs nothing.
   (c) simple sufficient form (SweepCav_of_bound; fteik2d_scale_*_bounded for c >= 1): with h >= dz, dx, every slowness
       in [0, S], every entry of the initial grid of the reference run equal to Big or in [0, M], of the scaled run
       equal to Big or in [0, M'] with M' < Big, and N = length (all_steps nz nx nsweep) node updates:
           c (M + N (2 h S)) < Big.
       (every update adds at most 2 h S to the largest reached time: do_step_bnd.)  init_Bnd_rowcol gives such an M
       when the model is homogeneous along the row and the column of cells through the source cell.

   STRUCTURE
     1  values: vrel (grid entries), crel / prel (candidates), min lemmas
     2  the operators under `skind`; plane_rel (the case analysis on which neighbours are reached), spherical_rel
     3  node_cav, node_new (the value `sweep` writes), node_new_rel
     4  GRel (grids, on the data: no index range needed), GRel <-> TRel + SameReach
     5  sweep2d = run over sweep_steps (list of node updates); Along; do_step_rel, run_rel (pass-level lemma)
     6  fteik2d_p1 under both scalings (p1_sc: only vzero changes; (c zsrc)/(c dz) = zsrc/dz), inside2d_sc, init_rel
        (from InitExact.init_scale when iflag = 2, directly otherwise), sweeps_rel, solver_rel
     7  the theorems;  8  the numerical form of the caveat;  9  init_Bnd_rowcol;  10  c >= 1;  11  examples *)
From Coq Require Import ZArith List Bool Lia Reals Lra Psatz.
From FT.lib Require Import Num Arr ArrLemmas.
From FT.gen Require Import Fteik2d.
From FT.proofs Require Import OperatorsR Sweep2dProofs Solve2dProofs NonNeg2d InitSym InitExact Pos2d.
Import ListNotations.
Open Scope R_scope.

(* ========================================================================================== *)
(* 1. values: "reached" (below Big in both runs, and scaled) or "not reached" (the placeholder)  *)
(* ========================================================================================== *)
Notation BigR := (@Big R NumR).

Lemma BigR_val : BigR = 100000.
Proof. reflexivity. Qed.
Lemma BigR_pos : 0 < BigR.
Proof. rewrite BigR_val. lra. Qed.

(* q is below the placeholder in the reference run and stays below it after multiplication by c *)
Definition Below (c q : R) : Prop := q < BigR /\ c * q < BigR.
(* q and c * q are on the same side of the placeholder *)
Definition Side (c q : R) : Prop := Below c q \/ (BigR <= q /\ BigR <= c * q).

(* grid entries: scaled and below Big on both sides, or the placeholder on both sides *)
Definition vrel (c x x' : R) : Prop := (x' = c * x /\ x < BigR /\ x' < BigR) \/ (x = BigR /\ x' = BigR).
(* candidates: scaled and below Big on both sides, or useless (>= Big) on both sides *)
Definition crel (c x x' : R) : Prop := (x' = c * x /\ x < BigR /\ x' < BigR) \/ (BigR <= x /\ BigR <= x').
(* candidates compared with a reached value: scaled, or useless on both sides *)
Definition prel (c x x' : R) : Prop := x' = c * x \/ (BigR <= x /\ BigR <= x').

Lemma vrel_t2rel c x x' : vrel c x x' -> t2rel c x x'.
Proof. intros [(E & _ & _)|[E E']]; [left; exact E | right; split; assumption]. Qed.
Lemma t2rel_prel c x x' : t2rel c x x' -> prel c x x'.
Proof. intros [E|[E E']]; [left; exact E | right; rewrite E, E'; split; apply Rle_refl]. Qed.
Lemma vrel_zero c : vrel c 0 0.
Proof. left. pose proof BigR_pos. repeat split; [ring | lra | lra]. Qed.
Lemma vrel_Big c : vrel c BigR BigR.
Proof. right. split; reflexivity. Qed.
Lemma vrel_cases c x x' : vrel c x x' -> (x < BigR /\ x' = c * x /\ x' < BigR) \/ (x = BigR /\ x' = BigR).
Proof. intros [(E & L & L')|H]; [left; auto | right; exact H]. Qed.
Lemma crel_of_side c q : Side c q -> crel c q (c * q).
Proof. intros [[L L']|[G G']]; [left; auto | right; auto]. Qed.
Lemma crel_inf c x x' : BigR <= x -> BigR <= x' -> crel c x x'.
Proof. intros; right; auto. Qed.
Lemma prel_inf c x x' : BigR <= x -> BigR <= x' -> prel c x x'.
Proof. intros; right; auto. Qed.

Ltac rb :=
  repeat match goal with
         | H : Rltb _ _ = true |- _ => apply Rltb_true in H
         | H : Rltb _ _ = false |- _ => apply Rltb_false in H
         | H : Rleb _ _ = true |- _ => apply Rleb_true in H
         | H : Rleb _ _ = false |- _ => apply Rleb_false in H
         end.

Lemma pymin2_R (a b : R) : pymin2 a b = if Rltb b a then b else a.
Proof. reflexivity. Qed.

Section Min.
Variable c : R.
Hypothesis Hc : 0 < c.

Lemma pymin2_crel a a' b b' : crel c a a' -> crel c b b' -> crel c (pymin2 a b) (pymin2 a' b').
Proof.
  intros [(Ea & La & La')|[Ga Ga']] [(Eb & Lb & Lb')|[Gb Gb']]; rewrite !pymin2_R.
  - subst a' b'. rewrite Rltb_scale by exact Hc. destruct (Rltb b a); left; auto.
  - destruct (Rltb b a) eqn:E1, (Rltb b' a') eqn:E2; rb; try lra. left; auto.
  - destruct (Rltb b a) eqn:E1, (Rltb b' a') eqn:E2; rb; try lra. left; auto.
  - destruct (Rltb b a), (Rltb b' a'); right; auto.
Qed.

Lemma pymin2_vc a a' b b' : vrel c a a' -> crel c b b' -> vrel c (pymin2 a b) (pymin2 a' b').
Proof.
  intros [(Ea & La & La')|[Ga Ga']] [(Eb & Lb & Lb')|[Gb Gb']]; rewrite !pymin2_R.
  - subst a' b'. rewrite Rltb_scale by exact Hc. destruct (Rltb b a); left; auto.
  - destruct (Rltb b a) eqn:E1, (Rltb b' a') eqn:E2; rb; try lra. left; auto.
  - subst a a'. destruct (Rltb b BigR) eqn:E1, (Rltb b' BigR) eqn:E2; rb; try lra. left; auto.
  - subst a a'. destruct (Rltb b BigR) eqn:E1, (Rltb b' BigR) eqn:E2; rb; try lra. right; auto.
Qed.

(* the last min of a node update: the 2D candidate *)
Lemma pymin2_vp m m' t t' :
  vrel c m m' -> (m < BigR -> prel c t t') -> (m = BigR -> crel c t t') -> vrel c (pymin2 m t) (pymin2 m' t').
Proof.
  intros [(Em & Lm & Lm')|[Gm Gm']] Hp Hcr.
  - destruct (Hp Lm) as [Et|[Gt Gt']]; rewrite !pymin2_R.
    + subst m' t'. rewrite Rltb_scale by exact Hc. destruct (Rltb t m) eqn:E1; rb; left; repeat split; auto; nra.
    + destruct (Rltb t m) eqn:E1, (Rltb t' m') eqn:E2; rb; try lra. left; auto.
  - apply pymin2_vc; [right; auto | apply Hcr, Gm].
Qed.
End Min.

(* ========================================================================================== *)
(* 2. the operators of one node update under both unit changes at once (skind of InitExact)      *)
(* ========================================================================================== *)
(* the bound of the 3-point test through the x-neighbour *)
Definition K3 (dz dx vref : R) : R := dz * dz * vref / sqrt (dx * dx + dz * dz).

Lemma adm4_false tv te tev vref dz dx :
  ~ (tv <= te + dx * vref /\ te <= tv + dz * vref /\ tev <= te /\ tev <= tv) -> adm4 tv te tev vref dz dx = false.
Proof. exact (proj2 (bool_false_iff _ _ (adm4_true tv te tev vref dz dx))). Qed.
Lemma adm3e_false te tev vref dz dx :
  ~ (te - tev <= K3 dz dx vref /\ 0 < te - tev) -> adm3e te tev vref dz dx = false.
Proof. exact (proj2 (bool_false_iff _ _ (adm3e_true te tev vref dz dx))). Qed.
Lemma adm3v_false tv tev vref dz dx : ~ (0 < tv - tev) -> adm3v tv tev vref dz dx = false.
Proof. intros N. apply (proj2 (bool_false_iff _ _ (adm3v_true tv tev vref dz dx))). tauto. Qed.
Lemma admS_false tv te tev vref dz dx :
  ~ (tv < te + dx * vref /\ te < tv + dz * vref /\ tev <= te /\ tev <= tv) -> admS tv te tev vref dz dx = false.
Proof. exact (proj2 (bool_false_iff _ _ (admS_true tv te tev vref dz dx))). Qed.

Lemma three_point_e_ge te tev vref dz dx : 0 <= dx -> te <= three_point_e te tev vref dz dx.
Proof. intros Hdx. unfold three_point_e. pose proof (sqrt_pos (vref * vref - (te - tev) / dz * ((te - tev) / dz))). nra. Qed.
Lemma three_point_v_ge tv tev vref dz dx : 0 <= dz -> tv <= three_point_v tv tev vref dz dx.
Proof. intros Hdz. unfold three_point_v. pose proof (sqrt_pos (vref * vref - (tv - tev) / dx * ((tv - tev) / dx))). nra. Qed.

(* the 4-point operator only sees the difference of the two axial neighbours *)
Lemma four_point_shift x tev vref a b : four_point x x tev vref a b = four_point 0 0 tev vref a b.
Proof.
  unfold four_point. cbv zeta.
  replace (tev + x - x) with (tev + 0 - 0) by ring. replace (tev - x + x) with (tev - 0 + 0) by ring. reflexivity.
Qed.
Lemma four_point_diag_ge x tev vref a b : 0 < a + b -> tev <= four_point x x tev vref a b.
Proof.
  intros Hab. rewrite four_point_shift. unfold four_point. cbv zeta.
  match goal with |- _ <= (_ + sqrt ?r) / _ => pose proof (sqrt_pos r) as Hs; set (s := sqrt r) in * end.
  apply (Rmult_le_reg_r (a + b)); [exact Hab|]. unfold Rdiv. rewrite Rmult_assoc, Rinv_l by lra. lra.
Qed.

(* the spherical operator is useless as soon as an axial neighbour is the placeholder *)
Lemma spherical_ge tv te tev vref dz dx dzi dxi dz2i dx2i zsa xsa vzero i j sgntz sgntx :
  tv = BigR \/ te = BigR ->
  BigR <= spherical_t2d tv te tev vref dz dx dzi dxi dz2i dx2i zsa xsa vzero i j sgntz sgntx.
Proof.
  intros Hb. unfold spherical_t2d. destruct (admS tv te tev vref dz dx); [|apply Rle_refl]. cbv zeta.
  set (d := spherical_raw _ _ _ _ _ _ _ _ _ _ _ _ _ _ _ _ _).
  destruct (Rltb d tv) eqn:E1; cbn [orb]; [apply Rle_refl|].
  destruct (Rltb d te) eqn:E2; [apply Rle_refl|]. rb. destruct Hb; lra.
Qed.

Section Ops.
Variables (c : R) (k : skind).
Hypothesis Hc : 0 < c.

Lemma sc_h_pos h : 0 < h -> 0 < sc_h k c h.
Proof. intros Hh. destruct k; cbn [sc_h]; [exact Hh | nra]. Qed.
Lemma sc_v_nonneg v : 0 <= v -> 0 <= sc_v k c v.
Proof. intros Hv. destruct k; cbn [sc_v]; [nra | exact Hv]. Qed.
Lemma sc_i2_pos q : 0 < q -> 0 < sc_i2 k c q.
Proof.
  intros Hq. destruct k; cbn [sc_i2]; [exact Hq|].
  apply Rdiv_lt_0_compat; [exact Hq | nra].
Qed.

Lemma adm4_sc tv te tev vref dz dx :
  adm4 (c * tv) (c * te) (c * tev) (sc_v k c vref) (sc_h k c dz) (sc_h k c dx) = adm4 tv te tev vref dz dx.
Proof. destruct k; cbn [sc_v sc_h]; [apply adm4_scale_slowness | apply adm4_scale_length]; exact Hc. Qed.
Lemma adm3e_sc te tev vref dz dx :
  adm3e (c * te) (c * tev) (sc_v k c vref) (sc_h k c dz) (sc_h k c dx) = adm3e te tev vref dz dx.
Proof. destruct k; cbn [sc_v sc_h]; [apply adm3e_scale_slowness | apply adm3e_scale_length]; exact Hc. Qed.
Lemma adm3v_sc tv tev vref dz dx :
  adm3v (c * tv) (c * tev) (sc_v k c vref) (sc_h k c dz) (sc_h k c dx) = adm3v tv tev vref dz dx.
Proof. destruct k; cbn [sc_v sc_h]; [apply adm3v_scale_slowness | apply adm3v_scale_length]; exact Hc. Qed.
Lemma four_point_sc tv te tev vref dz2i dx2i :
  four_point (c * tv) (c * te) (c * tev) (sc_v k c vref) (sc_i2 k c dz2i) (sc_i2 k c dx2i)
  = c * four_point tv te tev vref dz2i dx2i.
Proof. destruct k; cbn [sc_v sc_i2]; [apply four_point_scale_slowness; lra | apply four_point_scale_length; exact Hc]. Qed.
Lemma three_point_e_sc te tev vref dz dx :
  three_point_e (c * te) (c * tev) (sc_v k c vref) (sc_h k c dz) (sc_h k c dx) = c * three_point_e te tev vref dz dx.
Proof. destruct k; cbn [sc_v sc_h]; [apply three_point_e_scale_slowness | apply three_point_e_scale_length]; lra. Qed.
Lemma three_point_v_sc tv tev vref dz dx :
  three_point_v (c * tv) (c * tev) (sc_v k c vref) (sc_h k c dz) (sc_h k c dx) = c * three_point_v tv tev vref dz dx.
Proof. destruct k; cbn [sc_v sc_h]; [apply three_point_v_scale_slowness | apply three_point_v_scale_length]; lra. Qed.
Lemma plane_sc tv te tev vref dz dx dz2i dx2i :
  t2rel c (plane_t2d tv te tev vref dz dx dz2i dx2i)
          (plane_t2d (c * tv) (c * te) (c * tev) (sc_v k c vref) (sc_h k c dz) (sc_h k c dx) (sc_i2 k c dz2i) (sc_i2 k c dx2i)).
Proof. destruct k; cbn [sc_v sc_h sc_i2]; [apply plane_t2d_scale_slowness | apply plane_t2d_scale_length]; exact Hc. Qed.
Lemma spherical_sc tv te tev vref dz dx dzi dxi dz2i dx2i zsa xsa vzero i j sgntz sgntx :
  t2rel c (spherical_t2d tv te tev vref dz dx dzi dxi dz2i dx2i zsa xsa vzero i j sgntz sgntx)
          (spherical_t2d (c * tv) (c * te) (c * tev) (sc_v k c vref) (sc_h k c dz) (sc_h k c dx)
                         (sc_i k c dzi) (sc_i k c dxi) (sc_i2 k c dz2i) (sc_i2 k c dx2i) zsa xsa (sc_v k c vzero) i j sgntz sgntx).
Proof.
  destruct k; cbn [sc_v sc_h sc_i sc_i2]; [apply spherical_t2d_scale_slowness | apply spherical_t2d_scale_length]; exact Hc.
Qed.
Lemma K3_sc dz dx vref : K3 (sc_h k c dz) (sc_h k c dx) (sc_v k c vref) = c * K3 dz dx vref.
Proof.
  unfold K3. destruct k; cbn [sc_v sc_h].
  - unfold Rdiv. ring.
  - rewrite (sqrt_scale' c (dx * dx + dz * dz) (c * dx * (c * dx) + c * dz * (c * dz))) by (try lra; ring).
    unfold Rdiv. rewrite Rinv_mult. set (ir := / sqrt _). field. lra.
Qed.

(* the plane-wave branch.  N3 / N4: the tests that compare a reached neighbour (plus a slowness term) with an
   unreached one must fail on both sides. *)
Lemma plane_rel tv tv' te te' tev tev' vref dz dx dz2i dx2i :
  0 < dz -> 0 < dx -> 0 <= vref -> 0 < dz2i -> 0 < dx2i ->
  vrel c tv tv' -> vrel c te te' -> vrel c tev tev' ->
  (tv = BigR -> te < BigR -> tev < BigR -> Below c (te + dx * vref)) ->
  (te = BigR -> tv < BigR -> tev < BigR -> Below c (tv + dz * vref) /\ Below c (tev + K3 dz dx vref)) ->
  let P := plane_t2d tv te tev vref dz dx dz2i dx2i in
  let P' := plane_t2d tv' te' tev' (sc_v k c vref) (sc_h k c dz) (sc_h k c dx) (sc_i2 k c dz2i) (sc_i2 k c dx2i) in
  prel c P P' /\ (tv = BigR -> te = BigR -> (tev < BigR -> Side c P) -> crel c P P').
Proof.
  intros Hdz Hdx Hv Ha Hb Rv Re Rev N3 N4 P P'.
  pose proof (sc_h_pos dz Hdz) as Hdz'. pose proof (sc_h_pos dx Hdx) as Hdx'.
  pose proof (sc_v_nonneg vref Hv) as Hv'.
  pose proof (sc_i2_pos dz2i Ha) as Ha'. pose proof (sc_i2_pos dx2i Hb) as Hb'.
  pose proof (sc_prod k c dx vref) as Px. pose proof (sc_prod k c dz vref) as Pz.
  assert (Qx : 0 <= dx * vref) by (apply Rmult_le_pos; lra).
  assert (Qz : 0 <= dz * vref) by (apply Rmult_le_pos; lra).
  assert (Qx' : 0 <= sc_h k c dx * sc_v k c vref) by (apply Rmult_le_pos; lra).
  assert (Qz' : 0 <= sc_h k c dz * sc_v k c vref) by (apply Rmult_le_pos; lra).
  pose proof BigR_pos as HB.
  destruct (vrel_cases _ _ _ Rv) as [(Lv & Ev & Lv')|[Ev Ev']];
  destruct (vrel_cases _ _ _ Re) as [(Le & Ee & Le')|[Ee Ee']];
  destruct (vrel_cases _ _ _ Rev) as [(Lev & Eev & Lev')|[Eev Eev']].
  - (* all reached *)
    split; [|intros E; exfalso; lra]. subst P P' tv' te' tev'. apply t2rel_prel, plane_sc.
  - (* diagonal unreached: every test fails *)
    split; [|intros E; exfalso; lra]. subst P P'. unfold plane_t2d.
    rewrite !adm4_false, !adm3e_false, !adm3v_false by lra. apply prel_inf; apply Rle_refl.
  - (* x-neighbour unreached *)
    split; [|intros E; exfalso; lra]. destruct (N4 Ee Lv Lev) as [[B1 B2] [B3 B4]].
    subst P P'. unfold plane_t2d. pose proof (K3_sc dz dx vref) as EK.
    rewrite (adm4_false tv), (adm4_false tv'), (adm3e_false te), (adm3e_false te') by (rewrite ?EK; nra).
    subst tv' tev'. rewrite adm3v_sc. destruct (adm3v tv tev vref dz dx).
    + left. apply three_point_v_sc.
    + apply prel_inf; apply Rle_refl.
  - split; [|intros E; exfalso; lra]. subst P P'. unfold plane_t2d.
    rewrite !adm4_false, !adm3e_false, !adm3v_false by lra. apply prel_inf; apply Rle_refl.
  - (* z-neighbour unreached *)
    split; [|intros _ E; exfalso; lra]. destruct (N3 Ev Le Lev) as [B1 B2].
    subst P P'. unfold plane_t2d.
    rewrite (adm4_false tv), (adm4_false tv') by nra.
    subst te' tev'. rewrite adm3e_sc. destruct (adm3e te tev vref dz dx).
    + left. apply three_point_e_sc.
    + apply prel_inf.
      * destruct (adm3v tv tev vref dz dx); [|apply Rle_refl].
        eapply Rle_trans; [|apply three_point_v_ge; lra]. lra.
      * destruct (adm3v tv' _ _ _ _); [|apply Rle_refl].
        eapply Rle_trans; [|apply three_point_v_ge; lra]. lra.
  - split; [|intros _ E; exfalso; lra]. subst P P'. unfold plane_t2d.
    rewrite !adm4_false, !adm3e_false, !adm3v_false by lra. apply prel_inf; apply Rle_refl.
  - (* both axial neighbours unreached, diagonal reached: the diagonal update, which scales *)
    assert (E : P' = c * P).
    { subst P P'. unfold plane_t2d.
      rewrite (proj2 (adm4_true tv te tev vref dz dx)) by lra.
      rewrite (proj2 (adm4_true tv' te' tev' _ _ _)) by lra.
      subst tv tv' te te' tev'. rewrite (four_point_shift BigR (c * tev)), (four_point_shift BigR tev).
      rewrite <- four_point_sc. rewrite Rmult_0_r. reflexivity. }
    split; [left; exact E|]. intros _ _ HS. rewrite E. apply crel_of_side, HS, Lev.
  - (* nothing reached *)
    assert (G : BigR <= P /\ BigR <= P').
    { subst P P'. unfold plane_t2d.
      rewrite (proj2 (adm4_true tv te tev vref dz dx)) by lra.
      rewrite (proj2 (adm4_true tv' te' tev' _ _ _)) by lra.
      subst tv tv' te te'. split.
      - rewrite <- Eev at 1. apply four_point_diag_ge. lra.
      - rewrite <- Eev' at 1. apply four_point_diag_ge. lra. }
    destruct G as [G G']. split; [apply prel_inf; assumption | intros _ _ _; apply crel_inf; assumption].
Qed.

(* the spherical branch needs no caveat at all *)
Lemma spherical_rel tv tv' te te' tev tev' vref dz dx dzi dxi dz2i dx2i zsa xsa vzero i j sgntz sgntx :
  vrel c tv tv' -> vrel c te te' -> vrel c tev tev' ->
  let S := spherical_t2d tv te tev vref dz dx dzi dxi dz2i dx2i zsa xsa vzero i j sgntz sgntx in
  let S' := spherical_t2d tv' te' tev' (sc_v k c vref) (sc_h k c dz) (sc_h k c dx)
              (sc_i k c dzi) (sc_i k c dxi) (sc_i2 k c dz2i) (sc_i2 k c dx2i) zsa xsa (sc_v k c vzero) i j sgntz sgntx in
  prel c S S' /\ (tv = BigR \/ te = BigR -> crel c S S').
Proof.
  intros Rv Re Rev S S'.
  assert (G : tv = BigR \/ te = BigR -> BigR <= S /\ BigR <= S').
  { intros Hb. assert (Hb' : tv' = BigR \/ te' = BigR).
    { destruct Hb as [E|E]; [left|right]; subst.
      - destruct Rv as [(_ & L & _)|[_ E']]; [lra | exact E'].
      - destruct Re as [(_ & L & _)|[_ E']]; [lra | exact E']. }
    split; apply spherical_ge; assumption. }
  split; [|intros Hb; destruct (G Hb); apply crel_inf; assumption].
  destruct (vrel_cases _ _ _ Rv) as [(Lv & Ev & Lv')|[Ev Ev']]; [|destruct G; auto; apply prel_inf; assumption].
  destruct (vrel_cases _ _ _ Re) as [(Le & Ee & Le')|[Ee Ee']]; [|destruct G; auto; apply prel_inf; assumption].
  destruct (vrel_cases _ _ _ Rev) as [(Lev & Eev & Lev')|[Eev Eev']].
  - subst S S' tv' te' tev'. apply t2rel_prel, spherical_sc.
  - subst S S'. unfold spherical_t2d. rewrite !admS_false by lra. apply prel_inf; apply Rle_refl.
Qed.
End Ops.

(* ========================================================================================== *)
(* 3. one node update                                                                           *)
(* ========================================================================================== *)
(* THE CAVEAT of one node update, on the values read in the REFERENCE run only:
     t0 = tt[i,j], tv / te / tev = z- / x- / diagonal neighbour, vz / vx = edge slownesses of the 1D operators,
     vref = slowness of the upwind cell, ob = "plane-wave branch" (node outside the source box).
   N1, N2  a 1D candidate built on a reached neighbour is below Big, also after multiplication by c;
   N3, N4  (plane-wave branch) when exactly one axial neighbour is reached, and the diagonal one too, the quantities
           the admissibility tests compare with the unreached neighbour (= Big) are below Big, also times c;
   N5      (plane-wave branch) when only the diagonal neighbour is reached and the node itself is not, the 2D candidate
           (the diagonal update) is on the same side of Big before and after multiplication by c. *)
Definition node_cav (c : R) (ob : bool) (t0 tv te tev vz vx vref dz dx dz2i dx2i : R) : Prop :=
  (tv < BigR -> Below c (tv + dz * vz)) /\
  (te < BigR -> Below c (te + dx * vx)) /\
  (ob = true ->
     (tv = BigR -> te < BigR -> tev < BigR -> Below c (te + dx * vref)) /\
     (te = BigR -> tv < BigR -> tev < BigR -> Below c (tv + dz * vref) /\ Below c (tev + K3 dz dx vref)) /\
     (t0 = BigR -> tv = BigR -> te = BigR -> tev < BigR -> Side c (plane_t2d tv te tev vref dz dx dz2i dx2i))).

(* the value written by `sweep` at node (i,j), as a function of the values it reads *)
Definition node_new (ob : bool) (t0 tv te tev vz vx vref dz dx dzi dxi dz2i dx2i zsa xsa vzero : R) (i j sgntz sgntx : Z) : R :=
  pymin3 t0 (pymin2 (tv + dz * vz) (te + dx * vx))
         (if ob then plane_t2d tv te tev vref dz dx dz2i dx2i
          else spherical_t2d tv te tev vref dz dx dzi dxi dz2i dx2i zsa xsa vzero i j sgntz sgntx).

Lemma pymin2_le_l (a b : R) : pymin2 a b <= a.
Proof. rewrite pymin2_R. destruct (Rltb b a) eqn:E; rb; lra. Qed.
Lemma pymin2_le_r (a b : R) : pymin2 a b <= b.
Proof. rewrite pymin2_R. destruct (Rltb b a) eqn:E; rb; lra. Qed.

Section Node.
Variables (c : R) (k : skind).
Hypothesis Hc : 0 < c.

Lemma cand1d_rel t t' h v :
  0 < h -> 0 <= v -> vrel c t t' -> (t < BigR -> Below c (t + h * v)) ->
  crel c (t + h * v) (t' + sc_h k c h * sc_v k c v).
Proof.
  intros Hh Hv Rt N. rewrite sc_prod.
  assert (Q : 0 <= h * v) by (apply Rmult_le_pos; lra).
  assert (Q' : 0 <= c * (h * v)) by (apply Rmult_le_pos; lra).
  destruct (vrel_cases _ _ _ Rt) as [(L & E & L')|[E E']].
  - destruct (N L) as [B1 B2]. left. subst t'. repeat split; [ring | exact B1 | lra].
  - right. lra.
Qed.

Theorem node_new_rel ob t0 t0' tv tv' te te' tev tev' vz vx vref dz dx dzi dxi dz2i dx2i zsa xsa vzero i j sgntz sgntx :
  0 < dz -> 0 < dx -> 0 < dz2i -> 0 < dx2i -> 0 <= vz -> 0 <= vx -> 0 <= vref ->
  vrel c t0 t0' -> vrel c tv tv' -> vrel c te te' -> vrel c tev tev' ->
  node_cav c ob t0 tv te tev vz vx vref dz dx dz2i dx2i ->
  vrel c (node_new ob t0 tv te tev vz vx vref dz dx dzi dxi dz2i dx2i zsa xsa vzero i j sgntz sgntx)
         (node_new ob t0' tv' te' tev' (sc_v k c vz) (sc_v k c vx) (sc_v k c vref) (sc_h k c dz) (sc_h k c dx)
                   (sc_i k c dzi) (sc_i k c dxi) (sc_i2 k c dz2i) (sc_i2 k c dx2i) zsa xsa (sc_v k c vzero) i j sgntz sgntx).
Proof.
  intros Hdz Hdx Ha Hb Hvz Hvx Hv R0 Rv Re Rev (N1 & N2 & NP).
  unfold node_new, pymin3.
  pose proof (cand1d_rel tv tv' dz vz Hdz Hvz Rv N1) as C1.
  pose proof (cand1d_rel te te' dx vx Hdx Hvx Re N2) as C2.
  set (a := tv + dz * vz) in *. set (b := te + dx * vx) in *.
  assert (Rm : vrel c (pymin2 t0 (pymin2 a b)) (pymin2 t0' (pymin2 (tv' + sc_h k c dz * sc_v k c vz) (te' + sc_h k c dx * sc_v k c vx))))
    by (apply pymin2_vc; [exact Hc | exact R0 | apply pymin2_crel; assumption]).
  (* when the 0D/1D minimum is the placeholder, the node and both axial neighbours are unreached *)
  assert (Hm : pymin2 t0 (pymin2 a b) = BigR -> t0 = BigR /\ tv = BigR /\ te = BigR).
  { intros Em. pose proof (pymin2_le_l t0 (pymin2 a b)) as M0. pose proof (pymin2_le_r t0 (pymin2 a b)) as M1.
    pose proof (pymin2_le_l a b) as Ma. pose proof (pymin2_le_r a b) as Mb.
    repeat split.
    - destruct (vrel_cases _ _ _ R0) as [(L & _)|[E _]]; [lra | exact E].
    - destruct (vrel_cases _ _ _ Rv) as [(L & _)|[E _]]; [|exact E]. destruct (N1 L) as [B1 _]. unfold a in *. lra.
    - destruct (vrel_cases _ _ _ Re) as [(L & _)|[E _]]; [|exact E]. destruct (N2 L) as [B1 _]. unfold b in *. lra. }
  apply pymin2_vp; [exact Hc | exact Rm | |].
  - intros _. destruct ob.
    + destruct (NP eq_refl) as (N3 & N4 & _).
      exact (proj1 (plane_rel c k Hc tv tv' te te' tev tev' vref dz dx dz2i dx2i Hdz Hdx Hv Ha Hb Rv Re Rev N3 N4)).
    + exact (proj1 (spherical_rel c k Hc tv tv' te te' tev tev' vref dz dx dzi dxi dz2i dx2i zsa xsa vzero i j sgntz sgntx Rv Re Rev)).
  - intros Em. destruct (Hm Em) as (E0 & Ev & Ee). destruct ob.
    + destruct (NP eq_refl) as (N3 & N4 & N5).
      apply (proj2 (plane_rel c k Hc tv tv' te te' tev tev' vref dz dx dz2i dx2i Hdz Hdx Hv Ha Hb Rv Re Rev N3 N4) Ev Ee).
      intros Lev. apply N5; assumption.
    + apply (proj2 (spherical_rel c k Hc tv tv' te te' tev tev' vref dz dx dzi dxi dz2i dx2i zsa xsa vzero i j sgntz sgntx Rv Re Rev)).
      left. exact Ev.
Qed.
End Node.

(* ========================================================================================== *)
(* 4. grids                                                                                     *)
(* ========================================================================================== *)
(* entry by entry; stated on the data so that no index range is ever needed (reads out of range return an entry or
   the default 0, which is related to itself) *)
Definition GRel (c : R) (a a' : arr R) : Prop := shape a = shape a' /\ Forall2 (vrel c) (dat a) (dat a').

Lemma Forall2_nth_rel {A} (P : A -> A -> Prop) l l' d d' n : Forall2 P l l' -> P d d' -> P (nth n l d) (nth n l' d').
Proof. intros F Hd. revert n. induction F as [|x y l l' Hxy _ IH]; intros [|n]; cbn; auto. Qed.
Lemma Forall2_upd {A} (P : A -> A -> Prop) l l' n v v' : Forall2 P l l' -> P v v' -> Forall2 P (upd l n v) (upd l' n v').
Proof. intros F Hv. revert n. induction F as [|x y l l' Hxy F IH]; intros [|n]; cbn [upd]; constructor; auto. Qed.

Lemma GRel_get c a a' idx : GRel c a a' -> vrel c (get 0 a idx) (get 0 a' idx).
Proof. intros [Es F]. unfold get. rewrite <- Es. apply Forall2_nth_rel; [exact F | apply vrel_zero]. Qed.
Lemma GRel_set c a a' idx v v' : GRel c a a' -> vrel c v v' -> GRel c (set a idx v) (set a' idx v').
Proof. intros [Es F] Hv. split; [exact Es|]. unfold set. cbn [dat shape]. rewrite <- Es. apply Forall2_upd; assumption. Qed.
Lemma GRel_full c sh : GRel c (full sh BigR) (full sh BigR).
Proof.
  split; [reflexivity|]. unfold full. cbn [dat]. induction (Z.to_nat (prodZ sh)) as [|n IH]; cbn [repeat]; constructor; auto.
  apply vrel_Big.
Qed.

(* with the vocabulary of InitExact: TRel (scaled or Big on both sides) plus "reached on both sides or on neither" *)
Definition SameReach (nz nx : Z) (a a' : arr R) : Prop :=
  forall i j, (0 <= i < nz)%Z -> (0 <= j < nx)%Z ->
    (get 0 a [i; j] = BigR /\ get 0 a' [i; j] = BigR) \/ (get 0 a [i; j] < BigR /\ get 0 a' [i; j] < BigR).

Lemma GRel_TRel nz nx c a a' : wf a -> wf a' -> shape a = [nz; nx] -> GRel c a a' -> TRel nz nx c a a' /\ SameReach nz nx a a'.
Proof.
  intros W W' S G. pose proof G as [Es _]. split.
  - split; [exact W|]. split; [exact W'|]. split; [exact S|]. split; [congruence|].
    intros i j _ _. apply vrel_t2rel, GRel_get, G.
  - intros i j _ _. destruct (GRel_get c a a' [i; j] G) as [(_ & L & L')|E]; [right | left]; auto.
Qed.

Lemma TRel_GRel nz nx c a a' : TRel nz nx c a a' -> SameReach nz nx a a' -> GRel c a a'.
Proof.
  intros (W & W' & S & S' & Hg) Hr. split; [congruence|].
  destruct W as [La Fa], W' as [La' _]. rewrite S in La, Fa. rewrite S' in La'.
  unfold prodZ in La, La'. cbn [fold_right] in La, La'.
  assert (Hnz : (0 <= nz)%Z) by (inversion Fa; assumption).
  assert (Hnx : (0 <= nx)%Z) by (inversion Fa as [|? ? _ F2]; inversion F2; assumption).
  apply (Forall2_nth_intro _ 0); [congruence|]. intros n Hn.
  assert (Hpos : (0 < nx)%Z) by nia.
  assert (Hn' : (0 <= Z.of_nat n < nz * nx)%Z) by nia.
  destruct (decomp2 (Z.of_nat n) nz nx Hn' Hpos) as (Hp & Hq & En).
  specialize (Hg _ _ Hp Hq). specialize (Hr _ _ Hp Hq).
  rewrite !(get2_nth nz nx) in Hg, Hr by assumption. rewrite <- En, Nat2Z.id in Hg, Hr.
  destruct Hg as [E|[E E']].
  - destruct Hr as [[B B']|[L L']]; [right; auto | left; auto].
  - right; auto.
Qed.

(* ========================================================================================== *)
(* 5. one pass of sweep2d = a list of node updates                                              *)
(* ========================================================================================== *)
Lemma fold_left_map {A B C} (f : A -> B -> A) (g : C -> B) l a :
  fold_left f (map g l) a = fold_left (fun a x => f a (g x)) l a.
Proof. revert a. induction l as [|x l IH]; intros a; cbn; auto. Qed.
Lemma fold_left_flat_map {A B C} (f : A -> B -> A) (g : C -> list B) l a :
  fold_left f (flat_map g l) a = fold_left (fun a x => fold_left f (g x) a) l a.
Proof. revert a. induction l as [|x l IH]; intros a; cbn; auto. rewrite fold_left_app. apply IH. Qed.
Lemma fold_left_ext {A B} (f g : A -> B -> A) l a : (forall a x, f a x = g a x) -> fold_left f l a = fold_left g l a.
Proof. intros E. revert a. induction l as [|x l IH]; intros a; cbn; auto. rewrite E. apply IH. Qed.

(* a node update of a pass: (ux, uz, i, j) = x-direction ascending?, z-direction ascending?, node *)
Definition step : Type := (bool * bool * Z * Z)%type.

(* C holds before every element of the fold *)
Fixpoint Along {S A} (f : A -> S -> S) (C : A -> S -> Prop) (l : list A) (s : S) : Prop :=
  match l with
  | [] => True
  | a :: l' => C a s /\ Along f C l' (f a s)
  end.

Lemma Along_app {S A} (f : A -> S -> S) (C : A -> S -> Prop) l1 l2 s :
  Along f C (l1 ++ l2) s <-> Along f C l1 s /\ Along f C l2 (fold_left (fun t a => f a t) l1 s).
Proof. revert s. induction l1 as [|a l1 IH]; intros s; cbn; [tauto|]. rewrite IH. tauto. Qed.

Lemma fold_rel {S S' A} (Rl : S -> S' -> Prop) (f : A -> S -> S) (f' : A -> S' -> S') (C : A -> S -> Prop) l :
  (forall a s s', Rl s s' -> C a s -> Rl (f a s) (f' a s')) ->
  forall s s', Rl s s' -> Along f C l s ->
  Rl (fold_left (fun t a => f a t) l s) (fold_left (fun t a => f' a t) l s').
Proof.
  intros Hf. induction l as [|a l IH]; intros s s' H0 HA; cbn; [exact H0|].
  destruct HA as [Ca HA]. apply IH; [apply Hf; assumption | exact HA].
Qed.

Section Steps.
Variables (nz nx : Z).
Definition half_steps (ux uz : bool) (j : Z) : list step := map (fun i => (ux, uz, i, j)) (dir_range uz nz).
Definition pass_steps (ux : bool) : list step :=
  flat_map (fun j => half_steps ux true j ++ half_steps ux false j) (dir_range ux nx).
(* the node updates of one call of sweep2d, in program order *)
Definition sweep_steps : list step := pass_steps true ++ pass_steps false.

Variables (slow : arr R) (dargs : R * R * R * R * R * R) (zsi xsi zsa xsa vzero : R).
Definition do_step (s : step) (tt : arr R) : arr R :=
  let '(ux, uz, i, j) := s in
  swT nz nx slow dargs zsi xsi zsa xsa vzero (sgnv uz) (sgnv ux) (sgnt uz) (sgnt ux) i j tt.
Definition run (l : list step) (tt : arr R) : arr R := fold_left (fun t s => do_step s t) l tt.

Lemma halfT_run ux uz j tt : halfT nz nx slow dargs zsi xsi zsa xsa vzero ux uz j tt = run (half_steps ux uz j) tt.
Proof. unfold halfT, run, half_steps, for_list. rewrite fold_left_map. reflexivity. Qed.
Lemma passT_run ux tt : passT nz nx slow dargs zsi xsi zsa xsa vzero ux tt = run (pass_steps ux) tt.
Proof.
  unfold passT, run, pass_steps, for_list. rewrite fold_left_flat_map. apply fold_left_ext. intros a j.
  rewrite fold_left_app. rewrite !halfT_run. reflexivity.
Qed.
Lemma sweep2dT_run tt : sweep2dT nz nx slow dargs zsi xsi zsa xsa vzero tt = run sweep_steps tt.
Proof.
  change (sweep2dT nz nx slow dargs zsi xsi zsa xsa vzero tt)
    with (passT nz nx slow dargs zsi xsi zsa xsa vzero false (passT nz nx slow dargs zsi xsi zsa xsa vzero true tt)).
  unfold sweep_steps, run. rewrite fold_left_app. rewrite !passT_run. reflexivity.
Qed.
End Steps.

(* the traveltime part of sweep2d, with the tuple of spacing constants it builds *)
Lemma sweep2d_fst_run (tt : arr R) ttsgn (slow : arr R) (dz dx zsi xsi zsa xsa vzero : R) nz nx grad :
  fst (sweep2d tt ttsgn slow dz dx zsi xsi zsa xsa vzero nz nx grad)
  = run nz nx slow (dargs_of dz dx) zsi xsi zsa xsa vzero (sweep_steps nz nx) tt.
Proof.
  rewrite <- sweep2dT_run. unfold dargs_of. cbv beta delta [sweep2d sweep2dT].
  proj_solve ltac:(subst; unfold swT; apply sweep_tt_indep).
Qed.

(* the caveat of a node update, on the grid of the REFERENCE run just before the update *)
Definition NodeCav (c : R) (nz nx : Z) (slow : arr R) (dz dx zsi xsi : R) (s : step) (tt : arr R) : Prop :=
  let '(ux, uz, i, j) := s in
  node_cav c (outside_box zsi xsi i j)
    (get 0 tt [i; j]) (nb_v tt i j (sgnt uz)) (nb_e tt i j (sgnt ux)) (nb_ev tt i j (sgnt uz) (sgnt ux))
    (edge_s_z slow i j (sgnv uz) nx) (edge_s_x slow i j (sgnv ux) nz) (cell_s slow i j (sgnv uz) (sgnv ux))
    dz dx (1 / dz / dz) (1 / dx / dx).

Lemma sweep_value_node_new tt slow dz dx dzi dxi dz2i dx2i zsi xsi zsa xsa vzero i j sgnvz sgnvx sgntz sgntx nz nx :
  pymin3 (get 0 tt [i; j]) (t1d tt slow dz dx i j sgnvz sgnvx sgntz sgntx nz nx)
         (sweep_t2d tt slow dz dx dzi dxi dz2i dx2i zsi xsi zsa xsa vzero i j sgnvz sgnvx sgntz sgntx)
  = node_new (outside_box zsi xsi i j) (get 0 tt [i; j]) (nb_v tt i j sgntz) (nb_e tt i j sgntx) (nb_ev tt i j sgntz sgntx)
      (edge_s_z slow i j sgnvz nx) (edge_s_x slow i j sgnvx nz) (cell_s slow i j sgnvz sgnvx)
      dz dx dzi dxi dz2i dx2i zsa xsa vzero i j sgntz sgntx.
Proof. reflexivity. Qed.

Section StepRel.
Variables (c : R) (k : skind).
Hypothesis Hc : 0 < c.

Lemma edge_s_z_sc slow i j sgnvz nx : edge_s_z (sc_slow k c slow) i j sgnvz nx = sc_v k c (edge_s_z slow i j sgnvz nx).
Proof. unfold edge_s_z. destruct k; cbn [sc_slow sc_v]; [|reflexivity]. rewrite !get_smap. apply pymin2_scale, Hc. Qed.
Lemma edge_s_x_sc slow i j sgnvx nz : edge_s_x (sc_slow k c slow) i j sgnvx nz = sc_v k c (edge_s_x slow i j sgnvx nz).
Proof. unfold edge_s_x. destruct k; cbn [sc_slow sc_v]; [|reflexivity]. rewrite !get_smap. apply pymin2_scale, Hc. Qed.
Lemma cell_s_sc slow i j sgnvz sgnvx : cell_s (sc_slow k c slow) i j sgnvz sgnvx = sc_v k c (cell_s slow i j sgnvz sgnvx).
Proof. unfold cell_s. apply get_sc_slow. Qed.

Lemma inv2_pos h : 0 < h -> 0 < 1 / h / h.
Proof. intros Hh. apply Rdiv_lt_0_compat; [apply Rdiv_lt_0_compat; lra | exact Hh]. Qed.

Theorem do_step_rel nz nx slow dz dx zsi xsi zsa xsa vzero s tt tt' :
  0 < dz -> 0 < dx -> nonneg slow -> GRel c tt tt' -> NodeCav c nz nx slow dz dx zsi xsi s tt ->
  GRel c (do_step nz nx slow (dargs_of dz dx) zsi xsi zsa xsa vzero s tt)
         (do_step nz nx (sc_slow k c slow) (dargs_of (sc_h k c dz) (sc_h k c dx)) zsi xsi zsa xsa (sc_v k c vzero) s tt').
Proof.
  intros Hdz Hdx Hs G HN. destruct s as [[[ux uz] i] j]. unfold do_step, swT, dargs_of, NodeCav in *.
  rewrite !sweep_tt_eq. apply GRel_set; [exact G|]. rewrite !sweep_value_node_new.
  rewrite edge_s_z_sc, edge_s_x_sc, cell_s_sc, !sc_inv2, !sc_inv.
  apply node_new_rel; try assumption.
  - apply inv2_pos, Hdz.
  - apply inv2_pos, Hdx.
  - unfold edge_s_z. apply pymin2_ge; apply get_nonneg, Hs.
  - unfold edge_s_x. apply pymin2_ge; apply get_nonneg, Hs.
  - unfold cell_s. apply get_nonneg, Hs.
  - apply GRel_get, G.
  - apply GRel_get, G.
  - apply GRel_get, G.
  - apply GRel_get, G.
Qed.

(* a whole list of node updates (a pass, several passes) *)
Theorem run_rel nz nx slow dz dx zsi xsi zsa xsa vzero l tt tt' :
  0 < dz -> 0 < dx -> nonneg slow -> GRel c tt tt' ->
  Along (do_step nz nx slow (dargs_of dz dx) zsi xsi zsa xsa vzero) (NodeCav c nz nx slow dz dx zsi xsi) l tt ->
  GRel c (run nz nx slow (dargs_of dz dx) zsi xsi zsa xsa vzero l tt)
         (run nz nx (sc_slow k c slow) (dargs_of (sc_h k c dz) (sc_h k c dx)) zsi xsi zsa xsa (sc_v k c vzero) l tt').
Proof.
  intros Hdz Hdx Hs G HA. unfold run.
  apply (fold_rel (GRel c) _ _ (NodeCav c nz nx slow dz dx zsi xsi)); [|exact G | exact HA].
  intros a s s' Gs Ca. apply do_step_rel; assumption.
Qed.
End StepRel.

(* ========================================================================================== *)
(* 6. the solver                                                                                *)
(* ========================================================================================== *)
Lemma run_app nz nx slow dargs zsi xsi zsa xsa vzero l1 l2 tt :
  run nz nx slow dargs zsi xsi zsa xsa vzero (l1 ++ l2) tt
  = run nz nx slow dargs zsi xsi zsa xsa vzero l2 (run nz nx slow dargs zsi xsi zsa xsa vzero l1 tt).
Proof. unfold run. apply fold_left_app. Qed.

(* all node updates of the sweeping phase, in program order: nsweep times the updates of one sweep2d *)
Definition all_steps (nz nx nsweep : Z) : list step := concat (repeat (sweep_steps nz nx) (Z.to_nat nsweep)).

Lemma iter_run nz nx slow dargs zsi xsi zsa xsa vzero l n tt :
  Nat.iter n (run nz nx slow dargs zsi xsi zsa xsa vzero l) tt
  = run nz nx slow dargs zsi xsi zsa xsa vzero (concat (repeat l n)) tt.
Proof.
  revert tt. induction n as [|n IH]; intros tt; [reflexivity|].
  rewrite iter_succ_r. cbn [repeat concat]. rewrite run_app. apply IH.
Qed.

(* one pass of the solver = the node updates of one sweep2d *)
Lemma ptt_run (slow : arr R) (dz dx zsrc xsrc : R) grad t :
  ptt slow dz dx zsrc xsrc grad t
  = run (i_nz slow dz dx zsrc xsrc grad) (i_nx slow dz dx zsrc xsrc grad) slow (dargs_of dz dx)
        (IZR (i_zsi slow dz dx zsrc xsrc grad)) (IZR (i_xsi slow dz dx zsrc xsrc grad))
        (i_zsa slow dz dx zsrc xsrc grad) (i_xsa slow dz dx zsrc xsrc grad) (i_vzero slow dz dx zsrc xsrc grad)
        (sweep_steps (i_nz slow dz dx zsrc xsrc grad) (i_nx slow dz dx zsrc xsrc grad)) t.
Proof. unfold ptt, pass2d. cbn [fst snd]. apply sweep2d_fst_run. Qed.

Lemma Rleb_0_scale c x : 0 < c -> Rleb 0 (c * x) = Rleb 0 x.
Proof. intros Hc. rewrite <- (Rleb_scale c 0 x Hc). f_equal. ring. Qed.

Section Solver.
Variables (c : R) (k : skind).
Hypothesis Hc : 0 < c.
Variables (slow : arr R) (dz dx zsrc xsrc : R).
Notation slow' := (sc_slow k c slow).
Notation dz' := (sc_h k c dz).
Notation dx' := (sc_h k c dx).
Notation zsrc' := (sc_h k c zsrc).
Notation xsrc' := (sc_h k c xsrc).
Notation NZ := (dim slow 0 + 1)%Z.
Notation NX := (dim slow 1 + 1)%Z.

Lemma dim_sc n : dim slow' n = dim slow n.
Proof. destruct k; reflexivity. Qed.

(* ---------- fteik2d_p1: nothing depends on the units but the source slowness ---------- *)
Lemma p1_length grad :
  p1 slow (c * dz) (c * dx) (c * zsrc) (c * xsrc) grad = p1 slow dz dx zsrc xsrc grad.
Proof.
  unfold p1. cbv beta delta [fteik2d_p1]. change (@ndiv R NumR) with Rdiv.
  rewrite !div_scale by lra. reflexivity.
Qed.

Lemma p1_sc grad :
  i_iflag slow' dz' dx' zsrc' xsrc' grad = i_iflag slow dz dx zsrc xsrc grad /\
  i_nz slow' dz' dx' zsrc' xsrc' grad = i_nz slow dz dx zsrc xsrc grad /\
  i_nx slow' dz' dx' zsrc' xsrc' grad = i_nx slow dz dx zsrc xsrc grad /\
  i_tt1 slow' dz' dx' zsrc' xsrc' grad = i_tt1 slow dz dx zsrc xsrc grad /\
  i_zsa slow' dz' dx' zsrc' xsrc' grad = i_zsa slow dz dx zsrc xsrc grad /\
  i_xsa slow' dz' dx' zsrc' xsrc' grad = i_xsa slow dz dx zsrc xsrc grad /\
  i_zsi slow' dz' dx' zsrc' xsrc' grad = i_zsi slow dz dx zsrc xsrc grad /\
  i_xsi slow' dz' dx' zsrc' xsrc' grad = i_xsi slow dz dx zsrc xsrc grad /\
  i_vzero slow' dz' dx' zsrc' xsrc' grad = sc_v k c (i_vzero slow dz dx zsrc xsrc grad).
Proof.
  destruct k; cbn [sc_slow sc_h sc_v].
  - assert (Ezi : i_zsi (smap c slow) dz dx zsrc xsrc grad = i_zsi slow dz dx zsrc xsrc grad)
      by (unfold i_zsi, p1; cbv beta delta [fteik2d_p1]; reflexivity).
    assert (Exi : i_xsi (smap c slow) dz dx zsrc xsrc grad = i_xsi slow dz dx zsrc xsrc grad)
      by (unfold i_xsi, p1; cbv beta delta [fteik2d_p1]; reflexivity).
    repeat match goal with |- _ /\ _ => split end; try assumption;
      try (unfold i_iflag, i_nz, i_nx, i_tt1, i_zsa, i_xsa, p1; cbv beta delta [fteik2d_p1]; reflexivity).
    rewrite !i_vzero_eq, Ezi, Exi. apply get_smap.
  - unfold i_iflag, i_nz, i_nx, i_tt1, i_zsa, i_xsa, i_zsi, i_xsi, i_vzero. rewrite p1_length. repeat split; reflexivity.
Qed.

Lemma inside2d_sc : inside2d slow' dz' dx' zsrc' xsrc' = inside2d slow dz dx zsrc xsrc.
Proof.
  unfold inside2d. cbv zeta. rewrite !dim_sc. destruct k; cbn [sc_h]; [reflexivity|].
  cbn [nleb nmul nofZ NumR].
  rewrite !Rleb_0_scale, !Rmult_assoc, !Rleb_scale by exact Hc. reflexivity.
Qed.

(* ---------- the state before the first sweep ---------- *)
Hypotheses (Hdz : 0 < dz) (Hdx : 0 < dx).
Hypotheses (Hnz : (1 <= dim slow 0)%Z) (Hnx : (1 <= dim slow 1)%Z).
Hypothesis (Hin : inside2d slow dz dx zsrc xsrc = true).

Lemma init_rel grad :
  SameReach NZ NX (i_tt slow dz dx zsrc xsrc grad) (i_tt slow' dz' dx' zsrc' xsrc' grad) ->
  GRel c (i_tt slow dz dx zsrc xsrc grad) (i_tt slow' dz' dx' zsrc' xsrc' grad).
Proof.
  unfold i_tt, p2. destruct (p1_sc grad) as (-> & -> & -> & -> & -> & -> & -> & -> & ->).
  rewrite i_tt1_eq, i_nz_eq, i_nx_eq.
  destruct (source_frame slow dz dx zsrc xsrc Hdz Hdx Hnz Hnx Hin grad) as (Sz & Sx & _).
  set (tt1 := full [NZ; NX] BigR).
  assert (W1 : wf tt1) by (apply wf_full; repeat constructor; lia).
  destruct (Z.eqb_spec (i_iflag slow dz dx zsrc xsrc grad) 2) as [E|N].
  - rewrite E. intros HR. apply (TRel_GRel NZ NX); [|exact HR].
    assert (Rz : (0 <= i_zsi slow dz dx zsrc xsrc grad < NZ - 1)%Z) by lia.
    assert (Rx : (0 <= i_xsi slow dz dx zsrc xsrc grad < NX - 1)%Z) by lia.
    assert (RM : (NX <= Z.max NZ NX)%Z /\ (NZ <= Z.max NZ NX)%Z) by lia.
    apply (init_scale NZ NX c k Hc dx dz grad grad slow (i_vzero slow dz dx zsrc xsrc grad)
             (i_xsa slow dz dx zsrc xsrc grad) (i_zsa slow dz dx zsrc xsrc grad)
             (i_zsi slow dz dx zsrc xsrc grad) (i_xsi slow dz dx zsrc xsrc grad) (Z.max NZ NX)
             Rz Rx RM tt1 tt1 _ _ _ _ eq_refl).
    + split; [exact W1|]. split; [exact W1|]. split; [reflexivity|]. split; [reflexivity|].
      intros i j Hi Hj. right. split; apply get_full; cbn [inb_sh];
        repeat (apply andb_true_intro; split); first [reflexivity | apply Z.leb_le; lia | apply Z.ltb_lt; lia].
    + intros i j Hi Hj _. unfold BelowIff. destruct (HR i j Hi Hj) as [[B B']|[L L']]; [rewrite B, B'|]; tauto.
  - intros _. rewrite !fteik2d_p2_decompose. apply Z.eqb_neq in N. rewrite N. cbn [fst snd].
    apply GRel_set; [apply GRel_full | apply vrel_zero].
Qed.

(* ---------- the sweeping phase ---------- *)
(* THE CAVEAT of the sweeping phase, on the REFERENCE run only: `NodeCav` holds before every node update, in the grid
   the reference run has reached at that point (`Along` follows the run update by update) *)
Definition SweepCav (nsweep : Z) (grad : bool) : Prop :=
  Along (do_step NZ NX slow (dargs_of dz dx) (IZR (i_zsi slow dz dx zsrc xsrc grad)) (IZR (i_xsi slow dz dx zsrc xsrc grad))
                 (i_zsa slow dz dx zsrc xsrc grad) (i_xsa slow dz dx zsrc xsrc grad) (i_vzero slow dz dx zsrc xsrc grad))
        (NodeCav c NZ NX slow dz dx (IZR (i_zsi slow dz dx zsrc xsrc grad)) (IZR (i_xsi slow dz dx zsrc xsrc grad)))
        (all_steps NZ NX nsweep) (i_tt slow dz dx zsrc xsrc grad).

Lemma sweeps_rel grad nsweep t t' :
  nonneg slow -> GRel c t t' ->
  Along (do_step NZ NX slow (dargs_of dz dx) (IZR (i_zsi slow dz dx zsrc xsrc grad)) (IZR (i_xsi slow dz dx zsrc xsrc grad))
                 (i_zsa slow dz dx zsrc xsrc grad) (i_xsa slow dz dx zsrc xsrc grad) (i_vzero slow dz dx zsrc xsrc grad))
        (NodeCav c NZ NX slow dz dx (IZR (i_zsi slow dz dx zsrc xsrc grad)) (IZR (i_xsi slow dz dx zsrc xsrc grad)))
        (all_steps NZ NX nsweep) t ->
  GRel c (Nat.iter (Z.to_nat nsweep) (ptt slow dz dx zsrc xsrc grad) t)
         (Nat.iter (Z.to_nat nsweep) (ptt slow' dz' dx' zsrc' xsrc' grad) t').
Proof.
  intros Hs G HA.
  rewrite (iter_ext _ _ (ptt_run slow dz dx zsrc xsrc grad)), (iter_ext _ _ (ptt_run slow' dz' dx' zsrc' xsrc' grad)).
  destruct (p1_sc grad) as (_ & -> & -> & _ & -> & -> & -> & -> & ->).
  rewrite !iter_run, i_nz_eq, i_nx_eq. apply run_rel; assumption.
Qed.

Theorem solver_rel nsweep grad tt g vz :
  nonneg slow ->
  fteik2d slow dz dx zsrc xsrc nsweep grad = Ok (tt, g, vz) ->
  SameReach NZ NX (i_tt slow dz dx zsrc xsrc grad) (i_tt slow' dz' dx' zsrc' xsrc' grad) ->
  SweepCav nsweep grad ->
  exists tt' g', fteik2d slow' dz' dx' zsrc' xsrc' nsweep grad = Ok (tt', g', sc_v k c vz) /\
                 TRel NZ NX c tt tt' /\ SameReach NZ NX tt tt'.
Proof.
  intros Hs E HI HS. apply fteik2d_ok_inv in E as (_ & -> & ->).
  destruct (fteik2d_char slow' dz' dx' zsrc' xsrc' nsweep grad) as [G' E']. rewrite inside2d_sc, Hin in E'.
  rewrite (iter_fst_pair _ _ (pass2d_fst slow' dz' dx' zsrc' xsrc' grad)) in E'.
  destruct (p1_sc grad) as (_ & _ & _ & _ & _ & _ & _ & _ & Ev). rewrite Ev in E'.
  eexists. exists G'. split; [exact E'|].
  assert (O0 : okT NZ NX (i_tt slow dz dx zsrc xsrc grad)) by (apply fteik2d_init_okT; lia).
  assert (O0' : okT NZ NX (i_tt slow' dz' dx' zsrc' xsrc' grad)).
  { pose proof (fteik2d_init_okT slow' dz' dx' zsrc' xsrc' grad) as O. rewrite !dim_sc in O. apply O; lia. }
  pose proof (iter_ptt_okT slow dz dx zsrc xsrc grad _ (Z.to_nat nsweep) O0) as [W S].
  pose proof (iter_ptt_okT slow' dz' dx' zsrc' xsrc' grad) as O'. rewrite !dim_sc in O'.
  destruct (O' _ (Z.to_nat nsweep) O0') as [W' S'].
  apply GRel_TRel; try assumption.
  apply sweeps_rel; [exact Hs | apply init_rel, HI | exact HS].
Qed.
End Solver.

(* ========================================================================================== *)
(* 7. C05 for fteik2d                                                                           *)
(* ========================================================================================== *)
(* (3) the raise behaviour does not depend on the units: no caveat, no hypothesis on the model *)
Theorem fteik2d_scale_raises (c : R) (k : skind) (slow : arr R) (dz dx zsrc xsrc : R) nsweep grad :
  0 < c ->
  (fteik2d (sc_slow k c slow) (sc_h k c dz) (sc_h k c dx) (sc_h k c zsrc) (sc_h k c xsrc) nsweep grad = Raise ValueError
   <-> fteik2d slow dz dx zsrc xsrc nsweep grad = Raise ValueError).
Proof.
  intros Hc.
  destruct (fteik2d_char (sc_slow k c slow) (sc_h k c dz) (sc_h k c dx) (sc_h k c zsrc) (sc_h k c xsrc) nsweep grad) as [G' E'].
  destruct (fteik2d_char slow dz dx zsrc xsrc nsweep grad) as [G E].
  rewrite E', E, (inside2d_sc c k Hc). destruct (inside2d slow dz dx zsrc xsrc); split; intros H; (discriminate H || reflexivity).
Qed.

Corollary fteik2d_scale_slowness_raises (c : R) (slow : arr R) (dz dx zsrc xsrc : R) nsweep grad :
  0 < c ->
  (fteik2d (smap c slow) dz dx zsrc xsrc nsweep grad = Raise ValueError
   <-> fteik2d slow dz dx zsrc xsrc nsweep grad = Raise ValueError).
Proof. exact (fteik2d_scale_raises c Slowness slow dz dx zsrc xsrc nsweep grad). Qed.
Corollary fteik2d_scale_length_raises (c : R) (slow : arr R) (dz dx zsrc xsrc : R) nsweep grad :
  0 < c ->
  (fteik2d slow (c * dz) (c * dx) (c * zsrc) (c * xsrc) nsweep grad = Raise ValueError
   <-> fteik2d slow dz dx zsrc xsrc nsweep grad = Raise ValueError).
Proof. exact (fteik2d_scale_raises c Length slow dz dx zsrc xsrc nsweep grad). Qed.

(* the same, for every outcome: Ok in one unit system iff Ok in the other *)
Corollary fteik2d_scale_ok_iff (c : R) (k : skind) (slow : arr R) (dz dx zsrc xsrc : R) nsweep grad :
  0 < c ->
  ((exists r, fteik2d (sc_slow k c slow) (sc_h k c dz) (sc_h k c dx) (sc_h k c zsrc) (sc_h k c xsrc) nsweep grad = Ok r)
   <-> (exists r, fteik2d slow dz dx zsrc xsrc nsweep grad = Ok r)).
Proof.
  intros Hc.
  destruct (fteik2d_char (sc_slow k c slow) (sc_h k c dz) (sc_h k c dx) (sc_h k c zsrc) (sc_h k c xsrc) nsweep grad) as [G' E'].
  destruct (fteik2d_char slow dz dx zsrc xsrc nsweep grad) as [G E].
  rewrite E', E, (inside2d_sc c k Hc). destruct (inside2d slow dz dx zsrc xsrc); split; intros [r H];
    first [discriminate H | eexists; reflexivity].
Qed.

(* (1) slowness unit: every slowness multiplied by c > 0 *)
Theorem fteik2d_scale_slowness (c : R) (slow : arr R) (dz dx zsrc xsrc : R) nsweep grad (tt g : arr R) (vz : R) :
  0 < c -> 0 < dz -> 0 < dx -> (1 <= dim slow 0)%Z -> (1 <= dim slow 1)%Z -> nonneg slow ->
  fteik2d slow dz dx zsrc xsrc nsweep grad = Ok (tt, g, vz) ->
  forall (Hinit : SameReach (dim slow 0 + 1) (dim slow 1 + 1)
                    (i_tt slow dz dx zsrc xsrc grad) (i_tt (smap c slow) dz dx zsrc xsrc grad))
         (Hsweep : SweepCav c slow dz dx zsrc xsrc nsweep grad),
  exists tt' g', fteik2d (smap c slow) dz dx zsrc xsrc nsweep grad = Ok (tt', g', c * vz) /\
                 TRel (dim slow 0 + 1) (dim slow 1 + 1) c tt tt' /\ SameReach (dim slow 0 + 1) (dim slow 1 + 1) tt tt'.
Proof.
  intros Hc Hdz Hdx Hnz Hnx Hs E Hinit Hsweep.
  pose proof (fteik2d_ok_inv slow dz dx zsrc xsrc nsweep grad tt g vz E) as (Hin & _).
  exact (solver_rel c Slowness Hc slow dz dx zsrc xsrc Hdz Hdx Hnz Hnx Hin nsweep grad tt g vz Hs E Hinit Hsweep).
Qed.

(* (2) length unit: both spacings and both source coordinates multiplied by c > 0 *)
Theorem fteik2d_scale_length (c : R) (slow : arr R) (dz dx zsrc xsrc : R) nsweep grad (tt g : arr R) (vz : R) :
  0 < c -> 0 < dz -> 0 < dx -> (1 <= dim slow 0)%Z -> (1 <= dim slow 1)%Z -> nonneg slow ->
  fteik2d slow dz dx zsrc xsrc nsweep grad = Ok (tt, g, vz) ->
  forall (Hinit : SameReach (dim slow 0 + 1) (dim slow 1 + 1)
                    (i_tt slow dz dx zsrc xsrc grad) (i_tt slow (c * dz) (c * dx) (c * zsrc) (c * xsrc) grad))
         (Hsweep : SweepCav c slow dz dx zsrc xsrc nsweep grad),
  exists tt' g', fteik2d slow (c * dz) (c * dx) (c * zsrc) (c * xsrc) nsweep grad = Ok (tt', g', vz) /\
                 TRel (dim slow 0 + 1) (dim slow 1 + 1) c tt tt' /\ SameReach (dim slow 0 + 1) (dim slow 1 + 1) tt tt'.
Proof.
  intros Hc Hdz Hdx Hnz Hnx Hs E Hinit Hsweep.
  pose proof (fteik2d_ok_inv slow dz dx zsrc xsrc nsweep grad tt g vz E) as (Hin & _).
  exact (solver_rel c Length Hc slow dz dx zsrc xsrc Hdz Hdx Hnz Hnx Hin nsweep grad tt g vz Hs E Hinit Hsweep).
Qed.

(* the conclusion spelled out: entry by entry, the time is multiplied by c and below Big on both sides, or the node is
   unreached (the placeholder) on both sides *)
Lemma TRel_SameReach_spelled_out nz nx c tt tt' :
  TRel nz nx c tt tt' -> SameReach nz nx tt tt' ->
  forall i j, (0 <= i < nz)%Z -> (0 <= j < nx)%Z ->
    (get 0 tt' [i; j] = c * get 0 tt [i; j] /\ get 0 tt [i; j] < BigR /\ get 0 tt' [i; j] < BigR) \/
    (get 0 tt [i; j] = BigR /\ get 0 tt' [i; j] = BigR).
Proof.
  intros (_ & _ & _ & _ & Hg) Hr i j Hi Hj. destruct (Hg i j Hi Hj) as [E|[E E']]; [|right; auto].
  destruct (Hr i j Hi Hj) as [[B B']|[L L']]; [right; auto | left; auto].
Qed.

(* ========================================================================================== *)
(* 8. a sufficient, purely numerical form of the caveat of the sweeping phase                    *)
(* ========================================================================================== *)
Lemma Below_mono c q q' : 0 < c -> q <= q' -> Below c q' -> Below c q.
Proof. intros Hc Hq [B1 B2]. split; [lra | nra]. Qed.
(* c >= 1: only the scaled value matters;  c <= 1: only the reference value matters (for non-negative quantities) *)
Lemma Below_ge1 c q : 1 <= c -> 0 <= q -> c * q < BigR -> Below c q.
Proof. intros Hc Hq H. split; [nra | exact H]. Qed.
Lemma Below_le1 c q : 0 < c <= 1 -> 0 <= q -> q < BigR -> Below c q.
Proof. intros Hc Hq H. split; [exact H | nra]. Qed.

(* every entry is the placeholder or lies in [0, M] *)
Definition Bnd (M : R) (a : arr R) : Prop := Forall (fun x => x = BigR \/ 0 <= x <= M) (dat a).
(* every slowness lies in [0, S] *)
Definition SlowBnd (S : R) (slow : arr R) : Prop := Forall (fun x => 0 <= x <= S) (dat slow).

Lemma Bnd_get M a idx : 0 <= M -> Bnd M a -> get 0 a idx = BigR \/ 0 <= get 0 a idx <= M.
Proof.
  intros HM Ha. unfold get. destruct (nth_in_or_default (Z.to_nat (flat (shape a) idx)) (dat a) 0) as [Hin | ->].
  - unfold Bnd in Ha. rewrite Forall_forall in Ha. apply Ha, Hin.
  - right. lra.
Qed.
Lemma Bnd_set M a idx v : Bnd M a -> (v = BigR \/ 0 <= v <= M) -> Bnd M (set a idx v).
Proof. intros Ha Hv. unfold Bnd, set. cbn [dat]. apply Forall_upd; assumption. Qed.
Lemma Bnd_mono M M' a : M <= M' -> Bnd M a -> Bnd M' a.
Proof. intros HM Ha. unfold Bnd in *. eapply Forall_impl; [|exact Ha]. cbv beta. intros x [E|B]; [left; exact E | right; lra]. Qed.
Lemma Bnd_nonneg M a : Bnd M a -> nonneg a.
Proof.
  intros Ha. unfold Bnd, nonneg in *. eapply Forall_impl; [|exact Ha]. cbv beta. pose proof BigR_pos.
  intros x [E|B]; lra.
Qed.
Lemma SlowBnd_get S slow idx : 0 <= S -> SlowBnd S slow -> 0 <= get 0 slow idx <= S.
Proof.
  intros HS Hs. unfold get. destruct (nth_in_or_default (Z.to_nat (flat (shape slow) idx)) (dat slow) 0) as [Hin | ->].
  - unfold SlowBnd in Hs. rewrite Forall_forall in Hs. apply Hs, Hin.
  - lra.
Qed.
Lemma SlowBnd_nonneg S slow : SlowBnd S slow -> nonneg slow.
Proof. intros Hs. unfold SlowBnd, nonneg in *. eapply Forall_impl; [|exact Hs]. cbv beta. intros x B; lra. Qed.

Lemma pymin2_bnd (lo hi a b : R) : lo <= a <= hi -> lo <= b <= hi -> lo <= pymin2 a b <= hi.
Proof. intros Ha Hb. rewrite pymin2_R. destruct (Rltb b a); assumption. Qed.

Lemma K3_le dz dx v : 0 < dz -> 0 < dx -> 0 <= v -> K3 dz dx v <= dz * v.
Proof.
  intros Hdz Hdx Hv. unfold K3. pose proof (diag_pos dz dx Hdz Hdx) as Hr. set (r := sqrt (dx * dx + dz * dz)) in *.
  assert (Hrr : r * r = dx * dx + dz * dz) by (apply sqrt_sqrt; nra).
  assert (Hzr : dz <= r) by nra.
  apply (Rmult_le_reg_r r); [exact Hr|]. unfold Rdiv. rewrite Rmult_assoc, Rinv_l by lra.
  assert (0 <= dz * v * (r - dz)) by (apply Rmult_le_pos; [apply Rmult_le_pos|]; lra). lra.
Qed.

(* the diagonal update adds at most 2 h vref *)
Lemma four_point_diag_le x tev v dz dx h :
  0 < dz <= h -> 0 < dx -> 0 <= v -> four_point x x tev v (1 / dz / dz) (1 / dx / dx) <= tev + 2 * h * v.
Proof.
  intros [Hdz Hh] Hdx Hv. rewrite four_point_shift. unfold four_point. cbv zeta.
  set (a := 1 / dz / dz). set (b := 1 / dx / dx).
  assert (Ha : 0 < a) by (apply inv2_pos, Hdz). assert (Hb : 0 < b) by (apply inv2_pos, Hdx).
  assert (Ea : a * dz * dz = 1) by (unfold a; field; lra).
  set (s := sqrt (a + b)). assert (Hs : 0 < s) by (apply sqrt_lt_R0; lra).
  assert (Ess : s * s = a + b) by (apply sqrt_sqrt; lra).
  match goal with |- (_ + sqrt ?r) / _ <= _ => replace r with ((2 * v * s) * (2 * v * s)) by (rewrite <- Ess; ring) end.
  rewrite sqrt_square by (apply Rmult_le_pos; [lra | lra]).
  assert (H1 : 1 <= h * s).
  { assert (Hq : 1 <= (h * s) * (h * s)).
    { replace (h * s * (h * s)) with (h * h * (s * s)) by ring. rewrite Ess.
      assert (dz * dz <= h * h) by nra. assert (a * (dz * dz) <= a * (h * h)) by (apply Rmult_le_compat_l; lra). nra. }
    assert (0 < h * s) by (apply Rmult_lt_0_compat; lra).
    destruct (Rle_dec 1 (h * s)) as [Y|N]; [exact Y|]. exfalso. nra. }
  apply (Rmult_le_reg_r (a + b)); [lra|]. unfold Rdiv. rewrite Rmult_assoc, Rinv_l by lra.
  assert (K : 0 <= v * s * (h * s - 1)) by (apply Rmult_le_pos; [apply Rmult_le_pos|]; lra).
  assert (K2 : v * s * (h * s) = v * h * (a + b)) by (rewrite <- Ess; ring).
  set (A := a + b) in *. replace ((tev - 0 + 0) * a + (tev + 0 - 0) * b) with (tev * A) by (unfold A; ring). lra.
Qed.

Section Bounded.
Variables (c M h S : R).
Hypothesis Hc : 0 < c.
Hypothesis HM : 0 <= M < BigR.
Hypothesis HS : 0 <= S.
Variables (dz dx : R).
Hypotheses (Hdz : 0 < dz <= h) (Hdx : 0 < dx <= h).

Let InB (x : R) : Prop := x = BigR \/ 0 <= x <= M.

(* the value written by a node update is the placeholder or at most M + 2 h S *)
Lemma node_new_bnd ob t0 tv te tev vz vx vref dzi dxi zsa xsa vzero i j sgntz sgntx :
  InB t0 -> InB tv -> InB te -> InB tev -> 0 <= vz <= S -> 0 <= vx <= S -> 0 <= vref <= S ->
  let v := node_new ob t0 tv te tev vz vx vref dz dx dzi dxi (1 / dz / dz) (1 / dx / dx) zsa xsa vzero i j sgntz sgntx in
  v = BigR \/ 0 <= v <= M + 2 * h * S.
Proof.
  intros B0 Bv Be Bev Hvz Hvx Hvr v. pose proof BigR_pos as HB.
  assert (P0 : 0 <= t0) by (destruct B0; lra). assert (Pv : 0 <= tv) by (destruct Bv; lra).
  assert (Pe : 0 <= te) by (destruct Be; lra). assert (Pev : 0 <= tev) by (destruct Bev; lra).
  assert (Qz : 0 <= dz * vz <= h * S) by (split; [apply Rmult_le_pos; lra | apply Rmult_le_compat; lra]).
  assert (Qx : 0 <= dx * vx <= h * S) by (split; [apply Rmult_le_pos; lra | apply Rmult_le_compat; lra]).
  assert (QhS : 0 <= h * S) by lra.
  set (T := if ob then plane_t2d tv te tev vref dz dx (1 / dz / dz) (1 / dx / dx)
            else spherical_t2d tv te tev vref dz dx dzi dxi (1 / dz / dz) (1 / dx / dx) zsa xsa vzero i j sgntz sgntx).
  assert (PT : 0 <= T).
  { unfold T. destruct ob; [apply plane_t2d_nonneg; lra | apply spherical_t2d_nonneg; lra]. }
  set (a := tv + dz * vz) in *. set (b := te + dx * vx) in *.
  assert (Ev : v = pymin2 (pymin2 t0 (pymin2 a b)) T) by reflexivity.
  assert (Pos : 0 <= v).
  { rewrite Ev. apply pymin2_ge; [apply pymin2_ge; [exact P0 | apply pymin2_ge; unfold a, b; lra] | exact PT]. }
  pose proof (pymin2_le_l (pymin2 t0 (pymin2 a b)) T) as L1. pose proof (pymin2_le_r (pymin2 t0 (pymin2 a b)) T) as L2.
  pose proof (pymin2_le_l t0 (pymin2 a b)) as L3. pose proof (pymin2_le_r t0 (pymin2 a b)) as L4.
  pose proof (pymin2_le_l a b) as L5. pose proof (pymin2_le_r a b) as L6. rewrite <- Ev in L1, L2.
  destruct B0 as [E0|B0]; [|right; lra].
  destruct Bv as [Ebv|Bv]; [|right; unfold a in *; lra].
  destruct Be as [Ebe|Be]; [|right; unfold b in *; lra].
  (* node and both axial neighbours unreached *)
  assert (Em : pymin2 t0 (pymin2 a b) = BigR).
  { rewrite pymin2_R. destruct (Rltb (pymin2 a b) t0) eqn:E; [|exact E0]. rb. exfalso.
    assert (BigR <= pymin2 a b) by (rewrite pymin2_R; destruct (Rltb b a); unfold a, b; lra). lra. }
  rewrite Em in Ev. rewrite pymin2_R in Ev. destruct (Rltb T BigR) eqn:ET; [|left; exact Ev]. rb.
  right. split; [exact Pos|]. rewrite Ev. unfold T in *. destruct ob.
  - assert (E4 : adm4 tv te tev vref dz dx = true).
    { apply adm4_true. assert (0 <= dx * vref) by (apply Rmult_le_pos; lra).
      assert (0 <= dz * vref) by (apply Rmult_le_pos; lra). destruct Bev; lra. }
    unfold plane_t2d in *. rewrite E4 in *. subst tv te. destruct Bev as [Eev|Bev].
    + exfalso. pose proof (four_point_diag_ge BigR tev vref (1 / dz / dz) (1 / dx / dx)) as G.
      pose proof (inv2_pos dz ltac:(lra)). pose proof (inv2_pos dx ltac:(lra)). lra.
    + eapply Rle_trans; [apply (four_point_diag_le BigR tev vref dz dx h); lra|].
      assert (h * vref <= h * S) by (apply Rmult_le_compat_l; lra). lra.
  - exfalso. pose proof (spherical_ge tv te tev vref dz dx dzi dxi (1 / dz / dz) (1 / dx / dx) zsa xsa vzero i j sgntz sgntx
                           (or_introl Ebv)). lra.
Qed.

(* ... and the caveat of the update holds as soon as M + 2 h S stays below Big, also after multiplication by c *)
Lemma node_cav_of_bnd ob t0 tv te tev vz vx vref :
  InB tv -> InB te -> InB tev -> 0 <= vz <= S -> 0 <= vx <= S -> 0 <= vref <= S ->
  Below c (M + 2 * h * S) ->
  node_cav c ob t0 tv te tev vz vx vref dz dx (1 / dz / dz) (1 / dx / dx).
Proof.
  intros Bv Be Bev Hvz Hvx Hvr HB.
  assert (QhS : 0 <= h * S) by (apply Rmult_le_pos; lra).
  assert (Q : forall d w, 0 < d <= h -> 0 <= w <= S -> 0 <= d * w <= h * S)
    by (intros d w Hd Hw; split; [apply Rmult_le_pos; lra | apply Rmult_le_compat; lra]).
  assert (F : forall t, InB t -> t < BigR -> 0 <= t <= M) by (intros t [E|B] L; lra).
  split; [|split].
  - intros L. apply (Below_mono c _ _ Hc) with (2 := HB). pose proof (Q dz vz Hdz Hvz). pose proof (F tv Bv L). lra.
  - intros L. apply (Below_mono c _ _ Hc) with (2 := HB). pose proof (Q dx vx Hdx Hvx). pose proof (F te Be L). lra.
  - intros _. split; [|split].
    + intros _ L _. apply (Below_mono c _ _ Hc) with (2 := HB). pose proof (Q dx vref Hdx Hvr). pose proof (F te Be L). lra.
    + intros _ L Lev. pose proof (Q dz vref Hdz Hvr). split; apply (Below_mono c _ _ Hc) with (2 := HB).
      * pose proof (F tv Bv L). lra.
      * pose proof (K3_le dz dx vref ltac:(lra) ltac:(lra) ltac:(lra)). pose proof (F tev Bev Lev). lra.
    + intros _ Ev Ee Lev. left. apply (Below_mono c _ _ Hc) with (2 := HB). subst tv te.
      unfold plane_t2d. rewrite (proj2 (adm4_true BigR BigR tev vref dz dx)).
      * eapply Rle_trans; [apply (four_point_diag_le BigR tev vref dz dx h); lra|].
        assert (h * vref <= h * S) by (apply Rmult_le_compat_l; lra). pose proof (F tev Bev Lev). lra.
      * assert (0 <= dx * vref) by (apply Rmult_le_pos; lra). assert (0 <= dz * vref) by (apply Rmult_le_pos; lra). lra.
Qed.

Variables (nz nx : Z) (slow : arr R) (zsi xsi zsa xsa vzero : R).
Hypothesis Hslow : SlowBnd S slow.

Lemma edge_cell_bnd i j a b :
  0 <= edge_s_z slow i j a nx <= S /\ 0 <= edge_s_x slow i j b nz <= S /\ 0 <= cell_s slow i j a b <= S.
Proof.
  assert (G : forall idx, 0 <= get 0 slow idx <= S) by (intros idx; apply SlowBnd_get; assumption).
  unfold edge_s_z, edge_s_x, cell_s. split; [|split]; [apply pymin2_bnd; apply G | apply pymin2_bnd; apply G | apply G].
Qed.

Lemma do_step_bnd s tt :
  Bnd M tt -> Bnd (M + 2 * h * S) (do_step nz nx slow (dargs_of dz dx) zsi xsi zsa xsa vzero s tt).
Proof.
  intros Ht. destruct s as [[[ux uz] i] j]. unfold do_step, swT, dargs_of. rewrite sweep_tt_eq, sweep_value_node_new.
  assert (QhS : 0 <= h * S) by (apply Rmult_le_pos; lra).
  apply Bnd_set; [apply (Bnd_mono M); [lra | exact Ht]|].
  destruct (edge_cell_bnd i j (sgnv uz) (sgnv ux)) as (E1 & E2 & E3).
  apply node_new_bnd; try assumption; (apply Bnd_get; [lra | assumption]).
Qed.

Lemma NodeCav_of_bnd s tt :
  Bnd M tt -> Below c (M + 2 * h * S) -> NodeCav c nz nx slow dz dx zsi xsi s tt.
Proof.
  intros Ht HB. destruct s as [[[ux uz] i] j]. unfold NodeCav.
  destruct (edge_cell_bnd i j (sgnv uz) (sgnv ux)) as (E1 & E2 & E3).
  apply node_cav_of_bnd; try assumption; (apply Bnd_get; [lra | assumption]).
Qed.
End Bounded.

(* along a whole list of updates the bound grows by 2 h S per update *)
Lemma Along_of_bnd c h S dz dx nz nx slow zsi xsi zsa xsa vzero l :
  0 < c -> 0 <= S -> 0 < dz <= h -> 0 < dx <= h -> SlowBnd S slow ->
  forall M tt, 0 <= M -> Bnd M tt -> Below c (M + INR (length l) * (2 * h * S)) ->
  Along (do_step nz nx slow (dargs_of dz dx) zsi xsi zsa xsa vzero) (NodeCav c nz nx slow dz dx zsi xsi) l tt.
Proof.
  intros Hc HS Hdz Hdx Hs. assert (QhS : 0 <= 2 * h * S) by (assert (0 <= h * S) by (apply Rmult_le_pos; lra); lra).
  induction l as [|s l IH]; intros M tt HM Ht HB; [exact I|].
  cbn [length] in HB. rewrite S_INR in HB. pose proof (pos_INR (length l)) as Hl.
  assert (Hl' : 0 <= INR (length l) * (2 * h * S)) by (apply Rmult_le_pos; assumption).
  assert (HMB : 0 <= M < BigR) by (destruct HB; lra).
  split.
  - apply (NodeCav_of_bnd c M h S Hc HMB HS dz dx Hdz Hdx nz nx slow zsi xsi Hs s tt Ht).
    apply (Below_mono c _ _ Hc) with (2 := HB). lra.
  - apply (IH (M + 2 * h * S)); [lra | apply (do_step_bnd M h S HMB HS dz dx Hdz Hdx nz nx slow zsi xsi zsa xsa vzero Hs s tt Ht) |].
    apply (Below_mono c _ _ Hc) with (2 := HB). lra.
Qed.

(* THE SIMPLE FORM of the caveat of the sweeping phase: with h >= dz, dx, every slowness in [0, S], every entry of the
   initial grid of the reference run equal to Big or in [0, M], and N node updates in all,
     M + N (2 h S) < Big   and   c (M + N (2 h S)) < Big. *)
Theorem SweepCav_of_bound c slow dz dx zsrc xsrc nsweep grad M h S :
  0 < c -> 0 <= M -> 0 <= S -> 0 < dz <= h -> 0 < dx <= h -> SlowBnd S slow ->
  Bnd M (i_tt slow dz dx zsrc xsrc grad) ->
  Below c (M + INR (length (all_steps (dim slow 0 + 1) (dim slow 1 + 1) nsweep)) * (2 * h * S)) ->
  SweepCav c slow dz dx zsrc xsrc nsweep grad.
Proof.
  intros Hc HM HS Hdz Hdx Hs Ht HB. unfold SweepCav.
  exact (Along_of_bnd c h S dz dx _ _ slow _ _ _ _ _ _ Hc HS Hdz Hdx Hs M _ HM Ht HB).
Qed.

(* ========================================================================================== *)
(* 9. the initial grid when the model is homogeneous along the row and the column of cells       *)
(*    through the source cell (the only cells `fteik2d_p2` reads): analytic times or Big         *)
(* ========================================================================================== *)
Lemma for_list_ext_in {St} (l : list Z) (b1 b2 : Z -> St -> St) s :
  (forall i t, In i l -> b1 i t = b2 i t) -> for_list l b1 s = for_list l b2 s.
Proof.
  unfold for_list. revert s. induction l as [|i l IH]; intros s Hb; cbn; [reflexivity|].
  rewrite (Hb i s) by (left; reflexivity). apply IH. intros j t Hj. apply Hb. right. exact Hj.
Qed.

(* fteik2d_p2 reads the slowness of the cells of row zsi and of column xsi only *)
Lemma p2_slow_ext (dx dz : R) grad nx nz (slow slow2 tt tg : arr R) sg (vzero xsa : R) xsi (zsa : R) zsi :
  (0 <= zsi < nz - 1)%Z -> (0 <= xsi < nx - 1)%Z ->
  (forall j, (0 <= j < nx - 1)%Z -> get 0 slow [zsi; j] = get 0 slow2 [zsi; j]) ->
  (forall i, (0 <= i < nz - 1)%Z -> get 0 slow [i; xsi] = get 0 slow2 [i; xsi]) ->
  fteik2d_p2 dx dz grad 2 nx nz slow tt tg sg vzero xsa xsi zsa zsi
  = fteik2d_p2 dx dz grad 2 nx nz slow2 tt tg sg vzero xsa xsi zsa zsi.
Proof.
  intros Hz Hx Hrow Hcol. rewrite !fteik2d_p2_decompose. change (2 =? 2)%Z with true. cbv iota zeta.
  assert (EE : forall dzu dzd dxe st, east_phase dx dz grad nx slow vzero xsa xsi zsa zsi dzu dzd dxe st
                                  = east_phase dx dz grad nx slow2 vzero xsa xsi zsa zsi dzu dzd dxe st).
  { intros. unfold east_phase. cbv zeta. apply for_list_ext_in. intros j t Hj. apply in_pyrange_up in Hj.
    unfold east_body. cbv zeta. change (@nofZ R NumR 0%Z) with 0. rewrite (Hrow (j - 1)%Z) by lia. reflexivity. }
  assert (EW : forall dzu dzd dxw st, west_phase dx dz grad slow vzero xsa xsi zsa zsi dzu dzd dxw st
                                  = west_phase dx dz grad slow2 vzero xsa xsi zsa zsi dzu dzd dxw st).
  { intros. unfold west_phase. cbv zeta. apply for_list_ext_in. intros j t Hj. apply in_pyrange_down in Hj.
    unfold west_body. cbv zeta. change (@nofZ R NumR 0%Z) with 0. rewrite (Hrow j) by lia. reflexivity. }
  assert (ED : forall dxw dxe dzd st, down_phase dx dz grad nz slow vzero xsa xsi zsa zsi dxw dxe dzd st
                                  = down_phase dx dz grad nz slow2 vzero xsa xsi zsa zsi dxw dxe dzd st).
  { intros. unfold down_phase. cbv zeta. apply for_list_ext_in. intros i t Hi. apply in_pyrange_up in Hi.
    unfold down_body. cbv zeta. change (@nofZ R NumR 0%Z) with 0. rewrite (Hcol (i - 1)%Z) by lia. reflexivity. }
  assert (EU : forall dxw dxe dzu st, up_phase dx dz grad slow vzero xsa xsi zsa zsi dxw dxe dzu st
                                  = up_phase dx dz grad slow2 vzero xsa xsi zsa zsi dxw dxe dzu st).
  { intros. unfold up_phase. cbv zeta. apply for_list_ext_in. intros i t Hi. apply in_pyrange_down in Hi.
    unfold up_body. cbv zeta. change (@nofZ R NumR 0%Z) with 0. rewrite (Hcol i) by lia. reflexivity. }
  rewrite !EE, !EW, !ED, !EU. reflexivity.
Qed.

Lemma Forall_of_get2 (P : R -> Prop) (a : arr R) (nz nx : Z) :
  wf a -> shape a = [nz; nx] ->
  (forall i j, (0 <= i < nz)%Z -> (0 <= j < nx)%Z -> P (get 0 a [i; j])) -> Forall P (dat a).
Proof.
  intros [Hl Hs] Es Hg. rewrite Forall_forall. intros x Hx.
  destruct (In_nth _ _ 0 Hx) as (n & Hn & <-).
  rewrite Hl, Es in Hn. unfold prodZ in Hn. cbn [fold_right] in Hn.
  rewrite Es in Hs. inversion Hs as [|? ? Hnz Hs']; subst. inversion Hs' as [|? ? Hnx _]; subst.
  assert (Hpos : (0 < nx)%Z) by nia.
  assert (Hn' : (0 <= Z.of_nat n < nz * nx)%Z) by nia.
  destruct (decomp2 (Z.of_nat n) nz nx Hn' Hpos) as (Hp & Hq & En).
  specialize (Hg _ _ Hp Hq). rewrite (get2_nth nz nx) in Hg by assumption. rewrite <- En, Nat2Z.id in Hg. exact Hg.
Qed.

Lemma sqrt_sum_sq_le (p q P Q : R) : Rabs p <= P -> Rabs q <= Q -> sqrt (p ^ 2 + q ^ 2) <= P + Q.
Proof.
  intros Hp Hq. pose proof (Rabs_pos p). pose proof (Rabs_pos q).
  rewrite <- (sqrt_square (P + Q)) by lra. apply sqrt_le_1_alt.
  assert (p ^ 2 = Rabs p * Rabs p) by (rewrite <- Rabs_mult; rewrite Rabs_pos_eq; [ring | nra]).
  assert (q ^ 2 = Rabs q * Rabs q) by (rewrite <- Rabs_mult; rewrite Rabs_pos_eq; [ring | nra]).
  nra.
Qed.

Section InitBound.
Variables (slow : arr R) (dz dx zsrc xsrc : R).
Hypotheses (Hdz : 0 < dz) (Hdx : 0 < dx).
Hypotheses (Hnz : (1 <= dim slow 0)%Z) (Hnx : (1 <= dim slow 1)%Z).
Hypothesis (Hin : inside2d slow dz dx zsrc xsrc = true).
Notation NZ := (dim slow 0 + 1)%Z.
Notation NX := (dim slow 1 + 1)%Z.

Theorem init_Bnd_rowcol grad (v0 : R) :
  0 <= v0 ->
  (forall j, (0 <= j < dim slow 1)%Z -> get 0 slow [i_zsi slow dz dx zsrc xsrc grad; j] = v0) ->
  (forall i, (0 <= i < dim slow 0)%Z -> get 0 slow [i; i_xsi slow dz dx zsrc xsrc grad] = v0) ->
  Bnd (v0 * (dz * IZR NZ + dx * IZR NX)) (i_tt slow dz dx zsrc xsrc grad).
Proof.
  intros Hv Hrow Hcol.
  destruct (source_frame slow dz dx zsrc xsrc Hdz Hdx Hnz Hnx Hin grad) as (Sz & Sx & Bz & Bx & _).
  assert (HNZ : 0 <= IZR NZ) by (apply IZR_le; lia). assert (HNX : 0 <= IZR NX) by (apply IZR_le; lia).
  assert (HM : 0 <= v0 * (dz * IZR NZ + dx * IZR NX)).
  { apply Rmult_le_pos; [exact Hv|]. apply Rplus_le_le_0_compat; apply Rmult_le_pos; lra. }
  destruct (fteik2d_init_okT slow dz dx zsrc xsrc grad ltac:(lia) ltac:(lia)) as [W Sh].
  revert W Sh. unfold i_tt, p2. rewrite i_tt1_eq, i_nz_eq, i_nx_eq. intros W Sh.
  destruct (Z.eqb_spec (i_iflag slow dz dx zsrc xsrc grad) 2) as [E|N].
  - rewrite E in *.
    set (slow2 := full [dim slow 0; dim slow 1] v0).
    assert (G2 : forall i j, (0 <= i < dim slow 0)%Z -> (0 <= j < dim slow 1)%Z -> get 0 slow2 [i; j] = v0).
    { intros i j Hi Hj. unfold slow2. apply get_full. cbn [inb_sh].
      repeat (apply andb_true_intro; split); first [reflexivity | apply Z.leb_le; lia | apply Z.ltb_lt; lia]. }
    assert (Ev : i_vzero slow dz dx zsrc xsrc grad = v0) by (rewrite i_vzero_eq; apply Hrow; lia).
    assert (Ex : forall tt tg sg vz xa za,
              fteik2d_p2 dx dz grad 2 NX NZ slow tt tg sg vz xa (i_xsi slow dz dx zsrc xsrc grad) za (i_zsi slow dz dx zsrc xsrc grad)
              = fteik2d_p2 dx dz grad 2 NX NZ slow2 tt tg sg vz xa (i_xsi slow dz dx zsrc xsrc grad) za (i_zsi slow dz dx zsrc xsrc grad)).
    { intros. apply p2_slow_ext; [lia | lia | |].
      - intros q Hq. rewrite Hrow, G2 by lia. reflexivity.
      - intros q Hq. rewrite Hcol, G2 by lia. reflexivity. }
    rewrite Ex in W, Sh |- *.
    apply (Forall_of_get2 _ _ NZ NX W Sh). intros i j Hi Hj. rewrite Ev.
    assert (Rz : (0 <= i_zsi slow dz dx zsrc xsrc grad < NZ - 1)%Z) by lia.
    assert (Rx : (0 <= i_xsi slow dz dx zsrc xsrc grad < NX - 1)%Z) by lia.
    destruct (fteik2d_init_homogeneous_exact_or_Big NZ NX dz dx grad slow2 (full [NZ; NX] Big)
                (i_ttgrad1 slow dz dx zsrc xsrc grad) (i_ttsgn1 slow dz dx zsrc xsrc grad) v0
                (i_zsa slow dz dx zsrc xsrc grad) (i_xsa slow dz dx zsrc xsrc grad)
                (i_zsi slow dz dx zsrc xsrc grad) (i_xsi slow dz dx zsrc xsrc grad)
                Hdz Hdx Hv Rz Rx Bz Bx) with (i := i) (j := j) as [Ea|Eb]; try assumption.
    + intros a b Ha Hb. apply G2; lia.
    + apply wf_full. repeat constructor; lia.
    + reflexivity.
    + intros a b Ha Hb. apply get_full. cbn [inb_sh].
      repeat (apply andb_true_intro; split); first [reflexivity | apply Z.leb_le; lia | apply Z.ltb_lt; lia].
    + right. rewrite Ea, t_ana_exact. split; [apply Rmult_le_pos; [exact Hv | apply sqrt_pos]|].
      apply Rmult_le_compat_l; [exact Hv|].
      assert (Ci : 0 <= IZR i <= IZR NZ - 1) by (split; [apply IZR_le; lia | rewrite <- minus_IZR; apply IZR_le; lia]).
      assert (Cj : 0 <= IZR j <= IZR NX - 1) by (split; [apply IZR_le; lia | rewrite <- minus_IZR; apply IZR_le; lia]).
      assert (Cz : 0 <= i_zsa slow dz dx zsrc xsrc grad <= IZR NZ - 1).
      { destruct Sz as [S1 S2]. apply IZR_le in S1, S2. rewrite minus_IZR in S2. rewrite plus_IZR. lra. }
      assert (Cx : 0 <= i_xsa slow dz dx zsrc xsrc grad <= IZR NX - 1).
      { destruct Sx as [S1 S2]. apply IZR_le in S1, S2. rewrite minus_IZR in S2. rewrite plus_IZR. lra. }
      apply sqrt_sum_sq_le.
      * rewrite Rabs_mult, (Rabs_pos_eq dz) by lra. apply Rmult_le_compat_l; [lra|]. apply Rabs_le. lra.
      * rewrite Rabs_mult, (Rabs_pos_eq dx) by lra. apply Rmult_le_compat_l; [lra|]. apply Rabs_le. lra.
    + left. exact Eb.
  - rewrite fteik2d_p2_decompose. apply Z.eqb_neq in N. rewrite N. cbn [fst snd].
    apply Bnd_set; [|right; cbn [nofZ NumR]; lra].
    unfold Bnd, full. cbn [dat]. rewrite Forall_forall. intros x Hx. apply repeat_spec in Hx. left. exact Hx.
Qed.
End InitBound.

(* ========================================================================================== *)
(* 10. c >= 1: the whole caveat in numbers                                                       *)
(* ========================================================================================== *)
Section Numeric.
Variables (c : R) (k : skind).
Hypothesis Hc1 : 1 <= c.
Variables (slow : arr R) (dz dx zsrc xsrc : R).
Notation slow' := (sc_slow k c slow).
Notation dz' := (sc_h k c dz).
Notation dx' := (sc_h k c dx).
Notation zsrc' := (sc_h k c zsrc).
Notation xsrc' := (sc_h k c xsrc).
Notation NZ := (dim slow 0 + 1)%Z.
Notation NX := (dim slow 1 + 1)%Z.
Hypotheses (Hdz : 0 < dz) (Hdx : 0 < dx).
Hypotheses (Hnz : (1 <= dim slow 0)%Z) (Hnx : (1 <= dim slow 1)%Z).
Hypothesis (Hin : inside2d slow dz dx zsrc xsrc = true).

Lemma Hc_of_ge1 : 0 < c. Proof. lra. Qed.

(* the initial grids are related as in InitExact (scaled, or Big on both sides) as soon as related entries are on the
   same side of Big *)
Lemma init_TRel grad :
  (forall i j, (0 <= i < NZ)%Z -> (0 <= j < NX)%Z ->
     t2rel c (get 0 (i_tt slow dz dx zsrc xsrc grad) [i; j]) (get 0 (i_tt slow' dz' dx' zsrc' xsrc' grad) [i; j]) ->
     (get 0 (i_tt slow dz dx zsrc xsrc grad) [i; j] < BigR <-> get 0 (i_tt slow' dz' dx' zsrc' xsrc' grad) [i; j] < BigR)) ->
  TRel NZ NX c (i_tt slow dz dx zsrc xsrc grad) (i_tt slow' dz' dx' zsrc' xsrc' grad).
Proof.
  pose proof Hc_of_ge1 as Hc.
  assert (O0 : okT NZ NX (i_tt slow dz dx zsrc xsrc grad)) by (apply fteik2d_init_okT; lia).
  assert (O0' : okT NZ NX (i_tt slow' dz' dx' zsrc' xsrc' grad)).
  { pose proof (fteik2d_init_okT slow' dz' dx' zsrc' xsrc' grad) as O. rewrite !(dim_sc c k) in O. apply O; lia. }
  revert O0 O0'.
  unfold i_tt, p2. destruct (p1_sc c k Hc slow dz dx zsrc xsrc grad) as (-> & -> & -> & -> & -> & -> & -> & -> & ->).
  rewrite i_tt1_eq, i_nz_eq, i_nx_eq.
  destruct (source_frame slow dz dx zsrc xsrc Hdz Hdx Hnz Hnx Hin grad) as (Sz & Sx & _).
  set (tt1 := full [NZ; NX] BigR).
  assert (W1 : wf tt1) by (apply wf_full; repeat constructor; lia).
  destruct (Z.eqb_spec (i_iflag slow dz dx zsrc xsrc grad) 2) as [E|N].
  - rewrite E. intros _ _ HR.
    assert (Rz : (0 <= i_zsi slow dz dx zsrc xsrc grad < NZ - 1)%Z) by lia.
    assert (Rx : (0 <= i_xsi slow dz dx zsrc xsrc grad < NX - 1)%Z) by lia.
    assert (RM : (NX <= Z.max NZ NX)%Z /\ (NZ <= Z.max NZ NX)%Z) by lia.
    apply (init_scale NZ NX c k Hc dx dz grad grad slow (i_vzero slow dz dx zsrc xsrc grad)
             (i_xsa slow dz dx zsrc xsrc grad) (i_zsa slow dz dx zsrc xsrc grad)
             (i_zsi slow dz dx zsrc xsrc grad) (i_xsi slow dz dx zsrc xsrc grad) (Z.max NZ NX)
             Rz Rx RM tt1 tt1 _ _ _ _ eq_refl).
    + split; [exact W1|]. split; [exact W1|]. split; [reflexivity|]. split; [reflexivity|].
      intros i j Hi Hj. right. split; apply get_full; cbn [inb_sh];
        repeat (apply andb_true_intro; split); first [reflexivity | apply Z.leb_le; lia | apply Z.ltb_lt; lia].
    + intros i j Hi Hj Ht. unfold BelowIff. apply HR; assumption.
  - intros [W Sh] [W' Sh'] _. revert W Sh W' Sh'.
    rewrite !fteik2d_p2_decompose. apply Z.eqb_neq in N. rewrite N. cbn [fst snd]. intros W Sh W' Sh'.
    apply GRel_TRel; try assumption. apply GRel_set; [apply GRel_full | apply vrel_zero].
Qed.

(* c >= 1: the caveat of the initialisation from bounds on the two initial grids *)
Lemma init_SameReach_ge1 grad M M' :
  0 <= M -> c * M < BigR -> 0 <= M' < BigR ->
  Bnd M (i_tt slow dz dx zsrc xsrc grad) -> Bnd M' (i_tt slow' dz' dx' zsrc' xsrc' grad) ->
  SameReach NZ NX (i_tt slow dz dx zsrc xsrc grad) (i_tt slow' dz' dx' zsrc' xsrc' grad).
Proof.
  intros HM HcM HM' HB HB'. pose proof Hc_of_ge1 as Hc. pose proof BigR_pos as HBig.
  assert (HMB : M < BigR) by nra.
  assert (HT : TRel NZ NX c (i_tt slow dz dx zsrc xsrc grad) (i_tt slow' dz' dx' zsrc' xsrc' grad)).
  { apply init_TRel. intros i j Hi Hj. apply caveat_ge1; [exact Hc1|]. intros L.
    destruct (Bnd_get M _ [i; j] HM HB) as [E|B]; [lra | nra]. }
  destruct HT as (_ & _ & _ & _ & Hg). intros i j Hi Hj.
  destruct (Bnd_get M _ [i; j] HM HB) as [E|B]; destruct (Bnd_get M' _ [i; j] (proj1 HM') HB') as [E'|B'];
    destruct (Hg i j Hi Hj) as [Es|[Eb Eb']]; try (left; split; assumption); try (right; split; nra); exfalso; nra.
Qed.

(* C05 for fteik2d with a caveat made of numbers only (c >= 1):
     every slowness in [0, S];  dz, dx <= h;
     every entry of the initial grid of the reference run is Big or in [0, M], of the scaled run Big or in [0, M'];
     with N = number of node updates of the sweeping phase:  c (M + N (2 h S)) < Big   and   M' < Big. *)
Theorem solver_rel_bounded nsweep grad tt g vz M M' h S :
  0 <= M -> 0 <= M' < BigR -> 0 <= S -> dz <= h -> dx <= h -> SlowBnd S slow ->
  Bnd M (i_tt slow dz dx zsrc xsrc grad) -> Bnd M' (i_tt slow' dz' dx' zsrc' xsrc' grad) ->
  c * (M + INR (length (all_steps NZ NX nsweep)) * (2 * h * S)) < BigR ->
  fteik2d slow dz dx zsrc xsrc nsweep grad = Ok (tt, g, vz) ->
  exists tt' g', fteik2d slow' dz' dx' zsrc' xsrc' nsweep grad = Ok (tt', g', sc_v k c vz) /\
                 TRel NZ NX c tt tt' /\ SameReach NZ NX tt tt'.
Proof.
  intros HM HM' HS Hzh Hxh Hs HB HB' Hlt E. pose proof Hc_of_ge1 as Hc.
  assert (HN : 0 <= INR (length (all_steps NZ NX nsweep)) * (2 * h * S)).
  { apply Rmult_le_pos; [apply pos_INR|]. assert (0 <= h * S) by (apply Rmult_le_pos; lra). lra. }
  apply (solver_rel c k Hc slow dz dx zsrc xsrc Hdz Hdx Hnz Hnx Hin nsweep grad tt g vz (SlowBnd_nonneg S slow Hs) E).
  - apply (init_SameReach_ge1 grad M M'); try assumption. nra.
  - apply (SweepCav_of_bound c slow dz dx zsrc xsrc nsweep grad M h S); try assumption; try lra.
    apply Below_ge1; [exact Hc1 | lra | exact Hlt].
Qed.
End Numeric.

Theorem fteik2d_scale_slowness_bounded (c : R) (slow : arr R) (dz dx zsrc xsrc : R) nsweep grad (tt g : arr R) (vz M M' h S : R) :
  1 <= c -> 0 < dz <= h -> 0 < dx <= h -> (1 <= dim slow 0)%Z -> (1 <= dim slow 1)%Z ->
  0 <= S -> SlowBnd S slow ->
  0 <= M -> Bnd M (i_tt slow dz dx zsrc xsrc grad) ->
  0 <= M' < BigR -> Bnd M' (i_tt (smap c slow) dz dx zsrc xsrc grad) ->
  c * (M + INR (length (all_steps (dim slow 0 + 1) (dim slow 1 + 1) nsweep)) * (2 * h * S)) < BigR ->
  fteik2d slow dz dx zsrc xsrc nsweep grad = Ok (tt, g, vz) ->
  exists tt' g', fteik2d (smap c slow) dz dx zsrc xsrc nsweep grad = Ok (tt', g', c * vz) /\
                 TRel (dim slow 0 + 1) (dim slow 1 + 1) c tt tt' /\ SameReach (dim slow 0 + 1) (dim slow 1 + 1) tt tt'.
Proof.
  intros Hc [Hdz Hzh] [Hdx Hxh] Hnz Hnx HS Hs HM HB HM' HB' Hlt E.
  pose proof (fteik2d_ok_inv slow dz dx zsrc xsrc nsweep grad tt g vz E) as (Hin & _).
  exact (solver_rel_bounded c Slowness Hc slow dz dx zsrc xsrc Hdz Hdx Hnz Hnx Hin nsweep grad tt g vz M M' h S
           HM HM' HS Hzh Hxh Hs HB HB' Hlt E).
Qed.

Theorem fteik2d_scale_length_bounded (c : R) (slow : arr R) (dz dx zsrc xsrc : R) nsweep grad (tt g : arr R) (vz M M' h S : R) :
  1 <= c -> 0 < dz <= h -> 0 < dx <= h -> (1 <= dim slow 0)%Z -> (1 <= dim slow 1)%Z ->
  0 <= S -> SlowBnd S slow ->
  0 <= M -> Bnd M (i_tt slow dz dx zsrc xsrc grad) ->
  0 <= M' < BigR -> Bnd M' (i_tt slow (c * dz) (c * dx) (c * zsrc) (c * xsrc) grad) ->
  c * (M + INR (length (all_steps (dim slow 0 + 1) (dim slow 1 + 1) nsweep)) * (2 * h * S)) < BigR ->
  fteik2d slow dz dx zsrc xsrc nsweep grad = Ok (tt, g, vz) ->
  exists tt' g', fteik2d slow (c * dz) (c * dx) (c * zsrc) (c * xsrc) nsweep grad = Ok (tt', g', vz) /\
                 TRel (dim slow 0 + 1) (dim slow 1 + 1) c tt tt' /\ SameReach (dim slow 0 + 1) (dim slow 1 + 1) tt tt'.
Proof.
  intros Hc [Hdz Hzh] [Hdx Hxh] Hnz Hnx HS Hs HM HB HM' HB' Hlt E.
  pose proof (fteik2d_ok_inv slow dz dx zsrc xsrc nsweep grad tt g vz E) as (Hin & _).
  exact (solver_rel_bounded c Length Hc slow dz dx zsrc xsrc Hdz Hdx Hnz Hnx Hin nsweep grad tt g vz M M' h S
           HM HM' HS Hzh Hxh Hs HB HB' Hlt E).
Qed.

(* ========================================================================================== *)
(* 11. non-vacuity: a heterogeneous model of 2 x 2 cells (3 x 3 nodes), unit spacings, source in   *)
(*     the middle of cell (0,0) (off-node), two sweeps, c = 2                                     *)
(* ========================================================================================== *)
Definition hx_slow : arr R := mkarr [2%Z; 2%Z] [1; 1; 1; 2].

Lemma Rtrunc_small x : 0 <= x < 1 -> Rtrunc x = 0%Z.
Proof.
  intros [H0 H1]. destruct (Rtrunc_bounds x H0) as [T0 [T1 T2]].
  assert (A : IZR (Rtrunc x) < IZR 1) by (cbn; lra). apply lt_IZR in A. lia.
Qed.

Lemma two_pos : 0 < 2. Proof. lra. Qed.
Lemma hx_inside : inside2d hx_slow 1 1 (1/2) (1/2) = true.
Proof.
  unfold inside2d. cbn [dim shape hx_slow nth]. cbn [nleb nmul nofZ NumR].
  rewrite !andb_true_iff, !Rleb_true. lra.
Qed.
Lemma hx_zsi grad : i_zsi hx_slow 1 1 (1/2) (1/2) grad = 0%Z.
Proof. rewrite i_zsi_eq. rewrite Rtrunc_small by lra. reflexivity. Qed.
Lemma hx_xsi grad : i_xsi hx_slow 1 1 (1/2) (1/2) grad = 0%Z.
Proof. rewrite i_xsi_eq. rewrite Rtrunc_small by lra. reflexivity. Qed.
Lemma hx_row j : (0 <= j < 2)%Z -> get 0 hx_slow [0%Z; j] = 1.
Proof. intros Hj. assert (C : j = 0%Z \/ j = 1%Z) by lia. destruct C as [-> | ->]; reflexivity. Qed.
Lemma hx_col i : (0 <= i < 2)%Z -> get 0 hx_slow [i; 0%Z] = 1.
Proof. intros Hi. assert (C : i = 0%Z \/ i = 1%Z) by lia. destruct C as [-> | ->]; reflexivity. Qed.
Lemma hx_slowbnd : SlowBnd 2 hx_slow.
Proof. unfold SlowBnd, hx_slow. cbn [dat]. repeat constructor; lra. Qed.
Lemma hx_steps : length (all_steps (dim hx_slow 0 + 1) (dim hx_slow 1 + 1) 2) = 32%nat.
Proof. reflexivity. Qed.

(* the three initial grids: reference, slowness x 2, lengths x 2 *)
Lemma hx_init_bnd grad : Bnd 6 (i_tt hx_slow 1 1 (1/2) (1/2) grad).
Proof.
  eapply Bnd_mono; [|apply (init_Bnd_rowcol hx_slow 1 1 (1/2) (1/2) ltac:(lra) ltac:(lra)) with (v0 := 1)].
  - change (dim hx_slow 0) with 2%Z. change (dim hx_slow 1) with 2%Z. rewrite plus_IZR. lra.
  - change (dim hx_slow 0) with 2%Z. lia.
  - change (dim hx_slow 1) with 2%Z. lia.
  - exact hx_inside.
  - lra.
  - intros j Hj. rewrite hx_zsi. apply hx_row, Hj.
  - intros i Hi. rewrite hx_xsi. apply hx_col, Hi.
Qed.

Lemma hx_init_bnd_slowness grad : Bnd 12 (i_tt (smap 2 hx_slow) 1 1 (1/2) (1/2) grad).
Proof.
  destruct (p1_sc 2 Slowness two_pos hx_slow 1 1 (1/2) (1/2) grad) as (_ & _ & _ & _ & _ & _ & Ez & Ex & _).
  cbn [sc_slow sc_h] in Ez, Ex.
  eapply Bnd_mono; [|apply (init_Bnd_rowcol (smap 2 hx_slow) 1 1 (1/2) (1/2) ltac:(lra) ltac:(lra)) with (v0 := 2 * 1)].
  - change (dim (smap 2 hx_slow) 0) with 2%Z. change (dim (smap 2 hx_slow) 1) with 2%Z. rewrite plus_IZR. lra.
  - change (dim (smap 2 hx_slow) 0) with 2%Z. lia.
  - change (dim (smap 2 hx_slow) 1) with 2%Z. lia.
  - exact (eq_trans (inside2d_sc 2 Slowness two_pos hx_slow 1 1 (1/2) (1/2)) hx_inside).
  - lra.
  - intros j Hj. rewrite Ez, hx_zsi, get_smap. f_equal. apply hx_row, Hj.
  - intros i Hi. rewrite Ex, hx_xsi, get_smap. f_equal. apply hx_col, Hi.
Qed.

Lemma hx_init_bnd_length grad : Bnd 12 (i_tt hx_slow (2 * 1) (2 * 1) (2 * (1/2)) (2 * (1/2)) grad).
Proof.
  destruct (p1_sc 2 Length two_pos hx_slow 1 1 (1/2) (1/2) grad) as (_ & _ & _ & _ & _ & _ & Ez & Ex & _).
  cbn [sc_slow sc_h] in Ez, Ex.
  eapply Bnd_mono; [|apply (init_Bnd_rowcol hx_slow (2 * 1) (2 * 1) (2 * (1/2)) (2 * (1/2)) ltac:(lra) ltac:(lra)) with (v0 := 1)].
  - change (dim hx_slow 0) with 2%Z. change (dim hx_slow 1) with 2%Z. rewrite plus_IZR. lra.
  - change (dim hx_slow 0) with 2%Z. lia.
  - change (dim hx_slow 1) with 2%Z. lia.
  - exact (eq_trans (inside2d_sc 2 Length two_pos hx_slow 1 1 (1/2) (1/2)) hx_inside).
  - lra.
  - intros j Hj. rewrite Ez, hx_zsi. apply hx_row, Hj.
  - intros i Hi. rewrite Ex, hx_xsi. apply hx_col, Hi.
Qed.

Lemma hx_numbers : 2 * (6 + INR (length (all_steps (dim hx_slow 0 + 1) (dim hx_slow 1 + 1) 2)) * (2 * 1 * 2)) < BigR.
Proof. rewrite hx_steps, INR_IZR_INZ, BigR_val. cbn [Z.of_nat Pos.of_succ_nat Pos.succ]. lra. Qed.

(* the precise caveat of the sweeping phase holds *)
Example hx_SweepCav : SweepCav 2 hx_slow 1 1 (1/2) (1/2) 2 false.
Proof.
  apply (SweepCav_of_bound 2 hx_slow 1 1 (1/2) (1/2) 2 false 6 1 2); try lra.
  - exact hx_slowbnd.
  - apply hx_init_bnd.
  - pose proof hx_numbers as H. apply Below_ge1; [lra | | exact H].
    apply Rplus_le_le_0_compat; [lra|]. apply Rmult_le_pos; [apply pos_INR | lra].
Qed.

Example fteik2d_scale_slowness_ex :
  exists tt g tt' g',
    fteik2d hx_slow 1 1 (1/2) (1/2) 2 false = Ok (tt, g, 1) /\
    fteik2d (smap 2 hx_slow) 1 1 (1/2) (1/2) 2 false = Ok (tt', g', 2 * 1) /\
    TRel 3 3 2 tt tt' /\ SameReach 3 3 tt tt'.
Proof.
  destruct (fteik2d_raises_iff hx_slow 1 1 (1/2) (1/2) 2 false) as [_ H].
  destruct (H hx_inside) as [[[tt g] vz] E].
  assert (Ev : vz = 1).
  { destruct (fteik2d_ok_inv hx_slow 1 1 (1/2) (1/2) 2 false tt g vz E) as (_ & _ & ->).
    rewrite i_vzero_eq, hx_zsi, hx_xsi. reflexivity. }
  subst vz.
  destruct (fteik2d_scale_slowness_bounded 2 hx_slow 1 1 (1/2) (1/2) 2 false tt g 1 6 12 1 2) as (tt' & g' & E' & HT & HR);
    try lra; try exact E; try exact hx_slowbnd; try apply hx_init_bnd; try apply hx_init_bnd_slowness;
    try exact hx_numbers; try (change (dim hx_slow 0) with 2%Z; lia); try (change (dim hx_slow 1) with 2%Z; lia).
  - rewrite BigR_val. lra.
  - exists tt, g, tt', g'. split; [exact E|]. split; [exact E'|]. split; [exact HT | exact HR].
Qed.

Example fteik2d_scale_length_ex :
  exists tt g tt' g',
    fteik2d hx_slow 1 1 (1/2) (1/2) 2 false = Ok (tt, g, 1) /\
    fteik2d hx_slow (2 * 1) (2 * 1) (2 * (1/2)) (2 * (1/2)) 2 false = Ok (tt', g', 1) /\
    TRel 3 3 2 tt tt' /\ SameReach 3 3 tt tt'.
Proof.
  destruct (fteik2d_raises_iff hx_slow 1 1 (1/2) (1/2) 2 false) as [_ H].
  destruct (H hx_inside) as [[[tt g] vz] E].
  assert (Ev : vz = 1).
  { destruct (fteik2d_ok_inv hx_slow 1 1 (1/2) (1/2) 2 false tt g vz E) as (_ & _ & ->).
    rewrite i_vzero_eq, hx_zsi, hx_xsi. reflexivity. }
  subst vz.
  destruct (fteik2d_scale_length_bounded 2 hx_slow 1 1 (1/2) (1/2) 2 false tt g 1 6 12 1 2) as (tt' & g' & E' & HT & HR);
    try lra; try exact E; try exact hx_slowbnd; try apply hx_init_bnd; try apply hx_init_bnd_length;
    try exact hx_numbers; try (change (dim hx_slow 0) with 2%Z; lia); try (change (dim hx_slow 1) with 2%Z; lia).
  - rewrite BigR_val. lra.
  - exists tt, g, tt', g'. split; [exact E|]. split; [exact E'|]. split; [exact HT | exact HR].
Qed.

(* the raise behaviour: a source outside the model raises in both unit systems *)
Example fteik2d_scale_raises_ex :
  fteik2d hx_slow 1 1 3 (1/2) 2 false = Raise ValueError /\
  fteik2d (smap 2 hx_slow) 1 1 3 (1/2) 2 false = Raise ValueError /\
  fteik2d hx_slow (2 * 1) (2 * 1) (2 * 3) (2 * (1/2)) 2 false = Raise ValueError.
Proof.
  assert (E : fteik2d hx_slow 1 1 3 (1/2) 2 false = Raise ValueError).
  { apply fteik2d_raises_iff. unfold inside2d. cbn [dim shape hx_slow nth]. cbn [nleb nmul nofZ NumR].
    rewrite (proj2 (Rleb_false 3 (1 * 2))) by lra. rewrite andb_false_r. reflexivity. }
  split; [exact E|]. split.
  - apply (fteik2d_scale_slowness_raises 2); [lra | exact E].
  - apply (fteik2d_scale_length_raises 2); [lra | exact E].
Qed.

Print Assumptions fteik2d_scale_slowness.
Print Assumptions fteik2d_scale_length.
Print Assumptions fteik2d_scale_raises.
Print Assumptions fteik2d_scale_slowness_bounded.
Print Assumptions fteik2d_scale_length_bounded.
Print Assumptions fteik2d_scale_slowness_ex.
Print Assumptions fteik2d_scale_length_ex.
