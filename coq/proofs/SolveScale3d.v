(* C05 (unit invariance) for the WHOLE 3D solver (gen/Fteik3d.v: fteik3d = 8 source-cell corners from t_anad ;
   nsweep * sweep3d ; gradient), over the reals (T := R, instance NumR).  PLACEHOLDER HEADER - rewritten at the end. *)
From Coq Require Import ZArith List Bool Lia Reals Lra Psatz.
From FT.lib Require Import Num Arr ArrLemmas.
From FT.gen Require Import Fteik3d.
From FT.proofs Require OperatorsR Sweep2dProofs Solve2dProofs Pos2d InitExact.
From FT.proofs Require Import NonNeg2d Sweep3dProofs Solve3dProofs SweepDargs NonNeg3d Pos3d.
Import ListNotations.
Open Scope R_scope.

Notation skind := InitExact.skind.
Notation Slowness := InitExact.Slowness.
Notation Length := InitExact.Length.
Notation sc_v := InitExact.sc_v.
Notation sc_h := InitExact.sc_h.
Notation sc_i2 := InitExact.sc_i2.
Notation sc_slow := InitExact.sc_slow.
Notation sc_prod := InitExact.sc_prod.
Notation sc_inv2 := InitExact.sc_inv2.
Notation get_sc_slow := InitExact.get_sc_slow.
Notation smap := OperatorsR.smap.
Notation get_smap := OperatorsR.get_smap.
Notation Rltb_scale := OperatorsR.Rltb_scale.
Notation Rleb_scale := OperatorsR.Rleb_scale.
Notation pymin2_scale := OperatorsR.pymin2_scale.
Notation div_scale := OperatorsR.div_scale.

(* ========================================================================================== *)
(* 1. values: "reached" (below Big in both runs, and scaled) or "not reached" (the placeholder)  *)
(* ========================================================================================== *)
Notation BigR := (@Big R NumR).

Lemma BigR_val : BigR = 100000.
Proof. reflexivity. Qed.
Lemma BigR_pos : 0 < BigR.
Proof. rewrite BigR_val. lra. Qed.

(* q is below the placeholder in the reference run and stays below it after multiplication by c *)
Definition Below (c q : R) : Prop := q < BigR /\ c * q < BigR.
(* q and c * q are on the same side of the placeholder *)
Definition Side (c q : R) : Prop := Below c q \/ (BigR <= q /\ BigR <= c * q).

(* scaled, and below Big on both sides *)
Definition brel (c x x' : R) : Prop := x' = c * x /\ x < BigR /\ x' < BigR.
(* grid entries: scaled and below Big on both sides, or the placeholder on both sides *)
Definition vrel (c x x' : R) : Prop := brel c x x' \/ (x = BigR /\ x' = BigR).
(* candidates: scaled and below Big on both sides, or useless (>= Big) on both sides *)
Definition crel (c x x' : R) : Prop := brel c x x' \/ (BigR <= x /\ BigR <= x').
(* candidates compared with a reached value: scaled, or useless on both sides *)
Definition prel (c x x' : R) : Prop := x' = c * x \/ (BigR <= x /\ BigR <= x').
(* candidates built on the placeholder: Big + y on one side, Big + c y on the other *)
Definition orel (c x x' : R) : Prop := exists y, 0 <= y /\ x = BigR + y /\ x' = BigR + c * y.

(* scaled, or the placeholder on both sides (the relation `t2rel` of OperatorsR, with the Big of Fteik3d) *)
Definition trel (c x x' : R) : Prop := x' = c * x \/ (x = BigR /\ x' = BigR).
Lemma vrel_trel c x x' : vrel c x x' -> trel c x x'.
Proof. intros [(E & _ & _)|[E E']]; [left; exact E | right; split; assumption]. Qed.
Lemma trel_prel c x x' : trel c x x' -> prel c x x'.
Proof. intros [E|[E E']]; [left; exact E | right; rewrite E, E'; split; apply Rle_refl]. Qed.
Lemma vrel_zero c : vrel c 0 0.
Proof. left. pose proof BigR_pos. repeat split; [ring | lra | lra]. Qed.
Lemma vrel_Big c : vrel c BigR BigR.
Proof. right. split; reflexivity. Qed.
Lemma vrel_cases c x x' : vrel c x x' -> (x < BigR /\ x' = c * x /\ x' < BigR) \/ (x = BigR /\ x' = BigR).
Proof. intros [(E & L & L')|H]; [left; auto | right; exact H]. Qed.
Lemma vrel_le c x x' : vrel c x x' -> x <= BigR /\ x' <= BigR.
Proof. intros [(E & L & L')|[E E']]; lra. Qed.
Lemma vrel_lt c x x' : vrel c x x' -> x < BigR -> brel c x x'.
Proof. intros [H|[E E']] L; [exact H | lra]. Qed.
Lemma vrel_eq c x x' : vrel c x x' -> x = BigR -> x' = BigR.
Proof. intros [(E & L & L')|[E E']] Ex; [lra | exact E']. Qed.
Lemma brel_vrel c x x' : brel c x x' -> vrel c x x'.
Proof. intros H; left; exact H. Qed.
Lemma brel_crel c x x' : brel c x x' -> crel c x x'.
Proof. intros H; left; exact H. Qed.
Lemma brel_prel c x x' : brel c x x' -> prel c x x'.
Proof. intros (E & _); left; exact E. Qed.
Lemma crel_prel c x x' : crel c x x' -> prel c x x'.
Proof. intros [(E & _)|H]; [left; exact E | right; exact H]. Qed.
Lemma crel_of_side c q : Side c q -> crel c q (c * q).
Proof. intros [[L L']|[G G']]; [left; repeat split; auto | right; auto]. Qed.
Lemma crel_inf c x x' : BigR <= x -> BigR <= x' -> crel c x x'.
Proof. intros; right; auto. Qed.
Lemma prel_inf c x x' : BigR <= x -> BigR <= x' -> prel c x x'.
Proof. intros; right; auto. Qed.
Lemma crel_lt c x x' : crel c x x' -> x < BigR -> brel c x x'.
Proof. intros [H|[G G']] L; [exact H | lra]. Qed.
Lemma orel_ge c x x' : 0 < c -> orel c x x' -> BigR <= x /\ BigR <= x'.
Proof. intros Hc (y & Hy & -> & ->). split; [lra | nra]. Qed.
Lemma orel_crel c x x' : 0 < c -> orel c x x' -> crel c x x'.
Proof. intros Hc H. destruct (orel_ge c x x' Hc H). apply crel_inf; assumption. Qed.
Lemma orel_Big c : orel c BigR BigR.
Proof. exists 0. split; [lra|]. split; ring. Qed.

Ltac rb :=
  repeat match goal with
         | H : Rltb _ _ = true |- _ => apply Rltb_true in H
         | H : Rltb _ _ = false |- _ => apply Rltb_false in H
         | H : Rleb _ _ = true |- _ => apply Rleb_true in H
         | H : Rleb _ _ = false |- _ => apply Rleb_false in H
         end.

Lemma pymin2_R (a b : R) : pymin2 a b = if Rltb b a then b else a.
Proof. reflexivity. Qed.
Lemma pymax2_R (a b : R) : pymax2 a b = if Rltb a b then b else a.
Proof. reflexivity. Qed.
Lemma pymin2_le_l (a b : R) : pymin2 a b <= a.
Proof. rewrite pymin2_R. destruct (Rltb b a) eqn:E; rb; lra. Qed.
Lemma pymin2_le_r (a b : R) : pymin2 a b <= b.
Proof. rewrite pymin2_R. destruct (Rltb b a) eqn:E; rb; lra. Qed.
Lemma pymin2_assoc (a b d : R) : pymin2 a (pymin2 b d) = pymin2 (pymin2 a b) d.
Proof. rewrite !pymin2_Rmin. apply Rmin_assoc. Qed.
Lemma pymin2_fold3 (m p1 p2 p3 : R) : pymin2 m (pymin3 p1 p2 p3) = pymin2 (pymin2 (pymin2 m p1) p2) p3.
Proof. unfold pymin3. rewrite !pymin2_assoc. reflexivity. Qed.
Lemma pymax3_ge (a b d : R) : a <= pymax3 a b d /\ b <= pymax3 a b d /\ d <= pymax3 a b d.
Proof.
  unfold pymax3. rewrite !pymax2_R.
  destruct (Rltb a b) eqn:E1; [destruct (Rltb b d) eqn:E2 | destruct (Rltb a d) eqn:E2]; rb; lra.
Qed.
Lemma pymax3_le (m a b d : R) : a <= m -> b <= m -> d <= m -> pymax3 a b d <= m.
Proof. intros. unfold pymax3. rewrite !pymax2_R. repeat destruct (Rltb _ _); assumption. Qed.

Section Min.
Variable c : R.
Hypothesis Hc : 0 < c.

Lemma pymax2_sc (a b : R) : pymax2 (c * a) (c * b) = c * pymax2 a b.
Proof. rewrite !pymax2_R, Rltb_scale by exact Hc. destruct (Rltb a b); reflexivity. Qed.
Lemma pymax3_sc (a b d : R) : pymax3 (c * a) (c * b) (c * d) = c * pymax3 a b d.
Proof. unfold pymax3. rewrite !pymax2_sc. reflexivity. Qed.

Lemma pymin2_crel a a' b b' : crel c a a' -> crel c b b' -> crel c (pymin2 a b) (pymin2 a' b').
Proof.
  intros [(Ea & La & La')|[Ga Ga']] [(Eb & Lb & Lb')|[Gb Gb']]; rewrite !pymin2_R.
  - subst a' b'. rewrite Rltb_scale by exact Hc. destruct (Rltb b a); left; repeat split; auto.
  - destruct (Rltb b a) eqn:E1, (Rltb b' a') eqn:E2; rb; try lra. left; repeat split; auto.
  - destruct (Rltb b a) eqn:E1, (Rltb b' a') eqn:E2; rb; try lra. left; repeat split; auto.
  - destruct (Rltb b a), (Rltb b' a'); right; auto.
Qed.
Lemma pymin3_crel a a' b b' d d' : crel c a a' -> crel c b b' -> crel c d d' -> crel c (pymin3 a b d) (pymin3 a' b' d').
Proof. intros. unfold pymin3. repeat apply pymin2_crel; assumption. Qed.

Lemma pymin2_vc a a' b b' : vrel c a a' -> crel c b b' -> vrel c (pymin2 a b) (pymin2 a' b').
Proof.
  intros [(Ea & La & La')|[Ga Ga']] [(Eb & Lb & Lb')|[Gb Gb']]; rewrite !pymin2_R.
  - subst a' b'. rewrite Rltb_scale by exact Hc. destruct (Rltb b a); left; repeat split; auto.
  - destruct (Rltb b a) eqn:E1, (Rltb b' a') eqn:E2; rb; try lra. left; repeat split; auto.
  - subst a a'. destruct (Rltb b BigR) eqn:E1, (Rltb b' BigR) eqn:E2; rb; try lra. left; repeat split; auto.
  - subst a a'. destruct (Rltb b BigR) eqn:E1, (Rltb b' BigR) eqn:E2; rb; try lra. right; auto.
Qed.

(* a reached minimum absorbs a candidate that is scaled or useless on both sides *)
Lemma pymin2_bp m m' t t' : brel c m m' -> prel c t t' -> brel c (pymin2 m t) (pymin2 m' t').
Proof.
  intros (Em & Lm & Lm') [Et|[Gt Gt']]; rewrite !pymin2_R.
  - subst m' t'. rewrite Rltb_scale by exact Hc. destruct (Rltb t m) eqn:E1; rb; repeat split; auto; nra.
  - destruct (Rltb t m) eqn:E1, (Rltb t' m') eqn:E2; rb; try lra. repeat split; auto.
Qed.
Lemma pymin2_pb m m' t t' : prel c m m' -> brel c t t' -> brel c (pymin2 m t) (pymin2 m' t').
Proof.
  intros [Em|[Gm Gm']] (Et & Lt & Lt'); rewrite !pymin2_R.
  - subst m' t'. rewrite Rltb_scale by exact Hc. destruct (Rltb t m) eqn:E1; rb; repeat split; auto; nra.
  - destruct (Rltb t m) eqn:E1, (Rltb t' m') eqn:E2; rb; try lra. repeat split; auto.
Qed.
Lemma pymin2_b3 m m' p1 p1' p2 p2' p3 p3' :
  brel c m m' -> prel c p1 p1' -> prel c p2 p2' -> prel c p3 p3' ->
  brel c (pymin2 m (pymin3 p1 p2 p3)) (pymin2 m' (pymin3 p1' p2' p3')).
Proof. intros Hm H1 H2 H3. rewrite !pymin2_fold3. repeat apply pymin2_bp; assumption. Qed.

(* the last min of a node update *)
Lemma pymin2_vp m m' t t' :
  vrel c m m' -> (m < BigR -> prel c t t') -> (m = BigR -> crel c t t') -> vrel c (pymin2 m t) (pymin2 m' t').
Proof.
  intros [Hb|[Gm Gm']] Hp Hcr.
  - left. apply pymin2_bp; [exact Hb | apply Hp, Hb].
  - apply pymin2_vc; [right; auto | apply Hcr, Gm].
Qed.

Lemma pymin2_orel a a' b b' : orel c a a' -> orel c b b' -> orel c (pymin2 a b) (pymin2 a' b').
Proof.
  intros (y & Hy & -> & ->) (z & Hz & -> & ->). rewrite !pymin2_R.
  replace (Rltb (BigR + c * z) (BigR + c * y)) with (Rltb (BigR + z) (BigR + y)).
  - destruct (Rltb (BigR + z) (BigR + y)); [exists z | exists y]; auto.
  - destruct (Rltb (BigR + z) (BigR + y)) eqn:E1, (Rltb (BigR + c * z) (BigR + c * y)) eqn:E2; rb; try reflexivity; exfalso; nra.
Qed.
Lemma pymin3_orel a a' b b' d d' : orel c a a' -> orel c b b' -> orel c d d' -> orel c (pymin3 a b d) (pymin3 a' b' d').
Proof. intros. unfold pymin3. repeat apply pymin2_orel; assumption. Qed.
Lemma orel_test a a' : orel c a a' -> Rltb BigR a' = Rltb BigR a.
Proof.
  intros (y & Hy & -> & ->).
  destruct (Rltb BigR (BigR + y)) eqn:E1, (Rltb BigR (BigR + c * y)) eqn:E2; rb; try reflexivity; exfalso; nra.
Qed.
End Min.

(* ========================================================================================== *)
(* 2. the operators of one node update under both unit changes at once (skind of InitExact)      *)
(* ========================================================================================== *)
Ltac nr := unfold nsq, ngtb, ngeb, nneb in *; cbn [nadd nsub nmul ndiv nsqrt nabs nneg nltb nleb neqb nofZ nofQ NumR] in *.

(* ---------- the plane operator: a, b the two axial neighbours of the plane, d the face-diagonal one ---------- *)
Definition pl (a b d v da db pa pb : R) : R :=
  if Rltb a (b + db * v) && Rltb b (a + da * v) then four_point a b d v pa pb else BigR.

Lemma pl_zx tv te tev v dz dx p q : c_t2d_zx tv te tev v dz dx p q = pl tv te tev v dz dx p q.
Proof. reflexivity. Qed.
Lemma pl_zy tv tn tnv v dz dy p r : c_t2d_zy tv tn tnv v dz dy p r = pl tv tn tnv v dz dy p r.
Proof. unfold c_t2d_zy, pl. rewrite plane_op_four_point. reflexivity. Qed.
Lemma pl_xy te tn ten v dx dy q r : c_t2d_xy te tn ten v dx dy q r = pl te tn ten v dx dy q r.
Proof. unfold c_t2d_xy, pl. rewrite plane_op_four_point. reflexivity. Qed.

Lemma pl_ge a b d v da db : 0 < da -> 0 < db -> 0 <= v -> BigR <= d -> BigR <= pl a b d v da db (1 / da / da) (1 / db / db).
Proof.
  intros Hda Hdb Hv Hd. destruct (t2d_zx_ge a b d v da db Hda Hdb Hv) as [E|G]; rewrite pl_zx in *; [rewrite E; apply Rle_refl | lra].
Qed.

Lemma four_point_shift2 x d v a b : four_point x x d v a b = four_point 0 0 d v a b.
Proof.
  unfold OperatorsR.four_point. cbv zeta.
  replace (d + x - x) with (d + 0 - 0) by ring. replace (d - x + x) with (d - 0 + 0) by ring. reflexivity.
Qed.
Lemma four_point_shift3 x v a b : 0 < a + b -> four_point 0 0 x v a b = x + four_point 0 0 0 v a b.
Proof.
  intros Hab. unfold OperatorsR.four_point. cbv zeta.
  replace (x + 0 - 0 - (x - 0 + 0)) with (0 + 0 - 0 - (0 - 0 + 0)) by ring. set (s := sqrt _). field. lra.
Qed.
Lemma four_point_000_nonneg v a b : 0 < a + b -> 0 <= four_point 0 0 0 v a b.
Proof.
  intros Hab. unfold OperatorsR.four_point. cbv zeta. set (s := sqrt _). assert (0 <= s) by apply sqrt_pos.
  apply Rmult_le_pos; [lra | left; apply Rinv_0_lt_compat; exact Hab].
Qed.

Lemma Rltb_shift (w a b : R) : Rltb (w + a) (w + b) = Rltb a b.
Proof. destruct (Rltb (w + a) (w + b)) eqn:E1, (Rltb a b) eqn:E2; rb; try reflexivity; exfalso; lra. Qed.

(* ---------- the 8-point operator (NonNeg3d.op3 is the formula without the guard) ---------- *)
Lemma op3_t3_shift s u w tv te tn tev ten tnv tnve D1 D2 D3 :
  op3_t3 (s + tv) (s + te) (s + tn) (u + tev) (u + ten) (u + tnv) (w + tnve) D1 D2 D3
  = op3_t3 tv te tn tev ten tnv tnve D1 D2 D3.
Proof. unfold op3_t3, op3_a, op3_b, op3_c, hf. cbv zeta. nr. field. Qed.

Lemma op3_shift s u w tv te tn tev ten tnv tnve v p q r D1 D2 D3 :
  0 < p + q + r ->
  op3 (s + tv) (s + te) (s + tn) (u + tev) (u + ten) (u + tnv) (w + tnve) v p q r D1 D2 D3 (p + q + r)
  = w + op3 tv te tn tev ten tnv tnve v p q r D1 D2 D3 (p + q + r).
Proof.
  intros Hs. rewrite !op3_R, op3_t3_shift. set (sq := sqrt _). unfold op3_a, op3_b, op3_c, hf. nr. field. lra.
Qed.

(* the test  t2 >= t3  followed by the guard *)
Definition g3 (tv te tn tev ten tnv tnve v p q r : R) : R :=
  if Rleb (op3_t3 tv te tn tev ten tnv tnve (p * q) (p * r) (q * r)) (op3_t2 v (p + q + r))
  then guard3 true (op3 tv te tn tev ten tnv tnve v p q r (p * q) (p * r) (q * r) (p + q + r)) tnve
  else BigR.
(* the 8-point candidate; m12 = min (t1d, t2d) *)
Definition t3c (tv te tn tev ten tnv tnve v p q r m12 : R) : R :=
  if Rltb (pymax3 tv te tn) m12 then g3 tv te tn tev ten tnv tnve v p q r else BigR.

(* the three squared differences of op3_t3 *)
Lemma op3_t3_terms tv te tn tev ten tnv tnve D1 D2 D3 :
  op3_t3 tv te tn tev ten tnv tnve D1 D2 D3
  = D1 * (9 / 4 * ((te - tv + ten - tnv) * (te - tv + ten - tnv)))
    + D2 * (9 / 4 * ((tv - tn + tev - ten) * (tv - tn + tev - ten)))
    + D3 * (9 / 4 * ((te - tn + tev - tnv) * (te - tn + tev - tnv))).
Proof. unfold op3_t3, op3_a, op3_b, op3_c, hf. cbv zeta. nr. field. Qed.

(* the length attached to one term of t3 *)
Definition Lmix (D dsum : R) : R := sqrt (dsum / D).
Lemma Lmix_nonneg D dsum : 0 <= Lmix D dsum.
Proof. apply sqrt_pos. Qed.
Lemma Lmix_sq D dsum : 0 < D -> 0 <= dsum -> Lmix D dsum * Lmix D dsum * D = dsum.
Proof.
  intros HD Hs. unfold Lmix. rewrite sqrt_sqrt; [field; lra|].
  apply Rmult_le_pos; [exact Hs | left; apply Rinv_0_lt_compat; exact HD].
Qed.

(* a squared difference that exceeds (2 v L)^2 makes the test t2 >= t3 fail *)
Lemma mix_core (D dsum v L g rest : R) :
  0 <= v -> 0 <= L -> 0 < D -> L * L * D = dsum -> 0 <= rest ->
  (2 * (v * L) < g \/ 2 * (v * L) < - g) ->
  v * v * dsum * 9 < D * (9 / 4 * (g * g)) + rest.
Proof.
  intros Hv HL HD E Hr Hg. assert (HvL : 0 <= v * L) by (apply Rmult_le_pos; assumption).
  assert (H4 : 4 * ((v * L) * (v * L)) < g * g) by (destruct Hg; nra).
  assert (H5 : D * (4 * ((v * L) * (v * L))) < D * (g * g)) by (apply Rmult_lt_compat_l; assumption).
  rewrite <- E. nra.
Qed.

Lemma sq_term_nonneg (D g : R) : 0 <= D -> 0 <= D * (9 / 4 * (g * g)).
Proof. intros HD. apply Rmult_le_pos; [exact HD|]. nra. Qed.

Lemma g3_mix_zx tv te tn tev ten tnv tnve v p q r L :
  0 < p -> 0 < q -> 0 < r -> 0 <= v -> 0 <= L -> L * L * (p * q) = p + q + r ->
  (2 * (v * L) < te - tv + ten - tnv \/ 2 * (v * L) < - (te - tv + ten - tnv)) ->
  g3 tv te tn tev ten tnv tnve v p q r = BigR.
Proof.
  intros Hp Hq Hr Hv HL E Hg. unfold g3. rewrite (proj2 (Rleb_false _ _)); [reflexivity|].
  rewrite op3_t3_terms. unfold op3_t2. nr.
  pose proof (sq_term_nonneg (p * r) (tv - tn + tev - ten) ltac:(nra)).
  pose proof (sq_term_nonneg (q * r) (te - tn + tev - tnv) ltac:(nra)).
  pose proof (mix_core (p * q) (p + q + r) v L (te - tv + ten - tnv)
                (p * r * (9 / 4 * ((tv - tn + tev - ten) * (tv - tn + tev - ten)))
                 + q * r * (9 / 4 * ((te - tn + tev - tnv) * (te - tn + tev - tnv))))
                Hv HL ltac:(nra) E ltac:(lra) Hg). lra.
Qed.
Lemma g3_mix_zy tv te tn tev ten tnv tnve v p q r L :
  0 < p -> 0 < q -> 0 < r -> 0 <= v -> 0 <= L -> L * L * (p * r) = p + q + r ->
  (2 * (v * L) < tv - tn + tev - ten \/ 2 * (v * L) < - (tv - tn + tev - ten)) ->
  g3 tv te tn tev ten tnv tnve v p q r = BigR.
Proof.
  intros Hp Hq Hr Hv HL E Hg. unfold g3. rewrite (proj2 (Rleb_false _ _)); [reflexivity|].
  rewrite op3_t3_terms. unfold op3_t2. nr.
  pose proof (sq_term_nonneg (p * q) (te - tv + ten - tnv) ltac:(nra)).
  pose proof (sq_term_nonneg (q * r) (te - tn + tev - tnv) ltac:(nra)).
  pose proof (mix_core (p * r) (p + q + r) v L (tv - tn + tev - ten)
                (p * q * (9 / 4 * ((te - tv + ten - tnv) * (te - tv + ten - tnv)))
                 + q * r * (9 / 4 * ((te - tn + tev - tnv) * (te - tn + tev - tnv))))
                Hv HL ltac:(nra) E ltac:(lra) Hg). lra.
Qed.
Lemma g3_mix_xy tv te tn tev ten tnv tnve v p q r L :
  0 < p -> 0 < q -> 0 < r -> 0 <= v -> 0 <= L -> L * L * (q * r) = p + q + r ->
  (2 * (v * L) < te - tn + tev - tnv \/ 2 * (v * L) < - (te - tn + tev - tnv)) ->
  g3 tv te tn tev ten tnv tnve v p q r = BigR.
Proof.
  intros Hp Hq Hr Hv HL E Hg. unfold g3. rewrite (proj2 (Rleb_false _ _)); [reflexivity|].
  rewrite op3_t3_terms. unfold op3_t2. nr.
  pose proof (sq_term_nonneg (p * q) (te - tv + ten - tnv) ltac:(nra)).
  pose proof (sq_term_nonneg (p * r) (tv - tn + tev - ten) ltac:(nra)).
  pose proof (mix_core (q * r) (p + q + r) v L (te - tn + tev - tnv)
                (p * q * (9 / 4 * ((te - tv + ten - tnv) * (te - tv + ten - tnv)))
                 + p * r * (9 / 4 * ((tv - tn + tev - ten) * (tv - tn + tev - ten))))
                Hv HL ltac:(nra) E ltac:(lra) Hg). lra.
Qed.

Section Ops.
Variables (c : R) (k : skind).
Hypothesis Hc : 0 < c.

Lemma sc_h_pos h : 0 < h -> 0 < sc_h k c h.
Proof. intros Hh. destruct k; cbn [InitExact.sc_h]; [exact Hh | nra]. Qed.
Lemma sc_h_nonneg h : 0 <= h -> 0 <= sc_h k c h.
Proof. intros Hh. destruct k; cbn [InitExact.sc_h]; [exact Hh | nra]. Qed.
Lemma sc_v_nonneg v : 0 <= v -> 0 <= sc_v k c v.
Proof. intros Hv. destruct k; cbn [InitExact.sc_v]; [nra | exact Hv]. Qed.
Lemma sc_i2_pos q : 0 < q -> 0 < sc_i2 k c q.
Proof.
  intros Hq. destruct k; cbn [InitExact.sc_i2]; [exact Hq|].
  apply Rdiv_lt_0_compat; [exact Hq | nra].
Qed.
Lemma sc_vh v h : sc_v k c v * sc_h k c h = c * (v * h).
Proof. destruct k; cbn [InitExact.sc_h InitExact.sc_v]; ring. Qed.
Lemma sc_i2_sum p q r : sc_i2 k c p + sc_i2 k c q + sc_i2 k c r = sc_i2 k c (p + q + r).
Proof. destruct k; cbn [InitExact.sc_i2]; [reflexivity | field; lra]. Qed.

(* the factor by which t2 and t3 are multiplied *)
Definition sc_m : R := match k with InitExact.Slowness => c * c | InitExact.Length => / (c * c) end.
Lemma sc_m_pos : 0 < sc_m.
Proof. unfold sc_m. destruct k; [nra | apply Rinv_0_lt_compat; nra]. Qed.

Lemma four_point_sc tv te tev vref pa pb :
  four_point (c * tv) (c * te) (c * tev) (sc_v k c vref) (sc_i2 k c pa) (sc_i2 k c pb) = c * four_point tv te tev vref pa pb.
Proof.
  destruct k; cbn [InitExact.sc_v InitExact.sc_i2];
    [apply OperatorsR.four_point_scale_slowness; lra | apply OperatorsR.four_point_scale_length; exact Hc].
Qed.
Lemma four_point_sc0 tev vref pa pb :
  four_point 0 0 (c * tev) (sc_v k c vref) (sc_i2 k c pa) (sc_i2 k c pb) = c * four_point 0 0 tev vref pa pb.
Proof. rewrite <- four_point_sc. rewrite Rmult_0_r. reflexivity. Qed.
Lemma four_point_sc000 vref pa pb :
  four_point 0 0 0 (sc_v k c vref) (sc_i2 k c pa) (sc_i2 k c pb) = c * four_point 0 0 0 vref pa pb.
Proof. rewrite <- four_point_sc. rewrite Rmult_0_r. reflexivity. Qed.

Lemma test_sc a b h v : Rltb (c * a) (c * b + sc_h k c h * sc_v k c v) = Rltb a (b + h * v).
Proof. rewrite sc_prod. rewrite <- Rmult_plus_distr_l. apply Rltb_scale, Hc. Qed.

(* ---------- a 1D candidate ---------- *)
Lemma cand1d_rel t t' h v :
  0 < h -> 0 <= v -> vrel c t t' -> (t < BigR -> Below c (t + h * v)) ->
  crel c (t + h * v) (t' + sc_h k c h * sc_v k c v) /\
  (t < BigR -> brel c (t + h * v) (t' + sc_h k c h * sc_v k c v)) /\
  (t = BigR -> orel c (t + h * v) (t' + sc_h k c h * sc_v k c v)).
Proof.
  intros Hh Hv Rt N. rewrite sc_prod.
  assert (Q : 0 <= h * v) by (apply Rmult_le_pos; lra).
  assert (Q' : 0 <= c * (h * v)) by (apply Rmult_le_pos; lra).
  destruct (vrel_cases _ _ _ Rt) as [(L & E & L')|[E E']].
  - destruct (N L) as [B1 B2].
    assert (Hb : brel c (t + h * v) (t' + c * (h * v))) by (subst t'; repeat split; [ring | exact B1 | lra]).
    split; [left; exact Hb|]. split; [intros _; exact Hb | intros Et; lra].
  - split; [right; lra|]. split; [intros Lt; lra|]. intros _. exists (h * v). subst. auto.
Qed.

(* ---------- a plane candidate ---------- *)
(* the caveat of one plane: a, b axial neighbours, d the face-diagonal one, v the slowness of the face *)
Definition plane_cav (a b d v da db : R) : Prop :=
  (a = BigR -> b < BigR -> d < BigR -> Below c (b + db * v)) /\
  (b = BigR -> a < BigR -> d < BigR -> Below c (a + da * v)) /\
  (a = BigR -> b = BigR -> d < BigR -> Below c (pl a b d v da db (1 / da / da) (1 / db / db))).

Lemma plane_rel a a' b b' d d' v da db :
  0 < da -> 0 < db -> 0 <= v ->
  vrel c a a' -> vrel c b b' -> vrel c d d' ->
  plane_cav a b d v da db ->
  let P := pl a b d v da db (1 / da / da) (1 / db / db) in
  let P' := pl a' b' d' (sc_v k c v) (sc_h k c da) (sc_h k c db)
               (1 / sc_h k c da / sc_h k c da) (1 / sc_h k c db / sc_h k c db) in
  prel c P P' /\ (a = BigR -> b = BigR -> (d < BigR -> brel c P P') /\ (d = BigR -> orel c P P')).
Proof.
  intros Hda Hdb Hv Ra Rb Rd (N1 & N2 & N3) P P'.
  pose proof (sc_h_pos da Hda) as Hda'. pose proof (sc_h_pos db Hdb) as Hdb'.
  pose proof (sc_v_nonneg v Hv) as Hv'.
  pose proof (sc_prod k c db v) as Pb. pose proof (sc_prod k c da v) as Pa.
  assert (Qb : 0 <= db * v) by (apply Rmult_le_pos; lra).
  assert (Qa : 0 <= da * v) by (apply Rmult_le_pos; lra).
  assert (Qb' : 0 <= c * (db * v)) by (apply Rmult_le_pos; lra).
  assert (Qa' : 0 <= c * (da * v)) by (apply Rmult_le_pos; lra).
  pose proof BigR_pos as HB.
  assert (Hpp : 0 < 1 / da / da + 1 / db / db) by (pose proof (inv2_pos da Hda); pose proof (inv2_pos db Hdb); lra).
  assert (Hpp' : 0 < 1 / sc_h k c da / sc_h k c da + 1 / sc_h k c db / sc_h k c db)
    by (pose proof (inv2_pos _ Hda'); pose proof (inv2_pos _ Hdb'); lra).
  destruct (vrel_cases _ _ _ Ra) as [(La & Ea & La')|[Ea Ea']];
  destruct (vrel_cases _ _ _ Rb) as [(Lb & Eb & Lb')|[Eb Eb']].
  - (* both axial neighbours reached: the test is invariant *)
    split; [|intros E; exfalso; lra]. subst P P' a' b'. unfold pl. rewrite !test_sc.
    destruct (Rltb a (b + db * v)) eqn:E1; [|apply prel_inf; apply Rle_refl].
    destruct (Rltb b (a + da * v)) eqn:E2; [|apply prel_inf; apply Rle_refl]. cbn [andb]. rb.
    destruct (vrel_cases _ _ _ Rd) as [(Ld & Ed & Ld')|[Ed Ed']].
    + subst d'. rewrite !sc_inv2, four_point_sc. left. reflexivity.
    + apply prel_inf.
      * rewrite <- Ed at 1. apply four_point_ge_tev; lra.
      * rewrite <- Ed' at 1. apply four_point_ge_tev; try lra; rewrite ?Pa, ?Pb; nra.
  - (* b unreached *)
    split; [|intros E; exfalso; lra]. subst P P'.
    destruct (vrel_cases _ _ _ Rd) as [(Ld & Ed & Ld')|[Ed Ed']].
    + destruct (N2 Eb La Ld) as [B1 B2]. unfold pl.
      rewrite (proj2 (Rltb_false b (a + da * v))) by lra.
      rewrite (proj2 (Rltb_false b' (a' + sc_h k c da * sc_v k c v))) by (rewrite Pa; subst a'; lra).
      rewrite !andb_false_r. apply prel_inf; apply Rle_refl.
    + apply prel_inf; apply pl_ge; lra.
  - (* a unreached *)
    split; [|intros _ E; exfalso; lra]. subst P P'.
    destruct (vrel_cases _ _ _ Rd) as [(Ld & Ed & Ld')|[Ed Ed']].
    + destruct (N1 Ea Lb Ld) as [B1 B2]. unfold pl.
      rewrite (proj2 (Rltb_false a (b + db * v))) by lra.
      rewrite (proj2 (Rltb_false a' (b' + sc_h k c db * sc_v k c v))) by (rewrite Pb; subst b'; lra).
      cbn [andb]. apply prel_inf; apply Rle_refl.
    + apply prel_inf; apply pl_ge; lra.
  - (* both axial neighbours unreached *)
    assert (ET : Rltb a' (b' + sc_h k c db * sc_v k c v) && Rltb b' (a' + sc_h k c da * sc_v k c v)
                 = Rltb a (b + db * v) && Rltb b (a + da * v)).
    { rewrite Pa, Pb. subst a a' b b'.
      destruct (Rltb BigR (BigR + db * v)) eqn:E1, (Rltb BigR (BigR + da * v)) eqn:E2,
               (Rltb BigR (BigR + c * (db * v))) eqn:E3, (Rltb BigR (BigR + c * (da * v))) eqn:E4;
        rb; try reflexivity; exfalso; nra. }
    assert (EP : P = if Rltb a (b + db * v) && Rltb b (a + da * v)
                     then four_point 0 0 d v (1 / da / da) (1 / db / db) else BigR).
    { subst P. unfold pl. destruct (Rltb a (b + db * v) && Rltb b (a + da * v)); [|reflexivity]. subst a b. apply four_point_shift2. }
    assert (EP' : P' = if Rltb a (b + db * v) && Rltb b (a + da * v)
                       then four_point 0 0 d' (sc_v k c v) (1 / sc_h k c da / sc_h k c da) (1 / sc_h k c db / sc_h k c db)
                       else BigR).
    { subst P'. unfold pl. rewrite ET. destruct (Rltb a (b + db * v) && Rltb b (a + da * v)); [|reflexivity].
      subst a' b'. apply four_point_shift2. }
    destruct (vrel_cases _ _ _ Rd) as [(Ld & Ed & Ld')|[Ed Ed']].
    + (* the face-diagonal update *)
      destruct (N3 Ea Eb Ld) as [B1 B2]. fold P in B1, B2.
      destruct (Rltb a (b + db * v) && Rltb b (a + da * v)); [|exfalso; rewrite EP in B1; lra].
      assert (E : P' = c * P) by (rewrite EP, EP'; subst d'; rewrite !sc_inv2; apply four_point_sc0).
      split; [left; exact E|]. intros _ _. split; [|intros; exfalso; lra].
      intros _. split; [exact E|]. split; [exact B1 | rewrite E; exact B2].
    + assert (HO : orel c P P').
      { rewrite EP, EP'. destruct (Rltb a (b + db * v) && Rltb b (a + da * v)); [|apply orel_Big]. subst d d'.
        rewrite !four_point_shift3 by assumption. rewrite !sc_inv2, four_point_sc000.
        exists (four_point 0 0 0 v (1 / da / da) (1 / db / db)). split; [apply four_point_000_nonneg; exact Hpp|]. auto. }
      destruct (orel_ge c P P' Hc HO). split; [apply prel_inf; assumption|].
      intros _ _. split; [intros; exfalso; lra | intros _; exact HO].
Qed.

(* ---------- the 8-point candidate ---------- *)
Lemma op3_t2_sc v p q r : op3_t2 (sc_v k c v) (sc_i2 k c p + sc_i2 k c q + sc_i2 k c r) = sc_m * op3_t2 v (p + q + r).
Proof. unfold op3_t2, sc_m. nr. destruct k; cbn [InitExact.sc_v InitExact.sc_i2]; [ring | field; lra]. Qed.
Lemma op3_t3_sc tv te tn tev ten tnv tnve p q r :
  op3_t3 (c * tv) (c * te) (c * tn) (c * tev) (c * ten) (c * tnv) (c * tnve)
         (sc_i2 k c p * sc_i2 k c q) (sc_i2 k c p * sc_i2 k c r) (sc_i2 k c q * sc_i2 k c r)
  = sc_m * op3_t3 tv te tn tev ten tnv tnve (p * q) (p * r) (q * r).
Proof.
  rewrite !op3_t3_terms. unfold sc_m. destruct k; cbn [InitExact.sc_i2]; [ring | field; lra].
Qed.
Lemma op3_sc tv te tn tev ten tnv tnve v p q r :
  0 < p + q + r ->
  op3 (c * tv) (c * te) (c * tn) (c * tev) (c * ten) (c * tnv) (c * tnve) (sc_v k c v)
      (sc_i2 k c p) (sc_i2 k c q) (sc_i2 k c r)
      (sc_i2 k c p * sc_i2 k c q) (sc_i2 k c p * sc_i2 k c r) (sc_i2 k c q * sc_i2 k c r)
      (sc_i2 k c p + sc_i2 k c q + sc_i2 k c r)
  = c * op3 tv te tn tev ten tnv tnve v p q r (p * q) (p * r) (q * r) (p + q + r).
Proof.
  intros Hs. rewrite !op3_R, op3_t2_sc, op3_t3_sc.
  set (t2 := op3_t2 v (p + q + r)). set (t3 := op3_t3 tv te tn tev ten tnv tnve (p * q) (p * r) (q * r)).
  unfold sc_m. destruct k; cbn [InitExact.sc_v InitExact.sc_i2].
  - rewrite (sqrt_scale' c (t2 - t3)) by (try lra; ring). set (sq := sqrt _).
    unfold op3_a, op3_b, op3_c, hf. nr. field. lra.
  - assert (Hi : 0 < / c) by (apply Rinv_0_lt_compat; exact Hc).
    rewrite (sqrt_scale' (/ c) (t2 - t3)) by (try lra; field; lra). set (sq := sqrt _).
    unfold op3_a, op3_b, op3_c, hf. nr. field. lra.
Qed.

(* uniform patterns: the three axial neighbours are all reached (s = s' = 0) or all unreached (s = s' = Big, y = 0), the
   same for the three face-diagonal ones (u, u') and for the cube-diagonal one (w, w') *)
Lemma g3_uniform s s' u u' w w' yv ye yn yev yen ynv z v p q r :
  0 < p -> 0 < q -> 0 < r ->
  let G := g3 (s + yv) (s + ye) (s + yn) (u + yev) (u + yen) (u + ynv) (w + z) v p q r in
  let G' := g3 (s' + c * yv) (s' + c * ye) (s' + c * yn) (u' + c * yev) (u' + c * yen) (u' + c * ynv) (w' + c * z)
               (sc_v k c v) (sc_i2 k c p) (sc_i2 k c q) (sc_i2 k c r) in
  exists (b : bool) (x : R), G = (if b then BigR else w + x) /\ G' = (if b then BigR else w' + c * x) /\ (b = false -> z <= x).
Proof.
  intros Hp Hq Hr G G'. subst G G'. unfold g3.
  assert (Hs : 0 < p + q + r) by lra.
  assert (Hs' : 0 < sc_i2 k c p + sc_i2 k c q + sc_i2 k c r)
    by (pose proof (sc_i2_pos p Hp); pose proof (sc_i2_pos q Hq); pose proof (sc_i2_pos r Hr); lra).
  rewrite !op3_t3_shift, !op3_shift by assumption. rewrite op3_t3_sc, op3_t2_sc, op3_sc by exact Hs.
  rewrite (Rleb_scale _ _ _ sc_m_pos).
  destruct (Rleb _ _); [|exists true, 0; split; [reflexivity|]; split; [reflexivity | discriminate]].
  set (x := op3 yv ye yn yev yen ynv z v p q r (p * q) (p * r) (q * r) (p + q + r)).
  unfold guard3. nr. rewrite !Rltb_shift, Rltb_scale by exact Hc.
  destruct (Rltb x z) eqn:E; [exists true, 0; split; [reflexivity|]; split; [reflexivity | discriminate]|].
  rb. exists false, x. auto.
Qed.
End Ops.
