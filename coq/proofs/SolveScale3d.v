(* C05 (unit invariance) for the WHOLE 3D solver (gen/Fteik3d.v: fteik3d = 8 source-cell corners from t_anad ;
   nsweep * sweep3d ; gradient), over the reals (T := R, instance NumR).  Both unit changes are treated at once (`skind`
   of InitExact):

     slowness unit   every slowness multiplied by c > 0:   fteik3d (smap c slow) dz dx dy zsrc xsrc ysrc nsweep grad
     length unit     dz, dx, dy, zsrc, xsrc, ysrc multiplied by c > 0:
                                                           fteik3d slow (c dz) (c dx) (c dy) (c zsrc) (c xsrc) (c ysrc) nsweep grad
                     (the tuple sweep3d builds is then  dz2i, dx2i, dy2i / c^2, pairwise products / c^4, dsum / c^2:
                      dargs3_length, dargs3_sc)

   MAIN RESULTS
     (1) node_rel           one node update, on the values it reads (`nv3` = the value Fteik3d.sweep writes: node_value_nv3,
         sweep_node_scale   through NonNeg3d.sweep_dargs3_eq), resp. on the generated `sweep` itself (any node, any direction
                            signs, any gradient bookkeeping): entries related by `vrel c` (scaled by c and below Big in both
                            runs, or Big in both runs) stay so, under the caveat `node_cav3` on the REFERENCE values.
     (2) run3_rel           any list of node updates (a pass, one sweep3d = `sweep_steps3`, several);
         fteik3d_scale_slowness, fteik3d_scale_length
                            if the reference problem returns Ok (tt, g, vz) then the scaled problem returns Ok (tt', g', vz')
                            with vz' = c vz (slowness) resp. vz' = vz (length) and
                            TRel3 nz nx ny c tt tt' /\ SameReach3 nz nx ny tt tt'  (nz = dim slow 0 + 1, ...), i.e. for every
                            node (TRel3_SameReach3_spelled_out):  tt'[i,j,k] = c tt[i,j,k] with both sides < Big, or
                            tt[i,j,k] = tt'[i,j,k] = Big.   Hypotheses on the data: c > 0, dz, dx, dy > 0, every slowness
                            >= 0, extents >= 0.   The gradient output g' is NOT characterised (it depends on which candidate
                            wins the min, i.e. on ties).
     (3) fteik3d_scale_raises (+ _slowness_raises, _length_raises, fteik3d_scale_ok_iff): the scaled problem raises
                            ValueError iff the reference problem does; no caveat, no hypothesis on the model.
     (4) solver_rel3_below, fteik3d_scale_slowness_bounded, fteik3d_scale_length_bounded: the same conclusion from a
                            caveat made of numbers only (any c > 0 resp. c >= 1), see (c) below.
     non-vacuity            hx3_InitCav, hx3_SweepCav, fteik3d_scale_slowness_ex, fteik3d_scale_length_ex,
                            fteik3d_scale_slowness_ex', node_rel_ex, fteik3d_scale_raises_ex: a heterogeneous model of
                            2 x 2 x 2 cells, off-node source, two sweeps, c = 2.

   THE CAVEAT.  The code uses the absolute constant Big = 1e5 as "not reached yet"; Big does not scale.  What is needed is
   that Big really behaves as +infinity in the reference run and still does after multiplication by c:
     Below c q :=  q < Big /\ c q < Big          Side c q :=  Below c q \/ (Big <= q /\ Big <= c q)
   (a) initialisation (`InitCav`, on the REFERENCE run only; the initial state is Big everywhere except the 8 corners of the
       source cell, and it scales exactly: (c zsrc)/(c dz) = zsrc/dz, same cell, t_ana scaled by c):
         Below c (t_ana of each of the 8 corners).
   (b) sweeping phase (`SweepCav3`, on the REFERENCE run only, any c > 0): before every node update performed by the
       reference run (`Along` walks through `all_steps3`: nsweep times the updates of one sweep3d, in program order, each
       in the grid reached at that point), `NodeCav3` = `node_cav3` of the values read holds.  With t0 the node, tv te tn
       the axial neighbours, tev ten tnv the face-diagonal ones, tnve the cube-diagonal one, vz vx vy / vzx vzy vxy / vref
       the edge / face / cell slownesses, p q r = 1/dz^2, 1/dx^2, 1/dy^2:
         N1    t < Big -> Below c (t + d v_edge)                          for the three 1D candidates
         N2    `plane_cav` for each of the three planes (a, b axial, d face-diagonal neighbour, v face slowness):
                 a = Big -> b < Big -> d < Big -> Below c (b + db v)       [the test  a < b + db v  must fail in both runs]
                 b = Big -> a < Big -> d < Big -> Below c (a + da v)
                 a = Big -> b = Big -> d < Big -> 0 < v -> Below c (the plane candidate = the face-diagonal update
                                                                      d + 2 v / sqrt (1/da^2 + 1/db^2))
         N3    `mix_cav`, when tv, te, tn are reached and tev, ten, tnv are neither all reached nor all unreached: one squared
               difference of t3 contains Big; the test t2 >= t3 must fail in both runs.  Three clauses (one per term), e.g.
                 tnv = Big -> ten < Big -> Below c (ten + (te - tv) + 2 vref L_zx),   L_zx = sqrt (dsum / (p q))  (a length)
         N4    t0 = tv = te = tn = tev = ten = tnv = Big -> tnve < Big -> Side c (tnve + 3 vref / sqrt dsum)
               (the only case where the 8-point candidate is compared with Big itself: the cube-diagonal update).
       Everything else needs nothing: comparisons between two times are invariant; with uniform patterns (the three axial
       neighbours all reached or all Big, the same for the three face-diagonal ones) the Big's cancel exactly in t1 and t3
       (weights sum to zero: op3_shift, op3_t3_shift), so the tests and the guard `t3d < tnve` agree and the value is
       scaled, or >= Big in both runs (g3_uniform).  Zero slownesses are allowed.
   (c) simple sufficient form (Along_of_bnd3, InitCav_of_bound; solver_rel3_below): h >= dz, dx, dy, every slowness in
       [0, S], Lm >= the three lengths of N3 (`LmixBnd`; cubic cells: sqrt 3 h), N = length (all_steps3 ..) node updates:
           Below c (2 (N + 1) (3 h S) + 2 S Lm)            (for c >= 1:  c (2 (N + 1) (3 h S) + 2 S Lm) < Big).
       (the initial times are <= 3 h S: corner_time_bnd; every update adds at most 3 h S: nv3_bnd.)

   STRUCTURE
     1  values: brel / vrel (grid entries), crel / prel (candidates), orel (Big + y against Big + c y), min lemmas
     2  operators: pl (plane candidate), g3 / t3c (8-point candidate), shifts, scalings, cand1d_rel, plane_rel, g3_uniform
     3  node_cav3, nv3, t3c_rel, node_rel
     4  GRel (grids, on the data: no index range needed), TRel3, SameReach3
     5  sweep3d = run3 over sweep_steps3; Along; sweep_node_scale, do_step3_rel, run3_rel
     6  the solver: source cell and vzero under both scalings, inside3d_sc, init_rel3, sweeps_rel3, solver_rel3
     7  the theorems;  8  the numerical form of the caveat;  9  the initial grid;  10  numbers only;  11  examples *)
From Coq Require Import ZArith List Bool Lia Reals Lra Psatz.
From FT.lib Require Import Num Arr ArrLemmas.
From FT.gen Require Import Fteik3d.
From FT.proofs Require OperatorsR Operators3R Sweep2dProofs Solve2dProofs Pos2d InitExact.
From FT.proofs Require Import NonNeg2d Sweep3dProofs Solve3dProofs SweepDargs NonNeg3d Pos3d.
Import ListNotations.
Open Scope R_scope.

Notation skind := InitExact.skind.
Notation Slowness := InitExact.Slowness.
Notation Length := InitExact.Length.
Notation sc_v := InitExact.sc_v.
Notation sc_h := InitExact.sc_h.
Notation sc_i2 := InitExact.sc_i2.
Notation sc_slow := InitExact.sc_slow.
Notation sc_prod := InitExact.sc_prod.
Notation sc_inv2 := InitExact.sc_inv2.
Notation get_sc_slow := InitExact.get_sc_slow.
Notation smap := OperatorsR.smap.
Notation get_smap := OperatorsR.get_smap.
Notation Rltb_scale := OperatorsR.Rltb_scale.
Notation Rleb_scale := OperatorsR.Rleb_scale.
Notation pymin2_scale := OperatorsR.pymin2_scale.
Notation div_scale := OperatorsR.div_scale.
Notation sqrt_scale' := OperatorsR.sqrt_scale'.

(* ========================================================================================== *)
(* 1. values: "reached" (below Big in both runs, and scaled) or "not reached" (the placeholder)  *)
(* ========================================================================================== *)
Notation BigR := (@Big R NumR).

Lemma BigR_val : BigR = 100000.
Proof. reflexivity. Qed.
Lemma BigR_pos : 0 < BigR.
Proof. rewrite BigR_val. lra. Qed.

(* q is below the placeholder in the reference run and stays below it after multiplication by c *)
Definition Below (c q : R) : Prop := q < BigR /\ c * q < BigR.
(* q and c * q are on the same side of the placeholder *)
Definition Side (c q : R) : Prop := Below c q \/ (BigR <= q /\ BigR <= c * q).

(* scaled, and below Big on both sides *)
Definition brel (c x x' : R) : Prop := x' = c * x /\ x < BigR /\ x' < BigR.
(* grid entries: scaled and below Big on both sides, or the placeholder on both sides *)
Definition vrel (c x x' : R) : Prop := brel c x x' \/ (x = BigR /\ x' = BigR).
(* candidates: scaled and below Big on both sides, or useless (>= Big) on both sides *)
Definition crel (c x x' : R) : Prop := brel c x x' \/ (BigR <= x /\ BigR <= x').
(* candidates compared with a reached value: scaled, or useless on both sides *)
Definition prel (c x x' : R) : Prop := x' = c * x \/ (BigR <= x /\ BigR <= x').
(* candidates built on the placeholder: Big + y on one side, Big + c y on the other *)
Definition orel (c x x' : R) : Prop := exists y, 0 <= y /\ x = BigR + y /\ x' = BigR + c * y.

(* scaled, or the placeholder on both sides (the relation `t2rel` of OperatorsR, with the Big of Fteik3d) *)
Definition trel (c x x' : R) : Prop := x' = c * x \/ (x = BigR /\ x' = BigR).
Lemma vrel_trel c x x' : vrel c x x' -> trel c x x'.
Proof. intros [(E & _ & _)|[E E']]; [left; exact E | right; split; assumption]. Qed.
Lemma trel_prel c x x' : trel c x x' -> prel c x x'.
Proof. intros [E|[E E']]; [left; exact E | right; rewrite E, E'; split; apply Rle_refl]. Qed.
Lemma vrel_zero c : vrel c 0 0.
Proof. left. pose proof BigR_pos. repeat split; [ring | lra | lra]. Qed.
Lemma vrel_Big c : vrel c BigR BigR.
Proof. right. split; reflexivity. Qed.
Lemma vrel_cases c x x' : vrel c x x' -> (x < BigR /\ x' = c * x /\ x' < BigR) \/ (x = BigR /\ x' = BigR).
Proof. intros [(E & L & L')|H]; [left; auto | right; exact H]. Qed.
Lemma vrel_le c x x' : vrel c x x' -> x <= BigR /\ x' <= BigR.
Proof. intros [(E & L & L')|[E E']]; lra. Qed.
Lemma vrel_lt c x x' : vrel c x x' -> x < BigR -> brel c x x'.
Proof. intros [H|[E E']] L; [exact H | lra]. Qed.
Lemma vrel_eq c x x' : vrel c x x' -> x = BigR -> x' = BigR.
Proof. intros [(E & L & L')|[E E']] Ex; [lra | exact E']. Qed.
Lemma brel_vrel c x x' : brel c x x' -> vrel c x x'.
Proof. intros H; left; exact H. Qed.
Lemma brel_crel c x x' : brel c x x' -> crel c x x'.
Proof. intros H; left; exact H. Qed.
Lemma brel_prel c x x' : brel c x x' -> prel c x x'.
Proof. intros (E & _); left; exact E. Qed.
Lemma crel_prel c x x' : crel c x x' -> prel c x x'.
Proof. intros [(E & _)|H]; [left; exact E | right; exact H]. Qed.
Lemma crel_of_side c q : Side c q -> crel c q (c * q).
Proof. intros [[L L']|[G G']]; [left; repeat split; auto | right; auto]. Qed.
Lemma crel_inf c x x' : BigR <= x -> BigR <= x' -> crel c x x'.
Proof. intros; right; auto. Qed.
Lemma prel_inf c x x' : BigR <= x -> BigR <= x' -> prel c x x'.
Proof. intros; right; auto. Qed.
Lemma prel_inf2 c x x' : BigR <= x /\ BigR <= x' -> prel c x x'.
Proof. intros [? ?]; right; auto. Qed.
Lemma crel_lt c x x' : crel c x x' -> x < BigR -> brel c x x'.
Proof. intros [H|[G G']] L; [exact H | lra]. Qed.
Lemma orel_ge c x x' : 0 < c -> orel c x x' -> BigR <= x /\ BigR <= x'.
Proof. intros Hc (y & Hy & -> & ->). split; [lra | nra]. Qed.
Lemma orel_crel c x x' : 0 < c -> orel c x x' -> crel c x x'.
Proof. intros Hc H. destruct (orel_ge c x x' Hc H). apply crel_inf; assumption. Qed.
Lemma orel_Big c : orel c BigR BigR.
Proof. exists 0. split; [lra|]. split; ring. Qed.

Ltac rb :=
  repeat match goal with
         | H : Rltb _ _ = true |- _ => apply Rltb_true in H
         | H : Rltb _ _ = false |- _ => apply Rltb_false in H
         | H : Rleb _ _ = true |- _ => apply Rleb_true in H
         | H : Rleb _ _ = false |- _ => apply Rleb_false in H
         end.

Lemma pymin2_R (a b : R) : pymin2 a b = if Rltb b a then b else a.
Proof. reflexivity. Qed.
Lemma pymax2_R (a b : R) : pymax2 a b = if Rltb a b then b else a.
Proof. reflexivity. Qed.
Lemma pymin2_le_l (a b : R) : pymin2 a b <= a.
Proof. rewrite pymin2_R. destruct (Rltb b a) eqn:E; rb; lra. Qed.
Lemma pymin2_le_r (a b : R) : pymin2 a b <= b.
Proof. rewrite pymin2_R. destruct (Rltb b a) eqn:E; rb; lra. Qed.
Lemma pymin2_assoc (a b d : R) : pymin2 a (pymin2 b d) = pymin2 (pymin2 a b) d.
Proof. rewrite !pymin2_Rmin. apply Rmin_assoc. Qed.
Lemma pymin2_fold3 (m p1 p2 p3 : R) : pymin2 m (pymin3 p1 p2 p3) = pymin2 (pymin2 (pymin2 m p1) p2) p3.
Proof. unfold pymin3. rewrite !pymin2_assoc. reflexivity. Qed.
Lemma pymax3_ge (a b d : R) : a <= pymax3 a b d /\ b <= pymax3 a b d /\ d <= pymax3 a b d.
Proof.
  unfold pymax3. rewrite !pymax2_R.
  destruct (Rltb a b) eqn:E1; [destruct (Rltb b d) eqn:E2 | destruct (Rltb a d) eqn:E2]; rb; lra.
Qed.
Lemma pymax3_le (m a b d : R) : a <= m -> b <= m -> d <= m -> pymax3 a b d <= m.
Proof. intros. unfold pymax3. rewrite !pymax2_R. repeat destruct (Rltb _ _); assumption. Qed.

Section Min.
Variable c : R.
Hypothesis Hc : 0 < c.

Lemma pymax2_sc (a b : R) : pymax2 (c * a) (c * b) = c * pymax2 a b.
Proof. rewrite !pymax2_R, Rltb_scale by exact Hc. destruct (Rltb a b); reflexivity. Qed.
Lemma pymax3_sc (a b d : R) : pymax3 (c * a) (c * b) (c * d) = c * pymax3 a b d.
Proof. unfold pymax3. rewrite !pymax2_sc. reflexivity. Qed.

Lemma pymin2_crel a a' b b' : crel c a a' -> crel c b b' -> crel c (pymin2 a b) (pymin2 a' b').
Proof.
  intros [(Ea & La & La')|[Ga Ga']] [(Eb & Lb & Lb')|[Gb Gb']]; rewrite !pymin2_R.
  - subst a' b'. rewrite Rltb_scale by exact Hc. destruct (Rltb b a); left; repeat split; auto.
  - destruct (Rltb b a) eqn:E1, (Rltb b' a') eqn:E2; rb; try lra. left; repeat split; auto.
  - destruct (Rltb b a) eqn:E1, (Rltb b' a') eqn:E2; rb; try lra. left; repeat split; auto.
  - destruct (Rltb b a), (Rltb b' a'); right; auto.
Qed.
Lemma pymin3_crel a a' b b' d d' : crel c a a' -> crel c b b' -> crel c d d' -> crel c (pymin3 a b d) (pymin3 a' b' d').
Proof. intros. unfold pymin3. repeat apply pymin2_crel; assumption. Qed.

Lemma pymin2_vc a a' b b' : vrel c a a' -> crel c b b' -> vrel c (pymin2 a b) (pymin2 a' b').
Proof.
  intros [(Ea & La & La')|[Ga Ga']] [(Eb & Lb & Lb')|[Gb Gb']]; rewrite !pymin2_R.
  - subst a' b'. rewrite Rltb_scale by exact Hc. destruct (Rltb b a); left; repeat split; auto.
  - destruct (Rltb b a) eqn:E1, (Rltb b' a') eqn:E2; rb; try lra. left; repeat split; auto.
  - subst a a'. destruct (Rltb b BigR) eqn:E1, (Rltb b' BigR) eqn:E2; rb; try lra. left; repeat split; auto.
  - subst a a'. destruct (Rltb b BigR) eqn:E1, (Rltb b' BigR) eqn:E2; rb; try lra. right; auto.
Qed.

(* a reached minimum absorbs a candidate that is scaled or useless on both sides *)
Lemma pymin2_bp m m' t t' : brel c m m' -> prel c t t' -> brel c (pymin2 m t) (pymin2 m' t').
Proof.
  intros (Em & Lm & Lm') [Et|[Gt Gt']]; rewrite !pymin2_R.
  - subst m' t'. rewrite Rltb_scale by exact Hc. destruct (Rltb t m) eqn:E1; rb; repeat split; auto; nra.
  - destruct (Rltb t m) eqn:E1, (Rltb t' m') eqn:E2; rb; try lra. repeat split; auto.
Qed.
Lemma pymin2_pb m m' t t' : prel c m m' -> brel c t t' -> brel c (pymin2 m t) (pymin2 m' t').
Proof.
  intros [Em|[Gm Gm']] (Et & Lt & Lt'); rewrite !pymin2_R.
  - subst m' t'. rewrite Rltb_scale by exact Hc. destruct (Rltb t m) eqn:E1; rb; repeat split; auto; nra.
  - destruct (Rltb t m) eqn:E1, (Rltb t' m') eqn:E2; rb; try lra. repeat split; auto.
Qed.
Lemma pymin2_b3 m m' p1 p1' p2 p2' p3 p3' :
  brel c m m' -> prel c p1 p1' -> prel c p2 p2' -> prel c p3 p3' ->
  brel c (pymin2 m (pymin3 p1 p2 p3)) (pymin2 m' (pymin3 p1' p2' p3')).
Proof. intros Hm H1 H2 H3. rewrite !pymin2_fold3. repeat apply pymin2_bp; assumption. Qed.

(* the last min of a node update *)
Lemma pymin2_vp m m' t t' :
  vrel c m m' -> (m < BigR -> prel c t t') -> (m = BigR -> crel c t t') -> vrel c (pymin2 m t) (pymin2 m' t').
Proof.
  intros [Hb|[Gm Gm']] Hp Hcr.
  - left. apply pymin2_bp; [exact Hb | apply Hp, Hb].
  - apply pymin2_vc; [right; auto | apply Hcr, Gm].
Qed.

Lemma pymin2_orel a a' b b' : orel c a a' -> orel c b b' -> orel c (pymin2 a b) (pymin2 a' b').
Proof.
  intros (y & Hy & -> & ->) (z & Hz & -> & ->). rewrite !pymin2_R.
  replace (Rltb (BigR + c * z) (BigR + c * y)) with (Rltb (BigR + z) (BigR + y)).
  - destruct (Rltb (BigR + z) (BigR + y)); [exists z | exists y]; auto.
  - destruct (Rltb (BigR + z) (BigR + y)) eqn:E1, (Rltb (BigR + c * z) (BigR + c * y)) eqn:E2; rb; try reflexivity; exfalso; nra.
Qed.
Lemma pymin3_orel a a' b b' d d' : orel c a a' -> orel c b b' -> orel c d d' -> orel c (pymin3 a b d) (pymin3 a' b' d').
Proof. intros. unfold pymin3. repeat apply pymin2_orel; assumption. Qed.
Lemma orel_test a a' : orel c a a' -> Rltb BigR a' = Rltb BigR a.
Proof.
  intros (y & Hy & -> & ->).
  destruct (Rltb BigR (BigR + y)) eqn:E1, (Rltb BigR (BigR + c * y)) eqn:E2; rb; try reflexivity; exfalso; nra.
Qed.
End Min.

(* ========================================================================================== *)
(* 2. the operators of one node update under both unit changes at once (skind of InitExact)      *)
(* ========================================================================================== *)
Ltac nr := unfold nsq, ngtb, ngeb, nneb in *; cbn [nadd nsub nmul ndiv nsqrt nabs nneg nltb nleb neqb nofZ nofQ NumR] in *.

(* ---------- the plane operator: a, b the two axial neighbours of the plane, d the face-diagonal one ---------- *)
Definition pl (a b d v da db pa pb : R) : R :=
  if Rltb a (b + db * v) && Rltb b (a + da * v) then four_point a b d v pa pb else BigR.

Lemma pl_zx tv te tev v dz dx p q : c_t2d_zx tv te tev v dz dx p q = pl tv te tev v dz dx p q.
Proof. reflexivity. Qed.
Lemma pl_zy tv tn tnv v dz dy p r : c_t2d_zy tv tn tnv v dz dy p r = pl tv tn tnv v dz dy p r.
Proof. unfold c_t2d_zy, pl. rewrite plane_op_four_point. reflexivity. Qed.
Lemma pl_xy te tn ten v dx dy q r : c_t2d_xy te tn ten v dx dy q r = pl te tn ten v dx dy q r.
Proof. unfold c_t2d_xy, pl. rewrite plane_op_four_point. reflexivity. Qed.

Lemma pl_ge a b d v da db : 0 < da -> 0 < db -> 0 <= v -> BigR <= d -> BigR <= pl a b d v da db (1 / da / da) (1 / db / db).
Proof.
  intros Hda Hdb Hv Hd. destruct (t2d_zx_ge a b d v da db Hda Hdb Hv) as [E|G]; rewrite pl_zx in *; [rewrite E; apply Rle_refl | lra].
Qed.

Lemma four_point_shift2 x d v a b : four_point x x d v a b = four_point 0 0 d v a b.
Proof.
  unfold OperatorsR.four_point. cbv zeta.
  replace (d + x - x) with (d + 0 - 0) by ring. replace (d - x + x) with (d - 0 + 0) by ring. reflexivity.
Qed.
Lemma four_point_shift3 x v a b : 0 < a + b -> four_point 0 0 x v a b = x + four_point 0 0 0 v a b.
Proof.
  intros Hab. unfold OperatorsR.four_point. cbv zeta.
  replace (x + 0 - 0 - (x - 0 + 0)) with (0 + 0 - 0 - (0 - 0 + 0)) by ring. set (s := sqrt _). field. lra.
Qed.
Lemma four_point_000_nonneg v a b : 0 < a + b -> 0 <= four_point 0 0 0 v a b.
Proof.
  intros Hab. unfold OperatorsR.four_point. cbv zeta. set (s := sqrt _). assert (0 <= s) by apply sqrt_pos.
  apply Rmult_le_pos; [lra | left; apply Rinv_0_lt_compat; exact Hab].
Qed.

Lemma Rltb_shift (w a b : R) : Rltb (w + a) (w + b) = Rltb a b.
Proof. destruct (Rltb (w + a) (w + b)) eqn:E1, (Rltb a b) eqn:E2; rb; try reflexivity; exfalso; lra. Qed.

(* ---------- the 8-point operator (NonNeg3d.op3 is the formula without the guard) ---------- *)
Lemma op3_t3_shift s u w tv te tn tev ten tnv tnve D1 D2 D3 :
  op3_t3 (s + tv) (s + te) (s + tn) (u + tev) (u + ten) (u + tnv) (w + tnve) D1 D2 D3
  = op3_t3 tv te tn tev ten tnv tnve D1 D2 D3.
Proof. unfold op3_t3, op3_a, op3_b, op3_c, hf. cbv zeta. nr. field. Qed.

Lemma op3_shift s u w tv te tn tev ten tnv tnve v p q r D1 D2 D3 :
  0 < p + q + r ->
  op3 (s + tv) (s + te) (s + tn) (u + tev) (u + ten) (u + tnv) (w + tnve) v p q r D1 D2 D3 (p + q + r)
  = w + op3 tv te tn tev ten tnv tnve v p q r D1 D2 D3 (p + q + r).
Proof.
  intros Hs. rewrite !op3_R, op3_t3_shift. set (sq := sqrt _). unfold op3_a, op3_b, op3_c, hf. nr. field. lra.
Qed.

(* the test  t2 >= t3  followed by the guard *)
Definition g3 (tv te tn tev ten tnv tnve v p q r : R) : R :=
  if Rleb (op3_t3 tv te tn tev ten tnv tnve (p * q) (p * r) (q * r)) (op3_t2 v (p + q + r))
  then guard3 true (op3 tv te tn tev ten tnv tnve v p q r (p * q) (p * r) (q * r) (p + q + r)) tnve
  else BigR.
(* the 8-point candidate; m12 = min (t1d, t2d) *)
Definition t3c (tv te tn tev ten tnv tnve v p q r m12 : R) : R :=
  if Rltb (pymax3 tv te tn) m12 then g3 tv te tn tev ten tnv tnve v p q r else BigR.

(* the three squared differences of op3_t3 *)
Lemma op3_t3_terms tv te tn tev ten tnv tnve D1 D2 D3 :
  op3_t3 tv te tn tev ten tnv tnve D1 D2 D3
  = D1 * (9 / 4 * ((te - tv + ten - tnv) * (te - tv + ten - tnv)))
    + D2 * (9 / 4 * ((tv - tn + tev - ten) * (tv - tn + tev - ten)))
    + D3 * (9 / 4 * ((te - tn + tev - tnv) * (te - tn + tev - tnv))).
Proof. unfold op3_t3, op3_a, op3_b, op3_c, hf. cbv zeta. nr. field. Qed.

(* the length attached to one term of t3 *)
Definition Lmix (D dsum : R) : R := sqrt (dsum / D).
Lemma Lmix_nonneg D dsum : 0 <= Lmix D dsum.
Proof. apply sqrt_pos. Qed.
Lemma Lmix_sq D dsum : 0 < D -> 0 <= dsum -> Lmix D dsum * Lmix D dsum * D = dsum.
Proof.
  intros HD Hs. unfold Lmix. rewrite sqrt_sqrt; [field; lra|].
  apply Rmult_le_pos; [exact Hs | left; apply Rinv_0_lt_compat; exact HD].
Qed.

(* a squared difference that exceeds (2 v L)^2 makes the test t2 >= t3 fail *)
Lemma mix_core (D dsum v L g rest : R) :
  0 <= v -> 0 <= L -> 0 < D -> L * L * D = dsum -> 0 <= rest ->
  (2 * (v * L) < g \/ 2 * (v * L) < - g) ->
  v * v * dsum * 9 < D * (9 / 4 * (g * g)) + rest.
Proof.
  intros Hv HL HD E Hr Hg. assert (HvL : 0 <= v * L) by (apply Rmult_le_pos; assumption).
  assert (H4 : 4 * ((v * L) * (v * L)) < g * g) by (destruct Hg; nra).
  assert (H5 : D * (4 * ((v * L) * (v * L))) < D * (g * g)) by (apply Rmult_lt_compat_l; assumption).
  rewrite <- E. nra.
Qed.

Lemma sq_term_nonneg (D g : R) : 0 <= D -> 0 <= D * (9 / 4 * (g * g)).
Proof. intros HD. apply Rmult_le_pos; [exact HD|]. nra. Qed.

Lemma g3_mix_zx tv te tn tev ten tnv tnve v p q r L :
  0 < p -> 0 < q -> 0 < r -> 0 <= v -> 0 <= L -> L * L * (p * q) = p + q + r ->
  (2 * (v * L) < te - tv + ten - tnv \/ 2 * (v * L) < - (te - tv + ten - tnv)) ->
  g3 tv te tn tev ten tnv tnve v p q r = BigR.
Proof.
  intros Hp Hq Hr Hv HL E Hg. unfold g3. rewrite (proj2 (Rleb_false _ _)); [reflexivity|].
  rewrite op3_t3_terms. unfold op3_t2. nr.
  pose proof (sq_term_nonneg (p * r) (tv - tn + tev - ten) ltac:(nra)).
  pose proof (sq_term_nonneg (q * r) (te - tn + tev - tnv) ltac:(nra)).
  pose proof (mix_core (p * q) (p + q + r) v L (te - tv + ten - tnv)
                (p * r * (9 / 4 * ((tv - tn + tev - ten) * (tv - tn + tev - ten)))
                 + q * r * (9 / 4 * ((te - tn + tev - tnv) * (te - tn + tev - tnv))))
                Hv HL ltac:(nra) E ltac:(lra) Hg). lra.
Qed.
Lemma g3_mix_zy tv te tn tev ten tnv tnve v p q r L :
  0 < p -> 0 < q -> 0 < r -> 0 <= v -> 0 <= L -> L * L * (p * r) = p + q + r ->
  (2 * (v * L) < tv - tn + tev - ten \/ 2 * (v * L) < - (tv - tn + tev - ten)) ->
  g3 tv te tn tev ten tnv tnve v p q r = BigR.
Proof.
  intros Hp Hq Hr Hv HL E Hg. unfold g3. rewrite (proj2 (Rleb_false _ _)); [reflexivity|].
  rewrite op3_t3_terms. unfold op3_t2. nr.
  pose proof (sq_term_nonneg (p * q) (te - tv + ten - tnv) ltac:(nra)).
  pose proof (sq_term_nonneg (q * r) (te - tn + tev - tnv) ltac:(nra)).
  pose proof (mix_core (p * r) (p + q + r) v L (tv - tn + tev - ten)
                (p * q * (9 / 4 * ((te - tv + ten - tnv) * (te - tv + ten - tnv)))
                 + q * r * (9 / 4 * ((te - tn + tev - tnv) * (te - tn + tev - tnv))))
                Hv HL ltac:(nra) E ltac:(lra) Hg). lra.
Qed.
Lemma g3_mix_xy tv te tn tev ten tnv tnve v p q r L :
  0 < p -> 0 < q -> 0 < r -> 0 <= v -> 0 <= L -> L * L * (q * r) = p + q + r ->
  (2 * (v * L) < te - tn + tev - tnv \/ 2 * (v * L) < - (te - tn + tev - tnv)) ->
  g3 tv te tn tev ten tnv tnve v p q r = BigR.
Proof.
  intros Hp Hq Hr Hv HL E Hg. unfold g3. rewrite (proj2 (Rleb_false _ _)); [reflexivity|].
  rewrite op3_t3_terms. unfold op3_t2. nr.
  pose proof (sq_term_nonneg (p * q) (te - tv + ten - tnv) ltac:(nra)).
  pose proof (sq_term_nonneg (p * r) (tv - tn + tev - ten) ltac:(nra)).
  pose proof (mix_core (q * r) (p + q + r) v L (te - tn + tev - tnv)
                (p * q * (9 / 4 * ((te - tv + ten - tnv) * (te - tv + ten - tnv)))
                 + p * r * (9 / 4 * ((tv - tn + tev - ten) * (tv - tn + tev - ten))))
                Hv HL ltac:(nra) E ltac:(lra) Hg). lra.
Qed.

Section Ops.
Variables (c : R) (k : skind).
Hypothesis Hc : 0 < c.

Lemma sc_h_pos h : 0 < h -> 0 < sc_h k c h.
Proof. intros Hh. destruct k; cbn [InitExact.sc_h]; [exact Hh | nra]. Qed.
Lemma sc_h_nonneg h : 0 <= h -> 0 <= sc_h k c h.
Proof. intros Hh. destruct k; cbn [InitExact.sc_h]; [exact Hh | nra]. Qed.
Lemma sc_v_nonneg v : 0 <= v -> 0 <= sc_v k c v.
Proof. intros Hv. destruct k; cbn [InitExact.sc_v]; [nra | exact Hv]. Qed.
Lemma sc_i2_pos q : 0 < q -> 0 < sc_i2 k c q.
Proof.
  intros Hq. destruct k; cbn [InitExact.sc_i2]; [exact Hq|].
  apply Rdiv_lt_0_compat; [exact Hq | nra].
Qed.
Lemma sc_vh v h : sc_v k c v * sc_h k c h = c * (v * h).
Proof. destruct k; cbn [InitExact.sc_h InitExact.sc_v]; ring. Qed.
Lemma sc_i2_sum p q r : sc_i2 k c p + sc_i2 k c q + sc_i2 k c r = sc_i2 k c (p + q + r).
Proof. destruct k; cbn [InitExact.sc_i2]; [reflexivity | field; lra]. Qed.

(* the factor by which t2 and t3 are multiplied *)
Definition sc_m : R := match k with InitExact.Slowness => c * c | InitExact.Length => / (c * c) end.
Lemma sc_m_pos : 0 < sc_m.
Proof. unfold sc_m. destruct k; [nra | apply Rinv_0_lt_compat; nra]. Qed.

Lemma four_point_sc tv te tev vref pa pb :
  four_point (c * tv) (c * te) (c * tev) (sc_v k c vref) (sc_i2 k c pa) (sc_i2 k c pb) = c * four_point tv te tev vref pa pb.
Proof.
  destruct k; cbn [InitExact.sc_v InitExact.sc_i2];
    [apply OperatorsR.four_point_scale_slowness; lra | apply OperatorsR.four_point_scale_length; exact Hc].
Qed.
Lemma four_point_sc0 tev vref pa pb :
  four_point 0 0 (c * tev) (sc_v k c vref) (sc_i2 k c pa) (sc_i2 k c pb) = c * four_point 0 0 tev vref pa pb.
Proof. rewrite <- four_point_sc. rewrite Rmult_0_r. reflexivity. Qed.
Lemma four_point_sc000 vref pa pb :
  four_point 0 0 0 (sc_v k c vref) (sc_i2 k c pa) (sc_i2 k c pb) = c * four_point 0 0 0 vref pa pb.
Proof. rewrite <- four_point_sc. rewrite Rmult_0_r. reflexivity. Qed.

Lemma test_sc a b h v : Rltb (c * a) (c * b + sc_h k c h * sc_v k c v) = Rltb a (b + h * v).
Proof. rewrite sc_prod. rewrite <- Rmult_plus_distr_l. apply Rltb_scale, Hc. Qed.

(* ---------- a 1D candidate ---------- *)
Lemma cand1d_rel t t' h v :
  0 < h -> 0 <= v -> vrel c t t' -> (t < BigR -> Below c (t + h * v)) ->
  crel c (t + h * v) (t' + sc_h k c h * sc_v k c v) /\
  (t < BigR -> brel c (t + h * v) (t' + sc_h k c h * sc_v k c v)) /\
  (t = BigR -> orel c (t + h * v) (t' + sc_h k c h * sc_v k c v)).
Proof.
  intros Hh Hv Rt N. rewrite sc_prod.
  assert (Q : 0 <= h * v) by (apply Rmult_le_pos; lra).
  assert (Q' : 0 <= c * (h * v)) by (apply Rmult_le_pos; lra).
  destruct (vrel_cases _ _ _ Rt) as [(L & E & L')|[E E']].
  - destruct (N L) as [B1 B2].
    assert (Hb : brel c (t + h * v) (t' + c * (h * v))) by (subst t'; repeat split; [ring | exact B1 | lra]).
    split; [left; exact Hb|]. split; [intros _; exact Hb | intros Et; lra].
  - split; [right; lra|]. split; [intros Lt; lra|]. intros _. exists (h * v). subst. auto.
Qed.

(* ---------- a plane candidate ---------- *)
(* the caveat of one plane: a, b axial neighbours, d the face-diagonal one, v the slowness of the face *)
Definition plane_cav (a b d v da db : R) : Prop :=
  (a = BigR -> b < BigR -> d < BigR -> Below c (b + db * v)) /\
  (b = BigR -> a < BigR -> d < BigR -> Below c (a + da * v)) /\
  (a = BigR -> b = BigR -> d < BigR -> 0 < v -> Below c (pl a b d v da db (1 / da / da) (1 / db / db))).

Lemma plane_rel a a' b b' d d' v da db :
  0 < da -> 0 < db -> 0 <= v ->
  vrel c a a' -> vrel c b b' -> vrel c d d' ->
  plane_cav a b d v da db ->
  let P := pl a b d v da db (1 / da / da) (1 / db / db) in
  let P' := pl a' b' d' (sc_v k c v) (sc_h k c da) (sc_h k c db)
               (1 / sc_h k c da / sc_h k c da) (1 / sc_h k c db / sc_h k c db) in
  prel c P P' /\ (a = BigR -> b = BigR -> (d < BigR -> vrel c P P') /\ (d = BigR -> orel c P P')).
Proof.
  intros Hda Hdb Hv Ra Rb Rd (N1 & N2 & N3) P P'.
  pose proof (sc_h_pos da Hda) as Hda'. pose proof (sc_h_pos db Hdb) as Hdb'.
  pose proof (sc_v_nonneg v Hv) as Hv'.
  pose proof (sc_prod k c db v) as Pb. pose proof (sc_prod k c da v) as Pa.
  assert (Qb : 0 <= db * v) by (apply Rmult_le_pos; lra).
  assert (Qa : 0 <= da * v) by (apply Rmult_le_pos; lra).
  assert (Qb' : 0 <= c * (db * v)) by (apply Rmult_le_pos; lra).
  assert (Qa' : 0 <= c * (da * v)) by (apply Rmult_le_pos; lra).
  pose proof BigR_pos as HB.
  assert (Hpp : 0 < 1 / da / da + 1 / db / db) by (pose proof (inv2_pos da Hda); pose proof (inv2_pos db Hdb); lra).
  assert (Hpp' : 0 < 1 / sc_h k c da / sc_h k c da + 1 / sc_h k c db / sc_h k c db)
    by (pose proof (inv2_pos _ Hda'); pose proof (inv2_pos _ Hdb'); lra).
  destruct (vrel_cases _ _ _ Ra) as [(La & Ea & La')|[Ea Ea']];
  destruct (vrel_cases _ _ _ Rb) as [(Lb & Eb & Lb')|[Eb Eb']].
  - (* both axial neighbours reached: the test is invariant *)
    split; [|intros E; exfalso; lra]. subst P P' a' b'. unfold pl. rewrite !test_sc.
    destruct (Rltb a (b + db * v)) eqn:E1; [|apply prel_inf; apply Rle_refl].
    destruct (Rltb b (a + da * v)) eqn:E2; [|apply prel_inf; apply Rle_refl]. cbn [andb]. rb.
    destruct (vrel_cases _ _ _ Rd) as [(Ld & Ed & Ld')|[Ed Ed']].
    + subst d'. rewrite !sc_inv2, four_point_sc. left. reflexivity.
    + apply prel_inf.
      * rewrite <- Ed at 1. apply four_point_ge_tev; lra.
      * rewrite <- Ed' at 1. apply four_point_ge_tev; try lra; rewrite ?Pa, ?Pb; nra.
  - (* b unreached *)
    split; [|intros E; exfalso; lra]. subst P P'.
    destruct (vrel_cases _ _ _ Rd) as [(Ld & Ed & Ld')|[Ed Ed']].
    + destruct (N2 Eb La Ld) as [B1 B2]. unfold pl.
      rewrite (proj2 (Rltb_false b (a + da * v))) by lra.
      rewrite (proj2 (Rltb_false b' (a' + sc_h k c da * sc_v k c v))) by (rewrite Pa; subst a'; lra).
      rewrite !andb_false_r. apply prel_inf; apply Rle_refl.
    + apply prel_inf; apply pl_ge; lra.
  - (* a unreached *)
    split; [|intros _ E; exfalso; lra]. subst P P'.
    destruct (vrel_cases _ _ _ Rd) as [(Ld & Ed & Ld')|[Ed Ed']].
    + destruct (N1 Ea Lb Ld) as [B1 B2]. unfold pl.
      rewrite (proj2 (Rltb_false a (b + db * v))) by lra.
      rewrite (proj2 (Rltb_false a' (b' + sc_h k c db * sc_v k c v))) by (rewrite Pb; subst b'; lra).
      cbn [andb]. apply prel_inf; apply Rle_refl.
    + apply prel_inf; apply pl_ge; lra.
  - (* both axial neighbours unreached *)
    assert (ET : Rltb a' (b' + sc_h k c db * sc_v k c v) && Rltb b' (a' + sc_h k c da * sc_v k c v)
                 = Rltb a (b + db * v) && Rltb b (a + da * v)).
    { rewrite Pa, Pb. subst a a' b b'.
      destruct (Rltb BigR (BigR + db * v)) eqn:E1, (Rltb BigR (BigR + da * v)) eqn:E2,
               (Rltb BigR (BigR + c * (db * v))) eqn:E3, (Rltb BigR (BigR + c * (da * v))) eqn:E4;
        rb; try reflexivity; exfalso; nra. }
    assert (EP : P = if Rltb a (b + db * v) && Rltb b (a + da * v)
                     then four_point 0 0 d v (1 / da / da) (1 / db / db) else BigR).
    { subst P. unfold pl. destruct (Rltb a (b + db * v) && Rltb b (a + da * v)); [|reflexivity]. subst a b. apply four_point_shift2. }
    assert (EP' : P' = if Rltb a (b + db * v) && Rltb b (a + da * v)
                       then four_point 0 0 d' (sc_v k c v) (1 / sc_h k c da / sc_h k c da) (1 / sc_h k c db / sc_h k c db)
                       else BigR).
    { subst P'. unfold pl. rewrite ET. destruct (Rltb a (b + db * v) && Rltb b (a + da * v)); [|reflexivity].
      subst a' b'. apply four_point_shift2. }
    destruct (vrel_cases _ _ _ Rd) as [(Ld & Ed & Ld')|[Ed Ed']].
    + (* the face-diagonal update *)
      destruct (Rltb a (b + db * v) && Rltb b (a + da * v)) eqn:ET0.
      * assert (Hvp : 0 < v).
        { apply andb_true_iff in ET0 as [T1 _]. rb. subst a b. destruct (Rle_lt_or_eq_dec 0 v Hv) as [Y|Y]; [exact Y|].
          exfalso. subst v. lra. }
        destruct (N3 Ea Eb Ld Hvp) as [B1 B2]. fold P in B1, B2.
        assert (E : P' = c * P) by (rewrite EP, EP'; subst d'; rewrite !sc_inv2; apply four_point_sc0).
        split; [left; exact E|]. intros _ _. split; [|intros; exfalso; lra].
        intros _. left. split; [exact E|]. split; [exact B1 | rewrite E; exact B2].
      * rewrite EP, EP'. split; [apply prel_inf; apply Rle_refl|]. intros _ _. split; [|intros; exfalso; lra].
        intros _. apply vrel_Big.
    + assert (HO : orel c P P').
      { rewrite EP, EP'. destruct (Rltb a (b + db * v) && Rltb b (a + da * v)); [|apply orel_Big]. subst d d'.
        rewrite (four_point_shift3 BigR v), (four_point_shift3 BigR (sc_v k c v)) by assumption.
        rewrite !sc_inv2, four_point_sc000.
        exists (four_point 0 0 0 v (1 / da / da) (1 / db / db)). split; [apply four_point_000_nonneg; exact Hpp|]. auto. }
      destruct (orel_ge c P P' Hc HO). split; [apply prel_inf; assumption|].
      intros _ _. split; [intros; exfalso; lra | intros _; exact HO].
Qed.

(* ---------- the 8-point candidate ---------- *)
Lemma op3_t2_sc v p q r : op3_t2 (sc_v k c v) (sc_i2 k c p + sc_i2 k c q + sc_i2 k c r) = sc_m * op3_t2 v (p + q + r).
Proof. unfold op3_t2, sc_m. nr. destruct k; cbn [InitExact.sc_v InitExact.sc_i2]; [ring | field; lra]. Qed.
Lemma op3_t3_sc tv te tn tev ten tnv tnve p q r :
  op3_t3 (c * tv) (c * te) (c * tn) (c * tev) (c * ten) (c * tnv) (c * tnve)
         (sc_i2 k c p * sc_i2 k c q) (sc_i2 k c p * sc_i2 k c r) (sc_i2 k c q * sc_i2 k c r)
  = sc_m * op3_t3 tv te tn tev ten tnv tnve (p * q) (p * r) (q * r).
Proof.
  rewrite !op3_t3_terms. unfold sc_m. destruct k; cbn [InitExact.sc_i2]; [ring | field; lra].
Qed.
Lemma op3_sc tv te tn tev ten tnv tnve v p q r :
  0 < p + q + r ->
  op3 (c * tv) (c * te) (c * tn) (c * tev) (c * ten) (c * tnv) (c * tnve) (sc_v k c v)
      (sc_i2 k c p) (sc_i2 k c q) (sc_i2 k c r)
      (sc_i2 k c p * sc_i2 k c q) (sc_i2 k c p * sc_i2 k c r) (sc_i2 k c q * sc_i2 k c r)
      (sc_i2 k c p + sc_i2 k c q + sc_i2 k c r)
  = c * op3 tv te tn tev ten tnv tnve v p q r (p * q) (p * r) (q * r) (p + q + r).
Proof.
  intros Hs. rewrite !op3_R, op3_t2_sc, op3_t3_sc.
  set (t2 := op3_t2 v (p + q + r)). set (t3 := op3_t3 tv te tn tev ten tnv tnve (p * q) (p * r) (q * r)).
  unfold sc_m. destruct k; cbn [InitExact.sc_v InitExact.sc_i2].
  - rewrite (sqrt_scale' c (t2 - t3)) by (try lra; ring). set (sq := sqrt _).
    unfold op3_a, op3_b, op3_c, hf. nr. field. lra.
  - assert (Hi : 0 < / c) by (apply Rinv_0_lt_compat; exact Hc).
    rewrite (sqrt_scale' (/ c) (t2 - t3)) by (try lra; field; lra). set (sq := sqrt _).
    unfold op3_a, op3_b, op3_c, hf. nr. field. lra.
Qed.

(* uniform patterns: the three axial neighbours are all reached (s = s' = 0) or all unreached (s = s' = Big, y = 0), the
   same for the three face-diagonal ones (u, u') and for the cube-diagonal one (w, w') *)
Lemma g3_uniform s s' u u' w w' yv ye yn yev yen ynv z v p q r :
  0 < p -> 0 < q -> 0 < r ->
  let G := g3 (s + yv) (s + ye) (s + yn) (u + yev) (u + yen) (u + ynv) (w + z) v p q r in
  let G' := g3 (s' + c * yv) (s' + c * ye) (s' + c * yn) (u' + c * yev) (u' + c * yen) (u' + c * ynv) (w' + c * z)
               (sc_v k c v) (sc_i2 k c p) (sc_i2 k c q) (sc_i2 k c r) in
  exists (b : bool) (x : R), G = (if b then BigR else w + x) /\ G' = (if b then BigR else w' + c * x) /\ (b = false -> z <= x).
Proof.
  intros Hp Hq Hr G G'. subst G G'. unfold g3.
  assert (Hs : 0 < p + q + r) by lra.
  assert (Hs' : 0 < sc_i2 k c p + sc_i2 k c q + sc_i2 k c r)
    by (pose proof (sc_i2_pos p Hp); pose proof (sc_i2_pos q Hq); pose proof (sc_i2_pos r Hr); lra).
  rewrite !op3_t3_shift, !op3_shift by assumption. rewrite op3_t3_sc, op3_t2_sc, op3_sc by exact Hs.
  rewrite (Rleb_scale _ _ _ sc_m_pos).
  destruct (Rleb _ _); [|exists true, 0; split; [reflexivity|]; split; [reflexivity | discriminate]].
  set (x := op3 yv ye yn yev yen ynv z v p q r (p * q) (p * r) (q * r) (p + q + r)).
  unfold guard3. nr. rewrite !Rltb_shift, Rltb_scale by exact Hc.
  destruct (Rltb x z) eqn:E; [exists true, 0; split; [reflexivity|]; split; [reflexivity | discriminate]|].
  rb. exists false, x. auto.
Qed.
End Ops.

(* ========================================================================================== *)
(* 3. one node update                                                                           *)
(* ========================================================================================== *)
(* the cube-diagonal update: what the 8-point operator computes when the six other neighbours are unreached *)
Definition diag3 (z v p q r : R) : R := z + 3 * v / sqrt (p + q + r).

Lemma g3_diag s u z v p q r : 0 < p -> 0 < q -> 0 < r -> 0 <= v -> g3 s s s u u u z v p q r = diag3 z v p q r.
Proof.
  intros Hp Hq Hr Hv. assert (Hs : 0 < p + q + r) by lra.
  assert (E : g3 (s + 0) (s + 0) (s + 0) (u + 0) (u + 0) (u + 0) (0 + z) v p q r = diag3 z v p q r);
    [|rewrite !Rplus_0_r, Rplus_0_l in E; exact E].
  unfold g3. rewrite op3_t3_shift, op3_shift by exact Hs.
  assert (E3 : op3_t3 0 0 0 0 0 0 z (p * q) (p * r) (q * r) = 0) by (rewrite op3_t3_terms; ring).
  rewrite E3. unfold op3_t2. nr.
  assert (H2 : 0 <= v * v * (p + q + r) * 9) by (assert (0 <= v * v) by nra; nra).
  rewrite (proj2 (Rleb_true _ _) H2). rewrite op3_R, E3. unfold op3_t2. nr.
  rewrite Rminus_0_r.
  rewrite (sqrt_scale' (3 * v) (p + q + r)) by (try lra; ring).
  unfold op3_a, op3_b, op3_c, hf, guard3, diag3. nr.
  assert (Hsd : 0 < sqrt (p + q + r)) by (apply sqrt_lt_R0; exact Hs).
  assert (Esd : sqrt (p + q + r) * sqrt (p + q + r) = p + q + r) by (apply sqrt_sqrt; lra).
  set (sd := sqrt (p + q + r)) in *. clearbody sd. rewrite <- Esd.
  assert (EX : 0 + ((0 - 1 / 2 * 0 + 1 / 2 * 0 - 1 / 2 * 0 + 1 / 2 * 0 - 0 + z) * p
                    + (0 - 1 / 2 * 0 + 1 / 2 * 0 - 1 / 2 * 0 + 1 / 2 * 0 - 0 + z) * q
                    + (0 - 1 / 2 * 0 + 1 / 2 * 0 - 1 / 2 * 0 + 1 / 2 * 0 - 0 + z) * r + 3 * v * sd) / (sd * sd)
               = z + 3 * v / sd).
  { replace ((0 - 1 / 2 * 0 + 1 / 2 * 0 - 1 / 2 * 0 + 1 / 2 * 0 - 0 + z) * p
             + (0 - 1 / 2 * 0 + 1 / 2 * 0 - 1 / 2 * 0 + 1 / 2 * 0 - 0 + z) * q
             + (0 - 1 / 2 * 0 + 1 / 2 * 0 - 1 / 2 * 0 + 1 / 2 * 0 - 0 + z) * r) with (z * (sd * sd)) by (rewrite Esd; ring).
    field. lra. }
  rewrite EX.
  assert (Hq0 : 0 <= 3 * v / sd) by (apply Rmult_le_pos; [lra | left; apply Rinv_0_lt_compat; exact Hsd]).
  rewrite (proj2 (Rltb_false _ _)) by lra. reflexivity.
Qed.

Lemma diag3_ge z v p q r : 0 < p + q + r -> 0 <= v -> z <= diag3 z v p q r.
Proof.
  intros Hs Hv. unfold diag3. assert (Hsd : 0 < sqrt (p + q + r)) by (apply sqrt_lt_R0; exact Hs).
  assert (0 <= 3 * v / sqrt (p + q + r)) by (apply Rmult_le_pos; [lra | left; apply Rinv_0_lt_compat; exact Hsd]). lra.
Qed.

(* THE CAVEAT of the 8-point operator when the three axial neighbours are reached and the three face-diagonal ones are
   neither all reached nor all unreached: one squared difference of t3 contains Big; the test t2 >= t3 must fail in
   both runs.  L = sqrt (dsum / (product of the two inverse squared spacings of the term)) is a length. *)
Definition mix_cav (c tv te tn tev ten tnv v p q r : R) : Prop :=
  (tnv = BigR -> ten < BigR -> Below c (ten + (te - tv) + 2 * (v * Lmix (p * q) (p + q + r)))) /\
  (ten = BigR -> tev < BigR -> Below c (tev + (tv - tn) + 2 * (v * Lmix (p * r) (p + q + r)))) /\
  (tev = BigR -> tnv < BigR -> Below c (tnv + (tn - te) + 2 * (v * Lmix (q * r) (p + q + r)))).

(* THE CAVEAT of one node update, on the values read in the REFERENCE run only.
     t0 = tt[i,j,k]; tv, te, tn the axial neighbours; tev, ten, tnv the face-diagonal ones; tnve the cube-diagonal one;
     vz, vx, vy edge slownesses (1D operators), vzx, vzy, vxy face slownesses (plane operators), vref cell slowness. *)
Definition node_cav3 (c t0 tv te tn tev ten tnv tnve vz vx vy vzx vzy vxy vref dz dx dy : R) : Prop :=
  let p := 1 / dz / dz in let q := 1 / dx / dx in let r := 1 / dy / dy in
  (tv < BigR -> Below c (tv + dz * vz)) /\
  (te < BigR -> Below c (te + dx * vx)) /\
  (tn < BigR -> Below c (tn + dy * vy)) /\
  plane_cav c tv te tev vzx dz dx /\
  plane_cav c tv tn tnv vzy dz dy /\
  plane_cav c te tn ten vxy dx dy /\
  (tv < BigR -> te < BigR -> tn < BigR -> mix_cav c tv te tn tev ten tnv vref p q r) /\
  (t0 = BigR -> tv = BigR -> te = BigR -> tn = BigR -> tev = BigR -> ten = BigR -> tnv = BigR -> tnve < BigR ->
   Side c (diag3 tnve vref p q r)).

(* the value written by `sweep` at a node, as a function of the values it reads *)
Definition nv3 (t0 tv te tn tev ten tnv tnve vz vx vy vzx vzy vxy vref dz dx dy : R) : R :=
  let p := 1 / dz / dz in let q := 1 / dx / dx in let r := 1 / dy / dy in
  let t1 := pymin3 (tv + dz * vz) (te + dx * vx) (tn + dy * vy) in
  let t2 := pymin3 (pl tv te tev vzx dz dx p q) (pl tv tn tnv vzy dz dy p r) (pl te tn ten vxy dx dy q r) in
  pymin4 t0 t1 t2 (t3c tv te tn tev ten tnv tnve vref p q r (pymin2 t1 t2)).

Lemma pymax3_same (x : R) : pymax3 x x x = x.
Proof. unfold pymax3. rewrite !pymax2_R. repeat destruct (Rltb _ _); reflexivity. Qed.

Section Node.
Variables (c : R) (k : skind).
Hypothesis Hc : 0 < c.

Lemma Lmix_sc p q dsum :
  0 < p -> 0 < q -> Lmix (sc_i2 k c p * sc_i2 k c q) (sc_i2 k c dsum) = sc_h k c (Lmix (p * q) dsum).
Proof.
  intros Hp Hq. unfold Lmix. destruct k; cbn [InitExact.sc_i2 InitExact.sc_h]; [reflexivity|].
  apply sqrt_scale'; [lra|]. field. lra.
Qed.

Lemma diag3_sc z v p q r :
  0 < p + q + r -> diag3 (c * z) (sc_v k c v) (sc_i2 k c p) (sc_i2 k c q) (sc_i2 k c r) = c * diag3 z v p q r.
Proof.
  intros Hs. unfold diag3. rewrite sc_i2_sum by exact Hc.
  assert (Hsd : 0 < sqrt (p + q + r)) by (apply sqrt_lt_R0; exact Hs).
  destruct k; cbn [InitExact.sc_i2 InitExact.sc_v]; [unfold Rdiv; ring|].
  assert (Hi : 0 < / c) by (apply Rinv_0_lt_compat; exact Hc).
  rewrite (sqrt_scale' (/ c) (p + q + r)) by (try lra; field; lra). field. lra.
Qed.

Lemma g3_uniform' s s' u u' w w' yv ye yn yev yen ynv z tv tv' te te' tn tn' tev tev' ten ten' tnv tnv' tnve tnve' v p q r :
  0 < p -> 0 < q -> 0 < r ->
  tv = s + yv -> te = s + ye -> tn = s + yn -> tev = u + yev -> ten = u + yen -> tnv = u + ynv -> tnve = w + z ->
  tv' = s' + c * yv -> te' = s' + c * ye -> tn' = s' + c * yn ->
  tev' = u' + c * yev -> ten' = u' + c * yen -> tnv' = u' + c * ynv -> tnve' = w' + c * z ->
  exists (b : bool) (x : R),
    g3 tv te tn tev ten tnv tnve v p q r = (if b then BigR else w + x) /\
    g3 tv' te' tn' tev' ten' tnv' tnve' (sc_v k c v) (sc_i2 k c p) (sc_i2 k c q) (sc_i2 k c r) = (if b then BigR else w' + c * x) /\
    (b = false -> z <= x).
Proof. intros Hp Hq Hr. intros. subst. apply (g3_uniform c k Hc); assumption. Qed.

(* mixed patterns: the test t2 >= t3 fails in both runs *)
Lemma g3_mix_c2 tv te tn tev tev' ten tnve tnve' v p q r :
  0 < p -> 0 < q -> 0 < r -> 0 <= v ->
  Below c (ten + (te - tv) + 2 * (v * Lmix (p * q) (p + q + r))) ->
  g3 tv te tn tev ten BigR tnve v p q r = BigR /\
  g3 (c * tv) (c * te) (c * tn) tev' (c * ten) BigR tnve' (sc_v k c v) (sc_i2 k c p) (sc_i2 k c q) (sc_i2 k c r) = BigR.
Proof.
  intros Hp Hq Hr Hv [B1 B2]. pose proof (sc_i2_pos c k Hc p Hp). pose proof (sc_i2_pos c k Hc q Hq).
  pose proof (sc_i2_pos c k Hc r Hr). split.
  - apply (g3_mix_zx _ _ _ _ _ _ _ _ _ _ _ (Lmix (p * q) (p + q + r))); try assumption;
      [apply Lmix_nonneg | apply Lmix_sq; nra | right; lra].
  - apply (g3_mix_zx _ _ _ _ _ _ _ _ _ _ _ (Lmix (sc_i2 k c p * sc_i2 k c q) (sc_i2 k c p + sc_i2 k c q + sc_i2 k c r)));
      try assumption; [apply sc_v_nonneg; assumption | apply Lmix_nonneg | apply Lmix_sq; nra |].
    rewrite sc_i2_sum, Lmix_sc, sc_vh by assumption. right. lra.
Qed.
Lemma g3_mix_c4 tv te tn tev tnv tnv' tnve tnve' v p q r :
  0 < p -> 0 < q -> 0 < r -> 0 <= v ->
  Below c (tev + (tv - tn) + 2 * (v * Lmix (p * r) (p + q + r))) ->
  g3 tv te tn tev BigR tnv tnve v p q r = BigR /\
  g3 (c * tv) (c * te) (c * tn) (c * tev) BigR tnv' tnve' (sc_v k c v) (sc_i2 k c p) (sc_i2 k c q) (sc_i2 k c r) = BigR.
Proof.
  intros Hp Hq Hr Hv [B1 B2]. pose proof (sc_i2_pos c k Hc p Hp). pose proof (sc_i2_pos c k Hc q Hq).
  pose proof (sc_i2_pos c k Hc r Hr). split.
  - apply (g3_mix_zy _ _ _ _ _ _ _ _ _ _ _ (Lmix (p * r) (p + q + r))); try assumption;
      [apply Lmix_nonneg | apply Lmix_sq; nra | right; lra].
  - apply (g3_mix_zy _ _ _ _ _ _ _ _ _ _ _ (Lmix (sc_i2 k c p * sc_i2 k c r) (sc_i2 k c p + sc_i2 k c q + sc_i2 k c r)));
      try assumption; [apply sc_v_nonneg; assumption | apply Lmix_nonneg | apply Lmix_sq; nra |].
    rewrite sc_i2_sum, Lmix_sc, sc_vh by assumption. right. lra.
Qed.
Lemma g3_mix_c5 tv te tn ten ten' tnv tnve tnve' v p q r :
  0 < p -> 0 < q -> 0 < r -> 0 <= v ->
  Below c (tnv + (tn - te) + 2 * (v * Lmix (q * r) (p + q + r))) ->
  g3 tv te tn BigR ten tnv tnve v p q r = BigR /\
  g3 (c * tv) (c * te) (c * tn) BigR ten' (c * tnv) tnve' (sc_v k c v) (sc_i2 k c p) (sc_i2 k c q) (sc_i2 k c r) = BigR.
Proof.
  intros Hp Hq Hr Hv [B1 B2]. pose proof (sc_i2_pos c k Hc p Hp). pose proof (sc_i2_pos c k Hc q Hq).
  pose proof (sc_i2_pos c k Hc r Hr). split.
  - apply (g3_mix_xy _ _ _ _ _ _ _ _ _ _ _ (Lmix (q * r) (p + q + r))); try assumption;
      [apply Lmix_nonneg | apply Lmix_sq; nra | left; lra].
  - apply (g3_mix_xy _ _ _ _ _ _ _ _ _ _ _ (Lmix (sc_i2 k c q * sc_i2 k c r) (sc_i2 k c p + sc_i2 k c q + sc_i2 k c r)));
      try assumption; [apply sc_v_nonneg; assumption | apply Lmix_nonneg | apply Lmix_sq; nra |].
    rewrite sc_i2_sum, Lmix_sc, sc_vh by assumption. left. lra.
Qed.
End Node.

Section NodeRel.
Variables (c : R) (k : skind).
Hypothesis Hc : 0 < c.

Lemma uni_trel G G' (z : R) :
  (exists (b : bool) (x : R), G = (if b then BigR else 0 + x) /\ G' = (if b then BigR else 0 + c * x) /\ (b = false -> z <= x)) ->
  trel c G G'.
Proof. intros ([|] & x & -> & -> & _); [right; auto | left; ring]. Qed.
Lemma uni_inf G G' :
  (exists (b : bool) (x : R), G = (if b then BigR else BigR + x) /\ G' = (if b then BigR else BigR + c * x) /\ (b = false -> 0 <= x)) ->
  BigR <= G /\ BigR <= G'.
Proof. intros ([|] & x & -> & -> & Hx); [split; apply Rle_refl|]. specialize (Hx eq_refl). split; [lra | nra]. Qed.

(* the 8-point candidate *)
Lemma t3c_rel t0 tv tv' te te' tn tn' tev tev' ten ten' tnv tnv' tnve tnve' v dz dx dy m12 m12' :
  0 < dz -> 0 < dx -> 0 < dy -> 0 <= v ->
  vrel c tv tv' -> vrel c te te' -> vrel c tn tn' -> vrel c tev tev' -> vrel c ten ten' -> vrel c tnv tnv' ->
  vrel c tnve tnve' ->
  (tv < BigR -> te < BigR -> tn < BigR -> mix_cav c tv te tn tev ten tnv v (1 / dz / dz) (1 / dx / dx) (1 / dy / dy)) ->
  (t0 = BigR -> tv = BigR -> te = BigR -> tn = BigR -> tev = BigR -> ten = BigR -> tnv = BigR -> tnve < BigR ->
   Side c (diag3 tnve v (1 / dz / dz) (1 / dx / dx) (1 / dy / dy))) ->
  (tv < BigR -> te < BigR -> tn < BigR -> m12' = c * m12) ->
  (tv < BigR \/ te < BigR \/ tn < BigR \/ tev < BigR \/ ten < BigR \/ tnv < BigR -> m12 <= BigR /\ m12' <= BigR) ->
  (tv = BigR -> te = BigR -> tn = BigR -> tev = BigR -> ten = BigR -> tnv = BigR -> orel c m12 m12') ->
  let T := t3c tv te tn tev ten tnv tnve v (1 / dz / dz) (1 / dx / dx) (1 / dy / dy) m12 in
  let T' := t3c tv' te' tn' tev' ten' tnv' tnve' (sc_v k c v)
              (1 / sc_h k c dz / sc_h k c dz) (1 / sc_h k c dx / sc_h k c dx) (1 / sc_h k c dy / sc_h k c dy) m12' in
  prel c T T' /\ (t0 = BigR -> tv = BigR -> te = BigR -> tn = BigR -> crel c T T').
Proof.
  intros Hdz Hdx Hdy Hv Rv Re Rn Rev Ren Rnv Rnve NM ND H1 H2 H3 T T'.
  pose proof (inv2_pos dz Hdz) as Hp. pose proof (inv2_pos dx Hdx) as Hq. pose proof (inv2_pos dy Hdy) as Hr.
  set (p := 1 / dz / dz) in *. set (q := 1 / dx / dx) in *. set (r := 1 / dy / dy) in *.
  assert (Hs : 0 < p + q + r) by lra.
  subst T'. rewrite !sc_inv2. fold p q r.
  set (T' := t3c tv' te' tn' tev' ten' tnv' tnve' (sc_v k c v) (sc_i2 k c p) (sc_i2 k c q) (sc_i2 k c r) m12').
  pose proof BigR_pos as HB.
  (* some axial neighbour unreached and some of the six reached: the test fails on both sides *)
  assert (FA : (tv = BigR \/ te = BigR \/ tn = BigR) ->
               (tv < BigR \/ te < BigR \/ tn < BigR \/ tev < BigR \/ ten < BigR \/ tnv < BigR) ->
               T = BigR /\ T' = BigR).
  { intros Hb Hr6. destruct (H2 Hr6) as [M M'].
    destruct (pymax3_ge tv te tn) as (G1 & G2 & G3). destruct (pymax3_ge tv' te' tn') as (G1' & G2' & G3').
    assert (GM : BigR <= pymax3 tv te tn) by (destruct Hb as [E|[E|E]]; lra).
    assert (GM' : BigR <= pymax3 tv' te' tn').
    { destruct Hb as [E|[E|E]];
        [pose proof (vrel_eq _ _ _ Rv E) | pose proof (vrel_eq _ _ _ Re E) | pose proof (vrel_eq _ _ _ Rn E)]; lra. }
    subst T T'. unfold t3c. rewrite !(proj2 (Rltb_false _ _)) by lra. auto. }
  assert (FA' : (tv = BigR \/ te = BigR \/ tn = BigR) ->
                (tv < BigR \/ te < BigR \/ tn < BigR \/ tev < BigR \/ ten < BigR \/ tnv < BigR) ->
                prel c T T' /\ (t0 = BigR -> tv = BigR -> te = BigR -> tn = BigR -> crel c T T')).
  { intros Hb Hr6. destruct (FA Hb Hr6) as [-> ->]. split; [apply prel_inf | intros; apply crel_inf]; apply Rle_refl. }
  destruct (vrel_cases _ _ _ Rv) as [(Lv & Ev & Lv')|[Ev Ev']];
  destruct (vrel_cases _ _ _ Re) as [(Le & Ee & Le')|[Ee Ee']];
  destruct (vrel_cases _ _ _ Rn) as [(Ln & En & Ln')|[En En']];
  try (apply FA'; tauto).
  - (* the three axial neighbours reached *)
    split; [|intros _ E; exfalso; lra].
    specialize (NM Lv Le Ln). destruct NM as (C2 & C4 & C5). specialize (H1 Lv Le Ln).
    subst T T'. unfold t3c. subst tv' te' tn' m12'. rewrite (pymax3_sc c Hc), Rltb_scale by exact Hc.
    destruct (Rltb (pymax3 tv te tn) m12); [|apply prel_inf; apply Rle_refl].
    destruct (vrel_cases _ _ _ Rev) as [(Lev & Eev & Lev')|[Eev Eev']];
    destruct (vrel_cases _ _ _ Ren) as [(Len & Een & Len')|[Een Een']];
    destruct (vrel_cases _ _ _ Rnv) as [(Lnv & Env & Lnv')|[Env Env']].
    + (* face-diagonal neighbours all reached *)
      destruct (vrel_cases _ _ _ Rnve) as [(Lnve & Enve & Lnve')|[Enve Enve']].
      * apply trel_prel, (uni_trel _ _ tnve).
        apply (g3_uniform' c k Hc 0 0 0 0 0 0 tv te tn tev ten tnv tnve); try assumption; subst; ring.
      * apply prel_inf2, uni_inf.
        apply (g3_uniform' c k Hc 0 0 0 0 BigR BigR tv te tn tev ten tnv 0); try assumption; subst; ring.
    + subst ten' tnv tnv'. destruct (g3_mix_c2 c k Hc tv te tn tev tev' ten tnve tnve' v p q r Hp Hq Hr Hv (C2 eq_refl Len)) as [-> ->].
      apply prel_inf; apply Rle_refl.
    + subst tev' ten ten'. destruct (g3_mix_c4 c k Hc tv te tn tev tnv tnv' tnve tnve' v p q r Hp Hq Hr Hv (C4 eq_refl Lev)) as [-> ->].
      apply prel_inf; apply Rle_refl.
    + subst tev' ten ten'. destruct (g3_mix_c4 c k Hc tv te tn tev tnv tnv' tnve tnve' v p q r Hp Hq Hr Hv (C4 eq_refl Lev)) as [-> ->].
      apply prel_inf; apply Rle_refl.
    + subst tnv' tev tev'. destruct (g3_mix_c5 c k Hc tv te tn ten ten' tnv tnve tnve' v p q r Hp Hq Hr Hv (C5 eq_refl Lnv)) as [-> ->].
      apply prel_inf; apply Rle_refl.
    + subst ten' tnv tnv'. destruct (g3_mix_c2 c k Hc tv te tn tev tev' ten tnve tnve' v p q r Hp Hq Hr Hv (C2 eq_refl Len)) as [-> ->].
      apply prel_inf; apply Rle_refl.
    + subst tnv' tev tev'. destruct (g3_mix_c5 c k Hc tv te tn ten ten' tnv tnve tnve' v p q r Hp Hq Hr Hv (C5 eq_refl Lnv)) as [-> ->].
      apply prel_inf; apply Rle_refl.
    + (* face-diagonal neighbours all unreached *)
      destruct (vrel_cases _ _ _ Rnve) as [(Lnve & Enve & Lnve')|[Enve Enve']].
      * apply trel_prel, (uni_trel _ _ tnve).
        apply (g3_uniform' c k Hc 0 0 BigR BigR 0 0 tv te tn 0 0 0 tnve); try assumption; subst; ring.
      * apply prel_inf2, uni_inf.
        apply (g3_uniform' c k Hc 0 0 BigR BigR BigR BigR tv te tn 0 0 0 0); try assumption; subst; ring.
  - (* the three axial neighbours unreached *)
    destruct (vrel_cases _ _ _ Rev) as [(Lev & Eev & Lev')|[Eev Eev']];
    destruct (vrel_cases _ _ _ Ren) as [(Len & Een & Len')|[Een Een']];
    destruct (vrel_cases _ _ _ Rnv) as [(Lnv & Env & Lnv')|[Env Env']];
    try (apply FA'; tauto).
    (* all six unreached: the cube-diagonal update *)
    specialize (H3 Ev Ee En Eev Een Env).
    assert (ET : T = if Rltb BigR m12 then diag3 tnve v p q r else BigR).
    { subst T. unfold t3c. subst tv te tn tev ten tnv. rewrite pymax3_same, g3_diag by assumption. reflexivity. }
    assert (ET' : T' = if Rltb BigR m12 then diag3 tnve' (sc_v k c v) (sc_i2 k c p) (sc_i2 k c q) (sc_i2 k c r) else BigR).
    { subst T'. unfold t3c. subst tv' te' tn' tev' ten' tnv'. rewrite pymax3_same, (orel_test c Hc _ _ H3).
      rewrite g3_diag; [reflexivity | apply sc_i2_pos; assumption .. | apply sc_v_nonneg; assumption]. }
    rewrite ET, ET'. destruct (Rltb BigR m12); [|split; [apply prel_inf | intros; apply crel_inf]; apply Rle_refl].
    destruct (vrel_cases _ _ _ Rnve) as [(Lnve & Enve & Lnve')|[Enve Enve']].
    + subst tnve'. rewrite (diag3_sc c k Hc) by exact Hs. split; [left; reflexivity|].
      intros E0 _ _ _. apply crel_of_side. apply ND; assumption.
    + assert (G : BigR <= diag3 tnve v p q r) by (rewrite <- Enve at 1; apply diag3_ge; assumption).
      assert (G' : BigR <= diag3 tnve' (sc_v k c v) (sc_i2 k c p) (sc_i2 k c q) (sc_i2 k c r)).
      { rewrite <- Enve' at 1. apply diag3_ge; [|apply sc_v_nonneg; assumption].
        pose proof (sc_i2_pos c k Hc p Hp). pose proof (sc_i2_pos c k Hc q Hq). pose proof (sc_i2_pos c k Hc r Hr). lra. }
      split; [apply prel_inf | intros; apply crel_inf]; assumption.
Qed.
End NodeRel.

Lemma pymin3_le (a b d : R) : pymin3 a b d <= a /\ pymin3 a b d <= b /\ pymin3 a b d <= d.
Proof.
  unfold pymin3. pose proof (pymin2_le_l (pymin2 a b) d). pose proof (pymin2_le_r (pymin2 a b) d).
  pose proof (pymin2_le_l a b). pose proof (pymin2_le_r a b). lra.
Qed.

Section NodeThm.
Variables (c : R) (k : skind).
Hypothesis Hc : 0 < c.

(* (1) NODE LEVEL: one 3D node update under a change of the slowness unit or of the length unit writes the scaled
   value, or the placeholder in both runs *)
Theorem node_rel t0 t0' tv tv' te te' tn tn' tev tev' ten ten' tnv tnv' tnve tnve' vz vx vy vzx vzy vxy vref dz dx dy :
  0 < dz -> 0 < dx -> 0 < dy ->
  0 <= vz -> 0 <= vx -> 0 <= vy -> 0 <= vzx -> 0 <= vzy -> 0 <= vxy -> 0 <= vref ->
  vrel c t0 t0' -> vrel c tv tv' -> vrel c te te' -> vrel c tn tn' ->
  vrel c tev tev' -> vrel c ten ten' -> vrel c tnv tnv' -> vrel c tnve tnve' ->
  node_cav3 c t0 tv te tn tev ten tnv tnve vz vx vy vzx vzy vxy vref dz dx dy ->
  vrel c (nv3 t0 tv te tn tev ten tnv tnve vz vx vy vzx vzy vxy vref dz dx dy)
         (nv3 t0' tv' te' tn' tev' ten' tnv' tnve' (sc_v k c vz) (sc_v k c vx) (sc_v k c vy)
              (sc_v k c vzx) (sc_v k c vzy) (sc_v k c vxy) (sc_v k c vref) (sc_h k c dz) (sc_h k c dx) (sc_h k c dy)).
Proof.
  intros Hdz Hdx Hdy Hvz Hvx Hvy Hvzx Hvzy Hvxy Hvr R0 Rv Re Rn Rev Ren Rnv Rnve (N1 & N2 & N3 & Pzx & Pzy & Pxy & NM & ND).
  unfold nv3. cbv zeta.
  destruct (cand1d_rel c k Hc tv tv' dz vz Hdz Hvz Rv N1) as (C1 & C1b & C1o).
  destruct (cand1d_rel c k Hc te te' dx vx Hdx Hvx Re N2) as (C2 & C2b & C2o).
  destruct (cand1d_rel c k Hc tn tn' dy vy Hdy Hvy Rn N3) as (C3 & C3b & C3o).
  destruct (plane_rel c k Hc tv tv' te te' tev tev' vzx dz dx Hdz Hdx Hvzx Rv Re Rev Pzx) as (L1 & L1b).
  destruct (plane_rel c k Hc tv tv' tn tn' tnv tnv' vzy dz dy Hdz Hdy Hvzy Rv Rn Rnv Pzy) as (L2 & L2b).
  destruct (plane_rel c k Hc te te' tn tn' ten ten' vxy dx dy Hdx Hdy Hvxy Re Rn Ren Pxy) as (L3 & L3b).
  set (a1 := tv + dz * vz) in *. set (a2 := te + dx * vx) in *. set (a3 := tn + dy * vy) in *.
  set (a1' := tv' + sc_h k c dz * sc_v k c vz) in *. set (a2' := te' + sc_h k c dx * sc_v k c vx) in *.
  set (a3' := tn' + sc_h k c dy * sc_v k c vy) in *.
  set (p1 := pl tv te tev vzx dz dx (1 / dz / dz) (1 / dx / dx)) in *.
  set (p2 := pl tv tn tnv vzy dz dy (1 / dz / dz) (1 / dy / dy)) in *.
  set (p3 := pl te tn ten vxy dx dy (1 / dx / dx) (1 / dy / dy)) in *.
  set (p1' := pl tv' te' tev' (sc_v k c vzx) (sc_h k c dz) (sc_h k c dx) (1 / sc_h k c dz / sc_h k c dz) (1 / sc_h k c dx / sc_h k c dx)) in *.
  set (p2' := pl tv' tn' tnv' (sc_v k c vzy) (sc_h k c dz) (sc_h k c dy) (1 / sc_h k c dz / sc_h k c dz) (1 / sc_h k c dy / sc_h k c dy)) in *.
  set (p3' := pl te' tn' ten' (sc_v k c vxy) (sc_h k c dx) (sc_h k c dy) (1 / sc_h k c dx / sc_h k c dx) (1 / sc_h k c dy / sc_h k c dy)) in *.
  set (t1 := pymin3 a1 a2 a3). set (t1' := pymin3 a1' a2' a3').
  set (t2 := pymin3 p1 p2 p3). set (t2' := pymin3 p1' p2' p3').
  destruct (pymin3_le a1 a2 a3) as (U1 & U2 & U3). destruct (pymin3_le a1' a2' a3') as (U1' & U2' & U3').
  destruct (pymin3_le p1 p2 p3) as (V1 & V2 & V3). destruct (pymin3_le p1' p2' p3') as (V1' & V2' & V3').
  fold t1 in U1, U2, U3. fold t1' in U1', U2', U3'. fold t2 in V1, V2, V3. fold t2' in V1', V2', V3'.
  pose proof (pymin2_le_l t1 t2) as W1. pose proof (pymin2_le_r t1 t2) as W2.
  pose proof (pymin2_le_l t1' t2') as W1'. pose proof (pymin2_le_r t1' t2') as W2'.
  assert (R1 : crel c t1 t1') by (apply pymin3_crel; assumption).
  (* a reached axial neighbour makes t1d reached *)
  assert (B1 : tv < BigR \/ te < BigR \/ tn < BigR -> brel c t1 t1').
  { intros H. apply (crel_lt _ _ _ R1).
    destruct H as [L|[L|L]]; [destruct (C1b L) as (_ & ? & _) | destruct (C2b L) as (_ & ? & _) | destruct (C3b L) as (_ & ? & _)]; lra. }
  assert (Rm1 : vrel c (pymin2 t0 t1) (pymin2 t0' t1')) by (apply pymin2_vc; assumption).
  assert (Hm : pymin2 t0 t1 = BigR -> t0 = BigR /\ tv = BigR /\ te = BigR /\ tn = BigR).
  { intros Em. pose proof (pymin2_le_l t0 t1) as M0. pose proof (pymin2_le_r t0 t1) as M1.
    assert (Ht1 : BigR <= t1) by lra.
    repeat split.
    - destruct (vrel_cases _ _ _ R0) as [(L & _)|[E _]]; [lra | exact E].
    - destruct (vrel_cases _ _ _ Rv) as [(L & _)|[E _]]; [|exact E]. destruct (B1 (or_introl L)) as (_ & ? & _). lra.
    - destruct (vrel_cases _ _ _ Re) as [(L & _)|[E _]]; [|exact E]. destruct (B1 (or_intror (or_introl L))) as (_ & ? & _). lra.
    - destruct (vrel_cases _ _ _ Rn) as [(L & _)|[E _]]; [|exact E]. destruct (B1 (or_intror (or_intror L))) as (_ & ? & _). lra. }
  (* the 8-point candidate *)
  assert (H1 : tv < BigR -> te < BigR -> tn < BigR -> pymin2 t1' t2' = c * pymin2 t1 t2).
  { intros Lv _ _. exact (proj1 (pymin2_b3 c Hc _ _ _ _ _ _ _ _ (B1 (or_introl Lv)) L1 L2 L3)). }
  assert (H2 : tv < BigR \/ te < BigR \/ tn < BigR \/ tev < BigR \/ ten < BigR \/ tnv < BigR ->
               pymin2 t1 t2 <= BigR /\ pymin2 t1' t2' <= BigR).
  { assert (HA : tv < BigR \/ te < BigR \/ tn < BigR -> pymin2 t1 t2 <= BigR /\ pymin2 t1' t2' <= BigR).
    { intros H. destruct (B1 H) as (_ & ? & ?). lra. }
    assert (HD : forall a a' b b' d P P', vrel c a a' -> vrel c b b' ->
               (a = BigR -> b = BigR -> (d < BigR -> vrel c P P') /\ (d = BigR -> orel c P P')) ->
               (a < BigR -> tv < BigR \/ te < BigR \/ tn < BigR) -> (b < BigR -> tv < BigR \/ te < BigR \/ tn < BigR) ->
               t2 <= P -> t2' <= P' -> d < BigR -> pymin2 t1 t2 <= BigR /\ pymin2 t1' t2' <= BigR).
    { intros a a' b b' d P P' Ra Rb HP Ia Ib LP LP' Ld.
      destruct (vrel_cases _ _ _ Ra) as [(La & _)|[Ea _]]; [apply HA, Ia, La|].
      destruct (vrel_cases _ _ _ Rb) as [(Lb & _)|[Eb _]]; [apply HA, Ib, Lb|].
      destruct (vrel_le _ _ _ (proj1 (HP Ea Eb) Ld)). lra. }
    intros [L|[L|[L|[L|[L|L]]]]]; [apply HA; tauto | apply HA; tauto | apply HA; tauto | | |].
    - apply (HD tv tv' te te' tev p1 p1'); auto; tauto.
    - apply (HD te te' tn tn' ten p3 p3'); auto; tauto.
    - apply (HD tv tv' tn tn' tnv p2 p2'); auto; tauto. }
  assert (H3 : tv = BigR -> te = BigR -> tn = BigR -> tev = BigR -> ten = BigR -> tnv = BigR ->
               orel c (pymin2 t1 t2) (pymin2 t1' t2')).
  { intros Ev Ee En Eev Een Env. apply pymin2_orel; [exact Hc | |]; apply pymin3_orel; auto.
    - exact (proj2 (L1b Ev Ee) Eev).
    - exact (proj2 (L2b Ev En) Env).
    - exact (proj2 (L3b Ee En) Een). }
  destruct (t3c_rel c k Hc t0 tv tv' te te' tn tn' tev tev' ten ten' tnv tnv' tnve tnve' vref dz dx dy
              (pymin2 t1 t2) (pymin2 t1' t2') Hdz Hdx Hdy Hvr Rv Re Rn Rev Ren Rnv Rnve NM ND H1 H2 H3) as (T3p & T3c).
  set (T := t3c tv te tn tev ten tnv tnve vref (1 / dz / dz) (1 / dx / dx) (1 / dy / dy) (pymin2 t1 t2)) in *.
  set (T' := t3c tv' te' tn' tev' ten' tnv' tnve' (sc_v k c vref) (1 / sc_h k c dz / sc_h k c dz) (1 / sc_h k c dx / sc_h k c dx)
                 (1 / sc_h k c dy / sc_h k c dy) (pymin2 t1' t2')) in *.
  (* min (t0, t1d, t2d) *)
  assert (Rm2 : vrel c (pymin2 (pymin2 t0 t1) t2) (pymin2 (pymin2 t0' t1') t2')).
  { destruct (vrel_cases _ _ _ Rm1) as [(Lm & Em & Lm')|[Em Em']].
    - left. apply pymin2_b3; try assumption. repeat split; assumption.
    - destruct (Hm Em) as (E0 & Ev & Ee & En). rewrite Em, Em'. apply pymin2_vc; [exact Hc | apply vrel_Big|].
      assert (HP : forall d d' P P', vrel c d d' -> (d < BigR -> vrel c P P') /\ (d = BigR -> orel c P P') -> crel c P P').
      { intros d d' P P' Rd [HPv HPo]. destruct (vrel_cases _ _ _ Rd) as [(Ld & _)|[Ed _]].
        - destruct (HPv Ld) as [Hb|[E E']]; [left; exact Hb | right; lra].
        - apply orel_crel; auto. }
      apply pymin3_crel; [exact Hc | apply (HP tev tev') | apply (HP tnv tnv') | apply (HP ten ten')]; auto. }
  unfold pymin4, pymin3.
  apply pymin2_vp; [exact Hc | exact Rm2 | intros _; exact T3p|].
  intros Em2. pose proof (pymin2_le_l (pymin2 t0 t1) t2) as M1. destruct (vrel_le _ _ _ Rm1) as [M2 _].
  destruct (Hm ltac:(lra)) as (E0 & Ev & Ee & En). apply T3c; assumption.
Qed.
End NodeThm.

(* ========================================================================================== *)
(* 4. grids                                                                                     *)
(* ========================================================================================== *)
(* entry by entry; stated on the data so that no index range is ever needed (reads out of range return an entry or
   the default 0, which is related to itself) *)
Definition GRel (c : R) (a a' : arr R) : Prop := shape a = shape a' /\ Forall2 (vrel c) (dat a) (dat a').

Lemma Forall2_nth_rel {A} (P : A -> A -> Prop) l l' d d' n : Forall2 P l l' -> P d d' -> P (nth n l d) (nth n l' d').
Proof. intros F Hd. revert n. induction F as [|x y l l' Hxy _ IH]; intros [|n]; cbn; auto. Qed.
Lemma Forall2_upd {A} (P : A -> A -> Prop) l l' n v v' : Forall2 P l l' -> P v v' -> Forall2 P (upd l n v) (upd l' n v').
Proof. intros F Hv. revert n. induction F as [|x y l l' Hxy F IH]; intros [|n]; cbn [upd]; constructor; auto. Qed.

Lemma GRel_get c a a' idx : GRel c a a' -> vrel c (get 0 a idx) (get 0 a' idx).
Proof. intros [Es F]. unfold get. rewrite <- Es. apply Forall2_nth_rel; [exact F | apply vrel_zero]. Qed.
Lemma GRel_set c a a' idx v v' : GRel c a a' -> vrel c v v' -> GRel c (set a idx v) (set a' idx v').
Proof. intros [Es F] Hv. split; [exact Es|]. unfold set. cbn [dat shape]. rewrite <- Es. apply Forall2_upd; assumption. Qed.
Lemma GRel_full c sh : GRel c (full sh BigR) (full sh BigR).
Proof.
  split; [reflexivity|]. unfold full. cbn [dat]. induction (Z.to_nat (prodZ sh)) as [|n IH]; cbn [repeat]; constructor; auto.
  apply vrel_Big.
Qed.

(* the conclusion of the theorems: entry by entry, multiplied by c or Big on both sides ... *)
Definition TRel3 (nz nx ny : Z) (c : R) (tt tt' : arr R) : Prop :=
  wf tt /\ wf tt' /\ shape tt = [nz; nx; ny] /\ shape tt' = [nz; nx; ny] /\
  forall i j k, (0 <= i < nz)%Z -> (0 <= j < nx)%Z -> (0 <= k < ny)%Z -> trel c (get 0 tt [i; j; k]) (get 0 tt' [i; j; k]).
(* ... and reached (< Big) on both sides or on neither *)
Definition SameReach3 (nz nx ny : Z) (a a' : arr R) : Prop :=
  forall i j k, (0 <= i < nz)%Z -> (0 <= j < nx)%Z -> (0 <= k < ny)%Z ->
    (get 0 a [i; j; k] = BigR /\ get 0 a' [i; j; k] = BigR) \/ (get 0 a [i; j; k] < BigR /\ get 0 a' [i; j; k] < BigR).

Lemma GRel_TRel3 nz nx ny c a a' :
  wf a -> wf a' -> shape a = [nz; nx; ny] -> GRel c a a' -> TRel3 nz nx ny c a a' /\ SameReach3 nz nx ny a a'.
Proof.
  intros W W' S G. pose proof G as [Es _]. split.
  - split; [exact W|]. split; [exact W'|]. split; [exact S|]. split; [congruence|].
    intros i j k _ _ _. apply vrel_trel, GRel_get, G.
  - intros i j k _ _ _. destruct (GRel_get c a a' [i; j; k] G) as [(_ & L & L')|E]; [right | left]; auto.
Qed.

Lemma TRel3_SameReach3_spelled_out nz nx ny c tt tt' :
  TRel3 nz nx ny c tt tt' -> SameReach3 nz nx ny tt tt' ->
  forall i j k, (0 <= i < nz)%Z -> (0 <= j < nx)%Z -> (0 <= k < ny)%Z ->
    (get 0 tt' [i; j; k] = c * get 0 tt [i; j; k] /\ get 0 tt [i; j; k] < BigR /\ get 0 tt' [i; j; k] < BigR) \/
    (get 0 tt [i; j; k] = BigR /\ get 0 tt' [i; j; k] = BigR).
Proof.
  intros (_ & _ & _ & _ & Hg) Hr i j k Hi Hj Hk. destruct (Hg i j k Hi Hj Hk) as [E|[E E']]; [|right; auto].
  destruct (Hr i j k Hi Hj Hk) as [[B B']|[L L']]; [right; auto | left; auto].
Qed.

(* ========================================================================================== *)
(* 5. one call of sweep3d = a list of node updates                                              *)
(* ========================================================================================== *)
Lemma fold_left_map {A B C} (f : A -> B -> A) (g : C -> B) l a :
  fold_left f (map g l) a = fold_left (fun a x => f a (g x)) l a.
Proof. revert a. induction l as [|x l IH]; intros a; cbn; auto. Qed.
Lemma fold_left_flat_map {A B C} (f : A -> B -> A) (g : C -> list B) l a :
  fold_left f (flat_map g l) a = fold_left (fun a x => fold_left f (g x) a) l a.
Proof. revert a. induction l as [|x l IH]; intros a; cbn; auto. rewrite fold_left_app. apply IH. Qed.
Lemma fold_left_ext {A B} (f g : A -> B -> A) l a : (forall a x, f a x = g a x) -> fold_left f l a = fold_left g l a.
Proof. intros E. revert a. induction l as [|x l IH]; intros a; cbn; auto. rewrite E. apply IH. Qed.

(* a node update: (uz, ux, uy, i, j, k) = z- / x- / y-direction ascending?, node *)
Definition step3 : Type := (bool * bool * bool * Z * Z * Z)%type.

(* C holds before every element of the fold *)
Fixpoint Along {S A} (f : A -> S -> S) (C : A -> S -> Prop) (l : list A) (s : S) : Prop :=
  match l with
  | [] => True
  | a :: l' => C a s /\ Along f C l' (f a s)
  end.

Lemma fold_rel {S S' A} (Rl : S -> S' -> Prop) (f : A -> S -> S) (f' : A -> S' -> S') (C : A -> S -> Prop) l :
  (forall a s s', Rl s s' -> C a s -> Rl (f a s) (f' a s')) ->
  forall s s', Rl s s' -> Along f C l s ->
  Rl (fold_left (fun t a => f a t) l s) (fold_left (fun t a => f' a t) l s').
Proof.
  intros Hf. induction l as [|a l IH]; intros s s' H0 HA; cbn; [exact H0|].
  destruct HA as [Ca HA]. apply IH; [apply Hf; assumption | exact HA].
Qed.

Section Steps.
Variables (nz nx ny : Z).
Definition pass_steps3 (uz ux uy : bool) : list step3 :=
  flat_map (fun k => flat_map (fun j => map (fun i => (uz, ux, uy, i, j, k)) (dir_range uz nz)) (dir_range ux nx))
           (dir_range uy ny).
(* the node updates of one call of sweep3d, in program order *)
Definition sweep_steps3 : list step3 :=
  pass_steps3 true true true ++ pass_steps3 true false true ++ pass_steps3 true true false ++ pass_steps3 true false false ++
  pass_steps3 false true true ++ pass_steps3 false false true ++ pass_steps3 false true false ++ pass_steps3 false false false.

Variables (slow : arr R) (dargs : R * R * R * R * R * R * R * R * R * R).
Definition do_step3 (s : step3) (tt : arr R) : arr R :=
  let '(uz, ux, uy, i, j, k) := s in
  swT nz nx ny slow dargs (sgnv uz) (sgnv ux) (sgnv uy) (sgnt uz) (sgnt ux) (sgnt uy) i j k tt.
Definition run3 (l : list step3) (tt : arr R) : arr R := fold_left (fun t s => do_step3 s t) l tt.

Lemma run3_app l1 l2 tt : run3 (l1 ++ l2) tt = run3 l2 (run3 l1 tt).
Proof. unfold run3. apply fold_left_app. Qed.

Lemma pass3T_run uz ux uy tt : pass3T nz nx ny slow dargs uz ux uy tt = run3 (pass_steps3 uz ux uy) tt.
Proof.
  unfold pass3T, run3, pass_steps3, for_list. rewrite fold_left_flat_map. apply fold_left_ext. intros a kk.
  rewrite fold_left_flat_map. apply fold_left_ext. intros b jj. rewrite fold_left_map. reflexivity.
Qed.
Lemma sweep3dT_run tt : sweep3dT nz nx ny slow dargs tt = run3 sweep_steps3 tt.
Proof. unfold sweep3dT, sweep_steps3. cbv zeta. rewrite !run3_app, !pass3T_run. reflexivity. Qed.
End Steps.

(* the traveltime part of sweep3d, with the tuple of spacing constants it builds *)
Lemma sweep3d_fst_run (tt : arr R) ttsgn (slow : arr R) (dz dx dy : R) nz nx ny grad :
  fst (sweep3d tt ttsgn slow dz dx dy nz nx ny grad) = run3 nz nx ny slow (dargs3 dz dx dy) (sweep_steps3 nz nx ny) tt.
Proof. rewrite sweep3d_proj_dargs3. apply sweep3dT_run. Qed.

(* the value written by a node update, through the values it reads *)
Lemma node_value_nv3 (tt slow : arr R) (dz dx dy : R) i j k sgnvz sgnvx sgnvy sgntz sgntx sgnty nz nx ny :
  node_value_sp true tt slow dz dx dy i j k sgnvz sgnvx sgnvy sgntz sgntx sgnty nz nx ny
  = nv3 (get 0 tt [i; j; k]) (nb_v tt i j k sgntz) (nb_e tt i j k sgntx) (nb_n tt i j k sgnty)
        (nb_ev tt i j k sgntz sgntx) (nb_en tt i j k sgntx sgnty) (nb_nv tt i j k sgntz sgnty) (nb_nve tt i j k sgntz sgntx sgnty)
        (edge_s_z slow i j k sgnvz nx ny) (edge_s_x slow i j k sgnvx nz ny) (edge_s_y slow i j k sgnvy nz nx)
        (face_s_zx slow i j k sgnvz sgnvx ny) (face_s_zy slow i j k sgnvz sgnvy nx) (face_s_xy slow i j k sgnvx sgnvy nz)
        (cell_s slow i j k sgnvz sgnvx sgnvy) dz dx dy.
Proof.
  unfold node_value_sp, node_value, nv3, c_t3d, c_t2d, c_t1d, t3c, g3. cbv zeta. rewrite ?pl_zy, ?pl_xy, ?pl_zx. reflexivity.
Qed.

(* THE CAVEAT of a node update, on the grid of the REFERENCE run just before the update *)
Definition NodeCav3 (c : R) (nz nx ny : Z) (slow : arr R) (dz dx dy : R) (s : step3) (tt : arr R) : Prop :=
  let '(uz, ux, uy, i, j, k) := s in
  node_cav3 c (get 0 tt [i; j; k]) (nb_v tt i j k (sgnt uz)) (nb_e tt i j k (sgnt ux)) (nb_n tt i j k (sgnt uy))
    (nb_ev tt i j k (sgnt uz) (sgnt ux)) (nb_en tt i j k (sgnt ux) (sgnt uy)) (nb_nv tt i j k (sgnt uz) (sgnt uy))
    (nb_nve tt i j k (sgnt uz) (sgnt ux) (sgnt uy))
    (edge_s_z slow i j k (sgnv uz) nx ny) (edge_s_x slow i j k (sgnv ux) nz ny) (edge_s_y slow i j k (sgnv uy) nz nx)
    (face_s_zx slow i j k (sgnv uz) (sgnv ux) ny) (face_s_zy slow i j k (sgnv uz) (sgnv uy) nx)
    (face_s_xy slow i j k (sgnv ux) (sgnv uy) nz) (cell_s slow i j k (sgnv uz) (sgnv ux) (sgnv uy)) dz dx dy.

Section StepRel.
Variables (c : R) (k : skind).
Hypothesis Hc : 0 < c.

Lemma pymin2_sc_v (x y : R) : pymin2 (sc_v k c x) (sc_v k c y) = sc_v k c (pymin2 x y).
Proof. destruct k; cbn [InitExact.sc_v]; [apply pymin2_scale, Hc | reflexivity]. Qed.
Lemma pymin4_sc_v (x y z w : R) : pymin4 (sc_v k c x) (sc_v k c y) (sc_v k c z) (sc_v k c w) = sc_v k c (pymin4 x y z w).
Proof. unfold pymin4, pymin3. rewrite !pymin2_sc_v. reflexivity. Qed.

Lemma edge_s_z_sc slow i j kk sgnvz nx ny : edge_s_z (sc_slow k c slow) i j kk sgnvz nx ny = sc_v k c (edge_s_z slow i j kk sgnvz nx ny).
Proof. unfold edge_s_z. nr. rewrite !get_sc_slow. apply pymin4_sc_v. Qed.
Lemma edge_s_x_sc slow i j kk sgnvx nz ny : edge_s_x (sc_slow k c slow) i j kk sgnvx nz ny = sc_v k c (edge_s_x slow i j kk sgnvx nz ny).
Proof. unfold edge_s_x. nr. rewrite !get_sc_slow. apply pymin4_sc_v. Qed.
Lemma edge_s_y_sc slow i j kk sgnvy nz nx : edge_s_y (sc_slow k c slow) i j kk sgnvy nz nx = sc_v k c (edge_s_y slow i j kk sgnvy nz nx).
Proof. unfold edge_s_y. nr. rewrite !get_sc_slow. apply pymin4_sc_v. Qed.
Lemma face_s_zx_sc slow i j kk sgnvz sgnvx ny : face_s_zx (sc_slow k c slow) i j kk sgnvz sgnvx ny = sc_v k c (face_s_zx slow i j kk sgnvz sgnvx ny).
Proof. unfold face_s_zx. nr. rewrite !get_sc_slow. apply pymin2_sc_v. Qed.
Lemma face_s_zy_sc slow i j kk sgnvz sgnvy nx : face_s_zy (sc_slow k c slow) i j kk sgnvz sgnvy nx = sc_v k c (face_s_zy slow i j kk sgnvz sgnvy nx).
Proof. unfold face_s_zy. nr. rewrite !get_sc_slow. apply pymin2_sc_v. Qed.
Lemma face_s_xy_sc slow i j kk sgnvx sgnvy nz : face_s_xy (sc_slow k c slow) i j kk sgnvx sgnvy nz = sc_v k c (face_s_xy slow i j kk sgnvx sgnvy nz).
Proof. unfold face_s_xy. nr. rewrite !get_sc_slow. apply pymin2_sc_v. Qed.
Lemma cell_s_sc slow i j kk sgnvz sgnvx sgnvy : cell_s (sc_slow k c slow) i j kk sgnvz sgnvx sgnvy = sc_v k c (cell_s slow i j kk sgnvz sgnvx sgnvy).
Proof. unfold cell_s. nr. apply get_sc_slow. Qed.

(* (1) NODE LEVEL, on the generated code: one call of Fteik3d.sweep (any node, any direction signs, any gradient
   bookkeeping) with the tuple of spacing constants sweep3d builds, under both unit changes *)
Theorem sweep_node_scale nz nx ny (slow : arr R) (dz dx dy : R) (tt tt' : arr R) ttsgn ttsgn'
        i j kk sgnvz sgnvx sgnvy sgntz sgntx sgnty grad grad' :
  0 < dz -> 0 < dx -> 0 < dy -> nonneg slow -> GRel c tt tt' ->
  node_cav3 c (get 0 tt [i; j; kk]) (nb_v tt i j kk sgntz) (nb_e tt i j kk sgntx) (nb_n tt i j kk sgnty)
    (nb_ev tt i j kk sgntz sgntx) (nb_en tt i j kk sgntx sgnty) (nb_nv tt i j kk sgntz sgnty) (nb_nve tt i j kk sgntz sgntx sgnty)
    (edge_s_z slow i j kk sgnvz nx ny) (edge_s_x slow i j kk sgnvx nz ny) (edge_s_y slow i j kk sgnvy nz nx)
    (face_s_zx slow i j kk sgnvz sgnvx ny) (face_s_zy slow i j kk sgnvz sgnvy nx) (face_s_xy slow i j kk sgnvx sgnvy nz)
    (cell_s slow i j kk sgnvz sgnvx sgnvy) dz dx dy ->
  GRel c (fst (sweep tt ttsgn slow (dargs3 dz dx dy) i j kk sgnvz sgnvx sgnvy sgntz sgntx sgnty nz nx ny grad))
         (fst (sweep tt' ttsgn' (sc_slow k c slow) (dargs3 (sc_h k c dz) (sc_h k c dx) (sc_h k c dy))
                     i j kk sgnvz sgnvx sgnvy sgntz sgntx sgnty nz nx ny grad')).
Proof.
  intros Hdz Hdx Hdy Hs G HN.
  rewrite !sweep_dargs3_eq. apply GRel_set; [exact G|]. rewrite !node_value_nv3.
  rewrite edge_s_z_sc, edge_s_x_sc, edge_s_y_sc, face_s_zx_sc, face_s_zy_sc, face_s_xy_sc, cell_s_sc.
  apply node_rel; try assumption.
  - unfold edge_s_z. nr. apply pymin4_get_nonneg, Hs.
  - unfold edge_s_x. nr. apply pymin4_get_nonneg, Hs.
  - unfold edge_s_y. nr. apply pymin4_get_nonneg, Hs.
  - unfold face_s_zx. nr. apply pymin2_ge; apply get_nonneg, Hs.
  - unfold face_s_zy. nr. apply pymin2_ge; apply get_nonneg, Hs.
  - unfold face_s_xy. nr. apply pymin2_ge; apply get_nonneg, Hs.
  - unfold cell_s. nr. apply get_nonneg, Hs.
  - apply GRel_get, G.
  - apply (GRel_get c tt tt'), G.
  - apply (GRel_get c tt tt'), G.
  - apply (GRel_get c tt tt'), G.
  - apply (GRel_get c tt tt'), G.
  - apply (GRel_get c tt tt'), G.
  - apply (GRel_get c tt tt'), G.
  - apply (GRel_get c tt tt'), G.
Qed.

(* the tuple of spacing constants of the scaled run: dz2i etc. / c^2, pairwise products / c^4, dsum / c^2 *)
Lemma dargs3_sc (dz dx dy : R) :
  dargs3 (sc_h k c dz) (sc_h k c dx) (sc_h k c dy)
  = (sc_h k c dz, sc_h k c dx, sc_h k c dy, sc_i2 k c (1 / dz / dz), sc_i2 k c (1 / dx / dx), sc_i2 k c (1 / dy / dy),
     sc_i2 k c (1 / dz / dz) * sc_i2 k c (1 / dx / dx), sc_i2 k c (1 / dz / dz) * sc_i2 k c (1 / dy / dy),
     sc_i2 k c (1 / dx / dx) * sc_i2 k c (1 / dy / dy), sc_i2 k c (1 / dz / dz + 1 / dx / dx + 1 / dy / dy)).
Proof. rewrite dargs3_R, !sc_inv2, (sc_i2_sum c k Hc). reflexivity. Qed.
Lemma dargs3_length (dz dx dy : R) :
  0 < c ->
  dargs3 (c * dz) (c * dx) (c * dy)
  = (c * dz, c * dx, c * dy, 1 / dz / dz / (c * c), 1 / dx / dx / (c * c), 1 / dy / dy / (c * c),
     1 / dz / dz * (1 / dx / dx) / (c * c * c * c), 1 / dz / dz * (1 / dy / dy) / (c * c * c * c),
     1 / dx / dx * (1 / dy / dy) / (c * c * c * c), (1 / dz / dz + 1 / dx / dx + 1 / dy / dy) / (c * c)).
Proof.
  intros Hc'. rewrite dargs3_R.
  replace (1 / (c * dz) / (c * dz)) with (1 / dz / dz / (c * c)) by (unfold Rdiv; rewrite !Rinv_mult; ring).
  replace (1 / (c * dx) / (c * dx)) with (1 / dx / dx / (c * c)) by (unfold Rdiv; rewrite !Rinv_mult; ring).
  replace (1 / (c * dy) / (c * dy)) with (1 / dy / dy / (c * c)) by (unfold Rdiv; rewrite !Rinv_mult; ring).
  set (p := 1 / dz / dz). set (q := 1 / dx / dx). set (r := 1 / dy / dy).
  replace (p / (c * c) * (q / (c * c))) with (p * q / (c * c * c * c)) by (field; lra).
  replace (p / (c * c) * (r / (c * c))) with (p * r / (c * c * c * c)) by (field; lra).
  replace (q / (c * c) * (r / (c * c))) with (q * r / (c * c * c * c)) by (field; lra).
  replace (p / (c * c) + q / (c * c) + r / (c * c)) with ((p + q + r) / (c * c)) by (field; lra).
  reflexivity.
Qed.

Theorem do_step3_rel nz nx ny slow dz dx dy s tt tt' :
  0 < dz -> 0 < dx -> 0 < dy -> nonneg slow -> GRel c tt tt' -> NodeCav3 c nz nx ny slow dz dx dy s tt ->
  GRel c (do_step3 nz nx ny slow (dargs3 dz dx dy) s tt)
         (do_step3 nz nx ny (sc_slow k c slow) (dargs3 (sc_h k c dz) (sc_h k c dx) (sc_h k c dy)) s tt').
Proof.
  intros Hdz Hdx Hdy Hs G HN. destruct s as [[[[[uz ux] uy] i] j] kk]. unfold do_step3, swT, NodeCav3 in *.
  apply sweep_node_scale; assumption.
Qed.

(* (2) PASS LEVEL: a whole list of node updates (a pass, one sweep3d, several) *)
Theorem run3_rel nz nx ny slow dz dx dy l tt tt' :
  0 < dz -> 0 < dx -> 0 < dy -> nonneg slow -> GRel c tt tt' ->
  Along (do_step3 nz nx ny slow (dargs3 dz dx dy)) (NodeCav3 c nz nx ny slow dz dx dy) l tt ->
  GRel c (run3 nz nx ny slow (dargs3 dz dx dy) l tt)
         (run3 nz nx ny (sc_slow k c slow) (dargs3 (sc_h k c dz) (sc_h k c dx) (sc_h k c dy)) l tt').
Proof.
  intros Hdz Hdx Hdy Hs G HA. unfold run3.
  apply (fold_rel (GRel c) _ _ (NodeCav3 c nz nx ny slow dz dx dy)); [|exact G | exact HA].
  intros a s s' Gs Ca. apply do_step3_rel; assumption.
Qed.
End StepRel.

(* ========================================================================================== *)
(* 6. the solver                                                                                *)
(* ========================================================================================== *)
(* all node updates of the sweeping phase, in program order: nsweep times the updates of one sweep3d *)
Definition all_steps3 (nz nx ny nsweep : Z) : list step3 := concat (repeat (sweep_steps3 nz nx ny) (Z.to_nat nsweep)).

Lemma iter_run3 nz nx ny slow dargs l n tt :
  Nat.iter n (run3 nz nx ny slow dargs l) tt = run3 nz nx ny slow dargs (concat (repeat l n)) tt.
Proof.
  revert tt. induction n as [|n IH]; intros tt; [reflexivity|].
  rewrite Solve2dProofs.iter_succ_r. cbn [repeat concat]. rewrite run3_app. apply IH.
Qed.

(* one pass of the solver = the node updates of one sweep3d *)
Lemma ptt3_run (slow : arr R) (dz dx dy : R) grad t :
  ptt3 slow dz dx dy grad t
  = run3 (dim slow 0 + 1) (dim slow 1 + 1) (dim slow 2 + 1) slow (dargs3 dz dx dy)
         (sweep_steps3 (dim slow 0 + 1) (dim slow 1 + 1) (dim slow 2 + 1)) t.
Proof. unfold ptt3, pass3d. cbn [fst snd]. apply sweep3d_fst_run. Qed.

Lemma Rleb_0_scale c x : 0 < c -> Rleb 0 (c * x) = Rleb 0 x.
Proof. intros Hc. rewrite <- (Rleb_scale c 0 x Hc). f_equal. ring. Qed.

Section Solver.
Variables (c : R) (k : skind).
Hypothesis Hc : 0 < c.
Variables (slow : arr R) (dz dx dy zsrc xsrc ysrc : R).
Notation slow' := (sc_slow k c slow).
Notation dz' := (sc_h k c dz).
Notation dx' := (sc_h k c dx).
Notation dy' := (sc_h k c dy).
Notation zsrc' := (sc_h k c zsrc).
Notation xsrc' := (sc_h k c xsrc).
Notation ysrc' := (sc_h k c ysrc).
Notation NZ := (dim slow 0 + 1)%Z.
Notation NX := (dim slow 1 + 1)%Z.
Notation NY := (dim slow 2 + 1)%Z.
Notation zsa := (zsa3 dz zsrc).
Notation xsa := (xsa3 dx xsrc).
Notation ysa := (ysa3 dy ysrc).
Notation zsi := (zsi3 slow dz zsrc).
Notation xsi := (xsi3 slow dx xsrc).
Notation ysi := (ysi3 slow dy ysrc).
Notation vzero := (vzero3 slow dz dx dy zsrc xsrc ysrc).
Notation tt0 := (tt0_3d slow dz dx dy zsrc xsrc ysrc).
Notation tt0' := (tt0_3d slow' dz' dx' dy' zsrc' xsrc' ysrc').

Lemma dim_sc n : dim slow' n = dim slow n.
Proof. destruct k; reflexivity. Qed.

(* the source position in grid units, hence the source cell, does not depend on the units *)
Lemma zsa_sc : zsa3 dz' zsrc' = zsa.
Proof. unfold zsa3. nr. destruct k; cbn [InitExact.sc_h]; [reflexivity | apply div_scale; lra]. Qed.
Lemma xsa_sc : xsa3 dx' xsrc' = xsa.
Proof. unfold xsa3. nr. destruct k; cbn [InitExact.sc_h]; [reflexivity | apply div_scale; lra]. Qed.
Lemma ysa_sc : ysa3 dy' ysrc' = ysa.
Proof. unfold ysa3. nr. destruct k; cbn [InitExact.sc_h]; [reflexivity | apply div_scale; lra]. Qed.
Lemma zsi_sc : zsi3 slow' dz' zsrc' = zsi.
Proof. unfold zsi3. rewrite zsa_sc, dim_sc. reflexivity. Qed.
Lemma xsi_sc : xsi3 slow' dx' xsrc' = xsi.
Proof. unfold xsi3. rewrite xsa_sc, dim_sc. reflexivity. Qed.
Lemma ysi_sc : ysi3 slow' dy' ysrc' = ysi.
Proof. unfold ysi3. rewrite ysa_sc, dim_sc. reflexivity. Qed.
Lemma vzero_sc : vzero3 slow' dz' dx' dy' zsrc' xsrc' ysrc' = sc_v k c vzero.
Proof. unfold vzero3. rewrite zsi_sc, xsi_sc, ysi_sc. apply get_sc_slow. Qed.

Lemma inside3d_sc : inside3d slow' dz' dx' dy' zsrc' xsrc' ysrc' = inside3d slow dz dx dy zsrc xsrc ysrc.
Proof.
  unfold inside3d. cbv zeta. rewrite !dim_sc. destruct k; cbn [InitExact.sc_h]; [reflexivity|]. nr.
  rewrite !Rleb_0_scale, !Rmult_assoc, !Rleb_scale by exact Hc. reflexivity.
Qed.

Lemma t_ana_sc i j kk za xa ya v : t_ana i j kk dz' dx' dy' za xa ya (sc_v k c v) = c * t_ana i j kk dz dx dy za xa ya v.
Proof.
  destruct k; cbn [InitExact.sc_h InitExact.sc_v];
    [apply Operators3R.t_ana_scale_slowness | apply Operators3R.t_ana_scale_length; lra].
Qed.

(* ---------- the state before the first sweep ---------- *)
(* THE CAVEAT of the initialisation, on the REFERENCE run only: the analytical times written at the eight corners of
   the source cell are below Big, also after multiplication by c *)
Definition InitCav : Prop :=
  forall i j kk, (i = zsi \/ i = (zsi + 1)%Z) -> (j = xsi \/ j = (xsi + 1)%Z) -> (kk = ysi \/ kk = (ysi + 1)%Z) ->
    Below c (t_ana i j kk dz dx dy zsa xsa ysa vzero).

Lemma corner3_rel t t' i j kk :
  GRel c t t' -> Below c (t_ana i j kk dz dx dy zsa xsa ysa vzero) ->
  GRel c (corner3 slow dz dx dy zsrc xsrc ysrc t i j kk) (corner3 slow' dz' dx' dy' zsrc' xsrc' ysrc' t' i j kk).
Proof.
  intros G [B1 B2]. unfold corner3. apply GRel_set; [exact G|]. rewrite !t_anad_fst.
  rewrite zsa_sc, xsa_sc, ysa_sc, vzero_sc, t_ana_sc. left. repeat split; assumption.
Qed.

(* the initial state scales exactly *)
Lemma init_rel3 : InitCav -> GRel c tt0 tt0'.
Proof.
  intros HI. unfold tt0_3d. cbv zeta. rewrite zsi_sc, xsi_sc, ysi_sc, !dim_sc.
  repeat (apply corner3_rel; [|apply HI; tauto]). apply GRel_full.
Qed.

(* ---------- the sweeping phase ---------- *)
(* THE CAVEAT of the sweeping phase, on the REFERENCE run only: `NodeCav3` holds before every node update, in the grid
   the reference run has reached at that point (`Along` follows the run update by update) *)
Definition SweepCav3 (nsweep : Z) : Prop :=
  Along (do_step3 NZ NX NY slow (dargs3 dz dx dy)) (NodeCav3 c NZ NX NY slow dz dx dy) (all_steps3 NZ NX NY nsweep) tt0.

Hypotheses (Hdz : 0 < dz) (Hdx : 0 < dx) (Hdy : 0 < dy).

Lemma sweeps_rel3 grad nsweep t t' :
  nonneg slow -> GRel c t t' ->
  Along (do_step3 NZ NX NY slow (dargs3 dz dx dy)) (NodeCav3 c NZ NX NY slow dz dx dy) (all_steps3 NZ NX NY nsweep) t ->
  GRel c (Nat.iter (Z.to_nat nsweep) (ptt3 slow dz dx dy grad) t)
         (Nat.iter (Z.to_nat nsweep) (ptt3 slow' dz' dx' dy' grad) t').
Proof.
  intros Hs G HA.
  rewrite (Solve2dProofs.iter_ext _ _ (ptt3_run slow dz dx dy grad)), (Solve2dProofs.iter_ext _ _ (ptt3_run slow' dz' dx' dy' grad)).
  rewrite !iter_run3, !dim_sc. apply run3_rel; assumption.
Qed.

Theorem solver_rel3 nsweep grad tt g vz :
  (0 <= dim slow 0)%Z -> (0 <= dim slow 1)%Z -> (0 <= dim slow 2)%Z -> nonneg slow ->
  fteik3d slow dz dx dy zsrc xsrc ysrc nsweep grad = Ok (tt, g, vz) ->
  InitCav -> SweepCav3 nsweep ->
  exists tt' g', fteik3d slow' dz' dx' dy' zsrc' xsrc' ysrc' nsweep grad = Ok (tt', g', sc_v k c vz) /\
                 TRel3 NZ NX NY c tt tt' /\ SameReach3 NZ NX NY tt tt'.
Proof.
  intros Hnz Hnx Hny Hs E HI HS. apply fteik3d_ok_inv in E as (Hin & -> & ->).
  destruct (fteik3d_char slow' dz' dx' dy' zsrc' xsrc' ysrc' nsweep grad) as [G' E']. rewrite inside3d_sc, Hin in E'.
  rewrite (Solve2dProofs.iter_fst_pair _ _ (pass3d_fst slow' dz' dx' dy' grad)) in E'. rewrite vzero_sc in E'.
  eexists. exists G'. split; [exact E'|].
  assert (O0 : okT NZ NX NY tt0) by (apply fteik3d_init_okT; assumption).
  assert (O0' : okT NZ NX NY tt0').
  { pose proof (fteik3d_init_okT slow' dz' dx' dy' zsrc' xsrc' ysrc') as O. rewrite !dim_sc in O. apply O; assumption. }
  pose proof (iter_ptt3_okT slow dz dx dy grad _ (Z.to_nat nsweep) O0) as [W S].
  pose proof (iter_ptt3_okT slow' dz' dx' dy' grad) as O'. rewrite !dim_sc in O'.
  destruct (O' _ (Z.to_nat nsweep) O0') as [W' S'].
  apply GRel_TRel3; try assumption.
  apply sweeps_rel3; [exact Hs | apply init_rel3, HI | exact HS].
Qed.
End Solver.

(* ========================================================================================== *)
(* 7. C05 for fteik3d                                                                           *)
(* ========================================================================================== *)
(* (3) the raise behaviour does not depend on the units: no caveat, no hypothesis on the model *)
Theorem fteik3d_scale_raises (c : R) (k : skind) (slow : arr R) (dz dx dy zsrc xsrc ysrc : R) nsweep grad :
  0 < c ->
  (fteik3d (sc_slow k c slow) (sc_h k c dz) (sc_h k c dx) (sc_h k c dy) (sc_h k c zsrc) (sc_h k c xsrc) (sc_h k c ysrc) nsweep grad
   = Raise ValueError
   <-> fteik3d slow dz dx dy zsrc xsrc ysrc nsweep grad = Raise ValueError).
Proof.
  intros Hc.
  destruct (fteik3d_char (sc_slow k c slow) (sc_h k c dz) (sc_h k c dx) (sc_h k c dy) (sc_h k c zsrc) (sc_h k c xsrc)
              (sc_h k c ysrc) nsweep grad) as [G' E'].
  destruct (fteik3d_char slow dz dx dy zsrc xsrc ysrc nsweep grad) as [G E].
  rewrite E', E, (inside3d_sc c k Hc). destruct (inside3d slow dz dx dy zsrc xsrc ysrc); split; intros H; (discriminate H || reflexivity).
Qed.

Corollary fteik3d_scale_slowness_raises (c : R) (slow : arr R) (dz dx dy zsrc xsrc ysrc : R) nsweep grad :
  0 < c ->
  (fteik3d (smap c slow) dz dx dy zsrc xsrc ysrc nsweep grad = Raise ValueError
   <-> fteik3d slow dz dx dy zsrc xsrc ysrc nsweep grad = Raise ValueError).
Proof. exact (fteik3d_scale_raises c Slowness slow dz dx dy zsrc xsrc ysrc nsweep grad). Qed.
Corollary fteik3d_scale_length_raises (c : R) (slow : arr R) (dz dx dy zsrc xsrc ysrc : R) nsweep grad :
  0 < c ->
  (fteik3d slow (c * dz) (c * dx) (c * dy) (c * zsrc) (c * xsrc) (c * ysrc) nsweep grad = Raise ValueError
   <-> fteik3d slow dz dx dy zsrc xsrc ysrc nsweep grad = Raise ValueError).
Proof. exact (fteik3d_scale_raises c Length slow dz dx dy zsrc xsrc ysrc nsweep grad). Qed.

(* the same, for every outcome: Ok in one unit system iff Ok in the other *)
Corollary fteik3d_scale_ok_iff (c : R) (k : skind) (slow : arr R) (dz dx dy zsrc xsrc ysrc : R) nsweep grad :
  0 < c ->
  ((exists r, fteik3d (sc_slow k c slow) (sc_h k c dz) (sc_h k c dx) (sc_h k c dy) (sc_h k c zsrc) (sc_h k c xsrc)
                      (sc_h k c ysrc) nsweep grad = Ok r)
   <-> (exists r, fteik3d slow dz dx dy zsrc xsrc ysrc nsweep grad = Ok r)).
Proof.
  intros Hc.
  destruct (fteik3d_char (sc_slow k c slow) (sc_h k c dz) (sc_h k c dx) (sc_h k c dy) (sc_h k c zsrc) (sc_h k c xsrc)
              (sc_h k c ysrc) nsweep grad) as [G' E'].
  destruct (fteik3d_char slow dz dx dy zsrc xsrc ysrc nsweep grad) as [G E].
  rewrite E', E, (inside3d_sc c k Hc). destruct (inside3d slow dz dx dy zsrc xsrc ysrc); split; intros [r H];
    first [discriminate H | eexists; reflexivity].
Qed.

(* (2) slowness unit: every slowness multiplied by c > 0 *)
Theorem fteik3d_scale_slowness (c : R) (slow : arr R) (dz dx dy zsrc xsrc ysrc : R) nsweep grad (tt g : arr R) (vz : R) :
  0 < c -> 0 < dz -> 0 < dx -> 0 < dy -> (0 <= dim slow 0)%Z -> (0 <= dim slow 1)%Z -> (0 <= dim slow 2)%Z -> nonneg slow ->
  fteik3d slow dz dx dy zsrc xsrc ysrc nsweep grad = Ok (tt, g, vz) ->
  forall (Hinit : InitCav c slow dz dx dy zsrc xsrc ysrc)
         (Hsweep : SweepCav3 c slow dz dx dy zsrc xsrc ysrc nsweep),
  exists tt' g', fteik3d (smap c slow) dz dx dy zsrc xsrc ysrc nsweep grad = Ok (tt', g', c * vz) /\
                 TRel3 (dim slow 0 + 1) (dim slow 1 + 1) (dim slow 2 + 1) c tt tt' /\
                 SameReach3 (dim slow 0 + 1) (dim slow 1 + 1) (dim slow 2 + 1) tt tt'.
Proof.
  intros Hc Hdz Hdx Hdy Hnz Hnx Hny Hs E Hinit Hsweep.
  exact (solver_rel3 c Slowness Hc slow dz dx dy zsrc xsrc ysrc Hdz Hdx Hdy nsweep grad tt g vz Hnz Hnx Hny Hs E Hinit Hsweep).
Qed.

(* (2) length unit: the three spacings and the three source coordinates multiplied by c > 0 *)
Theorem fteik3d_scale_length (c : R) (slow : arr R) (dz dx dy zsrc xsrc ysrc : R) nsweep grad (tt g : arr R) (vz : R) :
  0 < c -> 0 < dz -> 0 < dx -> 0 < dy -> (0 <= dim slow 0)%Z -> (0 <= dim slow 1)%Z -> (0 <= dim slow 2)%Z -> nonneg slow ->
  fteik3d slow dz dx dy zsrc xsrc ysrc nsweep grad = Ok (tt, g, vz) ->
  forall (Hinit : InitCav c slow dz dx dy zsrc xsrc ysrc)
         (Hsweep : SweepCav3 c slow dz dx dy zsrc xsrc ysrc nsweep),
  exists tt' g', fteik3d slow (c * dz) (c * dx) (c * dy) (c * zsrc) (c * xsrc) (c * ysrc) nsweep grad = Ok (tt', g', vz) /\
                 TRel3 (dim slow 0 + 1) (dim slow 1 + 1) (dim slow 2 + 1) c tt tt' /\
                 SameReach3 (dim slow 0 + 1) (dim slow 1 + 1) (dim slow 2 + 1) tt tt'.
Proof.
  intros Hc Hdz Hdx Hdy Hnz Hnx Hny Hs E Hinit Hsweep.
  exact (solver_rel3 c Length Hc slow dz dx dy zsrc xsrc ysrc Hdz Hdx Hdy nsweep grad tt g vz Hnz Hnx Hny Hs E Hinit Hsweep).
Qed.

(* ========================================================================================== *)
(* 8. a sufficient, purely numerical form of the caveat                                         *)
(* ========================================================================================== *)
Lemma Below_mono c q q' : 0 < c -> q <= q' -> Below c q' -> Below c q.
Proof. intros Hc Hq [B1 B2]. split; [lra | nra]. Qed.
(* c >= 1: only the scaled value matters;  c <= 1: only the reference value matters (for non-negative quantities) *)
Lemma Below_ge1 c q : 1 <= c -> 0 <= q -> c * q < BigR -> Below c q.
Proof. intros Hc Hq H. split; [nra | exact H]. Qed.
Lemma Below_le1 c q : 0 < c <= 1 -> 0 <= q -> q < BigR -> Below c q.
Proof. intros Hc Hq H. split; [exact H | nra]. Qed.

(* every entry is the placeholder or lies in [0, M] *)
Definition Bnd (M : R) (a : arr R) : Prop := Forall (fun x => x = BigR \/ 0 <= x <= M) (dat a).
(* every slowness lies in [0, S] *)
Definition SlowBnd (S : R) (slow : arr R) : Prop := Forall (fun x => 0 <= x <= S) (dat slow).

Lemma Forall_upd {A} (P : A -> Prop) l n v : Forall P l -> P v -> Forall P (upd l n v).
Proof. intros F Hv. revert n. induction F as [|x l Hx F IH]; intros [|n]; cbn [upd]; constructor; auto. Qed.

Lemma Bnd_get M a idx : 0 <= M -> Bnd M a -> get 0 a idx = BigR \/ 0 <= get 0 a idx <= M.
Proof.
  intros HM Ha. unfold get. destruct (nth_in_or_default (Z.to_nat (flat (shape a) idx)) (dat a) 0) as [Hin | ->].
  - unfold Bnd in Ha. rewrite Forall_forall in Ha. apply Ha, Hin.
  - right. lra.
Qed.
Lemma Bnd_set M a idx v : Bnd M a -> (v = BigR \/ 0 <= v <= M) -> Bnd M (set a idx v).
Proof. intros Ha Hv. unfold Bnd, set. cbn [dat]. apply Forall_upd; assumption. Qed.
Lemma Bnd_mono M M' a : M <= M' -> Bnd M a -> Bnd M' a.
Proof. intros HM Ha. unfold Bnd in *. eapply Forall_impl; [|exact Ha]. cbv beta. intros x [E|B]; [left; exact E | right; lra]. Qed.
Lemma Bnd_full M sh : Bnd M (full sh BigR).
Proof. unfold Bnd, full. cbn [dat]. rewrite Forall_forall. intros x Hx. apply repeat_spec in Hx. left. exact Hx. Qed.
Lemma SlowBnd_get S slow idx : 0 <= S -> SlowBnd S slow -> 0 <= get 0 slow idx <= S.
Proof.
  intros HS Hs. unfold get. destruct (nth_in_or_default (Z.to_nat (flat (shape slow) idx)) (dat slow) 0) as [Hin | ->].
  - unfold SlowBnd in Hs. rewrite Forall_forall in Hs. apply Hs, Hin.
  - lra.
Qed.
Lemma SlowBnd_nonneg S slow : SlowBnd S slow -> nonneg slow.
Proof. intros Hs. unfold SlowBnd, nonneg in *. eapply Forall_impl; [|exact Hs]. cbv beta. intros x B; lra. Qed.

Lemma pymin2_bnd (lo hi a b : R) : lo <= a <= hi -> lo <= b <= hi -> lo <= pymin2 a b <= hi.
Proof. intros Ha Hb. rewrite pymin2_R. destruct (Rltb b a); assumption. Qed.
Lemma pymin4_bnd (lo hi a b d e : R) : lo <= a <= hi -> lo <= b <= hi -> lo <= d <= hi -> lo <= e <= hi -> lo <= pymin4 a b d e <= hi.
Proof. intros. unfold pymin4, pymin3. repeat apply pymin2_bnd; assumption. Qed.
Lemma pymin2_pick (a b : R) : pymin2 a b = a \/ pymin2 a b = b.
Proof. rewrite pymin2_R. destruct (Rltb b a); auto. Qed.
Lemma pymin3_pick (a b d : R) : pymin3 a b d = a \/ pymin3 a b d = b \/ pymin3 a b d = d.
Proof. unfold pymin3. destruct (pymin2_pick (pymin2 a b) d) as [->| ->]; [destruct (pymin2_pick a b); auto | auto]. Qed.

(* the face-diagonal update adds at most 2 h vref *)
Lemma four_point_diag_le x tev v da db h :
  0 < da <= h -> 0 < db -> 0 <= v -> four_point x x tev v (1 / da / da) (1 / db / db) <= tev + 2 * h * v.
Proof.
  intros [Hda Hh] Hdb Hv. rewrite four_point_shift2. unfold OperatorsR.four_point. cbv zeta.
  set (a := 1 / da / da). set (b := 1 / db / db).
  assert (Ha : 0 < a) by (apply inv2_pos, Hda). assert (Hb : 0 < b) by (apply inv2_pos, Hdb).
  assert (Ea : a * da * da = 1) by (unfold a; field; lra).
  set (s := sqrt (a + b)). assert (Hs : 0 < s) by (apply sqrt_lt_R0; lra).
  assert (Ess : s * s = a + b) by (apply sqrt_sqrt; lra).
  match goal with |- (_ + sqrt ?r) / _ <= _ => replace r with ((2 * v * s) * (2 * v * s)) by (rewrite <- Ess; ring) end.
  rewrite sqrt_square by (apply Rmult_le_pos; [lra | lra]).
  assert (H1 : 1 <= h * s).
  { assert (Hq : 1 <= (h * s) * (h * s)).
    { replace (h * s * (h * s)) with (h * h * (s * s)) by ring. rewrite Ess.
      assert (da * da <= h * h) by nra. assert (a * (da * da) <= a * (h * h)) by (apply Rmult_le_compat_l; lra). nra. }
    assert (0 < h * s) by (apply Rmult_lt_0_compat; lra).
    destruct (Rle_dec 1 (h * s)) as [Y|N]; [exact Y|]. exfalso. nra. }
  apply (Rmult_le_reg_r (a + b)); [lra|]. unfold Rdiv. rewrite Rmult_assoc, Rinv_l by lra.
  assert (K : 0 <= v * s * (h * s - 1)) by (apply Rmult_le_pos; [apply Rmult_le_pos|]; lra).
  assert (K2 : v * s * (h * s) = v * h * (a + b)) by (rewrite <- Ess; ring).
  set (A := a + b) in *. replace ((tev - 0 + 0) * a + (tev + 0 - 0) * b) with (tev * A) by (unfold A; ring). lra.
Qed.

(* the cube-diagonal update adds at most 3 h vref *)
Lemma diag3_le z v dz dx dy h :
  0 < dz <= h -> 0 < dx -> 0 < dy -> 0 <= v -> diag3 z v (1 / dz / dz) (1 / dx / dx) (1 / dy / dy) <= z + 3 * h * v.
Proof.
  intros [Hdz Hh] Hdx Hdy Hv. unfold diag3.
  pose proof (inv2_pos dz Hdz) as Hp. pose proof (inv2_pos dx Hdx) as Hq. pose proof (inv2_pos dy Hdy) as Hr.
  set (p := 1 / dz / dz) in *. set (q := 1 / dx / dx) in *. set (r := 1 / dy / dy) in *.
  assert (Ep : p * dz * dz = 1) by (unfold p; field; lra).
  set (s := sqrt (p + q + r)). assert (Hs : 0 < s) by (apply sqrt_lt_R0; lra).
  assert (Ess : s * s = p + q + r) by (apply sqrt_sqrt; lra).
  assert (H1 : 1 <= h * s).
  { assert (Hq2 : 1 <= (h * s) * (h * s)).
    { replace (h * s * (h * s)) with (h * h * (s * s)) by ring. rewrite Ess.
      assert (dz * dz <= h * h) by nra. assert (p * (dz * dz) <= p * (h * h)) by (apply Rmult_le_compat_l; lra). nra. }
    assert (0 < h * s) by (apply Rmult_lt_0_compat; lra).
    destruct (Rle_dec 1 (h * s)) as [Y|N]; [exact Y|]. exfalso. nra. }
  assert (K : 3 * v / s <= 3 * h * v).
  { apply (Rmult_le_reg_r s); [exact Hs|]. unfold Rdiv. rewrite Rmult_assoc, Rinv_l by lra.
    assert (0 <= v * (h * s - 1)) by (apply Rmult_le_pos; lra). lra. }
  lra.
Qed.

(* a plane candidate whose two axial neighbours are unreached: the placeholder, or the face-diagonal update *)
Lemma pl_BB d v da db h :
  0 < da <= h -> 0 < db -> 0 <= v ->
  let P := pl BigR BigR d v da db (1 / da / da) (1 / db / db) in
  (P = BigR \/ P <= d + 2 * h * v) /\ (0 < v -> P <= d + 2 * h * v).
Proof.
  intros Hda Hdb Hv P. subst P. unfold pl.
  destruct (Rltb BigR (BigR + db * v)) eqn:E1; destruct (Rltb BigR (BigR + da * v)) eqn:E2; cbn [andb]; rb.
  - pose proof (four_point_diag_le BigR d v da db h Hda Hdb Hv). split; [right|intros _]; assumption.
  - split; [left; reflexivity|]. intros Hp. exfalso. assert (0 < da * v) by (apply Rmult_lt_0_compat; lra). lra.
  - split; [left; reflexivity|]. intros Hp. exfalso. assert (0 < db * v) by (apply Rmult_lt_0_compat; lra). lra.
  - split; [left; reflexivity|]. intros Hp. exfalso. assert (0 < db * v) by (apply Rmult_lt_0_compat; lra). lra.
Qed.

Lemma pl_nonneg a b d v da db : 0 < da -> 0 < db -> 0 <= v -> 0 <= d -> 0 <= pl a b d v da db (1 / da / da) (1 / db / db).
Proof.
  intros Hda Hdb Hv Hd. pose proof BigR_pos.
  destruct (t2d_zx_ge a b d v da db Hda Hdb Hv) as [E|G]; rewrite pl_zx in *; [rewrite E; lra | lra].
Qed.
Lemma t3c_nonneg tv te tn tev ten tnv tnve v p q r m12 : 0 <= tnve -> 0 <= t3c tv te tn tev ten tnv tnve v p q r m12.
Proof.
  intros Hd. pose proof BigR_pos. unfold t3c, g3, guard3. nr.
  destruct (Rltb _ m12); [|lra]. destruct (Rleb _ _); [|lra].
  match goal with |- 0 <= (if Rltb ?x ?y then _ else _) => destruct (Rltb x y) eqn:E end; rb; lra.
Qed.
Lemma pymin4_le (a b d e : R) : pymin4 a b d e <= a /\ pymin4 a b d e <= b /\ pymin4 a b d e <= d /\ pymin4 a b d e <= e.
Proof.
  unfold pymin4. destruct (pymin3_le a b d) as (? & ? & ?).
  pose proof (pymin2_le_l (pymin3 a b d) e). pose proof (pymin2_le_r (pymin3 a b d) e). lra.
Qed.

Section Bounded.
Variables (c M h S : R).
Hypothesis Hc : 0 < c.
Hypothesis HM : 0 <= M.
Hypothesis HS : 0 <= S.
Hypothesis HB : M + 3 * h * S < BigR.
Variables (dz dx dy : R).
Hypotheses (Hdz : 0 < dz <= h) (Hdx : 0 < dx <= h) (Hdy : 0 < dy <= h).

Let InB (x : R) : Prop := x = BigR \/ 0 <= x <= M.

(* the value written by a node update is the placeholder or at most M + 3 h S *)
Lemma nv3_bnd t0 tv te tn tev ten tnv tnve vz vx vy vzx vzy vxy vref :
  InB t0 -> InB tv -> InB te -> InB tn -> InB tev -> InB ten -> InB tnv -> InB tnve ->
  0 <= vz <= S -> 0 <= vx <= S -> 0 <= vy <= S -> 0 <= vzx <= S -> 0 <= vzy <= S -> 0 <= vxy <= S -> 0 <= vref <= S ->
  let v := nv3 t0 tv te tn tev ten tnv tnve vz vx vy vzx vzy vxy vref dz dx dy in
  v = BigR \/ 0 <= v <= M + 3 * h * S.
Proof.
  intros B0 Bv Be Bn Bev Ben Bnv Bnve Hvz Hvx Hvy Hvzx Hvzy Hvxy Hvr v. pose proof BigR_pos as HBp.
  assert (QhS : 0 <= h * S) by (apply Rmult_le_pos; lra).
  assert (Q : forall d w, 0 < d <= h -> 0 <= w <= S -> 0 <= d * w <= h * S)
    by (intros d w Hd Hw; split; [apply Rmult_le_pos; lra | apply Rmult_le_compat; lra]).
  assert (P : forall t, InB t -> 0 <= t <= BigR) by (intros t [E|B]; lra).
  pose proof (P _ B0) as P0. pose proof (P _ Bv) as Pv. pose proof (P _ Be) as Pe. pose proof (P _ Bn) as Pn.
  pose proof (P _ Bev) as Pev. pose proof (P _ Ben) as Pen. pose proof (P _ Bnv) as Pnv. pose proof (P _ Bnve) as Pnve.
  pose proof (Q dz vz Hdz Hvz) as Qz. pose proof (Q dx vx Hdx Hvx) as Qx. pose proof (Q dy vy Hdy Hvy) as Qy.
  unfold nv3 in v. cbv zeta in v.
  set (a1 := tv + dz * vz) in *. set (a2 := te + dx * vx) in *. set (a3 := tn + dy * vy) in *.
  set (p1 := pl tv te tev vzx dz dx (1 / dz / dz) (1 / dx / dx)) in *.
  set (p2 := pl tv tn tnv vzy dz dy (1 / dz / dz) (1 / dy / dy)) in *.
  set (p3 := pl te tn ten vxy dx dy (1 / dx / dx) (1 / dy / dy)) in *.
  set (t1 := pymin3 a1 a2 a3) in *. set (t2 := pymin3 p1 p2 p3) in *.
  set (T := t3c tv te tn tev ten tnv tnve vref (1 / dz / dz) (1 / dx / dx) (1 / dy / dy) (pymin2 t1 t2)) in *.
  destruct (pymin3_le a1 a2 a3) as (U1 & U2 & U3). fold t1 in U1, U2, U3.
  destruct (pymin3_le p1 p2 p3) as (V1 & V2 & V3). fold t2 in V1, V2, V3.
  destruct (pymin4_le t0 t1 t2 T) as (X0 & X1 & X2 & X3). fold v in X0, X1, X2, X3.
  assert (Pos : 0 <= v).
  { unfold v. apply pymin4_ge; [lra | | |].
    - unfold t1. apply pymin3_ge; unfold a1, a2, a3; lra.
    - unfold t2. apply pymin3_ge; apply pl_nonneg; lra.
    - apply t3c_nonneg; lra. }
  destruct B0 as [E0|B0]; [|right; lra].
  destruct Bv as [Ebv|Bv]; [|right; unfold a1 in *; lra].
  destruct Be as [Ebe|Be]; [|right; unfold a2 in *; lra].
  destruct Bn as [Ebn|Bn]; [|right; unfold a3 in *; lra].
  destruct (Rlt_dec v BigR) as [Lv|Nv]; [|left; lra]. right. split; [exact Pos|].
  assert (Ht1 : BigR <= t1) by (unfold t1; apply pymin3_ge; unfold a1, a2, a3; lra).
  (* the plane candidates *)
  assert (D1 : p1 = BigR \/ p1 <= tev + 2 * h * vzx)
    by (unfold p1; rewrite Ebv, Ebe; apply (pl_BB tev vzx dz dx h Hdz ltac:(lra) ltac:(lra))).
  assert (D2 : p2 = BigR \/ p2 <= tnv + 2 * h * vzy)
    by (unfold p2; rewrite Ebv, Ebn; apply (pl_BB tnv vzy dz dy h Hdz ltac:(lra) ltac:(lra))).
  assert (D3 : p3 = BigR \/ p3 <= ten + 2 * h * vxy)
    by (unfold p3; rewrite Ebe, Ebn; apply (pl_BB ten vxy dx dy h Hdx ltac:(lra) ltac:(lra))).
  assert (G1 : BigR <= tev -> BigR <= p1) by (intros G; apply pl_ge; lra).
  assert (G2 : BigR <= tnv -> BigR <= p2) by (intros G; apply pl_ge; lra).
  assert (G3 : BigR <= ten -> BigR <= p3) by (intros G; apply pl_ge; lra).
  assert (K1 : h * vzx <= h * S) by (apply Rmult_le_compat_l; lra).
  assert (K2 : h * vzy <= h * S) by (apply Rmult_le_compat_l; lra).
  assert (K3 : h * vxy <= h * S) by (apply Rmult_le_compat_l; lra).
  assert (K4 : h * vref <= h * S) by (apply Rmult_le_compat_l; lra).
  assert (A1 : p1 < BigR -> p1 <= M + 2 * h * S) by (intros L; destruct D1 as [D|D]; [lra|]; destruct Bev; lra).
  assert (A2 : p2 < BigR -> p2 <= M + 2 * h * S) by (intros L; destruct D2 as [D|D]; [lra|]; destruct Bnv; lra).
  assert (A3 : p3 < BigR -> p3 <= M + 2 * h * S) by (intros L; destruct D3 as [D|D]; [lra|]; destruct Ben; lra).
  assert (AT : t2 < BigR -> t2 <= M + 2 * h * S).
  { intros L. destruct (pymin3_pick p1 p2 p3) as [E|[E|E]]; fold t2 in E; rewrite E in *; auto. }
  (* the 8-point candidate *)
  assert (BT : T < BigR -> T <= M + 3 * h * S).
  { intros L. unfold T, t3c in L |- *. rewrite Ebv, Ebe, Ebn, pymax3_same in *.
    destruct (Rltb BigR (pymin2 t1 t2)) eqn:ET; [|lra]. rb.
    pose proof (pymin2_le_r t1 t2) as W2.
    assert (F1 : tev = BigR) by (destruct Bev as [E|B]; [exact E|]; exfalso; destruct D1; lra).
    assert (F2 : tnv = BigR) by (destruct Bnv as [E|B]; [exact E|]; exfalso; destruct D2; lra).
    assert (F3 : ten = BigR) by (destruct Ben as [E|B]; [exact E|]; exfalso; destruct D3; lra).
    rewrite F1, F2, F3 in *. rewrite g3_diag in * by (try apply inv2_pos; lra).
    pose proof (diag3_le tnve vref dz dx dy h Hdz ltac:(lra) ltac:(lra) ltac:(lra)) as DL.
    pose proof (diag3_ge tnve vref (1 / dz / dz) (1 / dx / dx) (1 / dy / dy)) as DG.
    pose proof (inv2_pos dz ltac:(lra)). pose proof (inv2_pos dx ltac:(lra)). pose proof (inv2_pos dy ltac:(lra)).
    destruct Bnve as [E|B]; [exfalso; lra | lra]. }
  assert (Ev : v = pymin2 (pymin2 (pymin2 t0 t1) t2) T) by reflexivity.
  assert (Em : pymin2 t0 t1 = BigR).
  { rewrite pymin2_R. destruct (Rltb t1 t0) eqn:E; rb; [exfalso; lra | exact E0]. }
  rewrite Em in Ev. rewrite Ev.
  destruct (pymin2_pick (pymin2 BigR t2) T) as [E|E]; rewrite E; rewrite <- Ev in E.
  - destruct (pymin2_pick BigR t2) as [E2|E2]; rewrite E2 in *; [exfalso; lra|].
    assert (t2 <= M + 2 * h * S) by (apply AT; lra). lra.
  - apply BT. lra.
Qed.
End Bounded.

(* the three lengths of the mixed-pattern clauses are at most Lm *)
Definition LmixBnd (dz dx dy Lm : R) : Prop :=
  let p := 1 / dz / dz in let q := 1 / dx / dx in let r := 1 / dy / dy in
  Lmix (p * q) (p + q + r) <= Lm /\ Lmix (p * r) (p + q + r) <= Lm /\ Lmix (q * r) (p + q + r) <= Lm.

Section BoundedCav.
Variables (c M h S Lm : R).
Hypothesis Hc : 0 < c.
Hypothesis HM : 0 <= M.
Hypothesis HS : 0 <= S.
Variables (dz dx dy : R).
Hypotheses (Hdz : 0 < dz <= h) (Hdx : 0 < dx <= h) (Hdy : 0 < dy <= h).
Hypothesis HL : LmixBnd dz dx dy Lm.
Hypothesis HBel : Below c (2 * M + 3 * h * S + 2 * S * Lm).

Let InB (x : R) : Prop := x = BigR \/ 0 <= x <= M.

(* ... and the caveat of the update holds *)
Lemma node_cav3_of_bnd t0 tv te tn tev ten tnv tnve vz vx vy vzx vzy vxy vref :
  InB tv -> InB te -> InB tn -> InB tev -> InB ten -> InB tnv -> InB tnve ->
  0 <= vz <= S -> 0 <= vx <= S -> 0 <= vy <= S -> 0 <= vzx <= S -> 0 <= vzy <= S -> 0 <= vxy <= S -> 0 <= vref <= S ->
  node_cav3 c t0 tv te tn tev ten tnv tnve vz vx vy vzx vzy vxy vref dz dx dy.
Proof.
  intros Bv Be Bn Bev Ben Bnv Bnve Hvz Hvx Hvy Hvzx Hvzy Hvxy Hvr. pose proof BigR_pos as HBp.
  destruct HL as (L1 & L2 & L3). cbv zeta in L1, L2, L3.
  assert (QhS : 0 <= h * S) by (apply Rmult_le_pos; lra).
  assert (HLm : 0 <= Lm) by (pose proof (Lmix_nonneg (1 / dz / dz * (1 / dx / dx)) (1 / dz / dz + 1 / dx / dx + 1 / dy / dy)); lra).
  assert (QSL : 0 <= S * Lm) by (apply Rmult_le_pos; lra).
  assert (Q : forall d w, 0 < d <= h -> 0 <= w <= S -> 0 <= d * w <= h * S)
    by (intros d w Hd Hw; split; [apply Rmult_le_pos; lra | apply Rmult_le_compat; lra]).
  assert (QL : forall w l, 0 <= w <= S -> 0 <= l <= Lm -> 0 <= w * l <= S * Lm)
    by (intros w l Hw Hl; split; [apply Rmult_le_pos; lra | apply Rmult_le_compat; lra]).
  assert (F : forall t, InB t -> t < BigR -> 0 <= t <= M) by (intros t [E|B] L; lra).
  assert (P : forall t, InB t -> 0 <= t) by (intros t [E|B]; lra).
  assert (BM : forall x, x <= 2 * M + 3 * h * S + 2 * S * Lm -> Below c x)
    by (intros x Hx; apply (Below_mono c _ _ Hc Hx HBel)).
  assert (PC : forall a b d v da db, InB a -> InB b -> InB d -> 0 < da <= h -> 0 < db <= h -> 0 <= v <= S ->
               plane_cav c a b d v da db).
  { intros a b d v da db Ba Bb Bd Hda Hdb Hv. pose proof (Q da v Hda Hv). pose proof (Q db v Hdb Hv). split; [|split].
    - intros _ L _. apply BM. pose proof (F b Bb L). lra.
    - intros _ L _. apply BM. pose proof (F a Ba L). lra.
    - intros Ea Eb L Hvp. apply BM. subst a b.
      destruct (pl_BB d v da db h Hda ltac:(lra) ltac:(lra)) as [_ D]. specialize (D Hvp). cbv zeta in D.
      pose proof (F d Bd L). assert (h * v <= h * S) by (apply Rmult_le_compat_l; lra). lra. }
  unfold node_cav3. cbv zeta. repeat match goal with |- _ /\ _ => split end.
  - intros L. apply BM. pose proof (Q dz vz Hdz Hvz). pose proof (F tv Bv L). lra.
  - intros L. apply BM. pose proof (Q dx vx Hdx Hvx). pose proof (F te Be L). lra.
  - intros L. apply BM. pose proof (Q dy vy Hdy Hvy). pose proof (F tn Bn L). lra.
  - apply PC; assumption.
  - apply PC; assumption.
  - apply PC; assumption.
  - intros Lv Le Ln. pose proof (F tv Bv Lv). pose proof (F te Be Le). pose proof (F tn Bn Ln).
    unfold mix_cav. split; [|split].
    + intros _ L. apply BM. pose proof (F ten Ben L). pose proof (QL vref _ Hvr (conj (Lmix_nonneg _ _) L1)). lra.
    + intros _ L. apply BM. pose proof (F tev Bev L). pose proof (QL vref _ Hvr (conj (Lmix_nonneg _ _) L2)). lra.
    + intros _ L. apply BM. pose proof (F tnv Bnv L). pose proof (QL vref _ Hvr (conj (Lmix_nonneg _ _) L3)). lra.
  - intros _ _ _ _ _ _ _ L. left. apply BM.
    pose proof (diag3_le tnve vref dz dx dy h Hdz ltac:(lra) ltac:(lra) ltac:(lra)).
    assert (h * vref <= h * S) by (apply Rmult_le_compat_l; lra). pose proof (F tnve Bnve L). lra.
Qed.

Variables (nz nx ny : Z) (slow : arr R).
Hypothesis Hslow : SlowBnd S slow.

Lemma slow_reads_bnd i j kk a b d :
  0 <= edge_s_z slow i j kk a nx ny <= S /\ 0 <= edge_s_x slow i j kk b nz ny <= S /\ 0 <= edge_s_y slow i j kk d nz nx <= S /\
  0 <= face_s_zx slow i j kk a b ny <= S /\ 0 <= face_s_zy slow i j kk a d nx <= S /\ 0 <= face_s_xy slow i j kk b d nz <= S /\
  0 <= cell_s slow i j kk a b d <= S.
Proof.
  assert (G : forall idx, 0 <= get 0 slow idx <= S) by (intros idx; apply SlowBnd_get; assumption).
  unfold edge_s_z, edge_s_x, edge_s_y, face_s_zx, face_s_zy, face_s_xy, cell_s. nr.
  refine (conj _ (conj _ (conj _ (conj _ (conj _ (conj _ _))))));
    first [apply pymin4_bnd; apply G | apply pymin2_bnd; apply G | apply G].
Qed.

Lemma do_step3_bnd s tt :
  M + 3 * h * S < BigR -> Bnd M tt -> Bnd (M + 3 * h * S) (do_step3 nz nx ny slow (dargs3 dz dx dy) s tt).
Proof.
  intros HB Ht. destruct s as [[[[[uz ux] uy] i] j] kk]. unfold do_step3, swT. rewrite sweep_dargs3_eq, node_value_nv3.
  assert (QhS : 0 <= h * S) by (apply Rmult_le_pos; lra).
  apply Bnd_set; [apply (Bnd_mono M); [lra | exact Ht]|].
  destruct (slow_reads_bnd i j kk (sgnv uz) (sgnv ux) (sgnv uy)) as (E1 & E2 & E3 & E4 & E5 & E6 & E7).
  apply (nv3_bnd M h S); try assumption; (apply Bnd_get; [lra | assumption]).
Qed.

Lemma NodeCav3_of_bnd s tt : Bnd M tt -> NodeCav3 c nz nx ny slow dz dx dy s tt.
Proof.
  intros Ht. destruct s as [[[[[uz ux] uy] i] j] kk]. unfold NodeCav3.
  destruct (slow_reads_bnd i j kk (sgnv uz) (sgnv ux) (sgnv uy)) as (E1 & E2 & E3 & E4 & E5 & E6 & E7).
  apply node_cav3_of_bnd; try assumption; (apply Bnd_get; [lra | assumption]).
Qed.
End BoundedCav.

(* along a whole list of updates the bound grows by 3 h S per update *)
Lemma Along_of_bnd3 c h S Lm dz dx dy nz nx ny slow l :
  0 < c -> 0 <= S -> 0 < dz <= h -> 0 < dx <= h -> 0 < dy <= h -> LmixBnd dz dx dy Lm -> 0 <= Lm -> SlowBnd S slow ->
  forall M tt, 0 <= M -> Bnd M tt -> Below c (2 * (M + INR (length l) * (3 * h * S)) + 2 * S * Lm) ->
  Along (do_step3 nz nx ny slow (dargs3 dz dx dy)) (NodeCav3 c nz nx ny slow dz dx dy) l tt.
Proof.
  intros Hc HS Hdz Hdx Hdy HL HLm Hs. assert (QhS : 0 <= 3 * h * S) by (assert (0 <= h * S) by (apply Rmult_le_pos; lra); lra).
  assert (QSL : 0 <= S * Lm) by (apply Rmult_le_pos; lra).
  induction l as [|s l IH]; intros M tt HM Ht HB; [exact I|].
  cbn [length] in HB. rewrite S_INR in HB. pose proof (pos_INR (length l)) as Hl.
  assert (Hl' : 0 <= INR (length l) * (3 * h * S)) by (apply Rmult_le_pos; assumption).
  split.
  - apply (NodeCav3_of_bnd c M h S Lm Hc HM HS dz dx dy Hdz Hdx Hdy HL); [|exact Hs | exact Ht].
    apply (Below_mono c _ _ Hc) with (2 := HB). lra.
  - apply (IH (M + 3 * h * S)); [lra | |].
    + apply (do_step3_bnd M h S HM HS dz dx dy Hdz Hdx Hdy nz nx ny slow Hs s tt); [|exact Ht]. destruct HB. lra.
    + apply (Below_mono c _ _ Hc) with (2 := HB). lra.
Qed.

(* ========================================================================================== *)
(* 9. the initial grid: Big, or an analytical time of a corner of the source cell, at most 3 h S   *)
(* ========================================================================================== *)
Lemma sqrt_sum3_le (a b d A B D : R) : Rabs a <= A -> Rabs b <= B -> Rabs d <= D -> sqrt (a ^ 2 + b ^ 2 + d ^ 2) <= A + B + D.
Proof.
  intros Ha Hb Hd. pose proof (Rabs_pos a). pose proof (Rabs_pos b). pose proof (Rabs_pos d).
  rewrite <- (sqrt_square (A + B + D)) by lra. apply sqrt_le_1_alt.
  assert (a ^ 2 = Rabs a * Rabs a) by (rewrite <- Rabs_mult; rewrite Rabs_pos_eq; [ring | nra]).
  assert (b ^ 2 = Rabs b * Rabs b) by (rewrite <- Rabs_mult; rewrite Rabs_pos_eq; [ring | nra]).
  assert (d ^ 2 = Rabs d * Rabs d) by (rewrite <- Rabs_mult; rewrite Rabs_pos_eq; [ring | nra]).
  nra.
Qed.

Section InitBound.
Variables (slow : arr R) (dz dx dy zsrc xsrc ysrc h S : R).
Hypotheses (Hdz : 0 < dz <= h) (Hdx : 0 < dx <= h) (Hdy : 0 < dy <= h).
Hypotheses (Hnz : (1 <= dim slow 0)%Z) (Hnx : (1 <= dim slow 1)%Z) (Hny : (1 <= dim slow 2)%Z).
Hypothesis (Hin : inside3d slow dz dx dy zsrc xsrc ysrc = true).
Hypotheses (HS : 0 <= S) (Hslow : SlowBnd S slow).

Lemma corner_time_bnd i j kk :
  (i = zsi3 slow dz zsrc \/ i = (zsi3 slow dz zsrc + 1)%Z) -> (j = xsi3 slow dx xsrc \/ j = (xsi3 slow dx xsrc + 1)%Z) ->
  (kk = ysi3 slow dy ysrc \/ kk = (ysi3 slow dy ysrc + 1)%Z) ->
  0 <= t_ana i j kk dz dx dy (zsa3 dz zsrc) (xsa3 dx xsrc) (ysa3 dy ysrc) (vzero3 slow dz dx dy zsrc xsrc ysrc) <= 3 * h * S.
Proof.
  intros Hi Hj Hk.
  destruct (source_cell3 slow dz dx dy zsrc xsrc ysrc ltac:(lra) ltac:(lra) ltac:(lra) Hnz Hnx Hny Hin)
    as ((_ & Bz) & (_ & Bx) & (_ & By)).
  assert (Hv : 0 <= vzero3 slow dz dx dy zsrc xsrc ysrc <= S) by (unfold vzero3; apply SlowBnd_get; assumption).
  rewrite t_ana_exact. unfold zsa3, xsa3, ysa3. nr.
  set (v := vzero3 slow dz dx dy zsrc xsrc ysrc) in *.
  assert (Ci : Rabs (IZR i - zsrc / dz) <= 1) by (apply Rabs_le; destruct Hi as [-> | ->]; rewrite ?plus_IZR; lra).
  assert (Cj : Rabs (IZR j - xsrc / dx) <= 1) by (apply Rabs_le; destruct Hj as [-> | ->]; rewrite ?plus_IZR; lra).
  assert (Ck : Rabs (IZR kk - ysrc / dy) <= 1) by (apply Rabs_le; destruct Hk as [-> | ->]; rewrite ?plus_IZR; lra).
  set (sq := sqrt _).
  assert (Hsq : 0 <= sq <= dz + dx + dy).
  { split; [apply sqrt_pos|]. unfold sq. apply sqrt_sum3_le.
    - rewrite Rabs_mult, (Rabs_pos_eq dz) by lra. match goal with |- dz * ?x <= _ => assert (dz * x <= dz * 1) by (apply Rmult_le_compat_l; lra) end. lra.
    - rewrite Rabs_mult, (Rabs_pos_eq dx) by lra. match goal with |- dx * ?x <= _ => assert (dx * x <= dx * 1) by (apply Rmult_le_compat_l; lra) end. lra.
    - rewrite Rabs_mult, (Rabs_pos_eq dy) by lra. match goal with |- dy * ?x <= _ => assert (dy * x <= dy * 1) by (apply Rmult_le_compat_l; lra) end. lra. }
  split; [apply Rmult_le_pos; lra|].
  assert (v * sq <= S * (3 * h)) by (apply Rmult_le_compat; lra). lra.
Qed.

Lemma init_Bnd3 : Bnd (3 * h * S) (tt0_3d slow dz dx dy zsrc xsrc ysrc).
Proof.
  unfold tt0_3d, corner3. cbv zeta.
  repeat (apply Bnd_set; [|right; rewrite t_anad_fst; apply corner_time_bnd; tauto]). apply Bnd_full.
Qed.

Lemma InitCav_of_bound c : 0 < c -> Below c (3 * h * S) -> InitCav c slow dz dx dy zsrc xsrc ysrc.
Proof.
  intros Hc HB i j kk Hi Hj Hk. apply (Below_mono c _ _ Hc) with (2 := HB). apply corner_time_bnd; assumption.
Qed.
End InitBound.

(* ========================================================================================== *)
(* 10. c >= 1: the whole caveat in numbers                                                       *)
(* ========================================================================================== *)
(* C05 for fteik3d with a caveat made of numbers only: every slowness in [0, S]; dz, dx, dy <= h; the three lengths
   Lmix <= Lm (cubic cells of side h: Lmix = sqrt 3 h); with N = number of node updates of the sweeping phase and
       X = 2 (N + 1) (3 h S) + 2 S Lm:      X < Big  and  c X < Big      (for c >= 1: c X < Big). *)
Theorem solver_rel3_below (c : R) (k : skind) (slow : arr R) (dz dx dy zsrc xsrc ysrc : R) nsweep grad tt g vz h S Lm :
  0 < c -> 0 < dz <= h -> 0 < dx <= h -> 0 < dy <= h ->
  (1 <= dim slow 0)%Z -> (1 <= dim slow 1)%Z -> (1 <= dim slow 2)%Z ->
  0 <= S -> SlowBnd S slow -> LmixBnd dz dx dy Lm ->
  Below c (2 * (3 * h * S + INR (length (all_steps3 (dim slow 0 + 1) (dim slow 1 + 1) (dim slow 2 + 1) nsweep)) * (3 * h * S))
           + 2 * S * Lm) ->
  fteik3d slow dz dx dy zsrc xsrc ysrc nsweep grad = Ok (tt, g, vz) ->
  exists tt' g', fteik3d (sc_slow k c slow) (sc_h k c dz) (sc_h k c dx) (sc_h k c dy) (sc_h k c zsrc) (sc_h k c xsrc)
                         (sc_h k c ysrc) nsweep grad = Ok (tt', g', sc_v k c vz) /\
                 TRel3 (dim slow 0 + 1) (dim slow 1 + 1) (dim slow 2 + 1) c tt tt' /\
                 SameReach3 (dim slow 0 + 1) (dim slow 1 + 1) (dim slow 2 + 1) tt tt'.
Proof.
  intros Hc Hdz Hdx Hdy Hnz Hnx Hny HS Hs HL Hlt E.
  pose proof (fteik3d_ok_inv slow dz dx dy zsrc xsrc ysrc nsweep grad tt g vz E) as (Hin & _).
  assert (QhS : 0 <= 3 * h * S) by (assert (0 <= h * S) by (apply Rmult_le_pos; lra); lra).
  assert (HLm : 0 <= Lm).
  { destruct HL as (L1 & _). cbv zeta in L1. pose proof (Lmix_nonneg (1 / dz / dz * (1 / dx / dx)) (1 / dz / dz + 1 / dx / dx + 1 / dy / dy)). lra. }
  assert (QSL : 0 <= S * Lm) by (apply Rmult_le_pos; lra).
  set (N := INR (length (all_steps3 (dim slow 0 + 1) (dim slow 1 + 1) (dim slow 2 + 1) nsweep))) in *.
  assert (HN : 0 <= N * (3 * h * S)) by (apply Rmult_le_pos; [apply pos_INR | exact QhS]).
  apply (solver_rel3 c k Hc slow dz dx dy zsrc xsrc ysrc ltac:(lra) ltac:(lra) ltac:(lra) nsweep grad tt g vz); try lia;
    [exact (SlowBnd_nonneg S slow Hs) | exact E | |].
  - apply (InitCav_of_bound slow dz dx dy zsrc xsrc ysrc h S Hdz Hdx Hdy Hnz Hnx Hny Hin HS Hs c Hc).
    apply (Below_mono c _ _ Hc) with (2 := Hlt). lra.
  - unfold SweepCav3.
    apply (Along_of_bnd3 c h S Lm dz dx dy _ _ _ slow _ Hc HS Hdz Hdx Hdy HL HLm Hs (3 * h * S)); [exact QhS | |].
    + apply (init_Bnd3 slow dz dx dy zsrc xsrc ysrc h S); assumption.
    + fold N. exact Hlt.
Qed.

Theorem solver_rel3_bounded (c : R) (k : skind) (slow : arr R) (dz dx dy zsrc xsrc ysrc : R) nsweep grad tt g vz h S Lm :
  1 <= c -> 0 < dz <= h -> 0 < dx <= h -> 0 < dy <= h ->
  (1 <= dim slow 0)%Z -> (1 <= dim slow 1)%Z -> (1 <= dim slow 2)%Z ->
  0 <= S -> SlowBnd S slow -> LmixBnd dz dx dy Lm ->
  c * (2 * (3 * h * S + INR (length (all_steps3 (dim slow 0 + 1) (dim slow 1 + 1) (dim slow 2 + 1) nsweep)) * (3 * h * S))
       + 2 * S * Lm) < BigR ->
  fteik3d slow dz dx dy zsrc xsrc ysrc nsweep grad = Ok (tt, g, vz) ->
  exists tt' g', fteik3d (sc_slow k c slow) (sc_h k c dz) (sc_h k c dx) (sc_h k c dy) (sc_h k c zsrc) (sc_h k c xsrc)
                         (sc_h k c ysrc) nsweep grad = Ok (tt', g', sc_v k c vz) /\
                 TRel3 (dim slow 0 + 1) (dim slow 1 + 1) (dim slow 2 + 1) c tt tt' /\
                 SameReach3 (dim slow 0 + 1) (dim slow 1 + 1) (dim slow 2 + 1) tt tt'.
Proof.
  intros Hc1 Hdz Hdx Hdy Hnz Hnx Hny HS Hs HL Hlt E.
  apply (solver_rel3_below c k slow dz dx dy zsrc xsrc ysrc nsweep grad tt g vz h S Lm); try assumption; [lra|].
  assert (QhS : 0 <= 3 * h * S) by (assert (0 <= h * S) by (apply Rmult_le_pos; lra); lra).
  assert (HLm : 0 <= Lm).
  { destruct HL as (L1 & _). cbv zeta in L1. pose proof (Lmix_nonneg (1 / dz / dz * (1 / dx / dx)) (1 / dz / dz + 1 / dx / dx + 1 / dy / dy)). lra. }
  assert (QSL : 0 <= S * Lm) by (apply Rmult_le_pos; lra).
  apply Below_ge1; [exact Hc1 | | exact Hlt].
  assert (0 <= INR (length (all_steps3 (dim slow 0 + 1) (dim slow 1 + 1) (dim slow 2 + 1) nsweep)) * (3 * h * S))
    by (apply Rmult_le_pos; [apply pos_INR | exact QhS]). lra.
Qed.

Theorem fteik3d_scale_slowness_bounded (c : R) (slow : arr R) (dz dx dy zsrc xsrc ysrc : R) nsweep grad (tt g : arr R) (vz h S Lm : R) :
  1 <= c -> 0 < dz <= h -> 0 < dx <= h -> 0 < dy <= h ->
  (1 <= dim slow 0)%Z -> (1 <= dim slow 1)%Z -> (1 <= dim slow 2)%Z ->
  0 <= S -> SlowBnd S slow -> LmixBnd dz dx dy Lm ->
  c * (2 * (3 * h * S + INR (length (all_steps3 (dim slow 0 + 1) (dim slow 1 + 1) (dim slow 2 + 1) nsweep)) * (3 * h * S))
       + 2 * S * Lm) < BigR ->
  fteik3d slow dz dx dy zsrc xsrc ysrc nsweep grad = Ok (tt, g, vz) ->
  exists tt' g', fteik3d (smap c slow) dz dx dy zsrc xsrc ysrc nsweep grad = Ok (tt', g', c * vz) /\
                 TRel3 (dim slow 0 + 1) (dim slow 1 + 1) (dim slow 2 + 1) c tt tt' /\
                 SameReach3 (dim slow 0 + 1) (dim slow 1 + 1) (dim slow 2 + 1) tt tt'.
Proof. exact (solver_rel3_bounded c Slowness slow dz dx dy zsrc xsrc ysrc nsweep grad tt g vz h S Lm). Qed.

Theorem fteik3d_scale_length_bounded (c : R) (slow : arr R) (dz dx dy zsrc xsrc ysrc : R) nsweep grad (tt g : arr R) (vz h S Lm : R) :
  1 <= c -> 0 < dz <= h -> 0 < dx <= h -> 0 < dy <= h ->
  (1 <= dim slow 0)%Z -> (1 <= dim slow 1)%Z -> (1 <= dim slow 2)%Z ->
  0 <= S -> SlowBnd S slow -> LmixBnd dz dx dy Lm ->
  c * (2 * (3 * h * S + INR (length (all_steps3 (dim slow 0 + 1) (dim slow 1 + 1) (dim slow 2 + 1) nsweep)) * (3 * h * S))
       + 2 * S * Lm) < BigR ->
  fteik3d slow dz dx dy zsrc xsrc ysrc nsweep grad = Ok (tt, g, vz) ->
  exists tt' g', fteik3d slow (c * dz) (c * dx) (c * dy) (c * zsrc) (c * xsrc) (c * ysrc) nsweep grad = Ok (tt', g', vz) /\
                 TRel3 (dim slow 0 + 1) (dim slow 1 + 1) (dim slow 2 + 1) c tt tt' /\
                 SameReach3 (dim slow 0 + 1) (dim slow 1 + 1) (dim slow 2 + 1) tt tt'.
Proof. exact (solver_rel3_bounded c Length slow dz dx dy zsrc xsrc ysrc nsweep grad tt g vz h S Lm). Qed.

(* ========================================================================================== *)
(* 11. non-vacuity: a heterogeneous model of 2 x 2 x 2 cells (3 x 3 x 3 nodes), unit spacings,     *)
(*     source in the middle of cell (0,0,0) (off-node), two sweeps, c = 2                         *)
(* ========================================================================================== *)
Definition hx3_slow : arr R := mkarr [2%Z; 2%Z; 2%Z] [1; 1; 1; 1; 1; 1; 1; 2].

Lemma hx3_inside : inside3d hx3_slow 1 1 1 (1/2) (1/2) (1/2) = true.
Proof.
  unfold inside3d. cbn [dim shape hx3_slow nth]. nr.
  rewrite !andb_true_iff, !Rleb_true. lra.
Qed.
Lemma hx3_slowbnd : SlowBnd 2 hx3_slow.
Proof. unfold SlowBnd, hx3_slow. cbn [dat]. repeat constructor; lra. Qed.
Lemma hx3_steps : length (all_steps3 (dim hx3_slow 0 + 1) (dim hx3_slow 1 + 1) (dim hx3_slow 2 + 1) 2) = 128%nat.
Proof. reflexivity. Qed.
Lemma hx3_lmix : LmixBnd 1 1 1 2.
Proof.
  unfold LmixBnd. cbv zeta. replace (1 / 1 / 1) with 1 by field. unfold Lmix.
  replace ((1 + 1 + 1) / (1 * 1)) with 3 by field.
  assert (H : sqrt 3 <= 2) by (rewrite <- (sqrt_square 2) by lra; apply sqrt_le_1_alt; lra).
  repeat split; exact H.
Qed.
Lemma hx3_numbers :
  2 * (2 * (3 * 1 * 2 + INR (length (all_steps3 (dim hx3_slow 0 + 1) (dim hx3_slow 1 + 1) (dim hx3_slow 2 + 1) 2)) * (3 * 1 * 2))
       + 2 * 2 * 2) < BigR.
Proof. rewrite hx3_steps, INR_IZR_INZ, BigR_val. cbn [Z.of_nat Pos.of_succ_nat Pos.succ]. lra. Qed.

(* the precise caveats hold *)
Example hx3_InitCav : InitCav 2 hx3_slow 1 1 1 (1/2) (1/2) (1/2).
Proof.
  apply (InitCav_of_bound hx3_slow 1 1 1 (1/2) (1/2) (1/2) 1 2); try lra; try (cbn [dim shape hx3_slow nth]; lia).
  - exact hx3_inside.
  - exact hx3_slowbnd.
  - apply Below_ge1; rewrite ?BigR_val; lra.
Qed.
Example hx3_SweepCav : SweepCav3 2 hx3_slow 1 1 1 (1/2) (1/2) (1/2) 2.
Proof.
  unfold SweepCav3.
  apply (Along_of_bnd3 2 1 2 2 1 1 1 _ _ _ hx3_slow _ ltac:(lra) ltac:(lra) ltac:(lra) ltac:(lra) ltac:(lra) hx3_lmix ltac:(lra)
           hx3_slowbnd (3 * 1 * 2)); [lra | |].
  - apply (init_Bnd3 hx3_slow 1 1 1 (1/2) (1/2) (1/2) 1 2); try lra; try (cbn [dim shape hx3_slow nth]; lia).
    + exact hx3_inside.
    + exact hx3_slowbnd.
  - pose proof hx3_numbers as H. apply Below_ge1; [lra | | exact H].
    assert (0 <= INR (length (all_steps3 (dim hx3_slow 0 + 1) (dim hx3_slow 1 + 1) (dim hx3_slow 2 + 1) 2)) * (3 * 1 * 2))
      by (apply Rmult_le_pos; [apply pos_INR | lra]). lra.
Qed.

Example fteik3d_scale_slowness_ex :
  exists tt g vz tt' g',
    fteik3d hx3_slow 1 1 1 (1/2) (1/2) (1/2) 2 false = Ok (tt, g, vz) /\
    fteik3d (smap 2 hx3_slow) 1 1 1 (1/2) (1/2) (1/2) 2 false = Ok (tt', g', 2 * vz) /\
    TRel3 3 3 3 2 tt tt' /\ SameReach3 3 3 3 tt tt'.
Proof.
  destruct (fteik3d_raises_iff hx3_slow 1 1 1 (1/2) (1/2) (1/2) 2 false) as [_ H].
  destruct (H hx3_inside) as [[[tt g] vz] E].
  destruct (fteik3d_scale_slowness_bounded 2 hx3_slow 1 1 1 (1/2) (1/2) (1/2) 2 false tt g vz 1 2 2) as (tt' & g' & E' & HT & HR);
    try lra; try exact E; try exact hx3_slowbnd; try exact hx3_lmix; try exact hx3_numbers;
    try (cbn [dim shape hx3_slow nth]; lia).
  exists tt, g, vz, tt', g'. split; [exact E|]. split; [exact E'|]. split; [exact HT | exact HR].
Qed.

Example fteik3d_scale_length_ex :
  exists tt g vz tt' g',
    fteik3d hx3_slow 1 1 1 (1/2) (1/2) (1/2) 2 false = Ok (tt, g, vz) /\
    fteik3d hx3_slow (2 * 1) (2 * 1) (2 * 1) (2 * (1/2)) (2 * (1/2)) (2 * (1/2)) 2 false = Ok (tt', g', vz) /\
    TRel3 3 3 3 2 tt tt' /\ SameReach3 3 3 3 tt tt'.
Proof.
  destruct (fteik3d_raises_iff hx3_slow 1 1 1 (1/2) (1/2) (1/2) 2 false) as [_ H].
  destruct (H hx3_inside) as [[[tt g] vz] E].
  destruct (fteik3d_scale_length_bounded 2 hx3_slow 1 1 1 (1/2) (1/2) (1/2) 2 false tt g vz 1 2 2) as (tt' & g' & E' & HT & HR);
    try lra; try exact E; try exact hx3_slowbnd; try exact hx3_lmix; try exact hx3_numbers;
    try (cbn [dim shape hx3_slow nth]; lia).
  exists tt, g, vz, tt', g'. split; [exact E|]. split; [exact E'|]. split; [exact HT | exact HR].
Qed.

(* the same through the theorems with the precise caveat *)
Example fteik3d_scale_slowness_ex' :
  exists tt g vz tt' g',
    fteik3d hx3_slow 1 1 1 (1/2) (1/2) (1/2) 2 false = Ok (tt, g, vz) /\
    fteik3d (smap 2 hx3_slow) 1 1 1 (1/2) (1/2) (1/2) 2 false = Ok (tt', g', 2 * vz) /\
    TRel3 3 3 3 2 tt tt' /\ SameReach3 3 3 3 tt tt'.
Proof.
  destruct (fteik3d_raises_iff hx3_slow 1 1 1 (1/2) (1/2) (1/2) 2 false) as [_ H].
  destruct (H hx3_inside) as [[[tt g] vz] E].
  destruct (fteik3d_scale_slowness 2 hx3_slow 1 1 1 (1/2) (1/2) (1/2) 2 false tt g vz) as (tt' & g' & E' & HT & HR);
    try lra; try exact E; try exact hx3_InitCav; try exact hx3_SweepCav; try (cbn [dim shape hx3_slow nth]; lia).
  - exact (SlowBnd_nonneg 2 hx3_slow hx3_slowbnd).
  - exists tt, g, vz, tt', g'. split; [exact E|]. split; [exact E'|]. split; [exact HT | exact HR].
Qed.

(* one node update (node (1,1,1) of the initial grid, first pass): the caveat of the node holds and the update is related *)
Example node_rel_ex :
  let tt := tt0_3d hx3_slow 1 1 1 (1/2) (1/2) (1/2) in
  let tt' := tt0_3d (smap 2 hx3_slow) 1 1 1 (1/2) (1/2) (1/2) in
  GRel 2 tt tt' /\
  NodeCav3 2 3 3 3 hx3_slow 1 1 1 (true, true, true, 1%Z, 1%Z, 1%Z) tt /\
  GRel 2 (do_step3 3 3 3 hx3_slow (dargs3 1 1 1) (true, true, true, 1%Z, 1%Z, 1%Z) tt)
         (do_step3 3 3 3 (smap 2 hx3_slow) (dargs3 1 1 1) (true, true, true, 1%Z, 1%Z, 1%Z) tt').
Proof.
  intros tt tt'.
  assert (G : GRel 2 tt tt') by exact (init_rel3 2 Slowness ltac:(lra) hx3_slow 1 1 1 (1/2) (1/2) (1/2) hx3_InitCav).
  assert (N : NodeCav3 2 3 3 3 hx3_slow 1 1 1 (true, true, true, 1%Z, 1%Z, 1%Z) tt).
  { apply (NodeCav3_of_bnd 2 (3 * 1 * 2) 1 2 2); try lra; try exact hx3_lmix; try exact hx3_slowbnd.
    - apply Below_ge1; rewrite ?BigR_val; lra.
    - apply (init_Bnd3 hx3_slow 1 1 1 (1/2) (1/2) (1/2) 1 2); try lra; try (cbn [dim shape hx3_slow nth]; lia).
      + exact hx3_inside.
      + exact hx3_slowbnd. }
  split; [exact G|]. split; [exact N|].
  exact (do_step3_rel 2 Slowness ltac:(lra) 3 3 3 hx3_slow 1 1 1 _ tt tt' ltac:(lra) ltac:(lra) ltac:(lra)
           (SlowBnd_nonneg 2 hx3_slow hx3_slowbnd) G N).
Qed.

(* the raise behaviour: a source outside the model raises in both unit systems *)
Example fteik3d_scale_raises_ex :
  fteik3d hx3_slow 1 1 1 3 (1/2) (1/2) 2 false = Raise ValueError /\
  fteik3d (smap 2 hx3_slow) 1 1 1 3 (1/2) (1/2) 2 false = Raise ValueError /\
  fteik3d hx3_slow (2 * 1) (2 * 1) (2 * 1) (2 * 3) (2 * (1/2)) (2 * (1/2)) 2 false = Raise ValueError.
Proof.
  assert (E : fteik3d hx3_slow 1 1 1 3 (1/2) (1/2) 2 false = Raise ValueError).
  { apply fteik3d_raises_iff. unfold inside3d. cbn [dim shape hx3_slow nth]. nr.
    rewrite (proj2 (Rleb_false 3 (1 * 2))) by lra. rewrite andb_false_r. reflexivity. }
  split; [exact E|]. split.
  - apply (fteik3d_scale_slowness_raises 2); [lra | exact E].
  - apply (fteik3d_scale_length_raises 2); [lra | exact E].
Qed.

Print Assumptions node_rel.
Print Assumptions sweep_node_scale.
Print Assumptions do_step3_rel.
Print Assumptions run3_rel.
Print Assumptions fteik3d_scale_slowness.
Print Assumptions fteik3d_scale_length.
Print Assumptions fteik3d_scale_raises.
Print Assumptions solver_rel3_below.
Print Assumptions fteik3d_scale_slowness_bounded.
Print Assumptions fteik3d_scale_length_bounded.
Print Assumptions fteik3d_scale_slowness_ex.
Print Assumptions fteik3d_scale_length_ex.
