(* 2D fast-sweeping kernel (gen/Fteik2d.v: sweep, sweep2d), generic in the numeric type:
     A. sweep_tt_shape / sweep_tt_indep   one sweep call writes  min(t0, min(t1d1,t1d2), t2d)  at node (i,j)
     B. sweep2d_lowers                    one sweep2d never increases a time
     C. sweep2d_tt_indep                  the times do not depend on the gradient bookkeeping
     D. sweep2d_fixed_edges (+ _R)        at a fixed point of sweep2d adjacent nodes differ by at most
                                          edge length * min slowness of the cells adjoining the edge
   Everything holds for every T with Num T, NumLaws T (binary64 with NaN included) and all shapes. *)
From Coq Require Import ZArith List Bool Lia Reals Lra.
From FT.lib Require Import Num Arr ArrLemmas Lower.
From FT.gen Require Import Fteik2d.
Import ListNotations.
Open Scope Z_scope.

(* ------------------------------------------------------------------------------------------ *)
(* generic tools shared with the 3D file                                                        *)
(* ------------------------------------------------------------------------------------------ *)

(* chains of lowering maps *)
Section Chain.
Variables (S : Type) (ok : S -> Prop) (le : S -> S -> Prop).
Hypothesis le_refl : forall s, ok s -> le s s.
Hypothesis le_trans : forall a b c, le a b -> le b c -> le a c.
Hypothesis le_antisym : forall a b, ok a -> ok b -> le a b -> le b a -> a = b.
Notation LOW := (lowering S ok le).
Definition chain (ps : list (S -> S)) (s : S) : S := fold_left (fun t p => p t) ps s.
Lemma lowering_chain ps : Forall LOW ps -> LOW (chain ps).
Proof. unfold chain. induction ps as [|p ps IH]; intros Hp s Hs; simpl.
  - split; auto.
  - inversion Hp as [|? ? Hp1 Hp2]; subst. destruct (Hp1 s Hs) as [o1 l1].
    destruct (IH Hp2 _ o1) as [o2 l2]. split; eauto. Qed.
Lemma fixed_chain ps s : Forall LOW ps -> ok s -> chain ps s = s -> Forall (fun p => p s = s) ps.
Proof. unfold chain. revert s. induction ps as [|p ps IH]; intros s Hp Hs E; [constructor|]. simpl in E.
  inversion Hp as [|? ? Hp1 Hp2]; subst.
  destruct (fixed_comp S ok le le_antisym p (chain ps) s Hp1 (lowering_chain ps Hp2) Hs E) as [E1 E2].
  constructor; auto. Qed.
(* loop nests *)
Lemma lowering_for2 (l1 l2 : list Z) (f : Z -> Z -> S -> S) :
  (forall a b, In a l1 -> In b l2 -> LOW (f a b)) ->
  LOW (for_list l1 (fun a s => for_list l2 (f a) s)).
Proof. intros Hf. apply (lowering_for_list S ok le le_refl le_trans). intros a Ha.
  apply (lowering_for_list S ok le le_refl le_trans). intros b Hb. auto. Qed.
Lemma fixed_for2 (l1 l2 : list Z) (f : Z -> Z -> S -> S) s :
  (forall a b, In a l1 -> In b l2 -> LOW (f a b)) -> ok s ->
  for_list l1 (fun a s => for_list l2 (f a) s) s = s ->
  forall a b, In a l1 -> In b l2 -> f a b s = s.
Proof. intros Hf Hs E a b Ha Hb.
  assert (E1 : for_list l2 (f a) s = s).
  { apply (fixed_for_list S ok le le_refl le_trans le_antisym l1 (fun a s => for_list l2 (f a) s) s); auto.
    intros a' Ha'. apply (lowering_for_list S ok le le_refl le_trans). auto. }
  apply (fixed_for_list S ok le le_refl le_trans le_antisym l2 (f a) s); auto. Qed.
Lemma lowering_for3 (l1 l2 l3 : list Z) (f : Z -> Z -> Z -> S -> S) :
  (forall a b c, In a l1 -> In b l2 -> In c l3 -> LOW (f a b c)) ->
  LOW (for_list l1 (fun a s => for_list l2 (fun b s => for_list l3 (f a b) s) s)).
Proof. intros Hf. apply (lowering_for_list S ok le le_refl le_trans). intros a Ha.
  apply lowering_for2. auto. Qed.
Lemma fixed_for3 (l1 l2 l3 : list Z) (f : Z -> Z -> Z -> S -> S) s :
  (forall a b c, In a l1 -> In b l2 -> In c l3 -> LOW (f a b c)) -> ok s ->
  for_list l1 (fun a s => for_list l2 (fun b s => for_list l3 (f a b) s) s) s = s ->
  forall a b c, In a l1 -> In b l2 -> In c l3 -> f a b c s = s.
Proof. intros Hf Hs E a b c Ha Hb Hc.
  assert (E1 : for_list l2 (fun b s => for_list l3 (f a b) s) s = s).
  { apply (fixed_for_list S ok le le_refl le_trans le_antisym l1
             (fun a s => for_list l2 (fun b s => for_list l3 (f a b) s) s) s); auto.
    intros a' Ha'. apply lowering_for2. auto. }
  apply (fixed_for2 l2 l3 (f a) s); auto. Qed.
End Chain.

(* projecting a loop over a pair state onto its first component *)
Lemma for_list_proj {A B} (l : list Z) (b1 : Z -> A * B -> A * B) (b2 : Z -> A -> A) s1 s2 :
  fst s1 = s2 -> (forall i a b, In i l -> fst a = b -> fst (b1 i a) = b2 i b) ->
  fst (for_list l b1 s1) = for_list l b2 s2.
Proof. apply (for_list_rel (fun s t => fst s = t)). Qed.

(* Steps through a generated let-chain over a pair state `(tt, ttsgn)` and the hand-written let-chain over `tt`
   in lock-step.  Loops are cut out one at a time (no duplication of terms); `leaf` closes the innermost call. *)
Ltac proj_solve leaf :=
  cbv beta;
  lazymatch goal with
  | |- fst (let x := for_list ?l ?b ?s in @?F x) = (let t := for_list ?l' ?b' ?s' in @?G t) =>
      let E := fresh "E" in let X := fresh "X" in let t0 := fresh "t" in
      assert (E : fst (for_list l b s) = for_list l' b' s');
      [ apply for_list_proj; [ first [ assumption | reflexivity ] | intros ? ? ? _ ?; proj_solve leaf ]
      | revert E; generalize (for_list l b s), (for_list l' b' s'); intros X t0 E;
        change (fst (F X) = G t0); proj_solve leaf ]
  | |- fst (let x := for_list ?l ?b ?s in @?F x) = for_list ?l' ?b' ?s' =>
      let E := fresh "E" in let X := fresh "X" in let t0 := fresh "t" in
      assert (E : fst (for_list l b s) = for_list l' b' s');
      [ apply for_list_proj; [ first [ assumption | reflexivity ] | intros ? ? ? _ ?; proj_solve leaf ]
      | revert E; generalize (for_list l b s), (for_list l' b' s'); intros X t0 E;
        change (fst (F X) = t0); proj_solve leaf ]
  | |- fst (let x := ?v in @?F x) = ?r =>
      let G := eval cbv beta in (F v) in change (fst G = r); proj_solve leaf
  | |- _ => first [ assumption | leaf ]
  end.

(* direction of a loop along one axis: up = range(1, n), down = range(n-2, -1, -1) *)
Definition sgnv (up : bool) : Z := if up then 1 else 0.
Definition sgnt (up : bool) : Z := if up then 1 else -1.
Definition dir_range (up : bool) (n : Z) : list Z := if up then pyrange 1 n 1 else pyrange (n - 2) (-1) (-1).
Definition dir_ok (up : bool) (i n : Z) : Prop := if up then 1 <= i <= n - 1 else 0 <= i <= n - 2.
Lemma in_dir_range up i n : In i (dir_range up n) <-> dir_ok up i n.
Proof. destruct up; simpl; [rewrite in_pyrange_up | rewrite in_pyrange_down]; lia. Qed.
Lemma dir_ok_range up i n : dir_ok up i n -> 0 <= i < n.
Proof. destruct up; simpl; lia. Qed.

Lemma exists_dir i n : 2 <= n -> 0 <= i < n -> exists u, dir_ok u i n.
Proof. intros Hn Hi. destruct (Z_le_gt_dec 1 i); [exists true | exists false]; simpl; lia. Qed.

Lemma decomp2 n a b : 0 <= n < a * b -> 0 < b -> 0 <= n / b < a /\ 0 <= n mod b < b /\ n = (n / b) * b + n mod b.
Proof. intros Hn Hb. split; [split; [apply Z.div_pos; lia | apply Z.div_lt_upper_bound; lia] |].
  split; [apply Z.mod_pos_bound; lia |]. rewrite Z.mul_comm. apply Z.div_mod. lia. Qed.

(* ------------------------------------------------------------------------------------------ *)
(* A. one sweep call                                                                            *)
(* ------------------------------------------------------------------------------------------ *)
Section A.
Context {T : Type} `{NumLaws T}.

Definition comparable (a b t : T) : Prop := nltb b a = false -> nltb b t = true -> nltb a t = true.

Definition dz_of (dargs : T * T * T * T * T * T) : T := fst (fst (fst (fst (fst dargs)))).
Definition dx_of (dargs : T * T * T * T * T * T) : T := snd (fst (fst (fst (fst dargs)))).

(* the two 1D candidates exactly as computed in `sweep` *)
Definition sweep_t1d1 (tt slow : arr T) (dz : T) (i j sgnvz sgntz nx : Z) : T :=
  nadd (get (nofZ 0) tt [i - sgntz; j])
       (nmul dz (pymin2 (get (nofZ 0) slow [i - sgnvz; Z.max (j - 1) 0])
                        (get (nofZ 0) slow [i - sgnvz; Z.min j (nx - 2)]))).
Definition sweep_t1d2 (tt slow : arr T) (dx : T) (i j sgnvx sgntx nz : Z) : T :=
  nadd (get (nofZ 0) tt [i; j - sgntx])
       (nmul dx (pymin2 (get (nofZ 0) slow [Z.max (i - 1) 0; j - sgnvx])
                        (get (nofZ 0) slow [Z.min i (nz - 2); j - sgnvx]))).

Lemma sweep_tt_shape_strong tt slow dargs zsi xsi zsa xsa vzero i j sgnvz sgnvx sgntz sgntx nz nx :
  exists t2d : T, forall ttsgn grad,
    fst (sweep tt ttsgn slow dargs zsi xsi zsa xsa vzero i j sgnvz sgnvx sgntz sgntx nz nx grad)
    = set tt [i; j] (pymin3 (get (nofZ 0) tt [i; j])
         (pymin2 (sweep_t1d1 tt slow (dz_of dargs) i j sgnvz sgntz nx)
                 (sweep_t1d2 tt slow (dx_of dargs) i j sgnvx sgntx nz)) t2d).
Proof.
  eexists. intros ttsgn grad. unfold sweep, sweep_t1d1, sweep_t1d2, dz_of, dx_of. cbv zeta.
  lazymatch goal with |- fst (?a, _) = ?r => change (a = r) end.
  reflexivity.
Qed.

Lemma sweep_tt_shape tt ttsgn slow dargs zsi xsi zsa xsa vzero i j sgnvz sgnvx sgntz sgntx nz nx grad :
  exists t2d : T,
    fst (sweep tt ttsgn slow dargs zsi xsi zsa xsa vzero i j sgnvz sgnvx sgntz sgntx nz nx grad)
    = set tt [i; j] (pymin3 (get (nofZ 0) tt [i; j])
         (pymin2 (sweep_t1d1 tt slow (dz_of dargs) i j sgnvz sgntz nx)
                 (sweep_t1d2 tt slow (dx_of dargs) i j sgnvx sgntx nz)) t2d).
Proof.
  destruct (sweep_tt_shape_strong tt slow dargs zsi xsi zsa xsa vzero i j sgnvz sgnvx sgntz sgntx nz nx) as [t2d E].
  exists t2d. apply E.
Qed.

Lemma sweep_tt_indep tt ttsgn ttsgn' slow dargs zsi xsi zsa xsa vzero i j sgnvz sgnvx sgntz sgntx nz nx grad grad' :
  fst (sweep tt ttsgn slow dargs zsi xsi zsa xsa vzero i j sgnvz sgnvx sgntz sgntx nz nx grad)
  = fst (sweep tt ttsgn' slow dargs zsi xsi zsa xsa vzero i j sgnvz sgnvx sgntz sgntx nz nx grad').
Proof.
  destruct (sweep_tt_shape_strong tt slow dargs zsi xsi zsa xsa vzero i j sgnvz sgnvx sgntz sgntx nz nx) as [t2d E].
  rewrite (E ttsgn grad), (E ttsgn' grad'). reflexivity.
Qed.
End A.

(* ------------------------------------------------------------------------------------------ *)
(* B, C, D                                                                                      *)
(* ------------------------------------------------------------------------------------------ *)
Section P.
Context {T : Type} `{NumLaws T}.
Variables nz nx : Z.
Hypothesis Hnz : 2 <= nz.
Hypothesis Hnx : 2 <= nx.
Notation g := (get (nofZ 0)).

Definition okT (a : arr T) : Prop := wf a /\ shape a = [nz; nx].
Definition leT (a b : arr T) : Prop :=
  forall i j, 0 <= i < nz -> 0 <= j < nx -> le_or_same (g a [i; j]) (g b [i; j]).

Lemma inb_ok a i j : okT a -> 0 <= i < nz -> 0 <= j < nx -> inb a [i; j] = true.
Proof. intros [_ Hs] Hi Hj. unfold inb. rewrite Hs. cbn [inb_sh].
  repeat (apply andb_true_intro; split);
    first [ reflexivity | apply Z.leb_le; lia | apply Z.ltb_lt; lia ]. Qed.

Lemma okT_set a idx v : okT a -> okT (set a idx v).
Proof. intros [Hw Hs]. split; [apply wf_set; auto | rewrite shape_set; auto]. Qed.

Lemma get2_nth (a : arr T) d i j : shape a = [nz; nx] -> get d a [i; j] = nth (Z.to_nat (i * nx + j)) (dat a) d.
Proof. intros E. unfold get. rewrite E. unfold flat. cbn [flat_aux].
  replace ((0 * nz + i) * nx + j) with (i * nx + j) by lia. reflexivity. Qed.

Lemma arr_ext2 (a b : arr T) d : okT a -> okT b ->
  (forall i j, 0 <= i < nz -> 0 <= j < nx -> get d a [i; j] = get d b [i; j]) -> a = b.
Proof.
  intros [[La _] Sa] [[Lb _] Sb] Hg.
  assert (Ed : dat a = dat b).
  { apply nth_ext with (d := d) (d' := d); [congruence|]. intros n Hn. rewrite La, Sa in Hn.
    unfold prodZ in Hn. cbn [fold_right] in Hn.
    assert (Hn' : 0 <= Z.of_nat n < nz * nx) by lia.
    destruct (decomp2 (Z.of_nat n) nz nx Hn' ltac:(lia)) as (Hp & Hq & En).
    specialize (Hg _ _ Hp Hq). rewrite !get2_nth in Hg by assumption.
    rewrite <- En, Nat2Z.id in Hg. exact Hg. }
  destruct a, b; simpl in *. congruence.
Qed.

Lemma leT_refl a : okT a -> leT a a. Proof. intros _ i j _ _. apply los_refl. Qed.
Lemma leT_trans a b c : leT a b -> leT b c -> leT a c.
Proof. intros H1 H2 i j Hi Hj. eapply los_trans; eauto. Qed.
Lemma leT_antisym a b : okT a -> okT b -> leT a b -> leT b a -> a = b.
Proof. intros Ha Hb H1 H2. apply (arr_ext2 a b (nofZ 0) Ha Hb). intros i j Hi Hj. apply los_antisym; auto. Qed.

Notation LOW := (lowering (arr T) okT leT).

(* the traveltime component of one sweep call, as a map on traveltime arrays *)
Definition swT (slow : arr T) dargs (zsi xsi zsa xsa vzero : T) (sgnvz sgnvx sgntz sgntx i j : Z) (tt : arr T) : arr T :=
  fst (sweep tt (full [] 0) slow dargs zsi xsi zsa xsa vzero i j sgnvz sgnvx sgntz sgntx nz nx false).

Lemma swT_lowering slow dargs zsi xsi zsa xsa vzero a b c d i j :
  0 <= i < nz -> 0 <= j < nx -> LOW (swT slow dargs zsi xsi zsa xsa vzero a b c d i j).
Proof.
  intros Hi Hj tt Hok. unfold swT.
  destruct (sweep_tt_shape tt (full [] 0) slow dargs zsi xsi zsa xsa vzero i j a b c d nz nx false) as [t2d ->].
  split; [apply okT_set; auto|]. intros p q Hp Hq.
  destruct (list_eq_dec_Z [i; j] [p; q]) as [Eq|Ne].
  - injection Eq as <- <-. rewrite get_set_same; [apply pymin3_los | apply Hok | apply inb_ok; auto].
  - rewrite get_set_other; [apply los_refl | apply inb_ok; auto | apply inb_ok; auto | exact Ne].
Qed.

(* a call that leaves the array unchanged certifies that the 1D candidate is not smaller than the node value *)
Lemma swT_fixed slow dargs zsi xsi zsa xsa vzero a b c d i j tt :
  okT tt -> 0 <= i < nz -> 0 <= j < nx -> swT slow dargs zsi xsi zsa xsa vzero a b c d i j tt = tt ->
  nltb (pymin2 (sweep_t1d1 tt slow (dz_of dargs) i j a c nx) (sweep_t1d2 tt slow (dx_of dargs) i j b d nz))
       (g tt [i; j]) = false.
Proof.
  intros Hok Hi Hj. unfold swT.
  destruct (sweep_tt_shape tt (full [] 0) slow dargs zsi xsi zsa xsa vzero i j a b c d nz nx false) as [t2d ->].
  intros E.
  match type of E with set _ _ ?v = _ =>
    assert (G := get_set_same (nofZ 0) tt [i; j] v (proj1 Hok) (inb_ok tt i j Hok Hi Hj)) end.
  rewrite E in G. symmetry in G. apply pymin3_fix in G. exact G.
Qed.

(* the loop nest of sweep2d on the traveltime array alone *)
Definition sweep2dT (slow : arr T) dargs (zsi xsi zsa xsa vzero : T) (tt : arr T) : arr T :=
  let tt := for_list (pyrange 1 nx 1) (fun j tt =>
    let tt := for_list (pyrange 1 nz 1) (fun i tt => swT slow dargs zsi xsi zsa xsa vzero 1 1 1 1 i j tt) tt in
    let tt := for_list (pyrange (nz - 2) (-1) (-1)) (fun i tt => swT slow dargs zsi xsi zsa xsa vzero 0 1 (-1) 1 i j tt) tt in
    tt) tt in
  let tt := for_list (pyrange (nx - 2) (-1) (-1)) (fun j tt =>
    let tt := for_list (pyrange 1 nz 1) (fun i tt => swT slow dargs zsi xsi zsa xsa vzero 1 0 1 (-1) i j tt) tt in
    let tt := for_list (pyrange (nz - 2) (-1) (-1)) (fun i tt => swT slow dargs zsi xsi zsa xsa vzero 0 0 (-1) (-1) i j tt) tt in
    tt) tt in
  tt.

(* sweep2d projects onto sweep2dT; the only facts needed about `dargs` are its first two components *)
Lemma sweep2d_proj slow dz dx zsi xsi zsa xsa vzero :
  exists dargs, (forall tt ttsgn grad,
     fst (sweep2d tt ttsgn slow dz dx zsi xsi zsa xsa vzero nz nx grad) = sweep2dT slow dargs zsi xsi zsa xsa vzero tt)
   /\ dz_of dargs = dz /\ dx_of dargs = dx.
Proof.
  eexists. split; [| split].
  - intros tt ttsgn grad. cbv beta delta [sweep2d sweep2dT].
    proj_solve ltac:(subst; unfold swT; apply sweep_tt_indep).
  - reflexivity.
  - reflexivity.
Qed.

(* the same nest, organised by loop directions *)
Section Nest.
Variables (slow : arr T) (dargs : T * T * T * T * T * T) (zsi xsi zsa xsa vzero : T).
Notation sw := (swT slow dargs zsi xsi zsa xsa vzero).
Notation lcomp := (lowering_comp (arr T) okT leT leT_trans).
Notation lfor := (lowering_for_list (arr T) okT leT leT_refl leT_trans).
Notation fcomp := (fixed_comp (arr T) okT leT leT_antisym).
Notation ffor := (fixed_for_list (arr T) okT leT leT_refl leT_trans leT_antisym).

Definition halfT (ux uz : bool) (j : Z) : arr T -> arr T :=
  for_list (dir_range uz nz) (fun i tt => sw (sgnv uz) (sgnv ux) (sgnt uz) (sgnt ux) i j tt).
Definition passT (ux : bool) : arr T -> arr T :=
  for_list (dir_range ux nx) (fun j tt => halfT ux false j (halfT ux true j tt)).
Lemma sweep2dT_passes tt : sweep2dT slow dargs zsi xsi zsa xsa vzero tt = passT false (passT true tt).
Proof. reflexivity. Qed.

Lemma halfT_low ux uz j : 0 <= j < nx -> LOW (halfT ux uz j).
Proof. intros Hj. apply lfor. intros i Hi. apply in_dir_range, dir_ok_range in Hi. apply swT_lowering; auto. Qed.
Lemma passT_body_low ux j : In j (dir_range ux nx) -> LOW (fun tt => halfT ux false j (halfT ux true j tt)).
Proof. intros Hj. apply in_dir_range, dir_ok_range in Hj.
  apply (lcomp (halfT ux true j) (halfT ux false j)); apply halfT_low; auto. Qed.
Lemma passT_low ux : LOW (passT ux).
Proof. apply lfor. intros j Hj. apply passT_body_low; auto. Qed.
Lemma sweep2dT_low : LOW (sweep2dT slow dargs zsi xsi zsa xsa vzero).
Proof. apply (lcomp (passT true) (passT false)); apply passT_low. Qed.

(* at a fixed point of the whole nest every single call is the identity *)
Lemma sweep2dT_fixed_calls tt :
  okT tt -> sweep2dT slow dargs zsi xsi zsa xsa vzero tt = tt ->
  forall uz ux i j, dir_ok uz i nz -> dir_ok ux j nx ->
    sw (sgnv uz) (sgnv ux) (sgnt uz) (sgnt ux) i j tt = tt.
Proof.
  intros Hok E uz ux i j Hi Hj. rewrite sweep2dT_passes in E.
  destruct (fcomp (passT true) (passT false) tt (passT_low true) (passT_low false) Hok E) as [E1 E2].
  assert (Ep : passT ux tt = tt) by (destruct ux; assumption).
  pose proof (ffor _ _ tt (passT_body_low ux) Hok Ep j (proj2 (in_dir_range ux j nx) Hj)) as Eb. cbv beta in Eb.
  pose proof (dir_ok_range _ _ _ Hj) as Hj'.
  destruct (fcomp (halfT ux true j) (halfT ux false j) tt (halfT_low ux true j Hj') (halfT_low ux false j Hj') Hok Eb)
    as [Eh1 Eh2].
  assert (Eh : halfT ux uz j tt = tt) by (destruct uz; assumption).
  refine (ffor (dir_range uz nz) (fun i tt => sw (sgnv uz) (sgnv ux) (sgnt uz) (sgnt ux) i j tt) tt _ Hok Eh i
            (proj2 (in_dir_range uz i nz) Hi)).
  intros k Hk. apply in_dir_range, dir_ok_range in Hk. apply swT_lowering; auto.
Qed.

Lemma sweep2dT_fixed_dirs tt :
  okT tt -> sweep2dT slow dargs zsi xsi zsa xsa vzero tt = tt ->
  forall uz ux i j, dir_ok uz i nz -> dir_ok ux j nx ->
    let t0 := g tt [i; j] in
    let t1 := sweep_t1d1 tt slow (dz_of dargs) i j (sgnv uz) (sgnt uz) nx in
    let t2 := sweep_t1d2 tt slow (dx_of dargs) i j (sgnv ux) (sgnt ux) nz in
    nltb t1 t0 = false /\ (comparable t1 t2 t0 -> nltb t2 t0 = false).
Proof.
  intros Hok E uz ux i j Hi Hj t0 t1 t2.
  pose proof (sweep2dT_fixed_calls tt Hok E uz ux i j Hi Hj) as Ec.
  apply swT_fixed in Ec; [ | assumption | eapply dir_ok_range; eassumption | eapply dir_ok_range; eassumption ].
  fold t0 t1 t2 in Ec. split.
  - eapply pymin2_fix_l; eauto.
  - intros Hc. eapply pymin2_fix_r; eauto.
Qed.
End Nest.

(* ---------- B ---------- *)
Theorem sweep2d_lowers tt ttsgn slow dz dx zsi xsi zsa xsa vzero grad :
  okT tt ->
  okT (fst (sweep2d tt ttsgn slow dz dx zsi xsi zsa xsa vzero nz nx grad)) /\
  leT (fst (sweep2d tt ttsgn slow dz dx zsi xsi zsa xsa vzero nz nx grad)) tt.
Proof.
  intros Hok. destruct (sweep2d_proj slow dz dx zsi xsi zsa xsa vzero) as (dargs & E & _ & _).
  rewrite E. apply sweep2dT_low; auto.
Qed.

(* ---------- C ---------- *)
Theorem sweep2d_tt_indep tt ttsgn ttsgn' slow dz dx zsi xsi zsa xsa vzero grad grad' :
  fst (sweep2d tt ttsgn slow dz dx zsi xsi zsa xsa vzero nz nx grad)
  = fst (sweep2d tt ttsgn' slow dz dx zsi xsi zsa xsa vzero nz nx grad').
Proof.
  destruct (sweep2d_proj slow dz dx zsi xsi zsa xsa vzero) as (dargs & E & _ & _).
  rewrite (E tt ttsgn grad), (E tt ttsgn' grad'). reflexivity.
Qed.

(* ---------- D ---------- *)
(* smallest slowness (Python min, i.e. pymin2) of the cells adjoining an edge, with the code's clamping at the
   boundary:  Z-edge between nodes (c,j) and (c+1,j): cells (c, j-1) and (c, j);
              X-edge between nodes (i,c) and (i,c+1): cells (i-1, c) and (i, c). *)
Definition smin_zedge (slow : arr T) (c j : Z) : T :=
  pymin2 (g slow [c; Z.max (j - 1) 0]) (g slow [c; Z.min j (nx - 2)]).
Definition smin_xedge (slow : arr T) (i c : Z) : T :=
  pymin2 (g slow [Z.max (i - 1) 0; c]) (g slow [Z.min i (nz - 2); c]).

(* At a fixed point of sweep2d, for every node (i,j) with value t0:
     zup/zdn : value at the Z-neighbour above/below plus dz * (min slowness adjoining that edge) is not < t0  (always);
     xup/xdn : the same for the X-neighbours, provided the Z-candidate `z` computed in the same sweep call is
               comparable:  comparable z x t0 := (nltb x z = false -> nltb x t0 = true -> nltb z t0 = true).
   The side condition is needed because Python's min(z, x) keeps z when `x < z` is false, so a NaN z hides x
   (lib/Lower.v, pymin2_fix_r).  In a total order it always holds: not (x < z) and x < t0 give z <= x < t0; see
   comparable_R below for the real-number instance. *)
Theorem sweep2d_fixed_edges tt ttsgn slow dz dx zsi xsi zsa xsa vzero grad :
  okT tt -> fst (sweep2d tt ttsgn slow dz dx zsi xsi zsa xsa vzero nz nx grad) = tt ->
  forall i j, 0 <= i < nz -> 0 <= j < nx ->
  let t0 := g tt [i; j] in
  let zup := nadd (g tt [i - 1; j]) (nmul dz (smin_zedge slow (i - 1) j)) in
  let zdn := nadd (g tt [i + 1; j]) (nmul dz (smin_zedge slow i j)) in
  let xup := nadd (g tt [i; j - 1]) (nmul dx (smin_xedge slow i (j - 1))) in
  let xdn := nadd (g tt [i; j + 1]) (nmul dx (smin_xedge slow i j)) in
  (1 <= i -> nltb zup t0 = false) /\
  (i <= nz - 2 -> nltb zdn t0 = false) /\
  (1 <= j -> (1 <= i /\ comparable zup xup t0) \/ (i <= nz - 2 /\ comparable zdn xup t0) -> nltb xup t0 = false) /\
  (j <= nx - 2 -> (1 <= i /\ comparable zup xdn t0) \/ (i <= nz - 2 /\ comparable zdn xdn t0) -> nltb xdn t0 = false).
Proof.
  intros Hok E i j Hi Hj t0 zup zdn xup xdn.
  destruct (sweep2d_proj slow dz dx zsi xsi zsa xsa vzero) as (dargs & Ep & Edz & Edx).
  rewrite Ep in E.
  pose proof (sweep2dT_fixed_dirs slow dargs zsi xsi zsa xsa vzero tt Hok E) as F.
  rewrite Edz, Edx in F.
  (* the four (Z-direction, X-direction) instances at node (i,j), in explicit form *)
  assert (Fuu : 1 <= i -> 1 <= j -> nltb zup t0 = false /\ (comparable zup xup t0 -> nltb xup t0 = false)).
  { intros. apply (F true true i j); simpl; lia. }
  assert (Fdu : i <= nz - 2 -> 1 <= j -> nltb zdn t0 = false /\ (comparable zdn xup t0 -> nltb xup t0 = false)).
  { intros. pose proof (F false true i j ltac:(simpl; lia) ltac:(simpl; lia)) as G.
    unfold sweep_t1d1, sweep_t1d2 in G. cbn [sgnv sgnt] in G.
    replace (i - -1) with (i + 1) in G by lia. replace (i - 0) with i in G by lia. exact G. }
  assert (Fud : 1 <= i -> j <= nx - 2 -> nltb zup t0 = false /\ (comparable zup xdn t0 -> nltb xdn t0 = false)).
  { intros. pose proof (F true false i j ltac:(simpl; lia) ltac:(simpl; lia)) as G.
    unfold sweep_t1d1, sweep_t1d2 in G. cbn [sgnv sgnt] in G.
    replace (j - -1) with (j + 1) in G by lia. replace (j - 0) with j in G by lia. exact G. }
  assert (Fdd : i <= nz - 2 -> j <= nx - 2 -> nltb zdn t0 = false /\ (comparable zdn xdn t0 -> nltb xdn t0 = false)).
  { intros. pose proof (F false false i j ltac:(simpl; lia) ltac:(simpl; lia)) as G.
    unfold sweep_t1d1, sweep_t1d2 in G. cbn [sgnv sgnt] in G.
    replace (i - -1) with (i + 1) in G by lia. replace (i - 0) with i in G by lia.
    replace (j - -1) with (j + 1) in G by lia. replace (j - 0) with j in G by lia. exact G. }
  clear F. repeat split.
  - intros Hi1. destruct (Z_le_gt_dec 1 j); [apply Fuu | apply Fud]; lia.
  - intros Hi1. destruct (Z_le_gt_dec 1 j); [apply Fdu | apply Fdd]; lia.
  - intros Hj1 [[Hi1 Hc]|[Hi1 Hc]]; [apply Fuu | apply Fdu]; auto.
  - intros Hj1 [[Hi1 Hc]|[Hi1 Hc]]; [apply Fud | apply Fdd]; auto.
Qed.
End P.

(* ---------- real-number instance: no side condition, two-sided bound ---------- *)
Lemma comparable_R (a b t : R) : comparable a b t.
Proof. unfold comparable. simpl. rewrite Rltb_false, !Rltb_true. lra. Qed.

Theorem sweep2d_fixed_edges_R (nz nx : Z) (tt : arr R) ttsgn (slow : arr R) (dz dx zsi xsi zsa xsa vzero : R) grad :
  2 <= nz -> 2 <= nx ->
  okT nz nx tt -> fst (sweep2d tt ttsgn slow dz dx zsi xsi zsa xsa vzero nz nx grad) = tt ->
  (forall c j, 0 <= c <= nz - 2 -> 0 <= j <= nx - 1 ->
     (Rabs (get 0 tt [(c + 1)%Z; j] - get 0 tt [c; j]) <= dz * smin_zedge nx slow c j)%R) /\
  (forall i c, 0 <= i <= nz - 1 -> 0 <= c <= nx - 2 ->
     (Rabs (get 0 tt [i; (c + 1)%Z] - get 0 tt [i; c]) <= dx * smin_xedge nz slow i c)%R).
Proof.
  intros Hnz Hnx Hok E.
  pose proof (sweep2d_fixed_edges nz nx Hnz Hnx tt ttsgn slow dz dx zsi xsi zsa xsa vzero grad Hok E) as F.
  split.
  - intros c j Hc Hj.
    destruct (F (c + 1) j ltac:(lia) ltac:(lia)) as (A & _ & _ & _).
    destruct (F c j ltac:(lia) ltac:(lia)) as (_ & B & _ & _).
    specialize (A ltac:(lia)). specialize (B ltac:(lia)).
    replace (c + 1 - 1) with c in A by lia.
    simpl in A, B. apply Rltb_false in A, B. apply Rabs_le. lra.
  - intros i c Hi Hc.
    destruct (F i (c + 1) ltac:(lia) ltac:(lia)) as (_ & _ & A & _).
    destruct (F i c ltac:(lia) ltac:(lia)) as (_ & _ & _ & B).
    specialize (A ltac:(lia)). specialize (B ltac:(lia)).
    replace (c + 1 - 1) with c in A by lia.
    assert (A' := A ltac:(destruct (Z_le_gt_dec 1 i); [left | right]; split; try lia; apply comparable_R)).
    assert (B' := B ltac:(destruct (Z_le_gt_dec 1 i); [left | right]; split; try lia; apply comparable_R)).
    simpl in A', B'. apply Rltb_false in A', B'. apply Rabs_le. lra.
Qed.

Print Assumptions sweep2d_lowers.
Print Assumptions sweep2d_tt_indep.
Print Assumptions sweep2d_fixed_edges.
Print Assumptions sweep2d_fixed_edges_R.
