(* Tools shared by SafetySolve2d.v and SafetySolve3d.v (independent of the generated solvers):
     TruncDivLaw, TruncLaws    the facts about int() / np.round() / division the subscripts of the solvers rely on
     TruncDivLawR, TruncLawsR  both hold for exact real arithmetic
     TruncDivLawF              the first holds for binary64 (NaN and infinities included);
     trunc_round_div_range_F_needs_bound   the second needs a bound on the cell count for binary64
     okw                       an obligation walker with one invariant per state type
   Compile proofs/SafetyTools.v first. *)
From Coq Require Import ZArith List Bool Lia Reals Lra.
From FT.lib Require Import Num Arr ArrLemmas.
From FT.proofs Require Import SafetyTools.
Import ListNotations.
Open Scope Z_scope.

(* ------------------------------------------------------------------------------------------ *)
(* numeric laws                                                                                 *)
(* ------------------------------------------------------------------------------------------ *)
(* z is a source coordinate, d the grid spacing along the same axis, n the number of cells along it:
   - the source cell index int(z / d) is not negative;
     (class TruncDivLaw: all the 3D solver needs; proved below for the reals and for binary64)
   - when the source is snapped to a node, int(np.round(z / d)) is a node index (0 .. n), provided the cell count n is
     one the numeric type represents exactly (`cells_ok n`: every n for the reals; for binary64 the law fails for
     n = 2^53 + 3, see `trunc_round_div_range_F_needs_bound` at the end of this file, so cells_ok has to bound n). *)
Class TruncDivLaw (T : Type) `{Num T} : Prop := {
  trunc_div_nonneg : forall z d : T,
    nleb (nofZ 0) z = true -> nltb (nofZ 0) d = true -> 0 <= ntrunc (ndiv z d) }.
Class TruncLaws (T : Type) `{Num T} := {
  trunc_div_law : TruncDivLaw T;
  cells_ok : Z -> Prop;
  trunc_round_div_range : forall (z d : T) (n : Z),
    cells_ok n -> nleb (nofZ 0) z = true -> nltb (nofZ 0) d = true -> nleb z (nmul d (nofZ n)) = true ->
    0 <= ntrunc (nround (ndiv z d)) <= n }.
#[global] Existing Instance trunc_div_law.

(* ------------------------------------------------------------------------------------------ *)
(* an obligation walker with one invariant per state type                                       *)
(* ------------------------------------------------------------------------------------------ *)
(* `kinv A` / `linv S` (Ltac functions returning a predicate) give the invariant assumed of the argument of a let-bound
   continuation of type A -> bool / of a loop state of type S; when `kinv` fails the continuation is inlined.
   `post x Hx v` decides what is remembered of an ordinary binding x := v (Hx : x = v),
   `unfh H` unfolds an invariant hypothesis, `isolve` proves an invariant of a state expression, `istep s` proves the
   invariant of `body i s` from the invariant of s. *)
Lemma andb_intro2 (a b : bool) : a = true -> b = true -> a && b = true.
Proof. intros -> ->. reflexivity. Qed.

Ltac conj_step :=
  lazymatch goal with |- andb ?a ?b = true => refine (andb_intro2 a b _ _) end.

Ltac triv_k :=
  lazymatch goal with
  | |- true = true => reflexivity
  | |- (let x := ?v in @?F x) = true => refine (let_eq_true v F _); intros ? _; cbv beta; triv_k
  end.

Ltac norm_hyps :=
  repeat match goal with
  | H : _ /\ _ |- _ => destruct H
  | H : true = true -> _ |- _ => specialize (H eq_refl)
  | H : false = true -> _ |- _ => clear H
  end.

Ltac let_post2 x Hx v :=
  lazymatch type of x with
  | arr _ =>
      let S := fresh "S" in
      pose proof (f_equal shape Hx) as S; rewrite ?shape_set, ?shape_set_sub in S;
      cbn [shape full fill] in S;
      try match type of S with
          | _ = shape ?a => match goal with Ha : shape a = _ |- _ => rewrite Ha in S end
          end;
      lazymatch v with
      | full _ _ => idtac
      | _ => clear Hx
      end
  | Z => idtac
  | _ => clear Hx
  end.

Ltac okw kinv linv post unfh isolve istep leaf :=
  lazymatch goal with
  | |- true = true => reflexivity
  | |- andb _ _ = true => conj_step; okw kinv linv post unfh isolve istep leaf
  | |- (let x := ?v in @?F x) = true =>
      let tv := type of v in
      lazymatch tv with
      | ?A -> bool =>
          let Ht := fresh "Ht" in
          tryif (assert (Ht : forall u, v u = true) by (intro; cbv beta; triv_k))
          then (refine (let_fun_true v F Ht _); clear Ht;
                let k := fresh "k" in let Hk := fresh "Hk" in
                intros k Hk; cbv beta; okw kinv linv post unfh isolve istep leaf)
          else tryif (let P := kinv A in idtac)
          then (let P := kinv A in
                refine (let_fun_true_pre P v F _ _);
                [ let u := fresh "u" in let Hu := fresh "Hu" in
                  intros u Hu; unfh Hu; norm_hyps; cbv beta; okw kinv linv post unfh isolve istep leaf
                | let k := fresh "k" in let Hk := fresh "Hk" in
                  intros k Hk; cbv beta; okw kinv linv post unfh isolve istep leaf ])
          else (let G := eval cbv beta in (F v) in change (G = true);
                okw kinv linv post unfh isolve istep leaf)
      | _ =>
          lazymatch v with
          | fst _ => let v' := eval cbn beta iota delta [fst snd] in v in
                     let G := eval cbv beta in (F v') in change (G = true)
          | snd _ => let v' := eval cbn beta iota delta [fst snd] in v in
                     let G := eval cbv beta in (F v') in change (G = true)
          | pair _ _ => let G := eval cbv beta in (F v) in change (G = true)
          | for_list _ _ ?st =>
              let x := fresh "x" in let Hx := fresh "Hx" in
              refine (let_eq_true v F _); intros x Hx; cbv beta;
              let S := type of st in
              let Pinv := linv S in
              let Sx := fresh "Sx" in
              assert (Sx : Pinv x) by (rewrite Hx; isolve); clear Hx; unfh Sx; norm_hyps
          | _ =>
              let x := fresh "x" in let Hx := fresh "Hx" in
              refine (let_eq_true v F _); intros x Hx; cbv beta; post x Hx v
          end;
          okw kinv linv post unfh isolve istep leaf
      end
  | |- (if ?c then ?a else ?b) = true =>
      let c' := eval cbn [andb negb orb] in c in
      lazymatch c' with
      | true => change (a = true); okw kinv linv post unfh isolve istep leaf
      | false => change (b = true); okw kinv linv post unfh isolve istep leaf
      | context [Z.eqb ?p ?q] =>
          let E := fresh "E" in
          destruct (Z.eqb p q) eqn:E; [ apply Z.eqb_eq in E | apply Z.eqb_neq in E ];
          use_imps; norm_hyps;
          okw kinv linv post unfh isolve istep leaf
      | _ => let E := fresh "E" in destruct c eqn:E; bool_hyps_ns; okw kinv linv post unfh isolve istep leaf
      end
  | |- for_list_ok _ _ _ ?st = true =>
      let S := type of st in
      let Pinv := linv S in
      let s := fresh "s" in let Hs := fresh "Hs" in let Hi := fresh "Hi" in
      apply (for_list_ok_inv Pinv);
      [ isolve
      | intros ? s Hi Hs; split;
        [ istep s | unfh Hs; norm_hyps; cbv beta; okw kinv linv post unfh isolve istep leaf ] ]
  | |- obD false _ = true => reflexivity
  | Hk : forall u, ?k u = true |- ?k _ = true => apply Hk
  | Hk : forall u, _ -> ?k u = true |- ?k _ = true => apply Hk; isolve
  | |- (fun _ => _) _ = true => cbv beta; okw kinv linv post unfh isolve istep leaf
  | |- _ => leaf
  end.

(* ------------------------------------------------------------------------------------------ *)
(* the laws for exact real arithmetic                                                           *)
(* ------------------------------------------------------------------------------------------ *)
Lemma Int_part_spec (x : R) (k : Z) : (IZR k <= x < IZR k + 1)%R -> Int_part x = k.
Proof.
  intros [H1 H2]. destruct (base_Int_part x) as [B1 B2].
  assert (A1 : (IZR (Int_part x) < IZR (k + 1))%R) by (rewrite plus_IZR; lra).
  assert (A2 : (IZR k < IZR (Int_part x + 1))%R) by (rewrite plus_IZR; lra).
  apply lt_IZR in A1, A2. lia.
Qed.
Lemma Int_part_nonneg (x : R) : (0 <= x)%R -> 0 <= Int_part x.
Proof.
  intros Hx. destruct (base_Int_part x) as [B1 B2].
  assert (A : (IZR (-1) < IZR (Int_part x))%R) by (simpl; lra).
  apply lt_IZR in A. lia.
Qed.
Lemma Int_part_le (x : R) (n : Z) : (x <= IZR n)%R -> Int_part x <= n.
Proof.
  intros Hx. destruct (base_Int_part x) as [B1 B2].
  assert (A : (IZR (Int_part x) < IZR (n + 1))%R) by (rewrite plus_IZR; lra).
  apply lt_IZR in A. lia.
Qed.
Lemma Rtrunc_IZR (k : Z) : 0 <= k -> Rtrunc (IZR k) = k.
Proof.
  intros Hk. unfold Rtrunc. destruct (Rle_dec 0 (IZR k)) as [_ | N].
  - apply Int_part_spec. lra.
  - exfalso. apply N. apply IZR_le in Hk. exact Hk.
Qed.
(* np.round of a real in [0, n] is an integer in [0, n] *)
Lemma Rround_range (x : R) (n : Z) : (0 <= x <= IZR n)%R -> exists m, Rround x = IZR m /\ 0 <= m <= n.
Proof.
  intros [H0 Hn]. unfold Rround.
  pose proof (Int_part_nonneg x H0) as F0. pose proof (Int_part_le x n Hn) as Fn.
  destruct (base_Int_part x) as [B1 B2].
  set (f := Int_part x) in *.
  assert (Hlt : (1 / 2 <= x - IZR f)%R -> f + 1 <= n).
  { intros Hr. assert (A : (IZR f < IZR n)%R) by lra. apply lt_IZR in A. lia. }
  destruct (Rlt_dec (x - IZR f) (1 / 2)) as [L | L]; [ exists f; split; [ reflexivity | lia ] | ].
  destruct (Rlt_dec (1 / 2) (x - IZR f)) as [G | G]; [ exists (f + 1); split; [ reflexivity | ]; split; [ lia | apply Hlt; lra ] | ].
  destruct (Z.even f); [ exists f; split; [ reflexivity | lia ] | exists (f + 1); split; [ reflexivity | ] ].
  split; [ lia | apply Hlt; lra ].
Qed.

Lemma trunc_div_nonneg_R (z d : R) : Rleb 0 z = true -> Rltb 0 d = true -> 0 <= Rtrunc (z / d).
Proof.
  intros Hz Hd. apply Rleb_true in Hz. apply Rltb_true in Hd.
  assert (Hq : (0 <= z / d)%R) by (apply Rle_mult_inv_pos; assumption).
  unfold Rtrunc. destruct (Rle_dec 0 (z / d)) as [_ | N]; [ | contradiction ].
  apply Int_part_nonneg. exact Hq.
Qed.
Lemma trunc_round_div_range_R (z d : R) (n : Z) :
  Rleb 0 z = true -> Rltb 0 d = true -> Rleb z (d * IZR n) = true -> 0 <= Rtrunc (Rround (z / d)) <= n.
Proof.
  intros Hz Hd Hn. apply Rleb_true in Hz, Hn. apply Rltb_true in Hd.
  assert (Hq : (0 <= z / d)%R) by (apply Rle_mult_inv_pos; assumption).
  assert (Hq' : (z / d <= IZR n)%R).
  { apply Rmult_le_reg_r with d; [ exact Hd | ]. unfold Rdiv. rewrite Rmult_assoc, Rinv_l by lra. lra. }
  destruct (Rround_range (z / d) n (conj Hq Hq')) as (m & -> & Hm).
  rewrite Rtrunc_IZR by lia. exact Hm.
Qed.

#[global] Instance TruncDivLawR : @TruncDivLaw R NumR := @Build_TruncDivLaw R NumR trunc_div_nonneg_R.
#[global] Instance TruncLawsR : @TruncLaws R NumR :=
  @Build_TruncLaws R NumR TruncDivLawR (fun _ => True) (fun z d n _ => trunc_round_div_range_R z d n).

(* ------------------------------------------------------------------------------------------ *)
(* binary64                                                                                     *)
(* ------------------------------------------------------------------------------------------ *)
(* TruncDivLaw holds for binary64, NaN and infinities included: a quotient of a non-negative by a positive float is
   never a negative finite number.  The second law of TruncLaws is not proved for binary64 (it needs the error analysis
   of z <= fl(d * n) -> fl(z / d) <= n, then np.round and int on an integer-valued float); it is false without a
   bound on n, as the example shows. *)
From Coq Require Import PrimFloat FloatOps FloatAxioms SpecFloat.

Definition sf_nonneg (x : spec_float) : Prop := match x with S754_finite true _ _ => False | _ => True end.

Lemma f_trunc_nonneg (x : float) : sf_nonneg (Prim2SF x) -> 0 <= f_trunc x.
Proof.
  unfold f_trunc. destruct (Prim2SF x) as [s | s | | s m e]; cbn [sf_nonneg]; try lia.
  destruct s; [ contradiction | intros _ ].
  destruct (0 <=? e) eqn:E.
  - apply Z.leb_le in E. apply Z.mul_nonneg_nonneg; [ lia | apply Z.pow_nonneg; lia ].
  - apply Z.leb_gt in E. apply Z.div_pos; [ lia | apply Z.pow_pos_nonneg; lia ].
Qed.

Lemma binary_round_aux_nonneg mx ex lx : sf_nonneg (binary_round_aux prec emax false mx ex lx).
Proof.
  unfold binary_round_aux.
  destruct (shr_fexp prec emax mx ex lx) as [mrs' e'].
  destruct (shr_fexp prec emax (round_nearest_even (shr_m mrs') (loc_of_shr_record mrs')) e' loc_Exact) as [mrs'' e''].
  destruct (shr_m mrs''); [ exact I | destruct (Zle_bool e'' (emax - prec)); exact I | exact I ].
Qed.

Lemma SFdiv_nonneg (x y : spec_float) :
  SFleb (S754_zero false) x = true -> SFltb (S754_zero false) y = true -> sf_nonneg (SFdiv prec emax x y).
Proof.
  destruct x as [sx | sx | | sx mx ex], y as [sy | sy | | sy my ey];
    cbn [SFleb SFltb SFcompare]; try discriminate;
    try destruct sx; try destruct sy; try discriminate; intros _ _; try exact I.
  cbn [SFdiv xorb].
  destruct (SFdiv_core_binary prec emax (Z.pos mx) ex (Z.pos my) ey) as [[mz ez] lz].
  apply binary_round_aux_nonneg.
Qed.

Lemma trunc_div_nonneg_F (z d : float) :
  PrimFloat.leb (f_ofZ 0) z = true -> PrimFloat.ltb (f_ofZ 0) d = true -> 0 <= f_trunc (PrimFloat.div z d).
Proof.
  change (f_ofZ 0) with 0%float. rewrite leb_spec, ltb_spec.
  change (Prim2SF 0%float) with (S754_zero false). intros Hz Hd.
  apply f_trunc_nonneg. rewrite div_spec. apply SFdiv_nonneg; assumption.
Qed.

#[global] Instance TruncDivLawF : @TruncDivLaw float NumF := @Build_TruncDivLaw float NumF trunc_div_nonneg_F.

(* without a bound on the cell count the second law fails for binary64: n = 2^53 + 3 is not a float, nofZ n rounds
   to 2^53 + 4, and the source z = 2^53 + 4 (spacing 1) passes the domain test but gives the node index n + 1 *)
Lemma trunc_round_div_range_F_needs_bound :
  exists (z d : float) (n : Z),
    nleb (nofZ 0) z = true /\ nltb (nofZ 0) d = true /\ nleb z (nmul d (nofZ n)) = true /\
    n < ntrunc (nround (ndiv z d)).
Proof.
  exists (f_ofZ (2 ^ 53 + 4)), (f_ofZ 1), (2 ^ 53 + 3). vm_compute. repeat split; reflexivity.
Qed.

Print Assumptions TruncLawsR.
Print Assumptions TruncDivLawF.
Print Assumptions trunc_round_div_range_F_needs_bound.
